(* RtpRoundTrip.v — C01 (SRTP): srtp_unprotect applied to what srtp_protect puts on the
   wire (rtp_wire of RtpSpec.v) returns exactly the RTP packet, in place and out of place.

   Domain (stated in the theorem):
   - sender and receiver streams with the same keys and services;
   - the receiver's index estimate for the packet's sequence number is the sender's index,
     status st_ok, and the replay check passes;
   - the receiver selects the sender's key (first key without MKI; with MKI: distinct MKI
     values and one tag length, lemma key_selected_nodup);
   - the key-usage charge does not hit the hard limit;
   - no cryptex, no header-extension cipher (the classes covered by RtpSpecProofs.v). *)
From Coq Require Import NArith ZArith List Bool Lia.
From Srtp Require Import Util Constants KeyLimit Rdb Rdbx Icm World Stream Rtp
     MonadLemmas EnvelopeProofs WfProofs BoundsRtcp BoundsRtp LengthProofs RtcpSpec RtpSpec RtpSpecProofs.
Import ListNotations.
Local Open Scope Z_scope.

(* ===================================================================== *)
(* 1. pure facts                                                          *)
(* ===================================================================== *)
Lemma beqb_refl a : beqb a a = true.
Proof. induction a as [|x a IH]; [reflexivity|]. cbn. rewrite N.eqb_refl, IH. reflexivity. Qed.
Lemma beqb_eq a b : beqb a b = true -> a = b.
Proof.
  revert b. induction a as [|x a IH]; intros [|y b] H; cbn in H; try discriminate; [reflexivity|].
  apply andb_true_iff in H. destruct H as [H1 H2]. apply N.eqb_eq in H1. subst y. f_equal. exact (IH _ H2).
Qed.

(* ---- header fields only depend on the first octets ---- *)
Lemma nth_take {A} i n (l : list A) d : (i < n)%nat -> nth i (take n l) d = nth i l d.
Proof.
  revert i l. induction n as [|n IH]; intros i l H; [lia|].
  destruct l as [|x l]; [destruct i; reflexivity|]. destruct i as [|i]; [reflexivity|]. cbn. apply IH. lia.
Qed.
Lemma nthb_prefix a b n i : take n a = take n b -> (i < n)%nat -> nthb a i = nthb b i.
Proof. intros E H. unfold nthb. rewrite <- (nth_take i n a), <- (nth_take i n b) by exact H. rewrite E. reflexivity. Qed.
Lemma be16_prefix a b n o : take n a = take n b -> (o + 2 <= n)%nat -> be16 a o = be16 b o.
Proof. intros E H. rewrite <- (be16_take a n o H), <- (be16_take b n o H), E. reflexivity. Qed.
Lemma be32_take l m o : (o + 4 <= m)%nat -> be32 (take m l) o = be32 l o.
Proof. intros H. unfold be32. rewrite slice_take by exact H. reflexivity. Qed.
Lemma be32_prefix a b n o : take n a = take n b -> (o + 4 <= n)%nat -> be32 a o = be32 b o.
Proof. intros E H. rewrite <- (be32_take a n o H), <- (be32_take b n o H), E. reflexivity. Qed.

Lemma hdr_prefix a b n :
  take n a = take n b -> (12 <= n)%nat -> (hdr_x b = 1 -> hdr_len b + 4 <= Z.of_nat n) ->
  hdr_cc a = hdr_cc b /\ hdr_x a = hdr_x b /\ hdr_seq a = hdr_seq b /\ hdr_ssrc a = hdr_ssrc b /\
  hdr_len a = hdr_len b /\ enc0 a = enc0 b.
Proof.
  intros E H12 HX.
  assert (E0 : nthb a 0 = nthb b 0) by (apply (nthb_prefix a b n); [exact E|lia]).
  assert (Ecc : hdr_cc a = hdr_cc b) by (unfold hdr_cc; rewrite E0; reflexivity).
  assert (Ex : hdr_x a = hdr_x b) by (unfold hdr_x; rewrite E0; reflexivity).
  assert (Ehl : hdr_len a = hdr_len b) by (unfold hdr_len; rewrite Ecc; reflexivity).
  split; [exact Ecc|]. split; [exact Ex|].
  split; [unfold hdr_seq; apply (be16_prefix a b n); [exact E|lia]|].
  split; [unfold hdr_ssrc; apply (be32_prefix a b n); [exact E|lia]|].
  split; [exact Ehl|].
  unfold enc0. rewrite Ex, Ehl. destruct (hdr_x b =? 1) eqn:EX; [|reflexivity]. apply Z.eqb_eq in EX.
  specialize (HX EX). f_equal. unfold xtn_len. rewrite Ehl. f_equal. f_equal.
  pose proof (hdr_cc_range b). pose proof (hdr_len_eq b).
  apply (be16_prefix a b n); [exact E|]. unfold zn. lia.
Qed.

Lemma enc0_eq p : hdr_x p = 1 -> enc0 p = hdr_len p + xtn_len p.
Proof. intros X. unfold enc0. rewrite X. reflexivity. Qed.
Lemma enc0_eq0 p : hdr_x p <> 1 -> enc0 p = hdr_len p.
Proof. intros X. unfold enc0. destruct (hdr_x p =? 1) eqn:E; [apply Z.eqb_eq in E; contradiction|lia]. Qed.

(* a longer packet with the same header is valid too *)
Lemma validate_rtp_longer a b La Lb :
  validate_rtp b Lb = st_ok -> Lb <= La ->
  hdr_cc a = hdr_cc b -> hdr_x a = hdr_x b -> enc0 a = enc0 b ->
  validate_rtp a La = st_ok.
Proof.
  intros V HL Ecc Ex Ee. apply validate_rtp_ok in V. destruct V as (V1 & V2 & V3).
  assert (Ehl : hdr_len a = hdr_len b) by (unfold hdr_len; rewrite Ecc; reflexivity).
  unfold validate_rtp. change octets_in_rtp_header_c with 12. change octets_in_rtp_xtn_hdr_c with 4.
  pose proof (xtn_len_ge a) as XA.
  destruct (La <? 12) eqn:E1; [apply Z.ltb_lt in E1; lia|].
  destruct (La <? hdr_len a) eqn:E2; [apply Z.ltb_lt in E2; lia|].
  destruct (hdr_x a =? 1) eqn:EX; [|reflexivity]. apply Z.eqb_eq in EX.
  assert (EXb : hdr_x b = 1) by (rewrite <- Ex; exact EX). specialize (V3 EXb).
  rewrite (enc0_eq a EX), (enc0_eq b EXb) in Ee.
  destruct (La <? hdr_len a + 4) eqn:E3; [apply Z.ltb_lt in E3; lia|].
  destruct (La <? hdr_len a + xtn_len a) eqn:E4; [apply Z.ltb_lt in E4; lia|]. reflexivity.
Qed.

(* ---- what a wire image of a plain stream consists of ---- *)
Lemma rtp_wire_plain_inv st k est pkt wire :
  s_cryptex st = false -> k_xtn_c k = None -> rtp_wire st k est pkt = Some wire ->
  validate_rtp pkt (lenZ pkt) = st_ok /\
  exists cs1 pre body,
    wire_prefix (rtp_auth st) (k_rtp_a k)
      (cipher_start (k_rtp_c k) (rtp_iv (ck_alg (k_rtp_c k)) (hdr_ssrc pkt) est)) = Some (cs1, pre) /\
    pay_body (rtp_conf st) cs1 (enc0 pkt) pkt = inl body /\
    wire = body ++ (if s_use_mki st then k_mki k else []) ++ wire_tag (k_rtp_a k) (rtp_auth st) pre body est.
Proof.
  intros CX XK H. unfold rtp_wire, rtp_wire_r in H. rewrite CX, XK in H.
  destruct (validate_rtp pkt (lenZ pkt) =? st_ok) eqn:EV; cbn [negb andb wire_xtn] in H; [|discriminate].
  apply Z.eqb_eq in EV. split; [exact EV|].
  destruct (wire_prefix _ _ _) as [[cs1 pre]|]; [|discriminate].
  rewrite (wire_crypt_plain st cs1 pkt CX) in H.
  destruct (pay_body (rtp_conf st) cs1 (enc0 pkt) pkt) as [body|e] eqn:EB; [|discriminate].
  injection H as <-. exists cs1, pre, body. split; [reflexivity|]. split; [exact EB|reflexivity].
Qed.

Lemma wire_prefix_len (do_auth : bool) a cs0 cs1 (pre : bytes) :
  wire_prefix do_auth a cs0 = Some (cs1, pre) -> 0 <= ak_prefix a ->
  lenZ pre = if do_auth then ak_prefix a else 0.
Proof.
  unfold wire_prefix. intros H HP. destruct (do_auth && negb (ak_prefix a =? 0)) eqn:E.
  - apply andb_true_iff in E. destruct E as [-> _].
    destruct (cipher_output cs0 (ak_prefix a)) as [[s cs'] ks] eqn:EP.
    destruct (s =? st_ok) eqn:ES; cbn [negb] in H; [|discriminate]. injection H as _ <-.
    pose proof (cipher_output_ok_length _ _ _ _ _ EP ES). unfold lenZ, zn in *. lia.
  - injection H as _ <-. destruct do_auth; [|reflexivity]. cbn [andb] in E.
    apply negb_false_iff, Z.eqb_eq in E. rewrite E. reflexivity.
Qed.

Lemma wire_tag_len a (do_auth : bool) (pre body : bytes) est :
  akey_wf a -> lenZ pre = (if do_auth then ak_prefix a else 0) ->
  lenZ (wire_tag a do_auth pre body est) = ak_tag a.
Proof.
  intros TA LP. pose proof TA as [T KP]. rewrite max_tag_value in T. unfold wire_tag. destruct do_auth.
  - rewrite lenZ_app. pose proof (auth_compute_length a (body ++ take 4 (be64 (est * 65536))) ltac:(lia)) as LC.
    unfold lenZ in *. rewrite drop_length.
    destruct (ak_kind a =? SRTP_HMAC_SHA1_c); lia.
  - apply lenZ_zeros. lia.
Qed.

Lemma pay_body_inv conf cs es pkt body :
  pay_body conf cs es pkt = inl body -> 0 <= es <= lenZ pkt ->
  exists o, body = take (zn es) pkt ++ o /\ length o = length (drop (zn es) pkt) /\
            (if conf then exists cs', cipher_encrypt cs o = (st_ok, cs', drop (zn es) pkt)
             else o = drop (zn es) pkt).
Proof.
  unfold pay_body. intros H Hes. destruct conf.
  - destruct (cipher_encrypt cs (drop (zn es) pkt)) as [[s c2] o] eqn:EE.
    destruct (s =? st_ok) eqn:ES; cbn [negb] in H; [|discriminate]. injection H as <-.
    destruct (cipher_encrypt_involutive _ _ _ _ _ EE ES) as [I1 I2].
    exists o. split; [reflexivity|]. split; [exact I2|]. exists c2. exact I1.
  - injection H as <-. exists (drop (zn es) pkt). split; [symmetry; apply take_drop_id|]. split; reflexivity.
Qed.

(* ---- key selection on the receiver side ---- *)
Definition key_selected (rt : stream) (ki : Z) (k : skeys) : Prop :=
  if s_use_mki rt then find_mki (s_keys rt) (k_mki k) 0 = Some (ki, k) /\ rtp_tag0 rt = ak_tag (k_rtp_a k)
  else hd_error (s_keys rt) = Some k /\ ki = 0.

Lemma find_mki_nodup ks : forall i j k,
  NoDup (map k_mki ks) -> nth_error ks i = Some k -> find_mki ks (k_mki k) j = Some (j + Z.of_nat i, k).
Proof.
  induction ks as [|k0 t IH]; intros i j k ND H; [destruct i; discriminate|].
  cbn [map] in ND. inversion ND as [|? ? NI ND']; subst. cbn [find_mki]. destruct i as [|i].
  - cbn in H. injection H as ->. rewrite beqb_refl. f_equal. f_equal. lia.
  - cbn [nth_error] in H. destruct (beqb (k_mki k0) (k_mki k)) eqn:EB.
    + exfalso. apply NI. apply beqb_eq in EB. rewrite EB. apply in_map. exact (nth_error_In _ _ H).
    + rewrite (IH i (j + 1) k ND' H). f_equal. f_equal. lia.
Qed.

(* distinct MKI values, one tag length: the receiver finds the sender's key *)
Lemma key_selected_nodup rt i k :
  NoDup (map k_mki (s_keys rt)) ->
  (forall k', In k' (s_keys rt) -> ak_tag (k_rtp_a k') = ak_tag (k_rtp_a k)) ->
  nth_error (s_keys rt) (if s_use_mki rt then i else O) = Some k ->
  key_selected rt (if s_use_mki rt then Z.of_nat i else 0) k.
Proof.
  intros ND UT H. unfold key_selected. destruct (s_use_mki rt).
  - split; [exact (find_mki_nodup _ _ 0 _ ND H)|].
    unfold rtp_tag0. destruct (s_keys rt) as [|k0 t] eqn:EK; [destruct i; discriminate|].
    apply UT. left. reflexivity.
  - split; [|reflexivity]. destruct (s_keys rt); [discriminate|]. exact H.
Qed.

(* rtp_wire only looks at these fields of the stream *)
Lemma rtp_wire_cfg st st' k est pkt :
  s_rtp_serv st' = s_rtp_serv st -> s_cryptex st' = s_cryptex st -> s_use_mki st' = s_use_mki st ->
  s_enc_xtn st' = s_enc_xtn st -> rtp_wire st' k est pkt = rtp_wire st k est pkt.
Proof.
  intros E1 E2 E3 E4. unfold rtp_wire, rtp_wire_r, wire_crypt, rtp_conf, rtp_auth. rewrite E1, E2, E3, E4. reflexivity.
Qed.

(* ===================================================================== *)
(* 2. srtp_unprotect on a wire image                                      *)
(* ===================================================================== *)
Section ST3.
Variables (L C : Z) (al : bool) (src d0 : bytes).
Notation S := (St L C al src d0).
Lemma t_get_s ss D E : tri (S ss D) get_s (fun s w => s = ss /\ S ss D w) E.
Proof. intros w HI. cbn. split; [exact (proj1 HI)|exact HI]. Qed.
(* a write inside the packet region, which may extend beyond *out_len (in place) *)
Lemma t_wr_in2 ss P fs off v E :
  0 <= off -> off + lenZ v <= lenZ P -> off + lenZ v <= C -> Forall (away off (lenZ v)) fs ->
  tri (S ss (facts_ok ((0, P) :: fs))) (wr_dst off v) (fun _ => S ss (facts_ok ((0, splice (zn off) v P) :: fs))) E.
Proof.
  intros H1 H2 H3 H4. apply t_wr_dst; [exact H1|exact H3|].
  intros dd Hl Hf. apply facts_write_in; assumption.
Qed.
End ST3.

Lemma take_app_n {A} (a b : list A) n : length a = n -> take n (a ++ b) = a.
Proof. intros <-. apply take_app_exact. Qed.
Lemma slice_app_n {A} (a b : list A) n o m : length a = n -> slice (n + o) m (a ++ b) = slice o m b.
Proof. intros <-. apply slice_app_r. Qed.

Lemma slice_app_n0 {A} (a b : list A) n m : length a = n -> slice n m (a ++ b) = take m b.
Proof. intros <-. rewrite <- (Nat.add_0_r (length a)), slice_app_r. reflexivity. Qed.

Lemma fact0_prefix dd (P : bytes) n : fact_ok dd (0, P) -> (n <= length P)%nat -> fact_ok dd (0, take n P).
Proof.
  intros [_ H] Hn. cbn [fst snd] in H. split; [cbn [fst]; lia|]. cbn [fst snd]. change (zn 0) with O in *.
  rewrite slice_0 in *. rewrite take_length. replace (Nat.min n (length P)) with n by lia.
  transitivity (take n (take (length P) dd)); [rewrite take_take; f_equal; lia|rewrite H; reflexivity].
Qed.

Section RT.
Variables (L C : Z) (al : bool) (src d0 : bytes).
Variables (rt : stream) (ki : Z) (k : skeys) (est delta : Z) (pkt wire : bytes).
Variables (cs1 : cstate) (pre body o : bytes).
Hypothesis HL : 0 <= L < 9223372036854775808.
Hypothesis HC : 0 <= C < 9223372036854775808.
Hypothesis HD : C <= lenZ d0.
Hypothesis Hwire : take (zn L) (if al then d0 else src) = wire.
Hypothesis HLw : lenZ wire = L.

Let Lp := lenZ pkt.
Let es := enc0 pkt.
Let iv := rtp_iv (ck_alg (k_rtp_c k)) (hdr_ssrc pkt) est.
Let mki := if s_use_mki rt then k_mki k else [].
Let tag := wire_tag (k_rtp_a k) (rtp_auth rt) pre body est.
Let msz := s_mki_size rt.
Let tl := ak_tag (k_rtp_a k).

(* the receiver's stream *)
Hypothesis Wrt : stream_wf rt.
Hypothesis RCX : s_cryptex rt = false.
Hypothesis Hk : In k (s_keys rt).
Hypothesis XK : k_xtn_c k = None.
Hypothesis Hsel : key_selected rt ki k.
Hypothesis Hidx : est_index rt (hdr_seq pkt) = (st_ok, est, delta).
Hypothesis Hchk : rdbx_check (s_rdbx rt) delta = st_ok.
(* the wire image *)
Hypothesis EV : validate_rtp pkt Lp = st_ok.
Hypothesis EP : wire_prefix (rtp_auth rt) (k_rtp_a k) (cipher_start (k_rtp_c k) iv) = Some (cs1, pre).
Hypothesis EBo : body = take (zn es) pkt ++ o.
Hypothesis Lo : length o = length (drop (zn es) pkt).
Hypothesis Dec : if rtp_conf rt then exists cs', cipher_encrypt cs1 o = (st_ok, cs', drop (zn es) pkt)
                 else o = drop (zn es) pkt.
Hypothesis Ewire : wire = body ++ mki ++ tag.
Hypothesis HCp : Lp <= C.

Notation S := (St L C al src d0).

Lemma rt_key : lenZ (k_mki k) = msz /\ akey_wf (k_rtp_a k) /\ 0 <= msz <= 128 /\ (s_use_mki rt = false -> msz = 0).
Proof.
  pose proof (stream_wf_key _ _ Wrt Hk) as (MK & TA & _). destruct Wrt as (M & U & _). rewrite max_mki_value in M. auto.
Qed.

Lemma es_bounds : 12 <= es <= Lp.
Proof. exact (enc0_bounds _ _ EV). Qed.

Lemma len_facts :
  lenZ (take (zn es) pkt) = es /\ lenZ o = Lp - es /\ lenZ body = Lp /\ lenZ mki = msz /\ lenZ tag = tl /\
  L = Lp + msz + tl /\ 0 <= tl <= 16 /\ 0 <= ak_prefix (k_rtp_a k) <= tl.
Proof.
  pose proof es_bounds as EB. destruct rt_key as (MK & TA & M & U).
  assert (L1 : lenZ (take (zn es) pkt) = es) by (unfold Lp, lenZ, zn in *; rewrite take_length; lia).
  assert (L2 : lenZ o = Lp - es) by (unfold Lp, lenZ, zn in *; rewrite Lo, drop_length; lia).
  assert (L3 : lenZ body = Lp) by (rewrite EBo, lenZ_app; lia).
  assert (L4 : lenZ mki = msz).
  { subst mki. destruct (s_use_mki rt); [exact MK|]. rewrite (U eq_refl). reflexivity. }
  pose proof (akey_prefix_le _ TA) as PL. pose proof TA as [T _]. rewrite max_tag_value in T.
  assert (L5 : lenZ tag = tl).
  { subst tag. apply wire_tag_len; [exact TA|]. exact (wire_prefix_len _ _ _ _ _ EP (proj1 PL)). }
  repeat split; try assumption; try lia. rewrite <- HLw, Ewire, !lenZ_app. lia.
Qed.

Lemma wire_slices :
  take (zn es) wire = take (zn es) pkt /\ slice (zn 0) (zn Lp) wire = body /\
  slice (zn Lp) (zn msz) wire = mki /\ slice (zn (L - tl)) (zn tl) wire = tag /\
  slice (zn es) (zn (Lp - es)) wire = o.
Proof.
  pose proof es_bounds as EB. destruct len_facts as (L1 & L2 & L3 & L4 & L5 & L6 & T & PL).
  destruct rt_key as (_ & _ & M & _).
  assert (N1 : length (take (zn es) pkt) = zn es) by (unfold lenZ, zn in *; lia).
  assert (N2 : length body = zn Lp) by (unfold lenZ, zn in *; lia).
  assert (N3 : length mki = zn msz) by (unfold lenZ, zn in *; lia).
  assert (N4 : length tag = zn tl) by (unfold lenZ, zn in *; lia).
  assert (N5 : length o = zn (Lp - es)) by (unfold lenZ, zn in *; lia).
  split; [|split; [|split; [|split]]].
  - rewrite Ewire, take_app_le by (unfold zn in *; lia). rewrite EBo. apply take_app_n. exact N1.
  - rewrite Ewire. change (zn 0) with O. rewrite slice_app_l by lia. rewrite slice_0. apply take_all. lia.
  - rewrite Ewire. rewrite (slice_app_n0 body _ _ _ N2). apply take_app_n. exact N3.
  - rewrite Ewire, app_assoc. replace (zn (L - tl)) with (zn (Lp + msz) + 0)%nat by (unfold zn in *; lia).
    rewrite (slice_app_n (body ++ mki)) by (rewrite app_length; unfold zn in *; lia).
    rewrite slice_0. apply take_all. lia.
  - rewrite Ewire, slice_app_l by (unfold zn in *; lia). rewrite EBo.
    rewrite (slice_app_n0 _ o _ _ N1). apply take_all. lia.
Qed.

Lemma wire_hdr :
  hdr_cc wire = hdr_cc pkt /\ hdr_x wire = hdr_x pkt /\ hdr_seq wire = hdr_seq pkt /\
  hdr_ssrc wire = hdr_ssrc pkt /\ hdr_len wire = hdr_len pkt /\ enc0 wire = es.
Proof.
  pose proof es_bounds as EB. destruct wire_slices as (W1 & _).
  apply (hdr_prefix wire pkt (zn es) W1); [unfold zn; lia|].
  intros X. pose proof (xtn_len_ge pkt). fold es in EB. unfold es in *. rewrite (enc0_eq pkt X) in *. unfold zn. lia.
Qed.

Lemma wire_valid : validate_rtp wire L = st_ok.
Proof.
  destruct wire_hdr as (H1 & H2 & _ & _ & _ & H6). destruct len_facts as (_ & _ & _ & _ & _ & L6 & T & _).
  destruct rt_key as (_ & _ & M & _).
  apply (validate_rtp_longer wire pkt L Lp EV); [lia|exact H1|exact H2|exact H6].
Qed.

(* reading the input block: it holds the wire image in both modes *)
Lemma rd_wire ss fs off n E :
  0 <= off -> 0 <= n -> off + n <= L ->
  tri (S ss (facts_ok ((0, P0 al wire es) :: fs))) (rd_src off n)
      (fun d w => d = slice (zn off) (zn n) wire /\ S ss (facts_ok ((0, P0 al wire es) :: fs)) w) E.
Proof.
  intros H1 H2 H3. pose proof (in_slice L al src d0 wire Hwire off n H1 H2 H3) as I1.
  eapply t_post; [apply t_rd_src; assumption|].
  intros d w [(dd & Hf & _ & ->) Hw]. split; [|exact Hw]. unfold P0 in *. destruct al.
  - pose proof (Forall_inv Hf) as F0. apply (fact0_read _ _ _ _ F0). unfold lenZ, zn in *. lia.
  - exact I1.
Qed.

Variable ss0 ss1 : session.
Hypothesis Hget : list_get (ss_list ss0) (hdr_ssrc pkt) = Some rt.
Hypothesis Hcharge : charge_fun ss0 (hdr_ssrc pkt) rt ki = (ss1, inl tt).

Definition u_expect : upre :=
  {| u_pkt := wire; u_ssrc := hdr_ssrc pkt; u_ref := RList (hdr_ssrc pkt); u_est := est; u_delta := delta;
     u_adv := false; u_ki := ki; u_k := k; u_cs := cs1; u_iv := iv;
     u_enc_start := es; u_enc_len := Lp - es; u_inuse := false; u_inplace := false |}.

Lemma Hwire_b : take (zn L) (cur_src (b_init L C al src d0)) = wire.
Proof. exact Hwire. Qed.
Ltac norm_b :=
  change (b_len (b_init L C al src d0)) with L;
  change (b_cap (b_init L C al src d0)) with C;
  change (b_alias (b_init L C al src d0)) with al;
  rewrite ?Hwire_b.
Ltac t_false := first [apply t_bind_exit | apply t_exit]; intros ? ?; exfalso.

Lemma pre_tri :
  tri (S ss0 (eq d0)) unprotect_pre
      (fun u w => u = u_expect /\ S ss0 (facts_ok [(0, P0 al wire es)]) w) (fun _ _ => False).
Proof.
  pose proof es_bounds as EB. destruct len_facts as (L1 & L2 & L3 & L4 & L5 & L6 & T & PL).
  destruct rt_key as (MK & TA & M & U). destruct wire_slices as (W1 & W2 & W3 & W4 & W5).
  destruct wire_hdr as (H1 & H2 & H3 & H4 & H5 & H6).
  unfold unprotect_pre.
  eapply t_bind; [apply t_get_b0|intros b]. apply t_pure; intros ->.
  cbv beta zeta. norm_b.
  change octets_in_rtp_header_c with 12. change octets_in_rtp_xtn_hdr_c with 4.
  fold (enc0 wire). rewrite H6, H1, H2, H3, H4, H5.
  unfold check_st at 1. rewrite wire_valid. change (st_ok =? st_ok) with true. cbv iota. apply t_bind_ret.
  eapply t_bind; [apply t_get_s|intros ss]. apply t_pure; intros ->.
  rewrite Hget. apply t_bind_ret.
  eapply t_bind; [apply t_get_stream_list; exact Hget|intros st]. apply t_pure; intros ->.
  rewrite Hidx. cbv beta iota.
  change (st_ok =? st_ok) with true. change (st_ok =? st_pkt_idx_adv) with false. cbn [negb andb].
  apply t_bind with (R := fun eda w => eda = (est, delta, false) /\ S ss0 (eq d0) w).
  { apply t_bind_ret. rewrite Hchk. unfold check_st. change (st_ok =? st_ok) with true. cbv iota.
    apply t_bind_ret. apply t_ret. auto. }
  intros eda. apply t_pure; intros ->. cbv beta iota.
  fold (rtp_tag0 rt).
  (* the key *)
  apply t_bind with (R := fun ik w => ik = (ki, k) /\ S ss0 (eq d0) w).
  { unfold keys_by_packet. pose proof Hsel as SEL. unfold key_selected in SEL. fold msz.
    destruct (s_use_mki rt) eqn:EU; cbn [negb].
    - destruct SEL as [SF ST]. rewrite ST. fold tl.
      destruct (L <? tl) eqn:E1; [apply Z.ltb_lt in E1; lia|].
      destruct (L - tl <? msz) eqn:E2; [apply Z.ltb_lt in E2; lia|].
      eapply t_bind; [apply t_rd_src; lia|intros m]. apply t_pure; intros (dd & <- & _ & ->).
      rewrite (in_slice L al src d0 wire Hwire) by lia.
      replace (L - tl - msz) with Lp by lia. rewrite W3. unfold mki. rewrite ?EU. cbv iota. rewrite SF.
      apply t_ret. auto.
    - destruct SEL as [SF ->]. destruct (s_keys rt) as [|k0 t]; [discriminate SF|].
      cbn in SF. injection SF as ->. apply t_ret. auto. }
  intros ik. apply t_pure; intros ->. cbv beta iota. fold tl. fold msz.
  (* cryptex is off *)
  rewrite RCX. cbn [andb]. apply t_bind_ret. cbn [andb]. apply t_bind_ret.
  rewrite Z.add_0_r.
  destruct (u64 (L - tl - msz) <? u64 es) eqn:E3.
  { exfalso. apply Z.ltb_lt in E3. rewrite !u64_small in E3 by lia. lia. }
  apply t_bind_ret.
  destruct (C <? u64 (L - msz - tl)) eqn:E4.
  { exfalso. apply Z.ltb_lt in E4. rewrite u64_small in E4 by lia. lia. }
  apply t_bind_ret.
  eapply t_bind; [apply (header_copy L C al src d0 wire HD Hwire HLw); lia|intros ?].
  change (negb (Z.land (s_rtp_serv rt) sec_serv_auth_c =? 0)) with (rtp_auth rt).
  fold iv.
  apply t_bind with (R := fun cs w => cs = cs1 /\ S ss0 (facts_ok [(0, P0 al wire es)]) w).
  { pose proof EP as EP'. unfold wire_prefix in EP'.
    remember (rtp_auth rt) as ra eqn:EA in |- *. destruct ra; rewrite <- EA in EP'; cbn [andb] in EP'.
    - apply t_bind with (R := fun p w => p = (cs1, pre) /\ S ss0 (facts_ok [(0, P0 al wire es)]) w).
      { destruct (negb (ak_prefix (k_rtp_a k) =? 0)).
        - destruct (cipher_output (cipher_start (k_rtp_c k) iv) (ak_prefix (k_rtp_a k))) as [[s cs'] ks].
          destruct (negb (s =? st_ok)); [discriminate EP'|]. injection EP' as -> ->.
          destruct (SRTP_MAX_TAG_LEN_c <? ak_prefix (k_rtp_a k)) eqn:E5.
          { exfalso. apply Z.ltb_lt in E5. rewrite max_tag_value in E5. lia. }
          apply t_ret. auto.
        - injection EP' as -> ->. apply t_ret. auto. }
      intros p. apply t_pure; intros ->. cbn [fst snd].
      replace (u64 (L - tl - msz)) with Lp by (rewrite u64_small by lia; lia).
      eapply t_bind; [apply rd_wire; lia|intros m]. apply t_pure; intros ->. rewrite W2.
      set (computed := auth_compute (k_rtp_a k) (body ++ take 4 (be64 (est * 65536)))).
      assert (Etag : tag = computed ++ drop (length computed) pre).
      { unfold tag, wire_tag. rewrite <- EA. reflexivity. }
      pose proof (auth_compute_le (k_rtp_a k) (body ++ take 4 (be64 (est * 65536))) TA) as LC. fold computed in LC. fold tl in LC.
      destruct (SRTP_MAX_TAG_LEN_c <? lenZ computed) eqn:E6.
      { exfalso. apply Z.ltb_lt in E6. rewrite max_tag_value in E6. lia. }
      apply t_bind_ret.
      eapply t_bind; [apply rd_wire; lia|intros t]. apply t_pure; intros ->. rewrite W4.
      rewrite <- Etag. rewrite take_app_n by (unfold lenZ, zn in *; lia). rewrite beqb_refl.
      apply t_bind_ret. apply t_ret. auto.
    - injection EP' as -> _. apply t_ret. auto. }
  intros cs. apply t_pure; intros ->.
  apply t_ret. intros w Hw. split; [|exact Hw].
  unfold u_expect. f_equal. rewrite u64_small by lia. lia.
Qed.

(* the payload: decrypt (or copy) [es, Lp) of the input into the output; afterwards the first
   Lp octets of the destination are the RTP packet *)
Lemma dec_step ss :
  tri (S ss (facts_ok [(0, P0 al wire es)]))
      (if rtp_conf rt then
         d <- rd_src es (Lp - es) ;;
         (let '(s, _, o') := cipher_encrypt cs1 d in
          if negb (s =? st_ok) then exit_with st_cipher_fail else wr_dst es o')
       else if al then ret tt
       else (d <- rd_src es (Lp - es) ;; wr_dst es d))
      (fun _ => S ss (facts_ok [(0, pkt)])) (fun _ _ => False).
Proof.
  pose proof es_bounds as EB. destruct len_facts as (L1 & L2 & L3 & L4 & L5 & L6 & T & PL).
  destruct rt_key as (MK & TA & M & U). destruct wire_slices as (W1 & W2 & W3 & W4 & W5).
  pose proof (P0_len L al src d0 wire Hwire HLw es ltac:(lia)) as LP0.
  assert (LDr : lenZ (drop (zn es) pkt) = Lp - es) by (unfold Lp, lenZ, zn in *; rewrite drop_length; lia).
  assert (Epkt : take (zn es) pkt ++ drop (zn es) pkt = pkt) by apply take_drop_id.
  (* writing the plaintext at es *)
  assert (WR : tri (S ss (facts_ok [(0, P0 al wire es)])) (wr_dst es (drop (zn es) pkt))
                   (fun _ => S ss (facts_ok [(0, pkt)])) (fun _ _ => False)).
  { unfold P0 in *. destruct al eqn:EA.
    - eapply t_post; [apply t_wr_in2; [lia|lia|lia|constructor]|].
      intros ? w Hw. eapply St_weaken; [|exact Hw]. intros dd _ Hf. pose proof (Forall_inv Hf) as F0.
      constructor; [|constructor].
      assert (E : take (zn Lp) (splice (zn es) (drop (zn es) pkt) wire) = pkt).
      { rewrite take_splice_in by (unfold lenZ, zn in *; lia).
        change (take (zn Lp) wire) with (slice (zn 0) (zn Lp) wire). rewrite W2, EBo.
        rewrite splice_tail by (rewrite app_length; unfold lenZ, zn in *; lia).
        rewrite take_app_n by (unfold lenZ, zn in *; lia). exact Epkt. }
      rewrite <- E. apply fact0_prefix; [exact F0|]. rewrite splice_length. unfold lenZ, zn in *. lia.
    - rewrite W1. replace (wr_dst es (drop (zn es) pkt)) with (wr_dst (lenZ (take (zn es) pkt)) (drop (zn es) pkt))
        by (rewrite L1; reflexivity).
      eapply t_post; [apply t_wr_append; [exact HD|lia|constructor]|].
      intros ? w Hw. rewrite Epkt in Hw. exact Hw. }
  assert (RD : tri (S ss (facts_ok [(0, P0 al wire es)])) (rd_src es (Lp - es))
                   (fun d w => d = o /\ S ss (facts_ok [(0, P0 al wire es)]) w) (fun _ _ => False)).
  { eapply t_post; [apply rd_wire; lia|]. intros d w [-> Hw]. rewrite W5. auto. }
  pose proof Dec as Dec'.
  remember (rtp_conf rt) as cf eqn:ECF in |- *. destruct cf; rewrite <- ECF in Dec'.
  - eapply t_bind; [exact RD|intros d]. apply t_pure; intros ->.
    destruct Dec' as [cs' ED]. rewrite ED. change (st_ok =? st_ok) with true. cbn [negb]. exact WR.
  - destruct al eqn:EA.
    + apply t_ret. intros w Hw. eapply St_weaken; [|exact Hw]. intros dd _ Hf. pose proof (Forall_inv Hf) as F0.
      constructor; [|constructor]. unfold P0 in F0.
      assert (E : take (zn Lp) wire = pkt).
      { change (take (zn Lp) wire) with (slice (zn 0) (zn Lp) wire). rewrite W2, EBo, Dec'. exact Epkt. }
      rewrite <- E. apply fact0_prefix; [exact F0|]. unfold lenZ, zn in *. lia.
    + eapply t_bind; [exact RD|intros d]. apply t_pure; intros ->. rewrite Dec'. exact WR.
Qed.

Lemma post_tri :
  tri (S ss0 (facts_ok [(0, P0 al wire es)])) (unprotect_post u_expect)
      (fun l w => l = Lp /\ take (zn Lp) (b_dst (w_b w)) = pkt /\ b_oob (w_b w) = false /\ b_src (w_b w) = src)
      (fun _ _ => False).
Proof.
  pose proof es_bounds as EB.
  unfold unprotect_post.
  eapply t_bind; [apply t_get_b|intros b]. apply t_pure; intros (_ & _ & EAL).
  cbv beta zeta. rewrite EAL.
  unfold u_expect; cbn [u_pkt u_k u_ref u_enc_start u_enc_len u_inuse u_inplace u_ki u_cs u_iv u_ssrc u_adv u_est u_delta].
  eapply t_bind2; [eapply t_charge_key; exact Hget| |intros ?].
  { intros s w (ss' & EC & _). rewrite Hcharge in EC. discriminate. }
  apply t_ex; intros ss'. apply t_pure; intros EC. apply t_pure; intros Hg2.
  rewrite Hcharge in EC. injection EC as <-.
  eapply t_bind; [apply t_get_stream_list; exact Hg2|intros st]. apply t_pure; intros ->.
  rewrite XK. apply t_bind_ret. apply t_bind_ret.
  replace (negb (Z.land (s_rtp_serv (charged_stream rt ki)) sec_serv_conf_c =? 0)) with (rtp_conf rt)
    by (unfold rtp_conf; rewrite charged_serv; reflexivity).
  eapply t_bind; [apply dec_step|intros ?].
  apply t_bind_ret.
  eapply t_bind; [eapply t_check_direction; exact Hg2|intros ?].
  unfold materialize. apply t_bind_ret.
  eapply t_bind; [apply t_get_stream_list; apply dir_session_get; exact Hg2|intros st2]. apply t_pure; intros ->.
  eapply t_bind; [apply t_put_stream_list|intros ?].
  apply t_ret. intros w (h0 & h1 & h2 & h3 & h4 & h5 & h6 & h7).
  split; [rewrite u64_small by (unfold Lp in *; lia); lia|].
  split; [|auto].
  pose proof (fact_get _ _ 0 pkt h7 ltac:(left; reflexivity)) as F. change (zn 0) with O in F.
  rewrite slice_0 in F. unfold Lp. rewrite zn_len. exact F.
Qed.

Theorem unprotect_tri :
  tri (S ss0 (eq d0)) unprotect
      (fun l w => l = Lp /\ take (zn Lp) (b_dst (w_b w)) = pkt /\ b_oob (w_b w) = false /\ b_src (w_b w) = src)
      (fun _ _ => False).
Proof.
  unfold unprotect. eapply t_bind; [apply pre_tri|intros u]. apply t_pure; intros ->. apply post_tri.
Qed.
End RT.

(* ===================================================================== *)
(* 3. C01 for SRTP                                                        *)
(* ===================================================================== *)
(* st, k, est: the sender's stream (after its direction update), key and packet index;
   w: the receiver's world, whose input block holds the wire image; rt: the receiver's
   stream for the packet's SSRC *)
Theorem srtp_round_trip st k est pkt wire w rt ki delta ss1 :
  rtp_wire st k est pkt = Some wire ->
  call_ok w -> in_pkt w = wire -> lenZ pkt <= b_cap (w_b w) ->
  list_get (ss_list (w_s w)) (hdr_ssrc pkt) = Some rt -> stream_wf rt ->
  (* same services and keys on both sides; no cryptex, no header-extension cipher *)
  s_rtp_serv rt = s_rtp_serv st -> s_cryptex rt = s_cryptex st -> s_use_mki rt = s_use_mki st ->
  s_enc_xtn rt = s_enc_xtn st ->
  s_cryptex st = false -> k_xtn_c k = None ->
  In k (s_keys rt) -> key_selected rt ki k ->
  (* the receiver's estimate is the sender's index and the packet is not a replay *)
  est_index rt (hdr_seq pkt) = (st_ok, est, delta) -> rdbx_check (s_rdbx rt) delta = st_ok ->
  (* the key is not used up *)
  charge_fun (w_s w) (hdr_ssrc pkt) rt ki = (ss1, inl tt) ->
  exists w', unprotect w = (w', inl (lenZ pkt)) /\
             take (zn (lenZ pkt)) (b_dst (w_b w')) = pkt /\
             b_oob (w_b w') = false /\ b_src (w_b w') = b_src (w_b w).
Proof.
  intros HW (HO & HL & HC & HD & HS) Hin HCp Hget Wrt E1 E2 E3 E4 CX XK Hk Hsel Hidx Hchk Hch.
  rewrite <- (rtp_wire_cfg st rt k est pkt E1 E2 E3 E4) in HW. rewrite CX in E2.
  destruct (rtp_wire_plain_inv rt k est pkt wire E2 XK HW) as (EV & cs1 & pre & body & EP & EB & Ewire).
  pose proof (enc0_bounds _ _ EV) as EBn.
  destruct (pay_body_inv _ _ _ _ _ EB ltac:(lia)) as (o & EBo & Lo & Dec).
  assert (HLw : lenZ wire = b_len (w_b w)).
  { rewrite <- Hin. unfold in_pkt, lenZ, zn, size_ok in *. rewrite take_length. lia. }
  pose proof (unprotect_tri (b_len (w_b w)) (b_cap (w_b w)) (b_alias (w_b w)) (b_src (w_b w)) (b_dst (w_b w))
                rt ki k est delta pkt wire cs1 pre body o HC HD Hin HLw Wrt E2 Hk XK Hsel Hidx Hchk EV EP EBo Lo Dec
                Ewire HCp (w_s w) ss1 Hget Hch w (St_init w HO)) as T.
  destruct (unprotect w) as [w' [l|s]]; [|contradiction].
  destruct T as (-> & T2 & T3 & T4). exists w'. auto.
Qed.
Print Assumptions srtp_round_trip.

(* protect followed by unprotect: the statement of C01 on two worlds *)
Corollary srtp_protect_unprotect i ws st0 ws' l wr rt ki delta ss1 :
  (* sender *)
  call_ok ws -> list_get (ss_list (w_s ws)) (hdr_ssrc (in_pkt ws)) = Some st0 -> stream_wf st0 -> plain_stream st0 ->
  protect i ws = (ws', inl l) ->
  (* the receiver's input block holds the l octets the sender produced *)
  call_ok wr -> in_pkt wr = take (zn l) (b_dst (w_b ws')) -> b_len (w_b ws) <= b_cap (w_b wr) ->
  list_get (ss_list (w_s wr)) (hdr_ssrc (in_pkt ws)) = Some rt -> stream_wf rt ->
  s_rtp_serv rt = s_rtp_serv st0 -> s_cryptex rt = s_cryptex st0 -> s_use_mki rt = s_use_mki st0 ->
  s_enc_xtn rt = s_enc_xtn st0 -> s_keys rt = s_keys st0 ->
  (forall kj k, sender_key_st (dir_stream st0 dir_srtp_sender_c) i = inl (kj, k) -> key_selected rt ki k) ->
  (forall est st3 kj, index_step (charged_stream (dir_stream st0 dir_srtp_sender_c) kj) (hdr_seq (in_pkt ws)) = inl (est, st3) ->
                      est_index rt (hdr_seq (in_pkt ws)) = (st_ok, est, delta)) ->
  rdbx_check (s_rdbx rt) delta = st_ok ->
  charge_fun (w_s wr) (hdr_ssrc (in_pkt ws)) rt ki = (ss1, inl tt) ->
  exists wr', unprotect wr = (wr', inl (b_len (w_b ws))) /\
              take (zn (b_len (w_b ws))) (b_dst (w_b wr')) = in_pkt ws /\ b_oob (w_b wr') = false.
Proof.
  intros Hcs Hgs Wst Hpl EPr Hcr Hin HCp Hgr Wrt E1 E2 E3 E4 EK Hsel Hidx Hchk Hch.
  destruct (protect_emits_rtp_wire i ws st0 ws' l Hcs Hgs Wst Hpl EPr) as (kj & k & est & st3 & wire & SK & IS & HW & -> & Hd).
  set (st := dir_stream st0 dir_srtp_sender_c) in *.
  pose proof (dir_stream_cfg st0 dir_srtp_sender_c) as (CK & CM & CU & CXs). fold st in CK, CM, CU, CXs.
  assert (SV : s_rtp_serv st = s_rtp_serv st0 /\ s_enc_xtn st = s_enc_xtn st0).
  { unfold st, dir_stream. destruct (s_dir st0 =? _); [auto|]. destruct (s_dir st0 =? _); auto. }
  destruct SV as [SV SX]. destruct Hpl as [CX0 XK0].
  assert (Hk : In k (s_keys rt)) by (rewrite EK, <- CK; exact (sender_key_st_In _ _ _ _ SK)).
  assert (LP : lenZ (in_pkt ws) = b_len (w_b ws)).
  { destruct Hcs as (_ & HL & _ & _ & HS). unfold in_pkt, lenZ, zn, size_ok in *. rewrite take_length. lia. }
  rewrite Hd in Hin.
  destruct (srtp_round_trip st k est (in_pkt ws) wire wr rt ki delta ss1 HW Hcr Hin ltac:(lia) Hgr Wrt
              ltac:(congruence) ltac:(congruence) ltac:(congruence) ltac:(congruence) ltac:(congruence)
              (XK0 k ltac:(rewrite <- EK; exact Hk)) Hk (Hsel _ _ SK) (Hidx _ _ _ IS) Hchk Hch)
    as (wr' & U1 & U2 & U3 & _).
  rewrite LP in U1, U2. exists wr'. auto.
Qed.
Print Assumptions srtp_protect_unprotect.
