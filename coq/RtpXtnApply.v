(* RtpXtnApply.v — RFC 6904 on a block (xtn_apply of RtpSpec.v): locality (only the extension
   elements change; nothing outside the block matters) and involution (applying the walk with
   the same header-extension cipher state again gives the block back).  These are the facts the
   RFC 6904 class of the SRTP round trip rests on; the element walks themselves are in XtnProofs.v. *)
From Coq Require Import NArith ZArith List Bool Lia.
From Srtp Require Import XtnProofs.
From Srtp Require Import Util Constants KeyLimit Rdb Rdbx Icm World Stream Rtp
     MonadLemmas EnvelopeProofs WfProofs BoundsRtcp BoundsRtp LengthProofs RtcpSpec RtpSpec RtpSpecProofs.
Import ListNotations.
Local Open Scope Z_scope.

Lemma splice_app_l {A} o (v a b : list A) : (o + length v <= length a)%nat -> splice o v (a ++ b) = splice o v a ++ b.
Proof.
  revert o v. induction a as [|x a IH]; intros o v H.
  - cbn in H. assert (length v = O) by lia. destruct v; [|discriminate]. rewrite splice_nil. destruct o; reflexivity.
  - destruct o as [|o].
    + destruct v as [|y v]; [reflexivity|]. cbn. rewrite IH by (cbn in H; lia). reflexivity.
    + cbn. rewrite IH by (cbn in H; lia). reflexivity.
Qed.
Lemma splice_splice_same {A} o (v v' l : list A) : length v = length v' -> splice o v' (splice o v l) = splice o v' l.
Proof.
  revert o v v'. induction l as [|x l IH]; intros o v v' H.
  - destruct o; reflexivity.
  - destruct o as [|o].
    + destruct v as [|y v], v' as [|y' v']; try discriminate; [reflexivity|]. cbn. rewrite IH by (cbn in H; lia). reflexivity.
    + cbn. rewrite IH by exact H. reflexivity.
Qed.
Lemma splice_self {A} o n (l : list A) : splice o (slice o n l) l = l.
Proof.
  revert o n. induction l as [|x l IH]; intros o n.
  - destruct o; reflexivity.
  - destruct o as [|o].
    + destruct n as [|n]; [reflexivity|]. cbn. f_equal. exact (IH O n).
    + cbn. f_equal. exact (IH o n).
Qed.
Lemma be16_app_l a b o : (o + 2 <= length a)%nat -> be16 (a ++ b) o = be16 a o.
Proof. intros H. unfold be16. rewrite slice_app_l by exact H. reflexivity. Qed.
Lemma be16_splice_above l o p v : (o + 2 <= p)%nat -> be16 (splice p v l) o = be16 l o.
Proof. intros H. unfold be16. rewrite slice_splice_below by exact H. reflexivity. Qed.

Section XAPP.
Variables (ids : bytes) (xcs : cstate) (off : Z).
Hypothesis Hoff : 0 <= off.

Lemma xtn_apply_length q q' : xtn_apply ids xcs off q = Some q' -> length q' = length q.
Proof.
  unfold xtn_apply. destruct (_ && _); [discriminate|].
  destruct (if be16 q (zn off) =? xtn_hdr_one_byte_profile_c then _ else _) as [d'|]; [|discriminate].
  intros H. injection H as <-. apply splice_length.
Qed.

(* only the block up to the end of the extension matters *)
Lemma xtn_apply_app A B :
  off + 4 + be16 A (zn (off + 2)) * 4 <= lenZ A ->
  xtn_apply ids xcs off (A ++ B) = option_map (fun A' => A' ++ B) (xtn_apply ids xcs off A).
Proof.
  intros HB. pose proof (be16_nonneg A (zn (off + 2))) as NN. unfold xtn_apply.
  rewrite !be16_app_l by (unfold lenZ, zn in *; lia).
  destruct (_ && _); [reflexivity|].
  rewrite slice_app_l by (unfold lenZ, zn in *; lia).
  set (d := slice (zn (off + 4)) (zn (be16 A (zn (off + 2)) * 4)) A).
  destruct (if be16 A (zn off) =? xtn_hdr_one_byte_profile_c then _ else _) as [d'|] eqn:EW; [|reflexivity].
  cbn [option_map]. f_equal. apply splice_app_l.
  assert (LD : length d' = length d).
  { destruct (be16 A (zn off) =? xtn_hdr_one_byte_profile_c); [exact (xtn_one_length _ _ _ _ _ _ EW)|exact (xtn_two_length _ _ _ _ _ _ EW)]. }
  rewrite LD. subst d. rewrite slice_length. unfold lenZ, zn in *. lia.
Qed.

Lemma xtn_apply_outside q q' :
  xtn_apply ids xcs off q = Some q' ->
  take (zn (off + 4)) q' = take (zn (off + 4)) q /\
  drop (zn (off + 4 + be16 q (zn (off + 2)) * 4)) q' = drop (zn (off + 4 + be16 q (zn (off + 2)) * 4)) q.
Proof.
  pose proof (be16_nonneg q (zn (off + 2))) as NN. unfold xtn_apply. destruct (_ && _); [discriminate|].
  set (d := slice (zn (off + 4)) (zn (be16 q (zn (off + 2)) * 4)) q).
  destruct (if be16 q (zn off) =? xtn_hdr_one_byte_profile_c then _ else _) as [d'|] eqn:EW; [|discriminate].
  assert (LD : length d' = length d).
  { destruct (be16 q (zn off) =? xtn_hdr_one_byte_profile_c); [exact (xtn_one_length _ _ _ _ _ _ EW)|exact (xtn_two_length _ _ _ _ _ _ EW)]. }
  intros H. injection H as <-. split.
  - apply take_splice_below. lia.
  - apply drop_splice_above. rewrite LD. subst d. rewrite slice_length. unfold zn in *. lia.
Qed.

(* applying it again gives the block back *)
Theorem xtn_apply_involutive q q' :
  off + 4 + be16 q (zn (off + 2)) * 4 <= lenZ q ->
  xtn_apply ids xcs off q = Some q' -> xtn_apply ids xcs off q' = Some q.
Proof.
  intros HB. pose proof (be16_nonneg q (zn (off + 2))) as NN. unfold xtn_apply.
  destruct (negb (be16 q (zn off) =? xtn_hdr_one_byte_profile_c) && _) eqn:EPf; [discriminate|].
  set (n := be16 q (zn (off + 2)) * 4) in *.
  set (d := slice (zn (off + 4)) (zn n) q).
  assert (LD0 : length d = zn n) by (subst d; rewrite slice_length; unfold lenZ, zn in *; lia).
  destruct (if be16 q (zn off) =? xtn_hdr_one_byte_profile_c then _ else _) as [d'|] eqn:EW; [|discriminate].
  assert (LD : length d' = length d).
  { destruct (be16 q (zn off) =? xtn_hdr_one_byte_profile_c); [exact (xtn_one_length _ _ _ _ _ _ EW)|exact (xtn_two_length _ _ _ _ _ _ EW)]. }
  intros H. injection H as <-.
  rewrite !be16_splice_above by (unfold zn; lia). fold n. rewrite EPf.
  assert (ES : slice (zn (off + 4)) (zn n) (splice (zn (off + 4)) d' q) = d').
  { rewrite <- LD0, <- LD. apply slice_splice_same. rewrite LD, LD0. unfold lenZ, zn in *. lia. }
  rewrite ES, LD.
  assert (EW2 : (if be16 q (zn off) =? xtn_hdr_one_byte_profile_c
                 then xtn_one (S (length d)) ids xcs d' 0 else xtn_two (S (length d)) ids xcs d' 0) = Some d).
  { destruct (be16 q (zn off) =? xtn_hdr_one_byte_profile_c);
      [exact (xtn_one_involutive _ _ _ _ _ EW)|exact (xtn_two_involutive _ _ _ _ _ EW)]. }
  rewrite EW2. f_equal. rewrite splice_splice_same by exact LD. subst d. apply splice_self.
Qed.
End XAPP.
Print Assumptions xtn_apply_involutive.
