(* RtpRefineExamples.v — non-vacuity of the refinement theorems of RtpRefineXtn.v and
   RtpRefineCryptex.v: concrete sessions (built by session_create), packets and buffers that
   satisfy every hypothesis of protect_alias_independent_xtn / _cryptex; the theorems are
   applied to them, and the outcome (success in both alias modes) is checked by evaluation. *)
From Coq Require Import NArith ZArith List Bool Lia.
From Srtp Require Import Util Constants KeyLimit Rdb Rdbx Icm World Stream Rtp Session
     EnvelopeProofs WfProofs BoundsRtcp BoundsRtp RtcpSpec RtpSpec RtpSpecProofs RtpExamples RtpRefineXtn RtpRefineCryptex.
Import ListNotations.
Local Open Scope Z_scope.

Ltac conc_stream_wf :=
  unfold stream_wf; cbn [s_mki_size s_use_mki s_keys]; split; [rewrite max_mki_value; lia|];
  split; [reflexivity|]; constructor; [|constructor];
  unfold key_wf; cbn [k_mki k_rtp_a k_rtcp_a]; split; [reflexivity|];
  unfold akey_wf; cbn; rewrite max_tag_value; repeat split; lia.
Ltac conc_call_ok := unfold call_ok, size_ok; repeat split; vm_compute; intros; discriminate.

(* ---- RFC 6904: header-extension cipher, two CSRCs, one-byte-form extension ---- *)
Module X6904.
Definition p := RtpEx.pol false false [1%N; 2%N].
Definition wa := Witness.mkw (RtpEx.sess p) (RtpEx.inplace RtpEx.pkt_x1).
Definition wo := Witness.mkw (RtpEx.sess p) (RtpEx.outofplace 238 RtpEx.pkt_x1).
Definition ost : option stream := Eval vm_compute in list_get (ss_list (w_s wa)) (hdr_ssrc (in_pkt wa)).
End X6904.

Example xtn_class_inhabited :
  exists st0,
    list_get (ss_list (w_s X6904.wa)) (hdr_ssrc (in_pkt X6904.wa)) = Some st0 /\ stream_wf st0 /\
    s_cryptex st0 = false /\ (exists k xk, In k (s_keys st0) /\ k_xtn_c k = Some xk) /\
    call_ok X6904.wa /\ call_ok X6904.wo /\ w_s X6904.wa = w_s X6904.wo /\
    b_cap (w_b X6904.wa) = b_cap (w_b X6904.wo) /\ in_pkt X6904.wa = in_pkt X6904.wo.
Proof.
  assert (E : list_get (ss_list (w_s X6904.wa)) (hdr_ssrc (in_pkt X6904.wa)) = X6904.ost) by (vm_compute; reflexivity).
  rewrite E. unfold X6904.ost. eexists. split; [reflexivity|]. split; [conc_stream_wf|]. split; [reflexivity|].
  split; [eexists; eexists; split; [left; reflexivity|reflexivity]|].
  split; [conc_call_ok|]. split; [conc_call_ok|]. split; [vm_compute; reflexivity|]. split; [vm_compute; reflexivity|].
  vm_compute; reflexivity.
Qed.

Example xtn_theorem_applies :
  match snd (protect 0 X6904.wa), snd (protect 0 X6904.wo) with
  | inl la, inl lo =>
      la = lo /\ take (zn la) (b_dst (w_b (fst (protect 0 X6904.wa)))) = take (zn lo) (b_dst (w_b (fst (protect 0 X6904.wo))))
  | inr sa, inr so => sa = so
  | _, _ => False
  end.
Proof.
  destruct xtn_class_inhabited as (st0 & G & W & CXF & _ & Ca & Co & ES & EC & EP).
  pose proof (protect_alias_independent_xtn 0 X6904.wa X6904.wo st0 Ca Co) as H.
  assert (A1 : b_alias (w_b X6904.wa) = true) by reflexivity.
  assert (A2 : b_alias (w_b X6904.wo) = false) by reflexivity.
  specialize (H A1 A2 ES EC EP G W CXF). destruct H as (_ & _ & H). exact H.
Qed.
(* and the calls do succeed (55 octets: 45 + tag 10) *)
Example xtn_calls_succeed : snd (protect 0 X6904.wa) = inl 55 /\ snd (protect 0 X6904.wo) = inl 55.
Proof. split; vm_compute; reflexivity. Qed.

(* ---- cryptex: two CSRCs, one-byte-form extension ---- *)
Module CX.
Definition p := RtpEx.pol false true [].
Definition wa := Witness.mkw (RtpEx.sess p) (RtpEx.inplace RtpEx.pkt_x1).
Definition wo := Witness.mkw (RtpEx.sess p) (RtpEx.outofplace 238 RtpEx.pkt_x1).
Definition ost : option stream := Eval vm_compute in list_get (ss_list (w_s wa)) (hdr_ssrc (in_pkt wa)).
End CX.

Example cryptex_class_inhabited :
  exists st0,
    list_get (ss_list (w_s CX.wa)) (hdr_ssrc (in_pkt CX.wa)) = Some st0 /\ stream_wf st0 /\
    cryptex_stream st0 /\ hdr_cc (in_pkt CX.wa) = 2 /\ hdr_x (in_pkt CX.wa) = 1 /\ rtp_conf st0 = true /\
    call_ok CX.wa /\ call_ok CX.wo /\ w_s CX.wa = w_s CX.wo /\
    b_cap (w_b CX.wa) = b_cap (w_b CX.wo) /\ in_pkt CX.wa = in_pkt CX.wo.
Proof.
  assert (E : list_get (ss_list (w_s CX.wa)) (hdr_ssrc (in_pkt CX.wa)) = CX.ost) by (vm_compute; reflexivity).
  rewrite E. unfold CX.ost. eexists. split; [reflexivity|]. split; [conc_stream_wf|].
  split.
  { split; [reflexivity|]. intros k [<-|[]]. reflexivity. }
  split; [vm_compute; reflexivity|]. split; [vm_compute; reflexivity|]. split; [reflexivity|].
  split; [conc_call_ok|]. split; [conc_call_ok|]. split; [vm_compute; reflexivity|]. split; [vm_compute; reflexivity|].
  vm_compute; reflexivity.
Qed.

Example cryptex_theorem_applies :
  match snd (protect 0 CX.wa), snd (protect 0 CX.wo) with
  | inl la, inl lo =>
      la = lo /\ take (zn la) (b_dst (w_b (fst (protect 0 CX.wa)))) = take (zn lo) (b_dst (w_b (fst (protect 0 CX.wo))))
  | inr sa, inr so => sa = so
  | _, _ => False
  end.
Proof.
  destruct cryptex_class_inhabited as (st0 & G & W & CXS & _ & _ & _ & Ca & Co & ES & EC & EP).
  pose proof (protect_alias_independent_cryptex 0 CX.wa CX.wo st0 Ca Co) as H.
  assert (A1 : b_alias (w_b CX.wa) = true) by reflexivity.
  assert (A2 : b_alias (w_b CX.wo) = false) by reflexivity.
  specialize (H A1 A2 ES EC EP G W CXS). destruct H as (_ & _ & H). exact H.
Qed.
Example cryptex_calls_succeed : snd (protect 0 CX.wa) = inl 55 /\ snd (protect 0 CX.wo) = inl 55.
Proof. split; vm_compute; reflexivity. Qed.
Print Assumptions xtn_theorem_applies.
Print Assumptions cryptex_theorem_applies.
