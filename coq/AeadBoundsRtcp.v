(* AeadBoundsRtcp.v — C10 / C11 for the AES-GCM (RFC 7714) SRTCP paths of Aead.v:
   srtp_protect_rtcp_aead / srtp_unprotect_rtcp_aead never access the packet buffers out of
   bounds, and their length contract (output length, refusal of a too-small *out_len). *)
From Coq Require Import NArith ZArith List Bool Lia.
From Srtp Require Import Util Constants KeyLimit Rdb Rdbx Icm World Stream Rtp Rtcp Aead
  MonadLemmas RejectProofs EnvelopeProofs WfProofs BoundsRtcp BoundsRtp LengthProofs.
From Srtp.Crypto Require Import AES GCM.
Import ListNotations.
Local Open Scope Z_scope.

(* ===================================================================== *)
(* 0. lengths of what the GCM cipher object hands back                     *)
(* ===================================================================== *)
Lemma gcm_seal_ok_len k t iv aad pt room s o :
  0 <= t <= 16 -> gcm_seal k t iv aad pt room = (s, o) -> (s =? st_ok) = true ->
  lenZ o = lenZ pt + t /\ lenZ pt + t <= room.
Proof.
  intros HT. unfold gcm_seal. destruct (room <? lenZ pt + t) eqn:ER.
  - intros H. injection H as <- <-. intros H. discriminate H.
  - apply Z.ltb_ge in ER.
    destruct (gcm_encrypt (ck_rks k) iv aad pt (zn t)) as [ct tag] eqn:E.
    intros H _. injection H as _ <-.
    pose proof (gcm_encrypt_length _ _ _ _ _ _ _ E) as [L1 L2].
    split; [|exact ER]. unfold lenZ. rewrite app_length, L1, L2. unfold zn. lia.
Qed.
(* a refused / failed seal hands back nothing *)
Lemma gcm_seal_len_le k t iv aad pt room :
  0 <= t <= 16 -> lenZ (snd (gcm_seal k t iv aad pt room)) <= lenZ pt + t.
Proof.
  intros HT. unfold gcm_seal. destruct (room <? lenZ pt + t); [cbn [snd]; unfold lenZ; cbn; lia|].
  destruct (gcm_encrypt (ck_rks k) iv aad pt (zn t)) as [ct tag] eqn:E. cbn [snd].
  pose proof (gcm_encrypt_length _ _ _ _ _ _ _ E) as [L1 L2].
  unfold lenZ. rewrite app_length, L1, L2. unfold zn. lia.
Qed.

Lemma gcm_open_ok_len k t iv aad d room s o :
  0 <= t -> gcm_open k t iv aad d room = (s, o) -> (s =? st_ok) = true ->
  lenZ o = lenZ d - t /\ t <= lenZ d /\ lenZ d - t <= room.
Proof.
  intros HT. unfold gcm_open. cbv zeta.
  destruct (lenZ d <? t) eqn:E1; [intros H; injection H as <- <-; intros H; discriminate H|].
  destruct (room <? lenZ d - t) eqn:E2; [intros H; injection H as <- <-; intros H; discriminate H|].
  apply Z.ltb_ge in E1, E2.
  destruct (gcm_decrypt _ _ _ _ _) as [pt|] eqn:ED; [|intros H; injection H as <- <-; intros H; discriminate H].
  intros H _. injection H as _ <-.
  apply gcm_decrypt_length in ED. split; [|split; assumption].
  unfold lenZ in *. rewrite ED, take_length. unfold zn. lia.
Qed.

(* ===================================================================== *)
(* 1. no out-of-bounds access                                              *)
(* ===================================================================== *)
Section RTCP_AEAD.
Variable SP : stream -> Prop.
Hypothesis SPc : cfg_closed SP.
Hypothesis SPwf : forall st, SP st -> stream_wf st.
Variables (L C : Z) (al : bool) (src d0 : bytes).
Hypothesis HL : 0 <= L < 9223372036854775808.

Notation I := (Inv SP L C al src d0).
Ltac hs := try exact SPc; try exact SPwf.
Ltac hexit := first [apply h_bind_exit | apply h_exit]; apply inv_noob.
Ltac hseq K := apply h_bind with (R := fun _ => I K); [ | intros ? ].
Ltac hkeep := apply h_ret; intros ? ?; assumption.
Ltac hany := apply h_ret; intros ?; apply inv_any.

Lemma protect_rtcp_aead_safe i :
  hoare (I (eq d0)) (protect_rtcp_aead i) (fun _ => I Kany) NoOob.
Proof.
  unfold protect_rtcp_aead.
  eapply h_bind; [apply h_get_b0|intros b]. apply h_pure; intros ->.
  cbv beta zeta. unfold b_init; cbn [b_len b_cap b_alias].
  change octets_in_rtcp_header_c with 8. change trailer_len with 4.
  destruct (L <? 8) eqn:E0; [hexit|]. apply h_bind_ret. apply Z.ltb_ge in E0.
  eapply h_bind; [apply h_lookup_or_clone; hs|intros r].
  eapply h_bind; [apply h_check_direction; hs|intros ?].
  eapply h_bind; [apply h_get_stream|intros st]. apply h_pure; intros Hst.
  eapply h_bind; [apply h_keys_by_index|intros [ki k]]. apply h_pure; cbn [snd]; intros Hk.
  destruct (SP_key SP SPwf _ _ Hst Hk) as (M & U & MK & _ & TA).
  pose proof TA as [T _]. rewrite max_tag_value in T.
  destruct (C <? L + 4 + s_mki_size st + ak_tag (k_rtcp_a k)) eqn:E1; [hexit|]. apply h_bind_ret. apply Z.ltb_ge in E1.
  hseq Kany.
  { destruct al; [hany|].
    eapply h_bind; [apply h_rd_src; lia|intros h]. apply h_pure; intros (dd & _ & _ & ->).
    apply h_wr_dst_any; [lia|]. pose proof (lenZ_slice_le 0 8 src). lia. }
  hseq Kany.
  { destruct (s_use_mki st); [apply h_wr_dst_any; lia|hkeep]. }
  destruct (rdb_incr (s_rdb st)) as [is rb].
  eapply h_bind; [apply h_check_st|intros ?]. apply h_pure; intros _.
  hseq Kany. { apply h_put_stream. apply (SP_upd SP SPc). exact Hst. }
  hseq Kany. { apply h_wr_dst_any; [lia|]. rewrite lenZ_be_bytes. lia. }
  hseq Kany. { destruct (2147483648 <=? wstart rb); [hexit|hkeep]. }
  hseq Kany. { unfold log_gcm_iv. apply h_sb0. apply sb_log_iv. }
  hseq Kany.
  { destruct (negb (Z.land (s_rtcp_serv st) sec_serv_conf_c =? 0)).
    - eapply h_bind; [apply h_rd_src; lia|intros aad]. apply h_pure; intros _.
      eapply h_bind; [apply h_rd_src; lia|intros d]. apply h_pure; intros (dd & _ & _ & ->).
      pose proof (lenZ_slice_le 8 (L - 8) (if al then dd else src)) as LS.
      match goal with |- context [gcm_seal ?a ?t ?iv ?ad ?p ?room] =>
        pose proof (gcm_seal_len_le a t iv ad p room T) as LE; destruct (gcm_seal a t iv ad p room) as [s o] end.
      cbn [snd] in LE.
      destruct (negb (s =? st_ok)); [hexit|apply h_wr_dst_any; lia].
    - eapply h_bind; [apply h_rd_src; lia|intros aad]. apply h_pure; intros _.
      hseq Kany.
      { destruct al; [hkeep|].
        eapply h_bind; [apply h_rd_src; lia|intros d]. apply h_pure; intros (dd & _ & _ & ->).
        pose proof (lenZ_slice_le 8 (L - 8) src). apply h_wr_dst_any; lia. }
      match goal with |- context [gcm_seal ?a ?t ?iv ?ad ?p ?room] =>
        pose proof (gcm_seal_len_le a t iv ad p room T) as LE; destruct (gcm_seal a t iv ad p room) as [s o] end.
      cbn [snd] in LE. change (lenZ (@nil N)) with 0 in LE.
      destruct (negb (s =? st_ok)); [hexit|apply h_wr_dst_any; lia]. }
  hkeep.
Qed.

Lemma unprotect_rtcp_aead_safe :
  hoare (I (eq d0)) unprotect_rtcp_aead (fun _ => I Kany) NoOob.
Proof.
  unfold unprotect_rtcp_aead.
  eapply h_bind; [apply h_get_b0|intros b]. apply h_pure; intros ->.
  cbv beta zeta. unfold b_init; cbn [b_len b_cap b_alias].
  change octets_in_rtcp_header_c with 8. change trailer_len with 4.
  destruct (L <? 8 + 4) eqn:E0; [hexit|]. apply h_bind_ret. apply Z.ltb_ge in E0.
  eapply h_bind; [apply h_get_s|intros ss]. apply h_pure; intros _.
  apply h_bind with (R := fun _ => I (eq d0)).
  { destruct (list_get (ss_list ss) _); [hkeep|]. destruct (ss_template ss); [hkeep|hexit]. }
  intros r0.
  eapply h_bind; [apply h_get_stream|intros st]. apply h_pure; intros Hst.
  assert (T0 : 0 <= match s_keys st with
                    | k0 :: _ => if is_gcm_alg (ck_alg (k_rtcp_c k0)) then 0 else ak_tag (k_rtcp_a k0)
                    | [] => 0 end).
  { destruct (s_keys st) as [|k0 t] eqn:EK; [lia|].
    assert (I0 : In k0 (s_keys st)) by (rewrite EK; left; reflexivity).
    destruct (SP_key SP SPwf _ _ Hst I0) as (_ & _ & _ & _ & [T _]).
    destruct (is_gcm_alg _); lia. }
  eapply h_bind; [apply h_keys_by_packet; hs; [exact Hst|exact T0]|intros [ki k]].
  apply h_pure; cbn [snd]; intros Hk.
  destruct (SP_key SP SPwf _ _ Hst Hk) as (M & U & MK & _ & TA).
  pose proof TA as [T _]. rewrite max_tag_value in T.
  destruct (L <? 8 + 4 + s_mki_size st + ak_tag (k_rtcp_a k)) eqn:E1; [hexit|]. apply h_bind_ret. apply Z.ltb_ge in E1.
  eapply h_bind; [apply h_rd_src; lia|intros tr]. apply h_pure; intros _.
  eapply h_bind; [apply h_check_st|intros ?]. apply h_pure; intros _.
  destruct (C <? u64 (L - 4 - s_mki_size st - ak_tag (k_rtcp_a k))) eqn:E2; [hexit|]. apply h_bind_ret.
  apply Z.ltb_ge in E2. rewrite u64_small in E2 by lia.
  hseq Kany.
  { destruct al; [hany|].
    eapply h_bind; [apply h_rd_src; lia|intros h]. apply h_pure; intros (dd & _ & _ & ->).
    apply h_wr_dst_any; [lia|]. pose proof (lenZ_slice_le 0 8 src). lia. }
  hseq Kany.
  { destruct (negb (N.land (nthb tr 0) (Z.to_N SRTCP_E_BYTE_BIT_c) =? 0)%N).
    - eapply h_bind; [apply h_rd_src; lia|intros aad]. apply h_pure; intros _.
      eapply h_bind; [apply h_rd_src; lia|intros d]. apply h_pure; intros (dd & _ & _ & ->).
      pose proof (lenZ_slice_le 8 (L - (8 + 4 + s_mki_size st)) (if al then dd else src)) as LS.
      match goal with |- context [gcm_open ?a ?t ?iv ?ad ?p ?room] =>
        pose proof (fun s o => gcm_open_ok_len a t iv ad p room s o (proj1 T)) as LE;
        destruct (gcm_open a t iv ad p room) as [s o] end.
      specialize (LE s o eq_refl).
      destruct (s =? st_ok) eqn:ES; cbn [negb]; [|hexit].
      specialize (LE eq_refl). apply h_wr_dst_any; lia.
    - eapply h_bind; [apply h_rd_src; lia|intros aad]. apply h_pure; intros _.
      hseq Kany.
      { destruct al; [hkeep|].
        eapply h_bind; [apply h_rd_src; lia|intros d]. apply h_pure; intros (dd & _ & _ & ->).
        pose proof (lenZ_slice_le 8 (L - (8 + 4 + s_mki_size st) - ak_tag (k_rtcp_a k)) src).
        apply h_wr_dst_any; lia. }
      eapply h_bind; [apply h_rd_src; lia|intros t]. apply h_pure; intros _.
      destruct (gcm_open _ _ _ _ _ _) as [s o].
      destruct (negb (s =? st_ok)); [hexit|hkeep]. }
  hseq Kany. { apply h_check_direction; hs. }
  eapply h_bind; [apply h_materialize; hs|intros r].
  eapply h_bind; [apply h_get_stream|intros st2]. apply h_pure; intros Hst2.
  hseq Kany. { apply h_put_stream. apply (SP_upd SP SPc). exact Hst2. }
  hkeep.
Qed.
End RTCP_AEAD.

(* C10 for the AEAD SRTCP functions: the same premises as protect_rtcp_no_oob /
   unprotect_rtcp_no_oob, except that nothing is asked of the length of the destination
   block (neither function reads the destination).  The tag-length bound 0 <= tag <= SRTP_MAX_TAG_LEN comes from stream_wf
   (akey_wf of the RTCP auth object). *)
Theorem protect_rtcp_aead_no_oob w i :
  b_oob (w_b w) = false -> size_ok (b_len (w_b w)) -> session_wf (w_s w) ->
  b_oob (w_b (fst (protect_rtcp_aead i w))) = false.
Proof.
  intros HO HL HS.
  eapply hoare_noob; [apply (protect_rtcp_aead_safe stream_wf stream_wf_cfg (fun st h => h) _ (b_cap (w_b w)) (b_alias (w_b w)) (b_src (w_b w)) (b_dst (w_b w)) HL i)| |apply inv_init; assumption].
  intros a w' H. exact (inv_noob _ _ _ _ _ _ _ _ H).
Qed.
Print Assumptions protect_rtcp_aead_no_oob.

Theorem unprotect_rtcp_aead_no_oob w :
  b_oob (w_b w) = false -> size_ok (b_len (w_b w)) -> session_wf (w_s w) ->
  b_oob (w_b (fst (unprotect_rtcp_aead w))) = false.
Proof.
  intros HO HL HS.
  eapply hoare_noob; [apply (unprotect_rtcp_aead_safe stream_wf stream_wf_cfg (fun st h => h) _ (b_cap (w_b w)) (b_alias (w_b w)) (b_src (w_b w)) (b_dst (w_b w)) HL)| |apply inv_init; assumption].
  intros a w' H. exact (inv_noob _ _ _ _ _ _ _ _ H).
Qed.
Print Assumptions unprotect_rtcp_aead_no_oob.

(* ===================================================================== *)
(* 2. the length contract (C11)                                            *)
(* ===================================================================== *)
(* the tag length srtp_get_session_keys_for_rtcp_packet assumes when it looks for the MKI:
   0 when the RTCP cipher of the first key is GCM (the MKI is the very end of the packet) *)
Definition rtcp_aead_tag0 (st : stream) : Z :=
  match s_keys st with
  | k0 :: _ => if is_gcm_alg (ck_alg (k_rtcp_c k0)) then 0 else ak_tag (k_rtcp_a k0)
  | [] => 0
  end.

Section RTCP_AEAD_LEN.
Variable w0 : world.
Let L := b_len (w_b w0).
Let C := b_cap (w_b w0).
Let ssrc := be32 (take (zn L) (cur_src (w_b w0))) 4.

Lemma protect_rtcp_aead_len_h i :
  hoare (eq w0) (protect_rtcp_aead i)
    (fun l _ => exists st k, pkt_stream (w_s w0) ssrc = Some st /\ sender_key st i = Some k /\
                 8 <= L /\ L + 4 + s_mki_size st + ak_tag (k_rtcp_a k) <= C /\
                 l = u64 (L + 4 + s_mki_size st + ak_tag (k_rtcp_a k))) TT.
Proof.
  unfold protect_rtcp_aead.
  eapply h_bind; [apply h_get_b_eq|intros b]. apply h_pure; intros ->.
  cbv beta zeta. fold L C ssrc.
  change octets_in_rtcp_header_c with 8. change trailer_len with 4.
  destruct (L <? 8) eqn:E0; [apply h_bind_exit; apply tt_any|]. apply h_bind_ret. apply Z.ltb_ge in E0.
  eapply h_bind; [apply lookup_or_clone_Sx|intros r]. apply h_pure; intros ->.
  apply h_ex; intros st0. apply h_pure; intros Hst0.
  eapply h_bind; [apply check_direction_Sx|intros ?].
  eapply h_bind; [apply get_stream_Sx|intros st]. apply h_pure; intros Hc.
  apply h_returns.
  eapply r_bind2; [apply r_keys_by_index|intros [ki k] Hk]. cbn [snd] in Hk.
  destruct (C <? L + 4 + s_mki_size st + ak_tag (k_rtcp_a k)) eqn:E1; [apply r_bind_exit|]. apply r_bind_ret.
  apply Z.ltb_ge in E1.
  rwalk.
  all: exists st0, k; pose proof Hc as (_ & M & _ & _); rewrite M in *;
    (split; [exact Hst0|]); (split; [exact (cfg_sender_key _ _ _ _ Hc Hk)|]); (split; [exact E0|]); (split; [exact E1|]);
    f_equal; lia.
Qed.

(* on success srtp_protect_rtcp (GCM) returns len + 4 (trailer) + MKI + tag of the key used,
   and that fits *out_len *)
Theorem protect_rtcp_aead_length i w' l :
  session_wf (w_s w0) -> size_ok C -> protect_rtcp_aead i w0 = (w', inl l) ->
  exists st k, pkt_stream (w_s w0) ssrc = Some st /\ sender_key st i = Some k /\
               l = L + 4 + s_mki_size st + ak_tag (k_rtcp_a k) /\ l <= C.
Proof.
  intros HW HC E. destruct (hoare_returns _ _ _ _ _ _ (protect_rtcp_aead_len_h i) eq_refl E) as (st & k & H1 & H2 & H3 & H4 & H5).
  exists st, k. split; [exact H1|]. split; [exact H2|].
  pose proof (pkt_stream_wf _ _ _ HW H1) as W. destruct (sender_key_wf _ _ _ W H2) as (_ & _ & [T _]).
  destruct W as (M & _). unfold size_ok in HC. rewrite u64_small in H5 by lia. lia.
Qed.

(* with *out_len below that the call does not succeed ... *)
Theorem protect_rtcp_aead_small_buffer_refused i st k :
  pkt_stream (w_s w0) ssrc = Some st -> sender_key st i = Some k ->
  C < L + 4 + s_mki_size st + ak_tag (k_rtcp_a k) ->
  forall w' l, protect_rtcp_aead i w0 <> (w', inl l).
Proof.
  intros H1 H2 HS w' l E.
  destruct (hoare_returns _ _ _ _ _ _ (protect_rtcp_aead_len_h i) eq_refl E) as (st' & k' & G1 & G2 & _ & G4 & _).
  rewrite H1 in G1. injection G1 as <-. rewrite H2 in G2. injection G2 as <-. lia.
Qed.
End RTCP_AEAD_LEN.
Print Assumptions protect_rtcp_aead_length.
Print Assumptions protect_rtcp_aead_small_buffer_refused.

(* ... and for an otherwise acceptable call (a packet with a complete header for a stream the
   session already holds, a usable key index) the status is srtp_err_status_buffer_small and
   it is decided before anything is written into the output *)
Lemma bind_eval {A B} (m : M A) (f : A -> M B) w w1 a : m w = (w1, inl a) -> bind m f w = f a w1.
Proof. unfold bind. intros ->. reflexivity. Qed.

Lemma lookup_or_clone_hit x flag w st :
  list_get (ss_list (w_s w)) x = Some st -> lookup_or_clone x flag w = (w, inl (RList x)).
Proof. intros H. unfold lookup_or_clone. unfold bind at 1, get_s at 1. rewrite H. reflexivity. Qed.

Lemma check_direction_hit x d w st :
  list_get (ss_list (w_s w)) x = Some st ->
  exists w1 st1, check_direction (RList x) d w = (w1, inl tt) /\
                 list_get (ss_list (w_s w1)) x = Some st1 /\ cfg_eq st st1 /\ w_b w1 = w_b w.
Proof.
  intros Hg. cbv beta iota delta [check_direction bind get_stream get_s]. rewrite Hg. cbn [ret].
  destruct (s_dir st =? d).
  - exists w, st. split; [reflexivity|]. split; [exact Hg|]. split; [apply cfg_eq_refl|reflexivity].
  - destruct (s_dir st =? dir_unknown_c).
    + unfold put_stream, bind, get_s, put_s. cbn. eexists _, (set_dir st d). split; [reflexivity|]. cbn.
      split; [apply (list_get_replace_same _ _ _ _ Hg); exact (list_get_ssrc _ _ _ Hg)|].
      split; [apply cfg_eq_upd|reflexivity].
    + unfold emit. eexists _, st. split; [reflexivity|]. cbn. split; [exact Hg|]. split; [apply cfg_eq_refl|reflexivity].
Qed.

Lemma get_stream_hit x w st : list_get (ss_list (w_s w)) x = Some st -> get_stream (RList x) w = (w, inl st).
Proof. intros H. cbv beta iota delta [get_stream bind get_s]. rewrite H. reflexivity. Qed.

Lemma keys_by_index_hit st i k w :
  (s_use_mki st = true -> 0 <= i) ->
  nth_error (s_keys st) (zn (if s_use_mki st then i else 0)) = Some k ->
  keys_by_index st i w = (w, inl (if s_use_mki st then i else 0, k)).
Proof.
  intros Hi Hk. unfold keys_by_index. cbv zeta. rewrite Hk.
  destruct (s_use_mki st); [|reflexivity]. cbn [andb].
  assert (Hn : (zn i < length (s_keys st))%nat) by (apply nth_error_Some; rewrite Hk; discriminate).
  specialize (Hi eq_refl).
  assert (E : (i <? 0) || (lenZ (s_keys st) <=? i) = false).
  { apply orb_false_iff. split; [apply Z.ltb_ge; lia|apply Z.leb_gt; unfold lenZ, zn in *; lia]. }
  rewrite E. reflexivity.
Qed.

Section RTCP_AEAD_SMALL.
Variable w0 : world.
Let L := b_len (w_b w0).
Let C := b_cap (w_b w0).
Let ssrc := be32 (take (zn L) (cur_src (w_b w0))) 4.

Theorem protect_rtcp_aead_small_buffer_status i st k :
  8 <= L -> list_get (ss_list (w_s w0)) ssrc = Some st ->
  (s_use_mki st = true -> 0 <= i) -> sender_key st i = Some k ->
  C < L + 4 + s_mki_size st + ak_tag (k_rtcp_a k) ->
  exists w', protect_rtcp_aead i w0 = (w', inr st_buffer_small) /\ w_b w' = w_b w0.
Proof.
  intros HL Hg Hi Hk HS.
  destruct (check_direction_hit ssrc dir_srtp_sender_c w0 st Hg) as (w1 & st1 & D1 & D2 & D3 & D4).
  exists w1. split; [|exact D4].
  unfold protect_rtcp_aead.
  etransitivity; [apply (bind_eval get_b _ w0 w0 (w_b w0) eq_refl)|]. cbv beta zeta. fold L C ssrc.
  change octets_in_rtcp_header_c with 8. change trailer_len with 4.
  destruct (L <? 8) eqn:E0; [apply Z.ltb_lt in E0; lia|].
  etransitivity; [apply (bind_eval (ret tt) _ w0 w0 tt eq_refl)|]. cbv beta.
  etransitivity; [apply (bind_eval _ _ _ _ _ (lookup_or_clone_hit ssrc false w0 st Hg))|]. cbv beta.
  etransitivity; [apply (bind_eval _ _ _ _ _ D1)|]. cbv beta.
  etransitivity; [apply (bind_eval _ _ _ _ _ (get_stream_hit ssrc w1 st1 D2))|]. cbv beta.
  destruct D3 as (K1 & K2 & K3 & _).
  unfold sender_key in Hk. rewrite <- K1, <- K3 in Hk. rewrite <- K3 in Hi.
  etransitivity; [apply (bind_eval _ _ _ _ _ (keys_by_index_hit st1 i k w1 Hi Hk))|]. cbv beta iota.
  rewrite K2.
  destruct (C <? L + 4 + s_mki_size st + ak_tag (k_rtcp_a k)) eqn:E1; [reflexivity|].
  apply Z.ltb_ge in E1. lia.
Qed.
End RTCP_AEAD_SMALL.
Print Assumptions protect_rtcp_aead_small_buffer_status.

Section RTCP_AEAD_LEN2.
Variable w0 : world.
Let L := b_len (w_b w0).
Let C := b_cap (w_b w0).
Let ssrc := be32 (take (zn L) (cur_src (w_b w0))) 4.
Hypothesis HW : session_wf (w_s w0).

Lemma unprotect_rtcp_aead_len_h :
  hoare (eq w0) unprotect_rtcp_aead
    (fun l _ => exists st k, pkt_stream (w_s w0) ssrc = Some st /\
                 receiver_key st (cur_src (w_b w0)) L (rtcp_aead_tag0 st) = Some k /\
                 8 + 4 + s_mki_size st + ak_tag (k_rtcp_a k) <= L /\
                 u64 (L - 4 - s_mki_size st - ak_tag (k_rtcp_a k)) <= C /\
                 l = u64 (L - (ak_tag (k_rtcp_a k) + 4 + s_mki_size st))) TT.
Proof.
  unfold unprotect_rtcp_aead.
  eapply h_bind; [apply h_get_b_eq|intros b]. apply h_pure; intros ->.
  cbv beta zeta. fold L C ssrc.
  change octets_in_rtcp_header_c with 8. change trailer_len with 4.
  destruct (L <? 8 + 4) eqn:E0; [apply h_bind_exit; apply tt_any|]. apply h_bind_ret.
  apply h_bind with (R := fun ss w => ss = w_s w0 /\ w0 = w); [intros w <-; cbn; exact (conj eq_refl eq_refl)|intros ss]. apply h_pure; intros ->.
  apply h_bind with (R := fun r w => pkt_stream (w_s w0) ssrc = lookup (w_s w0) r /\ w0 = w).
  { unfold pkt_stream. destruct (list_get (ss_list (w_s w0)) ssrc) eqn:E1.
    - apply h_ret. intros w <-. cbn [lookup]. rewrite E1. auto.
    - destruct (ss_template (w_s w0)) eqn:E2; [|apply h_exit; apply tt_any]. apply h_ret. intros w <-. cbn [lookup]. auto. }
  intros r0. apply h_pure; intros Hr0.
  eapply h_bind; [apply h_get_stream_eq|intros st]. apply h_pure; intros Hst. rewrite <- Hr0 in Hst.
  pose proof (pkt_stream_wf _ _ _ HW Hst) as W.
  assert (T0 : 0 <= rtcp_aead_tag0 st).
  { unfold rtcp_aead_tag0. destruct (s_keys st) as [|k0 t] eqn:EK; [lia|].
    assert (I0 : In k0 (s_keys st)) by (rewrite EK; left; reflexivity).
    destruct (stream_wf_key _ _ W I0) as (_ & _ & [T _]). destruct (is_gcm_alg _); lia. }
  fold (rtcp_aead_tag0 st).
  eapply h_bind; [apply (h_keys_by_packet_eq w0 st (rtcp_aead_tag0 st) W T0)|intros [ki k]].
  apply h_pure; cbn [snd]; intros Hk. fold L in Hk.
  apply h_returns.
  destruct (L <? 8 + 4 + s_mki_size st + ak_tag (k_rtcp_a k)) eqn:E1; [apply r_bind_exit|]. apply r_bind_ret.
  apply Z.ltb_ge in E1.
  apply r_bind; intros tr. apply r_bind; intros ?.
  destruct (C <? u64 (L - 4 - s_mki_size st - ak_tag (k_rtcp_a k))) eqn:E2; [apply r_bind_exit|]. apply r_bind_ret.
  apply Z.ltb_ge in E2.
  rwalk.
  all: exists st, k; repeat split; try assumption; reflexivity.
Qed.

(* on success srtp_unprotect_rtcp (GCM) returns len - (tag + 4 + MKI) of the key the packet
   selects, and that fits *out_len *)
Theorem unprotect_rtcp_aead_length w' l :
  size_ok L -> unprotect_rtcp_aead w0 = (w', inl l) ->
  exists st k, pkt_stream (w_s w0) ssrc = Some st /\
               receiver_key st (cur_src (w_b w0)) L (rtcp_aead_tag0 st) = Some k /\
               l = L - (ak_tag (k_rtcp_a k) + 4 + s_mki_size st) /\ 8 <= l /\ l <= C.
Proof.
  intros HL E.
  destruct (hoare_returns _ _ _ _ _ _ unprotect_rtcp_aead_len_h eq_refl E) as (st & k & H1 & H2 & H5 & H6 & V).
  exists st, k. split; [exact H1|]. split; [exact H2|].
  pose proof (pkt_stream_wf _ _ _ HW H1) as W. destruct (receiver_key_wf _ _ _ _ _ W H2) as (_ & _ & [T _]).
  destruct W as (M & _ & _). unfold size_ok in HL.
  rewrite u64_small in V by lia. rewrite u64_small in H6 by lia. lia.
Qed.
End RTCP_AEAD_LEN2.
Print Assumptions unprotect_rtcp_aead_length.

(* ===================================================================== *)
(* 3. nothing is written at or beyond the announced output length          *)
(* ===================================================================== *)
(* b_oob only watches *out_len.  The defect fixed in srtp_unprotect_rtcp_aead (the copy of a
   non-encrypted payload included the tag: tag_len octets beyond the returned length) is about
   the returned length, so this is stated separately: whatever *out_len was, the octets of the
   destination block from the returned length on are untouched. *)
Lemma drop_splice_above' {A} a o (v l : list A) : (o + length v <= a)%nat -> drop a (splice o v l) = drop a l.
Proof.
  revert a o v. induction l as [|x l IH]; intros a o v H.
  - destruct o; reflexivity.
  - destruct o as [|o].
    + destruct v as [|y v]; [reflexivity|]. cbn in H. destruct a as [|a]; [lia|]. cbn. apply IH. cbn. lia.
    + destruct a as [|a]; [lia|]. cbn. apply IH. lia.
Qed.

Section KAB.
Variable SP : stream -> Prop.
Variables (L C : Z) (al : bool) (src d0 : bytes).
Definition Kab (n : Z) : bytes -> Prop := fun dd => drop (zn n) dd = drop (zn n) d0.
Lemma h_wr_above n off v :
  0 <= off -> off + lenZ v <= C -> off + lenZ v <= n ->
  hoare (Inv SP L C al src d0 (Kab n)) (wr_dst off v) (fun _ => Inv SP L C al src d0 (Kab n)) NoOob.
Proof.
  intros H1 H2 H3. apply h_wr_dst; [exact H1|exact H2|]. intros dd _ H. unfold Kab in *.
  rewrite drop_splice_above'; [exact H|]. unfold zn, lenZ in *. lia.
Qed.
End KAB.

Section RTCP_AEAD_ABOVE.
Variable SP : stream -> Prop.
Hypothesis SPc : cfg_closed SP.
Hypothesis SPwf : forall st, SP st -> stream_wf st.
Variables (L C : Z) (al : bool) (src d0 : bytes).
Hypothesis HL : 0 <= L < 9223372036854775808.

Notation Kab := (Kab d0).
Notation I := (Inv SP L C al src d0).
Ltac hs := try exact SPc; try exact SPwf.
Ltac hexit := first [apply h_bind_exit | apply h_exit]; apply inv_noob.
Ltac hseq K := apply h_bind with (R := fun _ => I K); [ | intros ? ].
Ltac hkeep := apply h_ret; intros ? ?; assumption.

Lemma protect_rtcp_aead_above i :
  hoare (I (eq d0)) (protect_rtcp_aead i) (fun l => I (Kab l)) NoOob.
Proof.
  unfold protect_rtcp_aead.
  eapply h_bind; [apply h_get_b0|intros b]. apply h_pure; intros ->.
  cbv beta zeta. unfold b_init; cbn [b_len b_cap b_alias].
  change octets_in_rtcp_header_c with 8. change trailer_len with 4.
  destruct (L <? 8) eqn:E0; [hexit|]. apply h_bind_ret. apply Z.ltb_ge in E0.
  eapply h_bind; [apply h_lookup_or_clone; hs|intros r].
  eapply h_bind; [apply h_check_direction; hs|intros ?].
  eapply h_bind; [apply h_get_stream|intros st]. apply h_pure; intros Hst.
  eapply h_bind; [apply h_keys_by_index|intros [ki k]]. apply h_pure; cbn [snd]; intros Hk.
  destruct (SP_key SP SPwf _ _ Hst Hk) as (M & U & MK & _ & TA).
  pose proof TA as [T _]. rewrite max_tag_value in T.
  destruct (C <? L + 4 + s_mki_size st + ak_tag (k_rtcp_a k)) eqn:E1; [hexit|]. apply h_bind_ret. apply Z.ltb_ge in E1.
  set (n := L + 4 + s_mki_size st + ak_tag (k_rtcp_a k)).
  apply (h_weaken SP L C al src d0 (eq d0) (Kab n)); [intros dd _ <-; reflexivity|].
  hseq (Kab n).
  { destruct al; [hkeep|].
    eapply h_bind; [apply h_rd_src; lia|intros h]. apply h_pure; intros (dd & _ & _ & ->).
    pose proof (lenZ_slice_le 0 8 src). apply h_wr_above; lia. }
  hseq (Kab n).
  { destruct (s_use_mki st); [apply h_wr_above; lia|hkeep]. }
  destruct (rdb_incr (s_rdb st)) as [is rb].
  eapply h_bind; [apply h_check_st|intros ?]. apply h_pure; intros _.
  hseq (Kab n). { apply h_put_stream. apply (SP_upd SP SPc). exact Hst. }
  hseq (Kab n). { apply h_wr_above; rewrite ?lenZ_be_bytes; lia. }
  hseq (Kab n). { destruct (2147483648 <=? wstart rb); [hexit|hkeep]. }
  hseq (Kab n). { unfold log_gcm_iv. apply h_sb0. apply sb_log_iv. }
  hseq (Kab n).
  { destruct (negb (Z.land (s_rtcp_serv st) sec_serv_conf_c =? 0)).
    - eapply h_bind; [apply h_rd_src; lia|intros aad]. apply h_pure; intros _.
      eapply h_bind; [apply h_rd_src; lia|intros d]. apply h_pure; intros (dd & _ & _ & ->).
      pose proof (lenZ_slice_le 8 (L - 8) (if al then dd else src)) as LS.
      match goal with |- context [gcm_seal ?a ?t ?iv ?ad ?p ?room] =>
        pose proof (gcm_seal_len_le a t iv ad p room T) as LE; destruct (gcm_seal a t iv ad p room) as [s o] end.
      cbn [snd] in LE.
      destruct (negb (s =? st_ok)); [hexit|apply h_wr_above; lia].
    - eapply h_bind; [apply h_rd_src; lia|intros aad]. apply h_pure; intros _.
      hseq (Kab n).
      { destruct al; [hkeep|].
        eapply h_bind; [apply h_rd_src; lia|intros d]. apply h_pure; intros (dd & _ & _ & ->).
        pose proof (lenZ_slice_le 8 (L - 8) src). apply h_wr_above; lia. }
      match goal with |- context [gcm_seal ?a ?t ?iv ?ad ?p ?room] =>
        pose proof (gcm_seal_len_le a t iv ad p room T) as LE; destruct (gcm_seal a t iv ad p room) as [s o] end.
      cbn [snd] in LE. change (lenZ (@nil N)) with 0 in LE.
      destruct (negb (s =? st_ok)); [hexit|apply h_wr_above; lia]. }
  apply h_ret. intros w HI. rewrite u64_small by lia.
  replace (8 + (L - 8) + ak_tag (k_rtcp_a k) + 4 + s_mki_size st) with n by (unfold n; lia). exact HI.
Qed.

Lemma unprotect_rtcp_aead_above :
  hoare (I (eq d0)) unprotect_rtcp_aead (fun l => I (Kab l)) NoOob.
Proof.
  unfold unprotect_rtcp_aead.
  eapply h_bind; [apply h_get_b0|intros b]. apply h_pure; intros ->.
  cbv beta zeta. unfold b_init; cbn [b_len b_cap b_alias].
  change octets_in_rtcp_header_c with 8. change trailer_len with 4.
  destruct (L <? 8 + 4) eqn:E0; [hexit|]. apply h_bind_ret. apply Z.ltb_ge in E0.
  eapply h_bind; [apply h_get_s|intros ss]. apply h_pure; intros _.
  apply h_bind with (R := fun _ => I (eq d0)).
  { destruct (list_get (ss_list ss) _); [hkeep|]. destruct (ss_template ss); [hkeep|hexit]. }
  intros r0.
  eapply h_bind; [apply h_get_stream|intros st]. apply h_pure; intros Hst.
  assert (T0 : 0 <= match s_keys st with
                    | k0 :: _ => if is_gcm_alg (ck_alg (k_rtcp_c k0)) then 0 else ak_tag (k_rtcp_a k0)
                    | [] => 0 end).
  { destruct (s_keys st) as [|k0 t] eqn:EK; [lia|].
    assert (I0 : In k0 (s_keys st)) by (rewrite EK; left; reflexivity).
    destruct (SP_key SP SPwf _ _ Hst I0) as (_ & _ & _ & _ & [T _]).
    destruct (is_gcm_alg _); lia. }
  eapply h_bind; [apply h_keys_by_packet; hs; [exact Hst|exact T0]|intros [ki k]].
  apply h_pure; cbn [snd]; intros Hk.
  destruct (SP_key SP SPwf _ _ Hst Hk) as (M & U & MK & _ & TA).
  pose proof TA as [T _]. rewrite max_tag_value in T.
  destruct (L <? 8 + 4 + s_mki_size st + ak_tag (k_rtcp_a k)) eqn:E1; [hexit|]. apply h_bind_ret. apply Z.ltb_ge in E1.
  eapply h_bind; [apply h_rd_src; lia|intros tr]. apply h_pure; intros _.
  eapply h_bind; [apply h_check_st|intros ?]. apply h_pure; intros _.
  destruct (C <? u64 (L - 4 - s_mki_size st - ak_tag (k_rtcp_a k))) eqn:E2; [hexit|]. apply h_bind_ret.
  apply Z.ltb_ge in E2. rewrite u64_small in E2 by lia.
  set (n := L - (ak_tag (k_rtcp_a k) + 4 + s_mki_size st)).
  apply (h_weaken SP L C al src d0 (eq d0) (Kab n)); [intros dd _ <-; reflexivity|].
  hseq (Kab n).
  { destruct al; [hkeep|].
    eapply h_bind; [apply h_rd_src; lia|intros h]. apply h_pure; intros (dd & _ & _ & ->).
    pose proof (lenZ_slice_le 0 8 src). apply h_wr_above; unfold n; lia. }
  hseq (Kab n).
  { destruct (negb (N.land (nthb tr 0) (Z.to_N SRTCP_E_BYTE_BIT_c) =? 0)%N).
    - eapply h_bind; [apply h_rd_src; lia|intros aad]. apply h_pure; intros _.
      eapply h_bind; [apply h_rd_src; lia|intros d]. apply h_pure; intros (dd & _ & _ & ->).
      pose proof (lenZ_slice_le 8 (L - (8 + 4 + s_mki_size st)) (if al then dd else src)) as LS.
      match goal with |- context [gcm_open ?a ?t ?iv ?ad ?p ?room] =>
        pose proof (fun s o => gcm_open_ok_len a t iv ad p room s o (proj1 T)) as LE;
        destruct (gcm_open a t iv ad p room) as [s o] end.
      specialize (LE s o eq_refl).
      destruct (s =? st_ok) eqn:ES; cbn [negb]; [|hexit].
      specialize (LE eq_refl). apply h_wr_above; unfold n; lia.
    - eapply h_bind; [apply h_rd_src; lia|intros aad]. apply h_pure; intros _.
      hseq (Kab n).
      { destruct al; [hkeep|].
        eapply h_bind; [apply h_rd_src; lia|intros d]. apply h_pure; intros (dd & _ & _ & ->).
        pose proof (lenZ_slice_le 8 (L - (8 + 4 + s_mki_size st) - ak_tag (k_rtcp_a k)) src).
        apply h_wr_above; unfold n; lia. }
      eapply h_bind; [apply h_rd_src; lia|intros t]. apply h_pure; intros _.
      destruct (gcm_open _ _ _ _ _ _) as [s o].
      destruct (negb (s =? st_ok)); [hexit|hkeep]. }
  hseq (Kab n). { apply h_check_direction; hs. }
  eapply h_bind; [apply h_materialize; hs|intros r].
  eapply h_bind; [apply h_get_stream|intros st2]. apply h_pure; intros Hst2.
  hseq (Kab n). { apply h_put_stream. apply (SP_upd SP SPc). exact Hst2. }
  apply h_ret. intros w HI. rewrite u64_small by (unfold n in *; lia). exact HI.
Qed.
End RTCP_AEAD_ABOVE.

Lemma inv_K SP L C al src d0 K w : Inv SP L C al src d0 K w -> K (b_dst (w_b w)).
Proof. intros [_ (_ & _ & _ & _ & _ & _ & H)]. exact H. Qed.

Theorem protect_rtcp_aead_writes_below_length w i w' l :
  b_oob (w_b w) = false -> size_ok (b_len (w_b w)) -> session_wf (w_s w) ->
  protect_rtcp_aead i w = (w', inl l) ->
  drop (zn l) (b_dst (w_b w')) = drop (zn l) (b_dst (w_b w)).
Proof.
  intros HO HL HS E.
  pose proof (protect_rtcp_aead_above stream_wf stream_wf_cfg (fun st h => h) _ (b_cap (w_b w)) (b_alias (w_b w)) (b_src (w_b w)) (b_dst (w_b w)) HL i w (inv_init _ _ HS HO)) as H.
  rewrite E in H. exact (inv_K _ _ _ _ _ _ _ _ H).
Qed.
Print Assumptions protect_rtcp_aead_writes_below_length.

Theorem unprotect_rtcp_aead_writes_below_length w w' l :
  b_oob (w_b w) = false -> size_ok (b_len (w_b w)) -> session_wf (w_s w) ->
  unprotect_rtcp_aead w = (w', inl l) ->
  drop (zn l) (b_dst (w_b w')) = drop (zn l) (b_dst (w_b w)).
Proof.
  intros HO HL HS E.
  pose proof (unprotect_rtcp_aead_above stream_wf stream_wf_cfg (fun st h => h) _ (b_cap (w_b w)) (b_alias (w_b w)) (b_src (w_b w)) (b_dst (w_b w)) HL w (inv_init _ _ HS HO)) as H.
  rewrite E in H. exact (inv_K _ _ _ _ _ _ _ _ H).
Qed.
Print Assumptions unprotect_rtcp_aead_writes_below_length.
