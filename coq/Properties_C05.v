(* Properties_C05.v — SRTP replay protection (C05).  Statements only; proofs in RdbxProofs.v.
   rdbx_rx is srtp_unprotect's order of effects for an authentic packet with true
   index i: estimate, replay check, (authentication: the tag covers the ROC, so
   est <> i fails -- idealised MAC), add.  IDX_MAX = 2^48 - 2^16 excludes only
   ROC = 2^32-1 (see Properties_C08 for why). *)
From Coq Require Import NArith ZArith List Bool.
From Srtp Require Import Util Constants Rdbx Seen IndexProofs RdbxProofs.
Import ListNotations.
Local Open Scope Z_scope.

Theorem window_constants :
  window_min_c = 64 /\ window_lim_c = 32768 /\ window_default_c = 128.
Proof. repeat split; reflexivity. Qed.
Print Assumptions window_constants.

(* for every window size 1..32767 (the API admits 64..32767 and 0 -> 128), every
   delivery list of any length: no packet index is accepted twice *)
Theorem srtp_at_most_once : forall ws r0 l,
  0 < ws <= 32767 -> rdbx_init ws = Some r0 ->
  Forall (fun i => 0 <= i < IDX_MAX) l ->
  let acc := snd (rdbx_run r0 l) in
  forall n m i, (m < n)%nat -> nth_error l n = Some i -> nth_error l m = Some i ->
    ~ (nth_error acc n = Some true /\ nth_error acc m = Some true).
Proof. exact rdbx_at_most_once. Qed.
Print Assumptions srtp_at_most_once.

(* every reachable state represents the accepted set; the effective window is the
   configured one rounded up to a multiple of 32 *)
Theorem srtp_reachable_invariant : forall ws r0 l,
  0 < ws <= 32767 -> rdbx_init ws = Some r0 ->
  Forall (fun i => 0 <= i < IDX_MAX) l ->
  let '(r, acc) := rdbx_run r0 l in
  Inv r (seen_of l acc) /\ wlen r = roundup32 ws /\ ws <= wlen r.
Proof. exact rdbx_reachable_inv. Qed.
Print Assumptions srtp_reachable_invariant.

(* verdict on the next authentic packet in every such state (index r = highest accepted):
   copies rejected; at or beyond the effective window behind the highest: rejected;
   unseen and inside the window (hence inside the configured one): accepted *)
Theorem srtp_next_verdict : forall r seen i,
  Inv r seen -> 0 <= i < IDX_MAX -> Z.abs (i - index r) < 2 ^ 15 ->
  (seen i -> snd (rdbx_rx r i) = false) /\
  (i <= index r - wlen r -> snd (rdbx_rx r i) = false) /\
  (~ seen i -> index r - wlen r < i -> snd (rdbx_rx r i) = true).
Proof. exact rx_verdict. Qed.
Print Assumptions srtp_next_verdict.

Theorem srtp_step : forall r seen i,
  Inv r seen -> 0 <= i < IDX_MAX ->
  let '(r', acc) := rdbx_rx r i in
  (acc = true -> ~ seen i /\ Inv r' (add_seen seen i) /\ - 2 ^ 15 <= i - index r < 2 ^ 16) /\
  (acc = false -> r' = r).
Proof. exact rx_step. Qed.
Print Assumptions srtp_step.

Example srtp_history_example :
  match rdbx_init 64 with
  | Some r0 => snd (rdbx_run r0 [10; 9; 10; 80; 17; 16; 30000; 60000; 65600; 65536; 65537; 65536])
  | None => []
  end = [true; true; false; true; true; false; true; true; true; false; true; false].
Proof. vm_compute. reflexivity. Qed.
