(* RtpSpec.v — C01 / C12 (SRTP half): a PURE functional specification of srtp_protect
   (no packet buffers, no monad):

     rtp_wire st k est pkt      what srtp_protect puts on the wire for stream st, key k,
                                packet index est and RTP packet pkt
                                  = body ++ MKI ++ tag,
                                  body = header (with RFC 6904 / cryptex transformations)
                                         ++ transformed payload
     protect_fun ss i C pkt     status / wire bytes / final session of srtp_protect for a
                                session that holds an explicit stream for the packet's SSRC

   The cipher facts the round trip rests on (output = data xor keystream(state, length)) are
   those of RtcpSpec.v.  The refinement proofs are in RtpSpecProofs.v, the round trip in
   RtpRoundTrip.v. *)
From Coq Require Import NArith ZArith List Bool Lia.
From Srtp Require Import Util Constants KeyLimit Rdb Rdbx Icm World Stream Rtp RtcpSpec.
From Srtp.Crypto Require Import AES HMAC.
Import ListNotations.
Local Open Scope Z_scope.

(* ===================================================================== *)
(* 1. the pieces of the wire format                                        *)
(* ===================================================================== *)
Definition rtp_conf (st : stream) : bool := negb (Z.land (s_rtp_serv st) sec_serv_conf_c =? 0).
Definition rtp_auth (st : stream) : bool := negb (Z.land (s_rtp_serv st) sec_serv_auth_c =? 0).

(* end of the part of the packet that is never encrypted without cryptex: fixed header, CSRC
   list, header extension *)
Definition enc0 (pkt : bytes) : Z := hdr_len pkt + (if hdr_x pkt =? 1 then xtn_len pkt else 0).

(* the keystream prefix (only the null auth function has one): cipher state after it and
   the prefix octets, which land in the tag field *)
Definition wire_prefix (do_auth : bool) (a : akey) (cs0 : cstate) : option (cstate * bytes) :=
  if do_auth && negb (ak_prefix a =? 0) then
    let '(s, cs', ks) := cipher_output cs0 (ak_prefix a) in
    if negb (s =? st_ok) then None else Some (cs', ks)
  else Some (cs0, []).

(* RFC 6904 on a block q whose extension header is at off: the elements whose id is in ids
   are xored with the keystream of the header-extension cipher; None = parse error *)
Definition xtn_apply (ids : bytes) (xcs : cstate) (off : Z) (q : bytes) : option bytes :=
  let profile := be16 q (zn off) in
  let n := be16 q (zn (off + 2)) * 4 in
  if negb (profile =? xtn_hdr_one_byte_profile_c) && negb (Z.land profile 65520 =? xtn_hdr_two_byte_profile_c)
  then None
  else
    let d := slice (zn (off + 4)) (zn n) q in
    match (if profile =? xtn_hdr_one_byte_profile_c
           then xtn_one (S (length d)) ids xcs d 0
           else xtn_two (S (length d)) ids xcs d 0) with
    | Some d' => Some (splice (zn (off + 4)) d' q)
    | None => None
    end.

Definition wire_xtn (ids : bytes) (xk : option ckey) (iv : bytes) (pkt : bytes) : option bytes :=
  match xk with
  | Some xk => if hdr_x pkt =? 1 then xtn_apply ids (cipher_start xk iv) (hdr_len pkt) pkt else Some pkt
  | None => Some pkt
  end.

(* the cryptex profile that replaces a plain one *)
Definition cryptex_profile_of (profile : Z) : option Z :=
  if profile =? xtn_hdr_one_byte_profile_c then Some cryptex_one_byte_profile_c
  else if profile =? xtn_hdr_two_byte_profile_c then Some cryptex_two_byte_profile_c
  else None.

(* confidentiality: without cryptex everything from enc0 on is encrypted; with cryptex (and
   a header extension) the profile is replaced and CSRC list ++ extension elements ++ payload
   are encrypted as one run, the four octets of the extension header staying in clear *)
Definition wire_crypt (st : stream) (cs1 : cstate) (p1 : bytes) : bytes + Z :=
  let conf := rtp_conf st in
  if s_cryptex st && conf && (hdr_x p1 =? 1) then
    let hl := hdr_len p1 in
    match cryptex_profile_of (be16 p1 (zn hl)) with
    | None => inr st_parse_err
    | Some v =>
      let p2 := splice (zn hl) (be_bytes 2 (Z.to_N v)) p1 in
      let n := zn (4 * hdr_cc p1) in
      let '(s, _, o) := cipher_encrypt cs1 (slice 12 n p2 ++ drop (zn (hl + 4)) p2) in
      if negb (s =? st_ok) then inr st_cipher_fail
      else inl (take 12 p2 ++ take n o ++ slice (zn hl) 4 p2 ++ drop n o)
    end
  else if conf then
    let '(s, _, o) := cipher_encrypt cs1 (drop (zn (enc0 p1)) p1) in
    if negb (s =? st_ok) then inr st_cipher_fail else inl (take (zn (enc0 p1)) p1 ++ o)
  else inl p1.

(* the tag field: keystream prefix overwritten by what the auth function writes over
   body ++ ROC; zeros without authentication *)
Definition wire_tag (a : akey) (do_auth : bool) (pre body : bytes) (est : Z) : bytes :=
  if do_auth then
    let c := auth_compute a (body ++ take 4 (be64 (est * 65536))) in c ++ drop (length c) pre
  else zeros (zn (ak_tag a)).

(* ===================================================================== *)
(* 2. what srtp_protect puts on the wire                                   *)
(* ===================================================================== *)
Definition rtp_wire_r (st : stream) (k : skeys) (est : Z) (pkt : bytes) : bytes + Z :=
  if negb (validate_rtp pkt (lenZ pkt) =? st_ok) then inr (validate_rtp pkt (lenZ pkt)) else
  if s_cryptex st && rtp_conf st && negb (hdr_cc pkt =? 0) && (hdr_x pkt =? 0) then inr st_cryptex_err else
  let iv := rtp_iv (ck_alg (k_rtp_c k)) (hdr_ssrc pkt) est in
  match wire_prefix (rtp_auth st) (k_rtp_a k) (cipher_start (k_rtp_c k) iv) with
  | None => inr st_cipher_fail
  | Some (cs1, pre) =>
    match wire_xtn (s_enc_xtn st) (k_xtn_c k) iv pkt with
    | None => inr st_parse_err
    | Some p1 =>
      match wire_crypt st cs1 p1 with
      | inr e => inr e
      | inl body =>
        inl (body ++ (if s_use_mki st then k_mki k else []) ++ wire_tag (k_rtp_a k) (rtp_auth st) pre body est)
      end
    end
  end.

Definition rtp_wire (st : stream) (k : skeys) (est : Z) (pkt : bytes) : option bytes :=
  match rtp_wire_r st k est pkt with inl b => Some b | inr _ => None end.

(* ===================================================================== *)
(* 3. the session side, for a packet whose SSRC has an explicit stream    *)
(* ===================================================================== *)
(* srtp_key_limit_update on the stream's key i (a clone is charged on the template) *)
Definition limit_update_fun (ss : session) (x : Z) (st : stream) (i : Z) : (session * kevent) + Z :=
  if s_clone st then
    match ss_template ss with
    | None => inr st_fail
    | Some t =>
      match nth_error (s_limits t) (zn i) with
      | Some k => inl ({| ss_template := Some (set_limits t (replace_nth (zn i) (s_limits t) (fst (kl_update k))));
                          ss_list := ss_list ss; ss_cap := ss_cap ss |}, snd (kl_update k))
      | None => inr st_fail
      end
    end
  else
    match nth_error (s_limits st) (zn i) with
    | Some k => inl (sess_put ss x (set_limits st (replace_nth (zn i) (s_limits st) (fst (kl_update k)))), snd (kl_update k))
    | None => inr st_fail
    end.

(* the stream as it is in the list after the charge *)
Definition charged_stream (st : stream) (i : Z) : stream :=
  if s_clone st then st
  else match nth_error (s_limits st) (zn i) with
       | Some k => set_limits st (replace_nth (zn i) (s_limits st) (fst (kl_update k)))
       | None => st
       end.

Definition charge_fun (ss : session) (x : Z) (st : stream) (i : Z) : session * (unit + Z) :=
  match limit_update_fun ss x st i with
  | inr e => (ss, inr e)
  | inl (ss', EvHard) => (ss', inr st_key_expired)
  | inl (ss', _) => (ss', inl tt)
  end.

(* index estimation, replay check and the update of the replay window *)
Definition index_step (st : stream) (seq : Z) : (Z * stream) + Z :=
  let '(est_st, est, delta) := est_index st seq in
  if negb (est_st =? st_ok) && negb (est_st =? st_pkt_idx_adv) then inr est_st
  else if est_st =? st_pkt_idx_adv then inl (est, commit_advance st est)
  else
    let cs := rdbx_check (s_rdbx st) delta in
    if negb (cs =? st_ok) && (negb (cs =? st_replay_fail) || negb (s_allow_repeat st)) then inr cs
    else inl (est, set_pending (set_rdbx st (rdbx_add (s_rdbx st) delta)) 0).

(* srtp_protect as a function of the session, the MKI index, *out_len and the packet: final
   session and either the wire bytes or the error status.  (Case "no stream for this SSRC",
   i.e. cloning of the template, is outside this specification: st_no_ctx is a placeholder.) *)
Definition protect_fun (ss : session) (mki_index C : Z) (pkt : bytes) : session * (bytes + Z) :=
  let len := lenZ pkt in
  if negb (validate_rtp pkt len =? st_ok) then (ss, inr (validate_rtp pkt len)) else
  let ssrc := hdr_ssrc pkt in
  match list_get (ss_list ss) ssrc with
  | None => (ss, inr st_no_ctx)
  | Some st0 =>
    let ss1 := dir_session ss ssrc st0 dir_srtp_sender_c in
    let st := dir_stream st0 dir_srtp_sender_c in
    match sender_key_st st mki_index with
    | inr e => (ss1, inr e)
    | inl (ki, k) =>
      match charge_fun ss1 ssrc st ki with
      | (ss2, inr e) => (ss2, inr e)
      | (ss2, inl _) =>
        if C <? len + s_mki_size st + ak_tag (k_rtp_a k) then (ss2, inr st_buffer_small) else
        if s_cryptex st && rtp_conf st && negb (hdr_cc pkt =? 0) && (hdr_x pkt =? 0) then (ss2, inr st_cryptex_err) else
        match index_step (charged_stream st ki) (hdr_seq pkt) with
        | inr e => (ss2, inr e)
        | inl (est, st3) =>
          let ss3 := sess_put ss2 ssrc st3 in
          match rtp_wire_r st k est pkt with
          | inr e => (ss3, inr e)
          | inl wire => (ss3, inl wire)
          end
        end
      end
    end
  end.
