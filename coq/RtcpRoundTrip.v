(* RtcpRoundTrip.v — C02 (SRTCP): what srtp_protect_rtcp puts on the wire is accepted by
   srtp_unprotect_rtcp of a receiver holding the same keys, and gives the original packet
   back.  Proved on the pure functions of RtcpSpec.v (rtcp_round_trip_fun), then transported
   to the monadic model, in place and out of place, by the refinement theorems of
   RtcpSpecProofs.v (rtcp_round_trip). *)
From Coq Require Import NArith ZArith List Bool Lia.
From Srtp Require Import Util Constants KeyLimit Rdb Rdbx Icm World Stream Rtp Rtcp
     MonadLemmas EnvelopeProofs WfProofs BoundsRtcp LengthProofs EqualProofs RtcpSpec RtcpSpecProofs.
Import ListNotations.
Local Open Scope Z_scope.

Lemma some_inj {A} (a b : A) : Some a = Some b -> a = b.
Proof. intros H. injection H as H. exact H. Qed.

(* ===================================================================== *)
(* 1. the payload transform is an involution from a fixed cipher state     *)
(* ===================================================================== *)
Lemma rtcp_body_len cs conf p e : rtcp_body cs conf p = Some e -> length e = length p.
Proof.
  unfold rtcp_body. destruct conf.
  - destruct (cipher_encrypt cs p) as [[s c'] o] eqn:E. destruct (s =? st_ok) eqn:ES; cbn [negb]; [|discriminate].
    intros H; injection H as <-. exact (cipher_encrypt_ok_length _ _ _ _ _ E ES).
  - intros H; injection H as <-. reflexivity.
Qed.
Lemma rtcp_body_inv cs conf p e : rtcp_body cs conf p = Some e -> rtcp_body cs conf e = Some p.
Proof.
  unfold rtcp_body. destruct conf.
  - destruct (cipher_encrypt cs p) as [[s c'] o] eqn:E. destruct (s =? st_ok) eqn:ES; cbn [negb]; [|discriminate].
    intros H; injection H as <-. destruct (cipher_encrypt_involutive _ _ _ _ _ E ES) as [E2 _].
    rewrite E2. reflexivity.
  - intros H; injection H as <-. reflexivity.
Qed.

(* ===================================================================== *)
(* 2. the trailer: E flag and 31-bit index survive encoding / decoding     *)
(* ===================================================================== *)
Lemma land128 b : (b < 256)%N -> (N.land b 128 =? 0)%N = (b <? 128)%N.
Proof.
  intros H. destruct b as [|p]; [reflexivity|].
  do 8 (destruct p as [p|p|]; try reflexivity); exfalso; lia.
Qed.

Lemma be4_explicit x :
  be_bytes 4 x = [N.land (N.shiftr (N.shiftr (N.shiftr x 8) 8) 8) 255; N.land (N.shiftr (N.shiftr x 8) 8) 255;
                  N.land (N.shiftr x 8) 255; N.land x 255].
Proof. reflexivity. Qed.

Lemma be_val_be4 x : be_val (be_bytes 4 x) = (x mod 4294967296)%N.
Proof.
  rewrite be4_explicit. cbn [be_val length].
  change (256 ^ N.of_nat 3)%N with 16777216%N. change (256 ^ N.of_nat 2)%N with 65536%N.
  change (256 ^ N.of_nat 1)%N with 256%N. change (256 ^ N.of_nat 0)%N with 1%N.
  change 255%N with (N.ones 8). rewrite !N.land_ones, !N.shiftr_div_pow2.
  change (2 ^ 8)%N with 256%N. lia.
Qed.

Lemma be4_first x : (x < 4294967296)%N -> nthb (be_bytes 4 x) 0 = (x / 16777216)%N.
Proof.
  intros H. rewrite be4_explicit. unfold nthb. cbn [nth].
  change 255%N with (N.ones 8). rewrite N.land_ones, !N.shiftr_div_pow2.
  change (2 ^ 8)%N with 256%N. lia.
Qed.

Section TRAILER.
Variables (conf : bool) (seq : Z).
Hypothesis Hseq : 0 <= seq < 2147483648.
Let x : N := Z.to_N ((if conf then SRTCP_E_BIT_c else 0) + seq).

Lemma tr_x_lt : (x < 4294967296)%N.
Proof. subst x. unfold SRTCP_E_BIT_c. destruct conf; lia. Qed.

Lemma trailer_ebit : rtcp_rx_ebit (rtcp_trailer conf seq) = conf.
Proof.
  unfold rtcp_rx_ebit, rtcp_trailer. fold x. rewrite (be4_first x tr_x_lt).
  change (Z.to_N SRTCP_E_BYTE_BIT_c) with 128%N.
  pose proof tr_x_lt as Hx.
  rewrite land128 by lia.
  subst x. unfold SRTCP_E_BIT_c in *. destruct conf; cbn [negb].
  - apply negb_true_iff. apply N.ltb_ge. lia.
  - apply negb_false_iff. apply N.ltb_lt. lia.
Qed.

Lemma trailer_index : rtcp_rx_index (rtcp_trailer conf seq) = seq.
Proof.
  unfold rtcp_rx_index, rtcp_trailer, be32. fold x.
  change (slice 0 4 (be_bytes 4 x)) with (be_bytes 4 x).
  rewrite be_val_be4. pose proof tr_x_lt as Hx. rewrite N.mod_small by exact Hx.
  change SRTCP_INDEX_MASK_c with (Z.ones 31). rewrite Z.land_ones by lia.
  subst x. unfold SRTCP_E_BIT_c. change (2 ^ 31) with 2147483648. destruct conf; lia.
Qed.
End TRAILER.

(* the two readings of "confidentiality is on" agree on the four sec_serv_t values *)
Lemma conf_agree st : 0 <= s_rtcp_serv st <= 3 -> rtcp_rx_conf st = rtcp_conf st.
Proof.
  intros H. unfold rtcp_rx_conf, rtcp_conf, sec_serv_conf_c.
  assert (E : s_rtcp_serv st = 0 \/ s_rtcp_serv st = 1 \/ s_rtcp_serv st = 2 \/ s_rtcp_serv st = 3) by lia.
  destruct E as [E|[E|[E|E]]]; rewrite E; reflexivity.
Qed.
(* outside that range they differ: the model of the sender tests bit 0, the receiver tests
   the values 1 and 3 (as srtp.c does); sec_serv_t only has the values 0..3 *)
Lemma conf_disagree_out_of_range :
  exists serv, negb (Z.land serv sec_serv_conf_c =? 0) <> ((serv =? 1) || (serv =? 3)).
Proof. exists 5. discriminate. Qed.

(* ===================================================================== *)
(* 3. finding the key back from the MKI                                   *)
(* ===================================================================== *)
Lemma beqb_refl a : beqb a a = true.
Proof. apply beqb_iff. reflexivity. Qed.

Lemma find_mki_nodup ks k : forall j,
  NoDup (map k_mki ks) -> In k ks -> exists idx, find_mki ks (k_mki k) j = Some (idx, k).
Proof.
  induction ks as [|k0 t IH]; intros j ND HI; [contradiction|].
  cbn [find_mki]. cbn [map] in ND. inversion ND as [|? ? Hnin ND']; subst.
  destruct (beqb (k_mki k0) (k_mki k)) eqn:EB.
  - apply beqb_iff in EB. destruct HI as [->|HI]; [exists j; reflexivity|].
    exfalso. apply Hnin. rewrite EB. apply in_map. exact HI.
  - destruct HI as [->|HI]; [rewrite beqb_refl in EB; discriminate|].
    exact (IH (j + 1) ND' HI).
Qed.

(* ===================================================================== *)
(* 4. slices of  (hdr ++ enc ++ tr) ++ mki ++ tagr                         *)
(* ===================================================================== *)
Lemma slice_mid {A} (a b c : list A) o n :
  zn o = length a -> zn n = length b -> slice (zn o) (zn n) (a ++ b ++ c) = b.
Proof.
  intros Ho Hn. rewrite Ho, Hn. replace (length a) with (length a + 0)%nat by lia.
  rewrite slice_app_r, slice_0. apply take_app_exact.
Qed.

Section WIRE.
Variables (hdr enc tr mki tagr : bytes) (L msz tl : Z).
Hypothesis LH : lenZ hdr = 8.
Hypothesis LE : lenZ enc = L - 8.
Hypothesis LT : lenZ tr = 4.
Hypothesis LM : lenZ mki = msz.
Hypothesis LG : lenZ tagr = tl.
Let W : bytes := (hdr ++ enc ++ tr) ++ mki ++ tagr.
Let LW : Z := L + 4 + msz + tl.

Lemma W_len : lenZ W = LW.
Proof. subst W LW. unfold lenZ in *. rewrite !app_length. lia. Qed.

Lemma W_hdr : take 8 W = hdr.
Proof.
  subst W. rewrite <- !app_assoc. replace 8%nat with (length hdr) by (unfold lenZ in LH; lia).
  apply take_app_exact.
Qed.
Lemma W_be32 : be32 W 4 = be32 hdr 4.
Proof.
  unfold be32. subst W. rewrite <- !app_assoc. rewrite slice_app_l; [reflexivity|]. unfold lenZ in LH. lia.
Qed.
Lemma W_trailer : rtcp_rx_trailer W tl msz = tr.
Proof.
  unfold rtcp_rx_trailer. rewrite W_len. subst W LW. rewrite <- !app_assoc. rewrite (app_assoc hdr enc).
  apply slice_mid; unfold lenZ, zn in *; rewrite ?app_length; lia.
Qed.
Lemma W_mki : slice (zn (LW - tl - msz)) (zn msz) W = mki.
Proof.
  subst W LW. rewrite (app_assoc _ mki tagr).
  replace ((hdr ++ enc ++ tr) ++ mki) with ((hdr ++ enc ++ tr) ++ mki ++ []) by (rewrite app_nil_r; reflexivity).
  rewrite <- app_assoc. rewrite <- (app_assoc mki). cbn [app].
  apply slice_mid; unfold lenZ, zn in *; rewrite ?app_length; lia.
Qed.
Lemma W_auth : slice (zn 0) (zn (LW - tl - msz)) W = hdr ++ enc ++ tr.
Proof.
  subst W LW. change (zn 0) with (length (@nil N)).
  change ((hdr ++ enc ++ tr) ++ mki ++ tagr) with ([] ++ (hdr ++ enc ++ tr) ++ mki ++ tagr).
  apply (slice_mid [] (hdr ++ enc ++ tr) (mki ++ tagr) 0); [reflexivity|].
  unfold lenZ, zn in *; rewrite ?app_length; lia.
Qed.
Lemma W_tag : slice (zn (LW - tl - msz + msz)) (zn tl) W = tagr.
Proof.
  subst W LW. rewrite (app_assoc _ mki tagr). rewrite <- (app_nil_r tagr) at 1.
  apply slice_mid; unfold lenZ, zn in *; rewrite ?app_length; lia.
Qed.
Lemma W_enc : slice (zn 8) (zn (LW - (8 + tl + msz + 4))) W = enc.
Proof.
  subst W LW. rewrite <- !app_assoc.
  apply slice_mid; unfold lenZ, zn in *; lia.
Qed.
End WIRE.

(* ===================================================================== *)
(* 5. the round trip on the pure functions                                *)
(* ===================================================================== *)
Definition rx_session (rs : session) (x : Z) (rt : stream) (seq : Z) : session :=
  sess_put (dir_session rs x rt dir_srtp_receiver_c) x
    (set_rdb (dir_stream rt dir_srtp_receiver_c)
             (snd (rdb_add (s_rdb (dir_stream rt dir_srtp_receiver_c)) seq))).

Section ROUNDTRIP.
Variables (st rt : stream) (k : skeys) (i seq : Z) (pkt wire : bytes) (rs : session) (C : Z).
(* sender *)
Hypothesis HW : rtcp_wire st k seq pkt = Some wire.
Hypothesis H8 : 8 <= lenZ pkt.
Hypothesis Hmax : lenZ pkt < 9223372036854775808.
Hypothesis Hseq : 0 <= seq < 2147483648.
Hypothesis Wst : stream_wf st.
Hypothesis Hsk : sender_key st i = Some k.
(* sec_serv_t has the values 0..3 *)
Hypothesis Hserv : 0 <= s_rtcp_serv st <= 3.
(* the receiver locates the MKI with the tag length of the stream's FIRST key (as srtp.c does):
   the key in use must have that tag length (all keys of a stream come from one policy) *)
Hypothesis Htl : rtcp_tl0 st = ak_tag (k_rtcp_a k).
(* MKI ids of distinct keys are distinct *)
Hypothesis Hnd : s_use_mki st = true -> NoDup (map k_mki (s_keys st)).
(* receiver: same keys and same policy *)
Hypothesis EKs : s_keys rt = s_keys st.
Hypothesis ESv : s_rtcp_serv rt = s_rtcp_serv st.
Hypothesis EU : s_use_mki rt = s_use_mki st.
Hypothesis EM : s_mki_size rt = s_mki_size st.
Hypothesis Hg : list_get (ss_list rs) (be32 pkt 4) = Some rt.
Hypothesis Hrdb : rdb_check (s_rdb rt) seq = st_ok.
Hypothesis HCap : lenZ pkt <= C.

Lemma rt_key_in : In k (s_keys st).
Proof. unfold sender_key in Hsk. exact (nth_error_In _ _ Hsk). Qed.

Lemma rt_receiver_key :
  forall W, slice (zn (lenZ pkt + 4 + s_mki_size st + ak_tag (k_rtcp_a k) - ak_tag (k_rtcp_a k) - s_mki_size st)) (zn (s_mki_size st)) W
            = (if s_use_mki st then k_mki k else []) ->
  exists ki, receiver_key_st rt W (lenZ pkt + 4 + s_mki_size st + ak_tag (k_rtcp_a k)) (rtcp_tl0 rt) = inl (ki, k).
Proof.
  intros W HS. unfold receiver_key_st. rewrite EU, EKs, EM.
  assert (Et : rtcp_tl0 rt = ak_tag (k_rtcp_a k)) by (unfold rtcp_tl0 in *; rewrite EKs; exact Htl).
  rewrite Et.
  pose proof (stream_wf_key _ _ Wst rt_key_in) as (MK & _ & [T _]).
  destruct Wst as (M & _ & _).
  destruct (s_use_mki st) eqn:EUs; cbn [negb].
  - destruct (_ <? ak_tag (k_rtcp_a k)) eqn:E1; [apply Z.ltb_lt in E1; lia|].
    destruct (_ <? s_mki_size st) eqn:E2; [apply Z.ltb_lt in E2; lia|].
    rewrite HS. destruct (find_mki_nodup (s_keys st) k 0 (Hnd eq_refl) rt_key_in) as [idx F].
    rewrite F. exists idx. reflexivity.
  - unfold sender_key in Hsk. rewrite EUs in Hsk. change (zn 0) with O in Hsk.
    destruct (s_keys st) as [|k1 t]; [discriminate|]. cbn in Hsk. injection Hsk as ->. exists 0. reflexivity.
Qed.

Theorem rtcp_round_trip_fun :
  unprotect_rtcp_fun rs C wire = (rx_session rs (be32 pkt 4) rt seq, inl pkt).
Proof.
  pose proof HW as HW'. unfold rtcp_wire in HW'. cbv zeta in HW'.
  destruct (cipher_output (cipher_start (k_rtcp_c k) (rtcp_iv (ck_alg (k_rtcp_c k)) (be32 pkt 4) seq)) (ak_prefix (k_rtcp_a k)))
    as [[ps cs1] ks] eqn:EP.
  destruct (ps =? st_ok) eqn:EPS; unfold negb in HW'; cbv iota in HW'; [|discriminate].
  destruct (rtcp_body cs1 (rtcp_conf st) (drop 8 pkt)) as [enc|] eqn:EB; [|discriminate].
  apply some_inj in HW'.
  set (L := lenZ pkt) in *.
  match type of HW' with ((?h ++ _ ++ ?t) ++ ?m ++ _) = _ =>
    set (hdr := h) in *; set (tr := t) in *; set (mki := m) in * end.
  set (tag := auth_compute (k_rtcp_a k) (hdr ++ enc ++ tr)) in *.
  set (tagr := tag ++ drop (length tag) ks) in *.
  set (msz := s_mki_size st) in *. set (tl := ak_tag (k_rtcp_a k)) in *.
  pose proof (stream_wf_key _ _ Wst rt_key_in) as (MK & _ & TA).
  pose proof Wst as (M & U & _). rewrite max_mki_value in M. fold msz in M, MK, U.
  pose proof (akey_prefix_le _ TA) as PL. pose proof TA as [T KP]. rewrite max_tag_value in T. fold tl in T, PL, KP.
  assert (LH : lenZ hdr = 8) by (subst hdr; unfold lenZ in *; rewrite take_length; lia).
  assert (LE : lenZ enc = L - 8).
  { pose proof (rtcp_body_len _ _ _ _ EB) as H. subst L. unfold lenZ in *. rewrite drop_length in H. lia. }
  assert (LT : lenZ tr = 4) by (subst tr; unfold rtcp_trailer; rewrite lenZ_be_bytes; reflexivity).
  assert (LM : lenZ mki = msz).
  { subst mki. destruct (s_use_mki st); [exact MK|]. rewrite (U eq_refl). reflexivity. }
  assert (LK : lenZ ks = ak_prefix (k_rtcp_a k)).
  { pose proof (cipher_output_ok_length _ _ _ _ _ EP EPS) as H. unfold lenZ, zn in *. lia. }
  assert (LTG : lenZ tag = if ak_kind (k_rtcp_a k) =? SRTP_HMAC_SHA1_c then tl else 0).
  { subst tag tl. apply auth_compute_length. lia. }
  assert (LG : lenZ tagr = tl).
  { subst tagr. unfold lenZ in *. rewrite app_length, drop_length.
    destruct (ak_kind (k_rtcp_a k) =? SRTP_HMAC_SHA1_c); lia. }
  (* the receiver's pre phase *)
  assert (PRE : unprotect_rtcp_pre_fun rs C wire =
                inl {| c_ref := RList (be32 pkt 4); c_ssrc := be32 pkt 4; c_seq := seq; c_cs := cs1;
                       c_conf := rtcp_conf st; c_enc_len := L - 8; c_tag_len := tl; c_mki := msz |}).
  { unfold unprotect_rtcp_pre_fun. cbv zeta. rewrite <- HW'.
    rewrite (W_len hdr enc tr mki tagr L msz tl LH LE LT LM LG).
    destruct (L + 4 + msz + tl <? 8 + 4) eqn:E0; [apply Z.ltb_lt in E0; lia|].
    rewrite (W_be32 hdr enc tr mki tagr L msz tl LH).
    assert (Eb : be32 hdr 4 = be32 pkt 4) by (unfold be32; subst hdr; rewrite slice_take by lia; reflexivity).
    rewrite Eb.
    rewrite Hg.
    destruct (rt_receiver_key ((hdr ++ enc ++ tr) ++ mki ++ tagr)) as [ki RK].
    { apply (W_mki hdr enc tr mki tagr L msz tl LH LE LT LM). }
    fold L msz tl in RK. rewrite RK. cbv beta iota. rewrite EM. fold msz tl.
    destruct (L + 4 + msz + tl <? 8 + 4 + msz + tl) eqn:E1; [apply Z.ltb_lt in E1; lia|].
    rewrite (W_trailer hdr enc tr mki tagr L msz tl LH LE LT LM LG).
    assert (TE : rtcp_rx_ebit tr = rtcp_conf st) by (subst tr; apply trailer_ebit; exact Hseq).
    assert (TI : rtcp_rx_index tr = seq) by (subst tr; apply trailer_index; exact Hseq).
    rewrite TE, TI.
    assert (Ec : rtcp_rx_conf rt = rtcp_conf st).
    { rewrite <- (conf_agree st Hserv). unfold rtcp_rx_conf. rewrite ESv. reflexivity. }
    rewrite Ec, eqb_reflx, Hrdb. change (st_ok =? st_ok) with true. cbv iota.
    (* keystream prefix *)
    assert (PX : rtcp_rx_prefix (cipher_start (k_rtcp_c k) (rtcp_iv (ck_alg (k_rtcp_c k)) (be32 pkt 4) seq))
                   (ak_prefix (k_rtcp_a k)) = inl (cs1, ks)).
    { unfold rtcp_rx_prefix. destruct (ak_prefix (k_rtcp_a k) =? 0) eqn:EZ; cbn [negb].
      - apply Z.eqb_eq in EZ. rewrite EZ in EP. destruct (cipher_output_start_0 _ _ _ _ _ EP EPS) as [-> ->]. reflexivity.
      - rewrite EP, EPS. cbn [negb]. destruct (SRTP_MAX_TAG_LEN_c <? ak_prefix (k_rtcp_a k)) eqn:EX; [|reflexivity].
        apply Z.ltb_lt in EX. rewrite max_tag_value in EX. lia. }
    rewrite PX. cbn [fst snd].
    rewrite (W_auth hdr enc tr mki tagr L msz tl LH LE LT). fold tag.
    destruct (SRTP_MAX_TAG_LEN_c <? lenZ tag) eqn:EM2.
    { apply Z.ltb_lt in EM2. rewrite max_tag_value in EM2. destruct (ak_kind (k_rtcp_a k) =? SRTP_HMAC_SHA1_c); lia. }
    rewrite (W_tag hdr enc tr mki tagr L msz tl LH LE LT LM LG). fold tagr.
    replace (take (zn tl) (tagr ++ zeros (zn tl))) with tagr
      by (symmetry; replace (zn tl) with (length tagr) by (unfold lenZ, zn in *; lia); apply take_app_exact).
    rewrite beqb_refl.
    replace (L + 4 + msz + tl - 4 - msz - tl) with L by lia. rewrite u64_small by (subst L; pose proof (lenZ_nonneg pkt); lia).
    destruct (C <? L) eqn:E2; [apply Z.ltb_lt in E2; lia|].
    f_equal. f_equal. lia. }
  unfold unprotect_rtcp_fun. rewrite PRE. unfold unprotect_rtcp_post_fun. cbn [c_cs c_conf c_enc_len c_ssrc c_seq].
  rewrite <- HW'.
  replace (L - 8) with (L + 4 + msz + tl - (8 + tl + msz + 4)) by lia.
  rewrite (W_enc hdr enc tr mki tagr L msz tl LH LE).
  rewrite (rtcp_body_inv _ _ _ _ EB), Hg. cbv zeta.
  rewrite (W_hdr hdr enc tr mki tagr L msz tl LH). subst hdr. rewrite take_drop_id. reflexivity.
Qed.

(* the E flag and the index the receiver reads are those the sender wrote *)
Theorem rtcp_wire_trailer :
  let tr := rtcp_rx_trailer wire (ak_tag (k_rtcp_a k)) (s_mki_size st) in
  rtcp_rx_ebit tr = rtcp_conf st /\ rtcp_rx_index tr = seq /\
  lenZ wire = lenZ pkt + 4 + s_mki_size st + ak_tag (k_rtcp_a k) /\ be32 wire 4 = be32 pkt 4.
Proof.
  clear Hmax Hserv Htl Hnd EKs ESv EU EM Hg Hrdb HCap.
  pose proof HW as HW'. unfold rtcp_wire in HW'. cbv zeta in HW'.
  destruct (cipher_output (cipher_start (k_rtcp_c k) (rtcp_iv (ck_alg (k_rtcp_c k)) (be32 pkt 4) seq)) (ak_prefix (k_rtcp_a k)))
    as [[ps cs1] ks] eqn:EP.
  destruct (ps =? st_ok) eqn:EPS; unfold negb in HW'; cbv iota in HW'; [|discriminate].
  destruct (rtcp_body cs1 (rtcp_conf st) (drop 8 pkt)) as [enc|] eqn:EB; [|discriminate].
  apply some_inj in HW'.
  set (L := lenZ pkt) in *.
  match type of HW' with ((?h ++ _ ++ ?t) ++ ?m ++ _) = _ =>
    set (hdr := h) in *; set (tr := t) in *; set (mki := m) in * end.
  set (tag := auth_compute (k_rtcp_a k) (hdr ++ enc ++ tr)) in *.
  set (tagr := tag ++ drop (length tag) ks) in *.
  set (msz := s_mki_size st) in *. set (tl := ak_tag (k_rtcp_a k)) in *.
  pose proof (stream_wf_key _ _ Wst rt_key_in) as (MK & _ & TA).
  pose proof Wst as (M & U & _). rewrite max_mki_value in M. fold msz in M, MK, U.
  pose proof (akey_prefix_le _ TA) as PL. pose proof TA as [T KP]. rewrite max_tag_value in T. fold tl in T, PL, KP.
  assert (LH : lenZ hdr = 8) by (subst hdr; unfold lenZ in *; rewrite take_length; lia).
  assert (LE : lenZ enc = L - 8).
  { pose proof (rtcp_body_len _ _ _ _ EB) as H. subst L. unfold lenZ in *. rewrite drop_length in H. lia. }
  assert (LT : lenZ tr = 4) by (subst tr; unfold rtcp_trailer; rewrite lenZ_be_bytes; reflexivity).
  assert (LM : lenZ mki = msz).
  { subst mki. destruct (s_use_mki st); [exact MK|]. rewrite (U eq_refl). reflexivity. }
  assert (LK : lenZ ks = ak_prefix (k_rtcp_a k)).
  { pose proof (cipher_output_ok_length _ _ _ _ _ EP EPS) as H. unfold lenZ, zn in *. lia. }
  assert (LTG : lenZ tag = if ak_kind (k_rtcp_a k) =? SRTP_HMAC_SHA1_c then tl else 0).
  { subst tag tl. apply auth_compute_length. lia. }
  assert (LG : lenZ tagr = tl).
  { subst tagr. unfold lenZ in *. rewrite app_length, drop_length.
    destruct (ak_kind (k_rtcp_a k) =? SRTP_HMAC_SHA1_c); lia. }
  cbv zeta. rewrite <- HW'.
  rewrite (W_trailer hdr enc tr mki tagr L msz tl LH LE LT LM LG).
  rewrite (W_len hdr enc tr mki tagr L msz tl LH LE LT LM LG).
  rewrite (W_be32 hdr enc tr mki tagr L msz tl LH).
  assert (TE : rtcp_rx_ebit tr = rtcp_conf st) by (subst tr; apply trailer_ebit; exact Hseq).
  assert (TI : rtcp_rx_index tr = seq) by (subst tr; apply trailer_index; exact Hseq).
  rewrite TE, TI.
  repeat split. unfold be32. subst hdr. rewrite slice_take by lia. reflexivity.
Qed.
End ROUNDTRIP.
Print Assumptions rtcp_round_trip_fun.
Print Assumptions rtcp_wire_trailer.

(* ===================================================================== *)
(* 6. the round trip for worlds: in place or out of place, any prefill     *)
(* ===================================================================== *)
(* The receiver's call: its input block holds `wire`; its session holds, for the packet's
   SSRC, an explicit stream rt with the sender's keys and policy; *out_len is at least the
   length of the original packet. *)
Theorem rtcp_round_trip st rt k i seq pkt wire w w' r :
  rtcp_wire st k seq pkt = Some wire ->
  8 <= lenZ pkt -> 0 <= seq < 2147483648 ->
  stream_wf st -> sender_key st i = Some k ->
  0 <= s_rtcp_serv st <= 3 ->
  rtcp_tl0 st = ak_tag (k_rtcp_a k) ->
  (s_use_mki st = true -> NoDup (map k_mki (s_keys st))) ->
  s_keys rt = s_keys st -> s_rtcp_serv rt = s_rtcp_serv st ->
  s_use_mki rt = s_use_mki st -> s_mki_size rt = s_mki_size st ->
  rtcp_world_ok w -> in_pkt w = wire ->
  list_get (ss_list (w_s w)) (be32 pkt 4) = Some rt ->
  rdb_check (s_rdb rt) seq = st_ok ->
  lenZ pkt <= b_cap (w_b w) ->
  unprotect_rtcp w = (w', r) ->
  r = inl (lenZ pkt) /\ take (length pkt) (b_dst (w_b w')) = pkt /\
  w_s w' = rx_session (w_s w) (be32 pkt 4) rt seq /\
  b_oob (w_b w') = false /\ b_src (w_b w') = b_src (w_b w).
Proof.
  intros HW H8 Hseq Wst Hsk Hserv Htl Hnd EKs ESv EU EM OK EI Hg Hrdb HCap E.
  destruct (rtcp_wire_trailer st k i seq pkt wire HW H8 Hseq Wst Hsk) as (_ & _ & LWr & EB).
  pose proof (in_pkt_len w OK) as LI. rewrite EI in LI.
  pose proof (stream_wf_key _ _ Wst (rt_key_in st k i Hsk)) as (_ & _ & [T _]).
  pose proof Wst as (M & _ & _).
  assert (Hmax : lenZ pkt < 9223372036854775808).
  { destruct OK as (_ & _ & [_ HLs] & _). lia. }
  assert (Hg' : list_get (ss_list (w_s w)) (be32 (in_pkt w) 4) = Some rt) by (rewrite EI, EB; exact Hg).
  destruct (unprotect_rtcp_refines w rt w' r OK Hg' E) as (S1 & O1 & R1).
  rewrite EI in R1.
  rewrite (rtcp_round_trip_fun st rt k i seq pkt wire (w_s w) (b_cap (w_b w))
             HW H8 Hmax Hseq Wst Hsk Hserv Htl Hnd EKs ESv EU EM Hg Hrdb HCap) in R1.
  destruct r as [l|s].
  - destruct R1 as (out & A & B & Cc). injection A as A1 A2. subst out l.
    rewrite zn_len in Cc. auto.
  - discriminate R1.
Qed.
Print Assumptions rtcp_round_trip.

(* END TO END: a successful srtp_protect_rtcp in a sender world ws, whose output octets are
   handed to srtp_unprotect_rtcp in a receiver world wr.  Each of the two calls may work in
   place or out of place, whatever its destination held before. *)
Theorem rtcp_protect_unprotect ws ws' l i st rt wr wr' r :
  (* sender *)
  rtcp_world_ok ws -> list_get (ss_list (w_s ws)) (be32 (in_pkt ws) 4) = Some st ->
  0 <= wstart (s_rdb st) ->
  protect_rtcp i ws = (ws', inl l) ->
  0 <= s_rtcp_serv st <= 3 ->
  (forall k, sender_key st i = Some k -> rtcp_tl0 st = ak_tag (k_rtcp_a k)) ->
  (s_use_mki st = true -> NoDup (map k_mki (s_keys st))) ->
  (* receiver: same keys and policy, the packet's index passes its replay check *)
  s_keys rt = s_keys st -> s_rtcp_serv rt = s_rtcp_serv st ->
  s_use_mki rt = s_use_mki st -> s_mki_size rt = s_mki_size st ->
  rtcp_world_ok wr -> in_pkt wr = take (zn l) (b_dst (w_b ws')) ->
  list_get (ss_list (w_s wr)) (be32 (in_pkt ws) 4) = Some rt ->
  rdb_check (s_rdb rt) (wstart (s_rdb st) + 1) = st_ok ->
  b_len (w_b ws) <= b_cap (w_b wr) ->
  unprotect_rtcp wr = (wr', r) ->
  r = inl (b_len (w_b ws)) /\
  take (zn (b_len (w_b ws))) (b_dst (w_b wr')) = in_pkt ws /\
  w_s wr' = rx_session (w_s wr) (be32 (in_pkt ws) 4) rt (wstart (s_rdb st) + 1).
Proof.
  intros OKs Hgs Hws EP Hserv Htl Hnd EKs ESv EU EM OKr EI Hgr Hrdb HCap EUn.
  pose proof (in_pkt_len ws OKs) as LPs.
  destruct (protect_rtcp_refines ws i st ws' _ OKs Hgs EP) as (_ & _ & wire & A & B & Cc).
  destruct (protect_rtcp_fun_ok _ _ _ _ _ _ _ Hgs A) as (k & K1 & K2 & K3 & _).
  change rtcp_ceiling_c with 2147483647 in K3.
  unfold u32 in K2. rewrite Z.mod_small in K2 by lia.
  assert (H8 : 8 <= lenZ (in_pkt ws)).
  { revert A. unfold protect_rtcp_fun. cbv zeta. destruct (lenZ (in_pkt ws) <? 8) eqn:E8; [discriminate|].
    intros _. apply Z.ltb_ge. exact E8. }
  destruct OKs as ((_ & WL) & _). pose proof (list_get_SP _ _ _ _ WL Hgs) as Wst.
  rewrite Cc in EI.
  destruct (rtcp_round_trip st rt k i (wstart (s_rdb st) + 1) (in_pkt ws) wire wr wr' r
              K2 H8 ltac:(lia) Wst K1 Hserv (Htl k K1) Hnd EKs ESv EU EM OKr EI Hgr Hrdb ltac:(lia) EUn)
    as (R1 & R2 & R3 & _).
  rewrite LPs in R1. split; [exact R1|]. split; [|exact R3].
  replace (zn (b_len (w_b ws))) with (length (in_pkt ws)) by (rewrite <- LPs; symmetry; apply zn_len).
  exact R2.
Qed.
Print Assumptions rtcp_protect_unprotect.

(* ===================================================================== *)
(* 7. non-vacuity: AES-ICM-128 + HMAC-SHA1-80, MKI in use, two keys; the monadic model is
      run in place and out of place (destination prefilled with 0xEE), and the receiver gets
      the packet back; all by computation.                                *)
(* ===================================================================== *)
Module Example.
Definition bytes_from (a n : nat) : bytes := map N.of_nat (seq a n).
Definition mk_keys (a : nat) (mki : bytes) : skeys :=
  let c := cipher_key SRTP_AES_ICM_128_c 30 (bytes_from a 30) in
  let h := auth_key SRTP_HMAC_SHA1_c 20 10 (bytes_from (a + 40) 20) in
  {| k_rtp_c := c; k_rtp_a := h; k_xtn_c := None; k_rtcp_c := c; k_rtcp_a := h;
     k_salt := []; k_csalt := []; k_mki := mki |}.
Definition mk_stream (ssrc dir : Z) (rb : rdb) : stream :=
  {| s_ssrc := ssrc; s_clone := false; s_keys := [mk_keys 1 [7%N; 1%N]; mk_keys 100 [7%N; 2%N]];
     s_limits := [mk_limit; mk_limit];
     s_rdbx := {| index := 0; wlen := 128; mask := 0%N |}; s_rdb := rb;
     s_pending_roc := 0; s_dir := dir; s_rtp_serv := 3; s_rtcp_serv := 3;
     s_use_mki := true; s_mki_size := 2; s_allow_repeat := false; s_cryptex := false; s_enc_xtn := [] |}.
Definition ssrc : Z := 3735928559.   (* 0xDEADBEEF *)
Definition pkt : bytes := [128; 200; 0; 4; 222; 173; 190; 239]%N ++ bytes_from 10 21.
Definition tx : stream := mk_stream ssrc 0 {| wstart := 5; bitmask := 0%N |}.
Definition rx : stream := mk_stream ssrc 0 rdb_init.
Definition sess (s : stream) : session := {| ss_template := None; ss_list := [s]; ss_cap := 2 |}.
Definition heap0 : heap := {| h_live := 0; h_att := 0; h_fail := 0; h_frees := 0; h_dirty := 0 |}.
Definition world_of (s : session) (b : bufs) : world := {| w_s := s; w_b := b; w_ev := []; w_iv := []; w_h := heap0 |}.
Definition cap : Z := 64.
Definition inplace (p : bytes) : bufs :=
  {| b_src := []; b_dst := p ++ repeat 170%N (zn cap - length p); b_alias := true; b_len := lenZ p; b_cap := cap; b_oob := false |}.
Definition outofplace (p : bytes) : bufs :=
  {| b_src := p; b_dst := repeat 238%N (zn cap); b_alias := false; b_len := lenZ p; b_cap := cap; b_oob := false |}.

Definition the_wire : option bytes :=
  match nth_error (s_keys tx) 1 with Some k => rtcp_wire tx k 6 pkt | None => None end.

Definition run_protect (b : bufs) : option bytes :=
  match protect_rtcp 1 (world_of (sess tx) b) with
  | (w', inl l) => Some (take (zn l) (b_dst (w_b w')))
  | _ => None
  end.
Definition run_unprotect (b : bufs) : option bytes :=
  match unprotect_rtcp (world_of (sess rx) b) with
  | (w', inl l) => Some (take (zn l) (b_dst (w_b w')))
  | _ => None
  end.

Example wire_len : option_map (@length N) the_wire = Some (29 + 4 + 2 + 10)%nat.
Proof. vm_compute. reflexivity. Qed.
Example protect_inplace_is_wire : run_protect (inplace pkt) = the_wire /\ the_wire <> None.
Proof. vm_compute. split; [reflexivity|discriminate]. Qed.
Example protect_outofplace_is_wire : run_protect (outofplace pkt) = the_wire.
Proof. vm_compute. reflexivity. Qed.
Example unprotect_inplace_gives_pkt :
  match the_wire with Some wr => run_unprotect (inplace wr) = Some pkt | None => False end.
Proof. vm_compute. reflexivity. Qed.
Example unprotect_outofplace_gives_pkt :
  match the_wire with Some wr => run_unprotect (outofplace wr) = Some pkt | None => False end.
Proof. vm_compute. reflexivity. Qed.
Example pure_round_trip :
  match the_wire with
  | Some wr => snd (unprotect_rtcp_fun (sess rx) cap wr) = inl pkt
  | None => False
  end.
Proof. vm_compute. reflexivity. Qed.

(* ---- the two side conditions of the round trip are needed (for the MODEL; neither can
   arise from srtp_create / srtp_add_stream, see the comments) ---- *)

(* (i) a key whose tag length differs from that of the stream's first key: the receiver looks
   for the MKI at len - tag_len(first key) - mki_size and does not find it.  All keys of a
   stream are built from the one cp_taglen of its policy, so stream_init never produces this;
   stream_wf alone does not exclude it. *)
Definition odd_keys (tl : Z) (mki : bytes) : skeys :=
  let c := cipher_key SRTP_NULL_CIPHER_c 30 [] in
  let h := auth_key SRTP_NULL_AUTH_c 0 tl [] in
  {| k_rtp_c := c; k_rtp_a := h; k_xtn_c := None; k_rtcp_c := c; k_rtcp_a := h;
     k_salt := []; k_csalt := []; k_mki := mki |}.
Definition odd_stream (rb : rdb) : stream :=
  {| s_ssrc := ssrc; s_clone := false; s_keys := [odd_keys 4 [1%N]; odd_keys 10 [2%N]];
     s_limits := [mk_limit; mk_limit];
     s_rdbx := {| index := 0; wlen := 128; mask := 0%N |}; s_rdb := rb;
     s_pending_roc := 0; s_dir := 0; s_rtp_serv := 0; s_rtcp_serv := 0;
     s_use_mki := true; s_mki_size := 1; s_allow_repeat := false; s_cryptex := false; s_enc_xtn := [] |}.
Lemma odd_stream_wf rb : stream_wf (odd_stream rb).
Proof.
  unfold stream_wf. cbn [s_mki_size s_use_mki s_keys odd_stream]. rewrite max_mki_value.
  split; [lia|]. split; [discriminate|].
  repeat constructor; cbn; rewrite ?max_tag_value; try lia; reflexivity.
Qed.
Example round_trip_needs_uniform_tag_refuted :
  match nth_error (s_keys (odd_stream rdb_init)) 1 with
  | Some k =>
    match rtcp_wire (odd_stream rdb_init) k 1 pkt with
    | Some wr => snd (unprotect_rtcp_fun (sess (odd_stream rdb_init)) cap wr) = inr st_bad_mki
    | None => False
    end
  | None => False
  end.
Proof. vm_compute. reflexivity. Qed.

(* (ii) a services value outside sec_serv_t (0..3): with 5 the sender encrypts and sets the E
   bit (it tests bit 0), the receiver (which tests for the values 1 and 3) refuses the packet *)
Definition serv5_stream (rb : rdb) : stream :=
  {| s_ssrc := ssrc; s_clone := false; s_keys := [mk_keys 1 []];
     s_limits := [mk_limit];
     s_rdbx := {| index := 0; wlen := 128; mask := 0%N |}; s_rdb := rb;
     s_pending_roc := 0; s_dir := 0; s_rtp_serv := 3; s_rtcp_serv := 5;
     s_use_mki := false; s_mki_size := 0; s_allow_repeat := false; s_cryptex := false; s_enc_xtn := [] |}.
Example round_trip_serv_out_of_range_refuted :
  match rtcp_wire (serv5_stream rdb_init) (mk_keys 1 []) 1 pkt with
  | Some wr => snd (unprotect_rtcp_fun (sess (serv5_stream rdb_init)) cap wr) = inr st_cant_check
  | None => False
  end.
Proof. vm_compute. reflexivity. Qed.
End Example.
