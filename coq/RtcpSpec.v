(* RtcpSpec.v — C02 / C12 (SRTCP half): a PURE functional specification of
   srtp_protect_rtcp and srtp_unprotect_rtcp (no packet buffers, no monad):

     rtcp_wire st k seq pkt     what protect puts on the wire for stream st, key k, index seq
     protect_rtcp_fun ss i C p  status / wire bytes / final session of srtp_protect_rtcp
     unprotect_rtcp_fun ss C p  status / plain bytes / final session of srtp_unprotect_rtcp

   plus the facts about the generic cipher interface the round trip rests on
   (cipher_encrypt is "xor with a keystream that depends on the state and the length only",
   hence an involution from a fixed starting state).  The refinement proofs (the monadic model
   Rtcp.v computes exactly these functions, in place and out of place) are in RtcpSpecProofs.v. *)
From Coq Require Import NArith ZArith List Bool Lia.
From Srtp Require Import Util Constants KeyLimit Rdb Rdbx Icm World Stream Rtp Rtcp.
From Srtp.Crypto Require Import AES HMAC.
Import ListNotations.
Local Open Scope Z_scope.

Global Opaque aes_encrypt_rk hmac_sha1.

(* ===================================================================== *)
(* 1. the cipher interface: output = data xor keystream(state, length)    *)
(* ===================================================================== *)
Section ICM_SHAPE.
Variable E : bytes -> bytes.

Definition icm_refuse (c : icm) (n : Z) : bool :=
  icm_max_blocks_c <? u64 (u64 (n - i_in c) + 15) / 16 + ctr_low (i_ctr c).

Definition icm_ks (c : icm) (n : Z) : bytes :=
  if n <=? i_in c then slice (zn (16 - i_in c)) (zn n) (i_buf c)
  else take (zn n) (drop (zn (16 - i_in c)) (i_buf c) ++
                    concat (ks_blocks E (zn ((n - i_in c + 15) / 16)) (i_ctr c))).

Definition icm_next (c : icm) (n : Z) : icm :=
  if n <=? i_in c then
    {| i_off := i_off c; i_ctr := i_ctr c; i_buf := i_buf c; i_in := i_in c - n |}
  else
    {| i_off := i_off c; i_ctr := ctr_add (i_ctr c) ((n - i_in c + 15) / 16);
       i_buf := last (ks_blocks E (zn ((n - i_in c + 15) / 16)) (i_ctr c)) (i_buf c);
       i_in := (16 - (n - i_in c) mod 16) mod 16 |}.

Lemma icm_encrypt_shape c d :
  icm_encrypt E c d =
  if icm_refuse c (lenZ d) then (st_terminus, c, [])
  else (st_ok, icm_next c (lenZ d), xor_bytes d (icm_ks c (lenZ d))).
Proof.
  unfold icm_encrypt, icm_refuse, icm_next, icm_ks. cbv zeta.
  destruct (icm_max_blocks_c <? _); [reflexivity|].
  destruct (lenZ d <=? i_in c); reflexivity.
Qed.
End ICM_SHAPE.

Lemma lenZ_xor a b : lenZ (xor_bytes a b) = lenZ a.
Proof. unfold lenZ. rewrite xor_bytes_length. reflexivity. Qed.

(* what a cipher state will xor onto the next n octets, and where it goes *)
Definition cipher_refuse (cs : cstate) (n : Z) : bool :=
  match cs with CSNull => false | CSIcm _ c => icm_refuse c n end.
Definition cipher_ks (cs : cstate) (n : Z) : bytes :=
  match cs with CSNull => [] | CSIcm rks c => icm_ks (aes_encrypt_rk rks) c n end.
Definition cipher_next (cs : cstate) (n : Z) : cstate :=
  match cs with CSNull => CSNull | CSIcm rks c => CSIcm rks (icm_next (aes_encrypt_rk rks) c n) end.

Lemma cipher_encrypt_shape cs d :
  cipher_encrypt cs d =
  if cipher_refuse cs (lenZ d) then (st_terminus, cs, [])
  else (st_ok, cipher_next cs (lenZ d), xor_bytes d (cipher_ks cs (lenZ d))).
Proof.
  destruct cs as [|rks c]; cbn [cipher_encrypt cipher_refuse cipher_next cipher_ks].
  - rewrite xor_bytes_nil_r. reflexivity.
  - rewrite icm_encrypt_shape. destruct (icm_refuse c (lenZ d)); reflexivity.
Qed.

Lemma st_terminus_not_ok : (st_terminus =? st_ok) = false.
Proof. reflexivity. Qed.

(* the status is st_ok or st_terminus *)
Lemma cipher_encrypt_status cs d s cs' o :
  cipher_encrypt cs d = (s, cs', o) -> (s =? st_ok) = negb (cipher_refuse cs (lenZ d)).
Proof.
  rewrite cipher_encrypt_shape. destruct (cipher_refuse cs (lenZ d)); intros H; injection H as <- _ _; reflexivity.
Qed.

(* (a) THE CIPHER INVOLUTION: from the same starting state, encrypting the output of a
   successful encryption gives the input back (and the same successor state) *)
Theorem cipher_encrypt_involutive cs d s cs' o :
  cipher_encrypt cs d = (s, cs', o) -> (s =? st_ok) = true ->
  cipher_encrypt cs o = (st_ok, cs', d) /\ length o = length d.
Proof.
  rewrite cipher_encrypt_shape. destruct (cipher_refuse cs (lenZ d)) eqn:R.
  - intros H; injection H as <- _ _. intros H; discriminate H.
  - intros H _. injection H as _ <- <-.
    rewrite cipher_encrypt_shape, lenZ_xor, R, xor_bytes_involutive_gen, xor_bytes_length. auto.
Qed.
Print Assumptions cipher_encrypt_involutive.

Lemma cipher_encrypt_ok_length cs d s cs' o :
  cipher_encrypt cs d = (s, cs', o) -> (s =? st_ok) = true -> length o = length d.
Proof. intros H1 H2. exact (proj2 (cipher_encrypt_involutive _ _ _ _ _ H1 H2)). Qed.

Lemma cipher_output_ok_length cs n s cs' ks :
  cipher_output cs n = (s, cs', ks) -> (s =? st_ok) = true -> length ks = zn n.
Proof.
  unfold cipher_output. intros H1 H2. rewrite (cipher_encrypt_ok_length _ _ _ _ _ H1 H2).
  unfold zeros. apply repeat_length.
Qed.

(* an empty request on a freshly started cipher changes nothing *)
Lemma icm_next_0 E c : i_in c = 0 -> icm_next E c 0 = c.
Proof.
  intros H. unfold icm_next. rewrite H. cbn [Z.leb Z.compare]. destruct c as [a b cc d]. cbn in *. subst d. reflexivity.
Qed.
Lemma cipher_output_start_0 k iv s cs' ks :
  cipher_output (cipher_start k iv) 0 = (s, cs', ks) -> (s =? st_ok) = true ->
  cs' = cipher_start k iv /\ ks = [].
Proof.
  unfold cipher_output. change (zeros (zn 0)) with (@nil N). rewrite cipher_encrypt_shape.
  change (lenZ (@nil N)) with 0.
  destruct (cipher_refuse (cipher_start k iv) 0).
  - intros H; injection H as <- _ _. intros H; discriminate H.
  - intros H _. injection H as _ <- <-. split; [|reflexivity].
    unfold cipher_start. destruct (is_icm_alg (ck_alg k)); [|reflexivity].
    cbn [cipher_next]. rewrite icm_next_0; reflexivity.
Qed.

(* ===================================================================== *)
(* 2. what srtp_protect_rtcp puts on the wire                             *)
(* ===================================================================== *)
Definition rtcp_conf (st : stream) : bool := negb (Z.land (s_rtcp_serv st) sec_serv_conf_c =? 0).
Definition rtcp_trailer (conf : bool) (seq : Z) : bytes :=
  be_bytes 4 (Z.to_N ((if conf then SRTCP_E_BIT_c else 0) + seq)).

(* the payload: encrypted by the state left by the keystream prefix, or copied *)
Definition rtcp_body (cs : cstate) (conf : bool) (payload : bytes) : option bytes :=
  if conf then
    let '(s, _, o) := cipher_encrypt cs payload in
    if negb (s =? st_ok) then None else Some o
  else Some payload.

(* header(8) ++ payload ++ trailer ++ MKI ++ tag region; the tag region first receives the
   keystream prefix and is then overwritten by what the auth function writes *)
Definition rtcp_wire (st : stream) (k : skeys) (seq : Z) (pkt : bytes) : option bytes :=
  let conf := rtcp_conf st in
  let iv := rtcp_iv (ck_alg (k_rtcp_c k)) (be32 pkt 4) seq in
  let '(ps, cs1, ks) := cipher_output (cipher_start (k_rtcp_c k) iv) (ak_prefix (k_rtcp_a k)) in
  if negb (ps =? st_ok) then None else
  match rtcp_body cs1 conf (drop 8 pkt) with
  | None => None
  | Some enc =>
    let m := take 8 pkt ++ enc ++ rtcp_trailer conf seq in
    let tag := auth_compute (k_rtcp_a k) m in
    Some (m ++ (if s_use_mki st then k_mki k else []) ++ tag ++ drop (length tag) ks)
  end.

(* ===================================================================== *)
(* 3. the session side, for a packet whose SSRC has an explicit stream    *)
(* ===================================================================== *)
Definition sess_put (ss : session) (x : Z) (n : stream) : session :=
  {| ss_template := ss_template ss; ss_list := list_replace (ss_list ss) x n; ss_cap := ss_cap ss |}.

(* srtp.c direction check: an unknown direction is set, a wrong one only raises an event *)
Definition dir_stream (st : stream) (want : Z) : stream :=
  if s_dir st =? want then st else if s_dir st =? dir_unknown_c then set_dir st want else st.
Definition dir_session (ss : session) (x : Z) (st : stream) (want : Z) : session :=
  if s_dir st =? want then ss else if s_dir st =? dir_unknown_c then sess_put ss x (set_dir st want) else ss.

Definition sender_key_st (st : stream) (mki_index : Z) : (Z * skeys) + Z :=
  let i := if s_use_mki st then mki_index else 0 in
  if s_use_mki st && ((mki_index <? 0) || (lenZ (s_keys st) <=? mki_index)) then inr st_bad_mki
  else match nth_error (s_keys st) (zn i) with
       | Some k => inl (i, k)
       | None => inr st_fail
       end.

(* srtp_protect_rtcp as a function of the session, the MKI index, *out_len and the packet:
   final session and either the wire bytes or the error status.  (Case "no stream for this
   SSRC", i.e. cloning of the template, is outside this specification: st_no_ctx is a
   placeholder there.) *)
Definition protect_rtcp_fun (ss : session) (mki_index C : Z) (pkt : bytes) : session * (bytes + Z) :=
  let len := lenZ pkt in
  if len <? 8 then (ss, inr st_bad_param) else
  let ssrc := be32 pkt 4 in
  match list_get (ss_list ss) ssrc with
  | None => (ss, inr st_no_ctx)
  | Some st0 =>
    let ss1 := dir_session ss ssrc st0 dir_srtp_sender_c in
    let st := dir_stream st0 dir_srtp_sender_c in
    match sender_key_st st mki_index with
    | inr e => (ss1, inr e)
    | inl (ki, k) =>
      if C <? len + 4 + s_mki_size st + ak_tag (k_rtcp_a k) then (ss1, inr st_buffer_small) else
      if rtcp_ceiling_c <=? wstart (s_rdb st) then (ss1, inr st_key_expired) else
      let rb := {| wstart := u32 (wstart (s_rdb st) + 1); bitmask := bitmask (s_rdb st) |} in
      let ss2 := sess_put ss1 ssrc (set_rdb st rb) in
      match rtcp_wire st k (wstart rb) pkt with
      | None => (ss2, inr st_cipher_fail)
      | Some wire => (ss2, inl wire)
      end
    end
  end.

(* ---- receiver ---- *)
Definition rtcp_rx_conf (st : stream) : bool := (s_rtcp_serv st =? 1) || (s_rtcp_serv st =? 3).
Definition rtcp_tl0 (st : stream) : Z := match s_keys st with k0 :: _ => ak_tag (k_rtcp_a k0) | [] => 0 end.

Definition receiver_key_st (st : stream) (pkt : bytes) (len tl0 : Z) : (Z * skeys) + Z :=
  if negb (s_use_mki st) then
    match s_keys st with k :: _ => inl (0, k) | [] => inr st_fail end
  else if len <? tl0 then inr st_bad_mki
  else if len - tl0 <? s_mki_size st then inr st_bad_mki
  else match find_mki (s_keys st) (slice (zn (len - tl0 - s_mki_size st)) (zn (s_mki_size st)) pkt) 0 with
       | Some r => inl r
       | None => inr st_bad_mki
       end.

Definition rtcp_rx_prefix (cs0 : cstate) (prefix : Z) : (cstate * bytes) + Z :=
  if negb (prefix =? 0) then
    let '(s, cs', ks) := cipher_output cs0 prefix in
    if negb (s =? st_ok) then inr st_cipher_fail
    else if SRTP_MAX_TAG_LEN_c <? prefix then inr st_model_oob
    else inl (cs', ks)
  else inl (cs0, []).

(* the E flag and the index a receiver reads from the trailer of a packet *)
Definition rtcp_rx_trailer (pkt : bytes) (tag_len msz : Z) : bytes :=
  slice (zn (lenZ pkt - (tag_len + msz + 4))) (zn 4) pkt.
Definition rtcp_rx_ebit (tr : bytes) : bool :=
  negb (N.land (nthb tr 0) (Z.to_N SRTCP_E_BYTE_BIT_c) =? 0)%N.
Definition rtcp_rx_index (tr : bytes) : Z := Z.land (be32 tr 0) SRTCP_INDEX_MASK_c.

(* everything up to and including the authentication check and the *out_len check *)
Definition unprotect_rtcp_pre_fun (ss : session) (C : Z) (pkt : bytes) : cpre + Z :=
  let len := lenZ pkt in
  if len <? 8 + 4 then inr st_bad_param else
  let ssrc := be32 pkt 4 in
  match list_get (ss_list ss) ssrc with
  | None => inr st_no_ctx
  | Some st =>
    match receiver_key_st st pkt len (rtcp_tl0 st) with
    | inr e => inr e
    | inl (ki, k) =>
      let tag_len := ak_tag (k_rtcp_a k) in
      let msz := s_mki_size st in
      if len <? 8 + 4 + msz + tag_len then inr st_bad_param else
      let conf := rtcp_rx_conf st in
      let enc_len := len - (8 + tag_len + msz + 4) in
      let tr := rtcp_rx_trailer pkt tag_len msz in
      if Bool.eqb (rtcp_rx_ebit tr) conf then
        let auth_len := len - tag_len - msz in
        let seq := rtcp_rx_index tr in
        if rdb_check (s_rdb st) seq =? st_ok then
          let iv := rtcp_iv (ck_alg (k_rtcp_c k)) ssrc seq in
          match rtcp_rx_prefix (cipher_start (k_rtcp_c k) iv) (ak_prefix (k_rtcp_a k)) with
          | inr e => inr e
          | inl pre =>
            let computed := auth_compute (k_rtcp_a k) (slice (zn 0) (zn auth_len) pkt) in
            if SRTP_MAX_TAG_LEN_c <? lenZ computed then inr st_model_oob else
            let tmp_tag := computed ++ drop (length computed) (snd pre) in
            let t := slice (zn (auth_len + msz)) (zn tag_len) pkt in
            if beqb (take (zn tag_len) (tmp_tag ++ zeros (zn tag_len))) t then
              if C <? u64 (len - 4 - msz - tag_len) then inr st_buffer_small else
              inl {| c_ref := RList ssrc; c_ssrc := ssrc; c_seq := seq; c_cs := fst pre; c_conf := conf;
                     c_enc_len := enc_len; c_tag_len := tag_len; c_mki := msz |}
            else inr st_auth_fail
          end
        else inr (rdb_check (s_rdb st) seq)
      else inr st_cant_check
    end
  end.

(* the effects of an accepted packet: decryption, direction, replay window *)
Definition unprotect_rtcp_post_fun (ss : session) (u : cpre) (pkt : bytes) : session * (bytes + Z) :=
  match rtcp_body (c_cs u) (c_conf u) (slice (zn 8) (zn (c_enc_len u)) pkt) with
  | None => (ss, inr st_cipher_fail)
  | Some o =>
    match list_get (ss_list ss) (c_ssrc u) with
    | None => (ss, inr st_fail)
    | Some st =>
      let st1 := dir_stream st dir_srtp_receiver_c in
      let ss1 := dir_session ss (c_ssrc u) st dir_srtp_receiver_c in
      (sess_put ss1 (c_ssrc u) (set_rdb st1 (snd (rdb_add (s_rdb st1) (c_seq u)))), inl (take 8 pkt ++ o))
    end
  end.

(* srtp_unprotect_rtcp as a function of the session, *out_len and the received packet: final
   session and either the plain RTCP packet or the error status (explicit stream only, as above) *)
Definition unprotect_rtcp_fun (ss : session) (C : Z) (pkt : bytes) : session * (bytes + Z) :=
  match unprotect_rtcp_pre_fun ss C pkt with
  | inr e => (ss, inr e)
  | inl u => unprotect_rtcp_post_fun ss u pkt
  end.
