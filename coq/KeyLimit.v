(* KeyLimit.v — model of crypto/kernel/key.c (the srtp_key_limit functions).  Model only. *)
From Coq Require Import ZArith List Bool.
From Srtp Require Import Util Constants.
Local Open Scope Z_scope.

Inductive kstate := KNormal | KPastSoft | KExpired.
Inductive kevent := EvNormal | EvSoft | EvHard.

(* num_left is a uint64_t in C *)
Record klimit := { num_left : Z; kst : kstate }.

Definition kl_set (s : Z) : option klimit :=
  if s <? soft_limit_c then None else Some {| num_left := s; kst := KNormal |}.

(* srtp_key_limit_update: "if (num_left > 0) num_left--" on a uint64_t, then the comparisons *)
Definition kl_update (k : klimit) : klimit * kevent :=
  let n := if 0 <? num_left k then u64 (num_left k - 1) else num_left k in
  if soft_limit_c <=? n then ({| num_left := n; kst := kst k |}, EvNormal)
  else
    let st1 := match kst k with KNormal => KPastSoft | s => s end in
    if n <? 1 then ({| num_left := n; kst := KExpired |}, EvHard)
    else ({| num_left := n; kst := st1 |}, EvSoft).

Definition kstate_code (s : kstate) : Z :=
  match s with KNormal => 0 | KPastSoft => 1 | KExpired => 2 end.
Definition kevent_code (e : kevent) : Z :=
  match e with EvNormal => 0 | EvSoft => 1 | EvHard => 2 end.
