(* Aead.v — model of the AEAD (AES-GCM, RFC 7714) paths of srtp/srtp.c:
     srtp_protect_aead / srtp_unprotect_aead / srtp_protect_rtcp_aead / srtp_unprotect_rtcp_aead
   and of the dispatch inside srtp_protect / srtp_unprotect / srtp_protect_rtcp /
   srtp_unprotect_rtcp (all four dispatch on the algorithm of the RTP resp. RTCP cipher of the
   selected key; the SRTCP functions of this library look at the *RTP* cipher).
   The AEAD cipher itself is Crypto/GCM.v (SP 800-38D).  The order of effects follows the C code
   statement by statement; each function repeats the prefix of its non-AEAD sibling (Rtp.v /
   Rtcp.v) up to the dispatch point, so that `protect_any` etc. can choose between two complete
   functions by a side-effect-free look at the key that will be selected.  Model only.

   These paths exist only in builds with a GCM-capable back end (cfg_gcm_c); in the
   internal-crypto configuration no stream ever holds a GCM key and `*_any` = the non-AEAD
   function (AeadProofs.v). *)
From Coq Require Import NArith ZArith List Bool.
From Srtp Require Import Util Constants KeyLimit Rdb Rdbx Icm World Stream Rtp Rtcp.
From Srtp.Crypto Require Import AES GCM.
Import ListNotations.
Local Open Scope Z_scope.

(* ---- the GCM cipher object as srtp.c drives it ---- *)
(* srtp_cipher_encrypt on a GCM cipher after set_iv / set_aad: ciphertext ++ tag (tag length fixed
   at allocation = the policy's auth_tag_len); refused when the output room is too small *)
Definition gcm_seal (k : ckey) (tag_len : Z) (iv aad pt : bytes) (room : Z) : Z * bytes :=
  if room <? lenZ pt + tag_len then (st_buffer_small, [])
  else let '(ct, tag) := gcm_encrypt (ck_rks k) iv aad pt (zn tag_len) in (st_ok, ct ++ tag).
(* srtp_cipher_decrypt: input = ciphertext ++ tag *)
Definition gcm_open (k : ckey) (tag_len : Z) (iv aad ct_tag : bytes) (room : Z) : Z * bytes :=
  let n := lenZ ct_tag in
  if n <? tag_len then (st_bad_param, [])
  else if room <? n - tag_len then (st_buffer_small, [])
  else match gcm_decrypt (ck_rks k) iv aad (take (zn (n - tag_len)) ct_tag) (drop (zn (n - tag_len)) ct_tag) with
       | Some pt => (st_ok, pt)
       | None => (st_auth_fail, [])
       end.

(* srtp_calc_aead_iv: 0x0000 ‖ SSRC ‖ ROC ‖ SEQ xor the 12-octet session salt *)
Definition aead_rtp_iv (salt : bytes) (ssrc est : Z) : bytes :=
  xor_bytes (zeros 2 ++ be_bytes 4 (Z.to_N ssrc) ++ be_bytes 4 (Z.to_N (u32 (est / 65536))) ++ be_bytes 2 (Z.to_N (est mod 65536)))
            (take 12 (salt ++ zeros 12)).
(* srtp_calc_aead_iv_srtcp: 0x0000 ‖ SSRC ‖ 0x0000 ‖ index (31 bits) xor the SRTCP salt *)
Definition aead_rtcp_iv (csalt : bytes) (ssrc seq : Z) : bytes :=
  xor_bytes (zeros 2 ++ be_bytes 4 (Z.to_N ssrc) ++ zeros 2 ++ be_bytes 4 (Z.to_N seq))
            (take 12 (csalt ++ zeros 12)).
(* what the driver's cipher wrapper records when a GCM cipher gets an IV for ENCRYPTION: key fingerprint, the 12 IV
   octets, four zero octets (same record size as for AES-ICM) *)
Definition log_gcm_iv (k : ckey) (iv : bytes) : M unit := log_iv (key_fp k ++ take 12 (iv ++ zeros 12) ++ zeros 4).
(* the IV of the RFC 6904 header-extension cipher (an ICM cipher also under GCM) *)
Definition xtn_iv (ssrc est : Z) : bytes := zeros 4 ++ be_bytes 4 (Z.to_N ssrc) ++ be64 (est * 65536).

(* ======================================================================= *)
(* srtp_protect with a GCM key                                              *)
Definition protect_aead (mki_index : Z) : M Z :=
  b <- get_b ;;
  let len := b_len b in
  let pkt := take (zn len) (cur_src b) in
  check_st (validate_rtp pkt len) ;;;
  let ssrc := hdr_ssrc pkt in
  r <- lookup_or_clone ssrc true ;;
  check_direction r dir_srtp_sender_c ;;;
  st <- get_stream r ;;
  ik <- keys_by_index st mki_index ;;
  let '(ki, k) := ik in
  (* ---- srtp_protect_aead ---- *)
  charge_key r ki ;;;
  let tag_len := ak_tag (k_rtp_a k) in
  (if b_cap b <? len + tag_len + s_mki_size st then exit_with st_buffer_small else ret tt) ;;;
  let enc0 := hdr_len pkt + (if hdr_x pkt =? 1 then xtn_len pkt else 0) in
  let want_cryptex := s_cryptex st && negb (Z.land (s_rtp_serv st) sec_serv_conf_c =? 0) in
  (if want_cryptex && negb (hdr_cc pkt =? 0) && (hdr_x pkt =? 0) then exit_with st_cryptex_err else ret tt) ;;;
  let inuse := want_cryptex && (hdr_x pkt =? 1) in
  let inplace := inuse && b_alias b in
  let enc_start := if inuse then u64 (u64 (enc0 - (xtn_len pkt - octets_in_rtp_xtn_hdr_c))
                                      - (if inplace then hdr_cc pkt * 4 else 0)) else enc0 in
  (if inuse && negb inplace && negb (hdr_cc pkt =? 0) then exit_with st_cryptex_err else ret tt) ;;;
  (if len <? enc_start then exit_with st_parse_err else ret tt) ;;;
  let enc_len := len - enc_start in
  (if b_alias b then ret tt else (h <- rd_src 0 enc_start ;; wr_dst 0 h)) ;;;
  (* index *)
  st <- get_stream r ;;
  let '(est_st, est, delta) := est_index st (hdr_seq pkt) in
  (if negb (est_st =? st_ok) && negb (est_st =? st_pkt_idx_adv) then exit_with est_st else ret tt) ;;;
  (if est_st =? st_pkt_idx_adv then put_stream r (commit_advance st est)
   else
     let cs := rdbx_check (s_rdbx st) delta in
     (if negb (cs =? st_ok) && (negb (cs =? st_replay_fail) || negb (s_allow_repeat st))
      then exit_with cs else ret tt) ;;;
     put_stream r (set_pending (set_rdbx st (rdbx_add (s_rdbx st) delta)) 0)) ;;;
  let iv := aead_rtp_iv (k_salt k) ssrc est in
  log_gcm_iv (k_rtp_c k) iv ;;;
  (match k_xtn_c k with Some xk => log_encrypt_iv xk (key_fp xk ++ xtn_iv ssrc est) | None => ret tt end) ;;;
  (* RFC 6904 *)
  (match k_xtn_c k with
   | Some xk => if hdr_x pkt =? 1 then process_xtn st pkt (cipher_start xk (xtn_iv ssrc est)) else ret tt
   | None => ret tt
   end) ;;;
  (* srtp_cryptex_protect: profile, then the in-place shuffle (out of place with CSRCs was refused above) *)
  (if inuse then
     h <- rd_dst (hdr_len pkt) 2 ;;
     let profile := be16 h 0 in
     (if profile =? xtn_hdr_one_byte_profile_c then set_profile pkt cryptex_one_byte_profile_c
      else if profile =? xtn_hdr_two_byte_profile_c then set_profile pkt cryptex_two_byte_profile_c
      else exit_with st_parse_err) ;;;
     if inplace then cryptex_adjust pkt else ret tt
   else ret tt) ;;;
  (* AAD = the header as it now is in the output; payload from the input *)
  aad <- rd_dst 0 enc_start ;;
  d <- rd_src enc_start enc_len ;;
  let '(s, o) := gcm_seal (k_rtp_c k) tag_len iv aad d (b_cap b - enc_start) in
  (if negb (s =? st_ok) then exit_with st_cipher_fail else wr_dst enc_start o) ;;;
  (if s_use_mki st then wr_dst (enc_start + lenZ o) (k_mki k) else ret tt) ;;;
  (if inplace then cryptex_restore pkt else ret tt) ;;;
  ret (u64 (enc_start + lenZ o + s_mki_size st)).

(* ======================================================================= *)
(* srtp_unprotect with a GCM key: nothing of the session is written before gcm_open has verified
   the tag (property C13). *)
Definition unprotect_aead : M Z :=
  b <- get_b ;;
  let len := b_len b in
  let pkt := take (zn len) (cur_src b) in
  check_st (validate_rtp pkt len) ;;;
  let ssrc := hdr_ssrc pkt in
  ss <- get_s ;;
  r0 <- (match list_get (ss_list ss) ssrc with
         | Some _ => ret (RList ssrc)
         | None => match ss_template ss with Some _ => ret RTemplate | None => exit_with st_no_ctx end
         end) ;;
  st <- get_stream r0 ;;
  eda <- (match r0 with
          | RTemplate => ret (hdr_seq pkt, hdr_seq pkt, false)
          | RList _ =>
            let '(est_st, est, delta) := est_index st (hdr_seq pkt) in
            (if negb (est_st =? st_ok) && negb (est_st =? st_pkt_idx_adv) then exit_with est_st else ret tt) ;;;
            if est_st =? st_pkt_idx_adv then ret (est, delta, true)
            else check_st (rdbx_check (s_rdbx st) delta) ;;; ret (est, delta, false)
          end) ;;
  let '(est, delta, adv) := eda in
  (* srtp_get_session_keys_for_rtp_packet: with a GCM RTP cipher the MKI sits at the very end *)
  ik <- keys_by_packet st len 0 ;;
  let '(ki, k) := ik in
  (* ---- srtp_unprotect_aead ---- *)
  let tag_len := ak_tag (k_rtp_a k) in
  let iv := aead_rtp_iv (k_salt k) ssrc est in
  let enc0 := hdr_len pkt + (if hdr_x pkt =? 1 then xtn_len pkt else 0) in
  inuse <- (if s_cryptex st && negb (Z.land (s_rtp_serv st) sec_serv_conf_c =? 0) && (hdr_x pkt =? 1) then
              h <- rd_src (hdr_len pkt) 4 ;;
              let profile := be16 h 0 in
              ret ((profile =? cryptex_one_byte_profile_c) || (profile =? cryptex_two_byte_profile_c))
            else ret false) ;;
  let inplace := inuse && b_alias b in
  xl <- (if inuse then (h <- rd_src (hdr_len pkt) 4 ;; ret ((be16 h 2 + 1) * 4)) else ret 0) ;;
  let enc_start := if inuse then u64 (u64 (enc0 - (xl - octets_in_rtp_xtn_hdr_c))
                                      - (if inplace then hdr_cc pkt * 4 else 0)) else enc0 in
  (if inuse && negb inplace && negb (hdr_cc pkt =? 0) then exit_with st_cryptex_err else ret tt) ;;;
  (if u64 (len - tag_len - s_mki_size st) <? u64 (enc_start + (if inplace then hdr_cc pkt * 4 else 0))
   then exit_with st_parse_err else ret tt) ;;;
  (* with cryptex the extension elements are inside the encrypted portion: the whole extension must fit too (added with
     the fix that lets the RFC 6904 walk run on the restored header) *)
  (if inuse && (u64 (len - tag_len - s_mki_size st) <? u64 (hdr_len pkt + xl))
   then exit_with st_parse_err else ret tt) ;;;
  let enc_len := u64 (len - enc_start - s_mki_size st) in
  (if enc_len <? tag_len then exit_with st_cipher_fail else ret tt) ;;;
  (if b_cap b <? u64 (len - s_mki_size st - tag_len) then exit_with st_buffer_small else ret tt) ;;;
  (if b_alias b then ret tt else (h <- rd_src 0 enc_start ;; wr_dst 0 h)) ;;;
  (* srtp_cryptex_unprotect: only the in-place shuffle is left (CSRCs out of place were refused) *)
  (if inplace then cryptex_adjust pkt else ret tt) ;;;
  aad <- rd_src 0 enc_start ;;
  d <- rd_src enc_start enc_len ;;
  let '(s, o) := gcm_open (k_rtp_c k) tag_len iv aad d enc_len in
  (if negb (s =? st_ok) then exit_with s else wr_dst enc_start o) ;;;
  (* key usage: charged once the packet has authenticated (after the fix "GCM unprotect charges the key budget
     only for authentic packets"; before it the charge preceded the verification) *)
  charge_key r0 ki ;;;
  st <- get_stream r0 ;;
  (* srtp_cryptex_unprotect_cleanup: the shuffle is undone and the profile restored BEFORE the header extension is
     walked (after the fix "srtp_unprotect_aead restores the cryptex layout before RFC 6904 processing"; the walk used
     to run over the shuffled buffer, where the last CSRC sits in the place of the extension header) *)
  (if inuse then
     (if inplace then cryptex_restore pkt else ret tt) ;;;
     h <- rd_dst (hdr_len pkt) 2 ;;
     let profile := be16 h 0 in
     if profile =? cryptex_one_byte_profile_c then set_profile pkt xtn_hdr_one_byte_profile_c
     else if profile =? cryptex_two_byte_profile_c then set_profile pkt xtn_hdr_two_byte_profile_c
     else ret tt
   else ret tt) ;;;
  (* RFC 6904 on the output *)
  (match k_xtn_c k with
   | Some xk => if hdr_x pkt =? 1 then process_xtn st pkt (cipher_start xk (xtn_iv ssrc est)) else ret tt
   | None => ret tt
   end) ;;;
  check_direction r0 dir_srtp_receiver_c ;;;
  r <- materialize r0 ssrc ;;
  st2 <- get_stream r ;;
  (if adv then put_stream r (commit_advance st2 est)
   else put_stream r (set_pending (set_rdbx st2 (rdbx_add (s_rdbx st2) delta)) 0)) ;;;
  ret (u64 (enc_start + lenZ o)).

(* ======================================================================= *)
(* srtp_protect_rtcp with a GCM (RTP) key                                    *)
Definition protect_rtcp_aead (mki_index : Z) : M Z :=
  b <- get_b ;;
  let len := b_len b in
  let pkt := take (zn len) (cur_src b) in
  (if len <? octets_in_rtcp_header_c then exit_with st_bad_param else ret tt) ;;;
  let ssrc := be32 pkt 4 in
  r <- lookup_or_clone ssrc false ;;
  check_direction r dir_srtp_sender_c ;;;
  st <- get_stream r ;;
  ik <- keys_by_index st mki_index ;;
  let '(ki, k) := ik in
  (* ---- srtp_protect_rtcp_aead ---- *)
  let tag_len := ak_tag (k_rtcp_a k) in
  let enc_start := octets_in_rtcp_header_c in
  let enc_len := len - enc_start in
  (if b_cap b <? len + trailer_len + s_mki_size st + tag_len then exit_with st_buffer_small else ret tt) ;;;
  (if b_alias b then ret tt else (h <- rd_src 0 enc_start ;; wr_dst 0 h)) ;;;
  let conf := negb (Z.land (s_rtcp_serv st) sec_serv_conf_c =? 0) in
  (if s_use_mki st then wr_dst (len + tag_len + trailer_len) (k_mki k) else ret tt) ;;;
  let '(is, rb) := rdb_incr (s_rdb st) in
  check_st is ;;;
  put_stream r (set_rdb st rb) ;;;
  let seq := wstart rb in
  let trailer := be_bytes 4 (Z.to_N ((if conf then SRTCP_E_BIT_c else 0) + seq)) in
  wr_dst (len + tag_len) trailer ;;;
  (* srtp_calc_aead_iv_srtcp refuses an index with bit 31 set *)
  (if 2147483648 <=? seq then exit_with st_cipher_fail else ret tt) ;;;
  let iv := aead_rtcp_iv (k_csalt k) ssrc seq in
  log_gcm_iv (k_rtcp_c k) iv ;;;
  (if conf then
     aad <- rd_src 0 octets_in_rtcp_header_c ;;
     d <- rd_src enc_start enc_len ;;
     let '(s, o) := gcm_seal (k_rtcp_c k) tag_len iv (aad ++ trailer) d (b_cap b - enc_start) in
     if negb (s =? st_ok) then exit_with st_cipher_fail else wr_dst enc_start o
   else
     aad <- rd_src 0 len ;;
     (if b_alias b then ret tt else (d <- rd_src enc_start enc_len ;; wr_dst enc_start d)) ;;;
     let '(s, o) := gcm_seal (k_rtcp_c k) tag_len iv (aad ++ trailer) [] (b_cap b - enc_start - enc_len) in
     if negb (s =? st_ok) then exit_with st_cipher_fail else wr_dst (enc_start + enc_len) o) ;;;
  ret (u64 (octets_in_rtcp_header_c + enc_len + tag_len + trailer_len + s_mki_size st)).

(* ======================================================================= *)
(* srtp_unprotect_rtcp with a GCM (RTP) key                                  *)
Definition unprotect_rtcp_aead : M Z :=
  b <- get_b ;;
  let len := b_len b in
  let pkt := take (zn len) (cur_src b) in
  (if len <? octets_in_rtcp_header_c + trailer_len then exit_with st_bad_param else ret tt) ;;;
  let ssrc := be32 pkt 4 in
  ss <- get_s ;;
  r0 <- (match list_get (ss_list ss) ssrc with
         | Some _ => ret (RList ssrc)
         | None => match ss_template ss with Some _ => ret RTemplate | None => exit_with st_no_ctx end
         end) ;;
  st <- get_stream r0 ;;
  (* srtp_get_session_keys_for_rtcp_packet: tag length 0 when the RTCP cipher is GCM *)
  let tag_len0 := match s_keys st with
                  | k0 :: _ => if is_gcm_alg (ck_alg (k_rtcp_c k0)) then 0 else ak_tag (k_rtcp_a k0)
                  | [] => 0 end in
  ik <- keys_by_packet st len tag_len0 ;;
  let '(ki, k) := ik in
  let tag_len := ak_tag (k_rtcp_a k) in
  (if len <? octets_in_rtcp_header_c + trailer_len + s_mki_size st + tag_len then exit_with st_bad_param else ret tt) ;;;
  (* ---- srtp_unprotect_rtcp_aead ---- *)
  let enc_start := octets_in_rtcp_header_c in
  let tr_off := len - trailer_len - s_mki_size st in
  tr <- rd_src tr_off 4 ;;
  let enc_len := len - (octets_in_rtcp_header_c + trailer_len + s_mki_size st) in
  let seq := Z.land (be32 tr 0) SRTCP_INDEX_MASK_c in
  check_st (rdb_check (s_rdb st) seq) ;;;
  let iv := aead_rtcp_iv (k_csalt k) ssrc seq in
  (if b_cap b <? u64 (len - trailer_len - s_mki_size st - tag_len) then exit_with st_buffer_small else ret tt) ;;;
  (if b_alias b then ret tt else (h <- rd_src 0 enc_start ;; wr_dst 0 h)) ;;;
  let e_bit := negb (N.land (nthb tr 0) (Z.to_N SRTCP_E_BYTE_BIT_c) =? 0)%N in
  (if e_bit then
     aad <- rd_src 0 octets_in_rtcp_header_c ;;
     d <- rd_src enc_start enc_len ;;
     let '(s, o) := gcm_open (k_rtcp_c k) tag_len iv (aad ++ tr) d enc_len in
     if negb (s =? st_ok) then exit_with s else wr_dst enc_start o
   else
     aad <- rd_src 0 (len - tag_len - trailer_len - s_mki_size st) ;;
     (* the payload without the tag (after the fix: the copy used to include the tag octets and so ran
        tag_len octets beyond the announced output length) *)
     (if b_alias b then ret tt else (d <- rd_src enc_start (enc_len - tag_len) ;; wr_dst enc_start d)) ;;;
     t <- rd_src (len - tag_len - s_mki_size st - trailer_len) tag_len ;;
     let '(s, _) := gcm_open (k_rtcp_c k) tag_len iv (aad ++ tr) t 0 in
     if negb (s =? st_ok) then exit_with s else ret tt) ;;;
  check_direction r0 dir_srtp_receiver_c ;;;
  r <- materialize r0 ssrc ;;
  st2 <- get_stream r ;;
  put_stream r (set_rdb st2 (snd (rdb_add (s_rdb st2) seq))) ;;;
  ret (u64 (len - (tag_len + trailer_len + s_mki_size st))).

(* ======================================================================= *)
(* the dispatch: a side-effect-free look at the key the call will select     *)
Definition first_key_gcm (st : stream) (rtcp_cipher : bool) : bool :=
  match s_keys st with
  | k0 :: _ => is_gcm_alg (ck_alg (if rtcp_cipher then k_rtcp_c k0 else k_rtp_c k0))
  | [] => false
  end.
Definition stream_for (ss : session) (ssrc : Z) : option stream :=
  match list_get (ss_list ss) ssrc with
  | Some st => Some st
  | None => ss_template ss
  end.
(* every key of a stream has the policy's cipher type, so the first key decides *)
Definition uses_gcm (w : world) (rtcp : bool) : bool :=
  let b := w_b w in
  let pkt := take (zn (b_len b)) (cur_src b) in
  let ssrc := if rtcp then be32 pkt 4 else hdr_ssrc pkt in
  match stream_for (w_s w) ssrc with
  | Some st => first_key_gcm st false        (* all four functions look at the RTP cipher *)
  | None => false
  end.

Definition protect_any (mki_index : Z) : M Z :=
  fun w => if cfg_gcm_c && uses_gcm w false then protect_aead mki_index w else protect mki_index w.
Definition unprotect_any : M Z :=
  fun w => if cfg_gcm_c && uses_gcm w false then unprotect_aead w else unprotect w.
Definition protect_rtcp_any (mki_index : Z) : M Z :=
  fun w => if cfg_gcm_c && uses_gcm w true then protect_rtcp_aead mki_index w else protect_rtcp mki_index w.
Definition unprotect_rtcp_any : M Z :=
  fun w => if cfg_gcm_c && uses_gcm w true then unprotect_rtcp_aead w else unprotect_rtcp w.
