(* CipherChunk.v — chunking independence of the generic cipher interface (cipher_encrypt of
   Icm.v), as needed by the cryptex class of the SRTP round trip: srtp_protect encrypts
   CSRC list ++ rest of the packet as ONE run, srtp_unprotect (out of place) decrypts the CSRC
   list and the rest with TWO consecutive calls.

     cs_ok cs                  the state was reached from srtp_cipher_set_iv by successful calls
                               (ICM: IcmProofs.wf for some segment start ctr0 and position pos,
                               block index still in range); trivial for the NULL cipher
     cs_ok_start_rtp           cipher_start k (rtp_iv ...) is such a state
     cs_ok_step                a successful call preserves it
     cipher_chunk              a successful call on a ++ b = the call on a followed by the call
                               on b from the state the first one left

   Derived from IcmProofs.icm_chunking_independent. *)
From Coq Require Import NArith ZArith List Bool Lia.
From Srtp Require Import Util Constants Icm World Stream Rtp IcmProofs RtcpSpec.
From Srtp.Crypto Require Import CTR AES.
From Srtp Require SpecEqAes SpecEqProofs.
Import ListNotations.
Local Open Scope Z_scope.

Definition cs_ok (cs : cstate) : Prop :=
  match cs with
  | CSNull => True
  | CSIcm rks c => exists ctr0 pos, wf (aes_encrypt_rk rks) c ctr0 pos /\ in_range ctr0 pos
  end.

(* ---- the starting state ---- *)
Lemma be16_octets_le l o : SpecEqAes.octets l -> be16 l o <= 65535.
Proof.
  intros H. unfold be16, slice.
  assert (O2 : SpecEqAes.octets (take 2 (drop o l))) by (apply SpecEqProofs.octets_take, SpecEqProofs.octets_drop; exact H).
  pose proof (SpecEqProofs.be_val_lt _ O2) as B.
  assert (L2 : (length (take 2 (drop o l)) <= 2)%nat) by (rewrite take_firstn, firstn_length; lia).
  assert (P : (256 ^ N.of_nat (length (take 2 (drop o l))) <= 256 ^ 2)%N).
  { apply N.pow_le_mono_r; lia. }
  change (256 ^ 2)%N with 65536%N in P. lia.
Qed.

Lemma rtp_iv_icm_octets alg ssrc est :
  is_icm_alg alg = true -> length (rtp_iv alg ssrc est) = 16%nat /\ SpecEqAes.octets (rtp_iv alg ssrc est).
Proof.
  intros Ha. unfold rtp_iv. rewrite Ha. unfold be64. split.
  - rewrite !app_length, !be_bytes_length. reflexivity.
  - apply SpecEqAes.octets_app; [apply SpecEqProofs.octets_zeros|]. apply SpecEqAes.octets_app; apply be_bytes_bytes.
Qed.

Lemma take_app_all {A} (a b : list A) : take (length a) (a ++ b) = a.
Proof. induction a as [|x a IH]; [destruct b; reflexivity|]. cbn. rewrite IH. reflexivity. Qed.

Lemma cs_ok_start_rtp k ssrc est : cs_ok (cipher_start k (rtp_iv (ck_alg k) ssrc est)).
Proof.
  unfold cipher_start. destruct (is_icm_alg (ck_alg k)) eqn:Ha; [|exact I]. cbn [cs_ok].
  destruct (icm_init_lengths (ck_salt k)) as [Hoff Hbuf].
  set (iv := rtp_iv (ck_alg k) ssrc est).
  exists (i_ctr (icm_set_iv (icm_init (ck_salt k)) iv)), 0. split.
  - apply wf_set_iv; assumption.
  - unfold in_range, blocks_of. change ((0 + 15) / 16) with 0. rewrite Z.add_0_r.
    rewrite ctr_low_set_iv_init.
    destruct (rtp_iv_icm_octets (ck_alg k) ssrc est Ha) as [Li Oi]. fold iv in Li, Oi.
    rewrite <- Li, take_app_all. apply be16_octets_le. exact Oi.
Qed.

(* ---- a successful call keeps the state well formed ---- *)
Lemma cs_ok_step cs d s cs' o :
  cs_ok cs -> lenZ d + 15 < 18446744073709551616 ->
  cipher_encrypt cs d = (s, cs', o) -> (s =? st_ok) = true -> cs_ok cs'.
Proof.
  destruct cs as [|rks c]; cbn [cipher_encrypt cs_ok].
  - intros _ _ H _. injection H as _ <- _. exact I.
  - intros (ctr0 & pos & Hwf & Hr) Hn H Hs.
    destruct (icm_refuses c (lenZ d)) eqn:Href.
    + rewrite (icm_encrypt_refused _ c d Href) in H. injection H as <- _ _. discriminate Hs.
    + destruct (aes_icm_encrypt_ok rks c ctr0 pos d Hwf Href) as (c1 & Heq & Hwf1 & _).
      rewrite Heq in H. injection H as _ <- _. cbn [cs_ok]. exists ctr0, (pos + lenZ d). split; [exact Hwf1|].
      apply (icm_accepts_in_range _ c ctr0 pos (lenZ d) Hwf Hr); [unfold lenZ; lia|exact Hn|exact Href].
Qed.

Lemma cs_ok_output cs n s cs' ks :
  cs_ok cs -> 0 <= n -> n + 15 < 18446744073709551616 ->
  cipher_output cs n = (s, cs', ks) -> (s =? st_ok) = true -> cs_ok cs'.
Proof.
  intros H Hn0 Hn. unfold cipher_output. apply cs_ok_step; [exact H|].
  unfold lenZ, zeros. rewrite repeat_length. unfold zn. lia.
Qed.

(* ---- chunking ---- *)
Lemma drop_app_all {A} (a b : list A) : drop (length a) (a ++ b) = b.
Proof. induction a as [|x a IH]; [reflexivity|]. cbn. exact IH. Qed.

Theorem cipher_chunk cs a b cs' o :
  cs_ok cs -> lenZ (a ++ b) + 15 < 18446744073709551616 ->
  cipher_encrypt cs (a ++ b) = (st_ok, cs', o) ->
  exists cs2, cipher_encrypt cs a = (st_ok, cs2, take (length a) o) /\
              cipher_encrypt cs2 b = (st_ok, cs', drop (length a) o).
Proof.
  destruct cs as [|rks c]; cbn [cipher_encrypt cs_ok].
  - intros _ _ H. injection H as <- <-. exists CSNull. rewrite take_app_all, drop_app_all. auto.
  - intros (ctr0 & pos & Hwf & Hr) Hn H.
    destruct (icm_encrypt (aes_encrypt_rk rks) c (a ++ b)) as [[s0 c0] o0] eqn:EW.
    injection H as -> <- ->.
    assert (EC : concat [a; b] = a ++ b) by (cbn [concat]; rewrite app_nil_r; reflexivity).
    pose proof (aes_icm_chunking_independent rks [a; b] c ctr0 pos Hwf Hr) as CI.
    rewrite EC in CI.
    assert (OK : fst (fst (icm_encrypt (aes_encrypt_rk rks) c (a ++ b))) = st_ok) by (rewrite EW; reflexivity).
    specialize (CI Hn (or_intror OK)).
    rewrite EW in CI. cbn [icm_run] in CI.
    destruct (icm_encrypt (aes_encrypt_rk rks) c a) as [[s1 c1] o1] eqn:E1.
    destruct (s1 =? st_ok) eqn:S1.
    2:{ injection CI as -> _ _. discriminate S1. }
    destruct (icm_encrypt (aes_encrypt_rk rks) c1 b) as [[s2 c2] o2] eqn:E2.
    destruct (s2 =? st_ok) eqn:S2.
    2:{ injection CI as -> _ _. discriminate S2. }
    injection CI as -> <-. apply Z.eqb_eq in S1, S2. subst s1 s2. rewrite app_nil_r.
    assert (L1 : length o1 = length a).
    { apply (cipher_encrypt_ok_length (CSIcm rks c) a st_ok (CSIcm rks c1) o1); [cbn [cipher_encrypt]; rewrite E1; reflexivity|reflexivity]. }
    exists (CSIcm rks c1). cbn [cipher_encrypt]. rewrite E2, <- L1, take_app_all, drop_app_all. auto.
Qed.
Print Assumptions cipher_chunk.
Print Assumptions cs_ok_start_rtp.
