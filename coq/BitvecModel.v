(* BitvecModel.v — word-level model of the bit vectors of crypto/math/datatypes.c
   (portable, non-SSSE3 branch) and of the bit macros of crypto/include/datatypes.h.
   Models only, no proofs (proofs are in BitvecProofs.v).

   A C bit vector is an array of uint32_t words, word[0] least significant;
   bit b of the vector is bit (b & 31) of word[b >> 5].  Here it is a
   `list N` whose elements are < 2^32.  Rdb.v / Rdbx.v represent the same
   vector as the single number `pack ws`. *)
From Coq Require Import NArith List Bool.
Import ListNotations.
Local Open Scope N_scope.

(* value of the whole vector: sum ws[i] * 2^(32 i) *)
Fixpoint pack (ws : list N) : N :=
  match ws with
  | [] => 0
  | w :: r => w + 2 ^ 32 * pack r
  end.

(* x->word[i]; reads outside the vector never happen in the C code, the
   default 0 only makes the function total *)
Definition word (ws : list N) (i : nat) : N := nth i ws 0.

(* (uint32_t) truncation of a C expression *)
Definition trunc32 (x : N) : N := x mod 2 ^ 32.

(* The body of bitvector_left_shift / v128_left_shift after the guard, for a
   vector of  word_length = length ws  words:

     base_index = shift >> 5;  bit_index = shift & 31;
     if (bit_index == 0)
         for (i = 0; i < word_length - base_index; i++)
             x[i] = x[i + base_index];
     else {
         for (i = 0; i < word_length - base_index - 1; i++)
             x[i] = (x[i + base_index] >> bit_index) ^
                    (x[i + base_index + 1] << (32 - bit_index));
         x[word_length - base_index - 1] = x[word_length - 1] >> bit_index;
     }
     for (i = word_length - base_index; i < word_length; i++) x[i] = 0;

   The C loops update x in place.  Iteration i writes x[i] and reads only
   x[i + base_index] and x[i + base_index + 1], i.e. indices >= i, while all
   earlier iterations wrote indices < i; the assignment of
   x[word_length - base_index - 1] reads x[word_length - 1], whose index is
   >= every index written before.  Hence every read sees the ORIGINAL
   contents and a functional definition over the original list `ws` is
   faithful.  The guard guarantees base_index < word_length, so none of the
   (size_t) subtractions wraps; the nat subtractions below are exact.

   `x << (32 - bit_index)` is computed in uint32_t: trunc32.  `>>` and `^`
   of 32-bit values need no truncation. *)
Definition shift_words (ws : list N) (shift : N) : list N :=
  let len := length ws in
  let base := N.to_nat (shift / 32) in
  let bit := shift mod 32 in
  (if bit =? 0 then
     map (fun i => word ws (i + base)) (seq 0 (len - base))
   else
     map (fun i => N.lxor (N.shiftr (word ws (i + base)) bit)
                          (trunc32 (N.shiftl (word ws (i + base + 1)) (32 - bit))))
         (seq 0 (len - base - 1))
     ++ [N.shiftr (word ws (len - 1)) bit])
  ++ repeat 0 base.

(* bitvector_left_shift: x->length = 32 * word_length bits;
   "if (shift >= x->length) { bitvector_set_to_zero(x); return; }" *)
Definition bv_left_shift (ws : list N) (shift : N) : list N :=
  if 32 * N.of_nat (length ws) <=? shift then repeat 0 (length ws)
  else shift_words ws shift.

(* v128_left_shift: four words, "if (shift > 127) { v128_set_to_zero(x); return; }" *)
Definition v128_left_shift (ws : list N) (shift : N) : list N :=
  if 127 <? shift then repeat 0 4%nat
  else shift_words ws shift.

(* x->word[i] = v *)
Fixpoint upd (i : nat) (v : N) (ws : list N) {struct ws} : list N :=
  match ws, i with
  | [], _ => []
  | _ :: r, O => v :: r
  | w :: r, S i' => w :: upd i' v r
  end.

(* bitvector_get_bit / v128_get_bit:  (word[bit >> 5] >> (bit & 31)) & 1 *)
Definition bv_get_bit (ws : list N) (b : N) : N :=
  N.land (N.shiftr (word ws (N.to_nat (b / 32))) (b mod 32)) 1.

(* bitvector_set_bit / v128_set_bit:  word[bit >> 5] |= (uint32_t)1 << (bit & 31) *)
Definition bv_set_bit (ws : list N) (b : N) : list N :=
  let i := N.to_nat (b / 32) in
  upd i (N.lor (word ws i) (N.shiftl 1 (b mod 32))) ws.

(* v128_clear_bit:  word[bit >> 5] &= ~((uint32_t)1 << (bit & 31)) *)
Definition bv_clear_bit (ws : list N) (b : N) : list N :=
  let i := N.to_nat (b / 32) in
  upd i (N.ldiff (word ws i) (N.shiftl 1 (b mod 32))) ws.
