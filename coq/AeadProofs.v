(* AeadProofs.v — what the AEAD layer (Aead.v) means in the configuration the theorems are about.

   The dispatchers protect_any / unprotect_any / protect_rtcp_any / unprotect_rtcp_any are what the
   model driver runs against libsrtp (Driver.v) in EVERY build configuration.  In the internal-crypto
   configuration (cfg_gcm_c = false in the Constants.v regenerated from that build's config.h: no
   GCM cipher type is registered, srtp_create refuses GCM policies) they ARE the non-AEAD functions
   of Rtp.v / Rtcp.v, so every theorem about protect / unprotect / protect_rtcp / unprotect_rtcp is a
   theorem about what the driver runs.  In a GCM-capable configuration this file does not compile
   (and is not built: only the model is). *)
From Coq Require Import NArith ZArith List Bool Lia.
From Srtp Require Import Util Constants KeyLimit Rdb Rdbx Icm World Stream Rtp Rtcp Aead WfProofs.
From Srtp.Crypto Require Import GCM.
Import ListNotations.
Local Open Scope Z_scope.

Lemma cfg_internal : cfg_gcm_c = false /\ cfg_openssl_c = false.
Proof. split; reflexivity. Qed.

Theorem protect_any_internal i : protect_any i = protect i.            Proof. reflexivity. Qed.
Theorem unprotect_any_internal : unprotect_any = unprotect.            Proof. reflexivity. Qed.
Theorem protect_rtcp_any_internal i : protect_rtcp_any i = protect_rtcp i.  Proof. reflexivity. Qed.
Theorem unprotect_rtcp_any_internal : unprotect_rtcp_any = unprotect_rtcp.  Proof. reflexivity. Qed.
Theorem derive_keys_any_internal p k m : derive_keys_any p k m = derive_keys p k m.  Proof. reflexivity. Qed.

(* no cipher the internal configuration can allocate is a GCM cipher, and GCM policies are refused *)
Theorem cipher_alg_of_not_gcm id klen : is_gcm_alg (cipher_alg_of id klen) = false.
Proof.
  unfold cipher_alg_of. destruct (id =? SRTP_NULL_CIPHER_c); [reflexivity|].
  change (cfg_gcm_c && is_gcm_alg id) with false. cbv iota.
  destruct (klen =? SRTP_AES_ICM_256_KEY_LEN_WSALT_c); [reflexivity|]. reflexivity.
Qed.
Theorem gcm_policy_refused id klen : is_gcm_alg id = true -> cipher_alloc_status id klen = st_fail.
Proof.
  intros H. unfold is_gcm_alg in H. apply orb_true_iff in H.
  destruct H as [H|H]; apply Z.eqb_eq in H; subst id; reflexivity.
Qed.

(* the AEAD primitives as srtp.c uses them: what was sealed opens to the plaintext (any key, IV, AAD) *)
Theorem gcm_open_seal k tag_len iv aad pt room o :
  0 <= tag_len <= 16 -> gcm_seal k tag_len iv aad pt room = (st_ok, o) ->
  gcm_open k tag_len iv aad o (lenZ pt) = (st_ok, pt).
Proof.
  intros HT. unfold gcm_seal, gcm_open. destruct (room <? lenZ pt + tag_len); [discriminate|].
  destruct (gcm_encrypt (ck_rks k) iv aad pt (zn tag_len)) as [ct tag] eqn:E.
  intros H. injection H as <-.
  pose proof (gcm_encrypt_length _ _ _ _ _ _ _ E) as [L1 L2].
  assert (LT : length tag = zn tag_len) by (rewrite L2; unfold zn; lia).
  assert (LN : lenZ (ct ++ tag) = lenZ pt + tag_len).
  { unfold lenZ. rewrite app_length, L1, LT. unfold zn. lia. }
  rewrite LN.
  destruct (lenZ pt + tag_len <? tag_len) eqn:C1; [apply Z.ltb_lt in C1; unfold lenZ in C1; lia|].
  replace (lenZ pt + tag_len - tag_len) with (lenZ pt) by lia.
  rewrite Z.ltb_irrefl.
  assert (T1 : take (zn (lenZ pt)) (ct ++ tag) = ct).
  { replace (zn (lenZ pt)) with (length ct) by (unfold zn, lenZ; lia).
    rewrite take_firstn, firstn_app, Nat.sub_diag, firstn_all. cbn. apply app_nil_r. }
  assert (T2 : drop (zn (lenZ pt)) (ct ++ tag) = tag).
  { replace (zn (lenZ pt)) with (length ct) by (unfold zn, lenZ; lia).
    rewrite drop_skipn, skipn_app, Nat.sub_diag, skipn_all. reflexivity. }
  rewrite T1, T2. rewrite (gcm_decrypt_encrypt _ _ _ _ _ _ _ E). reflexivity.
Qed.
Print Assumptions gcm_open_seal.
