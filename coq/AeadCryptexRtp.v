(* AeadCryptexRtp.v — cryptex (RFC 9335) under AES-GCM, part 1: the documented refusal.
   With cryptex in use for the packet (stream has cryptex, confidentiality on, X = 1; on the receiver
   side: the profile is one of RFC 9335), a call that does NOT work in place on a packet that has
   CSRCs is refused with srtp_err_status_cryptex_err by srtp_protect and by srtp_unprotect (GCM key):
     protect_aead_cryptex_refusal     after the key budget has been charged, nothing else changed
     unprotect_aead_cryptex_refusal   with the session untouched
   (explicit stream for the packet's SSRC, as everywhere). *)
From Coq Require Import NArith ZArith List Bool Lia.
From Srtp Require Import XtnProofs.
From Srtp Require Import Util Constants KeyLimit Rdb Rdbx Icm World Stream Rtp Aead AeadProofs
     MonadLemmas EnvelopeProofs WfProofs BoundsRtcp BoundsRtp LengthProofs RtcpSpec RtpSpec RtpSpecProofs
     RtpRoundTrip RtpXtnApply RtpRefineXtn RtpRoundTripXtn RtpUnprotSpec RtpUnprotProofs AeadRoundTripRtp.
Import ListNotations.
Local Open Scope Z_scope.

Lemma dir_stream_rtp_serv st want : s_rtp_serv (dir_stream st want) = s_rtp_serv st.
Proof. unfold dir_stream. destruct (s_dir st =? want); [reflexivity|]. destruct (s_dir st =? dir_unknown_c); reflexivity. Qed.

Section REFUSAL.
Variables (L C : Z) (src d0 pkt : bytes).
Hypothesis HL : 0 <= L < 9223372036854775808.
Hypothesis HC : 0 <= C < 9223372036854775808.
Hypothesis HD : C <= lenZ d0.
(* out of place *)
Hypothesis Hpkt : take (zn L) src = pkt.
Hypothesis HLp : lenZ pkt = L.

Notation S := (St L C false src d0).

Ltac norm_b :=
  change (b_len (b_init L C false src d0)) with L;
  change (b_cap (b_init L C false src d0)) with C;
  change (b_alias (b_init L C false src d0)) with false;
  rewrite ?(Hpkt : take (zn L) (cur_src (b_init L C false src d0)) = pkt).

Variable ss0 : session.
Variable st0 : stream.
Hypothesis Hget : list_get (ss_list ss0) (hdr_ssrc pkt) = Some st0.
Hypothesis Hwf : stream_wf st0.
(* cryptex in use for this packet, which has CSRCs *)
Hypothesis Hcx : s_cryptex st0 = true.
Hypothesis Hconf : rtp_conf st0 = true.
Hypothesis HX : hdr_x pkt = 1.
Hypothesis HCC : hdr_cc pkt <> 0.

(* sender: every exit is one of the checks in front (with the session as those checks leave it) or
   the refusal itself, reached with the key budget charged; the call never succeeds *)
Definition RefE i (s : Z) (w : world) : Prop :=
  b_src (w_b w) = src /\ b_oob (w_b w) = false /\
  (validate_rtp pkt L = st_ok ->
   forall ki k ss2,
     sender_key_st (dir_stream st0 dir_srtp_sender_c) i = inl (ki, k) ->
     charge_fun (dir_session ss0 (hdr_ssrc pkt) st0 dir_srtp_sender_c) (hdr_ssrc pkt)
                (dir_stream st0 dir_srtp_sender_c) ki = (ss2, inl tt) ->
     L + ak_tag (k_rtp_a k) + s_mki_size st0 <= C ->
     s = st_cryptex_err /\ w_s w = ss2).

Lemma protect_aead_refusal_tri i : tri (S ss0 (eq d0)) (protect_aead i) (fun _ _ => False) (RefE i).
Proof.
  unfold protect_aead, RefE.
  eapply t_bind; [apply t_get_b0|intros b]. apply t_pure; intros ->.
  cbv beta zeta. norm_b.
  change octets_in_rtp_header_c with 12. change octets_in_rtp_xtn_hdr_c with 4.
  unfold check_st. destruct (validate_rtp pkt L =? st_ok) eqn:EV.
  2:{ apply t_bind_exit. intros w (h0 & h1 & h2 & h3 & h4 & h5 & h6 & h7). split; [exact h4|]. split; [exact h5|].
      intros V. rewrite V in EV. discriminate EV. }
  apply t_bind_ret.
  eapply t_bind; [eapply t_lookup_existing; exact Hget|intros r]. apply t_pure; intros ->.
  eapply t_bind; [eapply t_check_direction; exact Hget|intros ?].
  eapply t_bind; [apply t_get_stream_list; apply dir_session_get; exact Hget|intros st]. apply t_pure; intros Est.
  set (ss1 := dir_session ss0 (hdr_ssrc pkt) st0 dir_srtp_sender_c) in *.
  pose proof (dir_stream_cfg st0 dir_srtp_sender_c) as CF. rewrite <- Est in CF.
  destruct CF as (CK & CM & CU & CX). rewrite Hcx in CX.
  assert (CS : s_rtp_serv st = s_rtp_serv st0) by (rewrite Est; apply dir_stream_rtp_serv).
  rewrite <- Est.
  rewrite keys_by_index_eq. destruct (sender_key_st st i) as [[ki k]|e] eqn:EK.
  2:{ apply t_bind_exit. intros w (h0 & h1 & h2 & h3 & h4 & h5 & h6 & h7). split; [exact h4|]. split; [exact h5|].
      intros _ ki k ss2 H. discriminate H. }
  apply t_bind_ret. cbv beta iota.
  eapply t_bind2; [eapply t_charge_key; apply dir_session_get; exact Hget| |intros ?].
  { intros s w (ss' & EC & (h0 & h1 & h2 & h3 & h4 & h5 & h6 & h7)). split; [exact h4|]. split; [exact h5|].
    intros _ ki' k' ss2 H1 H2. injection H1 as <- <-. rewrite <- Est in EC. rewrite EC in H2. discriminate H2. }
  apply t_ex; intros ss2. apply t_pure; intros EC. apply t_pure; intros Hg2. rewrite <- Est in EC.
  destruct (C <? L + ak_tag (k_rtp_a k) + s_mki_size st) eqn:E1.
  { apply t_bind_exit. intros w (h0 & h1 & h2 & h3 & h4 & h5 & h6 & h7). split; [exact h4|]. split; [exact h5|].
    intros _ ki' k' ss2' H1 H2 H3. injection H1 as <- <-. apply Z.ltb_lt in E1. rewrite CM in E1. lia. }
  apply t_bind_ret.
  rewrite CX, CS. unfold rtp_conf in Hconf. rewrite Hconf, HX. cbn [andb negb Z.eqb Pos.eqb].
  replace (hdr_cc pkt =? 0) with false by (symmetry; apply Z.eqb_neq; exact HCC). cbn [andb negb].
  apply t_bind_ret.
  apply t_bind_exit. intros w (h0 & h1 & h2 & h3 & h4 & h5 & h6 & h7). split; [exact h4|]. split; [exact h5|].
  intros _ ki' k' ss2' H1 H2 _. injection H1 as <- <-. rewrite EC in H2. injection H2 as <-. auto.
Qed.

(* receiver: the refusal comes before anything is written, whatever the profile check read *)
Hypothesis Hprof : xtn_profile pkt = cryptex_one_byte_profile_c \/ xtn_profile pkt = cryptex_two_byte_profile_c.

Definition URefE (s : Z) (w : world) : Prop :=
  w_s w = ss0 /\ b_src (w_b w) = src /\ b_oob (w_b w) = false /\
  (validate_rtp pkt L = st_ok ->
   forall eda ik, rx_index st0 (hdr_seq pkt) = inl eda -> receiver_key_st st0 pkt L 0 = inl ik ->
   s = st_cryptex_err).

Lemma unprotect_aead_refusal_tri : tri (S ss0 (eq d0)) unprotect_aead (fun _ _ => False) URefE.
Proof.
  unfold unprotect_aead, URefE.
  eapply t_bind; [apply t_get_b0|intros b]. apply t_pure; intros ->.
  cbv beta zeta. norm_b.
  change octets_in_rtp_header_c with 12. change octets_in_rtp_xtn_hdr_c with 4.
  unfold check_st at 1. destruct (validate_rtp pkt L =? st_ok) eqn:EV.
  2:{ apply t_bind_exit. intros w (h0 & h1 & h2 & h3 & h4 & h5 & h6 & h7). repeat (split; [assumption|]).
      intros V. rewrite V in EV. discriminate EV. }
  apply t_bind_ret. apply Z.eqb_eq in EV.
  pose proof (validate_rtp_ok _ _ EV) as (V1 & V2 & V3). specialize (V3 HX).
  pose proof (hdr_cc_range pkt) as CC. pose proof (hdr_len_eq pkt) as HLn. pose proof (xtn_len_ge pkt) as XL.
  eapply t_bind; [apply t_get_s|intros ss]. apply t_pure; intros ->.
  rewrite Hget. apply t_bind_ret.
  eapply t_bind; [apply t_get_stream_list; exact Hget|intros st]. apply t_pure; intros ->.
  eapply t_bind2; [apply t_rx_index| |intros [[est delta] adv]].
  { intros s w [EI (h0 & h1 & h2 & h3 & h4 & h5 & h6 & h7)]. repeat (split; [assumption|]).
    intros _ eda ik H. rewrite EI in H. discriminate H. }
  apply t_pure; intros EI. cbv beta iota.
  eapply t_bind2; [apply (t_keys_by_packet L C false src d0 pkt Hpkt ss0 st0 0 Hwf); lia| |intros [ki k]].
  { intros s w [EK (h0 & h1 & h2 & h3 & h4 & h5 & h6 & h7)]. repeat (split; [assumption|]).
    intros _ eda ik _ H. rewrite EK in H. discriminate H. }
  apply t_pure; intros EK. cbv beta iota.
  unfold rtp_conf in Hconf. rewrite Hcx, Hconf, HX. cbn [andb Z.eqb Pos.eqb].
  (* the profile *)
  apply t_bind with (R := fun iu w => iu = true /\ S ss0 (eq d0) w).
  { eapply t_bind; [apply (t_rd_src0 L C false src d0 pkt Hpkt); lia|intros h]. apply t_pure; intros ->.
    apply t_ret. intros w Hw. split; [|exact Hw].
    change (zn 4) with 4%nat. rewrite be16_slice4_0. fold (xtn_profile pkt).
    apply orb_true_iff. destruct Hprof as [H|H]; rewrite H; [left|right]; reflexivity. }
  intros iu. apply t_pure; intros ->. cbn [andb].
  apply t_bind with (R := fun _ => S ss0 (eq d0)).
  { eapply t_bind; [apply (t_rd_src0 L C false src d0 pkt Hpkt); lia|intros h]. apply t_pure; intros ->.
    apply t_ret. intros w Hw. exact Hw. }
  intros xl.
  replace (hdr_cc pkt =? 0) with false by (symmetry; apply Z.eqb_neq; exact HCC). cbn [andb negb].
  apply t_bind_exit. intros w (h0 & h1 & h2 & h3 & h4 & h5 & h6 & h7). repeat (split; [assumption|]).
  intros; reflexivity.
Qed.
End REFUSAL.

(* the documented refusal, sender side: srtp_protect (GCM key, cryptex in use, CSRCs present) called
   out of place never succeeds; once the checks in front of it have passed (valid header, key by
   MKI index, key budget, *out_len) it returns cryptex_err, the session being the one left by the
   direction update and the key-budget charge *)
Theorem protect_aead_cryptex_refusal i w st0 w' r :
  call_ok w -> b_alias (w_b w) = false ->
  list_get (ss_list (w_s w)) (hdr_ssrc (in_pkt w)) = Some st0 -> stream_wf st0 ->
  s_cryptex st0 = true -> rtp_conf st0 = true -> hdr_x (in_pkt w) = 1 -> hdr_cc (in_pkt w) <> 0 ->
  protect_aead i w = (w', r) ->
  (exists e, r = inr e) /\ b_src (w_b w') = b_src (w_b w) /\ b_oob (w_b w') = false /\
  (validate_rtp (in_pkt w) (b_len (w_b w)) = st_ok ->
   forall ki k ss2,
     sender_key_st (dir_stream st0 dir_srtp_sender_c) i = inl (ki, k) ->
     charge_fun (dir_session (w_s w) (hdr_ssrc (in_pkt w)) st0 dir_srtp_sender_c) (hdr_ssrc (in_pkt w))
                (dir_stream st0 dir_srtp_sender_c) ki = (ss2, inl tt) ->
     b_len (w_b w) + ak_tag (k_rtp_a k) + s_mki_size st0 <= b_cap (w_b w) ->
     r = inr st_cryptex_err /\ w_s w' = ss2).
Proof.
  intros (HO & HL & HC & HD & HS) HA Hget Hwf Hcx Hconf HX HCC E.
  assert (HLp : lenZ (in_pkt w) = b_len (w_b w)).
  { unfold in_pkt, lenZ, zn, size_ok in *. rewrite take_length. lia. }
  assert (Hp : take (zn (b_len (w_b w))) (b_src (w_b w)) = in_pkt w) by (unfold in_pkt, cur_src; rewrite HA; reflexivity).
  pose proof (St_init w HO) as SI. rewrite HA in SI.
  pose proof (protect_aead_refusal_tri (b_len (w_b w)) (b_cap (w_b w)) (b_src (w_b w)) (b_dst (w_b w))
                (in_pkt w) Hp (w_s w) st0 Hget Hcx Hconf HX HCC i w SI) as T.
  rewrite E in T. destruct r as [l|s]; [contradiction|].
  destruct T as (T1 & T2 & T3). split; [eexists; reflexivity|]. split; [exact T1|]. split; [exact T2|].
  intros V ki k ss2 H1 H2 H3. destruct (T3 V ki k ss2 H1 H2 H3) as [-> T4]. auto.
Qed.
Print Assumptions protect_aead_cryptex_refusal.

(* receiver side: nothing of the session is changed *)
Theorem unprotect_aead_cryptex_refusal w st0 w' r :
  call_ok w -> b_alias (w_b w) = false ->
  list_get (ss_list (w_s w)) (hdr_ssrc (in_pkt w)) = Some st0 -> stream_wf st0 ->
  s_cryptex st0 = true -> rtp_conf st0 = true -> hdr_x (in_pkt w) = 1 -> hdr_cc (in_pkt w) <> 0 ->
  xtn_profile (in_pkt w) = cryptex_one_byte_profile_c \/ xtn_profile (in_pkt w) = cryptex_two_byte_profile_c ->
  unprotect_aead w = (w', r) ->
  (exists e, r = inr e) /\ w_s w' = w_s w /\ b_src (w_b w') = b_src (w_b w) /\ b_oob (w_b w') = false /\
  (validate_rtp (in_pkt w) (b_len (w_b w)) = st_ok ->
   forall eda ik, rx_index st0 (hdr_seq (in_pkt w)) = inl eda ->
                  receiver_key_st st0 (in_pkt w) (b_len (w_b w)) 0 = inl ik ->
   r = inr st_cryptex_err).
Proof.
  intros (HO & HL & HC & HD & HS) HA Hget Hwf Hcx Hconf HX HCC HP E.
  assert (HLp : lenZ (in_pkt w) = b_len (w_b w)).
  { unfold in_pkt, lenZ, zn, size_ok in *. rewrite take_length. lia. }
  assert (Hp : take (zn (b_len (w_b w))) (b_src (w_b w)) = in_pkt w) by (unfold in_pkt, cur_src; rewrite HA; reflexivity).
  pose proof (St_init w HO) as SI. rewrite HA in SI.
  pose proof (unprotect_aead_refusal_tri (b_len (w_b w)) (b_cap (w_b w)) (b_src (w_b w)) (b_dst (w_b w))
                (in_pkt w) Hp (w_s w) st0 Hget Hwf Hcx Hconf HX HCC HP w SI) as T.
  rewrite E in T. destruct r as [l|s]; [contradiction|].
  destruct T as (T0 & T1 & T2 & T3). split; [eexists; reflexivity|]. repeat (split; [assumption|]).
  intros V eda ik H1 H2. rewrite (T3 V eda ik H1 H2). reflexivity.
Qed.
Print Assumptions unprotect_aead_cryptex_refusal.
