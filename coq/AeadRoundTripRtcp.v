(* AeadRoundTripRtcp.v — C02 / C04 for the AES-GCM (RFC 7714) SRTCP paths of Aead.v:

     rtcp_aead_wire st k seq pkt    what srtp_protect_rtcp (GCM key) puts on the wire
     protect_rtcp_aead_wire         a successful protect_rtcp_aead emits exactly that
     unprotect_rtcp_aead_fun        pure specification of srtp_unprotect_rtcp (GCM key)
     unprotect_rtcp_aead_refines    the monadic model computes it, in place and out of place
     unprotect_rtcp_aead_accept_iff acceptance <-> gcm_decrypt (key, IV, AAD, ct, tag) = Some _
     rtcp_aead_round_trip           the wire image is accepted and gives the packet back

   Restriction (as in RtcpSpecProofs.v): the session holds an explicit stream for the
   packet's SSRC. *)
From Coq Require Import NArith ZArith List Bool Lia.
From Srtp Require Import Util Constants KeyLimit Rdb Rdbx Icm World Stream Rtp Rtcp Aead AeadProofs
     MonadLemmas EnvelopeProofs WfProofs BoundsRtcp LengthProofs EqualProofs RtcpSpec RtcpSpecProofs RtcpRoundTrip.
From Srtp.Crypto Require Import GCM.
Import ListNotations.
Local Open Scope Z_scope.

Global Opaque gcm_encrypt gcm_decrypt.

(* ===================================================================== *)
(* 1. the wire image (RFC 7714 section 9)                                 *)
(* ===================================================================== *)
(* what follows the 8-octet header and precedes the trailer:
   E = 1: ciphertext of the payload ++ tag, AAD = header ++ trailer;
   E = 0: the payload itself ++ (empty ciphertext) ++ tag, AAD = whole packet ++ trailer *)
Definition rtcp_aead_body (k : skeys) (iv pkt tr : bytes) (conf : bool) : bytes :=
  let tl := zn (ak_tag (k_rtcp_a k)) in
  if conf then
    let '(ct, tag) := gcm_encrypt (ck_rks (k_rtcp_c k)) iv (take 8 pkt ++ tr) (drop 8 pkt) tl in ct ++ tag
  else
    let '(ct, tag) := gcm_encrypt (ck_rks (k_rtcp_c k)) iv (pkt ++ tr) [] tl in drop 8 pkt ++ ct ++ tag.

(* header(8) | ciphertext or plaintext | GCM tag | E + index | MKI;  None: the index has bit 31
   set (srtp_calc_aead_iv_srtcp refuses it) *)
Definition rtcp_aead_wire (st : stream) (k : skeys) (seq : Z) (pkt : bytes) : option bytes :=
  if 2147483648 <=? seq then None else
  let conf := rtcp_conf st in
  let tr := rtcp_trailer conf seq in
  let iv := aead_rtcp_iv (k_csalt k) (be32 pkt 4) seq in
  Some (take 8 pkt ++ rtcp_aead_body k iv pkt tr conf ++ tr ++ (if s_use_mki st then k_mki k else [])).

Lemma rtcp_aead_body_len k iv pkt tr conf :
  0 <= ak_tag (k_rtcp_a k) <= 16 -> 8 <= lenZ pkt ->
  lenZ (rtcp_aead_body k iv pkt tr conf) = lenZ pkt - 8 + ak_tag (k_rtcp_a k).
Proof.
  intros T H8. unfold rtcp_aead_body. cbv zeta. destruct conf.
  - destruct (gcm_encrypt _ _ _ _ _) as [ct tag] eqn:E. apply gcm_encrypt_length in E. destruct E as [E1 E2].
    unfold lenZ, zn in *. rewrite app_length, E1, E2, drop_length. lia.
  - destruct (gcm_encrypt _ _ _ _ _) as [ct tag] eqn:E. apply gcm_encrypt_length in E. destruct E as [E1 E2].
    unfold lenZ, zn in *. rewrite !app_length, E1, E2, drop_length. cbn [length]. lia.
Qed.

Lemma rtcp_aead_wire_cfg st st' k seq pkt :
  s_rtcp_serv st' = s_rtcp_serv st -> s_use_mki st' = s_use_mki st ->
  rtcp_aead_wire st' k seq pkt = rtcp_aead_wire st k seq pkt.
Proof. intros H1 H2. unfold rtcp_aead_wire, rtcp_conf. rewrite H1, H2. reflexivity. Qed.

(* gcm_seal with enough room = gcm_encrypt *)
Lemma gcm_seal_ok k tl iv aad pt room :
  lenZ pt + tl <= room ->
  gcm_seal k tl iv aad pt room =
  (st_ok, let '(ct, tag) := gcm_encrypt (ck_rks k) iv aad pt (zn tl) in ct ++ tag).
Proof.
  intros H. unfold gcm_seal. destruct (room <? lenZ pt + tl) eqn:E; [apply Z.ltb_lt in E; lia|].
  destruct (gcm_encrypt _ _ _ _ _) as [ct tag]. reflexivity.
Qed.


(* ===================================================================== *)
(* 1b. srtp_unprotect_rtcp with a GCM key, as a pure function             *)
(* ===================================================================== *)
(* srtp_get_session_keys_for_rtcp_packet: the tag length used to locate the MKI is 0 when the
   RTCP cipher of the stream's first key is GCM *)
Definition rtcp_aead_tl0 (st : stream) : Z :=
  match s_keys st with
  | k0 :: _ => if is_gcm_alg (ck_alg (k_rtcp_c k0)) then 0 else ak_tag (k_rtcp_a k0)
  | [] => 0
  end.

(* everything before the AEAD operation: stream, key, trailer *)
Definition unprotect_rtcp_aead_pre_fun (ss : session) (C : Z) (pkt : bytes) : (stream * skeys * bytes) + Z :=
  let len := lenZ pkt in
  if len <? 8 + 4 then inr st_bad_param else
  match list_get (ss_list ss) (be32 pkt 4) with
  | None => inr st_no_ctx
  | Some st =>
    match receiver_key_st st pkt len (rtcp_aead_tl0 st) with
    | inr e => inr e
    | inl (ki, k) =>
      let tl := ak_tag (k_rtcp_a k) in
      let msz := s_mki_size st in
      if len <? 8 + 4 + msz + tl then inr st_bad_param else
      let tr := slice (zn (len - 4 - msz)) (zn 4) pkt in
      if rdb_check (s_rdb st) (rtcp_rx_index tr) =? st_ok then
        if C <? u64 (len - 4 - msz - tl) then inr st_buffer_small else inl (st, k, tr)
      else inr (rdb_check (s_rdb st) (rtcp_rx_index tr))
    end
  end.

(* AAD, ciphertext and tag as the receiver cuts them out of the packet (n = offset of the tag):
   E = 1: AAD = header ++ trailer, ciphertext = [8, n);  E = 0: AAD = [0, n) ++ trailer, no ciphertext *)
Definition rtcp_aead_rx_parts (pkt tr : bytes) (tl msz : Z) : bytes * bytes * bytes :=
  let n := lenZ pkt - tl - 4 - msz in
  let tag := slice (zn n) (zn tl) pkt in
  if rtcp_rx_ebit tr then (take 8 pkt ++ tr, slice (zn 8) (zn (n - 8)) pkt, tag)
  else (take (zn n) pkt ++ tr, [], tag).

Definition unprotect_rtcp_aead_fun (ss : session) (C : Z) (pkt : bytes) : session * (bytes + Z) :=
  match unprotect_rtcp_aead_pre_fun ss C pkt with
  | inr e => (ss, inr e)
  | inl (st, k, tr) =>
    let tl := ak_tag (k_rtcp_a k) in
    let msz := s_mki_size st in
    let seq := rtcp_rx_index tr in
    let '(aad, ct, tag) := rtcp_aead_rx_parts pkt tr tl msz in
    match gcm_decrypt (ck_rks (k_rtcp_c k)) (aead_rtcp_iv (k_csalt k) (be32 pkt 4) seq) aad ct tag with
    | None => (ss, inr st_auth_fail)
    | Some pt => (rx_session ss (be32 pkt 4) st seq,
                  inl (if rtcp_rx_ebit tr then take 8 pkt ++ pt else take (zn (lenZ pkt - tl - 4 - msz)) pkt))
    end
  end.

(* gcm_open on ciphertext ++ tag of known length, with enough room *)
Lemma gcm_open_eq k tl iv aad x room n :
  lenZ x = n -> 0 <= tl <= n -> n - tl <= room ->
  gcm_open k tl iv aad x room =
  match gcm_decrypt (ck_rks k) iv aad (take (zn (n - tl)) x) (drop (zn (n - tl)) x) with
  | Some pt => (st_ok, pt)
  | None => (st_auth_fail, [])
  end.
Proof.
  intros Hn Ht Hr. unfold gcm_open. cbv zeta. rewrite Hn.
  destruct (n <? tl) eqn:E1; [apply Z.ltb_lt in E1; lia|].
  destruct (room <? n - tl) eqn:E2; [apply Z.ltb_lt in E2; lia|]. reflexivity.
Qed.

Lemma take_slice {A} a o n (l : list A) : (a <= n)%nat -> take a (slice o n l) = slice o a l.
Proof. intros H. unfold slice. rewrite take_take. replace (Nat.min a n) with a by lia. reflexivity. Qed.
Lemma drop_slice {A} a o n (l : list A) : drop a (slice o n l) = slice (o + a) (n - a) l.
Proof.
  unfold slice. rewrite !take_firstn, !drop_skipn. rewrite skipn_firstn_comm. rewrite <- !drop_skipn, drop_drop.
  reflexivity.
Qed.

Lemma t_log_gcm_iv L C al src d0 ss D k iv E :
  tri (St L C al src d0 ss D) (log_gcm_iv k iv) (fun _ => St L C al src d0 ss D) E.
Proof. intros w H. cbn. exact H. Qed.

Lemma t_assoc {A B X} (m : M A) (f : A -> M B) (g : B -> M X) P Q E :
  tri P (bind m (fun a => bind (f a) g)) Q E -> tri P (bind (bind m f) g) Q E.
Proof.
  intros H w HP. specialize (H w HP). unfold bind in *. destruct (m w) as [w1 [a|s]]; exact H.
Qed.

(* ===================================================================== *)
(* 2. srtp_protect_rtcp with a GCM key                                    *)
(* ===================================================================== *)
Section AEAD_RTCP.
Variables (L C : Z) (al : bool) (src d0 pkt : bytes).
Hypothesis HL : 0 <= L < 9223372036854775808.
Hypothesis HC : 0 <= C < 9223372036854775808.
Hypothesis HD : C <= lenZ d0.
Hypothesis Hpkt : take (zn L) (if al then d0 else src) = pkt.
Hypothesis HLp : lenZ pkt = L.

Notation S := (St L C al src d0).

(* what is known of the destination: in place, its first L octets are still the input packet;
   plus a list of pieces written so far *)
Definition DP (fs : list (Z * bytes)) (dd : bytes) : Prop :=
  (al = true -> take (zn L) dd = pkt) /\ facts_ok fs dd.

Lemma DP_init : forall dd, dd = d0 -> DP [] dd.
Proof.
  intros dd ->. split; [|constructor]. intros EA. pose proof Hpkt as H. rewrite EA in H. exact H.
Qed.

Lemma DP_facts fs dd : DP fs dd -> facts_ok fs dd.
Proof. intros [_ H]; exact H. Qed.

Lemma DP_alias_slice fs dd off n :
  DP fs dd -> al = true -> 0 <= off -> 0 <= n -> off + n <= L ->
  slice (zn off) (zn n) dd = slice (zn off) (zn n) pkt.
Proof.
  intros [Ha _] EA H1 H2 H3. rewrite <- (Ha EA). symmetry. apply slice_take. unfold zn. lia.
Qed.

Lemma t_rd_srcP ss fs off n E :
  0 <= off -> 0 <= n -> off + n <= L ->
  tri (S ss (DP fs)) (rd_src off n) (fun d w => d = slice (zn off) (zn n) pkt /\ S ss (DP fs) w) E.
Proof.
  intros H1 H2 H3. eapply t_post; [apply t_rd_src; assumption|].
  intros d w [(dd & Hdd & _ & Hd) Hw]. split; [|exact Hw]. rewrite Hd.
  pose proof Hpkt as Hp. pose proof (DP_alias_slice fs dd off n Hdd) as Ha.
  destruct al eqn:EA.
  - apply Ha; auto.
  - rewrite <- Hp. symmetry. apply slice_take. unfold zn. lia.
Qed.

(* a write that leaves the input packet alone (in place: at or beyond its end) *)
Lemma t_wr_DP ss fs off v E :
  0 <= off -> (al = true -> L <= off) -> off + lenZ v <= C -> Forall (away off (lenZ v)) fs ->
  tri (S ss (DP fs)) (wr_dst off v) (fun _ => S ss (DP ((off, v) :: fs))) E.
Proof.
  intros H1 H2 H3 H4. apply t_wr_dst; [exact H1|exact H3|].
  intros dd Hl [Ha Hf]. split.
  - intros EA. rewrite take_splice_below; [exact (Ha EA)|]. specialize (H2 EA). unfold zn. lia.
  - apply facts_write; auto. lia.
Qed.

Lemma t_if_al {A} P (m1 m2 : M A) Q E :
  (al = true -> tri P m1 Q E) -> (al = false -> tri P m2 Q E) -> tri P (if al then m1 else m2) Q E.
Proof. destruct al; auto. Qed.

Lemma t_DP_facts {A} ss fs (m : M A) Q E :
  tri (S ss (facts_ok fs)) m Q E -> tri (S ss (DP fs)) m Q E.
Proof. apply t_weaken. intros dd _ H. exact (DP_facts _ _ H). Qed.

Lemma hdr8_len : 8 <= L -> lenZ (take 8 pkt) = 8.
Proof. intros H. unfold lenZ in *. rewrite take_length. lia. Qed.
Lemma pay8_len : 8 <= L -> lenZ (drop 8 pkt) = L - 8.
Proof. intros H. unfold lenZ in *. rewrite drop_length. lia. Qed.
Lemma pkt_pay8 : 8 <= L -> slice (zn 8) (zn (L - 8)) pkt = drop 8 pkt.
Proof. intros H. apply slice_to_end. unfold lenZ, zn in *. lia. Qed.
Lemma pkt_all : slice (zn 0) (zn L) pkt = pkt.
Proof. change (zn 0) with O. rewrite slice_0. apply take_all. unfold lenZ, zn in *. lia. Qed.

(* the header: copied out of place; in place it is there already *)
Lemma header_stepP ss E :
  8 <= L -> 8 <= C ->
  tri (S ss (DP [])) (if al then ret tt else (h <- rd_src 0 8 ;; wr_dst 0 h))
      (fun _ => S ss (DP [(0, take 8 pkt)])) E.
Proof.
  intros H8 HC8. pose proof (hdr8_len H8) as LH.
  apply t_if_al; intros EA.
  - apply t_ret. intros w Hw. eapply St_weaken; [|exact Hw]. intros dd _ Hdd.
    split; [exact (proj1 Hdd)|]. constructor; [|constructor].
    split; [cbn [fst]; lia|]. cbn [fst snd].
    replace (length (take 8 pkt)) with (zn 8) by (unfold lenZ, zn in *; lia).
    apply (DP_alias_slice [] dd 0 8 Hdd EA); lia.
  - eapply t_bind; [apply t_rd_srcP; lia|intros h]. apply t_pure; intros ->.
    change (slice (zn 0) (zn 8) pkt) with (take 8 pkt).
    apply t_wr_DP; [lia|rewrite EA; discriminate|lia|constructor].
Qed.

Definition PE (s : Z) (w : world) : Prop := b_src (w_b w) = src /\ b_oob (w_b w) = false.
Lemma pe_exit ss D s w : S ss D w -> PE s w.
Proof. intros Hw. destruct (St_exit _ _ _ _ _ _ _ _ Hw) as (_ & e2 & e3). split; assumption. Qed.

Ltac norm_b :=
  change (b_len (b_init L C al src d0)) with L;
  change (b_cap (b_init L C al src d0)) with C;
  change (b_alias (b_init L C al src d0)) with al;
  rewrite ?(Hpkt : take (zn L) (cur_src (b_init L C al src d0)) = pkt).

Ltac away_tac := repeat (apply Forall_cons || apply Forall_nil); unfold away; cbn [fst snd]; lia.
Ltac in_tac := first [apply in_eq | apply in_cons; in_tac].

Variable ss0 : session.
Variable st0 : stream.
Hypothesis Hget : list_get (ss_list ss0) (be32 pkt 4) = Some st0.
Hypothesis Hwf : stream_wf st0.

Definition tx_session (seq : Z) : session :=
  sess_put (dir_session ss0 (be32 pkt 4) st0 dir_srtp_sender_c) (be32 pkt 4)
    (set_rdb (dir_stream st0 dir_srtp_sender_c) {| wstart := seq; bitmask := bitmask (s_rdb st0) |}).

Definition AProtQ i (l : Z) (w : world) : Prop :=
  exists k wire,
    sender_key st0 i = Some k /\
    rtcp_aead_wire st0 k (u32 (wstart (s_rdb st0) + 1)) pkt = Some wire /\
    l = lenZ wire /\ take (zn l) (b_dst (w_b w)) = wire /\
    w_s w = tx_session (u32 (wstart (s_rdb st0) + 1)) /\
    wstart (s_rdb st0) < rtcp_ceiling_c /\
    b_src (w_b w) = src /\ b_oob (w_b w) = false.

Lemma protect_rtcp_aead_tri i : tri (S ss0 (eq d0)) (protect_rtcp_aead i) (AProtQ i) PE.
Proof.
  unfold protect_rtcp_aead.
  eapply t_bind; [apply t_get_b0|intros b]. apply t_pure; intros ->.
  cbv beta zeta. norm_b.
  change octets_in_rtcp_header_c with 8. change trailer_len with 4.
  destruct (L <? 8) eqn:E0.
  { apply t_bind_exit. intros w Hw. exact (pe_exit _ _ _ _ Hw). }
  apply t_bind_ret. apply Z.ltb_ge in E0.
  pose proof (hdr8_len E0) as LH. pose proof (pay8_len E0) as LP.
  eapply t_bind; [eapply t_lookup_existing; exact Hget|intros r]. apply t_pure; intros ->.
  eapply t_bind; [eapply t_check_direction; exact Hget|intros ?].
  eapply t_bind; [apply t_get_stream_list; apply dir_session_get; exact Hget|intros st]. apply t_pure; intros Est.
  set (ss1 := dir_session ss0 (be32 pkt 4) st0 dir_srtp_sender_c).
  pose proof (dir_stream_cfg st0 dir_srtp_sender_c) as Hcfg. rewrite <- Est in Hcfg.
  assert (Wst : stream_wf st) by exact (stream_wf_cfg _ _ Hcfg Hwf).
  rewrite keys_by_index_eq. destruct (sender_key_st st i) as [[ki k]|e] eqn:EK.
  2:{ apply t_bind_exit. intros w Hw. exact (pe_exit _ _ _ _ Hw). }
  apply t_bind_ret. cbv beta iota.
  pose proof (sender_key_st_In _ _ _ _ EK) as Hk.
  pose proof (stream_wf_key _ _ Wst Hk) as (MK & _ & TA).
  destruct Wst as (M & U & _). rewrite max_mki_value in M.
  pose proof TA as [T _]. rewrite max_tag_value in T.
  set (tl := ak_tag (k_rtcp_a k)) in *. set (msz := s_mki_size st) in *.
  destruct (C <? L + 4 + msz + tl) eqn:E1.
  { apply t_bind_exit. intros w Hw. exact (pe_exit _ _ _ _ Hw). }
  apply t_bind_ret. apply Z.ltb_ge in E1.
  (* header *)
  eapply t_bind; [eapply t_weaken; [intros dd _ Hdd; apply DP_init; symmetry; exact Hdd|apply header_stepP; lia]|intros ?].
  (* MKI *)
  set (mki := if s_use_mki st then k_mki k else []).
  assert (LM : lenZ mki = msz).
  { subst mki. destruct (s_use_mki st); [exact MK|]. rewrite (U eq_refl). reflexivity. }
  apply t_bind with (R := fun _ => S ss1 (DP [(L + tl + 4, mki); (0, take 8 pkt)])).
  { subst mki. destruct (s_use_mki st) eqn:EU.
    - apply t_wr_DP; [lia|intros; lia|lia|away_tac].
    - apply t_ret. intros w Hw. eapply St_weaken; [|exact Hw]. intros dd _ [Ha Hf].
      split; [exact Ha|]. apply facts_nil_fact; [lia|exact Hf]. }
  intros ?.
  (* index *)
  unfold rdb_incr. destruct (rtcp_ceiling_c <=? wstart (s_rdb st)) eqn:ER; cbv beta iota.
  { rewrite check_st_key_expired. apply t_bind_exit. intros w Hw. exact (pe_exit _ _ _ _ Hw). }
  rewrite check_st_ok. apply t_bind_ret.
  set (seq := u32 (wstart (s_rdb st) + 1)) in *.
  set (rb := {| wstart := seq; bitmask := bitmask (s_rdb st) |}) in *.
  change (wstart rb) with seq.
  eapply t_bind; [apply t_put_stream_list|intros ?].
  set (ss2 := sess_put ss1 (be32 pkt 4) (set_rdb st rb)) in *.
  change (negb (Z.land (s_rtcp_serv st) sec_serv_conf_c =? 0)) with (rtcp_conf st).
  change (be_bytes 4 (Z.to_N ((if rtcp_conf st then SRTCP_E_BIT_c else 0) + seq))) with (rtcp_trailer (rtcp_conf st) seq).
  set (tr := rtcp_trailer (rtcp_conf st) seq) in *.
  assert (LT : lenZ tr = 4) by (subst tr; unfold rtcp_trailer; rewrite lenZ_be_bytes; reflexivity).
  eapply t_bind; [apply t_wr_DP; [lia|intros; lia|lia|away_tac]|intros ?].
  destruct (2147483648 <=? seq) eqn:ES.
  { apply t_bind_exit. intros w Hw. exact (pe_exit _ _ _ _ Hw). }
  apply t_bind_ret.
  set (iv := aead_rtcp_iv (k_csalt k) (be32 pkt 4) seq).
  eapply t_bind; [apply t_log_gcm_iv|intros ?].
  (* the specification *)
  assert (Erdb : s_rdb st = s_rdb st0) by (rewrite Est; apply dir_stream_rdb).
  assert (SPEC : rtcp_aead_wire st0 k (u32 (wstart (s_rdb st0) + 1)) pkt =
                 Some (take 8 pkt ++ rtcp_aead_body k iv pkt tr (rtcp_conf st) ++ tr ++ mki)).
  { assert (Es1 : s_rtcp_serv st = s_rtcp_serv st0) by (rewrite Est; apply dir_stream_serv).
    assert (Es2 : s_use_mki st = s_use_mki st0) by exact (proj1 (proj2 (proj2 Hcfg))).
    rewrite <- (rtcp_aead_wire_cfg st0 st k _ pkt Es1 Es2).
    rewrite <- Erdb. fold seq. unfold rtcp_aead_wire. rewrite ES. reflexivity. }
  assert (SK : sender_key st0 i = Some k).
  { exact (cfg_sender_key _ _ _ _ Hcfg (sender_key_st_nth _ _ _ _ EK)). }
  assert (SS : ss2 = tx_session (u32 (wstart (s_rdb st0) + 1))).
  { subst ss2 rb seq. unfold tx_session. fold ss1. rewrite <- Est, Erdb. reflexivity. }
  assert (CE : wstart (s_rdb st0) < rtcp_ceiling_c) by (rewrite <- Erdb; apply Z.leb_gt; exact ER).
  pose proof (rtcp_aead_body_len k iv pkt tr (rtcp_conf st) T ltac:(lia)) as LB.
  unfold rtcp_aead_body in SPEC, LB. cbv zeta in SPEC, LB. fold tl in SPEC, LB. rewrite HLp in LB.
  destruct (rtcp_conf st) eqn:ECF.
  - (* E = 1 *)
    apply t_assoc. eapply t_bind; [apply t_rd_srcP; lia|intros aad]. apply t_pure; intros ->.
    apply t_assoc. eapply t_bind; [apply t_rd_srcP; lia|intros d]. apply t_pure; intros ->.
    rewrite (pkt_pay8 E0). change (slice (zn 0) (zn 8) pkt) with (take 8 pkt).
    rewrite gcm_seal_ok by lia.
    remember (gcm_encrypt (ck_rks (k_rtcp_c k)) iv (take 8 pkt ++ tr) (drop 8 pkt) (zn tl)) as ge eqn:EG in *.
    destruct ge as [ct tag]. set (o := ct ++ tag) in *.
    change (negb (st_ok =? st_ok)) with false. cbv iota.
    eapply t_bind; [apply t_DP_facts; apply t_wr_facts; [exact HD|lia|lia|away_tac]|intros ?].
    apply t_ret. intros w Hw. destruct Hw as (h0 & h1 & h2 & h3 & h4 & h5 & h6 & h7).
    exists k, (take 8 pkt ++ o ++ tr ++ mki). split; [exact SK|]. split; [exact SPEC|].
    assert (LW : lenZ (take 8 pkt ++ o ++ tr ++ mki) = L + tl + 4 + msz).
    { unfold lenZ in *. rewrite !app_length. lia. }
    split; [rewrite LW, u64_small by lia; lia|].
    split; [|rewrite h0; auto 6].
    rewrite u64_small by lia.
    replace (8 + (L - 8) + tl + 4 + msz) with (lenZ (take 8 pkt ++ o ++ tr ++ mki)) by lia.
    rewrite zn_len, <- slice_0.
    replace (take 8 pkt ++ o ++ tr ++ mki) with (concat [take 8 pkt; o; tr; mki])
      by (cbn [concat]; rewrite app_nil_r; reflexivity).
    apply (chain_slice _ 0); [lia|].
    cbn [chain]. rewrite LH, LB, LT.
    replace (0 + 8 + (L - 8 + tl)) with (L + tl) by lia.
    split; [|split; [|split; [|split; [|exact I]]]]; apply (fact_get _ _ _ _ h7); in_tac.
  - (* E = 0 *)
    apply t_assoc. eapply t_bind; [apply t_rd_srcP; lia|intros aad]. apply t_pure; intros ->.
    rewrite pkt_all.
    apply t_assoc. apply t_bind with (R := fun _ => S ss2 (facts_ok [(8, drop 8 pkt); (L + tl, tr); (L + tl + 4, mki); (0, take 8 pkt)])).
    { apply t_if_al; intros EA.
      - apply t_ret. intros w Hw. eapply St_weaken; [|exact Hw]. intros dd _ Hdd.
        constructor; [|exact (DP_facts _ _ Hdd)]. split; [cbn [fst]; lia|]. cbn [fst snd].
        replace (length (drop 8 pkt)) with (zn (L - 8)) by (unfold lenZ, zn in *; lia).
        rewrite (DP_alias_slice _ dd 8 (L - 8) Hdd EA) by lia. apply pkt_pay8. exact E0.
      - eapply t_bind; [apply t_rd_srcP; lia|intros d]. apply t_pure; intros ->.
        rewrite (pkt_pay8 E0).
        apply t_DP_facts. apply t_wr_facts; [exact HD|lia|lia|away_tac]. }
    intros ?.
    rewrite gcm_seal_ok by (change (lenZ (@nil N)) with 0; lia).
    remember (gcm_encrypt (ck_rks (k_rtcp_c k)) iv (pkt ++ tr) [] (zn tl)) as ge eqn:EG in *.
    destruct ge as [ct tag]. set (o := ct ++ tag) in *.
    change (negb (st_ok =? st_ok)) with false. cbv iota.
    assert (LO : lenZ o = tl).
    { unfold lenZ in *. rewrite app_length in LB. lia. }
    assert (SPEC' : rtcp_aead_wire st0 k (u32 (wstart (s_rdb st0) + 1)) pkt = Some (take 8 pkt ++ (drop 8 pkt ++ o) ++ tr ++ mki)).
    { exact SPEC. }
    eapply t_bind; [apply t_wr_facts; [exact HD|lia|lia|away_tac]|intros ?].
    apply t_ret. intros w Hw. destruct Hw as (h0 & h1 & h2 & h3 & h4 & h5 & h6 & h7).
    exists k, (take 8 pkt ++ (drop 8 pkt ++ o) ++ tr ++ mki). split; [exact SK|]. split; [exact SPEC'|].
    assert (LW : lenZ (take 8 pkt ++ (drop 8 pkt ++ o) ++ tr ++ mki) = L + tl + 4 + msz).
    { unfold lenZ in *. rewrite !app_length. lia. }
    split; [rewrite LW, u64_small by lia; lia|].
    split; [|rewrite h0; auto 6].
    rewrite u64_small by lia.
    replace (8 + (L - 8) + tl + 4 + msz) with (lenZ (take 8 pkt ++ (drop 8 pkt ++ o) ++ tr ++ mki)) by lia.
    rewrite zn_len, <- slice_0.
    replace (take 8 pkt ++ (drop 8 pkt ++ o) ++ tr ++ mki) with (concat [take 8 pkt; drop 8 pkt; o; tr; mki])
      by (cbn [concat]; rewrite app_nil_r, <- !app_assoc; reflexivity).
    apply (chain_slice _ 0); [lia|].
    cbn [chain]. rewrite LH, LP, LO, LT.
    replace (0 + 8 + (L - 8)) with L by lia.
    replace (8 + (L - 8)) with L in h7 by lia.
    split; [|split; [|split; [|split; [|split; [|exact I]]]]]; apply (fact_get _ _ _ _ h7); in_tac.
Qed.

(* ===================================================================== *)
(* 3. srtp_unprotect_rtcp with a GCM key refines unprotect_rtcp_aead_fun  *)
(* ===================================================================== *)
Definition AUQ (l : Z) (w : world) : Prop :=
  exists out, unprotect_rtcp_aead_fun ss0 C pkt = (w_s w, inl out) /\ l = lenZ out /\
              take (zn l) (b_dst (w_b w)) = out /\ b_src (w_b w) = src /\ b_oob (w_b w) = false.
Definition AUE (s : Z) (w : world) : Prop :=
  unprotect_rtcp_aead_fun ss0 C pkt = (w_s w, inr s) /\ b_src (w_b w) = src /\ b_oob (w_b w) = false.

Lemma aue_exit D s w : S ss0 D w -> unprotect_rtcp_aead_fun ss0 C pkt = (ss0, inr s) -> AUE s w.
Proof. intros Hw Hs. destruct (St_exit _ _ _ _ _ _ _ _ Hw) as (e1 & e2 & e3). unfold AUE. rewrite e1. auto. Qed.

Lemma take_8_slice n : 8 <= n -> take 8 pkt ++ slice (zn 8) (zn (n - 8)) pkt = take (zn n) pkt.
Proof.
  intros H. replace (zn n) with (8 + zn (n - 8))%nat by (unfold zn; lia). rewrite take_add. reflexivity.
Qed.

Lemma unprotect_rtcp_aead_tri : tri (S ss0 (eq d0)) unprotect_rtcp_aead AUQ AUE.
Proof.
  pose proof (eq_refl (unprotect_rtcp_aead_fun ss0 C pkt)) as SPEC.
  unfold unprotect_rtcp_aead_fun at 2 in SPEC. unfold unprotect_rtcp_aead_pre_fun in SPEC. cbv zeta in SPEC.
  rewrite HLp, Hget in SPEC.
  unfold unprotect_rtcp_aead.
  eapply t_bind; [apply t_get_b0|intros b]. apply t_pure; intros ->.
  cbv beta zeta. norm_b.
  change octets_in_rtcp_header_c with 8. change trailer_len with 4.
  destruct (L <? 8 + 4) eqn:E0.
  { apply t_bind_exit. intros w Hw. exact (aue_exit _ _ _ Hw SPEC). }
  apply t_bind_ret. apply Z.ltb_ge in E0.
  eapply t_bind; [apply t_get_s|intros ss]. apply t_pure; intros ->.
  rewrite Hget. apply t_bind_ret.
  eapply t_bind; [apply t_get_stream_list; exact Hget|intros st]. apply t_pure; intros ->.
  change (match s_keys st0 with
          | k0 :: _ => if is_gcm_alg (ck_alg (k_rtcp_c k0)) then 0 else ak_tag (k_rtcp_a k0)
          | [] => 0 end) with (rtcp_aead_tl0 st0).
  assert (T0 : 0 <= rtcp_aead_tl0 st0).
  { unfold rtcp_aead_tl0. destruct (s_keys st0) as [|k0 t] eqn:EK0; [lia|].
    destruct (is_gcm_alg _); [lia|].
    assert (I0 : In k0 (s_keys st0)) by (rewrite EK0; left; reflexivity).
    destruct (stream_wf_key _ _ Hwf I0) as (_ & _ & [T _]). lia. }
  eapply t_bind2; [apply (t_keys_by_packet L C al src d0 pkt Hpkt ss0 st0 (rtcp_aead_tl0 st0) Hwf T0)| |intros [ki k]].
  { intros s w [EK Hw]. rewrite EK in SPEC. exact (aue_exit _ _ _ Hw SPEC). }
  apply t_pure; intros EK. rewrite EK in SPEC. cbv beta iota in SPEC.
  assert (Hk : In k (s_keys st0)).
  { revert EK. unfold receiver_key_st. destruct (negb (s_use_mki st0)).
    - destruct (s_keys st0) as [|k1 t]; [discriminate|]. intros H; injection H as _ <-. left; reflexivity.
    - destruct (L <? rtcp_aead_tl0 st0); [discriminate|]. destruct (L - rtcp_aead_tl0 st0 <? s_mki_size st0); [discriminate|].
      destruct (find_mki (s_keys st0) _ 0) as [r|] eqn:F; [|discriminate]. intros H; injection H as ->.
      exact (find_mki_In _ _ _ _ F). }
  pose proof (stream_wf_key _ _ Hwf Hk) as (MK & _ & TA).
  pose proof Hwf as (M & U & _). rewrite max_mki_value in M.
  pose proof TA as [T _]. rewrite max_tag_value in T.
  set (tl := ak_tag (k_rtcp_a k)) in *. set (msz := s_mki_size st0) in *.
  destruct (L <? 8 + 4 + msz + tl) eqn:E1.
  { apply t_bind_exit. intros w Hw. exact (aue_exit _ _ _ Hw SPEC). }
  apply t_bind_ret. apply Z.ltb_ge in E1.
  eapply t_bind; [apply (t_rd_src0 L C al src d0 pkt Hpkt); lia|intros tr]. apply t_pure; intros ->.
  set (tr := slice (zn (L - 4 - msz)) (zn 4) pkt) in *.
  change (Z.land (be32 tr 0) SRTCP_INDEX_MASK_c) with (rtcp_rx_index tr).
  change (negb (N.land (nthb tr 0) (Z.to_N SRTCP_E_BYTE_BIT_c) =? 0)%N) with (rtcp_rx_ebit tr).
  set (seq := rtcp_rx_index tr) in *.
  unfold check_st.
  destruct (rdb_check (s_rdb st0) seq =? st_ok) eqn:ER.
  2:{ apply t_bind_exit. intros w Hw. exact (aue_exit _ _ _ Hw SPEC). }
  apply t_bind_ret.
  destruct (C <? u64 (L - 4 - msz - tl)) eqn:E2.
  { apply t_bind_exit. intros w Hw. exact (aue_exit _ _ _ Hw SPEC). }
  apply t_bind_ret. apply Z.ltb_ge in E2. rewrite u64_small in E2 by lia.
  assert (LTR : lenZ tr = 4) by (subst tr; apply lenZ_slice_eq; lia).
  pose proof (hdr8_len ltac:(lia)) as LH.
  set (iv := aead_rtcp_iv (k_csalt k) (be32 pkt 4) seq) in *.
  unfold rtcp_aead_rx_parts in SPEC. cbv zeta in SPEC. rewrite HLp in SPEC.
  fold tl in SPEC. fold msz in SPEC. fold seq in SPEC. fold iv in SPEC.
  set (n := L - tl - 4 - msz) in *.
  (* header *)
  eapply t_bind; [eapply t_weaken; [intros dd _ Hdd; apply DP_init; symmetry; exact Hdd|apply header_stepP; lia]|intros ?].
  destruct (rtcp_rx_ebit tr) eqn:EE.
  - (* E = 1: decrypt *)
    apply t_assoc. eapply t_bind; [apply t_rd_srcP; lia|intros aad]. apply t_pure; intros ->.
    apply t_assoc. eapply t_bind; [apply t_rd_srcP; lia|intros d]. apply t_pure; intros ->.
    change (slice (zn 0) (zn 8) pkt) with (take 8 pkt).
    set (el := L - (8 + 4 + msz)) in *.
    rewrite (gcm_open_eq _ tl iv _ _ el el) by (try apply lenZ_slice_eq; lia).
    rewrite take_slice by (unfold zn; lia). rewrite drop_slice.
    replace (el - tl) with (n - 8) by (subst el n; lia).
    replace (zn 8 + zn (n - 8))%nat with (zn n) by (subst n; unfold zn; lia).
    replace (zn el - zn (n - 8))%nat with (zn tl) by (subst el n; unfold zn; lia).
    revert SPEC.
    destruct (gcm_decrypt (ck_rks (k_rtcp_c k)) iv (take 8 pkt ++ tr) (slice (zn 8) (zn (n - 8)) pkt) (slice (zn n) (zn tl) pkt))
      as [pt|] eqn:EG; intros SPEC.
    2:{ change (negb (st_auth_fail =? st_ok)) with true. cbv iota.
        apply t_bind_exit. intros w Hw. destruct (St_exit _ _ _ _ _ _ _ _ Hw) as (e1 & e2 & e3).
        unfold AUE. rewrite e1. auto. }
    change (negb (st_ok =? st_ok)) with false. cbv iota.
    assert (LPT : lenZ pt = n - 8).
    { pose proof (gcm_decrypt_length _ _ _ _ _ _ EG) as H. unfold lenZ. rewrite H.
      apply lenZ_slice_eq; subst n; lia. }
    eapply t_bind; [apply t_DP_facts; apply t_wr_facts; [exact HD|lia|subst n; lia|away_tac]|intros ?].
    eapply t_bind; [eapply t_check_direction; exact Hget|intros ?].
    unfold materialize. apply t_bind_ret.
    eapply t_bind; [apply t_get_stream_list; apply dir_session_get; exact Hget|intros st2]. apply t_pure; intros ->.
    eapply t_bind; [apply t_put_stream_list|intros ?].
    apply t_ret. intros w (h0 & h1 & h2 & h3 & h4 & h5 & h6 & h7).
    exists (take 8 pkt ++ pt). rewrite h0. split; [exact SPEC|].
    assert (LW : lenZ (take 8 pkt ++ pt) = n) by (unfold lenZ in *; rewrite app_length; lia).
    replace (L - (tl + 4 + msz)) with n by (subst n; lia).
    rewrite u64_small by (subst n; lia). split; [lia|]. split; [|auto].
    rewrite <- LW, zn_len, <- slice_0.
    replace (take 8 pkt ++ pt) with (concat [take 8 pkt; pt]) by (cbn [concat]; rewrite app_nil_r; reflexivity).
    apply (chain_slice _ 0); [lia|]. cbn [chain]. rewrite LH.
    split; [|split; [|exact I]]; apply (fact_get _ _ _ _ h7); in_tac.
  - (* E = 0: verify only *)
    apply t_assoc. eapply t_bind; [apply t_rd_srcP; subst n; lia|intros aad]. apply t_pure; intros ->.
    replace (L - tl - 4 - msz) with n by reflexivity.
    change (zn 0) with O. rewrite slice_0.
    set (el := L - (8 + 4 + msz)) in *.
    apply t_assoc.
    apply t_bind with (R := fun _ => S ss0 (DP [(8, slice (zn 8) (zn (n - 8)) pkt); (0, take 8 pkt)])).
    { replace (el - tl) with (n - 8) by (subst el n; lia).
      apply t_if_al; intros EA.
      - apply t_ret. intros w Hw. eapply St_weaken; [|exact Hw]. intros dd _ Hdd.
        split; [exact (proj1 Hdd)|].
        constructor; [|exact (DP_facts _ _ Hdd)]. split; [cbn [fst]; lia|]. cbn [fst snd].
        replace (length (slice (zn 8) (zn (n - 8)) pkt)) with (zn (n - 8))
          by (pose proof (lenZ_slice_eq 8 (n - 8) pkt) as H; unfold lenZ, zn in *; subst n; lia).
        apply (DP_alias_slice _ dd 8 (n - 8) Hdd EA); subst n; lia.
      - eapply t_bind; [apply t_rd_srcP; subst n; lia|intros d]. apply t_pure; intros ->.
        apply t_wr_DP; [lia|rewrite EA; discriminate| |away_tac].
        rewrite lenZ_slice_eq by (subst n; lia). subst n; lia. }
    intros ?.
    apply t_assoc. eapply t_bind; [apply t_rd_srcP; subst n; lia|intros t]. apply t_pure; intros ->.
    replace (L - tl - msz - 4) with n by (subst n; lia).
    rewrite (gcm_open_eq _ tl iv _ _ 0 tl) by (try apply lenZ_slice_eq; subst n; lia).
    replace (tl - tl) with 0 by lia. change (zn 0) with O. cbn [take drop].
    revert SPEC.
    destruct (gcm_decrypt (ck_rks (k_rtcp_c k)) iv (take (zn n) pkt ++ tr) [] (slice (zn n) (zn tl) pkt))
      as [pt|] eqn:EG; intros SPEC.
    2:{ change (negb (st_auth_fail =? st_ok)) with true. cbv iota.
        apply t_bind_exit. intros w Hw. destruct (St_exit _ _ _ _ _ _ _ _ Hw) as (e1 & e2 & e3).
        unfold AUE. rewrite e1. auto. }
    change (negb (st_ok =? st_ok)) with false. cbv iota. apply t_bind_ret.
    eapply t_bind; [eapply t_check_direction; exact Hget|intros ?].
    unfold materialize. apply t_bind_ret.
    eapply t_bind; [apply t_get_stream_list; apply dir_session_get; exact Hget|intros st2]. apply t_pure; intros ->.
    eapply t_bind; [apply t_put_stream_list|intros ?].
    apply t_ret. intros w (h0 & h1 & h2 & h3 & h4 & h5 & h6 & [_ h7]).
    exists (take (zn n) pkt). rewrite h0. split; [exact SPEC|].
    assert (LW : lenZ (take (zn n) pkt) = n) by (unfold lenZ, zn in *; rewrite take_length; subst n; lia).
    replace (L - (tl + 4 + msz)) with n by (subst n; lia).
    rewrite u64_small by (subst n; lia). split; [lia|]. split; [|auto].
    rewrite <- LW at 1. rewrite zn_len, <- slice_0.
    rewrite <- (take_8_slice n) by (subst n; lia).
    assert (LS : lenZ (slice (zn 8) (zn (n - 8)) pkt) = n - 8) by (apply lenZ_slice_eq; subst n; lia).
    replace (take 8 pkt ++ slice (zn 8) (zn (n - 8)) pkt) with (concat [take 8 pkt; slice (zn 8) (zn (n - 8)) pkt])
      by (cbn [concat]; rewrite app_nil_r; reflexivity).
    apply (chain_slice _ 0); [lia|]. cbn [chain]. rewrite LH.
    split; [|split; [|exact I]]; apply (fact_get _ _ _ _ h7); in_tac.
Qed.
End AEAD_RTCP.

(* ===================================================================== *)
(* 4. the theorems, for worlds                                            *)
(* ===================================================================== *)
(* WIRE IMAGE: if srtp_protect_rtcp (GCM key) succeeds, the first l octets of the destination are
   rtcp_aead_wire of the stream, of the key selected by the MKI index, of the incremented SRTCP
   index and of the packet — in place or out of place, whatever the destination held before *)
Theorem protect_rtcp_aead_wire w i st w' l :
  rtcp_world_ok w -> list_get (ss_list (w_s w)) (be32 (in_pkt w) 4) = Some st ->
  protect_rtcp_aead i w = (w', inl l) ->
  exists k wire,
    sender_key st i = Some k /\
    rtcp_aead_wire st k (u32 (wstart (s_rdb st) + 1)) (in_pkt w) = Some wire /\
    l = lenZ wire /\ take (zn l) (b_dst (w_b w')) = wire /\
    w_s w' = tx_session (in_pkt w) (w_s w) st (u32 (wstart (s_rdb st) + 1)) /\
    wstart (s_rdb st) < rtcp_ceiling_c /\
    b_src (w_b w') = b_src (w_b w) /\ b_oob (w_b w') = false.
Proof.
  intros OK Hg E. pose proof (in_pkt_len w OK) as HLp.
  destruct OK as ((_ & WL) & HO & HL & HC & HD & HS).
  pose proof (list_get_SP _ _ _ _ WL Hg) as Wst.
  pose proof (protect_rtcp_aead_tri _ _ (b_alias (w_b w)) (b_src (w_b w)) _ (in_pkt w) HL HC HD eq_refl HLp
                (w_s w) st Hg Wst i w (St_init w HO)) as T.
  rewrite E in T. exact T.
Qed.
Print Assumptions protect_rtcp_aead_wire.

(* the same with the index written wstart + 1 (window start not negative: a uint32_t in C) *)
Corollary protect_rtcp_aead_wire_succ w i st w' l :
  rtcp_world_ok w -> list_get (ss_list (w_s w)) (be32 (in_pkt w) 4) = Some st ->
  0 <= wstart (s_rdb st) ->
  protect_rtcp_aead i w = (w', inl l) ->
  exists k wire,
    sender_key st i = Some k /\
    rtcp_aead_wire st k (wstart (s_rdb st) + 1) (in_pkt w) = Some wire /\
    l = lenZ wire /\ take (zn l) (b_dst (w_b w')) = wire.
Proof.
  intros OK Hg H0 E. destruct (protect_rtcp_aead_wire w i st w' l OK Hg E) as (k & wire & A & B & Cc & Dd & _ & K3 & _).
  exists k, wire. change rtcp_ceiling_c with 2147483647 in K3.
  unfold u32 in B. rewrite Z.mod_small in B by lia. auto.
Qed.
Print Assumptions protect_rtcp_aead_wire_succ.

(* REFINEMENT, srtp_unprotect_rtcp with a GCM key, both alias modes, any destination prefill *)
Theorem unprotect_rtcp_aead_refines w st w' r :
  rtcp_world_ok w -> list_get (ss_list (w_s w)) (be32 (in_pkt w) 4) = Some st ->
  unprotect_rtcp_aead w = (w', r) ->
  b_src (w_b w') = b_src (w_b w) /\ b_oob (w_b w') = false /\
  match r with
  | inl l => exists out,
      unprotect_rtcp_aead_fun (w_s w) (b_cap (w_b w)) (in_pkt w) = (w_s w', inl out) /\
      l = lenZ out /\ take (zn l) (b_dst (w_b w')) = out
  | inr s => unprotect_rtcp_aead_fun (w_s w) (b_cap (w_b w)) (in_pkt w) = (w_s w', inr s)
  end.
Proof.
  intros OK Hg E. pose proof (in_pkt_len w OK) as HLp.
  destruct OK as ((_ & WL) & HO & HL & HC & HD & HS).
  pose proof (list_get_SP _ _ _ _ WL Hg) as Wst.
  pose proof (unprotect_rtcp_aead_tri _ _ (b_alias (w_b w)) (b_src (w_b w)) _ (in_pkt w) HL HD eq_refl HLp
                (w_s w) st Hg Wst w (St_init w HO)) as T.
  rewrite E in T. destruct r as [l|s].
  - destruct T as (out & A & B & Cc & Dd & Ee). split; [exact Dd|]. split; [exact Ee|]. exists out. auto.
  - destruct T as (A & Dd & Ee). auto.
Qed.
Print Assumptions unprotect_rtcp_aead_refines.

(* C12 for the GCM receiver: alias mode and destination prefill do not matter *)
Theorem unprotect_rtcp_aead_alias_independent w1 w2 st w1' w2' r1 r2 :
  rtcp_world_ok w1 -> rtcp_world_ok w2 ->
  w_s w1 = w_s w2 -> b_cap (w_b w1) = b_cap (w_b w2) -> in_pkt w1 = in_pkt w2 ->
  list_get (ss_list (w_s w1)) (be32 (in_pkt w1) 4) = Some st ->
  unprotect_rtcp_aead w1 = (w1', r1) -> unprotect_rtcp_aead w2 = (w2', r2) ->
  w_s w1' = w_s w2' /\
  match r1, r2 with
  | inl l1, inl l2 => l1 = l2 /\ take (zn l1) (b_dst (w_b w1')) = take (zn l2) (b_dst (w_b w2'))
  | inr s1, inr s2 => s1 = s2
  | _, _ => False
  end.
Proof.
  intros OK1 OK2 ES EC EP Hg E1 E2.
  destruct (unprotect_rtcp_aead_refines w1 st w1' r1 OK1 Hg E1) as (S1 & _ & R1).
  assert (Hg2 : list_get (ss_list (w_s w2)) (be32 (in_pkt w2) 4) = Some st) by (rewrite <- ES, <- EP; exact Hg).
  destruct (unprotect_rtcp_aead_refines w2 st w2' r2 OK2 Hg2 E2) as (S2 & _ & R2).
  rewrite <- ES, <- EC, <- EP in R2.
  destruct r1 as [l1|s1], r2 as [l2|s2].
  - destruct R1 as (x1 & A1 & B1 & C1), R2 as (x2 & A2 & B2 & C2). rewrite A1 in A2. injection A2 as Ea Eb.
    subst x2. repeat split; try assumption; congruence.
  - destruct R1 as (x1 & A1 & _). rewrite A1 in R2. discriminate R2.
  - destruct R2 as (x2 & A2 & _). rewrite A2 in R1. discriminate R1.
  - rewrite R1 in R2. injection R2 as Ea Eb. repeat split; assumption.
Qed.
Print Assumptions unprotect_rtcp_aead_alias_independent.

(* ===================================================================== *)
(* 5. C04: what acceptance means                                          *)
(* ===================================================================== *)
(* the receiver's AAD, ciphertext, tag, trailer and MKI are a partition of the packet: every
   octet in front of the ciphertext (E = 1: the 8-octet header; E = 0: the whole RTCP packet)
   and the trailer are in the AAD *)
Lemma rtcp_aead_rx_parts_cover pkt tr tl msz :
  0 <= tl -> 0 <= msz -> 8 + tl + 4 + msz <= lenZ pkt ->
  tr = slice (zn (lenZ pkt - 4 - msz)) (zn 4) pkt ->
  let '(aad, ct, tag) := rtcp_aead_rx_parts pkt tr tl msz in
  exists h mki,
    aad = h ++ tr /\ pkt = h ++ ct ++ tag ++ tr ++ mki /\
    lenZ tag = tl /\ lenZ mki = msz /\
    (if rtcp_rx_ebit tr then h = take 8 pkt else ct = []).
Proof.
  intros Ht Hm HL Etr. unfold rtcp_aead_rx_parts. cbv zeta.
  set (n := lenZ pkt - tl - 4 - msz).
  assert (P1 : pkt = take (zn n) pkt ++ slice (zn n) (zn tl) pkt ++ tr ++ drop (zn (lenZ pkt - msz)) pkt).
  { rewrite Etr. rewrite <- (take_drop_id (zn n) pkt) at 1. f_equal.
    replace (drop (zn n) pkt) with (slice (zn n) (zn (lenZ pkt - n)) pkt)
      by (apply slice_to_end; unfold lenZ, zn in *; lia).
    replace (zn (lenZ pkt - n)) with (zn tl + (zn 4 + zn msz))%nat by (subst n; unfold zn; lia).
    rewrite !slice_add. f_equal.
    replace (zn n + zn tl)%nat with (zn (lenZ pkt - 4 - msz)) by (subst n; unfold zn; lia). f_equal.
    replace (zn (lenZ pkt - 4 - msz) + zn 4)%nat with (zn (lenZ pkt - msz)) by (unfold zn; lia).
    apply slice_to_end. unfold lenZ, zn in *. lia. }
  assert (LTG : lenZ (slice (zn n) (zn tl) pkt) = tl) by (apply lenZ_slice_eq; subst n; lia).
  assert (LMK : lenZ (drop (zn (lenZ pkt - msz)) pkt) = msz) by (unfold lenZ, zn in *; rewrite drop_length; lia).
  destruct (rtcp_rx_ebit tr).
  - exists (take 8 pkt), (drop (zn (lenZ pkt - msz)) pkt). split; [reflexivity|]. split; [|auto].
    rewrite app_assoc.
    assert (T8 : take 8 pkt ++ slice (zn 8) (zn (n - 8)) pkt = take (zn n) pkt).
    { replace (zn n) with (8 + zn (n - 8))%nat by (subst n; unfold zn; lia). rewrite take_add. reflexivity. }
    rewrite T8. exact P1.
  - exists (take (zn n) pkt), (drop (zn (lenZ pkt - msz)) pkt). split; [reflexivity|]. split; [exact P1|auto].
Qed.

(* ACCEPTANCE: once the checks that precede the AEAD operation have passed (length, stream, key
   by MKI, replay window, *out_len), srtp_unprotect_rtcp with a GCM key returns ok exactly when
   gcm_decrypt of (the key's round keys, the IV formed from the SRTCP salt, the SSRC and the
   index read from the trailer, the AAD, the ciphertext, the tag) authenticates; otherwise it
   returns auth_fail and leaves the session unchanged *)
Theorem unprotect_rtcp_aead_accept_iff w st k tr w' r :
  rtcp_world_ok w -> list_get (ss_list (w_s w)) (be32 (in_pkt w) 4) = Some st ->
  unprotect_rtcp_aead_pre_fun (w_s w) (b_cap (w_b w)) (in_pkt w) = inl (st, k, tr) ->
  unprotect_rtcp_aead w = (w', r) ->
  let pkt := in_pkt w in
  let '(aad, ct, tag) := rtcp_aead_rx_parts pkt tr (ak_tag (k_rtcp_a k)) (s_mki_size st) in
  let dec := gcm_decrypt (ck_rks (k_rtcp_c k)) (aead_rtcp_iv (k_csalt k) (be32 pkt 4) (rtcp_rx_index tr)) aad ct tag in
  ((exists l, r = inl l) <-> (exists pt, dec = Some pt)) /\
  (r = inr st_auth_fail <-> dec = None) /\
  (dec = None -> w_s w' = w_s w) /\
  (forall pt, dec = Some pt -> w_s w' = rx_session (w_s w) (be32 pkt 4) st (rtcp_rx_index tr)).
Proof.
  intros OK Hg HP E. cbv zeta.
  destruct (unprotect_rtcp_aead_refines w st w' r OK Hg E) as (_ & _ & R).
  unfold unprotect_rtcp_aead_fun in R. rewrite HP in R. cbv zeta in R.
  destruct (rtcp_aead_rx_parts (in_pkt w) tr (ak_tag (k_rtcp_a k)) (s_mki_size st)) as [[aad ct] tag].
  destruct (gcm_decrypt (ck_rks (k_rtcp_c k)) (aead_rtcp_iv (k_csalt k) (be32 (in_pkt w) 4) (rtcp_rx_index tr)) aad ct tag)
    as [pt|] eqn:EG.
  - destruct r as [l|s].
    + destruct R as (out & A & _). injection A as A1 A2.
      split; [split; intros _; eauto|]. split; [split; intros H; discriminate H|].
      split; [intros H; discriminate H|]. intros _ _. symmetry; exact A1.
    + discriminate R.
  - destruct r as [l|s].
    + destruct R as (out & A & _). discriminate A.
    + injection R as A1 A2. subst s.
      split; [split; intros [x H]; discriminate H|]. split; [split; reflexivity|].
      split; [intros _; symmetry; exact A1|]. intros pt H; discriminate H.
Qed.
Print Assumptions unprotect_rtcp_aead_accept_iff.

(* and when one of the preceding checks fails, that status is returned and nothing is changed *)
Theorem unprotect_rtcp_aead_pre_reject w st e w' r :
  rtcp_world_ok w -> list_get (ss_list (w_s w)) (be32 (in_pkt w) 4) = Some st ->
  unprotect_rtcp_aead_pre_fun (w_s w) (b_cap (w_b w)) (in_pkt w) = inr e ->
  unprotect_rtcp_aead w = (w', r) ->
  r = inr e /\ w_s w' = w_s w.
Proof.
  intros OK Hg HP E.
  destruct (unprotect_rtcp_aead_refines w st w' r OK Hg E) as (_ & _ & R).
  unfold unprotect_rtcp_aead_fun in R. rewrite HP in R.
  destruct r as [l|s].
  - destruct R as (out & A & _). discriminate A.
  - injection R as A1 A2. subst s. auto.
Qed.
Print Assumptions unprotect_rtcp_aead_pre_reject.

(* ===================================================================== *)
(* 6. C02: the round trip                                                 *)
(* ===================================================================== *)
(* slices of  hdr ++ x ++ tg ++ tr ++ mki *)
Section WIRE2.
Variables (hdr x tg tr mki : bytes) (L msz tl : Z).
Hypothesis LH : lenZ hdr = 8.
Hypothesis LX : lenZ x = L - 8.
Hypothesis LG : lenZ tg = tl.
Hypothesis LT : lenZ tr = 4.
Hypothesis LM : lenZ mki = msz.
Let W : bytes := hdr ++ x ++ tg ++ tr ++ mki.
Let LW : Z := L + tl + 4 + msz.

Lemma W2_len : lenZ W = LW.
Proof. subst W LW. unfold lenZ in *. rewrite !app_length. lia. Qed.
Lemma W2_hdr : take 8 W = hdr.
Proof. subst W. replace 8%nat with (length hdr) by (unfold lenZ in LH; lia). apply take_app_exact. Qed.
Lemma W2_be32 : be32 W 4 = be32 hdr 4.
Proof. unfold be32. subst W. rewrite slice_app_l; [reflexivity|]. unfold lenZ in LH. lia. Qed.
Lemma W2_x : slice (zn 8) (zn (L - 8)) W = x.
Proof. subst W. apply slice_mid; unfold lenZ, zn in *; lia. Qed.
Lemma W2_takeL : take (zn L) W = hdr ++ x.
Proof.
  subst W. rewrite (app_assoc hdr x). replace (zn L) with (length (hdr ++ x)).
  - apply take_app_exact.
  - rewrite app_length. unfold lenZ, zn in *. lia.
Qed.
Lemma W2_tag : slice (zn L) (zn tl) W = tg.
Proof.
  subst W. rewrite (app_assoc hdr x). apply slice_mid; unfold lenZ, zn in *; rewrite ?app_length; lia.
Qed.
Lemma W2_tr : slice (zn (LW - 4 - msz)) (zn 4) W = tr.
Proof.
  subst W LW. rewrite (app_assoc hdr x), (app_assoc (hdr ++ x) tg).
  apply slice_mid; unfold lenZ, zn in *; rewrite ?app_length; lia.
Qed.
Lemma W2_mki : slice (zn (LW - 0 - msz)) (zn msz) W = mki.
Proof.
  subst W LW. rewrite (app_assoc hdr x), (app_assoc (hdr ++ x) tg), (app_assoc ((hdr ++ x) ++ tg) tr).
  rewrite <- (app_nil_r mki) at 1.
  apply slice_mid; unfold lenZ, zn in *; rewrite ?app_length; lia.
Qed.
End WIRE2.

Section AEAD_ROUNDTRIP.
Variables (st rt : stream) (k : skeys) (i seq : Z) (pkt wire : bytes) (rs : session) (C : Z).
(* sender *)
Hypothesis HW : rtcp_aead_wire st k seq pkt = Some wire.
Hypothesis H8 : 8 <= lenZ pkt.
Hypothesis Hmax : lenZ pkt < 9223372036854775808.
Hypothesis Hseq : 0 <= seq.
Hypothesis Wst : stream_wf st.
Hypothesis Hsk : sender_key st i = Some k.
(* the receiver locates the MKI with the tag length 0 when the RTCP cipher of the stream's first
   key is GCM (as srtp.c does); no condition on the service flags: the receiver follows the E bit *)
Hypothesis Htl : s_use_mki st = true -> rtcp_aead_tl0 st = 0.
(* MKI ids of distinct keys are distinct *)
Hypothesis Hnd : s_use_mki st = true -> NoDup (map k_mki (s_keys st)).
(* receiver: same keys and same MKI configuration *)
Hypothesis EKs : s_keys rt = s_keys st.
Hypothesis EU : s_use_mki rt = s_use_mki st.
Hypothesis EM : s_mki_size rt = s_mki_size st.
Hypothesis Hg : list_get (ss_list rs) (be32 pkt 4) = Some rt.
Hypothesis Hrdb : rdb_check (s_rdb rt) seq = st_ok.
Hypothesis HCap : lenZ pkt <= C.

Lemma art_key_in : In k (s_keys st).
Proof. unfold sender_key in Hsk. exact (nth_error_In _ _ Hsk). Qed.

Lemma art_receiver_key W LW :
  s_mki_size st <= LW -> 0 <= LW ->
  slice (zn (LW - 0 - s_mki_size st)) (zn (s_mki_size st)) W = (if s_use_mki st then k_mki k else []) ->
  exists ki, receiver_key_st rt W LW (rtcp_aead_tl0 rt) = inl (ki, k).
Proof.
  intros HM H0 HS. unfold receiver_key_st. rewrite EU, EKs, EM.
  assert (Et : s_use_mki st = true -> rtcp_aead_tl0 rt = 0).
  { intros H. unfold rtcp_aead_tl0 in *. rewrite EKs. exact (Htl H). }
  destruct (s_use_mki st) eqn:EUs; cbn [negb].
  - rewrite (Et eq_refl).
    destruct (LW <? 0) eqn:E1; [apply Z.ltb_lt in E1; lia|].
    destruct (LW - 0 <? s_mki_size st) eqn:E2; [apply Z.ltb_lt in E2; lia|].
    rewrite HS. destruct (find_mki_nodup (s_keys st) k 0 (Hnd eq_refl) art_key_in) as [idx F].
    rewrite F. exists idx. reflexivity.
  - unfold sender_key in Hsk. rewrite EUs in Hsk. change (zn 0) with O in Hsk.
    destruct (s_keys st) as [|k1 t]; [discriminate|]. cbn in Hsk. injection Hsk as ->. exists 0. reflexivity.
Qed.

Theorem rtcp_aead_round_trip_fun :
  unprotect_rtcp_aead_fun rs C wire = (rx_session rs (be32 pkt 4) rt seq, inl pkt).
Proof.
  pose proof HW as HW'. unfold rtcp_aead_wire in HW'. cbv zeta in HW'.
  destruct (2147483648 <=? seq) eqn:ES; [discriminate|]. apply Z.leb_gt in ES.
  apply some_inj in HW'.
  set (L := lenZ pkt) in *. set (msz := s_mki_size st) in *. set (tl := ak_tag (k_rtcp_a k)) in *.
  set (tr := rtcp_trailer (rtcp_conf st) seq) in *.
  set (mki := if s_use_mki st then k_mki k else []) in *.
  set (iv := aead_rtcp_iv (k_csalt k) (be32 pkt 4) seq) in *.
  pose proof (stream_wf_key _ _ Wst art_key_in) as (MK & _ & TA).
  pose proof Wst as (M & U & _). rewrite max_mki_value in M. fold msz in M, MK, U.
  pose proof TA as [T _]. rewrite max_tag_value in T. fold tl in T.
  assert (LH : lenZ (take 8 pkt) = 8) by (unfold lenZ in *; rewrite take_length; lia).
  assert (LT : lenZ tr = 4) by (subst tr; unfold rtcp_trailer; rewrite lenZ_be_bytes; reflexivity).
  assert (LM : lenZ mki = msz).
  { subst mki. destruct (s_use_mki st); [exact MK|]. rewrite (U eq_refl). reflexivity. }
  assert (TE : rtcp_rx_ebit tr = rtcp_conf st) by (subst tr; apply trailer_ebit; lia).
  assert (TI : rtcp_rx_index tr = seq) by (subst tr; apply trailer_index; lia).
  assert (Eb : be32 (take 8 pkt) 4 = be32 pkt 4) by (unfold be32; rewrite slice_take by lia; reflexivity).
  (* the pieces of the wire image: hdr ++ x ++ tg ++ tr ++ mki *)
  assert (PIECES : exists x tg,
            wire = take 8 pkt ++ x ++ tg ++ tr ++ mki /\ lenZ x = L - 8 /\ lenZ tg = tl /\
            gcm_decrypt (ck_rks (k_rtcp_c k)) iv
              (if rtcp_conf st then take 8 pkt ++ tr else (take 8 pkt ++ x) ++ tr)
              (if rtcp_conf st then x else []) tg = Some (if rtcp_conf st then drop 8 pkt else []) /\
            (if rtcp_conf st then True else x = drop 8 pkt)).
  { unfold rtcp_aead_body in HW'. cbv zeta in HW'. fold tl in HW'. destruct (rtcp_conf st).
    - destruct (gcm_encrypt (ck_rks (k_rtcp_c k)) iv (take 8 pkt ++ tr) (drop 8 pkt) (zn tl)) as [ct tag] eqn:EG.
      pose proof (gcm_encrypt_length _ _ _ _ _ _ _ EG) as [L1 L2].
      exists ct, tag. split; [rewrite <- HW', <- !app_assoc; reflexivity|].
      split; [subst L; unfold lenZ in *; rewrite L1, drop_length; lia|].
      split; [unfold lenZ, zn in *; lia|]. split; [exact (gcm_decrypt_encrypt _ _ _ _ _ _ _ EG)|exact I].
    - destruct (gcm_encrypt (ck_rks (k_rtcp_c k)) iv (pkt ++ tr) [] (zn tl)) as [ct tag] eqn:EG.
      pose proof (gcm_encrypt_length _ _ _ _ _ _ _ EG) as [L1 L2].
      assert (ct = []) as -> by (apply length0_nil; exact L1).
      exists (drop 8 pkt), tag. split; [rewrite <- HW', <- !app_assoc; reflexivity|].
      split; [subst L; unfold lenZ in *; rewrite drop_length; lia|].
      split; [unfold lenZ, zn in *; lia|]. rewrite take_drop_id.
      split; [exact (gcm_decrypt_encrypt _ _ _ _ _ _ _ EG)|reflexivity]. }
  destruct PIECES as (x & tg & EWr & LX & LG & DEC & XE).
  unfold unprotect_rtcp_aead_fun, unprotect_rtcp_aead_pre_fun. cbv zeta. rewrite EWr.
  rewrite (W2_len _ x tg tr mki L msz tl LH LX LG LT LM).
  destruct (L + tl + 4 + msz <? 8 + 4) eqn:E0; [apply Z.ltb_lt in E0; lia|].
  rewrite (W2_be32 _ x tg tr mki L msz tl LH), Eb, Hg.
  destruct (art_receiver_key (take 8 pkt ++ x ++ tg ++ tr ++ mki) (L + tl + 4 + msz)) as [ki RK].
  { fold msz. lia. } { lia. }
  { fold msz mki. apply (W2_mki _ x tg tr mki L msz tl LH LX LG LT LM). }
  rewrite RK. cbv beta iota. rewrite EM. fold msz tl.
  destruct (L + tl + 4 + msz <? 8 + 4 + msz + tl) eqn:E1; [apply Z.ltb_lt in E1; lia|].
  rewrite (W2_tr _ x tg tr mki L msz tl LH LX LG LT).
  rewrite TI, Hrdb. change (st_ok =? st_ok) with true. cbv iota.
  replace (L + tl + 4 + msz - 4 - msz - tl) with L by lia.
  rewrite u64_small by (subst L; pose proof (lenZ_nonneg pkt); lia).
  destruct (C <? L) eqn:E2; [apply Z.ltb_lt in E2; lia|].
  unfold rtcp_aead_rx_parts. cbv zeta. rewrite ?EM. fold msz tl.
  rewrite ?(W2_len _ x tg tr mki L msz tl LH LX LG LT LM).
  replace (L + tl + 4 + msz - tl - 4 - msz) with L by lia.
  rewrite (W2_tag _ x tg tr mki L msz tl LH LX LG), (W2_x _ x tg tr mki L msz tl LH LX),
          (W2_takeL _ x tg tr mki L msz tl LH LX), (W2_hdr _ x tg tr mki L msz tl LH).
  rewrite TE, ?TI. fold iv.
  destruct (rtcp_conf st).
  - rewrite DEC. rewrite take_drop_id. reflexivity.
  - rewrite DEC. rewrite XE, take_drop_id. reflexivity.
Qed.
End AEAD_ROUNDTRIP.
Print Assumptions rtcp_aead_round_trip_fun.

(* the wire image: length, SSRC, E flag and index as the receiver reads them *)
Theorem rtcp_aead_wire_shape st k seq pkt wire :
  rtcp_aead_wire st k seq pkt = Some wire -> 8 <= lenZ pkt -> 0 <= seq ->
  0 <= ak_tag (k_rtcp_a k) <= 16 -> lenZ (if s_use_mki st then k_mki k else []) = s_mki_size st ->
  lenZ wire = lenZ pkt + ak_tag (k_rtcp_a k) + 4 + s_mki_size st /\ be32 wire 4 = be32 pkt 4 /\ seq < 2147483648 /\
  let tr := slice (zn (lenZ wire - 4 - s_mki_size st)) (zn 4) wire in
  rtcp_rx_ebit tr = rtcp_conf st /\ rtcp_rx_index tr = seq.
Proof.
  intros HW H8 Hseq T LM. unfold rtcp_aead_wire in HW. cbv zeta in HW.
  destruct (2147483648 <=? seq) eqn:ES; [discriminate|]. apply Z.leb_gt in ES.
  apply some_inj in HW.
  set (tr := rtcp_trailer (rtcp_conf st) seq) in *.
  set (iv := aead_rtcp_iv (k_csalt k) (be32 pkt 4) seq) in *.
  pose proof (rtcp_aead_body_len k iv pkt tr (rtcp_conf st) T H8) as LB.
  set (body := rtcp_aead_body k iv pkt tr (rtcp_conf st)) in *.
  assert (LH : lenZ (take 8 pkt) = 8) by (unfold lenZ in *; rewrite take_length; lia).
  assert (LT : lenZ tr = 4) by (subst tr; unfold rtcp_trailer; rewrite lenZ_be_bytes; reflexivity).
  assert (LW : lenZ wire = lenZ pkt + ak_tag (k_rtcp_a k) + 4 + s_mki_size st).
  { rewrite <- HW. unfold lenZ in *. rewrite !app_length. lia. }
  split; [exact LW|]. split.
  { rewrite <- HW. unfold be32. rewrite slice_app_l by (unfold lenZ in LH; lia). rewrite slice_take by lia. reflexivity. }
  split; [exact ES|]. cbv zeta. rewrite LW.
  assert (ETR : slice (zn (lenZ pkt + ak_tag (k_rtcp_a k) + 4 + s_mki_size st - 4 - s_mki_size st)) (zn 4) wire = tr).
  { rewrite <- HW. rewrite (app_assoc (take 8 pkt) body).
    apply slice_mid; unfold lenZ, zn in *; rewrite ?app_length; lia. }
  rewrite ETR. split; [apply trailer_ebit|apply trailer_index]; lia.
Qed.

(* ROUND TRIP for worlds: the receiver's input block holds `wire`; its session holds, for the
   packet's SSRC, an explicit stream rt with the sender's keys and MKI configuration; *out_len
   is at least the length of the original packet.  In place or out of place, any prefill. *)
Theorem rtcp_aead_round_trip st rt k i seq pkt wire w w' r :
  rtcp_aead_wire st k seq pkt = Some wire ->
  8 <= lenZ pkt -> 0 <= seq ->
  stream_wf st -> sender_key st i = Some k ->
  (s_use_mki st = true -> rtcp_aead_tl0 st = 0) ->
  (s_use_mki st = true -> NoDup (map k_mki (s_keys st))) ->
  s_keys rt = s_keys st -> s_use_mki rt = s_use_mki st -> s_mki_size rt = s_mki_size st ->
  rtcp_world_ok w -> in_pkt w = wire ->
  list_get (ss_list (w_s w)) (be32 pkt 4) = Some rt ->
  rdb_check (s_rdb rt) seq = st_ok ->
  lenZ pkt <= b_cap (w_b w) ->
  unprotect_rtcp_aead w = (w', r) ->
  r = inl (lenZ pkt) /\ take (length pkt) (b_dst (w_b w')) = pkt /\
  w_s w' = rx_session (w_s w) (be32 pkt 4) rt seq /\
  b_oob (w_b w') = false /\ b_src (w_b w') = b_src (w_b w).
Proof.
  intros HW H8 Hseq Wst Hsk Htl Hnd EKs EU EM OK EI Hg Hrdb HCap E.
  pose proof (stream_wf_key _ _ Wst (art_key_in st k i Hsk)) as (MK & _ & [T _]). rewrite max_tag_value in T.
  pose proof Wst as (M & U & _).
  assert (LM : lenZ (if s_use_mki st then k_mki k else []) = s_mki_size st).
  { destruct (s_use_mki st); [exact MK|]. rewrite (U eq_refl). reflexivity. }
  destruct (rtcp_aead_wire_shape st k seq pkt wire HW H8 Hseq T LM) as (LWr & EB & _).
  pose proof (in_pkt_len w OK) as LI. rewrite EI in LI.
  assert (Hmax : lenZ pkt < 9223372036854775808).
  { destruct OK as (_ & _ & [_ HLs] & _). lia. }
  assert (Hg' : list_get (ss_list (w_s w)) (be32 (in_pkt w) 4) = Some rt) by (rewrite EI, EB; exact Hg).
  destruct (unprotect_rtcp_aead_refines w rt w' r OK Hg' E) as (S1 & O1 & R1).
  rewrite EI in R1.
  rewrite (rtcp_aead_round_trip_fun st rt k i seq pkt wire (w_s w) (b_cap (w_b w))
             HW H8 Hmax Hseq Wst Hsk Htl Hnd EKs EU EM Hg Hrdb HCap) in R1.
  destruct r as [l|s].
  - destruct R1 as (out & A & B & Cc). injection A as A1 A2. subst out l.
    rewrite zn_len in Cc. auto.
  - discriminate R1.
Qed.
Print Assumptions rtcp_aead_round_trip.

(* END TO END: a successful srtp_protect_rtcp (GCM) in a sender world ws, whose output octets are
   handed to srtp_unprotect_rtcp (GCM) in a receiver world wr; each call in place or out of place *)
Theorem rtcp_aead_protect_unprotect ws ws' l i st rt wr wr' r :
  rtcp_world_ok ws -> list_get (ss_list (w_s ws)) (be32 (in_pkt ws) 4) = Some st ->
  0 <= wstart (s_rdb st) ->
  protect_rtcp_aead i ws = (ws', inl l) ->
  (s_use_mki st = true -> rtcp_aead_tl0 st = 0) ->
  (s_use_mki st = true -> NoDup (map k_mki (s_keys st))) ->
  s_keys rt = s_keys st -> s_use_mki rt = s_use_mki st -> s_mki_size rt = s_mki_size st ->
  rtcp_world_ok wr -> in_pkt wr = take (zn l) (b_dst (w_b ws')) ->
  list_get (ss_list (w_s wr)) (be32 (in_pkt ws) 4) = Some rt ->
  rdb_check (s_rdb rt) (wstart (s_rdb st) + 1) = st_ok ->
  b_len (w_b ws) <= b_cap (w_b wr) ->
  unprotect_rtcp_aead wr = (wr', r) ->
  r = inl (b_len (w_b ws)) /\
  take (zn (b_len (w_b ws))) (b_dst (w_b wr')) = in_pkt ws /\
  w_s wr' = rx_session (w_s wr) (be32 (in_pkt ws) 4) rt (wstart (s_rdb st) + 1) /\
  b_oob (w_b wr') = false.
Proof.
  intros OKs Hgs Hws EP Htl Hnd EKs EU EM OKr EI Hgr Hrdb HCap EUn.
  pose proof (in_pkt_len ws OKs) as LPs.
  destruct (protect_rtcp_aead_wire_succ ws i st ws' l OKs Hgs Hws EP) as (k & wire & K1 & K2 & K3 & K4).
  assert (H8 : 8 <= lenZ (in_pkt ws)).
  { destruct (Z_lt_le_dec (lenZ (in_pkt ws)) 8) as [Hlt|Hge]; [exfalso|exact Hge].
    unfold protect_rtcp_aead in EP. unfold bind at 1, get_b at 1 in EP. cbv beta zeta in EP.
    fold (in_pkt ws) in EP. rewrite <- LPs in EP.
    change octets_in_rtcp_header_c with 8 in EP.
    destruct (lenZ (in_pkt ws) <? 8) eqn:E8; [|apply Z.ltb_ge in E8; lia].
    unfold bind at 1 in EP. cbn in EP. discriminate EP. }
  destruct OKs as ((_ & WL) & _). pose proof (list_get_SP _ _ _ _ WL Hgs) as Wst.
  rewrite K4 in EI.
  destruct (rtcp_aead_round_trip st rt k i (wstart (s_rdb st) + 1) (in_pkt ws) wire wr wr' r
              K2 H8 ltac:(lia) Wst K1 Htl Hnd EKs EU EM OKr EI Hgr Hrdb ltac:(lia) EUn)
    as (R1 & R2 & R3 & R4 & _).
  rewrite LPs in R1. split; [exact R1|]. split; [|auto].
  replace (zn (b_len (w_b ws))) with (length (in_pkt ws)) by (rewrite <- LPs; symmetry; apply zn_len).
  exact R2.
Qed.
Print Assumptions rtcp_aead_protect_unprotect.

(* ===================================================================== *)
(* 7. non-vacuity: AES-GCM-128, 16-octet tag, MKI in use, two keys; the monadic model is run in
      place and out of place (destination prefilled with 0xEE), E = 1 and E = 0; all by computation *)
(* ===================================================================== *)
Module AeadExample.
Import RtcpRoundTrip.Example.
Definition gkeys (calg : Z) (a : nat) (tl : Z) (mki : bytes) : skeys :=
  let c := cipher_key SRTP_AES_GCM_128_c 28 (bytes_from a 28) in
  let c2 := {| ck_alg := calg; ck_klen := ck_klen c; ck_rks := ck_rks c; ck_salt := ck_salt c |} in
  let h := auth_key SRTP_NULL_AUTH_c 0 tl [] in
  {| k_rtp_c := c; k_rtp_a := h; k_xtn_c := None; k_rtcp_c := c2; k_rtcp_a := h;
     k_salt := bytes_from (a + 50) 12; k_csalt := bytes_from (a + 70) 12; k_mki := mki |}.
Definition gstream (calg serv : Z) (rb : rdb) : stream :=
  {| s_ssrc := ssrc; s_clone := false;
     s_keys := [gkeys calg 1 16 [7%N; 1%N]; gkeys calg 100 16 [7%N; 2%N]];
     s_limits := [mk_limit; mk_limit];
     s_rdbx := {| index := 0; wlen := 128; mask := 0%N |}; s_rdb := rb;
     s_pending_roc := 0; s_dir := 0; s_rtp_serv := 3; s_rtcp_serv := serv;
     s_use_mki := true; s_mki_size := 2; s_allow_repeat := false; s_cryptex := false; s_enc_xtn := [] |}.
Definition gtx serv := gstream SRTP_AES_GCM_128_c serv {| wstart := 5; bitmask := 0%N |}.
Definition grx serv := gstream SRTP_AES_GCM_128_c serv rdb_init.

Definition g_wire serv : option bytes :=
  match nth_error (s_keys (gtx serv)) 1 with Some k => rtcp_aead_wire (gtx serv) k 6 pkt | None => None end.
Definition g_protect serv (b : bufs) : option bytes :=
  match protect_rtcp_aead 1 (world_of (sess (gtx serv)) b) with
  | (w', inl l) => Some (take (zn l) (b_dst (w_b w')))
  | _ => None
  end.
Definition g_unprotect (s : stream) (b : bufs) : bytes + Z :=
  match unprotect_rtcp_aead (world_of (sess s) b) with
  | (w', inl l) => inl (take (zn l) (b_dst (w_b w')))
  | (_, inr e) => inr e
  end.

(* E = 1 (services 3) and E = 0 (services 2: authentication only) *)
Example g_wire_len : option_map (@length N) (g_wire 3) = Some (29 + 16 + 4 + 2)%nat /\
                     option_map (@length N) (g_wire 2) = Some (29 + 16 + 4 + 2)%nat.
Proof. vm_compute. split; reflexivity. Qed.
Example g_protect_is_wire :
  g_protect 3 (inplace pkt) = g_wire 3 /\ g_protect 3 (outofplace pkt) = g_wire 3 /\
  g_protect 2 (inplace pkt) = g_wire 2 /\ g_protect 2 (outofplace pkt) = g_wire 2.
Proof. vm_compute. repeat split; reflexivity. Qed.
Example g_unprotect_gives_pkt :
  match g_wire 3, g_wire 2 with
  | Some w3, Some w2 =>
    g_unprotect (grx 3) (inplace w3) = inl pkt /\ g_unprotect (grx 3) (outofplace w3) = inl pkt /\
    g_unprotect (grx 2) (inplace w2) = inl pkt /\ g_unprotect (grx 2) (outofplace w2) = inl pkt /\
    (* the receiver follows the E bit of the packet, whatever its own service flags are *)
    g_unprotect (grx 2) (inplace w3) = inl pkt /\ g_unprotect (grx 3) (outofplace w2) = inl pkt
  | _, _ => False
  end.
Proof. vm_compute. repeat split; reflexivity. Qed.
(* a flipped header octet (E = 1) or payload octet (E = 0) is refused *)
Definition flip (n : nat) (l : bytes) : bytes := splice n [N.lxor (nthb l n) 1] l.
Example g_tamper_refused :
  match g_wire 3, g_wire 2 with
  | Some w3, Some w2 =>
    g_unprotect (grx 3) (inplace (flip 1 w3)) = inr st_auth_fail /\
    g_unprotect (grx 2) (outofplace (flip 20 w2)) = inr st_auth_fail
  | _, _ => False
  end.
Proof. vm_compute. split; reflexivity. Qed.

(* the premise "tag length 0 is used to locate the MKI" is needed FOR THE MODEL: a stream whose
   RTP cipher is GCM (so that the dispatch chooses the AEAD functions) but whose RTCP cipher is not
   marked GCM makes the receiver look for the MKI in front of a 16-octet tag *)
Definition godd := gstream SRTP_AES_ICM_128_c 3.
Example round_trip_needs_mki_at_end_refuted :
  match nth_error (s_keys (godd rdb_init)) 1 with
  | Some k =>
    match rtcp_aead_wire (godd rdb_init) k 1 pkt with
    | Some wr => snd (unprotect_rtcp_aead_fun (sess (godd rdb_init)) cap wr) = inr st_bad_mki
    | None => False
    end
  | None => False
  end.
Proof. vm_compute. reflexivity. Qed.
End AeadExample.
