(* AeadRoundTripRtp.v — C01 / C04 for the AES-GCM (RFC 7714) SRTP paths of Aead.v, for streams
   WITHOUT cryptex (s_cryptex = false), with or without RFC 6904 header-extension encryption:

     rtp_aead_wire st k est pkt   what srtp_protect (GCM key) puts on the wire
     protect_aead_wire            a successful protect_aead emits exactly that
     unprotect_aead_fun           pure specification of srtp_unprotect (GCM key)
     unprotect_aead_refines       the monadic model computes it, in place and out of place
     unprotect_aead_accept_iff    the call gets past authentication <-> gcm_decrypt (key, IV, AAD,
                                  ciphertext, tag) = Some _
     rtp_aead_round_trip          the wire image is accepted and gives the packet back

   Restriction (as in RtpSpecProofs.v): the session holds an explicit stream for the packet's SSRC.
   The Hoare-triple library is that of RtpSpecProofs.v. *)
From Coq Require Import NArith ZArith List Bool Lia.
From Srtp Require Import XtnProofs.
From Srtp Require Import Util Constants KeyLimit Rdb Rdbx Icm World Stream Rtp Aead AeadProofs
     MonadLemmas EnvelopeProofs WfProofs BoundsRtcp BoundsRtp LengthProofs RtcpSpec RtpSpec RtpSpecProofs
     RtpRoundTrip RtpXtnApply RtpRefineXtn RtpRoundTripXtn RtpUnprotSpec RtpUnprotProofs.
From Srtp.Crypto Require Import GCM.
Import ListNotations.
Local Open Scope Z_scope.

Global Opaque gcm_encrypt gcm_decrypt.

(* ===================================================================== *)
(* 0. small facts                                                         *)
(* ===================================================================== *)
Lemma gcm_seal_ok k tl iv aad pt room :
  lenZ pt + tl <= room ->
  gcm_seal k tl iv aad pt room =
  (st_ok, let '(ct, tag) := gcm_encrypt (ck_rks k) iv aad pt (zn tl) in ct ++ tag).
Proof.
  intros H. unfold gcm_seal. destruct (room <? lenZ pt + tl) eqn:E; [apply Z.ltb_lt in E; lia|].
  destruct (gcm_encrypt _ _ _ _ _) as [ct tag]. reflexivity.
Qed.

Lemma gcm_open_eq k tl iv aad x room n :
  lenZ x = n -> 0 <= tl <= n -> n - tl <= room ->
  gcm_open k tl iv aad x room =
  match gcm_decrypt (ck_rks k) iv aad (take (zn (n - tl)) x) (drop (zn (n - tl)) x) with
  | Some pt => (st_ok, pt)
  | None => (st_auth_fail, [])
  end.
Proof.
  intros Hn Ht Hr. unfold gcm_open. cbv zeta. rewrite Hn.
  destruct (n <? tl) eqn:E1; [apply Z.ltb_lt in E1; lia|].
  destruct (room <? n - tl) eqn:E2; [apply Z.ltb_lt in E2; lia|]. reflexivity.
Qed.

Lemma take_slice {A} a o n (l : list A) : (a <= n)%nat -> take a (slice o n l) = slice o a l.
Proof. intros H. unfold slice. rewrite take_take. replace (Nat.min a n) with a by lia. reflexivity. Qed.
Lemma drop_slice {A} a o n (l : list A) : drop a (slice o n l) = slice (o + a) (n - a) l.
Proof.
  unfold slice. rewrite !take_firstn, !drop_skipn. rewrite skipn_firstn_comm. rewrite <- !drop_skipn, drop_drop.
  reflexivity.
Qed.

Lemma t_log_gcm_iv L C al src d0 ss D k iv E :
  tri (St L C al src d0 ss D) (log_gcm_iv k iv) (fun _ => St L C al src d0 ss D) E.
Proof. intros w H. cbn. exact H. Qed.

Lemma t_assoc {A B X} (m : M A) (f : A -> M B) (g : B -> M X) P Q E :
  tri P (bind m (fun a => bind (f a) g)) Q E -> tri P (bind (bind m f) g) Q E.
Proof.
  intros H w HP. specialize (H w HP). unfold bind in *. destruct (m w) as [w1 [a|s]]; exact H.
Qed.

Lemma P0_slice' al (p : bytes) es off n : (off + n <= zn es)%nat -> slice off n (P0 al p es) = slice off n p.
Proof. intros H. unfold P0. destruct al; [reflexivity|]. apply slice_take. exact H. Qed.
Lemma P0_len' al (p : bytes) es L : lenZ p = L -> 0 <= es <= L -> lenZ (P0 al p es) = if al then L else es.
Proof. intros H1 H2. unfold P0. destruct al; [exact H1|]. unfold lenZ, zn in *. rewrite take_length. lia. Qed.

Lemma charged_umki st i : s_use_mki (charged_stream st i) = s_use_mki st.
Proof. unfold charged_stream. destruct (s_clone st); [reflexivity|]. destruct (nth_error _ _); reflexivity. Qed.

Lemma u64_neg x : - 18446744073709551616 <= x < 0 -> u64 x = x + 18446744073709551616.
Proof.
  intros H. unfold u64. rewrite <- (Z_mod_plus_full x 1 18446744073709551616).
  apply Z.mod_small. lia.
Qed.

(* ===================================================================== *)
(* 1. the wire image (RFC 7714 section 8), streams without cryptex         *)
(* ===================================================================== *)
(* header (fixed part, CSRC list, header extension after RFC 6904) | ciphertext | tag | MKI;
   AAD = the header as it goes on the wire; None: invalid RTP header or RFC 6904 parse error *)
Definition rtp_aead_wire (st : stream) (k : skeys) (est : Z) (pkt : bytes) : option bytes :=
  if negb (validate_rtp pkt (lenZ pkt) =? st_ok) then None else
  match wire_xtn (s_enc_xtn st) (k_xtn_c k) (xtn_iv (hdr_ssrc pkt) est) pkt with
  | None => None
  | Some p1 =>
    let es := enc0 pkt in
    let '(ct, tag) := gcm_encrypt (ck_rks (k_rtp_c k)) (aead_rtp_iv (k_salt k) (hdr_ssrc pkt) est)
                                  (take (zn es) p1) (drop (zn es) pkt) (zn (ak_tag (k_rtp_a k))) in
    Some (take (zn es) p1 ++ (ct ++ tag) ++ (if s_use_mki st then k_mki k else []))
  end.

Lemma rtp_aead_wire_cfg st st' k est pkt :
  s_use_mki st' = s_use_mki st -> s_enc_xtn st' = s_enc_xtn st ->
  rtp_aead_wire st' k est pkt = rtp_aead_wire st k est pkt.
Proof. intros E1 E2. unfold rtp_aead_wire. rewrite E1, E2. reflexivity. Qed.

(* ===================================================================== *)
(* 1b. srtp_unprotect with a GCM key as a pure function (no cryptex)       *)
(* ===================================================================== *)
(* everything before the AEAD operation: stream, (index, delta, advance), (key index, key) *)
Definition unprotect_aead_pre_fun (ss : session) (C : Z) (pkt : bytes)
  : (stream * (Z * Z * bool) * (Z * skeys)) + Z :=
  let len := lenZ pkt in
  if negb (validate_rtp pkt len =? st_ok) then inr (validate_rtp pkt len) else
  match list_get (ss_list ss) (hdr_ssrc pkt) with
  | None => inr st_no_ctx
  | Some st =>
    match rx_index st (hdr_seq pkt) with
    | inr e => inr e
    | inl eda =>
      (* with a GCM RTP cipher the MKI sits at the very end: tag length 0 *)
      match receiver_key_st st pkt len 0 with
      | inr e => inr e
      | inl ik =>
        let tl := ak_tag (k_rtp_a (snd ik)) in
        let msz := s_mki_size st in
        let es := enc0 pkt in
        if u64 (len - tl - msz) <? u64 (es + 0) then inr st_parse_err else
        if u64 (len - es - msz) <? tl then inr st_cipher_fail else
        if C <? u64 (len - msz - tl) then inr st_buffer_small else
        inl (st, eda, ik)
      end
    end
  end.

(* RFC 6904 on the output: the model takes X and the header length from the received packet *)
Definition aead_rx_xtn (ids : bytes) (xk : option ckey) (iv pkt P : bytes) : option bytes :=
  match xk with
  | Some xk => if hdr_x pkt =? 1 then xtn_apply ids (cipher_start xk iv) (hdr_len pkt) P else Some P
  | None => Some P
  end.

(* AAD = [0, enc0) (every octet in front of the ciphertext), ciphertext = [enc0, n), tag = [n, n + tl),
   n = len - mki_size - tl *)
Definition rtp_aead_rx_parts (pkt : bytes) (tl msz : Z) : bytes * bytes * bytes :=
  let es := enc0 pkt in
  let n := lenZ pkt - msz - tl in
  (take (zn es) pkt, slice (zn es) (zn (n - es)) pkt, slice (zn n) (zn tl) pkt).

Definition unprotect_aead_fun (ss : session) (C : Z) (pkt : bytes) : session * (bytes + Z) :=
  match unprotect_aead_pre_fun ss C pkt with
  | inr e => (ss, inr e)
  | inl (st, (est, delta, adv), (ki, k)) =>
    let ssrc := hdr_ssrc pkt in
    let '(aad, ct, tag) := rtp_aead_rx_parts pkt (ak_tag (k_rtp_a k)) (s_mki_size st) in
    match gcm_decrypt (ck_rks (k_rtp_c k)) (aead_rtp_iv (k_salt k) ssrc est) aad ct tag with
    | None => (ss, inr st_auth_fail)
    | Some pt =>
      (* key usage budget: charged once the packet has authenticated *)
      match charge_fun ss ssrc st ki with
      | (ss1, inr e) => (ss1, inr e)
      | (ss1, inl _) =>
        match aead_rx_xtn (s_enc_xtn st) (k_xtn_c k) (xtn_iv ssrc est) pkt (aad ++ pt) with
        | None => (ss1, inr st_parse_err)
        | Some out =>
          let st1 := charged_stream st ki in
          (sess_put (dir_session ss1 ssrc st1 dir_srtp_receiver_c) ssrc
                    (rx_commit (dir_stream st1 dir_srtp_receiver_c) est delta adv), inl out)
        end
      end
    end
  end.

(* ===================================================================== *)
(* 2. steps on the destination block                                      *)
(* ===================================================================== *)
Section STEPS2.
Variables (L C : Z) (al : bool) (src d0 : bytes).
Hypothesis HD : C <= lenZ d0.
Notation S := (St L C al src d0).

(* a write that starts inside (or right behind) the packet region and defines its new end *)
Lemma t_wr_tail ss P a v E :
  0 <= a <= lenZ P -> a + lenZ v <= C ->
  tri (S ss (facts_ok [(0, P)])) (wr_dst a v) (fun _ => S ss (facts_ok [(0, take (zn a) P ++ v)])) E.
Proof.
  intros Ha Hc. apply t_wr_dst; [lia|exact Hc|].
  intros dd Hl Hf. pose proof (Forall_inv Hf) as F0.
  constructor; [|constructor]. split; [cbn [fst]; lia|]. cbn [fst snd]. change (zn 0) with O. rewrite slice_0.
  rewrite app_length, take_length.
  replace (Nat.min (zn a) (length P)) with (zn a) by (unfold lenZ, zn in *; lia).
  rewrite take_splice_tail by (unfold lenZ, zn in *; lia). f_equal.
  pose proof (fact0_read dd P 0 (zn a) F0 ltac:(unfold lenZ, zn in *; lia)) as R.
  rewrite !slice_0 in R. exact R.
Qed.

(* srtp_process_header_encryption on a destination whose packet region is P *)
Lemma process_xtn_gen ss st pk xcs P :
  0 <= hdr_len pk ->
  hdr_len pk + 4 + be16 P (zn (hdr_len pk + 2)) * 4 <= lenZ P -> lenZ P <= C ->
  tri (S ss (facts_ok [(0, P)])) (process_xtn st pk xcs)
      (fun _ w => exists P', xtn_apply (s_enc_xtn st) xcs (hdr_len pk) P = Some P' /\ S ss (facts_ok [(0, P')]) w)
      (fun s w => xtn_apply (s_enc_xtn st) xcs (hdr_len pk) P = None /\ s = st_parse_err /\ S ss Dany w).
Proof.
  intros Hoff HB HCx. pose proof (be16_nonneg P (zn (hdr_len pk + 2))) as NN.
  unfold process_xtn, xtn_apply. cbv zeta. set (off := hdr_len pk) in *.
  eapply t_bind; [apply t_rd_dst; lia|intros h]. apply t_pure; intros (dd & Hf & _ & ->).
  rewrite (fact0_read dd P _ _ (Forall_inv Hf)) by (unfold lenZ, zn in *; lia).
  change (zn 4) with 4%nat. rewrite be16_slice4_0, be16_slice4.
  replace (zn off + 2)%nat with (zn (off + 2)) by (unfold zn; lia).
  destruct (negb (be16 P (zn off) =? xtn_hdr_one_byte_profile_c) &&
            negb (Z.land (be16 P (zn off)) 65520 =? xtn_hdr_two_byte_profile_c)).
  { apply t_exit. intros w Hw. split; [reflexivity|]. split; [reflexivity|]. exact (St_any _ _ _ _ _ _ _ _ Hw). }
  set (n := be16 P (zn (off + 2)) * 4) in *.
  eapply t_bind; [apply t_rd_dst; lia|intros d]. apply t_pure; intros (dd2 & Hf2 & _ & ->).
  rewrite (fact0_read dd2 P _ _ (Forall_inv Hf2)) by (unfold lenZ, zn in *; lia).
  set (d := slice (zn (off + 4)) (zn n) P) in *.
  destruct (if be16 P (zn off) =? xtn_hdr_one_byte_profile_c
            then xtn_one (Datatypes.S (length d)) (s_enc_xtn st) xcs d 0
            else xtn_two (Datatypes.S (length d)) (s_enc_xtn st) xcs d 0) as [d'|] eqn:EW.
  2:{ apply t_exit. intros w Hw. split; [reflexivity|]. split; [reflexivity|]. exact (St_any _ _ _ _ _ _ _ _ Hw). }
  assert (LD : length d' = length d).
  { destruct (be16 P (zn off) =? xtn_hdr_one_byte_profile_c);
      [exact (xtn_one_length _ _ _ _ _ _ EW)|exact (xtn_two_length _ _ _ _ _ _ EW)]. }
  assert (LD0 : length d = zn n) by (subst d; rewrite slice_length; unfold lenZ, zn in *; lia).
  eapply t_post; [apply t_wr_in2; [lia| | |constructor]; unfold lenZ in *; rewrite LD, LD0; unfold zn; lia|].
  intros ? w Hw. eexists. split; [reflexivity|exact Hw].
Qed.
End STEPS2.

(* ===================================================================== *)
(* 3. srtp_protect with a GCM key                                         *)
(* ===================================================================== *)
Section AEAD_RTP.
Variables (L C : Z) (al : bool) (src d0 pkt : bytes).
Hypothesis HL : 0 <= L < 9223372036854775808.
Hypothesis HC : 0 <= C < 9223372036854775808.
Hypothesis HD : C <= lenZ d0.
Hypothesis Hpkt : take (zn L) (if al then d0 else src) = pkt.
Hypothesis HLp : lenZ pkt = L.

Notation S := (St L C al src d0).

Ltac norm_b :=
  change (b_len (b_init L C al src d0)) with L;
  change (b_cap (b_init L C al src d0)) with C;
  change (b_alias (b_init L C al src d0)) with al;
  rewrite ?(Hpkt : take (zn L) (cur_src (b_init L C al src d0)) = pkt).

Definition PE (s : Z) (w : world) : Prop := b_src (w_b w) = src /\ b_oob (w_b w) = false.
Lemma pe_exit ss D s w : S ss D w -> PE s w.
Proof. intros (h0 & h1 & h2 & h3 & h4 & h5 & h6 & h7). split; assumption. Qed.

Variable ss0 : session.
Variable st0 : stream.
Hypothesis Hget : list_get (ss_list ss0) (hdr_ssrc pkt) = Some st0.
Hypothesis Hwf : stream_wf st0.
Hypothesis Hcx : s_cryptex st0 = false.

Definition AProtQ i (l : Z) (w : world) : Prop :=
  exists ki k ss2 est st3 wire,
    sender_key_st (dir_stream st0 dir_srtp_sender_c) i = inl (ki, k) /\
    charge_fun (dir_session ss0 (hdr_ssrc pkt) st0 dir_srtp_sender_c) (hdr_ssrc pkt)
               (dir_stream st0 dir_srtp_sender_c) ki = (ss2, inl tt) /\
    index_step (charged_stream (dir_stream st0 dir_srtp_sender_c) ki) (hdr_seq pkt) = inl (est, st3) /\
    rtp_aead_wire st0 k est pkt = Some wire /\
    l = lenZ wire /\ take (zn l) (b_dst (w_b w)) = wire /\
    w_s w = sess_put ss2 (hdr_ssrc pkt) st3 /\
    b_src (w_b w) = src /\ b_oob (w_b w) = false.

Lemma protect_aead_tri i : tri (S ss0 (eq d0)) (protect_aead i) (AProtQ i) PE.
Proof.
  unfold protect_aead.
  eapply t_bind; [apply t_get_b0|intros b]. apply t_pure; intros ->.
  cbv beta zeta. norm_b.
  change octets_in_rtp_header_c with 12. change octets_in_rtp_xtn_hdr_c with 4.
  unfold check_st. destruct (validate_rtp pkt L =? st_ok) eqn:EV.
  2:{ apply t_bind_exit. intros w Hw. exact (pe_exit _ _ _ _ Hw). }
  apply t_bind_ret. pose proof EV as EVb. apply Z.eqb_eq in EV. pose proof (enc0_bounds _ _ EV) as EB.
  eapply t_bind; [eapply t_lookup_existing; exact Hget|intros r]. apply t_pure; intros ->.
  eapply t_bind; [eapply t_check_direction; exact Hget|intros ?].
  eapply t_bind; [apply t_get_stream_list; apply dir_session_get; exact Hget|intros st]. apply t_pure; intros Est.
  set (ss1 := dir_session ss0 (hdr_ssrc pkt) st0 dir_srtp_sender_c) in *.
  pose proof (dir_stream_cfg st0 dir_srtp_sender_c) as CF. rewrite <- Est in CF.
  assert (Wst : stream_wf st) by exact (stream_wf_cfg _ _ CF Hwf).
  destruct CF as (CK & _ & CU & CX). rewrite Hcx in CX.
  rewrite keys_by_index_eq. destruct (sender_key_st st i) as [[ki k]|e] eqn:EK.
  2:{ apply t_bind_exit. intros w Hw. exact (pe_exit _ _ _ _ Hw). }
  apply t_bind_ret. cbv beta iota.
  pose proof (sender_key_st_In _ _ _ _ EK) as Hk.
  pose proof (stream_wf_key _ _ Wst Hk) as (MK & TA & _).
  destruct Wst as (M & U & _). rewrite max_mki_value in M.
  pose proof TA as [T _]. rewrite max_tag_value in T.
  (* key usage *)
  eapply t_bind2; [eapply t_charge_key; apply dir_session_get; exact Hget| |intros ?].
  { intros s w (ss' & EC & Hw). exact (pe_exit _ _ _ _ Hw). }
  apply t_ex; intros ss2. apply t_pure; intros EC. apply t_pure; intros Hg2.
  rewrite <- Est in EC, Hg2.
  set (tl := ak_tag (k_rtp_a k)) in *. set (msz := s_mki_size st) in *.
  destruct (C <? L + tl + msz) eqn:E1.
  { apply t_bind_exit. intros w Hw. exact (pe_exit _ _ _ _ Hw). }
  apply t_bind_ret. apply Z.ltb_ge in E1.
  rewrite CX. cbn [andb negb]. apply t_bind_ret.
  fold (enc0 pkt). set (es := enc0 pkt) in *. cbv iota. apply t_bind_ret.
  destruct (L <? es) eqn:E2; [apply Z.ltb_lt in E2; lia|]. apply t_bind_ret.
  (* header *)
  eapply t_bind; [apply (header_copy L C al src d0 pkt HD Hpkt HLp); lia|intros ?].
  (* index *)
  eapply t_bind; [apply t_get_stream_list; exact Hg2|intros st2]. apply t_pure; intros ->.
  set (st2 := charged_stream st ki) in *.
  pose proof (eq_refl (index_step st2 (hdr_seq pkt))) as SPEC. unfold index_step at 2 in SPEC.
  destruct (est_index st2 (hdr_seq pkt)) as [[est_st est] delta].
  destruct (negb (est_st =? st_ok) && negb (est_st =? st_pkt_idx_adv)).
  { apply t_bind_exit. intros w Hw. exact (pe_exit _ _ _ _ Hw). }
  apply t_bind_ret.
  apply t_bind with (R := fun _ w =>
    exists st3, index_step st2 (hdr_seq pkt) = inl (est, st3) /\
                S (sess_put ss2 (hdr_ssrc pkt) st3) (facts_ok [(0, P0 al pkt es)]) w).
  { destruct (est_st =? st_pkt_idx_adv).
    - eapply t_post; [apply t_put_stream_list|]. intros ? w Hw. eexists. split; [exact SPEC|exact Hw].
    - destruct (negb (rdbx_check (s_rdbx st2) delta =? st_ok) &&
                (negb (rdbx_check (s_rdbx st2) delta =? st_replay_fail) || negb (s_allow_repeat st2))).
      + apply t_bind_exit. intros w Hw. exact (pe_exit _ _ _ _ Hw).
      + apply t_bind_ret. eapply t_post; [apply t_put_stream_list|]. intros ? w Hw. eexists. split; [exact SPEC|exact Hw]. }
  intros ?. apply t_ex; intros st3. apply t_pure; intros E3. clear SPEC.
  set (ss3 := sess_put ss2 (hdr_ssrc pkt) st3) in *.
  set (iv := aead_rtp_iv (k_salt k) (hdr_ssrc pkt) est).
  set (xiv := xtn_iv (hdr_ssrc pkt) est).
  eapply t_bind; [apply t_log_gcm_iv|intros ?].
  (* RFC 6904 *)
  eapply t_bind; [apply (t_log_xtn L C al src d0)|intros ?].
  eapply t_bind2; [apply (xtn_step_opt L C al src d0 pkt HD Hpkt HLp ss3 st2 (k_xtn_c k) xiv []); [exact EV|lia|constructor]| |intros ?].
  { intros s w (_ & _ & Hw). exact (pe_exit _ _ _ _ Hw). }
  apply t_ex; intros p1. apply t_pure; intros EX. fold es.
  assert (EX' : wire_xtn (s_enc_xtn st0) (k_xtn_c k) xiv pkt = Some p1).
  { rewrite <- EX. unfold st2. rewrite charged_xtn, Est. unfold dir_stream.
    destruct (s_dir st0 =? dir_srtp_sender_c); [reflexivity|]. destruct (s_dir st0 =? dir_unknown_c); reflexivity. }
  rewrite <- HLp in EV.
  pose proof (wire_xtn_shape _ _ _ _ _ EV EX') as (SL & _ & _ & _ & SD). rewrite HLp in SL. fold es in SD.
  apply t_bind_ret.
  (* AAD from the output, payload from the input *)
  assert (LP0 : lenZ (P0 al p1 es) = if al then L else es) by (apply P0_len'; [exact SL|lia]).
  eapply t_bind; [apply t_rd_dst; [lia|lia|destruct al; lia]|intros aad]. apply t_pure; intros (dd & Hf & _ & ->).
  rewrite (fact0_read dd _ _ _ (Forall_inv Hf)) by (unfold lenZ, zn in *; destruct al; lia).
  rewrite P0_slice' by (unfold zn; lia). change (zn 0) with O. rewrite slice_0.
  eapply t_bind; [apply (rd_p1 L C al src d0 pkt Hpkt); [exact SL|exact SD|lia|lia|lia]|intros d]. apply t_pure; intros ->.
  replace (slice (zn es) (zn (L - es)) p1) with (drop (zn es) pkt)
    by (rewrite <- SD; symmetry; apply slice_to_end; unfold lenZ, zn in *; lia).
  assert (LDr : lenZ (drop (zn es) pkt) = L - es) by (unfold lenZ, zn in *; rewrite drop_length; lia).
  rewrite gcm_seal_ok by lia. fold tl iv.
  assert (SPEC : rtp_aead_wire st0 k est pkt =
                 Some (take (zn es) p1 ++ (let '(ct, tag) := gcm_encrypt (ck_rks (k_rtp_c k)) iv (take (zn es) p1) (drop (zn es) pkt) (zn tl) in ct ++ tag)
                                       ++ (if s_use_mki st0 then k_mki k else []))).
  { unfold rtp_aead_wire. rewrite HLp, EVb. cbn [negb]. fold xiv. rewrite EX'. cbv zeta. fold es iv tl.
    destruct (gcm_encrypt _ _ _ _ _) as [ct tag]. reflexivity. }
  remember (gcm_encrypt (ck_rks (k_rtp_c k)) iv (take (zn es) p1) (drop (zn es) pkt) (zn tl)) as ge eqn:EG in *.
  destruct ge as [ct tag]. symmetry in EG. pose proof (gcm_encrypt_length _ _ _ _ _ _ _ EG) as [LG1 LG2].
  set (o := ct ++ tag) in *.
  assert (LO : lenZ o = L - es + tl) by (subst o; unfold lenZ, zn in *; rewrite app_length; lia).
  change (negb (st_ok =? st_ok)) with false. cbv iota.
  assert (LT : lenZ (take (zn es) p1) = es) by (unfold lenZ, zn in *; rewrite take_length; lia).
  eapply t_bind; [apply (t_wr_tail L C al src d0 HD); [destruct al; lia|lia]|intros ?].
  replace (take (zn es) (P0 al p1 es)) with (take (zn es) p1)
    by (unfold P0; destruct al; [reflexivity|]; rewrite take_take; f_equal; lia).
  (* MKI *)
  set (mki := if s_use_mki st then k_mki k else []).
  assert (LM : lenZ mki = msz).
  { subst mki. destruct (s_use_mki st); [exact MK|]. rewrite (U eq_refl). reflexivity. }
  apply t_bind with (R := fun _ => S ss3 (facts_ok [(0, (take (zn es) p1 ++ o) ++ mki)])).
  { replace (s_use_mki st2) with (s_use_mki st) by (unfold st2; rewrite charged_umki; reflexivity).
    subst mki. destruct (s_use_mki st) eqn:EU.
    - replace (es + lenZ o) with (lenZ (take (zn es) p1 ++ o)) by (rewrite lenZ_app; lia).
      apply t_wr_append; [exact HD|rewrite lenZ_app; lia|constructor].
    - apply t_ret. intros w Hw. rewrite app_nil_r. exact Hw. }
  intros ?. apply t_bind_ret.
  apply t_ret. intros w (h0 & h1 & h2 & h3 & h4 & h5 & h6 & h7).
  exists ki, k, ss2, est, st3, ((take (zn es) p1 ++ o) ++ mki).
  rewrite <- Est. split; [exact EK|]. split; [exact EC|]. split; [exact E3|].
  split; [rewrite SPEC, <- CU, <- app_assoc; reflexivity|].
  assert (LW : lenZ ((take (zn es) p1 ++ o) ++ mki) = L + tl + msz) by (rewrite !lenZ_app; lia).
  replace (es + lenZ o + s_mki_size st2) with (lenZ ((take (zn es) p1 ++ o) ++ mki))
    by (unfold st2; rewrite charged_mki; fold msz; lia).
  rewrite u64_small by lia. split; [reflexivity|]. split; [|auto].
  rewrite zn_len. pose proof (fact_get _ _ 0 _ h7 ltac:(left; reflexivity)) as F.
  change (zn 0) with O in F. rewrite slice_0 in F. exact F.
Qed.

(* ===================================================================== *)
(* 4. srtp_unprotect with a GCM key refines unprotect_aead_fun             *)
(* ===================================================================== *)
Definition AUQ (l : Z) (w : world) : Prop :=
  exists out, unprotect_aead_fun ss0 C pkt = (w_s w, inl out) /\ l = lenZ out /\
              take (zn l) (b_dst (w_b w)) = out /\ b_src (w_b w) = src /\ b_oob (w_b w) = false.
Definition AUE (s : Z) (w : world) : Prop :=
  unprotect_aead_fun ss0 C pkt = (w_s w, inr s) /\ b_src (w_b w) = src /\ b_oob (w_b w) = false.

Lemma aue_exit ss D s w : S ss D w -> unprotect_aead_fun ss0 C pkt = (ss, inr s) -> AUE s w.
Proof. intros (h0 & h1 & h2 & h3 & h4 & h5 & h6 & h7) Hs. unfold AUE. rewrite h0. auto. Qed.

Lemma unprotect_aead_tri : tri (S ss0 (eq d0)) unprotect_aead AUQ AUE.
Proof.
  pose proof (eq_refl (unprotect_aead_fun ss0 C pkt)) as SPEC.
  unfold unprotect_aead_fun at 2 in SPEC. unfold unprotect_aead_pre_fun in SPEC. cbv zeta in SPEC.
  rewrite HLp, Hget in SPEC.
  unfold unprotect_aead.
  eapply t_bind; [apply t_get_b0|intros b]. apply t_pure; intros ->.
  cbv beta zeta. norm_b.
  change octets_in_rtp_header_c with 12. change octets_in_rtp_xtn_hdr_c with 4.
  unfold check_st at 1. destruct (validate_rtp pkt L =? st_ok) eqn:EV; cbn [negb] in SPEC.
  2:{ apply t_bind_exit. intros w Hw. exact (aue_exit _ _ _ _ Hw SPEC). }
  apply t_bind_ret. apply Z.eqb_eq in EV. pose proof (enc0_bounds _ _ EV) as EB.
  eapply t_bind; [apply t_get_s|intros ss]. apply t_pure; intros ->.
  rewrite Hget. apply t_bind_ret.
  eapply t_bind; [apply t_get_stream_list; exact Hget|intros st]. apply t_pure; intros ->.
  eapply t_bind2; [apply t_rx_index| |intros [[est delta] adv]].
  { intros s w [EI Hw]. rewrite EI in SPEC. exact (aue_exit _ _ _ _ Hw SPEC). }
  apply t_pure; intros EI. rewrite EI in SPEC. cbv beta iota.
  eapply t_bind2; [apply (t_keys_by_packet L C al src d0 pkt Hpkt ss0 st0 0 Hwf); lia| |intros [ki k]].
  { intros s w [EK Hw]. rewrite EK in SPEC. exact (aue_exit _ _ _ _ Hw SPEC). }
  apply t_pure; intros EK. rewrite EK in SPEC. cbv beta iota. cbn [snd] in SPEC.
  pose proof (receiver_key_st_In _ _ _ _ _ _ EK) as Hk.
  pose proof (stream_wf_key _ _ Hwf Hk) as (MK & TA & _).
  pose proof Hwf as (M & U & _). rewrite max_mki_value in M.
  pose proof TA as [T _]. rewrite max_tag_value in T.
  rewrite Hcx. cbn [andb]. apply t_bind_ret. cbn [andb]. apply t_bind_ret. cbv iota.
  fold (enc0 pkt) in *.
  set (tl := ak_tag (k_rtp_a k)) in *. set (msz := s_mki_size st0) in *. set (es := enc0 pkt) in *.
  fold tl in SPEC. fold msz in SPEC.
  destruct (u64 (L - tl - msz) <? u64 (es + 0)) eqn:E1.
  { apply t_bind_exit. intros w Hw. exact (aue_exit _ _ _ _ Hw SPEC). }
  apply t_bind_ret.
  (* no cryptex: the second parse check (whole extension in front of the trailer) is not made *)
  cbn [andb]. apply t_bind_ret.
  destruct (u64 (L - es - msz) <? tl) eqn:E2.
  { apply t_bind_exit. intros w Hw. exact (aue_exit _ _ _ _ Hw SPEC). }
  apply t_bind_ret.
  destruct (C <? u64 (L - msz - tl)) eqn:E3.
  { apply t_bind_exit. intros w Hw. exact (aue_exit _ _ _ _ Hw SPEC). }
  apply t_bind_ret.
  apply Z.ltb_ge in E1, E2, E3.
  (* the three checks in plain arithmetic *)
  assert (NN : 0 <= L - msz - tl).
  { destruct (Z_lt_le_dec (L - msz - tl) 0) as [Hn|Hp]; [|exact Hp]. rewrite u64_neg in E3 by lia. lia. }
  rewrite u64_small in E3 by lia.
  replace (L - tl - msz) with (L - msz - tl) in E1 by lia.
  rewrite !u64_small in E1 by lia.
  set (n := L - msz - tl) in *.
  set (el := u64 (L - es - msz)) in *.
  assert (EL : el = n - es + tl) by (subst el n; rewrite u64_small by lia; lia).
  fold tl msz in SPEC.
  unfold rtp_aead_rx_parts in SPEC. cbv zeta in SPEC. rewrite HLp in SPEC.
  fold es tl msz in SPEC. fold n in SPEC.
  set (iv := aead_rtp_iv (k_salt k) (hdr_ssrc pkt) est) in *.
  set (xiv := xtn_iv (hdr_ssrc pkt) est) in *.
  (* header *)
  apply t_bind_ret.
  eapply t_bind; [apply (header_copy L C al src d0 pkt HD Hpkt HLp); lia|intros ?].
  apply t_bind_ret.
  eapply t_bind; [apply (rd_pkt L C al src d0 pkt Hpkt HLp); lia|intros aad]. apply t_pure; intros ->.
  eapply t_bind; [apply (rd_pkt L C al src d0 pkt Hpkt HLp); lia|intros d]. apply t_pure; intros ->.
  change (zn 0) with O. rewrite slice_0.
  rewrite (gcm_open_eq _ tl iv _ _ el el) by (try apply lenZ_slice_eq; lia).
  rewrite take_slice by (unfold zn; lia). rewrite drop_slice.
  replace (el - tl) with (n - es) by lia.
  replace (zn es + zn (n - es))%nat with (zn n) by (unfold zn; lia).
  replace (zn el - zn (n - es))%nat with (zn tl) by (unfold zn; lia).
  revert SPEC.
  destruct (gcm_decrypt (ck_rks (k_rtp_c k)) iv (take (zn es) pkt) (slice (zn es) (zn (n - es)) pkt) (slice (zn n) (zn tl) pkt))
    as [pt|] eqn:EG; intros SPEC; cbv beta iota.
  2:{ change (negb (st_auth_fail =? st_ok)) with true. cbv iota.
      apply t_bind_exit. intros w Hw. exact (aue_exit _ _ _ _ Hw SPEC). }
  change (negb (st_ok =? st_ok)) with false. cbv iota.
  assert (LPT : lenZ pt = n - es).
  { pose proof (gcm_decrypt_length _ _ _ _ _ _ EG) as H. unfold lenZ. rewrite H. apply lenZ_slice_eq; lia. }
  assert (LT : lenZ (take (zn es) pkt) = es) by (unfold lenZ, zn in *; rewrite take_length; lia).
  assert (LP0 : lenZ (P0 al pkt es) = if al then L else es) by (apply P0_len'; [exact HLp|lia]).
  eapply t_bind; [apply (t_wr_tail L C al src d0 HD); [destruct al; lia|lia]|intros ?].
  replace (take (zn es) (P0 al pkt es)) with (take (zn es) pkt)
    by (unfold P0; destruct al; [reflexivity|]; rewrite take_take; f_equal; lia).
  set (P := take (zn es) pkt ++ pt) in *.
  assert (LP : lenZ P = n) by (subst P; rewrite lenZ_app; lia).
  (* key usage *)
  eapply t_bind2; [eapply t_charge_key; exact Hget| |intros ?].
  { intros s w (ss' & EC & Hw). rewrite EC in SPEC. exact (aue_exit _ _ _ _ Hw SPEC). }
  apply t_ex; intros ss1. apply t_pure; intros EC. apply t_pure; intros Hg1. rewrite EC in SPEC.
  eapply t_bind; [apply t_get_stream_list; exact Hg1|intros st1]. apply t_pure; intros ->.
  set (st1 := charged_stream st0 ki) in *.
  (* no cryptex: nothing to clean up *)
  cbv iota. apply t_bind_ret.
  (* RFC 6904 on the output *)
  apply t_bind with (R := fun _ w => exists out,
      aead_rx_xtn (s_enc_xtn st0) (k_xtn_c k) xiv pkt P = Some out /\ lenZ out = n /\ S ss1 (facts_ok [(0, out)]) w).
  { assert (TRIV : tri (S ss1 (facts_ok [(0, P)])) (ret tt)
        (fun _ w => exists out, Some P = Some out /\ lenZ out = n /\ S ss1 (facts_ok [(0, out)]) w) AUE).
    { apply t_ret. intros w Hw. exists P. auto. }
    unfold aead_rx_xtn in *.
    destruct (k_xtn_c k) as [xk|]; [|exact TRIV].
    destruct (hdr_x pkt =? 1) eqn:EX; [|exact TRIV]. clear TRIV. apply Z.eqb_eq in EX.
    pose proof (validate_rtp_ok _ _ EV) as (V1 & V2 & V3). specialize (V3 EX).
    pose proof (hdr_cc_range pkt) as CC. pose proof (hdr_len_eq pkt) as HLn. pose proof (xtn_len_ge pkt) as XL.
    assert (Ees : es = hdr_len pkt + xtn_len pkt) by (subst es; unfold enc0; rewrite EX; reflexivity).
    assert (B16 : be16 P (zn (hdr_len pkt + 2)) = be16 pkt (zn (hdr_len pkt + 2))).
    { subst P. rewrite be16_app_l by (unfold lenZ, zn in *; lia). apply be16_take. unfold zn; lia. }
    replace (s_enc_xtn st0) with (s_enc_xtn st1) by (unfold st1; apply charged_xtn).
    eapply t_conseq; [apply (process_xtn_gen L C al src d0 HD ss1 st1 pkt (cipher_start xk xiv) P); [lia| |lia]| |].
    - rewrite B16. unfold xtn_len in Ees. lia.
    - intros ? w (P' & EA & Hw). exists P'. split; [exact EA|]. split; [|exact Hw].
      pose proof (xtn_apply_length _ _ _ _ _ EA) as H. unfold lenZ in *. lia.
    - intros s w (EA & -> & Hw). replace (s_enc_xtn st1) with (s_enc_xtn st0) in EA by (unfold st1; symmetry; apply charged_xtn).
      rewrite EA in SPEC. exact (aue_exit _ _ _ _ Hw SPEC). }
  intros ?. apply t_ex; intros out. apply t_pure; intros EO. apply t_pure; intros LO. rewrite EO in SPEC.
  eapply t_conseq; [apply (tail_tri L C al src d0 pkt ss1 st1 adv est delta out _ AUE Hg1)| |intros s w H; exact H].
  - replace (es + lenZ pt) with n by lia. rewrite u64_small by lia. symmetry; exact LO.
  - intros l w (-> & Es & Et & Eb & Eo). exists out. rewrite Es. auto.
Qed.
End AEAD_RTP.

(* ===================================================================== *)
(* 5. the theorems, for worlds                                            *)
(* ===================================================================== *)
(* WIRE IMAGE: a successful srtp_protect with a GCM key puts rtp_aead_wire of the stream, of the
   key selected by the MKI index and of the estimated packet index on the wire — in place or out
   of place, whatever the destination held before; the session is charged and its window advanced
   as by the non-AEAD function *)
Theorem protect_aead_wire i w st0 w' l :
  call_ok w ->
  list_get (ss_list (w_s w)) (hdr_ssrc (in_pkt w)) = Some st0 -> stream_wf st0 -> s_cryptex st0 = false ->
  protect_aead i w = (w', inl l) ->
  exists ki k ss2 est st3 wire,
    sender_key_st (dir_stream st0 dir_srtp_sender_c) i = inl (ki, k) /\
    charge_fun (dir_session (w_s w) (hdr_ssrc (in_pkt w)) st0 dir_srtp_sender_c) (hdr_ssrc (in_pkt w))
               (dir_stream st0 dir_srtp_sender_c) ki = (ss2, inl tt) /\
    index_step (charged_stream (dir_stream st0 dir_srtp_sender_c) ki) (hdr_seq (in_pkt w)) = inl (est, st3) /\
    rtp_aead_wire st0 k est (in_pkt w) = Some wire /\
    l = lenZ wire /\ take (zn l) (b_dst (w_b w')) = wire /\
    w_s w' = sess_put ss2 (hdr_ssrc (in_pkt w)) st3 /\
    b_src (w_b w') = b_src (w_b w) /\ b_oob (w_b w') = false.
Proof.
  intros (HO & HL & HC & HD & HS) Hget Hwf Hcx E.
  assert (HLp : lenZ (in_pkt w) = b_len (w_b w)).
  { unfold in_pkt, lenZ, zn, size_ok in *. rewrite take_length. lia. }
  pose proof (protect_aead_tri (b_len (w_b w)) (b_cap (w_b w)) (b_alias (w_b w)) (b_src (w_b w)) (b_dst (w_b w))
                (in_pkt w) HC HD eq_refl HLp (w_s w) st0 Hget Hwf Hcx i w (St_init w HO)) as T.
  rewrite E in T. exact T.
Qed.
Print Assumptions protect_aead_wire.

(* REFINEMENT: srtp_unprotect with a GCM key computes unprotect_aead_fun, whatever the alias mode
   and the prefill of the destination; no out-of-bounds access, the input is left alone *)
Theorem unprotect_aead_refines w st0 :
  call_ok w ->
  list_get (ss_list (w_s w)) (hdr_ssrc (in_pkt w)) = Some st0 -> stream_wf st0 -> s_cryptex st0 = false ->
  match unprotect_aead w with
  | (w', inl l) =>
      exists out, unprotect_aead_fun (w_s w) (b_cap (w_b w)) (in_pkt w) = (w_s w', inl out) /\
                  l = lenZ out /\ take (zn l) (b_dst (w_b w')) = out /\
                  b_src (w_b w') = b_src (w_b w) /\ b_oob (w_b w') = false
  | (w', inr s) =>
      unprotect_aead_fun (w_s w) (b_cap (w_b w)) (in_pkt w) = (w_s w', inr s) /\
      b_src (w_b w') = b_src (w_b w) /\ b_oob (w_b w') = false
  end.
Proof.
  intros (HO & HL & HC & HD & HS) Hget Hwf Hcx.
  assert (HLp : lenZ (in_pkt w) = b_len (w_b w)).
  { unfold in_pkt, lenZ, zn, size_ok in *. rewrite take_length. lia. }
  pose proof (unprotect_aead_tri (b_len (w_b w)) (b_cap (w_b w)) (b_alias (w_b w)) (b_src (w_b w)) (b_dst (w_b w))
                (in_pkt w) HL HC HD eq_refl HLp (w_s w) st0 Hget Hwf Hcx w (St_init w HO)) as T.
  destruct (unprotect_aead w) as [w' [l|s]]; exact T.
Qed.
Print Assumptions unprotect_aead_refines.

(* C12 for the GCM receiver: status, length, output octets and final session do not depend on
   the alias mode nor on what the destination held before *)
Theorem unprotect_aead_alias_independent w1 w2 st0 :
  call_ok w1 -> call_ok w2 ->
  w_s w1 = w_s w2 -> b_cap (w_b w1) = b_cap (w_b w2) -> in_pkt w1 = in_pkt w2 ->
  list_get (ss_list (w_s w1)) (hdr_ssrc (in_pkt w1)) = Some st0 -> stream_wf st0 -> s_cryptex st0 = false ->
  w_s (fst (unprotect_aead w1)) = w_s (fst (unprotect_aead w2)) /\
  match snd (unprotect_aead w1), snd (unprotect_aead w2) with
  | inl l1, inl l2 =>
      l1 = l2 /\ take (zn l1) (b_dst (w_b (fst (unprotect_aead w1)))) = take (zn l2) (b_dst (w_b (fst (unprotect_aead w2))))
  | inr s1, inr s2 => s1 = s2
  | _, _ => False
  end.
Proof.
  intros H1 H2 ES EC EP Hget Hwf Hcx.
  pose proof (unprotect_aead_refines w1 st0 H1 Hget Hwf Hcx) as T1.
  rewrite ES, EP in Hget.
  pose proof (unprotect_aead_refines w2 st0 H2 Hget Hwf Hcx) as T2.
  rewrite ES, EC, EP in T1.
  destruct (unprotect_aead w1) as [w1' [l1|s1]], (unprotect_aead w2) as [w2' [l2|s2]]; cbn [fst snd].
  - destruct T1 as (o1 & F1 & -> & D1 & _), T2 as (o2 & F2 & -> & D2 & _).
    rewrite F1 in F2. injection F2 as E1 E2. subst o2. rewrite D1, D2. auto.
  - destruct T1 as (o1 & F1 & _), T2 as (F2 & _). rewrite F1 in F2. discriminate.
  - destruct T1 as (F1 & _), T2 as (o2 & F2 & _). rewrite F1 in F2. discriminate.
  - destruct T1 as (F1 & _), T2 as (F2 & _). rewrite F1 in F2. injection F2 as E1 E2. auto.
Qed.
Print Assumptions unprotect_aead_alias_independent.

(* ===================================================================== *)
(* 6. C04: what acceptance means                                          *)
(* ===================================================================== *)
Lemma charge_fun_status ss x st i ss' e : charge_fun ss x st i = (ss', inr e) -> e = st_fail \/ e = st_key_expired.
Proof.
  unfold charge_fun. destruct (limit_update_fun ss x st i) as [[s1 ev]|e1] eqn:EL.
  - destruct ev; intros H; try discriminate H. injection H as _ <-. right; reflexivity.
  - intros H. injection H as _ <-. left. revert EL. unfold limit_update_fun.
    destruct (s_clone st).
    + destruct (ss_template ss) as [t|]; [|intros H; injection H as <-; reflexivity].
      destruct (nth_error _ _); [discriminate|]. intros H; injection H as <-; reflexivity.
    + destruct (nth_error _ _); [discriminate|]. intros H; injection H as <-; reflexivity.
Qed.

(* once the checks that precede the AEAD operation have passed, AAD, ciphertext, tag and MKI are a
   partition of the packet: EVERY octet in front of the ciphertext (fixed header, CSRC list, header
   extension) is in the AAD *)
Lemma rtp_aead_rx_parts_cover ss C pkt st eda ik :
  0 <= C < 9223372036854775808 -> lenZ pkt < 9223372036854775808 ->
  0 <= s_mki_size st <= 128 -> 0 <= ak_tag (k_rtp_a (snd ik)) <= 16 ->
  unprotect_aead_pre_fun ss C pkt = inl (st, eda, ik) ->
  let '(aad, ct, tag) := rtp_aead_rx_parts pkt (ak_tag (k_rtp_a (snd ik))) (s_mki_size st) in
  exists mki, pkt = aad ++ ct ++ tag ++ mki /\ aad = take (zn (enc0 pkt)) pkt /\
              lenZ aad = enc0 pkt /\ lenZ tag = ak_tag (k_rtp_a (snd ik)) /\ lenZ mki = s_mki_size st.
Proof.
  intros HC HLm HM HT. unfold unprotect_aead_pre_fun. cbv zeta.
  destruct (validate_rtp pkt (lenZ pkt) =? st_ok) eqn:EV; cbn [negb]; [|discriminate].
  apply Z.eqb_eq in EV. pose proof (enc0_bounds _ _ EV) as EB.
  destruct (list_get _ _) as [st'|]; [|discriminate].
  destruct (rx_index st' _) as [eda'|]; [|discriminate].
  destruct (receiver_key_st st' pkt (lenZ pkt) 0) as [ik'|]; [|discriminate].
  destruct (_ <? u64 (enc0 pkt + 0)) eqn:E1; [discriminate|].
  destruct (_ <? ak_tag _) eqn:E2; [discriminate|].
  destruct (C <? _) eqn:E3; [discriminate|].
  intros H. injection H as -> -> ->.
  apply Z.ltb_ge in E1, E2, E3.
  set (L := lenZ pkt) in *. set (tl := ak_tag (k_rtp_a (snd ik))) in *. set (msz := s_mki_size st) in *.
  set (es := enc0 pkt) in *.
  assert (NN : 0 <= L - msz - tl).
  { destruct (Z_lt_le_dec (L - msz - tl) 0) as [Hn|Hp]; [|exact Hp]. rewrite u64_neg in E3 by lia. lia. }
  replace (L - tl - msz) with (L - msz - tl) in E1 by lia.
  rewrite !u64_small in E1 by lia.
  unfold rtp_aead_rx_parts. cbv zeta. fold L es. set (n := L - msz - tl) in *.
  exists (drop (zn (n + tl)) pkt).
  assert (LA : lenZ (take (zn es) pkt) = es) by (unfold lenZ, zn in *; subst L; rewrite take_length; lia).
  split; [|split; [reflexivity|split; [exact LA|split; [apply lenZ_slice_eq; subst n; lia|
           unfold lenZ, zn in *; subst L; rewrite drop_length; subst n; lia]]]].
  rewrite <- (take_drop_id (zn es) pkt) at 1. f_equal.
  replace (drop (zn es) pkt) with (slice (zn es) (zn (L - es)) pkt) by (apply slice_to_end; unfold lenZ, zn in *; subst L; lia).
  replace (zn (L - es)) with (zn (n - es) + (zn tl + zn (L - (n + tl))))%nat by (subst n; unfold zn; lia).
  rewrite !slice_add. f_equal.
  replace (zn es + zn (n - es))%nat with (zn n) by (unfold zn; lia). f_equal.
  replace (zn n + zn tl)%nat with (zn (n + tl)) by (unfold zn; lia).
  apply slice_to_end. unfold lenZ, zn in *. subst L. lia.
Qed.

(* ACCEPTANCE: once the checks that precede the AEAD operation have passed (header, stream, index
   estimate and replay check, key by MKI, lengths, *out_len), the call fails with auth_fail — the
   session untouched — exactly when gcm_decrypt of (round keys of the RTP cipher, IV formed from the
   salt, the SSRC and the ESTIMATED index, AAD = the octets in front of the ciphertext, ciphertext,
   tag) fails; when it succeeds the call goes on (key budget, RFC 6904, replay window) *)
Theorem unprotect_aead_accept_iff w st est delta adv ki k w' r :
  call_ok w ->
  list_get (ss_list (w_s w)) (hdr_ssrc (in_pkt w)) = Some st -> stream_wf st -> s_cryptex st = false ->
  unprotect_aead_pre_fun (w_s w) (b_cap (w_b w)) (in_pkt w) = inl (st, (est, delta, adv), (ki, k)) ->
  unprotect_aead w = (w', r) ->
  let pkt := in_pkt w in
  let '(aad, ct, tag) := rtp_aead_rx_parts pkt (ak_tag (k_rtp_a k)) (s_mki_size st) in
  let dec := gcm_decrypt (ck_rks (k_rtp_c k)) (aead_rtp_iv (k_salt k) (hdr_ssrc pkt) est) aad ct tag in
  (r = inr st_auth_fail <-> dec = None) /\
  (dec = None -> w_s w' = w_s w) /\
  (forall pt, dec = Some pt ->
     match charge_fun (w_s w) (hdr_ssrc pkt) st ki with
     | (ss1, inr e) => r = inr e /\ w_s w' = ss1
     | (ss1, inl _) =>
       match aead_rx_xtn (s_enc_xtn st) (k_xtn_c k) (xtn_iv (hdr_ssrc pkt) est) pkt (aad ++ pt) with
       | None => r = inr st_parse_err /\ w_s w' = ss1
       | Some out =>
         r = inl (lenZ out) /\ take (zn (lenZ out)) (b_dst (w_b w')) = out /\
         w_s w' = sess_put (dir_session ss1 (hdr_ssrc pkt) (charged_stream st ki) dir_srtp_receiver_c) (hdr_ssrc pkt)
                    (rx_commit (dir_stream (charged_stream st ki) dir_srtp_receiver_c) est delta adv)
       end
     end).
Proof.
  intros OK Hg Hwf Hcx HP E. cbv zeta.
  pose proof (unprotect_aead_refines w st OK Hg Hwf Hcx) as R. rewrite E in R.
  unfold unprotect_aead_fun in R. rewrite HP in R. cbv zeta in R.
  destruct (rtp_aead_rx_parts (in_pkt w) (ak_tag (k_rtp_a k)) (s_mki_size st)) as [[aad ct] tag].
  destruct (gcm_decrypt (ck_rks (k_rtp_c k)) (aead_rtp_iv (k_salt k) (hdr_ssrc (in_pkt w)) est) aad ct tag)
    as [pt|] eqn:EG.
  - assert (NA : r <> inr st_auth_fail /\
       match charge_fun (w_s w) (hdr_ssrc (in_pkt w)) st ki with
       | (ss1, inr e) => r = inr e /\ w_s w' = ss1
       | (ss1, inl _) =>
         match aead_rx_xtn (s_enc_xtn st) (k_xtn_c k) (xtn_iv (hdr_ssrc (in_pkt w)) est) (in_pkt w) (aad ++ pt) with
         | None => r = inr st_parse_err /\ w_s w' = ss1
         | Some out =>
           r = inl (lenZ out) /\ take (zn (lenZ out)) (b_dst (w_b w')) = out /\
           w_s w' = sess_put (dir_session ss1 (hdr_ssrc (in_pkt w)) (charged_stream st ki) dir_srtp_receiver_c) (hdr_ssrc (in_pkt w))
                      (rx_commit (dir_stream (charged_stream st ki) dir_srtp_receiver_c) est delta adv)
         end
       end).
    { destruct (charge_fun (w_s w) (hdr_ssrc (in_pkt w)) st ki) as [ss1 [u|e]] eqn:EC.
      - destruct (aead_rx_xtn _ _ _ _ _) as [out|].
        + destruct r as [l|s].
          * destruct R as (o & A & -> & B & _). injection A as A1 A2. subst o.
            split; [discriminate|]. auto.
          * destruct R as (A & _). discriminate A.
        + destruct r as [l|s].
          * destruct R as (o & A & _). discriminate A.
          * destruct R as (A & _). injection A as A1 A2. subst s. split; [discriminate|]. auto.
      - destruct r as [l|s].
        + destruct R as (o & A & _). discriminate A.
        + destruct R as (A & _). injection A as A1 A2. subst s.
          split; [|auto]. destruct (charge_fun_status _ _ _ _ _ _ EC) as [->| ->]; discriminate. }
    destruct NA as [NA1 NA2].
    split; [split; [intros H; contradiction|intros H; discriminate H]|].
    split; [intros H; discriminate H|]. intros pt' H. injection H as <-. exact NA2.
  - destruct r as [l|s].
    + destruct R as (o & A & _). discriminate A.
    + destruct R as (A & _). injection A as A1 A2. subst s.
      split; [split; reflexivity|]. split; [intros _; symmetry; exact A1|]. intros pt H; discriminate H.
Qed.
Print Assumptions unprotect_aead_accept_iff.

(* and when one of the preceding checks fails, that status is returned and the session is unchanged *)
Theorem unprotect_aead_pre_reject w st e w' r :
  call_ok w ->
  list_get (ss_list (w_s w)) (hdr_ssrc (in_pkt w)) = Some st -> stream_wf st -> s_cryptex st = false ->
  unprotect_aead_pre_fun (w_s w) (b_cap (w_b w)) (in_pkt w) = inr e ->
  unprotect_aead w = (w', r) ->
  r = inr e /\ w_s w' = w_s w.
Proof.
  intros OK Hg Hwf Hcx HP E.
  pose proof (unprotect_aead_refines w st OK Hg Hwf Hcx) as R. rewrite E in R.
  unfold unprotect_aead_fun in R. rewrite HP in R.
  destruct r as [l|s].
  - destruct R as (out & A & _). discriminate A.
  - destruct R as (A & _). injection A as A1 A2. subst s. auto.
Qed.
Print Assumptions unprotect_aead_pre_reject.

(* ===================================================================== *)
(* 7. C01: the round trip                                                 *)
(* ===================================================================== *)
(* key selection on the receiver side: by the MKI at the very end of the packet *)
Definition aead_key_selected (rt : stream) (ki : Z) (k : skeys) : Prop :=
  if s_use_mki rt then find_mki (s_keys rt) (k_mki k) 0 = Some (ki, k)
  else hd_error (s_keys rt) = Some k /\ ki = 0.

(* distinct MKI values: the receiver finds the sender's key *)
Lemma aead_key_selected_nodup rt i k :
  NoDup (map k_mki (s_keys rt)) ->
  nth_error (s_keys rt) (if s_use_mki rt then i else O) = Some k ->
  aead_key_selected rt (if s_use_mki rt then Z.of_nat i else 0) k.
Proof.
  intros ND H. unfold aead_key_selected. destruct (s_use_mki rt).
  - exact (find_mki_nodup _ _ 0 _ ND H).
  - split; [|reflexivity]. destruct (s_keys rt); [discriminate|]. exact H.
Qed.

Lemma slice_mid' {A} (a b c : list A) o n :
  zn o = length a -> zn n = length b -> slice (zn o) (zn n) (a ++ b ++ c) = b.
Proof.
  intros Ho Hn. rewrite Ho, Hn. replace (length a) with (length a + 0)%nat by lia.
  rewrite slice_app_r, slice_0. apply take_app_exact.
Qed.

Section AEAD_RTP_ROUNDTRIP.
Variables (st rt : stream) (k : skeys) (ki est delta : Z) (adv : bool) (pkt wire : bytes) (rs ss1 : session) (C : Z).
Hypothesis HW : rtp_aead_wire st k est pkt = Some wire.
Hypothesis HC : 0 <= C < 9223372036854775808.
Hypothesis HCap : lenZ pkt <= C.
(* receiver: the sender's key, MKI configuration and encrypted extension ids; no cryptex.
   No condition on the service flags: GCM always encrypts and authenticates *)
Hypothesis Wrt : stream_wf rt.
Hypothesis RCX : s_cryptex rt = false.
Hypothesis EU : s_use_mki rt = s_use_mki st.
Hypothesis EXI : s_enc_xtn rt = s_enc_xtn st.
Hypothesis Hk : In k (s_keys rt).
Hypothesis Hsel : aead_key_selected rt ki k.
Hypothesis Hg : list_get (ss_list rs) (hdr_ssrc pkt) = Some rt.
(* the receiver's estimate is the sender's index, the packet is not a replay, the key not used up *)
Hypothesis Hidx : rx_index rt (hdr_seq pkt) = inl (est, delta, adv).
Hypothesis Hch : charge_fun rs (hdr_ssrc pkt) rt ki = (ss1, inl tt).

Theorem rtp_aead_round_trip_fun :
  unprotect_aead_fun rs C wire =
  (sess_put (dir_session ss1 (hdr_ssrc pkt) (charged_stream rt ki) dir_srtp_receiver_c) (hdr_ssrc pkt)
            (rx_commit (dir_stream (charged_stream rt ki) dir_srtp_receiver_c) est delta adv), inl pkt).
Proof.
  pose proof HW as HW'. unfold rtp_aead_wire in HW'.
  destruct (validate_rtp pkt (lenZ pkt) =? st_ok) eqn:EVb; cbn [negb] in HW'; [|discriminate].
  pose proof EVb as EV. apply Z.eqb_eq in EV.
  set (xiv := xtn_iv (hdr_ssrc pkt) est) in *.
  destruct (wire_xtn (s_enc_xtn st) (k_xtn_c k) xiv pkt) as [p1|] eqn:EX; [|discriminate].
  cbv zeta in HW'.
  set (es := enc0 pkt) in *. set (tl := ak_tag (k_rtp_a k)) in *.
  set (iv := aead_rtp_iv (k_salt k) (hdr_ssrc pkt) est) in *.
  destruct (gcm_encrypt (ck_rks (k_rtp_c k)) iv (take (zn es) p1) (drop (zn es) pkt) (zn tl)) as [ct tag] eqn:EG.
  injection HW' as HW''.
  set (mki := if s_use_mki st then k_mki k else []) in *.
  assert (HW' : take (zn es) p1 ++ (ct ++ tag) ++ mki = wire) by exact HW''. clear HW''.
  set (L := lenZ pkt) in *. set (msz := s_mki_size rt) in *.
  pose proof (enc0_bounds _ _ EV) as EB. fold es L in EB.
  destruct (wire_xtn_inv _ _ _ _ _ EV EX) as (LN & _ & D & _). fold es in D.
  destruct (wire_xtn_hdr _ _ _ _ _ EV EX) as (G1 & G2 & G3 & G4 & G5 & G6 & G7).
  pose proof (stream_wf_key _ _ Wrt Hk) as (MK & TA & _).
  pose proof Wrt as (M & U & _). rewrite max_mki_value in M. fold msz in M, MK, U.
  pose proof TA as [T _]. rewrite max_tag_value in T. fold tl in T.
  pose proof (gcm_encrypt_length _ _ _ _ _ _ _ EG) as [LG1 LG2].
  assert (LP1 : lenZ p1 = L) by (subst L; unfold lenZ; rewrite LN; reflexivity).
  set (A := take (zn es) p1) in *.
  assert (LA : lenZ A = es) by (subst A; unfold lenZ, zn in *; rewrite take_length; lia).
  assert (LCT : lenZ ct = L - es) by (unfold lenZ, zn in *; rewrite LG1, drop_length; subst L; unfold lenZ; lia).
  assert (LTG : lenZ tag = tl) by (unfold lenZ, zn in *; lia).
  assert (LM : lenZ mki = msz).
  { subst mki. rewrite <- EU. destruct (s_use_mki rt); [exact MK|]. rewrite (U eq_refl). reflexivity. }
  assert (LW : lenZ wire = L + tl + msz) by (rewrite <- HW', !lenZ_app; lia).
  (* the pieces of the wire image *)
  assert (WA : take (zn es) wire = A).
  { rewrite <- HW'. replace (zn es) with (length A) by (unfold lenZ, zn in *; lia). apply take_app_exact. }
  assert (WCT : slice (zn es) (zn (L - es)) wire = ct).
  { rewrite <- HW', <- app_assoc. apply slice_mid'; unfold lenZ, zn in *; lia. }
  assert (WTG : slice (zn L) (zn tl) wire = tag).
  { rewrite <- HW', <- app_assoc, (app_assoc A ct). apply slice_mid'; unfold lenZ, zn in *; rewrite ?app_length; lia. }
  assert (WMK : slice (zn (L + tl + msz - 0 - msz)) (zn msz) wire = mki).
  { rewrite <- HW', (app_assoc A). rewrite <- (app_nil_r mki) at 1.
    apply slice_mid'; unfold lenZ, zn in *; rewrite ?app_length; lia. }
  (* the header of the wire image is that of p1, whose fields are those of pkt *)
  assert (TW : take (zn es) wire = take (zn es) p1) by exact WA.
  pose proof (hdr_cc_range pkt) as CC. pose proof (hdr_len_eq pkt) as HLE. pose proof (xtn_len_ge pkt) as XG.
  assert (HX4 : hdr_x p1 = 1 -> hdr_len p1 + 4 <= Z.of_nat (zn es)).
  { intros X. rewrite G2 in X. rewrite G5. subst es. rewrite (enc0_eq pkt X). unfold zn. lia. }
  destruct (hdr_prefix wire p1 (zn es) TW ltac:(unfold zn; lia) HX4) as (W1 & W2 & W3 & W4 & W5 & W6).
  assert (VW : validate_rtp wire (lenZ wire) = st_ok).
  { apply (validate_rtp_longer wire p1 _ _ G7); [rewrite LW, LP1; lia|exact W1|exact W2|exact W6]. }
  rewrite G1 in W1. rewrite G2 in W2. rewrite G3 in W3. rewrite G4 in W4. rewrite G5 in W5. rewrite G6 in W6.
  (* the checks in front of the AEAD operation *)
  assert (RK : receiver_key_st rt wire (lenZ wire) 0 = inl (ki, k)).
  { unfold receiver_key_st. unfold aead_key_selected in Hsel. rewrite LW. fold msz.
    destruct (s_use_mki rt) eqn:EUr; cbn [negb].
    - destruct (L + tl + msz <? 0) eqn:Q1; [apply Z.ltb_lt in Q1; lia|].
      destruct (L + tl + msz - 0 <? msz) eqn:Q2; [apply Z.ltb_lt in Q2; lia|].
      rewrite WMK. subst mki. rewrite <- EU. rewrite Hsel. reflexivity.
    - destruct Hsel as [Hh ->]. destruct (s_keys rt) as [|k1 t]; [discriminate|]. cbn in Hh. injection Hh as ->. reflexivity. }
  assert (PRE : unprotect_aead_pre_fun rs C wire = inl (rt, (est, delta, adv), (ki, k))).
  { unfold unprotect_aead_pre_fun. cbv zeta. rewrite VW. cbn [negb]. rewrite W4, Hg, W3, Hidx, RK. cbn [snd].
    fold tl msz. rewrite W6, LW. fold es.
    replace (L + tl + msz - tl - msz) with L by lia.
    replace (L + tl + msz - es - msz) with (L - es + tl) by lia.
    replace (L + tl + msz - msz - tl) with L by lia.
    rewrite !u64_small by lia.
    destruct (L <? es + 0) eqn:Q1; [apply Z.ltb_lt in Q1; lia|].
    destruct (L - es + tl <? tl) eqn:Q2; [apply Z.ltb_lt in Q2; lia|].
    destruct (C <? L) eqn:Q3; [apply Z.ltb_lt in Q3; lia|]. reflexivity. }
  unfold unprotect_aead_fun. rewrite PRE. cbv zeta.
  unfold rtp_aead_rx_parts. cbv zeta. fold tl msz. rewrite W6, LW. fold es.
  replace (L + tl + msz - msz - tl) with L by lia.
  rewrite WA, WCT, WTG, W4. fold iv.
  rewrite (gcm_decrypt_encrypt _ _ _ _ _ _ _ EG). rewrite Hch.
  (* RFC 6904 undone on the output *)
  assert (EP1 : A ++ drop (zn es) pkt = p1) by (subst A; rewrite <- D; apply take_drop_id).
  rewrite EP1. fold xiv.
  assert (XU : aead_rx_xtn (s_enc_xtn rt) (k_xtn_c k) xiv wire p1 = Some pkt).
  { unfold aead_rx_xtn. rewrite W2, W5, EXI. unfold wire_xtn in EX.
    destruct (k_xtn_c k) as [xk|]; [|exact (eq_sym EX)].
    destruct (hdr_x pkt =? 1) eqn:X1; [|exact (eq_sym EX)]. apply Z.eqb_eq in X1.
    apply xtn_apply_involutive; [lia| |exact EX].
    rewrite xtn_len_be16. fold (enc0 pkt). rewrite <- (enc0_eq pkt X1). fold es L. lia. }
  rewrite XU. reflexivity.
Qed.
End AEAD_RTP_ROUNDTRIP.
Print Assumptions rtp_aead_round_trip_fun.

(* ROUND TRIP for worlds.  st, k, est: the sender's stream, key and packet index; w: the receiver's
   world, whose input block holds the wire image; rt: the receiver's stream for the packet's SSRC.
   In place or out of place, whatever the destination held before. *)
Theorem rtp_aead_round_trip st k est pkt wire w rt ki delta adv ss1 :
  rtp_aead_wire st k est pkt = Some wire ->
  call_ok w -> in_pkt w = wire -> lenZ pkt <= b_cap (w_b w) ->
  list_get (ss_list (w_s w)) (hdr_ssrc pkt) = Some rt -> stream_wf rt -> s_cryptex rt = false ->
  s_use_mki rt = s_use_mki st -> s_enc_xtn rt = s_enc_xtn st ->
  In k (s_keys rt) -> aead_key_selected rt ki k ->
  rx_index rt (hdr_seq pkt) = inl (est, delta, adv) ->
  charge_fun (w_s w) (hdr_ssrc pkt) rt ki = (ss1, inl tt) ->
  exists w', unprotect_aead w = (w', inl (lenZ pkt)) /\
             take (zn (lenZ pkt)) (b_dst (w_b w')) = pkt /\
             w_s w' = sess_put (dir_session ss1 (hdr_ssrc pkt) (charged_stream rt ki) dir_srtp_receiver_c) (hdr_ssrc pkt)
                        (rx_commit (dir_stream (charged_stream rt ki) dir_srtp_receiver_c) est delta adv) /\
             b_oob (w_b w') = false /\ b_src (w_b w') = b_src (w_b w).
Proof.
  intros HW OK Hin HCp Hget Wrt RCX EU EXI Hk Hsel Hidx Hch.
  pose proof OK as (HO & HL & HC & HD & HS).
  pose proof (rtp_aead_round_trip_fun st rt k ki est delta adv pkt wire (w_s w) ss1 (b_cap (w_b w))
                HW HC HCp Wrt EU EXI Hk Hsel Hget Hidx Hch) as F.
  (* the SSRC the receiver reads is the packet's *)
  assert (ES : hdr_ssrc wire = hdr_ssrc pkt).
  { revert F. unfold unprotect_aead_fun, unprotect_aead_pre_fun. cbv zeta.
    destruct (negb (validate_rtp wire (lenZ wire) =? st_ok)); [intros H; discriminate H|].
    destruct (list_get (ss_list (w_s w)) (hdr_ssrc wire)) as [rt'|] eqn:EG; [|intros H; discriminate H].
    intros _.
    pose proof HW as HW'. unfold rtp_aead_wire in HW'.
    destruct (validate_rtp pkt (lenZ pkt) =? st_ok) eqn:EVb; cbn [negb] in HW'; [|discriminate].
    apply Z.eqb_eq in EVb.
    destruct (wire_xtn (s_enc_xtn st) (k_xtn_c k) (xtn_iv (hdr_ssrc pkt) est) pkt) as [p1|] eqn:EX; [|discriminate].
    cbv zeta in HW'. destruct (gcm_encrypt _ _ _ _ _) as [ct tag]. injection HW' as HW'.
    pose proof (enc0_bounds _ _ EVb) as EB.
    destruct (wire_xtn_inv _ _ _ _ _ EVb EX) as (LN & _ & _ & _).
    destruct (wire_xtn_hdr _ _ _ _ _ EVb EX) as (G1 & G2 & G3 & G4 & G5 & G6 & G7).
    assert (TW : take (zn (enc0 pkt)) wire = take (zn (enc0 pkt)) p1).
    { rewrite <- HW'. apply take_app_n. rewrite take_length. unfold lenZ, zn in *. lia. }
    pose proof (hdr_cc_range pkt) as CC. pose proof (hdr_len_eq pkt) as HLE. pose proof (xtn_len_ge pkt) as XG.
    assert (HX4 : hdr_x p1 = 1 -> hdr_len p1 + 4 <= Z.of_nat (zn (enc0 pkt))).
    { intros X. rewrite G2 in X. rewrite G5. rewrite (enc0_eq pkt X). unfold zn. lia. }
    destruct (hdr_prefix wire p1 _ TW ltac:(unfold zn; lia) HX4) as (_ & _ & _ & W4 & _).
    rewrite W4. exact G4. }
  assert (Hget' : list_get (ss_list (w_s w)) (hdr_ssrc (in_pkt w)) = Some rt) by (rewrite Hin, ES; exact Hget).
  pose proof (unprotect_aead_refines w rt OK Hget' Wrt RCX) as R. rewrite Hin, F in R.
  destruct (unprotect_aead w) as [w' [l|s]].
  - destruct R as (out & A & -> & B & Cc & Dd). injection A as A1 A2. subst out.
    exists w'. auto.
  - destruct R as (A & _). discriminate A.
Qed.
Print Assumptions rtp_aead_round_trip.

(* protect followed by unprotect: the statement of C01 on two worlds, each call in place or out of
   place *)
Corollary rtp_aead_protect_unprotect i ws st0 ws' l wr rt ki delta adv ss1 :
  (* sender *)
  call_ok ws -> list_get (ss_list (w_s ws)) (hdr_ssrc (in_pkt ws)) = Some st0 -> stream_wf st0 -> s_cryptex st0 = false ->
  protect_aead i ws = (ws', inl l) ->
  (* the receiver's input block holds the l octets the sender produced *)
  call_ok wr -> in_pkt wr = take (zn l) (b_dst (w_b ws')) -> b_len (w_b ws) <= b_cap (w_b wr) ->
  list_get (ss_list (w_s wr)) (hdr_ssrc (in_pkt ws)) = Some rt -> stream_wf rt -> s_cryptex rt = false ->
  s_use_mki rt = s_use_mki st0 -> s_enc_xtn rt = s_enc_xtn st0 -> s_keys rt = s_keys st0 ->
  (forall kj k, sender_key_st (dir_stream st0 dir_srtp_sender_c) i = inl (kj, k) -> aead_key_selected rt ki k) ->
  (forall est st3 kj, index_step (charged_stream (dir_stream st0 dir_srtp_sender_c) kj) (hdr_seq (in_pkt ws)) = inl (est, st3) ->
                      rx_index rt (hdr_seq (in_pkt ws)) = inl (est, delta, adv)) ->
  charge_fun (w_s wr) (hdr_ssrc (in_pkt ws)) rt ki = (ss1, inl tt) ->
  exists wr', unprotect_aead wr = (wr', inl (b_len (w_b ws))) /\
              take (zn (b_len (w_b ws))) (b_dst (w_b wr')) = in_pkt ws /\ b_oob (w_b wr') = false.
Proof.
  intros Hcs Hgs Wst CX0 EPr Hcr Hin HCp Hgr Wrt RCX E3 E4 EK Hsel Hidx Hch.
  destruct (protect_aead_wire i ws st0 ws' l Hcs Hgs Wst CX0 EPr)
    as (kj & k & ss2 & est & st3 & wire & SK & _ & IS & HW & -> & Hd & _).
  pose proof (dir_stream_cfg st0 dir_srtp_sender_c) as (CK & _).
  assert (Hk : In k (s_keys rt)) by (rewrite EK, <- CK; exact (sender_key_st_In _ _ _ _ SK)).
  assert (LP : lenZ (in_pkt ws) = b_len (w_b ws)).
  { destruct Hcs as (_ & HL & _ & _ & HS). unfold in_pkt, lenZ, zn, size_ok in *. rewrite take_length. lia. }
  rewrite Hd in Hin.
  destruct (rtp_aead_round_trip st0 k est (in_pkt ws) wire wr rt ki delta adv ss1 HW Hcr Hin ltac:(lia) Hgr Wrt RCX
              E3 E4 Hk (Hsel _ _ SK) (Hidx _ _ _ IS) Hch) as (wr' & U1 & U2 & _ & U3 & _).
  rewrite LP in U1, U2. exists wr'. auto.
Qed.
Print Assumptions rtp_aead_protect_unprotect.

(* ===================================================================== *)
(* 8. non-vacuity by computation: AES-GCM-128 with a 16-octet tag, RFC 6904 with an AES-ICM-128
      header-extension cipher, MKI, cryptex; protect_aead then unprotect_aead in all alias
      combinations (destination prefilled with 0xEE / 0x00)                 *)
(* ===================================================================== *)
From Srtp Require Import RtpExamples.
Module AeadRtpExample.
Import RtpEx.
Definition bytes_from (a n : nat) : bytes := map N.of_nat (seq a n).
Definition gkeys (a : nat) (tl : Z) (xtn : bool) (mki : bytes) : skeys :=
  let c := cipher_key SRTP_AES_GCM_128_c 28 (bytes_from a 28) in
  let h := auth_key SRTP_NULL_AUTH_c 0 tl [] in
  {| k_rtp_c := c; k_rtp_a := h;
     k_xtn_c := if xtn then Some (cipher_key SRTP_AES_ICM_128_c 30 (bytes_from (a + 30) 30)) else None;
     k_rtcp_c := c; k_rtcp_a := h;
     k_salt := bytes_from (a + 50) 12; k_csalt := bytes_from (a + 70) 12; k_mki := mki |}.
Definition gstream (mki cryptex : bool) (ids : bytes) : stream :=
  {| s_ssrc := ssrc; s_clone := false;
     s_keys := if mki then [gkeys 1 16 (negb (match ids with [] => true | _ => false end)) [7%N; 1%N];
                            gkeys 100 16 (negb (match ids with [] => true | _ => false end)) [7%N; 2%N]]
               else [gkeys 1 16 (negb (match ids with [] => true | _ => false end)) []];
     s_limits := if mki then [mk_limit; mk_limit] else [mk_limit];
     s_rdbx := {| index := 0; wlen := 128; mask := 0%N |}; s_rdb := rdb_init;
     s_pending_roc := 0; s_dir := 0; s_rtp_serv := 3; s_rtcp_serv := 3;
     s_use_mki := mki; s_mki_size := if mki then 2 else 0; s_allow_repeat := false; s_cryptex := cryptex; s_enc_xtn := ids |}.
Definition gsess (s : stream) : session := {| ss_template := None; ss_list := [s]; ss_cap := 2 |}.
Definition g_protect (s : stream) (i : Z) (b : bufs) : bytes + Z :=
  match protect_aead i (Witness.mkw (gsess s) b) with
  | (w', inl l) => inl (take (zn l) (b_dst (w_b w')))
  | (_, inr e) => inr e
  end.
Definition g_unprotect (s : stream) (b : bufs) : bytes + Z :=
  match unprotect_aead (Witness.mkw (gsess s) b) with
  | (w', inl l) => inl (take (zn l) (b_dst (w_b w')))
  | (_, inr e) => inr e
  end.
Definition isl (r : bytes + Z) (p : bytes) : bool := match r with inl q => beqb q p | inr _ => false end.
Definition g_four_ways (s : stream) (i : Z) (pkt : bytes) : bool :=
  match g_protect s i (inplace pkt), g_protect s i (outofplace 238 pkt), g_protect s i (outofplace 0 pkt) with
  | inl w1, inl w2, inl w3 =>
    beqb w1 w2 && beqb w1 w3 && negb (beqb (take (length pkt) w1) pkt) &&
    isl (g_unprotect s (inplace w1)) pkt && isl (g_unprotect s (outofplace 238 w1)) pkt && isl (g_unprotect s (outofplace 0 w1)) pkt
  | _, _, _ => false
  end.
(* V=2, X=1, CC=0: one-byte-form extension of one word (id 1, 3 octets), 6 octets of payload *)
Definition pkt_x0 : bytes := [144;96;18;55; 0;0;0;9; 202;254;186;190; 190;222;0;1; 18;170;187;204; 1;2;3;4;5;6]%N.

(* streams without cryptex: plain, RFC 6904 one- and two-byte forms, with and without MKI *)
Example gcm_plain : g_four_ways (gstream false false []) 0 pkt_x1 = true.                 Proof. vm_compute. reflexivity. Qed.
Example gcm_xtn_one_byte_mki : g_four_ways (gstream true false [1%N; 2%N]) 1 pkt_x1 = true.  Proof. vm_compute. reflexivity. Qed.
Example gcm_xtn_two_byte : g_four_ways (gstream false false [1%N; 3%N]) 0 pkt_x2 = true.   Proof. vm_compute. reflexivity. Qed.
Example gcm_empty_payload :
  match g_protect (gstream false false []) 0 (inplace pkt_empty) with
  | inl w1 => g_unprotect (gstream false false []) (outofplace 1 w1) = inl pkt_empty /\ length w1 = 28%nat
  | inr _ => False
  end.
Proof. vm_compute. split; reflexivity. Qed.
(* C04: a flipped octet anywhere in the header (fixed part, CSRC, extension header, extension
   element) or in the payload or tag is refused with auth_fail *)
Definition flip (n : nat) (l : bytes) : bytes := splice n [N.lxor (nthb l n) 1] l.
Example gcm_tamper_refused :
  match g_protect (gstream false false []) 0 (inplace pkt_x1) with
  | inl w1 =>
    forallb (fun n => match g_unprotect (gstream false false []) (outofplace 0 (flip n w1)) with
                      | inr e => e =? st_auth_fail | inl _ => false end)
            [1; 5; 13; 21; 23; 25; 31; 35; 50]%nat = true
  | inr _ => False
  end.
Proof. vm_compute. reflexivity. Qed.
(* cryptex (RFC 9335) under GCM: in place with CSRCs and out of place without CSRCs round-trip;
   out of place with CSRCs is refused on both sides (st_cryptex_err = 29), as documented *)
Example gcm_cryptex_inplace_csrc :
  match g_protect (gstream false true []) 0 (inplace pkt_x1) with
  | inl w1 => g_unprotect (gstream false true []) (inplace w1) = inl pkt_x1 /\
              g_unprotect (gstream false true []) (outofplace 0 w1) = inr st_cryptex_err /\
              slice 20 2 w1 = [192; 222]%N
  | inr _ => False
  end.
Proof. vm_compute. repeat split; reflexivity. Qed.
Example gcm_cryptex_outofplace_csrc_refused :
  g_protect (gstream false true []) 0 (outofplace 0 pkt_x1) = inr st_cryptex_err.
Proof. vm_compute. reflexivity. Qed.
Example gcm_cryptex_no_csrc : g_four_ways (gstream false true []) 0 pkt_x0 = true.
Proof. vm_compute. reflexivity. Qed.
End AeadRtpExample.
