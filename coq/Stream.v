(* Stream.v — model of policy validation, stream allocation, key derivation and
   stream initialisation / cloning / deallocation in srtp/srtp.c (internal
   crypto configuration: NULL and AES-ICM-128/256 ciphers, NULL and HMAC-SHA1
   auth).  Allocation attempts are issued in the C order so that
   fail-the-n-th-allocation histories correspond.  Model only. *)
From Coq Require Import NArith ZArith List Bool.
From Srtp Require Import Util Constants KeyLimit Rdb Rdbx Icm World.
From Srtp.Crypto Require Import AES HMAC.
Import ListNotations.
Local Open Scope Z_scope.

(* ---- srtp_valid_policy ---- *)
Definition valid_policy (p : policy) : Z :=
  if (SRTP_MAX_TAG_LEN_c <? cp_taglen (p_rtp p)) || (SRTP_MAX_TAG_LEN_c <? cp_taglen (p_rtcp p)) then st_bad_param
  else if p_usekey p then
    if p_use_mki p || negb (p_mki_size p =? 0) then st_bad_param else st_ok
  else
    if p_nkeys p <=? 0 then st_bad_param
    else if SRTP_MAX_NUM_MASTER_KEYS_c <? p_nkeys p then st_bad_param
    else if (if p_use_mki p then (p_mki_size p =? 0) || (SRTP_MAX_MKI_LEN_c <? p_mki_size p)
             else negb (p_mki_size p =? 0)) then st_bad_param
    else if existsb (fun km => p_use_mki p && match snd km with [] => true | _ => false end)
                    (take (zn (p_nkeys p)) (p_keys p)) then st_bad_param
    else st_ok.

(* ---- auth objects ---- *)
Definition auth_alloc_status (id klen tlen : Z) : Z :=
  if id =? SRTP_NULL_AUTH_c then st_ok
  else if id =? SRTP_HMAC_SHA1_c then
    if (hmac_max_key_c <? klen) || (hmac_max_out_c <? tlen) then st_bad_param else st_ok
  else st_fail.

Definition auth_key (id klen tlen : Z) (key : bytes) : akey :=
  if id =? SRTP_HMAC_SHA1_c then
    {| ak_kind := id; ak_key := take (zn klen) key; ak_klen := klen; ak_tag := tlen; ak_prefix := 0 |}
  else {| ak_kind := id; ak_key := []; ak_klen := klen; ak_tag := tlen; ak_prefix := tlen |}.

(* srtp_auth_compute over msg: HMAC writes tag_len bytes; the null auth writes nothing *)
Definition auth_compute (a : akey) (msg : bytes) : bytes :=
  if ak_kind a =? SRTP_HMAC_SHA1_c then take (zn (ak_tag a)) (hmac_sha1 (ak_key a) msg) else [].

(* ---- allocation helpers ---- *)
(* n allocation attempts in a row; false as soon as one fails (k = blocks obtained so far is
   returned so that the caller can release them) *)
Fixpoint alloc_seq (n : nat) : M (bool * Z) :=
  match n with
  | O => ret (true, 0)
  | S n' => ok <- alloc1 ;;
            if ok then (r <- alloc_seq n' ;; ret (fst r, snd r + 1)) else ret (false, 0)
  end.

(* ---- srtp_stream_alloc ----
   Returns the number of heap blocks the new stream owns.  On any failure everything obtained
   so far is released (srtp_stream_dealloc(str, NULL)) and the call exits with the status. *)

(* the header-extension cipher of a policy (srtp_stream_alloc): the RTP cipher type, except that
   a GCM policy encrypts header extensions with the corresponding ICM cipher (RFC 7714 8.3) *)
Definition xtn_cipher_id (p : policy) : Z :=
  if cfg_gcm_c && (cp_cipher (p_rtp p) =? SRTP_AES_GCM_128_c) then SRTP_AES_ICM_128_c
  else if cfg_gcm_c && (cp_cipher (p_rtp p) =? SRTP_AES_GCM_256_c) then SRTP_AES_ICM_256_c
  else cp_cipher (p_rtp p).
Definition xtn_cipher_klen (p : policy) : Z :=
  if cfg_gcm_c && (cp_cipher (p_rtp p) =? SRTP_AES_GCM_128_c) then SRTP_AES_ICM_128_KEY_LEN_WSALT_c
  else if cfg_gcm_c && (cp_cipher (p_rtp p) =? SRTP_AES_GCM_256_c) then SRTP_AES_ICM_256_KEY_LEN_WSALT_c
  else cp_keylen (p_rtp p).

(* cipher object: ICM = struct + context (the struct is freed again if the context fails) *)
Definition alloc_cipher (id klen : Z) (owned : Z) : M Z :=
  let st := cipher_alloc_status id klen in
  if negb (st =? st_ok) then free_n owned ;;; exit_with st
  else
    let nb := cipher_blocks (cipher_alg_of id klen) in
    r <- alloc_seq (zn nb) ;;
    if fst r then ret (owned + nb)
    else free_n (owned + snd r) ;;; exit_with st_alloc_fail.

(* the GCM alloc function also checks the tag length it is given (16 or 8); same status and same
   point (before any allocation) as its key-length check *)
Definition alloc_cipher_t (id klen tlen : Z) (owned : Z) : M Z :=
  if cfg_gcm_c && is_gcm_alg id && negb ((tlen =? GCM_AUTH_TAG_LEN_c) || (tlen =? GCM_AUTH_TAG_LEN_8_c))
  then free_n owned ;;; exit_with st_bad_param
  else alloc_cipher id klen owned.

Definition alloc_auth (id klen tlen : Z) (owned : Z) : M Z :=
  let st := auth_alloc_status id klen tlen in
  if negb (st =? st_ok) then free_n owned ;;; exit_with st
  else ok <- alloc1 ;; if ok then ret (owned + 1) else free_n owned ;;; exit_with st_alloc_fail.

Definition alloc_block (owned : Z) : M Z :=
  ok <- alloc1 ;; if ok then ret (owned + 1) else free_n owned ;;; exit_with st_alloc_fail.

Definition num_keys (p : policy) : Z := if p_usekey p then 1 else p_nkeys p.

Fixpoint alloc_keys (n : nat) (p : policy) (owned : Z) : M Z :=
  match n with
  | O => ret owned
  | S n' =>
    o1 <- alloc_cipher_t (cp_cipher (p_rtp p)) (cp_keylen (p_rtp p)) (cp_taglen (p_rtp p)) owned ;;
    o2 <- alloc_auth (cp_auth (p_rtp p)) (cp_authkeylen (p_rtp p)) (cp_taglen (p_rtp p)) o1 ;;
    o3 <- alloc_cipher_t (cp_cipher (p_rtcp p)) (cp_keylen (p_rtcp p)) (cp_taglen (p_rtcp p)) o2 ;;
    o4 <- alloc_auth (cp_auth (p_rtcp p)) (cp_authkeylen (p_rtcp p)) (cp_taglen (p_rtcp p)) o3 ;;
    o5 <- alloc_block o4 ;;   (* key limit *)
    alloc_keys n' p o5
  end.

Fixpoint alloc_xtn_ciphers (n : nat) (p : policy) (owned : Z) : M Z :=
  match n with
  | O => ret owned
  | S n' => o <- alloc_cipher (xtn_cipher_id p) (xtn_cipher_klen p) owned ;; alloc_xtn_ciphers n' p o
  end.

Definition has_xtn (p : policy) : bool := negb (match p_enc_xtn p with [] => true | _ => false end).

Definition stream_alloc (p : policy) : M Z :=
  check_st (valid_policy p) ;;;
  ok <- alloc1 ;;
  if negb ok then exit_with st_alloc_fail else
  o1 <- alloc_block 1 ;;                   (* session_keys array *)
  o2 <- alloc_keys (zn (num_keys p)) p o1 ;;
  if has_xtn p then
    o3 <- alloc_block o2 ;;                (* enc_xtn_hdr copy *)
    alloc_xtn_ciphers (zn (num_keys p)) p o3
  else ret o2.

(* ---- key derivation (default KDF, AES-CM keystream with the label in octet 7) ---- *)
Definition full_key_length (alg : Z) : Z :=
  if (alg =? SRTP_NULL_CIPHER_c) || (alg =? SRTP_AES_ICM_128_c) then SRTP_AES_ICM_128_KEY_LEN_WSALT_c
  else if alg =? SRTP_AES_ICM_192_c then SRTP_AES_ICM_192_KEY_LEN_WSALT_c
  else if alg =? SRTP_AES_ICM_256_c then SRTP_AES_ICM_256_KEY_LEN_WSALT_c
  else if alg =? SRTP_AES_GCM_128_c then SRTP_AES_GCM_128_KEY_LEN_WSALT_c
  else if alg =? SRTP_AES_GCM_256_c then SRTP_AES_GCM_256_KEY_LEN_WSALT_c
  else 0.
Definition base_key_length (alg klen : Z) : Z :=
  if alg =? SRTP_NULL_CIPHER_c then 0
  else if is_icm_alg alg then klen - SRTP_SALT_LEN_c
  else if is_gcm_alg alg then klen - SRTP_AEAD_SALT_LEN_c
  else klen.

(* keystream of the KDF cipher for one label *)
Definition kdf_generate (kdf : ckey) (label n : Z) : bytes :=
  let iv := zeros 7 ++ [Z.to_N label] ++ zeros 8 in
  let '(_, _, o) := cipher_output (cipher_start kdf iv) n in o.

(* tmp_key[MAX_SRTP_KEY_LEN]: writes beyond the array are flagged (scratch overflow) *)
Definition tmp_write (t : bytes * bool) (off : Z) (v : bytes) : bytes * bool :=
  (splice (zn off) v (fst t), snd t || (MAX_SRTP_KEY_LEN_c <? off + lenZ v)).

Record derived := { d_keys : skeys; d_overflow : bool }.

(* srtp_stream_init_keys for one master key, after the MKI copy.  st_ok or the exit status;
   the KDF cipher's two allocations are performed by the caller. *)
Definition derive_keys (p : policy) (mkey mki : bytes) : Z * option derived :=
  let rtp_alg := cipher_alg_of (cp_cipher (p_rtp p)) (cp_keylen (p_rtp p)) in
  let rtcp_alg := cipher_alg_of (cp_cipher (p_rtcp p)) (cp_keylen (p_rtcp p)) in
  let in1 := full_key_length rtp_alg in
  let in2 := full_key_length rtcp_alg in
  let input_keylen := if in1 <? in2 then in2 else in1 in
  let rtp_keylen := cp_keylen (p_rtp p) in
  let rtcp_keylen := cp_keylen (p_rtcp p) in
  let rtp_base := base_key_length rtp_alg rtp_keylen in
  let rtp_salt := rtp_keylen - rtp_base in
  if (MAX_SRTP_KEY_LEN_c <? rtp_keylen) || (MAX_SRTP_KEY_LEN_c <? rtcp_keylen)
     || (MAX_SRTP_KEY_LEN_c <? cp_authkeylen (p_rtp p)) || (MAX_SRTP_KEY_LEN_c <? cp_authkeylen (p_rtcp p))
  then (st_bad_param, None)
  else if (rtp_keylen <? input_keylen) && (rtcp_keylen <? input_keylen) then (st_bad_param, None)
  else
    let kdf_keylen :=
      if (kdf_keylen_small_c <? rtp_keylen) || (kdf_keylen_small_c <? rtcp_keylen) || (kdf_keylen_small_c <? input_keylen)
      then kdf_keylen_big_c else kdf_keylen_small_c in
    let t0 := (splice 0 (take (zn input_keylen) mkey) (zeros (zn MAX_SRTP_KEY_LEN_c)), false) in
    (* KDF cipher: ICM-128 for 30, ICM-256 for 46 *)
    let kalg := if kdf_keylen =? SRTP_AES_ICM_256_KEY_LEN_WSALT_c then SRTP_AES_ICM_256_c else SRTP_AES_ICM_128_c in
    let kdf := cipher_key kalg kdf_keylen (fst t0) in
    let t1 := tmp_write t0 0 (kdf_generate kdf label_rtp_encryption_c rtp_base) in
    let t2 := if 0 <? rtp_salt then tmp_write t1 rtp_base (kdf_generate kdf label_rtp_salt_c rtp_salt) else t1 in
    let salt := if 0 <? rtp_salt then slice (zn rtp_base) (zn SRTP_AEAD_SALT_LEN_c) (fst t2) else zeros (zn SRTP_AEAD_SALT_LEN_c) in
    let rtp_c := cipher_key rtp_alg rtp_keylen (fst t2) in
    (* header-extension cipher (same type as the RTP cipher: main KDF reused) *)
    let '(t4, xtn_c) :=
      if has_xtn p then
        let t3 := tmp_write t2 0 (kdf_generate kdf label_rtp_header_encryption_c rtp_base) in
        let t4 := if 0 <? rtp_salt then tmp_write t3 rtp_base (kdf_generate kdf label_rtp_header_salt_c rtp_salt) else t3 in
        (t4, Some (cipher_key rtp_alg rtp_keylen (fst t4)))
      else (t2, None) in
    let t5 := tmp_write t4 0 (kdf_generate kdf label_rtp_msg_auth_c (cp_authkeylen (p_rtp p))) in
    let rtp_a := auth_key (cp_auth (p_rtp p)) (cp_authkeylen (p_rtp p)) (cp_taglen (p_rtp p)) (fst t5) in
    let rtcp_base := base_key_length rtcp_alg rtcp_keylen in
    let rtcp_salt := rtcp_keylen - rtcp_base in
    let t6 := tmp_write t5 0 (kdf_generate kdf label_rtcp_encryption_c rtcp_base) in
    let t7 := if 0 <? rtcp_salt then tmp_write t6 rtcp_base (kdf_generate kdf label_rtcp_salt_c rtcp_salt) else t6 in
    let csalt := if 0 <? rtcp_salt then slice (zn rtcp_base) (zn SRTP_AEAD_SALT_LEN_c) (fst t7) else zeros (zn SRTP_AEAD_SALT_LEN_c) in
    let rtcp_c := cipher_key rtcp_alg rtcp_keylen (fst t7) in
    let t8 := tmp_write t7 0 (kdf_generate kdf label_rtcp_msg_auth_c (cp_authkeylen (p_rtcp p))) in
    let rtcp_a := auth_key (cp_auth (p_rtcp p)) (cp_authkeylen (p_rtcp p)) (cp_taglen (p_rtcp p)) (fst t8) in
    (st_ok, Some {| d_keys := {| k_rtp_c := rtp_c; k_rtp_a := rtp_a; k_xtn_c := xtn_c;
                                 k_rtcp_c := rtcp_c; k_rtcp_a := rtcp_a;
                                 k_salt := salt; k_csalt := csalt; k_mki := mki |};
                    d_overflow := snd t8 |}).

(* srtp_stream_init_keys for a policy whose RTP cipher is GCM AND that encrypts header extensions: the
   header-extension cipher is the ICM cipher of the matching size, keyed from its own KDF instance over the
   first base + salt octets of the master key (the 12-octet GCM salt zero-padded to the ICM salt length).
   Everything else as derive_keys.  (The second KDF cipher's two allocations are not modelled: heap counters
   are not compared in the GCM-capable configurations.) *)
Definition derive_keys_gcm (p : policy) (mkey mki : bytes) : Z * option derived :=
  let rtp_alg := cipher_alg_of (cp_cipher (p_rtp p)) (cp_keylen (p_rtp p)) in
  let rtcp_alg := cipher_alg_of (cp_cipher (p_rtcp p)) (cp_keylen (p_rtcp p)) in
  let in1 := full_key_length rtp_alg in
  let in2 := full_key_length rtcp_alg in
  let input_keylen := if in1 <? in2 then in2 else in1 in
  let rtp_keylen := cp_keylen (p_rtp p) in
  let rtcp_keylen := cp_keylen (p_rtcp p) in
  let rtp_base := base_key_length rtp_alg rtp_keylen in
  let rtp_salt := rtp_keylen - rtp_base in
  if (MAX_SRTP_KEY_LEN_c <? rtp_keylen) || (MAX_SRTP_KEY_LEN_c <? rtcp_keylen)
     || (MAX_SRTP_KEY_LEN_c <? cp_authkeylen (p_rtp p)) || (MAX_SRTP_KEY_LEN_c <? cp_authkeylen (p_rtcp p))
  then (st_bad_param, None)
  else if (rtp_keylen <? input_keylen) && (rtcp_keylen <? input_keylen) then (st_bad_param, None)
  else
    let kdf_keylen :=
      if (kdf_keylen_small_c <? rtp_keylen) || (kdf_keylen_small_c <? rtcp_keylen) || (kdf_keylen_small_c <? input_keylen)
      then kdf_keylen_big_c else kdf_keylen_small_c in
    let t0 := (splice 0 (take (zn input_keylen) mkey) (zeros (zn MAX_SRTP_KEY_LEN_c)), false) in
    (* KDF cipher: ICM-128 for 30, ICM-256 for 46 *)
    let kalg := if kdf_keylen =? SRTP_AES_ICM_256_KEY_LEN_WSALT_c then SRTP_AES_ICM_256_c else SRTP_AES_ICM_128_c in
    let kdf := cipher_key kalg kdf_keylen (fst t0) in
    let t1 := tmp_write t0 0 (kdf_generate kdf label_rtp_encryption_c rtp_base) in
    let t2 := if 0 <? rtp_salt then tmp_write t1 rtp_base (kdf_generate kdf label_rtp_salt_c rtp_salt) else t1 in
    let salt := if 0 <? rtp_salt then slice (zn rtp_base) (zn SRTP_AEAD_SALT_LEN_c) (fst t2) else zeros (zn SRTP_AEAD_SALT_LEN_c) in
    let rtp_c := cipher_key rtp_alg rtp_keylen (fst t2) in
    (* header-extension cipher (same type as the RTP cipher: main KDF reused) *)
    let '(t4, xtn_c) :=
      if has_xtn p then
          (* a GCM policy: ICM cipher of the matching size, keyed from its own KDF instance over the first
             base + salt octets of the master key (the 12-octet GCM salt zero-padded to the ICM salt length) *)
          let xklen := xtn_cipher_klen p in
          let xalg := cipher_alg_of (xtn_cipher_id p) xklen in
          let xbase := base_key_length xalg xklen in
          let xsalt := if rtp_salt <? xklen - xbase then rtp_salt else xklen - xbase in
          let xk := splice 0 (take (zn (xbase + xsalt)) mkey) (zeros (zn MAX_SRTP_KEY_LEN_c)) in
          let xkdf := cipher_key kalg kdf_keylen xk in
          let t3 := tmp_write t2 0 (kdf_generate xkdf label_rtp_header_encryption_c xbase) in
          let t4 := if 0 <? xsalt then tmp_write t3 xbase (kdf_generate xkdf label_rtp_header_salt_c xsalt) else t3 in
          (t4, Some (cipher_key xalg xklen (fst t4)))
      else (t2, None) in
    let t5 := tmp_write t4 0 (kdf_generate kdf label_rtp_msg_auth_c (cp_authkeylen (p_rtp p))) in
    let rtp_a := auth_key (cp_auth (p_rtp p)) (cp_authkeylen (p_rtp p)) (cp_taglen (p_rtp p)) (fst t5) in
    let rtcp_base := base_key_length rtcp_alg rtcp_keylen in
    let rtcp_salt := rtcp_keylen - rtcp_base in
    let t6 := tmp_write t5 0 (kdf_generate kdf label_rtcp_encryption_c rtcp_base) in
    let t7 := if 0 <? rtcp_salt then tmp_write t6 rtcp_base (kdf_generate kdf label_rtcp_salt_c rtcp_salt) else t6 in
    let csalt := if 0 <? rtcp_salt then slice (zn rtcp_base) (zn SRTP_AEAD_SALT_LEN_c) (fst t7) else zeros (zn SRTP_AEAD_SALT_LEN_c) in
    let rtcp_c := cipher_key rtcp_alg rtcp_keylen (fst t7) in
    let t8 := tmp_write t7 0 (kdf_generate kdf label_rtcp_msg_auth_c (cp_authkeylen (p_rtcp p))) in
    let rtcp_a := auth_key (cp_auth (p_rtcp p)) (cp_authkeylen (p_rtcp p)) (cp_taglen (p_rtcp p)) (fst t8) in
    (st_ok, Some {| d_keys := {| k_rtp_c := rtp_c; k_rtp_a := rtp_a; k_xtn_c := xtn_c;
                                 k_rtcp_c := rtcp_c; k_rtcp_a := rtcp_a;
                                 k_salt := salt; k_csalt := csalt; k_mki := mki |};
                    d_overflow := snd t8 |}).


Definition derive_keys_any (p : policy) (mkey mki : bytes) : Z * option derived :=
  if cfg_gcm_c && has_xtn p && is_gcm_alg (cipher_alg_of (cp_cipher (p_rtp p)) (cp_keylen (p_rtp p)))
  then derive_keys_gcm p mkey mki else derive_keys p mkey mki.

(* status used by the drivers for "the model predicts an out-of-bounds access in the library" *)
Definition st_model_oob : Z := -16.

(* srtp_stream_init_keys incl. allocations: mki copy (1 block), KDF cipher (2 blocks, released
   by srtp_kdf_clear).  owned = blocks the stream owns so far; returns the new count. *)
Definition init_keys (p : policy) (mki_size : Z) (km : bytes * bytes) (owned : Z) : M (skeys * Z) :=
  o1 <- (if negb (mki_size =? 0) then
           match snd km with
           | [] => exit_with st_bad_param
           | _ => ok <- alloc1 ;; if ok then ret (owned + 1) else exit_with st_init_fail
           end
         else ret owned) ;;
  match derive_keys_any p (fst km) (if mki_size =? 0 then [] else take (zn mki_size) (snd km ++ zeros (zn mki_size))) with
  | (st, None) => exit_with st
  | (_, Some d) =>
    (* srtp_kdf_init: cipher struct + context *)
    r <- alloc_seq 2 ;;
    if negb (fst r) then free_n (snd r) ;;; exit_with st_init_fail
    else
      free_n 2 ;;;
      if d_overflow d then exit_with st_model_oob else ret (d_keys d, o1)
  end.

Fixpoint init_all_keys (p : policy) (mki_size : Z) (kms : list (bytes * bytes)) (owned : Z)
  : M (list skeys * Z) :=
  match kms with
  | [] => ret ([], owned)
  | km :: t =>
    r <- init_keys p mki_size km owned ;;
    r2 <- init_all_keys p mki_size t (snd r) ;;
    ret (fst r :: fst r2, snd r2)
  end.

Definition mk_limit : klimit := {| num_left := key_limit_init_c; kst := KNormal |}.

(* ---- srtp_stream_init (after srtp_stream_alloc gave `owned` blocks) ----
   On failure the blocks of the replay window are released here (srtp_rdbx_dealloc); the rest
   is the caller's business, as in C.  The number of blocks owned at exit is kept in the
   heap's live count; callers that clean up use `blocks_before`. *)
Definition stream_init (p : policy) (owned : Z) : M (stream * Z) :=
  check_st (valid_policy p) ;;;
  (if negb (p_window p =? 0) && ((p_window p <? window_min_c) || (window_lim_c <=? p_window p))
   then exit_with st_bad_param else ret tt) ;;;
  let ws := if p_window p =? 0 then window_default_c else p_window p in
  ok <- alloc1 ;;
  if negb ok then exit_with st_alloc_fail else
  match rdbx_init ws with
  | None => exit_with st_bad_param
  | Some rx =>
    (* srtp_stream_init_all_master_keys *)
    r <- catch (
      if p_usekey p then
        (if p_use_mki p then exit_with st_bad_param else ret tt) ;;;
        init_all_keys p 0 (take 1 (p_keys p)) (owned + 1)
      else
        (if SRTP_MAX_NUM_MASTER_KEYS_c <? p_nkeys p then exit_with st_bad_param else ret tt) ;;;
        (if p_use_mki p && (p_mki_size p =? 0) then exit_with st_bad_param else ret tt) ;;;
        init_all_keys p (p_mki_size p) (take (zn (p_nkeys p)) (p_keys p)) (owned + 1)) ;;
    match r with
    | inr st => free_n 1 ;;; exit_with st      (* srtp_rdbx_dealloc *)
    | inl (keys, owned') =>
      let use_mki := if p_usekey p then false else p_use_mki p in
      let msz := if p_usekey p then 0 else p_mki_size p in
      ret ({| s_ssrc := p_ssrc p; s_clone := false; s_keys := keys;
              s_limits := map (fun _ => mk_limit) keys;
              s_rdbx := rx; s_rdb := rdb_init; s_pending_roc := 0; s_dir := 0;
              s_rtp_serv := cp_serv (p_rtp p); s_rtcp_serv := cp_serv (p_rtcp p);
              s_use_mki := use_mki; s_mki_size := msz;
              s_allow_repeat := p_allow_repeat p; s_cryptex := p_cryptex p;
              s_enc_xtn := p_enc_xtn p |}, owned')
    end
  end.

(* heap blocks owned by a fully built stream (what srtp_stream_dealloc releases) *)
Definition keys_blocks (k : skeys) : Z :=
  cipher_blocks (ck_alg (k_rtp_c k)) + 1 + cipher_blocks (ck_alg (k_rtcp_c k)) + 1 + 1
  + (match k_xtn_c k with Some c => cipher_blocks (ck_alg c) | None => 0 end)
  + (match k_mki k with [] => 0 | _ => 1 end).
Definition stream_blocks (s : stream) : Z :=
  if s_clone s then
    3 + fold_right (fun k a => a + match k_mki k with [] => 0 | _ => 1 end) 0 (s_keys s)
  else
    3 + fold_right (fun k a => a + keys_blocks k) 0 (s_keys s)
    + (match s_enc_xtn s with [] => 0 | _ => 1 end).

(* ---- srtp_stream_clone ---- *)
Fixpoint clone_mkis (n : nat) (owned : Z) : M Z :=
  match n with
  | O => ret owned
  | S n' => ok <- alloc1 ;;
            if ok then clone_mkis n' (owned + 1) else free_n owned ;;; exit_with st_init_fail
  end.

Definition stream_clone (t : stream) (ssrc : Z) : M stream :=
  ok <- alloc1 ;;
  if negb ok then exit_with st_alloc_fail else
  ok2 <- alloc1 ;;
  if negb ok2 then free_n 1 ;;; exit_with st_alloc_fail else
  o <- clone_mkis (if s_mki_size t =? 0 then O else length (s_keys t)) 2 ;;
  ok3 <- alloc1 ;;                       (* replay window *)
  if negb ok3 then free_n o ;;; exit_with st_alloc_fail else
  match rdbx_init (wlen (s_rdbx t)) with
  | None => free_n (o + 1) ;;; exit_with st_bad_param
  | Some rx =>
    ret {| s_ssrc := ssrc; s_clone := true; s_keys := s_keys t; s_limits := [];
           s_rdbx := rx; s_rdb := rdb_init; s_pending_roc := 0; s_dir := s_dir t;
           s_rtp_serv := s_rtp_serv t; s_rtcp_serv := s_rtcp_serv t;
           s_use_mki := s_use_mki t; s_mki_size := s_mki_size t;
           s_allow_repeat := s_allow_repeat t; s_cryptex := s_cryptex t; s_enc_xtn := s_enc_xtn t |}
  end.

(* srtp_stream_dealloc of a complete stream *)
Definition stream_dealloc (s : stream) : M unit := free_n (stream_blocks s).

(* ---- srtp_stream_list_insert (with capacity doubling); ownership stays with the caller on failure ---- *)
Definition list_insert (s : stream) : M Z :=
  ss <- get_s ;;
  if lenZ (ss_list ss) =? ss_cap ss then
    ok <- alloc1 ;;
    if negb ok then ret st_alloc_fail else
    free_n 1 ;;;
    put_s {| ss_template := ss_template ss; ss_list := ss_list ss ++ [s]; ss_cap := 2 * ss_cap ss |} ;;; ret st_ok
  else
    put_s {| ss_template := ss_template ss; ss_list := ss_list ss ++ [s]; ss_cap := ss_cap ss |} ;;; ret st_ok.

Definition insert_or_dealloc (s : stream) : M unit :=
  st <- list_insert s ;;
  if st =? st_ok then ret tt else stream_dealloc s ;;; exit_with st.
