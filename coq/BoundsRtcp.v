(* BoundsRtcp.v — C10 for SRTCP: srtp_protect_rtcp and srtp_unprotect_rtcp never access
   the packet buffers out of bounds (b_oob stays false), for every world. *)
From Coq Require Import NArith ZArith List Bool Lia.
From Srtp Require Import Util Constants KeyLimit Rdb Rdbx Icm World Stream Rtp Rtcp MonadLemmas EnvelopeProofs WfProofs.
Import ListNotations.
Local Open Scope Z_scope.

Lemma u64_small x : 0 <= x < 18446744073709551616 -> u64 x = x.
Proof. intros H. unfold u64. apply Z.mod_small. exact H. Qed.
Lemma u64_range x : 0 <= u64 x < 18446744073709551616.
Proof. unfold u64. apply Z.mod_pos_bound. lia. Qed.

Section RTCP.
Variable SP : stream -> Prop.
Hypothesis SPc : cfg_closed SP.
Hypothesis SPwf : forall st, SP st -> stream_wf st.
Variables (L C : Z) (al : bool) (src d0 : bytes).
Hypothesis HL : 0 <= L < 9223372036854775808.
Hypothesis HC : 0 <= C < 9223372036854775808.
Hypothesis HD : C <= lenZ d0.

Notation I := (Inv SP L C al src d0).
Ltac hs := try exact SPc; try exact SPwf.
Ltac hexit := first [apply h_bind_exit | apply h_exit]; apply inv_noob.

Lemma SP_key st k : SP st -> In k (s_keys st) ->
  0 <= s_mki_size st <= 128 /\ (s_use_mki st = false -> s_mki_size st = 0) /\
  lenZ (k_mki k) = s_mki_size st /\ akey_wf (k_rtp_a k) /\ akey_wf (k_rtcp_a k).
Proof.
  intros H1 H2. pose proof (SPwf _ H1) as W. pose proof (stream_wf_key _ _ W H2) as (a & b & c).
  destruct W as (M & U & _). rewrite max_mki_value in M. auto.
Qed.

Lemma h_check_st K st : hoare (I K) (check_st st) (fun _ w => st = st_ok /\ I K w) NoOob.
Proof.
  unfold check_st. destruct (st =? st_ok) eqn:E.
  - apply Z.eqb_eq in E. apply h_ret. auto.
  - apply h_exit. apply inv_noob.
Qed.

Ltac hseq K := apply h_bind with (R := fun _ => I K); [ | intros ? ].
Ltac hkeep := apply h_ret; intros ? ?; assumption.
Ltac hany := apply h_ret; intros ?; apply inv_any.

Lemma protect_rtcp_safe i :
  hoare (I (eq d0)) (protect_rtcp i) (fun _ => I Kany) NoOob.
Proof.
  unfold protect_rtcp.
  eapply h_bind; [apply h_get_b0|intros b]. apply h_pure; intros ->.
  cbv beta zeta. unfold b_init; cbn [b_len b_cap b_alias].
  change octets_in_rtcp_header_c with 8. change trailer_len with 4.
  destruct (L <? 8) eqn:E0; [hexit|]. apply h_bind_ret. apply Z.ltb_ge in E0.
  eapply h_bind; [apply h_lookup_or_clone; hs|intros r].
  eapply h_bind; [apply h_check_direction; hs|intros ?].
  eapply h_bind; [apply h_get_stream|intros st]. apply h_pure; intros Hst.
  eapply h_bind; [apply h_keys_by_index|intros [ki k]]. apply h_pure; cbn [snd]; intros Hk.
  destruct (SP_key _ _ Hst Hk) as (M & U & MK & _ & TA).
  pose proof (akey_prefix_le _ TA) as PL. pose proof TA as [T _]. rewrite max_tag_value in T.
  destruct (C <? L + 4 + s_mki_size st + ak_tag (k_rtcp_a k)) eqn:E1; [hexit|]. apply h_bind_ret. apply Z.ltb_ge in E1.
  hseq Kany.
  { destruct al; [hany|].
    eapply h_bind; [apply h_rd_src; lia|intros h]. apply h_pure; intros (dd & _ & _ & ->).
    apply h_wr_dst_any; [lia|]. pose proof (lenZ_slice_le 0 8 src). lia. }
  hseq Kany.
  { destruct (s_use_mki st); [apply h_wr_dst_any; lia|hkeep]. }
  destruct (rdb_incr (s_rdb st)) as [is rb].
  eapply h_bind; [apply h_check_st|intros ?]. apply h_pure; intros _.
  hseq Kany. { apply h_put_stream. apply (SP_upd SP SPc). exact Hst. }
  hseq Kany. { apply h_wr_dst_any; [lia|]. rewrite lenZ_be_bytes. lia. }
  hseq Kany. { apply h_log_encrypt_iv. }
  match goal with |- context [cipher_output ?a ?n] =>
    pose proof (cipher_output_le a n (proj1 PL)) as LK; destruct (cipher_output a n) as [[ps cs1] ks] end.
  cbn [snd] in LK.
  hseq Kany. { destruct (negb (ps =? st_ok)); [hexit|apply h_wr_dst_any; lia]. }
  hseq Kany.
  { destruct (negb (Z.land (s_rtcp_serv st) sec_serv_conf_c =? 0)).
    - eapply h_bind; [apply h_rd_src; lia|intros d]. apply h_pure; intros (dd & _ & _ & ->).
      match goal with |- context [cipher_encrypt ?a ?d] =>
        pose proof (cipher_encrypt_le a d) as LE; destruct (cipher_encrypt a d) as [[s c'] o] end.
      cbn [snd] in LE. pose proof (lenZ_slice_le 8 (L - 8) (if al then dd else src)).
      destruct (negb (s =? st_ok)); [hexit|apply h_wr_dst_any; lia].
    - destruct al; [hkeep|].
      eapply h_bind; [apply h_rd_src; lia|intros d]. apply h_pure; intros (dd & _ & _ & ->).
      pose proof (lenZ_slice_le 8 (L - 8) src). apply h_wr_dst_any; lia. }
  eapply h_bind; [apply h_rd_dst; lia|intros m]. apply h_pure; intros _.
  hseq Kany. { apply h_wr_dst_any; [lia|]. pose proof (auth_compute_le (k_rtcp_a k) m TA). lia. }
  hkeep.
Qed.

Lemma unprotect_rtcp_pre_safe :
  hoare (I (eq d0)) unprotect_rtcp_pre
        (fun u w => (0 <= c_enc_len u /\ 8 + c_enc_len u <= L /\ 8 + c_enc_len u <= C) /\ I Kany w) NoOob.
Proof.
  unfold unprotect_rtcp_pre.
  eapply h_bind; [apply h_get_b0|intros b]. apply h_pure; intros ->.
  cbv beta zeta. unfold b_init; cbn [b_len b_cap b_alias].
  change octets_in_rtcp_header_c with 8. change trailer_len with 4.
  destruct (L <? 8 + 4) eqn:E0; [hexit|]. apply h_bind_ret. apply Z.ltb_ge in E0.
  eapply h_bind; [apply h_get_s|intros ss]. apply h_pure; intros _.
  apply h_bind with (R := fun _ => I (eq d0)).
  { destruct (list_get (ss_list ss) _); [hkeep|]. destruct (ss_template ss); [hkeep|hexit]. }
  intros r0.
  eapply h_bind; [apply h_get_stream|intros st]. apply h_pure; intros Hst.
  assert (T0 : 0 <= match s_keys st with k0 :: _ => ak_tag (k_rtcp_a k0) | [] => 0 end).
  { destruct (s_keys st) as [|k0 t] eqn:EK; [lia|].
    assert (I0 : In k0 (s_keys st)) by (rewrite EK; left; reflexivity).
    destruct (SP_key _ _ Hst I0) as (_ & _ & _ & _ & [T _]). lia. }
  eapply h_bind; [apply h_keys_by_packet; hs; [exact Hst|exact T0]|intros [ki k]].
  apply h_pure; cbn [snd]; intros Hk.
  destruct (SP_key _ _ Hst Hk) as (M & U & MK & _ & TA).
  pose proof (akey_prefix_le _ TA) as PL. pose proof TA as [T _]. rewrite max_tag_value in T.
  destruct (L <? 8 + 4 + s_mki_size st + ak_tag (k_rtcp_a k)) eqn:E1; [hexit|]. apply h_bind_ret. apply Z.ltb_ge in E1.
  eapply h_bind; [apply h_rd_src; lia|intros tr]. apply h_pure; intros _.
  hseq (eq d0). { destruct (Bool.eqb _ _); [hkeep|hexit]. }
  eapply h_bind; [apply h_check_st|intros ?]. apply h_pure; intros _.
  apply h_bind with (R := fun _ => I (eq d0)).
  { destruct (negb (ak_prefix (k_rtcp_a k) =? 0)); [|hkeep].
    destruct (cipher_output _ _) as [[s cs'] ks].
    destruct (negb (s =? st_ok)); [hexit|]. destruct (SRTP_MAX_TAG_LEN_c <? _); [hexit|hkeep]. }
  intros pre.
  eapply h_bind; [apply h_rd_src; lia|intros m]. apply h_pure; intros _.
  hseq (eq d0). { destruct (SRTP_MAX_TAG_LEN_c <? _); [hexit|hkeep]. }
  eapply h_bind; [apply h_rd_src; lia|intros t]. apply h_pure; intros _.
  hseq (eq d0). { destruct (beqb _ t); [hkeep|hexit]. }
  destruct (C <? u64 (L - 4 - s_mki_size st - ak_tag (k_rtcp_a k))) eqn:E2; [hexit|]. apply h_bind_ret.
  apply Z.ltb_ge in E2. rewrite u64_small in E2 by lia.
  apply h_ret. intros w HI. cbn [c_enc_len]. split; [lia|exact (inv_any _ _ _ _ _ _ _ _ HI)].
Qed.

Lemma unprotect_rtcp_post_safe u :
  0 <= c_enc_len u -> 8 + c_enc_len u <= L -> 8 + c_enc_len u <= C ->
  hoare (I Kany) (unprotect_rtcp_post u) (fun _ => I Kany) NoOob.
Proof.
  intros U1 U2 U3. unfold unprotect_rtcp_post.
  eapply h_bind; [apply h_get_b|intros b]. apply h_pure; intros (-> & _ & ->).
  cbv beta zeta. change octets_in_rtcp_header_c with 8. change trailer_len with 4.
  hseq Kany.
  { destruct al; [hkeep|].
    eapply h_bind; [apply h_rd_src; lia|intros h]. apply h_pure; intros (dd & _ & _ & ->).
    apply h_wr_dst_any; [lia|]. pose proof (lenZ_slice_le 0 8 src). lia. }
  hseq Kany.
  { destruct (c_conf u).
    - eapply h_bind; [apply h_rd_src; lia|intros d]. apply h_pure; intros (dd & _ & _ & ->).
      match goal with |- context [cipher_encrypt ?a ?d] =>
        pose proof (cipher_encrypt_le a d) as LE; destruct (cipher_encrypt a d) as [[s c'] o] end.
      cbn [snd] in LE. pose proof (lenZ_slice_le 8 (c_enc_len u) (if al then dd else src) U1).
      destruct (negb (s =? st_ok)); [hexit|apply h_wr_dst_any; lia].
    - destruct al; [hkeep|].
      eapply h_bind; [apply h_rd_src; lia|intros d]. apply h_pure; intros (dd & _ & _ & ->).
      pose proof (lenZ_slice_le 8 (c_enc_len u) src U1). apply h_wr_dst_any; lia. }
  hseq Kany. { apply h_check_direction; hs. }
  eapply h_bind; [apply h_materialize; hs|intros r].
  eapply h_bind; [apply h_get_stream|intros st2]. apply h_pure; intros Hst2.
  hseq Kany. { apply h_put_stream. apply (SP_upd SP SPc). exact Hst2. }
  hkeep.
Qed.

Lemma unprotect_rtcp_safe : hoare (I (eq d0)) unprotect_rtcp (fun _ => I Kany) NoOob.
Proof.
  unfold unprotect_rtcp. eapply h_bind; [apply unprotect_rtcp_pre_safe|intros u].
  apply h_pure; intros (U1 & U2 & U3). apply unprotect_rtcp_post_safe; assumption.
Qed.
End RTCP.

(* ===================================================================== *)
(* C10 for SRTCP.  Sizes are size_t values of real objects: below 2^63 (PTRDIFF_MAX).
   The destination block holds at least *out_len octets.                  *)
Definition size_ok (z : Z) : Prop := 0 <= z < 9223372036854775808.

Lemma inv_init SP w :
  session_all SP (w_s w) -> b_oob (w_b w) = false ->
  Inv SP (b_len (w_b w)) (b_cap (w_b w)) (b_alias (w_b w)) (b_src (w_b w)) (b_dst (w_b w)) (eq (b_dst (w_b w))) w.
Proof. intros HS HO. split; [exact HS|]. repeat split. exact HO. Qed.

Lemma hoare_noob {A} (P : world -> Prop) (m : M A) (Q : A -> world -> Prop) w :
  hoare P m Q NoOob -> (forall a w', Q a w' -> NoOob w') -> P w -> b_oob (w_b (fst (m w))) = false.
Proof.
  intros H HQ HP. specialize (H w HP). destruct (m w) as [w' [a|st]]; cbn [fst].
  - exact (HQ a w' H).
  - exact H.
Qed.

Theorem protect_rtcp_no_oob w i :
  b_oob (w_b w) = false -> size_ok (b_len (w_b w)) ->
  b_cap (w_b w) <= lenZ (b_dst (w_b w)) -> session_wf (w_s w) ->
  b_oob (w_b (fst (protect_rtcp i w))) = false.
Proof.
  intros HO HL HD HS.
  eapply hoare_noob; [apply (protect_rtcp_safe stream_wf stream_wf_cfg (fun st h => h) _ _ (b_alias (w_b w)) (b_src (w_b w)) _ HL HD i)| |apply inv_init; assumption].
  intros a w' H. exact (inv_noob _ _ _ _ _ _ _ _ H).
Qed.
Print Assumptions protect_rtcp_no_oob.

(* srtp_unprotect_rtcp never reads the destination, so nothing is asked of its length *)
Theorem unprotect_rtcp_no_oob w :
  b_oob (w_b w) = false -> size_ok (b_len (w_b w)) -> session_wf (w_s w) ->
  b_oob (w_b (fst (unprotect_rtcp w))) = false.
Proof.
  intros HO HL HS.
  eapply hoare_noob; [apply (unprotect_rtcp_safe stream_wf stream_wf_cfg (fun st h => h) _ (b_cap (w_b w)) (b_alias (w_b w)) (b_src (w_b w)) (b_dst (w_b w)) HL)| |apply inv_init; assumption].
  intros a w' H. exact (inv_noob _ _ _ _ _ _ _ _ H).
Qed.
Print Assumptions unprotect_rtcp_no_oob.
