(* RdbProofs.v — the SRTCP replay window (C07): invariant relating the model
   state to the set of accepted indices, over any delivery order. *)
From Coq Require Import NArith ZArith List Bool Lia ZifyBool ZifyN.
From Srtp Require Import Util Constants Rdb Seen.
Import ListNotations.
Local Open Scope Z_scope.
Ltac Zify.zify_post_hook ::= Z.div_mod_to_equations.

Lemma bits_value : rdb_bits_in_bitmask_c = 128. Proof. reflexivity. Qed.
Lemma ceiling_value : rtcp_ceiling_c = 2 ^ 31 - 1. Proof. reflexivity. Qed.

(* the receiver's step for an authentic packet carrying index i (srtp_unprotect_rtcp:
   rdb_check before authentication, rdb_add_index after) *)
Definition rdb_rx (r : rdb) (i : Z) : rdb * bool :=
  if rdb_check r i =? st_ok then (snd (rdb_add r i), true) else (r, false).


Record Inv (r : rdb) (seen : seen_t) : Prop := {
  inv_ws : 0 <= wstart r < 2 ^ 31;
  inv_hi : forall b, (128 <= b)%N -> N.testbit (bitmask r) b = false;
  inv_bits : forall j, 0 <= j < 128 -> (N.testbit (bitmask r) (Z.to_N j) = true <-> seen (wstart r + j));
  inv_top : forall i, seen i -> 0 <= i < wstart r + 128;
  inv_max : 0 < wstart r -> seen (wstart r + 127)
}.

Lemma Inv_init : Inv rdb_init (fun _ => False).
Proof.
  constructor; cbn; intros; try lia; try tauto.
Qed.

Lemma u32_small x : 0 <= x < 2 ^ 32 -> u32 x = x.
Proof. intros; unfold u32. change 4294967296 with (2 ^ 32). apply Z.mod_small; lia. Qed.

(* seen => rejected, for ever *)
Lemma seen_rejected r seen i : Inv r seen -> seen i -> rdb_check r i <> st_ok.
Proof.
  intros I S. destruct I as [Hws Hhi Hb Ht Hm]. unfold rdb_check. rewrite bits_value.
  pose proof (Ht i S) as Hi.
  destruct (wstart r + 128 <=? i) eqn:E1; [apply Z.leb_le in E1; lia|].
  destruct (i <? wstart r) eqn:E2; [discriminate|].
  apply Z.ltb_ge in E2. apply Z.leb_gt in E1.
  assert (Hbit : N.testbit (bitmask r) (Z.to_N (i - wstart r)) = true).
  { apply Hb; [lia|]. replace (wstart r + (i - wstart r)) with i by lia. exact S. }
  rewrite Hbit. discriminate.
Qed.

(* unseen and not before the window => accepted *)
Lemma fresh_accepted r seen i : Inv r seen -> ~ seen i -> wstart r <= i -> rdb_check r i = st_ok.
Proof.
  intros I S Hi. destruct I as [Hws Hhi Hb Ht Hm]. unfold rdb_check. rewrite bits_value.
  destruct (wstart r + 128 <=? i) eqn:E1; [reflexivity|].
  destruct (i <? wstart r) eqn:E2; [apply Z.ltb_lt in E2; lia|].
  apply Z.leb_gt in E1.
  destruct (N.testbit (bitmask r) (Z.to_N (i - wstart r))) eqn:Hbit; [|reflexivity].
  exfalso. apply S. apply Hb in Hbit; [|lia]. replace (wstart r + (i - wstart r)) with i in Hbit by lia. exact Hbit.
Qed.

(* before the window => old *)
Lemma old_rejected r i : i < wstart r -> rdb_check r i = st_replay_old.
Proof.
  intros H. unfold rdb_check. rewrite bits_value.
  destruct (wstart r + 128 <=? i) eqn:E1; [apply Z.leb_le in E1; lia|].
  destruct (i <? wstart r) eqn:E2; [reflexivity|apply Z.ltb_ge in E2; lia].
Qed.

Lemma rx_step r seen i :
  Inv r seen -> 0 <= i < 2 ^ 31 ->
  let '(r', acc) := rdb_rx r i in
  (acc = true -> ~ seen i /\ Inv r' (add_seen seen i)) /\ (acc = false -> r' = r).
Proof.
  intros I Hi. unfold rdb_rx.
  destruct (rdb_check r i =? st_ok) eqn:EC; [|split; [discriminate|reflexivity]].
  apply Z.eqb_eq in EC. split; [intros _|discriminate].
  assert (NS : ~ seen i) by (intros S; exact (seen_rejected r seen i I S EC)).
  split; [exact NS|].
  destruct I as [Hws Hhi Hb Ht Hm].
  assert (Hge : wstart r <= i).
  { destruct (Z_lt_le_dec i (wstart r)) as [L|L]; [|exact L].
    rewrite (old_rejected r i L) in EC. discriminate. }
  unfold rdb_add. rewrite bits_value.
  destruct (i <? wstart r) eqn:E0; [apply Z.ltb_lt in E0; lia|].
  change (2 ^ 31) with 2147483648 in *.
  rewrite (u32_small (i - wstart r)) by (change (2 ^ 32) with 4294967296; lia).
  destruct (i - wstart r <? 128) eqn:E1; cbn [snd].
  - (* inside the window: set one bit *)
    apply Z.ltb_lt in E1.
    constructor; cbn [wstart bitmask].
    + lia.
    + intros b Hb128. rewrite N.setbit_neq by lia. apply Hhi; exact Hb128.
    + intros j Hj. unfold add_seen.
      destruct (Z.eq_dec j (i - wstart r)) as [->|Hne].
      * rewrite N.setbit_eq. split; [intros _; right; lia | reflexivity].
      * rewrite N.setbit_neq by lia. rewrite Hb by lia. split; [tauto|]. intros [S|E]; [exact S|lia].
    + intros k [S| ->]; [exact (Ht k S) | lia].
    + intros Hpos. left. apply Hm; exact Hpos.
  - (* beyond the window: shift *)
    apply Z.ltb_ge in E1.
    rewrite (u32_small (i - wstart r - (128 - 1))) by (change (2 ^ 32) with 4294967296; lia).
    rewrite (u32_small (wstart r + (i - wstart r - (128 - 1)))) by (change (2 ^ 32) with 4294967296; lia).
    replace (wstart r + (i - wstart r - (128 - 1))) with (i - 127) by lia.
    set (d := i - wstart r - (128 - 1)) in *.
    assert (Hd : 0 < d) by (subst d; lia).
    assert (Hsh : forall b, N.testbit (v128_shift (bitmask r) d) b =
                            if 127 <? d then false else N.testbit (bitmask r) (b + Z.to_N d)).
    { intros b. unfold v128_shift. destruct (127 <? d); [apply N.bits_0 | apply N.shiftr_spec; lia]. }
    constructor; cbn [wstart bitmask].
    + lia.
    + intros b Hb128. rewrite N.setbit_neq by lia. rewrite Hsh.
      destruct (127 <? d); [reflexivity|]. apply Hhi. lia.
    + intros j Hj. unfold add_seen.
      destruct (Z.eq_dec j 127) as [->|Hne].
      * change (Z.to_N (128 - 1)) with (Z.to_N 127). rewrite N.setbit_eq.
        split; [intros _; right; lia | reflexivity].
      * rewrite N.setbit_neq by lia. rewrite Hsh.
        destruct (Z_lt_le_dec (j + d) 128) as [L|L].
        -- replace (127 <? d) with false by lia.
           replace (Z.to_N j + Z.to_N d)%N with (Z.to_N (j + d)) by lia.
           rewrite Hb by lia. replace (wstart r + (j + d)) with (i - 127 + j) by (subst d; lia).
           split; [tauto|]. intros [S|E]; [exact S|lia].
        -- assert (HF : (if 127 <? d then false else N.testbit (bitmask r) (Z.to_N j + Z.to_N d)) = false)
             by (destruct (127 <? d); [reflexivity | apply Hhi; lia]).
           rewrite HF. split; [discriminate|].
           intros [S|E]; [|lia]. apply Ht in S. subst d. lia.
    + intros k [S| ->]; [apply Ht in S; subst d; lia | lia].
    + intros _. right. lia.
Qed.

(* ---- histories ---- *)
(* deliver a list of authentic indices in any order; returns final state and the accept flags *)
Fixpoint rdb_run (r : rdb) (l : list Z) : rdb * list bool :=
  match l with
  | [] => (r, [])
  | i :: t => let '(r1, a) := rdb_rx r i in
              let '(r2, as_) := rdb_run r1 t in (r2, a :: as_)
  end.


Lemma Inv_ext r s s' : Inv r s -> (forall i, s i <-> s' i) -> Inv r s'.
Proof.
  intros [a1 a2 a3 a4 a5] E. constructor; auto.
  - intros j Hj. rewrite a3 by exact Hj. apply E.
  - intros k Hk. apply a4. apply E. exact Hk.
  - intros Hp. apply E. apply a5. exact Hp.
Qed.

Lemma run_inv l : forall r seen,
  Inv r seen -> Forall (fun i => 0 <= i < 2 ^ 31) l ->
  let '(r', acc) := rdb_run r l in
  length acc = length l /\
  Inv r' (fun i => seen i \/ seen_of l acc i) /\
  (* at most once: an accepted position carries an index not seen before and not accepted earlier in l *)
  (forall n i, nth_error l n = Some i -> nth_error acc n = Some true ->
      ~ seen i /\ forall m, (m < n)%nat -> nth_error l m = Some i -> nth_error acc m = Some false).
Proof.
  induction l as [|i t IH]; intros r seen I F; cbn [rdb_run].
  - split; [reflexivity|]. split.
    + apply (Inv_ext r seen); [exact I|]. intros k. rewrite seen_of_nil. tauto.
    + intros n j H. destruct n; discriminate.
  - inversion F as [|? ? Hi Ft]; subst.
    pose proof (rx_step r seen i I Hi) as ST.
    destruct (rdb_rx r i) as [r1 a] eqn:E1. destruct ST as [STt STf].
    destruct a.
    + destruct (STt eq_refl) as [NS I1].
      specialize (IH r1 (add_seen seen i) I1 Ft).
      destruct (rdb_run r1 t) as [r2 acc] eqn:E2. destruct IH as (L & I2 & O).
      split; [cbn; lia|]. split.
      * apply (Inv_ext _ _ _ I2). intros k. rewrite seen_of_cons_true. unfold add_seen. tauto.
      * intros n j H1 H2. destruct n as [|n]; cbn in H1, H2.
        -- injection H1 as <-. split; [exact NS|]. intros m Hm. lia.
        -- destruct (O n j H1 H2) as [NS2 O2]. split.
           ++ intros S. apply NS2. left. exact S.
           ++ intros m Hm H3. destruct m as [|m]; cbn in H3 |- *.
              ** injection H3 as <-. exfalso. apply NS2. right. reflexivity.
              ** apply O2; [lia|exact H3].
    + rewrite (STf eq_refl) in *. clear STt STf.
      specialize (IH r seen I Ft).
      destruct (rdb_run r t) as [r2 acc] eqn:E2. destruct IH as (L & I2 & O).
      split; [cbn; lia|]. split.
      * apply (Inv_ext _ _ _ I2). intros k. rewrite seen_of_cons_false. tauto.
      * intros n j H1 H2. destruct n as [|n]; cbn in H1, H2; [discriminate|].
        destruct (O n j H1 H2) as [NS2 O2]. split; [exact NS2|].
        intros m Hm H3. destruct m as [|m]; cbn in H3 |- *; [reflexivity|].
        apply O2; [lia|exact H3].
Qed.

(* the sender's counter (srtp_rdb_increment): strictly increasing, never above 2^31-1,
   key_expired from then on *)
Lemma incr_spec r :
  0 <= wstart r < 2 ^ 31 ->
  let '(s, r') := rdb_incr r in
  (wstart r < 2 ^ 31 - 1 -> s = st_ok /\ wstart r' = wstart r + 1) /\
  (wstart r = 2 ^ 31 - 1 -> s = st_key_expired /\ r' = r).
Proof.
  intros H. unfold rdb_incr. rewrite ceiling_value.
  change (2 ^ 31) with 2147483648 in *.
  destruct (2147483648 - 1 <=? wstart r) eqn:E.
  - apply Z.leb_le in E. split; intros; [lia|split; reflexivity].
  - apply Z.leb_gt in E. split; intros; [|lia]. split; [reflexivity|].
    cbn [wstart]. apply u32_small. change (2 ^ 32) with 4294967296. lia.
Qed.

(* ---- corollaries in the form the property is stated ---- *)

Lemma rdb_at_most_once l :
  Forall (fun i => 0 <= i < 2 ^ 31) l ->
  let acc := snd (rdb_run rdb_init l) in
  forall n m i, (m < n)%nat -> nth_error l n = Some i -> nth_error l m = Some i ->
    ~ (nth_error acc n = Some true /\ nth_error acc m = Some true).
Proof.
  intros F. pose proof (run_inv l rdb_init _ Inv_init F) as R.
  destruct (rdb_run rdb_init l) as [r acc]. destruct R as (_ & _ & O). cbn [snd].
  intros n m i Hmn Hn Hm [An Am].
  destruct (O n i Hn An) as [_ O2]. rewrite (O2 m Hmn Hm) in Am. discriminate.
Qed.

(* any reachable state satisfies the invariant for the set of accepted indices *)
Lemma rdb_reachable_inv l :
  Forall (fun i => 0 <= i < 2 ^ 31) l ->
  let '(r, acc) := rdb_run rdb_init l in Inv r (seen_of l acc).
Proof.
  intros F. pose proof (run_inv l rdb_init _ Inv_init F) as R.
  destruct (rdb_run rdb_init l) as [r acc]. destruct R as (_ & I & _).
  apply (Inv_ext _ _ _ I). intros k. tauto.
Qed.

(* verdict on the next packet in any state satisfying the invariant *)
Lemma rdb_next_verdict r seen i :
  Inv r seen -> 0 <= i < 2 ^ 31 ->
  (seen i -> snd (rdb_rx r i) = false) /\
  (* more than 127 behind the highest accepted index *)
  (0 < wstart r -> forall hi, seen hi -> (forall k, seen k -> k <= hi) -> i + 127 < hi -> snd (rdb_rx r i) = false) /\
  (* unseen and at most 127 behind the highest accepted index, or ahead of it by any amount *)
  (~ seen i -> (forall hi, seen hi -> hi - 127 <= i) -> snd (rdb_rx r i) = true).
Proof.
  intros I Hi. unfold rdb_rx. repeat split.
  - intros S. pose proof (seen_rejected r seen i I S) as N.
    destruct (rdb_check r i =? st_ok) eqn:E; [apply Z.eqb_eq in E; contradiction|reflexivity].
  - intros Hp hi Sh Hmax Hold.
    pose proof (inv_max _ _ I Hp) as Smax. pose proof (inv_top _ _ I hi Sh) as Hhi.
    specialize (Hmax _ Smax).
    rewrite (old_rejected r i) by lia. reflexivity.
  - intros NS Hw.
    assert (Hge : wstart r <= i).
    { destruct (Z_lt_le_dec 0 (wstart r)) as [P|P].
      - specialize (Hw _ (inv_max _ _ I P)). lia.
      - pose proof (inv_ws _ _ I). lia. }
    rewrite (fresh_accepted r seen i I NS Hge). reflexivity.
Qed.
