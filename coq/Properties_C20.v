From Coq Require Import ZArith.
From Srtp Require Import Constants.
Theorem c20_placeholder : SRTP_SALT_LEN_c = 14%Z.
Proof. reflexivity. Qed.
