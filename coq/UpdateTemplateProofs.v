(* UpdateTemplateProofs.v — the SUCCESS side of srtp_update with a wildcard policy
   (update_template_streams): what move_streams / update_template do to the streams
   when they return ok.
   - an explicit stream is moved unchanged;
   - a clone of the old template is replaced by a fresh clone of the NEW template for the
     same SSRC (keys shared with the new template) that carries over the packet index
     (hence ROC and highest sequence number), the SRTCP window and a pending ROC;
   - the order of the list, the event log, the buffers and the IV log are unchanged;
   - the template becomes the stream built from the policy (direction unknown).
   The refusal side is in UpdateProofs.v, the heap balance in HeapProofs.v. *)
From Coq Require Import NArith ZArith List Bool Lia.
From Srtp Require Import Util Constants KeyLimit Rdb Rdbx Icm World Stream Rtp Session MonadLemmas TableProofs HeapProofs UpdateProofs.
Import ListNotations.
Local Open Scope Z_scope.

(* ===================================================================== *)
(* 0. vocabulary                                                          *)

(* what srtp_stream_clone returns for template t and SSRC x (when it returns) *)
Definition fresh_clone (t : stream) (x : Z) : stream :=
  {| s_ssrc := x; s_clone := true; s_keys := s_keys t; s_limits := [];
     s_rdbx := {| index := 0; wlen := roundup32 (wlen (s_rdbx t)); mask := 0%N |};
     s_rdb := rdb_init; s_pending_roc := 0; s_dir := s_dir t;
     s_rtp_serv := s_rtp_serv t; s_rtcp_serv := s_rtcp_serv t;
     s_use_mki := s_use_mki t; s_mki_size := s_mki_size t;
     s_allow_repeat := s_allow_repeat t; s_cryptex := s_cryptex t; s_enc_xtn := s_enc_xtn t |}.

(* the replacement of an old clone s: literally the ns' expression of move_streams
   (carry_over is the same expression as in stream_update_specific) *)
Definition reclone (newt s : stream) : stream := carry_over (fresh_clone newt (s_ssrc s)) s.

(* the function applied to every entry of the old list *)
Definition moved (newt s : stream) : stream := if s_clone s then reclone newt s else s.

(* every field of the replacement *)
Lemma reclone_fields newt s :
  reclone newt s =
  {| s_ssrc := s_ssrc s; s_clone := true; s_keys := s_keys newt; s_limits := [];
     s_rdbx := {| index := index (s_rdbx s); wlen := roundup32 (wlen (s_rdbx newt)); mask := 0%N |};
     s_rdb := s_rdb s; s_pending_roc := s_pending_roc s; s_dir := s_dir newt;
     s_rtp_serv := s_rtp_serv newt; s_rtcp_serv := s_rtcp_serv newt;
     s_use_mki := s_use_mki newt; s_mki_size := s_mki_size newt;
     s_allow_repeat := s_allow_repeat newt; s_cryptex := s_cryptex newt; s_enc_xtn := s_enc_xtn newt |}.
Proof. reflexivity. Qed.

Lemma moved_ssrc newt s : s_ssrc (moved newt s) = s_ssrc s.
Proof. unfold moved. destruct (s_clone s); reflexivity. Qed.
Lemma moved_clone newt s : s_clone (moved newt s) = s_clone s.
Proof. unfold moved. destruct (s_clone s) eqn:E; [reflexivity|exact E]. Qed.
Lemma moved_explicit newt s : s_clone s = false -> moved newt s = s.
Proof. unfold moved. intros ->. reflexivity. Qed.
Lemma moved_index newt s : index (s_rdbx (moved newt s)) = index (s_rdbx s).
Proof. unfold moved. destruct (s_clone s); reflexivity. Qed.
Lemma moved_roc newt s : rdbx_roc (s_rdbx (moved newt s)) = rdbx_roc (s_rdbx s).
Proof. unfold rdbx_roc. rewrite moved_index. reflexivity. Qed.
Lemma moved_rdb newt s : s_rdb (moved newt s) = s_rdb s.
Proof. unfold moved. destruct (s_clone s); reflexivity. Qed.
Lemma moved_pending newt s : s_pending_roc (moved newt s) = s_pending_roc s.
Proof. unfold moved. destruct (s_clone s); reflexivity. Qed.

Lemma map_ssrc_moved newt l : map s_ssrc (map (moved newt) l) = map s_ssrc l.
Proof. induction l as [|s l IH]; cbn [map]; [reflexivity|]. rewrite moved_ssrc, IH. reflexivity. Qed.

(* lookups commute with the map (no uniqueness of SSRCs needed: moved keeps the SSRC and the order) *)
Lemma list_get_map_moved newt l x :
  list_get (map (moved newt) l) x = option_map (moved newt) (list_get l x).
Proof.
  induction l as [|s l IH]; cbn [map list_get]; [reflexivity|].
  rewrite moved_ssrc. destruct (s_ssrc s =? x); [reflexivity|exact IH].
Qed.

(* the part of the world the stream-moving code never writes *)
Definition same_io (w w' : world) : Prop :=
  w_ev w' = w_ev w /\ w_b w' = w_b w /\ w_iv w' = w_iv w.
Lemma same_io_refl w : same_io w w.
Proof. unfold same_io. auto. Qed.
Lemma same_io_trans w1 w2 w3 : same_io w1 w2 -> same_io w2 w3 -> same_io w1 w3.
Proof. unfold same_io. intros (a & b & c) (d & e & f). repeat split; congruence. Qed.

Lemma ho_io {A} (m : M A) w w' r : heap_only m -> m w = (w', r) -> w_s w' = w_s w /\ same_io w w'.
Proof. intros Hm E. destruct (ho_run _ _ _ _ Hm E) as (S & a & b & c & _). unfold same_io. auto. Qed.

(* ===================================================================== *)
(* 1. the pieces of move_streams                                          *)

(* ---- stream_clone: its only result, and its exits are errors ---- *)
Lemma exit_not_inl {A} st w w' (a : A) : @exit_with A st w = (w', inl a) -> False.
Proof. unfold exit_with. discriminate. Qed.

Lemma stream_clone_inv t x w w' ns :
  stream_clone t x w = (w', inl ns) -> ns = fresh_clone t x /\ wlen (s_rdbx t) <> 0.
Proof.
  unfold stream_clone. intros H.
  apply bind_inv in H. destruct H as [(ok & w1 & _ & H)|(? & _ & ?)]; [|discriminate].
  destruct ok; cbn [negb] in H; [|exfalso; exact (exit_not_inl _ _ _ _ H)].
  apply bind_inv in H. destruct H as [(ok2 & w2 & _ & H)|(? & _ & ?)]; [|discriminate].
  destruct ok2; cbn [negb] in H; [|exfalso; exact (free_exit_not_inl _ _ _ _ _ H)].
  apply bind_inv in H. destruct H as [(o & w3 & _ & H)|(? & _ & ?)]; [|discriminate].
  apply bind_inv in H. destruct H as [(ok3 & w4 & _ & H)|(? & _ & ?)]; [|discriminate].
  destruct ok3; cbn [negb] in H; [|exfalso; exact (free_exit_not_inl _ _ _ _ _ H)].
  unfold rdbx_init in H. destruct (wlen (s_rdbx t) =? 0) eqn:E.
  - exfalso. exact (free_exit_not_inl _ _ _ _ _ H).
  - unfold ret in H. injection H as _ <-. split; [reflexivity|]. apply Z.eqb_neq. exact E.
Qed.

Definition is_error (st : Z) : Prop := st <> st_ok.
Lemma err_alloc : is_error st_alloc_fail. Proof. unfold is_error, st_alloc_fail, st_ok. lia. Qed.
Lemma err_init : is_error st_init_fail. Proof. unfold is_error, st_init_fail, st_ok. lia. Qed.
Lemma err_param : is_error st_bad_param. Proof. unfold is_error, st_bad_param, st_ok. lia. Qed.

Lemma ex_clone_mkis n : forall o, exits_in (clone_mkis n o) is_error.
Proof.
  induction n as [|n IH]; intros o; cbn [clone_mkis]; [apply ex_ret|].
  apply ex_bind; [apply ex_alloc1|intros ok]. destruct ok; [apply IH|].
  apply ex_bind; [apply ex_free_n|intros _]. apply ex_exit. exact err_init.
Qed.

Lemma ex_stream_clone t x : exits_in (stream_clone t x) is_error.
Proof.
  unfold stream_clone.
  apply ex_bind; [apply ex_alloc1|intros ok]. apply ex_if; [apply ex_exit; exact err_alloc|].
  apply ex_bind; [apply ex_alloc1|intros ok2].
  apply ex_if; [apply ex_bind; [apply ex_free_n|intros _]; apply ex_exit; exact err_alloc|].
  apply ex_bind; [apply ex_clone_mkis|intros o].
  apply ex_bind; [apply ex_alloc1|intros ok3].
  apply ex_if; [apply ex_bind; [apply ex_free_n|intros _]; apply ex_exit; exact err_alloc|].
  destruct (rdbx_init _); [apply ex_ret|].
  apply ex_bind; [apply ex_free_n|intros _]. apply ex_exit. exact err_param.
Qed.

(* ---- nl_insert: never exits; ok = appended (capacity doubled when full) ---- *)
Lemma ho_nl_insert nl s : heap_only (nl_insert nl s).
Proof. unfold nl_insert. ho_auto. Qed.

Lemma nl_insert_inv nl s w w' r :
  nl_insert nl s w = (w', r) ->
  w_s w' = w_s w /\ same_io w w' /\
  (r = inl (st_ok, (fst nl ++ [s], if lenZ (fst nl) =? snd nl then 2 * snd nl else snd nl)) \/
   (r = inl (st_alloc_fail, nl) /\ lenZ (fst nl) = snd nl /\ h_fail (w_h w) = 1)).
Proof.
  intros H. destruct (ho_io _ _ _ _ (ho_nl_insert nl s) H) as (S & IO).
  split; [exact S|]. split; [exact IO|].
  unfold nl_insert in H. destruct (lenZ (fst nl) =? snd nl) eqn:EC.
  - unfold alloc1, bind, get_h, put_h, ret, free_n in H.
    destruct ((0 <? h_fail (w_h w)) && (h_fail (w_h w) =? 1)) eqn:E; cbn in H; injection H as _ <-.
    + right. apply andb_prop in E. destruct E as [_ E]. apply Z.eqb_eq in E. apply Z.eqb_eq in EC. auto.
    + left. reflexivity.
  - unfold ret in H. injection H as _ <-. left. reflexivity.
Qed.

(* the capacity bookkeeping of the list under construction *)
Definition nl_cap_ok (nl : list stream * Z) : Prop := 0 < snd nl /\ lenZ (fst nl) <= snd nl.

Lemma nl_cap_step nl s :
  nl_cap_ok nl -> nl_cap_ok (fst nl ++ [s], if lenZ (fst nl) =? snd nl then 2 * snd nl else snd nl).
Proof.
  unfold nl_cap_ok, lenZ. cbn [fst snd]. intros (P & L). rewrite app_length. cbn [length].
  destruct (Z.of_nat (length (fst nl)) =? snd nl) eqn:E.
  - apply Z.eqb_eq in E. lia.
  - apply Z.eqb_neq in E. lia.
Qed.

(* a computation ending in ret (st, nl) with an error status cannot have returned st_ok *)
Lemma dealloc_ret_not_ok s st (nl nl' : list stream * Z) w w' :
  is_error st -> (stream_dealloc s ;;; ret (st, nl)) w = (w', inl (st_ok, nl')) -> False.
Proof.
  intros E H. apply bind_inv in H. destruct H as [(u & w1 & _ & H)|(? & _ & ?)]; [|discriminate].
  unfold ret in H. injection H as _ Hst _. exact (E Hst).
Qed.

(* ===================================================================== *)
(* 2. move_streams, success                                               *)

Theorem move_streams_ok newt : forall fuel nl w w' nl',
  move_streams fuel newt nl w = (w', inl (st_ok, nl')) ->
  (length (ss_list (w_s w)) <= fuel)%nat ->
  ss_list (w_s w') = [] /\
  fst nl' = fst nl ++ map (moved newt) (ss_list (w_s w)) /\
  ss_template (w_s w') = ss_template (w_s w) /\
  ss_cap (w_s w') = ss_cap (w_s w) /\
  same_io w w' /\
  (nl_cap_ok nl -> nl_cap_ok nl') /\
  (Exists (fun s => s_clone s = true) (ss_list (w_s w)) -> wlen (s_rdbx newt) <> 0).
Proof.
  induction fuel as [|f IH]; intros nl w w' nl' H LE; cbn [move_streams] in H.
  { unfold ret in H. injection H as <- <-.
    destruct (ss_list (w_s w)) as [|s rest] eqn:EL; [|cbn [length] in LE; lia].
    rewrite app_nil_r.
    split; [reflexivity|]. split; [reflexivity|]. split; [reflexivity|]. split; [reflexivity|].
    split; [apply same_io_refl|]. split; [auto|]. intros X. inversion X. }
  apply bind_inv in H. destruct H as [(ss & w0 & Hg & H)|(st & Hg & _)]; [|discriminate Hg].
  unfold get_s in Hg. injection Hg as <- <-.
  destruct (ss_list (w_s w)) as [|s rest] eqn:EL.
  { unfold ret in H. injection H as <- <-. rewrite app_nil_r.
    split; [exact EL|]. split; [reflexivity|]. split; [reflexivity|]. split; [reflexivity|].
    split; [apply same_io_refl|]. split; [auto|]. intros X. inversion X. }
  assert (LR : (length rest <= f)%nat) by (cbn [length] in LE; lia).
  assert (ER : list_remove (s :: rest) (s_ssrc s) = rest).
  { cbn [list_remove]. rewrite Z.eqb_refl. reflexivity. }
  destruct (s_clone s) eqn:EC; cbn [negb] in H; cbv iota in H.
  - (* ---- clone of the old template ---- *)
    apply bind_inv in H. destruct H as [(rm & w1 & H1 & H)|(st & H1 & _)].
    2: { exfalso. exact (catch_no_exit _ _ _ _ H1). }
    apply UpdateProofs.catch_inv in H1.
    assert (EG : list_get (ss_list (w_s w)) (s_ssrc s) = Some s).
    { rewrite EL. cbn [list_get]. rewrite Z.eqb_refl. reflexivity. }
    destruct (stream_remove_present _ _ _ EG) as (w1' & E1 & S1 & _ & _ & V1 & B1 & I1).
    rewrite E1 in H1. injection H1 as <- <-.
    rewrite EL, ER in S1.
    apply bind_inv in H. destruct H as [(c & w2 & H2 & H)|(st & H2 & _)].
    2: { exfalso. exact (catch_no_exit _ _ _ _ H2). }
    apply UpdateProofs.catch_inv in H2.
    destruct (ho_io _ _ _ _ (ho_stream_clone newt (s_ssrc s)) H2) as (S2 & IO2).
    destruct c as [ns|st].
    2: { exfalso. unfold ret in H. injection H as _ Hst _.
         exact (ex_stream_clone _ _ _ _ _ H2 Hst). }
    destruct (stream_clone_inv _ _ _ _ _ H2) as (-> & WL).
    cbv zeta in H.
    change (set_pending (set_rdb (set_rdbx (fresh_clone newt (s_ssrc s))
               {| index := index (s_rdbx s);
                  wlen := wlen (s_rdbx (fresh_clone newt (s_ssrc s)));
                  mask := mask (s_rdbx (fresh_clone newt (s_ssrc s))) |}) (s_rdb s)) (s_pending_roc s))
      with (reclone newt s) in H.
    apply bind_inv in H. destruct H as [(r3 & w3 & H3 & H)|(st & H3 & _)].
    2: { destruct (nl_insert_inv _ _ _ _ _ H3) as (_ & _ & [E|(E & _)]); discriminate E. }
    destruct (nl_insert_inv _ _ _ _ _ H3) as (S3 & IO3 & [E|(E & _)]); injection E as ->; cbn [fst snd] in H.
    2: { exfalso. change (st_alloc_fail =? st_ok) with false in H. cbv iota in H.
         exact (dealloc_ret_not_ok _ _ _ _ _ _ err_alloc H). }
    change (st_ok =? st_ok) with true in H. cbv iota in H.
    assert (L3 : ss_list (w_s w3) = rest) by (rewrite S3, S2, S1; reflexivity).
    assert (LE3 : (length (ss_list (w_s w3)) <= f)%nat) by (rewrite L3; exact LR).
    destruct (IH _ _ _ _ H LE3) as (Q1 & Q2 & Q3 & Q4 & Q5 & Q6 & _).
    cbn [fst] in Q2. rewrite L3 in Q2.
    split; [exact Q1|].
    split. { rewrite Q2, <- app_assoc. cbn [map app]. unfold moved at 2. rewrite EC. reflexivity. }
    split. { rewrite Q3, S3, S2, S1. reflexivity. }
    split. { rewrite Q4, S3, S2, S1. reflexivity. }
    split. { apply (same_io_trans _ w3); [|exact Q5]. apply (same_io_trans _ w2); [|exact IO3].
             apply (same_io_trans _ w1'); [|exact IO2]. unfold same_io. auto. }
    split. { intros C. apply Q6. apply nl_cap_step. exact C. }
    intros _. exact WL.
  - (* ---- explicit stream ---- *)
    rewrite ER in H.
    apply bind_inv in H. destruct H as [(u1 & w1 & H1 & H)|(st & H1 & _)]; [|discriminate H1].
    assert (P1 : w_s w1 = {| ss_template := ss_template (w_s w); ss_list := rest; ss_cap := ss_cap (w_s w) |}
                 /\ same_io w w1).
    { unfold put_s in H1. injection H1 as <- _. cbn. unfold same_io. cbn. auto. }
    clear H1. destruct P1 as (S1 & IO1).
    apply bind_inv in H. destruct H as [(r2 & w2 & H2 & H)|(st & H2 & _)].
    2: { destruct (nl_insert_inv _ _ _ _ _ H2) as (_ & _ & [E|(E & _)]); discriminate E. }
    destruct (nl_insert_inv _ _ _ _ _ H2) as (S2 & IO2 & [E|(E & _)]); injection E as ->; cbn [fst snd] in H.
    2: { exfalso. change (st_alloc_fail =? st_ok) with false in H. cbv iota in H.
         exact (dealloc_ret_not_ok _ _ _ _ _ _ err_alloc H). }
    change (st_ok =? st_ok) with true in H. cbv iota in H.
    assert (L2 : ss_list (w_s w2) = rest) by (rewrite S2, S1; reflexivity).
    assert (LE2 : (length (ss_list (w_s w2)) <= f)%nat) by (rewrite L2; exact LR).
    destruct (IH _ _ _ _ H LE2) as (Q1 & Q2 & Q3 & Q4 & Q5 & Q6 & Q7).
    cbn [fst] in Q2. rewrite L2 in Q2, Q7.
    split; [exact Q1|].
    split. { rewrite Q2, <- app_assoc. cbn [map app]. unfold moved at 2. rewrite EC. reflexivity. }
    split. { rewrite Q3, S2, S1. reflexivity. }
    split. { rewrite Q4, S2, S1. reflexivity. }
    split. { apply (same_io_trans _ w2); [|exact Q5]. apply (same_io_trans _ w1); assumption. }
    split. { intros C. apply Q6. apply nl_cap_step. exact C. }
    intros X. apply Q7. inversion X as [? ? X1|? ? X1]; subst; [congruence|exact X1].
Qed.

(* ===================================================================== *)
(* 3. update_template, success                                            *)

(* what srtp_stream_init builds from a policy, given the derived session keys *)
Definition template_of (p : policy) (keys : list skeys) : stream :=
  {| s_ssrc := p_ssrc p; s_clone := false; s_keys := keys;
     s_limits := map (fun _ => mk_limit) keys;
     s_rdbx := {| index := 0; wlen := roundup32 (if p_window p =? 0 then window_default_c else p_window p); mask := 0%N |};
     s_rdb := rdb_init; s_pending_roc := 0; s_dir := 0;
     s_rtp_serv := cp_serv (p_rtp p); s_rtcp_serv := cp_serv (p_rtcp p);
     s_use_mki := (if p_usekey p then false else p_use_mki p);
     s_mki_size := (if p_usekey p then 0 else p_mki_size p);
     s_allow_repeat := p_allow_repeat p; s_cryptex := p_cryptex p;
     s_enc_xtn := p_enc_xtn p |}.

Lemma stream_init_template p o w w' s o' :
  stream_init p o w = (w', inl (s, o')) -> exists keys, s = template_of p keys.
Proof.
  intros H. unfold stream_init in H.
  apply bind_inv in H. destruct H as [(u0 & w0 & _ & H)|(? & ? & ?)]; [|discriminate].
  apply bind_inv in H. destruct H as [(u1 & w1 & _ & H)|(? & ? & ?)]; [|discriminate].
  apply bind_inv in H. destruct H as [(ok & w2 & _ & H)|(? & ? & ?)]; [|discriminate].
  destruct (negb ok); [unfold exit_with in H; discriminate|].
  unfold rdbx_init in H.
  destruct ((if p_window p =? 0 then window_default_c else p_window p) =? 0); [unfold exit_with in H; discriminate|].
  apply bind_inv in H. destruct H as [(r & w3 & _ & H)|(? & ? & ?)]; [|discriminate].
  destruct r as [[keys o2]|st].
  - unfold ret in H. injection H as _ <- _. exists keys. reflexivity.
  - apply bind_inv in H. destruct H as [(u4 & w4 & _ & H)|(? & ? & ?)]; [|discriminate].
    unfold exit_with in H. discriminate.
Qed.

(* the successful first phase: which triple it hands to ut_post *)
Lemma ut_pre_ok p w w1 x :
  ut_pre p w = (w1, inl x) ->
  exists oldt newt wa wb owned o',
    x = (w_s w, oldt, newt) /\
    valid_policy p = st_ok /\
    ss_template (w_s w) = Some oldt /\ compatible oldt p = st_ok /\
    stream_alloc p w = (wa, inl owned) /\ stream_init p owned wa = (wb, inl (newt, o')) /\
    w_s w1 = w_s w /\ same_io w w1.
Proof.
  intros H. destruct (ho_io _ _ _ _ (ho_ut_pre p) H) as (S & IO).
  unfold ut_pre in H.
  apply bind_inv in H. destruct H as [(u & w0 & H0 & H)|(? & ? & ?)]; [|discriminate].
  apply check_st_inv in H0. destruct H0 as [-> [[_ VP]|[? _]]]; [|discriminate].
  unfold bind at 1, get_s in H.
  destruct (ss_template (w_s w)) as [oldt|] eqn:ET; [|unfold exit_with in H; discriminate].
  apply bind_inv in H. destruct H as [(u1 & w2 & H1 & H)|(? & ? & ?)]; [|discriminate].
  apply check_st_inv in H1. destruct H1 as [-> [[_ CP]|[? _]]]; [|discriminate].
  unfold bind at 1 in H. rewrite live_now_eq in H.
  apply bind_inv in H. destruct H as [(owned & wa & HA & H)|(? & ? & ?)]; [|discriminate].
  apply bind_inv in H. destruct H as [(r & wb & HI & H)|(? & ? & ?)]; [|discriminate].
  destruct r as [[newt o']|st1].
  2: { apply bind_inv in H. destruct H as [(u4 & w4 & _ & H)|(? & ? & ?)]; [|discriminate].
       unfold exit_with in H. discriminate. }
  apply UpdateProofs.catch_inv in HI.
  apply bind_inv in H. destruct H as [(ok1 & w4 & _ & H)|(? & ? & ?)]; [|discriminate].
  destruct ok1; cbn [negb] in H.
  2: { apply bind_inv in H. destruct H as [(u5 & w5 & _ & H)|(? & ? & ?)]; [|discriminate].
       unfold exit_with in H. discriminate. }
  apply bind_inv in H. destruct H as [(ok2 & w5 & _ & H)|(? & ? & ?)]; [|discriminate].
  destruct ok2; cbn [negb] in H.
  2: { apply bind_inv in H. destruct H as [(u6 & w6 & _ & H)|(? & ? & ?)]; [|discriminate].
       apply bind_inv in H. destruct H as [(u7 & w7 & _ & H)|(? & ? & ?)]; [|discriminate].
       unfold exit_with in H. discriminate. }
  unfold ret in H. injection H as _ <-.
  exists oldt, newt, wa, wb, owned, o'.
  split; [reflexivity|]. split; [exact VP|]. split; [reflexivity|]. split; [exact CP|].
  split; [exact HA|]. split; [exact HI|]. split; [exact S|exact IO].
Qed.

(* the successful second phase *)
Lemma ut_post_ok ss oldt newt w1 w' :
  ut_post (ss, oldt, newt) w1 = (w', inl tt) ->
  (length (ss_list (w_s w1)) <= S (length (ss_list ss)))%nat ->
  exists cap,
    w_s w' = {| ss_template := Some newt; ss_list := map (moved newt) (ss_list (w_s w1)); ss_cap := cap |} /\
    lenZ (ss_list (w_s w1)) <= cap /\
    same_io w1 w' /\
    (Exists (fun s => s_clone s = true) (ss_list (w_s w1)) -> wlen (s_rdbx newt) <> 0).
Proof.
  intros H LE. unfold ut_post in H.
  apply bind_inv in H. destruct H as [(mv & w2 & H2 & H)|(? & ? & ?)]; [|discriminate].
  destruct mv as [st nl].
  destruct (st =? st_ok) eqn:ES; cbn [negb] in H.
  2: { apply bind_inv in H. destruct H as [(u & w3 & _ & H)|(? & ? & ?)]; [|discriminate].
       apply bind_inv in H. destruct H as [(u4 & w4 & _ & H)|(? & ? & ?)]; [|discriminate].
       apply bind_inv in H. destruct H as [(u5 & w5 & _ & H)|(? & ? & ?)]; [|discriminate].
       unfold exit_with in H. discriminate. }
  apply Z.eqb_eq in ES. subst st.
  destruct (move_streams_ok _ _ _ _ _ _ H2 LE) as (_ & Q2 & _ & _ & Q5 & Q6 & Q7).
  cbn [fst app] in Q2.
  assert (C0 : nl_cap_ok ([], INITIAL_STREAM_INDEX_SIZE_c)).
  { unfold nl_cap_ok, lenZ, INITIAL_STREAM_INDEX_SIZE_c. cbn. lia. }
  destruct (Q6 C0) as (_ & C).
  unfold bind at 1, get_s in H.
  apply bind_inv in H. destruct H as [(u3 & w3 & H3 & H)|(? & ? & ?)]; [|discriminate].
  destruct (ho_io _ _ _ _ (ho_free_n _) H3) as (_ & IO3).
  apply bind_inv in H. destruct H as [(u4 & w4 & H4 & H)|(? & ? & ?)]; [|discriminate].
  destruct (ho_io _ _ _ _ (ho_free_n _) H4) as (_ & IO4).
  apply bind_inv in H. destruct H as [(u5 & w5 & H5 & H)|(? & ? & ?)]; [|discriminate].
  destruct (ho_io _ _ _ _ (ho_stream_dealloc _) H5) as (_ & IO5).
  unfold put_s in H. injection H as <-.
  exists (snd nl). cbn [w_s]. rewrite Q2.
  split; [reflexivity|].
  split. { rewrite Q2 in C. unfold lenZ in *. rewrite map_length in C. exact C. }
  split. { apply (same_io_trans _ w5).
           - apply (same_io_trans _ w2); [exact Q5|]. apply (same_io_trans _ w3); [exact IO3|].
             apply (same_io_trans _ w4); assumption.
           - unfold same_io. cbn. auto. }
  exact Q7.
Qed.

(* MAIN THEOREM: the effect of a successful srtp_update with a wildcard policy *)
Theorem update_template_ok_effect p w w' :
  update_template p w = (w', inl tt) ->
  exists oldt newt keys wa wb owned o',
    (* the policy was acceptable and there was a template *)
    valid_policy p = st_ok /\
    ss_template (w_s w) = Some oldt /\ compatible oldt p = st_ok /\
    (* the new template is the stream srtp_stream_alloc + srtp_stream_init build from p *)
    stream_alloc p w = (wa, inl owned) /\ stream_init p owned wa = (wb, inl (newt, o')) /\
    newt = template_of p keys /\
    ss_template (w_s w') = Some newt /\
    (* the stream list: same order, every entry mapped by `moved newt` *)
    ss_list (w_s w') = map (moved newt) (ss_list (w_s w)) /\
    map s_ssrc (ss_list (w_s w')) = map s_ssrc (ss_list (w_s w)) /\
    (forall x, list_get (ss_list (w_s w')) x = option_map (moved newt) (list_get (ss_list (w_s w)) x)) /\
    lenZ (ss_list (w_s w')) <= ss_cap (w_s w') /\
    (* nothing else *)
    w_ev w' = w_ev w /\ w_b w' = w_b w /\ w_iv w' = w_iv w.
Proof.
  intros H.
  destruct (update_template_phases _ _ _ _ H) as [(st & E & _)|(x & w1 & H1 & H2 & S1)]; [discriminate E|].
  destruct (ut_pre_ok _ _ _ _ H1) as (oldt & newt & wa & wb & owned & o' & -> & VP & ET & CP & HA & HI & _ & IO1).
  assert (LE : (length (ss_list (w_s w1)) <= S (length (ss_list (w_s w))))%nat) by (rewrite S1; lia).
  destruct (ut_post_ok _ _ _ _ _ H2 LE) as (cap & S' & C & IO2 & _).
  rewrite S1 in S', C.
  destruct (stream_init_template _ _ _ _ _ _ HI) as (keys & EN).
  exists oldt, newt, keys, wa, wb, owned, o'.
  rewrite S'. cbn [ss_template ss_list ss_cap].
  split; [exact VP|]. split; [exact ET|]. split; [exact CP|]. split; [exact HA|]. split; [exact HI|].
  split; [exact EN|]. split; [reflexivity|]. split; [reflexivity|].
  split; [apply map_ssrc_moved|]. split; [intros x; apply list_get_map_moved|].
  split. { unfold lenZ in *. rewrite map_length. exact C. }
  destruct (same_io_trans _ _ _ IO1 IO2) as (a & b & c). auto.
Qed.

(* ---- corollaries, SSRC-wise (no uniqueness of SSRCs needed) ---- *)

(* every explicit stream is untouched: found under the same SSRC, the very same record *)
Corollary update_template_explicit_untouched p w w' x s :
  update_template p w = (w', inl tt) ->
  list_get (ss_list (w_s w)) x = Some s -> s_clone s = false ->
  list_get (ss_list (w_s w')) x = Some s.
Proof.
  intros H G C.
  destruct (update_template_ok_effect _ _ _ H) as (oldt & newt & keys & wa & wb & owned & o' & _ & _ & _ & _ & _ & _ & _ & _ & _ & Hg & _).
  rewrite Hg, G. cbn [option_map]. rewrite (moved_explicit _ _ C). reflexivity.
Qed.

(* every former clone: still a clone under the same SSRC, re-keyed with the new template's keys,
   same ROC, same highest sequence number (whole index), same SRTCP window, same pending ROC;
   its replay-window length is the new template's and its replay bitmask is cleared *)
Corollary update_template_clone_keeps_state p w w' x s :
  update_template p w = (w', inl tt) ->
  list_get (ss_list (w_s w)) x = Some s -> s_clone s = true ->
  exists newt n,
    ss_template (w_s w') = Some newt /\
    list_get (ss_list (w_s w')) x = Some n /\ n = reclone newt s /\
    s_ssrc n = x /\ s_clone n = true /\ s_keys n = s_keys newt /\ s_limits n = [] /\
    rdbx_roc (s_rdbx n) = rdbx_roc (s_rdbx s) /\
    index (s_rdbx n) = index (s_rdbx s) /\
    s_rdb n = s_rdb s /\
    s_pending_roc n = s_pending_roc s /\
    wlen (s_rdbx n) = roundup32 (wlen (s_rdbx newt)) /\ mask (s_rdbx n) = 0%N /\
    s_dir n = s_dir newt /\ s_dir newt = 0.
Proof.
  intros H G C.
  destruct (update_template_ok_effect _ _ _ H) as (oldt & newt & keys & wa & wb & owned & o' & _ & _ & _ & _ & _ & EN & ET & _ & _ & Hg & _).
  exists newt, (reclone newt s).
  split; [exact ET|].
  split. { rewrite Hg, G. cbn [option_map]. unfold moved. rewrite C. reflexivity. }
  split; [reflexivity|].
  split. { exact (list_get_ssrc _ _ _ G). }
  rewrite reclone_fields. cbn [s_clone s_keys s_limits s_rdbx s_rdb s_pending_roc s_dir index wlen mask].
  repeat split. rewrite EN. reflexivity.
Qed.

(* no stream appears or disappears *)
Corollary update_template_same_ssrcs p w w' x :
  update_template p w = (w', inl tt) ->
  (list_get (ss_list (w_s w')) x = None <-> list_get (ss_list (w_s w)) x = None).
Proof.
  intros H.
  destruct (update_template_ok_effect _ _ _ H) as (oldt & newt & keys & wa & wb & owned & o' & _ & _ & _ & _ & _ & _ & _ & _ & _ & Hg & _).
  rewrite Hg. destruct (list_get (ss_list (w_s w)) x); cbn [option_map]; split; intros E; try discriminate; reflexivity.
Qed.

(* ===================================================================== *)
(* 4. non-vacuity: a concrete successful wildcard re-key                  *)

(* srtp_create [wildcard template keyed with 2..2; explicit SSRC 7], then a packet of SSRC 5 makes a clone
   (direction sender); the clone is then aged: ROC 3 / seq 5, replay bits 7, SRTCP window at 9, pending ROC 4 *)
Definition w_ex0 : world := fst (lookup_or_clone 5 true (fst (session_create [tmpl 2; pol7] (mkw 0)))).
Definition age (s : stream) : stream :=
  set_pending (set_rdb (set_rdbx s {| index := 3 * 65536 + 5; wlen := wlen (s_rdbx s); mask := 7%N |})
                       {| wstart := 9; bitmask := 3%N |}) 4.
Definition w_ex : world :=
  match list_get (ss_list (w_s w_ex0)) 5 with
  | Some c => fst (put_stream (RList 5) (age c) w_ex0)
  | None => w_ex0
  end.
(* (ssrc, clone?, index, window bits, replay mask, SRTCP window, pending ROC, direction, RTP salts of the keys) *)
Definition view (s : stream) :=
  (s_ssrc s, s_clone s, index (s_rdbx s), wlen (s_rdbx s), mask (s_rdbx s), s_rdb s, s_pending_roc s, s_dir s).
Definition kfp (s : stream) : list bytes := map k_salt (s_keys s).

Example w_ex_shape :
  (option_map view (ss_template (w_s w_ex)), map view (ss_list (w_s w_ex))) =
  (Some (0, false, 0, 128, 0%N, rdb_init, 0, 1),
   [(7, false, 0, 128, 0%N, rdb_init, 0, 0);
    (5, true, 196613, 128, 7%N, {| wstart := 9; bitmask := 3%N |}, 4, 1)]).
Proof. vm_compute. reflexivity. Qed.

(* the hypothesis of update_template_ok_effect holds for it *)
Example update_template_ok_satisfiable :
  exists w', update_template (tmpl 3) w_ex = (w', inl tt).
Proof. eexists. vm_compute. reflexivity. Qed.

(* and the outcome, computed: explicit stream 7 identical; clone 5 keeps index (ROC 3, seq 5), SRTCP window and
   pending ROC, takes the new template's keys, has its replay bitmask cleared and its direction reset to unknown *)
Example update_template_ok_run :
  let '(w', r) := update_template (tmpl 3) w_ex in
  (r, option_map view (ss_template (w_s w')), map view (ss_list (w_s w')), w_ev w') =
  (inl tt, Some (0, false, 0, 128, 0%N, rdb_init, 0, 0),
   [(7, false, 0, 128, 0%N, rdb_init, 0, 0);
    (5, true, 196613, 128, 0%N, {| wstart := 9; bitmask := 3%N |}, 4, 0)], []).
Proof. vm_compute. reflexivity. Qed.

Example update_template_ok_rekeys :
  let w' := fst (update_template (tmpl 3) w_ex) in
  match ss_template (w_s w_ex), ss_template (w_s w'), list_get (ss_list (w_s w_ex)) 5, list_get (ss_list (w_s w')) 5 with
  | Some t, Some t', Some c, Some c' =>
      kfp c = kfp t /\ kfp c' = kfp t' /\ kfp t <> kfp t' /\
      rdbx_roc (s_rdbx c') = 3 /\ s_pending_roc c' = 4
  | _, _, _, _ => False
  end.
Proof. vm_compute. repeat split; try reflexivity. intros E. discriminate E. Qed.

Print Assumptions move_streams_ok.
Print Assumptions update_template_ok_effect.
Print Assumptions update_template_explicit_untouched.
Print Assumptions update_template_clone_keeps_state.
Print Assumptions update_template_same_ssrcs.
