(* RtpSpecProofs.v — C12 (SRTP half) and the sender side of C01: the monadic model of
   srtp_protect (Rtp.v) REFINES the pure function protect_fun of RtpSpec.v, in place
   (b_alias = true) and out of place (b_alias = false, any destination prefill).
   Consequence: status, length, output bytes and final session do not depend on the alias
   mode nor on what the destination held before.

   Restrictions (stated in every theorem):
   - the session holds an explicit stream for the packet's SSRC
     (list_get (ss_list s) ssrc = Some st): no cloning of the template;
   - the stream is well formed (stream_wf: what srtp_stream_init builds).

   Sections 1-4 (list facts, triples with a status-aware exit postcondition, the "facts"
   description of the destination block, the state of one packet call) follow the layout
   of RtcpSpecProofs.v; they are repeated here so that this file only depends on the
   specification files. *)
From Coq Require Import NArith ZArith List Bool Lia.
From Srtp Require Import Util Constants KeyLimit Rdb Rdbx Icm World Stream Rtp
     MonadLemmas EnvelopeProofs WfProofs BoundsRtcp BoundsRtp LengthProofs RtcpSpec RtpSpec.
Import ListNotations.
Local Open Scope Z_scope.

(* ===================================================================== *)
(* 1. lists                                                               *)
(* ===================================================================== *)
Lemma take_all {A} n (l : list A) : (length l <= n)%nat -> take n l = l.
Proof. intros H. rewrite take_firstn. apply firstn_all2. exact H. Qed.
Lemma take_drop_id {A} n (l : list A) : take n l ++ drop n l = l.
Proof. rewrite take_firstn, drop_skipn. apply firstn_skipn. Qed.
Lemma take_add {A} n m (l : list A) : take (n + m) l = take n l ++ take m (drop n l).
Proof.
  revert l. induction n as [|n IH]; intros l; [reflexivity|].
  destruct l as [|x l]; cbn; [destruct m; reflexivity|]. rewrite IH. reflexivity.
Qed.
Lemma slice_0 {A} n (l : list A) : slice 0 n l = take n l.
Proof. reflexivity. Qed.
Lemma slice_add {A} a n m (l : list A) : slice a (n + m) l = slice a n l ++ slice (a + n) m l.
Proof. unfold slice. rewrite take_add, drop_drop. reflexivity. Qed.
Lemma splice_nil {A} o (l : list A) : splice o [] l = l.
Proof.
  revert o. induction l as [|x l IH]; intros o; destruct o as [|o]; cbn; try reflexivity.
  rewrite IH. reflexivity.
Qed.
Lemma drop_splice_above {A} a o (v l : list A) : (o + length v <= a)%nat -> drop a (splice o v l) = drop a l.
Proof.
  revert a o v. induction l as [|x l IH]; intros a o v H.
  - destruct o; reflexivity.
  - destruct o as [|o].
    + destruct v as [|y v]; [reflexivity|]. cbn in H. destruct a as [|a]; [lia|]. cbn. apply IH. cbn. lia.
    + destruct a as [|a]; [lia|]. cbn. apply IH. lia.
Qed.
Lemma slice_splice_above {A} a n o (v l : list A) : (o + length v <= a)%nat -> slice a n (splice o v l) = slice a n l.
Proof. intros H. unfold slice. rewrite drop_splice_above by exact H. reflexivity. Qed.
Lemma slice_splice_same {A} o (v l : list A) :
  (o + length v <= length l)%nat -> slice o (length v) (splice o v l) = v.
Proof.
  revert o v. induction l as [|x l IH]; intros o v H.
  - cbn in H. assert (length v = O) by lia. destruct v; [|discriminate]. destruct o; reflexivity.
  - destruct o as [|o].
    + rewrite slice_0. apply take_splice_0. lia.
    + cbn in H. change (slice (S o) (length v) (splice (S o) v (x :: l))) with (slice o (length v) (splice o v l)).
      apply IH. lia.
Qed.
Lemma slice_to_end {A} a n (l : list A) : (length l <= a + n)%nat -> slice a n l = drop a l.
Proof. intros H. unfold slice. apply take_all. rewrite drop_length. lia. Qed.
Lemma take_app_exact {A} (a b : list A) : take (length a) (a ++ b) = a.
Proof. rewrite take_firstn. rewrite firstn_app, Nat.sub_diag, firstn_all. cbn. apply app_nil_r. Qed.
Lemma drop_app_exact {A} (a b : list A) : drop (length a) (a ++ b) = b.
Proof. rewrite drop_skipn. rewrite skipn_app, Nat.sub_diag, skipn_all. reflexivity. Qed.
Lemma drop_app_ge {A} n (a b : list A) : drop (length a + n) (a ++ b) = drop n b.
Proof. rewrite <- drop_drop, drop_app_exact. reflexivity. Qed.
Lemma take_app_le {A} n (a b : list A) : (n <= length a)%nat -> take n (a ++ b) = take n a.
Proof. intros H. rewrite !take_firstn, firstn_app. replace (n - length a)%nat with O by lia. cbn. apply app_nil_r. Qed.
Lemma slice_app_l {A} o n (a b : list A) : (o + n <= length a)%nat -> slice o n (a ++ b) = slice o n a.
Proof. intros H. rewrite !slice_alt. rewrite take_app_le by exact H. reflexivity. Qed.
Lemma slice_app_r {A} o n (a b : list A) : slice (length a + o) n (a ++ b) = slice o n b.
Proof. unfold slice. rewrite drop_app_ge. reflexivity. Qed.
Lemma length0_nil {A} (l : list A) : length l = O -> l = [].
Proof. destruct l; [reflexivity|discriminate]. Qed.
Lemma zn_len {A} (l : list A) : zn (lenZ l) = length l.
Proof. unfold zn, lenZ. lia. Qed.
Lemma lenZ_app {A} (a b : list A) : lenZ (a ++ b) = lenZ a + lenZ b.
Proof. unfold lenZ. rewrite app_length. lia. Qed.

(* a write inside the first m octets commutes with taking them *)
Lemma take_splice_in {A} m o (v l : list A) : (o + length v <= m)%nat -> take m (splice o v l) = splice o v (take m l).
Proof.
  revert m o v. induction l as [|x l IH]; intros m o v H.
  - destruct m, o; reflexivity.
  - destruct o as [|o].
    + destruct v as [|y v].
      * destruct m; reflexivity.
      * cbn in H. destruct m as [|m]; [lia|]. cbn. rewrite IH by lia. reflexivity.
    + destruct m as [|m]; [lia|]. cbn. rewrite IH by lia. reflexivity.
Qed.
(* overwriting the tail of a list *)
Lemma splice_tail {A} o (v l : list A) : (o + length v = length l)%nat -> splice o v l = take o l ++ v.
Proof.
  revert o v. induction l as [|x l IH]; intros o v H.
  - cbn in H. assert (length v = O) by lia. destruct v; [|discriminate]. destruct o; reflexivity.
  - destruct o as [|o].
    + destruct v as [|y v]; [cbn in H; lia|]. cbn. f_equal. cbn in H.
      specialize (IH O v ltac:(lia)). cbn in IH. exact IH.
    + cbn. f_equal. apply IH. cbn in H. lia.
Qed.

(* ===================================================================== *)
(* 2. Hoare triples whose exit postcondition sees the status               *)
(* ===================================================================== *)
Definition tri {A} (P : world -> Prop) (m : M A) (Q : A -> world -> Prop) (E : Z -> world -> Prop) : Prop :=
  forall w, P w -> match m w with (w', inl a) => Q a w' | (w', inr s) => E s w' end.

Lemma t_ret {A} (a : A) (P : world -> Prop) (Q : A -> world -> Prop) E :
  (forall w, P w -> Q a w) -> tri P (ret a) Q E.
Proof. intros H w HP. cbn. auto. Qed.
Lemma t_exit {A} st (P : world -> Prop) (Q : A -> world -> Prop) (E : Z -> world -> Prop) :
  (forall w, P w -> E st w) -> tri P (exit_with st) Q E.
Proof. intros H w HP. cbn. auto. Qed.
Lemma t_bind {A B} (m : M A) (f : A -> M B) P R Q E :
  tri P m R E -> (forall a, tri (R a) (f a) Q E) -> tri P (bind m f) Q E.
Proof.
  intros Hm Hf w HP. unfold bind. specialize (Hm w HP). destruct (m w) as [w1 [a|st]].
  - exact (Hf a w1 Hm).
  - exact Hm.
Qed.
(* the first computation has its own exit postcondition *)
Lemma t_bind2 {A B} (m : M A) (f : A -> M B) P R Q E1 (E : Z -> world -> Prop) :
  tri P m R E1 -> (forall s w, E1 s w -> E s w) -> (forall a, tri (R a) (f a) Q E) -> tri P (bind m f) Q E.
Proof.
  intros Hm HE Hf w HP. unfold bind. specialize (Hm w HP). destruct (m w) as [w1 [a|st]].
  - exact (Hf a w1 Hm).
  - exact (HE _ _ Hm).
Qed.
Lemma t_pre {A} (P P' : world -> Prop) (m : M A) Q E :
  (forall w, P w -> P' w) -> tri P' m Q E -> tri P m Q E.
Proof. intros I H w HP. exact (H w (I w HP)). Qed.
Lemma t_post {A} (P : world -> Prop) (m : M A) (Q Q' : A -> world -> Prop) E :
  tri P m Q' E -> (forall a w, Q' a w -> Q a w) -> tri P m Q E.
Proof. intros H I w HP. specialize (H w HP). destruct (m w) as [w1 [a|st]]; auto. Qed.
Lemma t_pure {A} (F : Prop) (P : world -> Prop) (m : M A) Q E :
  (F -> tri P m Q E) -> tri (fun w => F /\ P w) m Q E.
Proof. intros H w [HF HP]. exact (H HF w HP). Qed.
Lemma t_ex {A X} (P : X -> world -> Prop) (m : M A) Q E :
  (forall x, tri (P x) m Q E) -> tri (fun w => exists x, P x w) m Q E.
Proof. intros H w [x Hx]. exact (H x w Hx). Qed.
Lemma t_bind_ret {A B} (a : A) (f : A -> M B) P Q E : tri P (f a) Q E -> tri P (bind (ret a) f) Q E.
Proof. intros H. exact H. Qed.
Lemma t_bind_exit {A B} st (f : A -> M B) (P : world -> Prop) Q (E : Z -> world -> Prop) :
  (forall w, P w -> E st w) -> tri P (bind (exit_with st) f) Q E.
Proof. intros H w HP. cbn. auto. Qed.
Lemma t_exitw {A} (P : world -> Prop) (m : M A) Q (E E' : Z -> world -> Prop) :
  tri P m Q E -> (forall s w, E s w -> E' s w) -> tri P m Q E'.
Proof. intros H I w HP. specialize (H w HP). destruct (m w) as [w1 [a|st]]; auto. Qed.

(* ===================================================================== *)
(* 3. what is known of the destination block: a list of (offset, content)  *)
(* ===================================================================== *)
Definition fact_ok (dd : bytes) (f : Z * bytes) : Prop :=
  0 <= fst f /\ slice (zn (fst f)) (length (snd f)) dd = snd f.
Definition facts_ok (fs : list (Z * bytes)) (dd : bytes) : Prop := Forall (fact_ok dd) fs.
(* the fact does not overlap [o, o+n) *)
Definition away (o n : Z) (f : Z * bytes) : Prop := fst f + lenZ (snd f) <= o \/ o + n <= fst f.

Lemma fact_splice dd o v f : 0 <= o -> fact_ok dd f -> away o (lenZ v) f -> fact_ok (splice (zn o) v dd) f.
Proof.
  destruct f as [a u]. unfold fact_ok, away. cbn [fst snd]. intros Ho [Ha Hs] [Hd|Hd]; (split; [exact Ha|]).
  - rewrite slice_splice_below; [exact Hs|]. unfold zn, lenZ in *. lia.
  - rewrite slice_splice_above; [exact Hs|]. unfold zn, lenZ in *. lia.
Qed.
Lemma facts_splice fs o v dd : 0 <= o -> Forall (away o (lenZ v)) fs -> facts_ok fs dd -> facts_ok fs (splice (zn o) v dd).
Proof.
  intros Ho Ha Hf. unfold facts_ok in *. rewrite Forall_forall in *. intros f Hin. apply fact_splice; auto.
Qed.
Lemma facts_write fs o v dd :
  0 <= o -> o + lenZ v <= lenZ dd -> Forall (away o (lenZ v)) fs -> facts_ok fs dd ->
  facts_ok ((o, v) :: fs) (splice (zn o) v dd).
Proof.
  intros Ho Hl Ha Hf. constructor.
  - split; [exact Ho|]. cbn [fst snd]. apply slice_splice_same. unfold zn, lenZ in *. lia.
  - apply facts_splice; assumption.
Qed.
Lemma facts_sub fs fs' dd : facts_ok fs dd -> incl fs' fs -> facts_ok fs' dd.
Proof. unfold facts_ok. rewrite !Forall_forall. intros H I f Hf. exact (H f (I f Hf)). Qed.
Lemma fact_get fs dd o v : facts_ok fs dd -> In (o, v) fs -> slice (zn o) (length v) dd = v.
Proof. unfold facts_ok. rewrite Forall_forall. intros H I. exact (proj2 (H _ I)). Qed.
Lemma facts_nil_fact fs dd o : 0 <= o -> facts_ok fs dd -> facts_ok ((o, []) :: fs) dd.
Proof. intros Ho H. constructor; [split; [exact Ho|reflexivity]|exact H]. Qed.

(* the packet region: a fact at offset 0 that is read from, written into and extended *)
Lemma fact0_read dd P a n : fact_ok dd (0, P) -> (a + n <= length P)%nat -> slice a n dd = slice a n P.
Proof.
  intros [_ H] Hl. cbn [fst snd] in H. change (zn 0) with O in H. rewrite slice_0 in H.
  rewrite <- H. symmetry. apply slice_take. exact Hl.
Qed.
Lemma facts_write_in P fs a u dd :
  0 <= a -> a + lenZ u <= lenZ P -> Forall (away a (lenZ u)) fs -> facts_ok ((0, P) :: fs) dd ->
  facts_ok ((0, splice (zn a) u P) :: fs) (splice (zn a) u dd).
Proof.
  intros Ha Hl Haw Hf. inversion Hf as [|? ? [_ H0] Hr]; subst. cbn [fst snd] in H0.
  constructor.
  - split; [cbn [fst]; lia|]. cbn [fst snd]. change (zn 0) with O in *. rewrite slice_0 in *. rewrite splice_length.
    rewrite take_splice_in by (unfold zn, lenZ in *; lia). rewrite H0. reflexivity.
  - apply facts_splice; assumption.
Qed.
Lemma facts_append P fs u dd :
  lenZ P + lenZ u <= lenZ dd -> Forall (away (lenZ P) (lenZ u)) fs -> facts_ok ((0, P) :: fs) dd ->
  facts_ok ((0, P ++ u) :: fs) (splice (zn (lenZ P)) u dd).
Proof.
  intros Hl Haw Hf. inversion Hf as [|? ? [_ H0] Hr]; subst. cbn [fst snd] in H0.
  constructor.
  - split; [cbn [fst]; lia|]. cbn [fst snd]. change (zn 0) with O in *. rewrite slice_0 in *. rewrite zn_len.
    rewrite app_length, take_add. rewrite take_splice_below by lia. rewrite H0. f_equal.
    apply (slice_splice_same (length P) u dd). unfold lenZ in *. lia.
  - apply facts_splice; [apply lenZ_nonneg|assumption|assumption].
Qed.

(* consecutive pieces *)
Fixpoint chain (a : Z) (vs : list bytes) (dd : bytes) : Prop :=
  match vs with
  | [] => True
  | v :: r => slice (zn a) (length v) dd = v /\ chain (a + lenZ v) r dd
  end.
Lemma chain_slice vs : forall a dd, 0 <= a -> chain a vs dd -> slice (zn a) (length (concat vs)) dd = concat vs.
Proof.
  induction vs as [|v r IH]; intros a dd Ha H; [reflexivity|].
  destruct H as [H1 H2]. cbn [concat]. rewrite app_length, slice_add, H1. f_equal.
  replace (zn a + length v)%nat with (zn (a + lenZ v)) by (unfold zn, lenZ; lia).
  apply IH; [unfold lenZ; lia|exact H2].
Qed.

(* ===================================================================== *)
(* 4. the state of one packet call: exact session, exact knowledge of dst  *)
(* ===================================================================== *)
Section ST.
Variables (L C : Z) (al : bool) (src d0 : bytes).
Let dlen : Z := lenZ d0.
Hypothesis HD : C <= dlen.

Definition St (ss : session) (D : bytes -> Prop) (w : world) : Prop :=
  w_s w = ss /\ b_len (w_b w) = L /\ b_cap (w_b w) = C /\ b_alias (w_b w) = al /\ b_src (w_b w) = src /\
  b_oob (w_b w) = false /\ lenZ (b_dst (w_b w)) = dlen /\ D (b_dst (w_b w)).
Definition Dany : bytes -> Prop := fun _ => True.

Lemma St_weaken ss (D D' : bytes -> Prop) w :
  (forall dd, lenZ dd = dlen -> D dd -> D' dd) -> St ss D w -> St ss D' w.
Proof. intros I (h0 & h1 & h2 & h3 & h4 & h5 & h6 & h7). repeat split; auto. Qed.
Lemma St_any ss D w : St ss D w -> St ss Dany w.
Proof. apply St_weaken. intros; exact I. Qed.
Lemma t_weaken {A} ss (D D' : bytes -> Prop) (m : M A) Q E :
  (forall dd, lenZ dd = dlen -> D dd -> D' dd) -> tri (St ss D') m Q E -> tri (St ss D) m Q E.
Proof. intros I. apply t_pre. intros w. apply St_weaken. exact I. Qed.

Lemma t_get_b0 ss E :
  tri (St ss (eq d0)) get_b (fun b w => b = b_init L C al src d0 /\ St ss (eq d0) w) E.
Proof.
  clear HD. intros w HI. cbn. split; [|exact HI]. destruct HI as (h0 & h1 & h2 & h3 & h4 & h5 & h6 & h7).
  destruct (w_b w); cbn in *. unfold b_init. subst. reflexivity.
Qed.
Lemma t_get_b ss D E :
  tri (St ss D) get_b (fun b w => (b_len b = L /\ b_cap b = C /\ b_alias b = al) /\ St ss D w) E.
Proof. intros w HI. cbn. split; [|exact HI]. destruct HI as (h0 & h1 & h2 & h3 & _). auto. Qed.

Lemma t_rd_src ss D off n E :
  0 <= off -> 0 <= n -> off + n <= L ->
  tri (St ss D) (rd_src off n)
      (fun d w => (exists dd, D dd /\ lenZ dd = dlen /\ d = slice (zn off) (zn n) (if al then dd else src)) /\ St ss D w) E.
Proof.
  intros H1 H2 H3 w HI. unfold rd_src, bind, get_b.
  destruct HI as (h0 & h1 & h2 & h3 & h4 & h5 & h6 & h7).
  assert (Hc : (off <? 0) || (n <? 0) || (b_len (w_b w) <? off + n) = false).
  { rewrite h1. rewrite !orb_false_iff, !Z.ltb_ge. lia. }
  rewrite Hc. cbn [ret]. split.
  - exists (b_dst (w_b w)). split; [exact h7|]. split; [exact h6|]. unfold cur_src. rewrite h3, h4. reflexivity.
  - repeat split; assumption.
Qed.

Lemma t_rd_dst ss D off n E :
  0 <= off -> 0 <= n -> off + n <= dlen ->
  tri (St ss D) (rd_dst off n)
      (fun d w => (exists dd, D dd /\ lenZ dd = dlen /\ d = slice (zn off) (zn n) dd) /\ St ss D w) E.
Proof.
  intros H1 H2 H3 w HI. unfold rd_dst, bind, get_b.
  destruct HI as (h0 & h1 & h2 & h3 & h4 & h5 & h6 & h7).
  assert (Hc : (off <? 0) || (n <? 0) || (lenZ (b_dst (w_b w)) <? off + n) = false).
  { rewrite h6. rewrite !orb_false_iff, !Z.ltb_ge. lia. }
  rewrite Hc. cbn [ret]. split.
  - exists (b_dst (w_b w)). auto.
  - repeat split; assumption.
Qed.

Lemma t_wr_dst ss (D D' : bytes -> Prop) off v E :
  0 <= off -> off + lenZ v <= C ->
  (forall dd, lenZ dd = dlen -> D dd -> D' (splice (zn off) v dd)) ->
  tri (St ss D) (wr_dst off v) (fun _ => St ss D') E.
Proof.
  intros H1 H2 HK w HI. unfold wr_dst, bind, get_b, put_b. cbn.
  destruct HI as (h0 & h1 & h2 & h3 & h4 & h5 & h6 & h7).
  unfold St. cbn. rewrite lenZ_splice. repeat split; try assumption.
  - rewrite h5, h2. cbn [orb]. rewrite orb_false_iff, !Z.ltb_ge. lia.
  - apply HK; assumption.
Qed.

Lemma t_wr_facts ss fs off v E :
  0 <= off -> off + lenZ v <= C -> Forall (away off (lenZ v)) fs ->
  tri (St ss (facts_ok fs)) (wr_dst off v) (fun _ => St ss (facts_ok ((off, v) :: fs))) E.
Proof.
  intros H1 H2 H3. apply t_wr_dst; [exact H1|exact H2|].
  intros dd Hl Hf. apply facts_write; auto. lia.
Qed.
(* a write inside the packet region / right behind it *)
Lemma t_wr_in ss P fs off v E :
  0 <= off -> off + lenZ v <= lenZ P -> lenZ P <= C -> Forall (away off (lenZ v)) fs ->
  tri (St ss (facts_ok ((0, P) :: fs))) (wr_dst off v) (fun _ => St ss (facts_ok ((0, splice (zn off) v P) :: fs))) E.
Proof.
  intros H1 H2 H3 H4. apply t_wr_dst; [exact H1|lia|].
  intros dd Hl Hf. apply facts_write_in; assumption.
Qed.
Lemma t_wr_append ss P fs v E :
  lenZ P + lenZ v <= C -> Forall (away (lenZ P) (lenZ v)) fs ->
  tri (St ss (facts_ok ((0, P) :: fs))) (wr_dst (lenZ P) v) (fun _ => St ss (facts_ok ((0, P ++ v) :: fs))) E.
Proof.
  intros H2 H4. apply t_wr_dst; [apply lenZ_nonneg|exact H2|].
  intros dd Hl Hf. apply facts_append; [lia|assumption|assumption].
Qed.

Lemma t_log_encrypt_iv ss D k iv E : tri (St ss D) (log_encrypt_iv k iv) (fun _ => St ss D) E.
Proof. intros w H. unfold log_encrypt_iv. destruct (is_icm_alg (ck_alg k)); cbn; exact H. Qed.

(* ---- session operations on an explicit stream ---- *)
Lemma t_lookup_existing ss D x st0 flag E :
  list_get (ss_list ss) x = Some st0 ->
  tri (St ss D) (lookup_or_clone x flag) (fun r w => r = RList x /\ St ss D w) E.
Proof.
  intros Hg w HI. unfold lookup_or_clone, bind, get_s. rewrite (proj1 HI), Hg. cbn. auto.
Qed.
Lemma t_get_stream_list ss D x st E :
  list_get (ss_list ss) x = Some st ->
  tri (St ss D) (get_stream (RList x)) (fun s w => s = st /\ St ss D w) E.
Proof.
  intros Hg w HI. unfold get_stream, bind, get_s. rewrite (proj1 HI), Hg. cbn. auto.
Qed.
Lemma t_put_stream_list ss D x n E :
  tri (St ss D) (put_stream (RList x) n) (fun _ => St (sess_put ss x n) D) E.
Proof.
  intros w HI. unfold put_stream, bind, get_s, put_s. cbn.
  destruct HI as (h0 & h1 & h2 & h3 & h4 & h5 & h6 & h7). unfold St. cbn. rewrite h0.
  repeat split; assumption.
Qed.
Lemma t_emit ss D e x E : tri (St ss D) (emit e x) (fun _ => St ss D) E.
Proof. intros w H. cbn. exact H. Qed.

Lemma t_check_direction ss D x st0 want E :
  list_get (ss_list ss) x = Some st0 ->
  tri (St ss D) (check_direction (RList x) want) (fun _ => St (dir_session ss x st0 want) D) E.
Proof.
  intros Hg. unfold check_direction, dir_session.
  eapply t_bind; [apply t_get_stream_list; exact Hg|intros st]. apply t_pure; intros ->.
  destruct (s_dir st0 =? want); [apply t_ret; auto|].
  destruct (s_dir st0 =? dir_unknown_c); [apply t_put_stream_list|apply t_emit].
Qed.
End ST.

Lemma dir_session_get ss x st0 want :
  list_get (ss_list ss) x = Some st0 ->
  list_get (ss_list (dir_session ss x st0 want)) x = Some (dir_stream st0 want).
Proof.
  intros Hg. unfold dir_session, dir_stream.
  destruct (s_dir st0 =? want); [exact Hg|]. destruct (s_dir st0 =? dir_unknown_c); [|exact Hg].
  cbn [sess_put ss_list]. apply (list_get_replace_same _ _ _ _ Hg). exact (list_get_ssrc _ _ _ Hg).
Qed.
Lemma dir_stream_cfg st want : cfg_eq st (dir_stream st want).
Proof.
  unfold dir_stream. destruct (s_dir st =? want); [apply cfg_eq_refl|].
  destruct (s_dir st =? dir_unknown_c); [apply cfg_eq_upd|apply cfg_eq_refl].
Qed.
Lemma keys_by_index_eq st i :
  keys_by_index st i = match sender_key_st st i with inl r => ret r | inr e => exit_with e end.
Proof.
  unfold keys_by_index, sender_key_st.
  destruct (s_use_mki st && ((i <? 0) || (lenZ (s_keys st) <=? i))); [reflexivity|].
  destruct (nth_error (s_keys st) (zn (if s_use_mki st then i else 0))); reflexivity.
Qed.
Lemma sender_key_st_In st i ki k : sender_key_st st i = inl (ki, k) -> In k (s_keys st).
Proof.
  unfold sender_key_st. destruct (s_use_mki st && _); [discriminate|].
  destruct (nth_error (s_keys st) _) eqn:E; [|discriminate]. intros H. injection H as _ <-.
  exact (nth_error_In _ _ E).
Qed.

(* ---- the template, and the key-usage charge ---- *)
Section ST2.
Variables (L C : Z) (al : bool) (src d0 : bytes).
Notation S := (St L C al src d0).

Lemma t_get_stream_tmpl ss D :
  tri (S ss D) (get_stream RTemplate) (fun t w => ss_template ss = Some t /\ S ss D w)
      (fun s w => (ss_template ss = None /\ s = st_fail) /\ S ss D w).
Proof.
  intros w HI. unfold get_stream, bind, get_s. rewrite (proj1 HI).
  destruct (ss_template ss); cbn; auto.
Qed.
Lemma t_put_stream_tmpl ss D n E :
  tri (S ss D) (put_stream RTemplate n)
      (fun _ => S {| ss_template := Some n; ss_list := ss_list ss; ss_cap := ss_cap ss |} D) E.
Proof.
  intros w HI. unfold put_stream, bind, get_s, put_s. cbn.
  destruct HI as (h0 & h1 & h2 & h3 & h4 & h5 & h6 & h7). unfold St. cbn. rewrite h0.
  repeat split; assumption.
Qed.

Lemma t_limit_update ss D x st i :
  list_get (ss_list ss) x = Some st ->
  tri (S ss D) (limit_update (RList x) i)
      (fun e w => exists ss', limit_update_fun ss x st i = inl (ss', e) /\ S ss' D w)
      (fun s w => limit_update_fun ss x st i = inr s /\ S ss D w).
Proof.
  intros Hg. unfold limit_update, limit_update_fun.
  eapply t_bind; [apply t_get_stream_list; exact Hg|intros st']. apply t_pure; intros ->.
  destruct (s_clone st).
  - eapply t_bind2; [apply t_get_stream_tmpl| |intros t].
    { intros s w [[E1 ->] Hw]. rewrite E1. auto. }
    apply t_pure; intros ->.
    destruct (nth_error (s_limits t) (zn i)) as [k|]; [|apply t_exit; auto].
    destruct (kl_update k) as [k' e]. cbn [fst snd].
    eapply t_bind; [apply t_put_stream_tmpl|intros ?]. apply t_ret. intros w Hw. eexists. split; [reflexivity|exact Hw].
  - destruct (nth_error (s_limits st) (zn i)) as [k|]; [|apply t_exit; auto].
    destruct (kl_update k) as [k' e]. cbn [fst snd].
    eapply t_bind; [apply t_put_stream_list|intros ?]. apply t_ret. intros w Hw. eexists. split; [reflexivity|exact Hw].
Qed.

Lemma limit_update_fun_get ss x st i ss' e :
  list_get (ss_list ss) x = Some st -> limit_update_fun ss x st i = inl (ss', e) ->
  list_get (ss_list ss') x = Some (charged_stream st i).
Proof.
  intros Hg. unfold limit_update_fun, charged_stream. destruct (s_clone st).
  - destruct (ss_template ss) as [t|]; [|discriminate].
    destruct (nth_error (s_limits t) (zn i)); [|discriminate]. intros H. injection H as <- _. exact Hg.
  - destruct (nth_error (s_limits st) (zn i)); [|discriminate]. intros H. injection H as <- _.
    cbn [sess_put ss_list]. apply (list_get_replace_same _ _ _ _ Hg). exact (list_get_ssrc _ _ _ Hg).
Qed.

Lemma t_charge_key ss D x st i :
  list_get (ss_list ss) x = Some st ->
  tri (S ss D) (charge_key (RList x) i)
      (fun _ w => exists ss', charge_fun ss x st i = (ss', inl tt) /\
                              list_get (ss_list ss') x = Some (charged_stream st i) /\ S ss' D w)
      (fun s w => exists ss', charge_fun ss x st i = (ss', inr s) /\ S ss' D w).
Proof.
  intros Hg. unfold charge_key, charge_fun.
  eapply t_bind2; [apply t_limit_update; exact Hg| |intros e].
  { intros s w [E Hw]. rewrite E. exists ss. auto. }
  apply t_ex; intros ss'. apply t_pure; intros EL. rewrite EL.
  pose proof (limit_update_fun_get _ _ _ _ _ _ Hg EL) as Hg'.
  eapply t_bind; [apply t_get_stream_list; exact Hg'|intros st2]. apply t_pure; intros ->.
  destruct e.
  - apply t_ret. intros w Hw. exists ss'. auto.
  - eapply t_post; [apply t_emit|]. intros ? w Hw. exists ss'. auto.
  - eapply t_bind; [apply t_emit|intros ?]. apply t_exit. intros w Hw. exists ss'. auto.
Qed.
End ST2.

Lemma charged_rdbx st i : s_rdbx (charged_stream st i) = s_rdbx st.
Proof. unfold charged_stream. destruct (s_clone st); [reflexivity|]. destruct (nth_error _ _); reflexivity. Qed.
Lemma charged_serv st i : s_rtp_serv (charged_stream st i) = s_rtp_serv st.
Proof. unfold charged_stream. destruct (s_clone st); [reflexivity|]. destruct (nth_error _ _); reflexivity. Qed.
Lemma charged_mki st i : s_mki_size (charged_stream st i) = s_mki_size st.
Proof. unfold charged_stream. destruct (s_clone st); [reflexivity|]. destruct (nth_error _ _); reflexivity. Qed.
Lemma charged_xtn st i : s_enc_xtn (charged_stream st i) = s_enc_xtn st.
Proof. unfold charged_stream. destruct (s_clone st); [reflexivity|]. destruct (nth_error _ _); reflexivity. Qed.

(* ===================================================================== *)
(* 5. srtp_protect                                                        *)
(* ===================================================================== *)
Lemma enc0_bounds pkt L : validate_rtp pkt L = st_ok -> 12 <= enc0 pkt <= L.
Proof.
  intros V. apply validate_rtp_ok in V. destruct V as (V1 & V2 & V3). unfold enc0.
  pose proof (hdr_cc_range pkt). pose proof (hdr_len_eq pkt). pose proof (xtn_len_ge pkt).
  destruct (hdr_x pkt =? 1) eqn:EX; [apply Z.eqb_eq in EX; specialize (V3 EX)|]; lia.
Qed.

(* the payload without cryptex: everything from es on, encrypted or as it is *)
Definition pay_body (conf : bool) (cs : cstate) (es : Z) (pkt : bytes) : bytes + Z :=
  if conf then
    let '(s, _, o) := cipher_encrypt cs (drop (zn es) pkt) in
    if negb (s =? st_ok) then inr st_cipher_fail else inl (take (zn es) pkt ++ o)
  else inl pkt.

Lemma wire_crypt_plain st cs p1 : s_cryptex st = false -> wire_crypt st cs p1 = pay_body (rtp_conf st) cs (enc0 p1) p1.
Proof. intros H. unfold wire_crypt, pay_body. rewrite H. reflexivity. Qed.

Section RTP_REF.
Variables (L C : Z) (al : bool) (src d0 pkt : bytes).
Hypothesis HL : 0 <= L < 9223372036854775808.
Hypothesis HC : 0 <= C < 9223372036854775808.
Hypothesis HD : C <= lenZ d0.
(* the input block holds the packet (L octets) *)
Hypothesis Hpkt : take (zn L) (if al then d0 else src) = pkt.
Hypothesis HLp : lenZ pkt = L.

Notation S := (St L C al src d0).

Lemma in_slice off n : 0 <= off -> 0 <= n -> off + n <= L ->
  slice (zn off) (zn n) (if al then d0 else src) = slice (zn off) (zn n) pkt.
Proof. intros H1 H2 H3. rewrite <- Hpkt. symmetry. apply slice_take. unfold zn. lia. Qed.

Lemma St_exit ss D w : S ss D w -> w_s w = ss /\ b_src (w_b w) = src /\ b_oob (w_b w) = false.
Proof. intros (h0 & h1 & h2 & h3 & h4 & h5 & h6 & h7). auto. Qed.

Lemma Hpkt_b : take (zn L) (cur_src (b_init L C al src d0)) = pkt.
Proof. exact Hpkt. Qed.
Ltac norm_b :=
  change (b_len (b_init L C al src d0)) with L;
  change (b_cap (b_init L C al src d0)) with C;
  change (b_alias (b_init L C al src d0)) with al;
  rewrite ?Hpkt_b.

Ltac away_tac := repeat (apply Forall_cons || apply Forall_nil); unfold away; cbn [fst snd]; lia.

(* the packet region after the header copy *)
Definition P0 (es : Z) : bytes := if al then pkt else take (zn es) pkt.
Lemma P0_len es : 0 <= es <= L -> lenZ (P0 es) = if al then L else es.
Proof. intros H. unfold P0. destruct al; [exact HLp|]. unfold lenZ, zn in *. rewrite take_length. lia. Qed.

Lemma header_copy ss es E :
  0 <= es <= L -> es <= C ->
  tri (S ss (eq d0)) (if al then ret tt else (h <- rd_src 0 es ;; wr_dst 0 h))
      (fun _ => S ss (facts_ok [(0, P0 es)])) E.
Proof.
  intros H1 H2. unfold P0. pose proof (in_slice 0 es) as I1. destruct al eqn:EA.
  - apply t_ret. intros w Hw. eapply St_weaken; [|exact Hw]. intros dd _ <-.
    constructor; [|constructor]. split; [cbn [fst]; lia|]. cbn [fst snd].
    replace (length pkt) with (zn L) by (unfold lenZ, zn in *; lia). exact Hpkt.
  - eapply t_bind; [apply t_rd_src; lia|intros h]. apply t_pure; intros (dd & _ & _ & ->).
    rewrite I1 by lia. change (slice (zn 0) (zn es) pkt) with (take (zn es) pkt).
    apply t_weaken with (D' := facts_ok []); [intros; constructor|].
    assert (LT : lenZ (take (zn es) pkt) = es) by (unfold lenZ, zn in *; rewrite take_length; lia).
    apply t_wr_facts; [exact HD|lia|lia|constructor].
Qed.

Lemma payload_step ss (conf : bool) cs es fs0 :
  0 <= es <= L -> L <= C -> Forall (away 0 L) fs0 ->
  tri (S ss (facts_ok ((0, P0 es) :: fs0)))
      (if conf then
         d <- rd_src es (L - es) ;;
         (let '(s, _, o) := cipher_encrypt cs d in
          if negb (s =? st_ok) then exit_with st_cipher_fail else wr_dst es o)
       else if al then ret tt
       else (d <- rd_src es (L - es) ;; wr_dst es d))
      (fun _ w => exists body, pay_body conf cs es pkt = inl body /\ lenZ body = L /\ S ss (facts_ok ((0, body) :: fs0)) w)
      (fun s w => pay_body conf cs es pkt = inr s /\ S ss Dany w).
Proof.
  intros Hes HLC Haway.
  pose proof (P0_len es Hes) as LP0. unfold P0 in *.
  assert (LT : lenZ (take (zn es) pkt) = es) by (unfold lenZ, zn in *; rewrite take_length; lia).
  assert (LDr : lenZ (drop (zn es) pkt) = L - es) by (unfold lenZ, zn in *; rewrite drop_length; lia).
  assert (Haw2 : forall n, 0 <= n -> es + n <= L -> Forall (away es n) fs0).
  { intros n Hn1 Hn2. eapply Forall_impl; [|exact Haway]. intros f [A|A]; [left|right]; lia. }
  assert (Hrd : forall dd, facts_ok ((0, if al then pkt else take (zn es) pkt) :: fs0) dd ->
                           slice (zn es) (zn (L - es)) (if al then dd else src) = drop (zn es) pkt).
  { intros dd Hf. pose proof (in_slice es (L - es)) as I2. unfold P0 in *. destruct al eqn:EA.
    - inversion Hf as [|? ? F0 _]; subst. rewrite (fact0_read _ _ _ _ F0) by (unfold lenZ, zn in *; lia).
      apply slice_to_end. unfold lenZ, zn in *. lia.
    - rewrite I2 by lia. apply slice_to_end. unfold lenZ, zn in *. lia. }
  unfold pay_body. destruct conf.
  - eapply t_bind; [apply t_rd_src; lia|intros d]. apply t_pure; intros (dd & Hf & _ & ->). rewrite (Hrd dd Hf).
    destruct (cipher_encrypt cs (drop (zn es) pkt)) as [[s c2] o] eqn:EE.
    destruct (s =? st_ok) eqn:ES; cbn [negb].
    + pose proof (cipher_encrypt_ok_length _ _ _ _ _ EE ES) as Lo.
      assert (Lo' : lenZ o = L - es) by (unfold lenZ in *; lia).
      unfold P0. destruct al eqn:EA.
      * eapply t_post; [apply t_wr_in; [lia|lia|lia|rewrite Lo'; apply Haw2; lia]|].
        intros ? w Hw. exists (take (zn es) pkt ++ o). split; [reflexivity|]. split; [rewrite lenZ_app; lia|].
        rewrite splice_tail in Hw by (unfold lenZ, zn in *; lia). exact Hw.
      * replace (wr_dst es o) with (wr_dst (lenZ (take (zn es) pkt)) o) by (rewrite LT; reflexivity).
        eapply t_post; [apply t_wr_append; [exact HD|lia|rewrite LT, Lo'; apply Haw2; lia]|].
        intros ? w Hw. exists (take (zn es) pkt ++ o). split; [reflexivity|]. split; [rewrite lenZ_app; lia|exact Hw].
    + apply t_exit. intros w Hw. split; [reflexivity|]. exact (St_any _ _ _ _ _ _ _ _ Hw).
  - unfold P0. destruct al eqn:EA.
    + apply t_ret. intros w Hw. exists pkt. split; [reflexivity|]. split; [exact HLp|exact Hw].
    + eapply t_bind; [apply t_rd_src; lia|intros d]. apply t_pure; intros (dd & Hf & _ & ->).
      rewrite (Hrd dd Hf).
      replace (wr_dst es (drop (zn es) pkt)) with (wr_dst (lenZ (take (zn es) pkt)) (drop (zn es) pkt)) by (rewrite LT; reflexivity).
      eapply t_post; [apply t_wr_append; [exact HD|lia|rewrite LT, LDr; apply Haw2; lia]|].
      intros ? w Hw. exists pkt. split; [reflexivity|]. split; [exact HLp|].
      rewrite take_drop_id in Hw. exact Hw.
Qed.

Variable ss0 : session.
Variable st0 : stream.
Hypothesis Hget : list_get (ss_list ss0) (hdr_ssrc pkt) = Some st0.
Hypothesis Hwf : stream_wf st0.
(* this section: neither cryptex nor a header-extension cipher *)
Hypothesis Hcx : s_cryptex st0 = false.
Hypothesis Hxk : forall k, In k (s_keys st0) -> k_xtn_c k = None.

Definition ProtQ i (l : Z) (w : world) : Prop :=
  exists wire, protect_fun ss0 i C pkt = (w_s w, inl wire) /\ l = lenZ wire /\
               take (zn l) (b_dst (w_b w)) = wire /\ b_src (w_b w) = src /\ b_oob (w_b w) = false.
Definition ProtE i (s : Z) (w : world) : Prop :=
  protect_fun ss0 i C pkt = (w_s w, inr s) /\ b_src (w_b w) = src /\ b_oob (w_b w) = false.

Lemma prot_exit ss D i s w : S ss D w -> protect_fun ss0 i C pkt = (ss, inr s) -> ProtE i s w.
Proof. intros Hw Hs. destruct (St_exit _ _ _ Hw) as (e1 & e2 & e3). unfold ProtE. rewrite e1. auto. Qed.

Lemma protect_tri i : tri (S ss0 (eq d0)) (protect i) (ProtQ i) (ProtE i).
Proof.
  pose proof (eq_refl (protect_fun ss0 i C pkt)) as SPEC. unfold protect_fun at 2 in SPEC.
  cbv zeta in SPEC. rewrite HLp in SPEC.
  unfold protect.
  eapply t_bind; [apply t_get_b0|intros b]. apply t_pure; intros ->.
  cbv beta zeta. norm_b.
  change octets_in_rtp_header_c with 12. change octets_in_rtp_xtn_hdr_c with 4.
  unfold check_st. destruct (validate_rtp pkt L =? st_ok) eqn:EV; cbn [negb] in SPEC.
  2:{ apply t_bind_exit. intros w Hw. exact (prot_exit _ _ _ _ _ Hw SPEC). }
  apply t_bind_ret. apply Z.eqb_eq in EV. pose proof (enc0_bounds _ _ EV) as EB.
  rewrite Hget in SPEC. cbv beta iota in SPEC.
  eapply t_bind; [eapply t_lookup_existing; exact Hget|intros r]. apply t_pure; intros ->.
  eapply t_bind; [eapply t_check_direction; exact Hget|intros ?].
  eapply t_bind; [apply t_get_stream_list; apply dir_session_get; exact Hget|intros st]. apply t_pure; intros Est.
  rewrite <- Est in SPEC.
  set (ss1 := dir_session ss0 (hdr_ssrc pkt) st0 dir_srtp_sender_c) in *.
  pose proof (dir_stream_cfg st0 dir_srtp_sender_c) as CF. rewrite <- Est in CF.
  assert (Wst : stream_wf st) by exact (stream_wf_cfg _ _ CF Hwf).
  destruct CF as (CK & _ & _ & CX). rewrite Hcx in CX.
  rewrite keys_by_index_eq. destruct (sender_key_st st i) as [[ki k]|e] eqn:EK.
  2:{ apply t_bind_exit. intros w Hw. exact (prot_exit _ _ _ _ _ Hw SPEC). }
  apply t_bind_ret. cbv beta iota.
  pose proof (sender_key_st_In _ _ _ _ EK) as Hk.
  pose proof (stream_wf_key _ _ Wst Hk) as (MK & TA & _).
  assert (XK : k_xtn_c k = None) by (apply Hxk; rewrite <- CK; exact Hk).
  destruct Wst as (M & U & _). rewrite max_mki_value in M.
  pose proof (akey_prefix_le _ TA) as PL. pose proof TA as [T KP]. rewrite max_tag_value in T.
  (* key usage *)
  eapply t_bind2; [eapply t_charge_key; apply dir_session_get; exact Hget| |intros ?].
  { intros s w (ss' & EC & Hw). rewrite <- Est in EC. rewrite EC in SPEC. exact (prot_exit _ _ _ _ _ Hw SPEC). }
  apply t_ex; intros ss2. apply t_pure; intros EC. apply t_pure; intros Hg2.
  rewrite <- Est in EC, Hg2. rewrite EC in SPEC.
  destruct (C <? L + s_mki_size st + ak_tag (k_rtp_a k)) eqn:E1.
  { apply t_bind_exit. intros w Hw. exact (prot_exit _ _ _ _ _ Hw SPEC). }
  apply t_bind_ret. pose proof E1 as E1'. apply Z.ltb_ge in E1'.
  unfold rtp_conf in SPEC at 1. rewrite CX in *. cbn [andb] in SPEC |- *. apply t_bind_ret.
  fold (enc0 pkt). set (es := enc0 pkt) in *.
  destruct (L <? es) eqn:E2; [apply Z.ltb_lt in E2; lia|]. apply t_bind_ret.
  (* header *)
  eapply t_bind; [apply header_copy; lia|intros ?].
  (* MKI *)
  set (mki := if s_use_mki st then k_mki k else []).
  assert (LM : lenZ mki = s_mki_size st).
  { subst mki. destruct (s_use_mki st); [exact MK|]. rewrite (U eq_refl). reflexivity. }
  assert (LP : lenZ (P0 es) <= L) by (rewrite P0_len by lia; destruct al; lia).
  apply t_bind with (R := fun _ => S ss2 (facts_ok [(L, mki); (0, P0 es)])).
  { subst mki. destruct (s_use_mki st) eqn:EU.
    - apply t_wr_facts; [exact HD|lia|lia|away_tac].
    - apply t_ret. intros w Hw. eapply St_weaken; [|exact Hw]. intros dd _ Hf. apply facts_nil_fact; [lia|exact Hf]. }
  intros ?.
  (* zeroed tag without authentication *)
  change (negb (Z.land (s_rtp_serv st) sec_serv_auth_c =? 0)) with (rtp_auth st).
  set (Z0 := if rtp_auth st then [] else zeros (zn (ak_tag (k_rtp_a k)))).
  assert (LZ0 : lenZ Z0 = if rtp_auth st then 0 else ak_tag (k_rtp_a k)).
  { subst Z0. destruct (rtp_auth st); [reflexivity|apply lenZ_zeros; lia]. }
  apply t_bind with (R := fun _ => S ss2 (facts_ok [(L + s_mki_size st, Z0); (L, mki); (0, P0 es)])).
  { subst Z0. destruct (rtp_auth st).
    - apply t_ret. intros w Hw. eapply St_weaken; [|exact Hw]. intros dd _ Hf. apply facts_nil_fact; [lia|exact Hf].
    - apply t_wr_facts; [exact HD|lia|lia|away_tac]. }
  intros ?.
  (* index *)
  eapply t_bind; [apply t_get_stream_list; exact Hg2|intros st2]. apply t_pure; intros ->.
  set (st2 := charged_stream st ki) in *.
  unfold index_step in SPEC. destruct (est_index st2 (hdr_seq pkt)) as [[est_st est] delta].
  destruct (negb (est_st =? st_ok) && negb (est_st =? st_pkt_idx_adv)).
  { apply t_bind_exit. intros w Hw. exact (prot_exit _ _ _ _ _ Hw SPEC). }
  apply t_bind_ret.
  apply t_bind with (R := fun _ w =>
    exists st3, (if est_st =? st_pkt_idx_adv then inl (est, commit_advance st2 est)
                 else if negb (rdbx_check (s_rdbx st2) delta =? st_ok) &&
                         (negb (rdbx_check (s_rdbx st2) delta =? st_replay_fail) || negb (s_allow_repeat st2))
                      then inr (rdbx_check (s_rdbx st2) delta)
                      else inl (est, set_pending (set_rdbx st2 (rdbx_add (s_rdbx st2) delta)) 0)) = inl (est, st3) /\
                S (sess_put ss2 (hdr_ssrc pkt) st3) (facts_ok [(L + s_mki_size st, Z0); (L, mki); (0, P0 es)]) w).
  { destruct (est_st =? st_pkt_idx_adv).
    - eapply t_post; [apply t_put_stream_list|]. intros ? w Hw. eexists. split; [reflexivity|exact Hw].
    - destruct (negb (rdbx_check (s_rdbx st2) delta =? st_ok) &&
                (negb (rdbx_check (s_rdbx st2) delta =? st_replay_fail) || negb (s_allow_repeat st2))).
      + apply t_bind_exit. intros w Hw. exact (prot_exit _ _ _ _ _ Hw SPEC).
      + apply t_bind_ret. eapply t_post; [apply t_put_stream_list|]. intros ? w Hw. eexists. split; [reflexivity|exact Hw]. }
  intros ?. apply t_ex; intros st3. apply t_pure; intros E3. cbv zeta in SPEC. rewrite E3 in SPEC.
  set (ss3 := sess_put ss2 (hdr_ssrc pkt) st3) in *.
  eapply t_bind; [apply t_log_encrypt_iv|intros ?].
  rewrite XK. apply t_bind_ret.
  (* the wire function, unfolded as far as the checks passed so far allow *)
  unfold rtp_wire_r in SPEC. rewrite HLp in SPEC.
  replace (validate_rtp pkt L =? st_ok) with true in SPEC by (symmetry; apply Z.eqb_eq; exact EV).
  rewrite CX, XK in SPEC. cbn [negb andb wire_xtn] in SPEC.
  set (iv := rtp_iv (ck_alg (k_rtp_c k)) (hdr_ssrc pkt) est) in *.
  (* keystream prefix *)
  unfold wire_prefix in SPEC.
  apply t_bind with (R := fun cs1 w =>
     exists pre, (if rtp_auth st && negb (ak_prefix (k_rtp_a k) =? 0)
                  then let '(s, cs', ks) := cipher_output (cipher_start (k_rtp_c k) iv) (ak_prefix (k_rtp_a k)) in
                       if negb (s =? st_ok) then None else Some (cs', ks)
                  else Some (cipher_start (k_rtp_c k) iv, [])) = Some (cs1, pre) /\
                 lenZ pre = (if rtp_auth st then ak_prefix (k_rtp_a k) else 0) /\
                 S ss3 (facts_ok [(L + s_mki_size st, pre); (L + s_mki_size st, Z0); (L, mki); (0, P0 es)]) w).
  { destruct (rtp_auth st && negb (ak_prefix (k_rtp_a k) =? 0)) eqn:EPX.
    - apply andb_true_iff in EPX. destruct EPX as [EA _]. rewrite EA in *.
      destruct (cipher_output (cipher_start (k_rtp_c k) iv) (ak_prefix (k_rtp_a k))) as [[ps cs'] ks] eqn:EP.
      destruct (ps =? st_ok) eqn:EPS; cbn [negb] in *.
      2:{ apply t_exit. intros w Hw. exact (prot_exit _ _ _ _ _ Hw SPEC). }
      assert (LK : lenZ ks = ak_prefix (k_rtp_a k)).
      { pose proof (cipher_output_ok_length _ _ _ _ _ EP EPS) as H. unfold lenZ, zn in *. lia. }
      eapply t_bind; [apply t_wr_facts; [exact HD|lia|lia|away_tac]|intros ?].
      apply t_ret. intros w Hw. exists ks. auto.
    - apply t_ret. intros w Hw. exists []. split; [reflexivity|]. split.
      + destruct (rtp_auth st); [|reflexivity]. cbn [andb] in EPX. apply negb_false_iff, Z.eqb_eq in EPX. rewrite EPX. reflexivity.
      + eapply St_weaken; [|exact Hw]. intros dd _ Hf. apply facts_nil_fact; [lia|exact Hf]. }
  intros cs1. apply t_ex; intros pre. apply t_pure; intros EPRE. apply t_pure; intros LPRE.
  rewrite EPRE in SPEC. rewrite (wire_crypt_plain st _ _ CX) in SPEC. fold es in SPEC.
  apply t_bind_ret. apply t_bind_ret.
  (* payload *)
  replace (negb (Z.land (s_rtp_serv st2) sec_serv_conf_c =? 0)) with (rtp_conf st)
    by (unfold rtp_conf, st2; rewrite charged_serv; reflexivity).
  eapply t_bind2; [eapply t_weaken; [|apply (payload_step ss3 (rtp_conf st) cs1 es
                            [(L + s_mki_size st, pre); (L + s_mki_size st, Z0); (L, mki)]); [lia|lia|away_tac]]| |intros ?].
  { intros dd _ Hf. apply (facts_sub _ _ _ Hf). intros f Hin; cbn in *; tauto. }
  { intros s w (EBD & Hw). rewrite EBD in SPEC. exact (prot_exit _ _ _ _ _ Hw SPEC). }
  apply t_ex; intros body. apply t_pure; intros EBD. apply t_pure; intros LB.
  rewrite EBD in SPEC. cbv beta iota in SPEC. apply t_bind_ret.
  (* tag *)
  unfold wire_tag in SPEC. cbv zeta in SPEC. fold mki in SPEC.
  set (roc := take 4 (be64 (est * 65536))) in *.
  apply t_bind with (R := fun _ w =>
    exists tag, (if rtp_auth st then auth_compute (k_rtp_a k) (body ++ roc) ++ drop (length (auth_compute (k_rtp_a k) (body ++ roc))) pre
                 else zeros (zn (ak_tag (k_rtp_a k)))) = tag /\ lenZ tag = ak_tag (k_rtp_a k) /\
                S ss3 (facts_ok [(L + s_mki_size st, tag); (L, mki); (0, body)]) w).
  { subst Z0. destruct (rtp_auth st) eqn:EA.
    - eapply t_bind; [apply t_rd_dst; lia|intros m]. apply t_pure; intros (dd & Hf & Hdl & ->).
      assert (Hm : slice (zn 0) (zn L) dd = body).
      { change (zn 0) with O. rewrite <- LB, zn_len. apply (fact_get _ _ 0 _ Hf). cbn; tauto. }
      rewrite Hm. set (c := auth_compute (k_rtp_a k) (body ++ roc)) in *.
      assert (KT : (lenZ c = ak_tag (k_rtp_a k) /\ ak_prefix (k_rtp_a k) = 0) \/
                   (lenZ c = 0 /\ ak_prefix (k_rtp_a k) = ak_tag (k_rtp_a k))).
      { subst c. rewrite auth_compute_length by lia. destruct (ak_kind (k_rtp_a k) =? SRTP_HMAC_SHA1_c); auto. }
      eapply t_post; [apply t_wr_facts; [exact HD|lia|lia|destruct KT as [[K1 K2]|[K1 K2]]; away_tac]|].
      intros ? w Hw. eexists. split; [reflexivity|].
      destruct KT as [[K1 K2]|[K1 K2]].
      + assert (pre = []) as -> by (apply length0_nil; unfold lenZ in *; lia).
        replace (drop (length c) []) with (@nil N) by (destruct (length c); reflexivity). rewrite app_nil_r.
        split; [exact K1|]. eapply St_weaken; [|exact Hw]. intros d1 _ Hf1. apply (facts_sub _ _ _ Hf1).
        intros f Hin; cbn in *; tauto.
      + assert (c = []) as Ec by (apply length0_nil; unfold lenZ in *; lia).
        rewrite Ec. cbn [length drop app]. split; [lia|]. eapply St_weaken; [|exact Hw]. intros d1 _ Hf1. apply (facts_sub _ _ _ Hf1).
        intros f Hin; cbn in *; tauto.
    - apply t_ret. intros w Hw. eexists. split; [reflexivity|]. split; [apply lenZ_zeros; lia|].
      eapply St_weaken; [|exact Hw]. intros d1 _ Hf1. apply (facts_sub _ _ _ Hf1). intros f Hin; cbn in *; tauto. }
  intros ?. apply t_ex; intros tag. apply t_pure; intros ETAG. apply t_pure; intros LTAG.
  apply t_ret. intros w Hw. destruct Hw as (h0 & h1 & h2 & h3 & h4 & h5 & h6 & h7).
  exists (body ++ mki ++ tag). rewrite h0. split; [rewrite <- ETAG; exact SPEC|].
  assert (LW : lenZ (body ++ mki ++ tag) = L + s_mki_size st + ak_tag (k_rtp_a k)) by (rewrite !lenZ_app; lia).
  unfold st2. rewrite charged_mki.
  replace (es + (L - es) + ak_tag (k_rtp_a k) + s_mki_size st) with (lenZ (body ++ mki ++ tag)) by lia.
  rewrite u64_small by lia. split; [reflexivity|]. split; [|auto].
  rewrite zn_len, <- slice_0.
  replace (body ++ mki ++ tag) with (concat [body; mki; tag]) by (cbn [concat]; rewrite app_nil_r; reflexivity).
  apply (chain_slice _ 0); [lia|]. cbn [chain]. rewrite LB, LM.
  repeat split; apply (fact_get _ _ _ _ h7); cbn; tauto.
Qed.
End RTP_REF.

(* ===================================================================== *)
(* 6. the theorems on worlds                                              *)
(* ===================================================================== *)
(* a successful protect_fun is a wire image in the sense of rtp_wire *)
Lemma protect_fun_wire ss i C pkt ss' wire :
  protect_fun ss i C pkt = (ss', inl wire) ->
  exists st0 ki k est st3,
    list_get (ss_list ss) (hdr_ssrc pkt) = Some st0 /\
    sender_key_st (dir_stream st0 dir_srtp_sender_c) i = inl (ki, k) /\
    index_step (charged_stream (dir_stream st0 dir_srtp_sender_c) ki) (hdr_seq pkt) = inl (est, st3) /\
    rtp_wire (dir_stream st0 dir_srtp_sender_c) k est pkt = Some wire.
Proof.
  unfold protect_fun. cbv zeta.
  destruct (negb (validate_rtp pkt (lenZ pkt) =? st_ok)); [intros H; discriminate|].
  destruct (list_get (ss_list ss) (hdr_ssrc pkt)) as [st0|]; [|intros H; discriminate].
  set (st := dir_stream st0 dir_srtp_sender_c).
  destruct (sender_key_st st i) as [[ki k]|e] eqn:EK; [|intros H; discriminate].
  destruct (charge_fun _ _ st ki) as [ss2 [u|e]]; [|intros H; discriminate].
  destruct (C <? _) eqn:E1; [intros H; discriminate|].
  destruct (_ && _ && _ && _); [intros H; discriminate|].
  destruct (index_step _ _) as [[est st3]|e] eqn:EI; [|intros H; discriminate].
  destruct (rtp_wire_r st k est pkt) as [wr|e] eqn:EW; intros H; [|discriminate].
  injection H as _ <-. exists st0, ki, k, est, st3. fold st. repeat split; try assumption.
  unfold rtp_wire. rewrite EW. reflexivity.
Qed.

Lemma St_init (w : world) :
  b_oob (w_b w) = false ->
  St (b_len (w_b w)) (b_cap (w_b w)) (b_alias (w_b w)) (b_src (w_b w)) (b_dst (w_b w)) (w_s w) (eq (b_dst (w_b w))) w.
Proof. intros H. unfold St. repeat split; auto. Qed.

(* the conditions on the buffers of a call: sizes below 2^63, *out_len octets available in
   the output block, the input block holds len octets *)
Definition call_ok (w : world) : Prop :=
  b_oob (w_b w) = false /\ size_ok (b_len (w_b w)) /\ size_ok (b_cap (w_b w)) /\
  b_cap (w_b w) <= lenZ (b_dst (w_b w)) /\ b_len (w_b w) <= lenZ (cur_src (w_b w)).
Definition in_pkt (w : world) : bytes := take (zn (b_len (w_b w))) (cur_src (w_b w)).

(* the class of streams covered so far: no cryptex, no header-extension cipher *)
Definition plain_stream (st : stream) : Prop :=
  s_cryptex st = false /\ forall k, In k (s_keys st) -> k_xtn_c k = None.

(* REFINEMENT: srtp_protect computes protect_fun, whatever the alias mode and the prefill *)
Theorem protect_refines i w st0 :
  call_ok w ->
  list_get (ss_list (w_s w)) (hdr_ssrc (in_pkt w)) = Some st0 -> stream_wf st0 -> plain_stream st0 ->
  match protect i w with
  | (w', inl l) =>
      exists wire, protect_fun (w_s w) i (b_cap (w_b w)) (in_pkt w) = (w_s w', inl wire) /\
                   l = lenZ wire /\ take (zn l) (b_dst (w_b w')) = wire /\
                   b_src (w_b w') = b_src (w_b w) /\ b_oob (w_b w') = false
  | (w', inr s) =>
      protect_fun (w_s w) i (b_cap (w_b w)) (in_pkt w) = (w_s w', inr s) /\
      b_src (w_b w') = b_src (w_b w) /\ b_oob (w_b w') = false
  end.
Proof.
  intros (HO & HL & HC & HD & HS) Hget Hwf [Hcx Hxk].
  assert (HLp : lenZ (in_pkt w) = b_len (w_b w)).
  { unfold in_pkt, lenZ, zn, size_ok in *. rewrite take_length. lia. }
  pose proof (protect_tri (b_len (w_b w)) (b_cap (w_b w)) (b_alias (w_b w)) (b_src (w_b w)) (b_dst (w_b w))
                (in_pkt w) HL HC HD eq_refl HLp (w_s w) st0 Hget Hwf Hcx Hxk i w (St_init w HO)) as T.
  destruct (protect i w) as [w' [l|s]]; exact T.
Qed.
Print Assumptions protect_refines.

(* C12 (SRTP protect): the same packet protected in place and out of place (whatever the
   destination block held): same status, same length, same output octets, same final
   session; the out-of-place call leaves its source alone. *)
Theorem protect_alias_independent i wa wo st0 :
  call_ok wa -> call_ok wo ->
  b_alias (w_b wa) = true -> b_alias (w_b wo) = false ->
  w_s wa = w_s wo -> b_cap (w_b wa) = b_cap (w_b wo) -> in_pkt wa = in_pkt wo ->
  list_get (ss_list (w_s wa)) (hdr_ssrc (in_pkt wa)) = Some st0 -> stream_wf st0 -> plain_stream st0 ->
  w_s (fst (protect i wa)) = w_s (fst (protect i wo)) /\
  b_src (w_b (fst (protect i wo))) = b_src (w_b wo) /\
  match snd (protect i wa), snd (protect i wo) with
  | inl la, inl lo =>
      la = lo /\ take (zn la) (b_dst (w_b (fst (protect i wa)))) = take (zn lo) (b_dst (w_b (fst (protect i wo))))
  | inr sa, inr so => sa = so
  | _, _ => False
  end.
Proof.
  intros Ha Ho _ _ ES EC EP Hget Hwf Hpl.
  pose proof (protect_refines i wa st0 Ha Hget Hwf Hpl) as Ta.
  rewrite ES, EP in Hget.
  pose proof (protect_refines i wo st0 Ho Hget Hwf Hpl) as To.
  rewrite ES, EC, EP in Ta.
  destruct (protect i wa) as [wa' [la|sa]], (protect i wo) as [wo' [lo|so]]; cbn [fst snd].
  - destruct Ta as (wa_ & Fa & -> & Da & _), To as (wo_ & Fo & -> & Do & So & _).
    rewrite Fa in Fo. injection Fo as E1 E2. subst wo_. rewrite Da, Do. auto.
  - destruct Ta as (wa_ & Fa & _), To as (Fo & So & _). rewrite Fa in Fo. discriminate.
  - destruct Ta as (Fa & _), To as (wo_ & Fo & _). rewrite Fa in Fo. discriminate.
  - destruct Ta as (Fa & _), To as (Fo & So & _). rewrite Fa in Fo. injection Fo as E1 E2. auto.
Qed.
Print Assumptions protect_alias_independent.

(* what is on the wire after a successful call is rtp_wire of the stream (after the
   direction update), the key selected by the MKI index and the estimated packet index *)
Corollary protect_emits_rtp_wire i w st0 w' l :
  call_ok w ->
  list_get (ss_list (w_s w)) (hdr_ssrc (in_pkt w)) = Some st0 -> stream_wf st0 -> plain_stream st0 ->
  protect i w = (w', inl l) ->
  exists ki k est st3 wire,
    sender_key_st (dir_stream st0 dir_srtp_sender_c) i = inl (ki, k) /\
    index_step (charged_stream (dir_stream st0 dir_srtp_sender_c) ki) (hdr_seq (in_pkt w)) = inl (est, st3) /\
    rtp_wire (dir_stream st0 dir_srtp_sender_c) k est (in_pkt w) = Some wire /\
    l = lenZ wire /\ take (zn l) (b_dst (w_b w')) = wire.
Proof.
  intros Hc Hget Hwf Hpl E. pose proof (protect_refines i w st0 Hc Hget Hwf Hpl) as T. rewrite E in T.
  destruct T as (wire & F & Hl & Hd & _).
  destruct (protect_fun_wire _ _ _ _ _ _ F) as (st0' & ki & k & est & st3 & G & EK & EI & EW).
  rewrite Hget in G. injection G as <-. exists ki, k, est, st3, wire. auto.
Qed.
Print Assumptions protect_emits_rtp_wire.

(* ===================================================================== *)
(* 7. REFUTED outside plain_stream: cryptex together with RFC 6904         *)
(* ===================================================================== *)
(* With cryptex in use and out of place, srtp_protect copies only hdr_len + 4 octets to the
   output before the RFC 6904 walk runs over the extension elements IN THE OUTPUT BUFFER,
   i.e. over whatever that buffer held; the payload encryption then overwrites the region
   from the source.  So the RFC 6904 encryption is lost, and status and output depend on the
   alias mode and on the stale content of the destination.  (srtp.c: memcpy(srtp, rtp,
   enc_start) with enc_start moved back by srtp_cryptex_protect_init, followed by
   srtp_process_header_encryption(stream, srtp_get_rtp_xtn_hdr(hdr, srtp), ...).) *)
Module CxXtn.
Import Session.
Definition cp (serv : Z) : cpolicy :=
  {| cp_cipher := 1; cp_keylen := 30; cp_auth := 3; cp_authkeylen := 20; cp_taglen := 10; cp_serv := serv |}.
Definition pol : policy :=
  {| p_ssrc_type := 1; p_ssrc := 3405691582; p_rtp := cp 3; p_rtcp := cp 3; p_usekey := true; p_nkeys := 0;
     p_use_mki := false; p_mki_size := 0; p_window := 0; p_allow_repeat := false; p_cryptex := true;
     p_enc_xtn := [1%N]; p_keys := [(repeat 1%N 30, [])] |}.
Definition sess : session := w_s (fst (session_create [pol] Witness.w0)).
(* V=2 X=1 CC=0, seq 1, SSRC CAFEBABE, one-byte-form extension of one word: id 1, 3 octets *)
Definition pkt : bytes := [144;0;0;1; 0;0;0;0; 202;254;186;190; 190;222;0;1; 18;170;187;204; 1;2;3;4]%N.
Definition wa : world :=
  Witness.mkw sess {| b_src := []; b_dst := pkt ++ repeat 0%N 10; b_alias := true; b_len := 24; b_cap := 34; b_oob := false |}.
Definition wo (fill : N) : world :=
  Witness.mkw sess {| b_src := pkt; b_dst := repeat fill 34; b_alias := false; b_len := 24; b_cap := 34; b_oob := false |}.
End CxXtn.

Theorem protect_alias_cryptex_xtn_refuted :
  (* same session with an explicit stream for the SSRC, same packet, same *out_len *)
  w_s CxXtn.wa = w_s (CxXtn.wo 0) /\ in_pkt CxXtn.wa = in_pkt (CxXtn.wo 0) /\ in_pkt (CxXtn.wo 255) = in_pkt (CxXtn.wo 0) /\
  (exists st0, list_get (ss_list (w_s CxXtn.wa)) (hdr_ssrc (in_pkt CxXtn.wa)) = Some st0 /\
               s_cryptex st0 = true /\ s_enc_xtn st0 = [1%N]) /\
  (* in place and out of place into a zeroed block: both succeed with 34 octets, which differ *)
  snd (protect 0 CxXtn.wa) = inl 34 /\ snd (protect 0 (CxXtn.wo 0)) = inl 34 /\
  slice 16 4 (b_dst (w_b (fst (protect 0 CxXtn.wa)))) = [96; 197; 32; 220]%N /\
  slice 16 4 (b_dst (w_b (fst (protect 0 (CxXtn.wo 0))))) = [96; 171; 104; 61]%N /\
  (* out of place into a block that held FF: parse error *)
  snd (protect 0 (CxXtn.wo 255)) = inr st_parse_err.
Proof.
  split; [vm_compute; reflexivity|]. split; [vm_compute; reflexivity|]. split; [vm_compute; reflexivity|].
  split.
  { eexists. split; [vm_compute; reflexivity|]. split; vm_compute; reflexivity. }
  split; [vm_compute; reflexivity|]. split; [vm_compute; reflexivity|].
  split; [vm_compute; reflexivity|]. split; [vm_compute; reflexivity|].
  vm_compute; reflexivity.
Qed.
Print Assumptions protect_alias_cryptex_xtn_refuted.
