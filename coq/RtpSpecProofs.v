(* RtpSpecProofs.v — C12 (SRTP half) and the sender side of C01: the monadic model of
   srtp_protect (Rtp.v) REFINES the pure function protect_fun of RtpSpec.v, in place
   (b_alias = true) and out of place (b_alias = false, any destination prefill).
   Consequence: status, length, output bytes and final session do not depend on the alias
   mode nor on what the destination held before.

   Restrictions (stated in every theorem):
   - the session holds an explicit stream for the packet's SSRC
     (list_get (ss_list s) ssrc = Some st): no cloning of the template;
   - the stream is well formed (stream_wf: what srtp_stream_init builds).

   Sections 1-4 (list facts, triples with a status-aware exit postcondition, the "facts"
   description of the destination block, the state of one packet call) follow the layout
   of RtcpSpecProofs.v; they are repeated here so that this file only depends on the
   specification files. *)
From Coq Require Import NArith ZArith List Bool Lia.
From Srtp Require Import XtnProofs CryptexProofs.
From Srtp Require Import Util Constants KeyLimit Rdb Rdbx Icm World Stream Rtp
     MonadLemmas EnvelopeProofs WfProofs BoundsRtcp BoundsRtp LengthProofs RtcpSpec RtpSpec.
Import ListNotations.
Local Open Scope Z_scope.

(* ===================================================================== *)
(* 1. lists                                                               *)
(* ===================================================================== *)
Lemma take_all {A} n (l : list A) : (length l <= n)%nat -> take n l = l.
Proof. intros H. rewrite take_firstn. apply firstn_all2. exact H. Qed.
Lemma take_drop_id {A} n (l : list A) : take n l ++ drop n l = l.
Proof. rewrite take_firstn, drop_skipn. apply firstn_skipn. Qed.
Lemma take_add {A} n m (l : list A) : take (n + m) l = take n l ++ take m (drop n l).
Proof.
  revert l. induction n as [|n IH]; intros l; [reflexivity|].
  destruct l as [|x l]; cbn; [destruct m; reflexivity|]. rewrite IH. reflexivity.
Qed.
Lemma slice_0 {A} n (l : list A) : slice 0 n l = take n l.
Proof. reflexivity. Qed.
Lemma slice_add {A} a n m (l : list A) : slice a (n + m) l = slice a n l ++ slice (a + n) m l.
Proof. unfold slice. rewrite take_add, drop_drop. reflexivity. Qed.
Lemma splice_nil {A} o (l : list A) : splice o [] l = l.
Proof.
  revert o. induction l as [|x l IH]; intros o; destruct o as [|o]; cbn; try reflexivity.
  rewrite IH. reflexivity.
Qed.
Lemma drop_splice_above {A} a o (v l : list A) : (o + length v <= a)%nat -> drop a (splice o v l) = drop a l.
Proof.
  revert a o v. induction l as [|x l IH]; intros a o v H.
  - destruct o; reflexivity.
  - destruct o as [|o].
    + destruct v as [|y v]; [reflexivity|]. cbn in H. destruct a as [|a]; [lia|]. cbn. apply IH. cbn. lia.
    + destruct a as [|a]; [lia|]. cbn. apply IH. lia.
Qed.
Lemma slice_splice_above {A} a n o (v l : list A) : (o + length v <= a)%nat -> slice a n (splice o v l) = slice a n l.
Proof. intros H. unfold slice. rewrite drop_splice_above by exact H. reflexivity. Qed.
Lemma slice_splice_same {A} o (v l : list A) :
  (o + length v <= length l)%nat -> slice o (length v) (splice o v l) = v.
Proof.
  revert o v. induction l as [|x l IH]; intros o v H.
  - cbn in H. assert (length v = O) by lia. destruct v; [|discriminate]. destruct o; reflexivity.
  - destruct o as [|o].
    + rewrite slice_0. apply take_splice_0. lia.
    + cbn in H. change (slice (S o) (length v) (splice (S o) v (x :: l))) with (slice o (length v) (splice o v l)).
      apply IH. lia.
Qed.
Lemma slice_to_end {A} a n (l : list A) : (length l <= a + n)%nat -> slice a n l = drop a l.
Proof. intros H. unfold slice. apply take_all. rewrite drop_length. lia. Qed.
Lemma take_app_exact {A} (a b : list A) : take (length a) (a ++ b) = a.
Proof. rewrite take_firstn. rewrite firstn_app, Nat.sub_diag, firstn_all. cbn. apply app_nil_r. Qed.
Lemma drop_app_exact {A} (a b : list A) : drop (length a) (a ++ b) = b.
Proof. rewrite drop_skipn. rewrite skipn_app, Nat.sub_diag, skipn_all. reflexivity. Qed.
Lemma drop_app_ge {A} n (a b : list A) : drop (length a + n) (a ++ b) = drop n b.
Proof. rewrite <- drop_drop, drop_app_exact. reflexivity. Qed.
Lemma take_app_le {A} n (a b : list A) : (n <= length a)%nat -> take n (a ++ b) = take n a.
Proof. intros H. rewrite !take_firstn, firstn_app. replace (n - length a)%nat with O by lia. cbn. apply app_nil_r. Qed.
Lemma slice_app_l {A} o n (a b : list A) : (o + n <= length a)%nat -> slice o n (a ++ b) = slice o n a.
Proof. intros H. rewrite !slice_alt. rewrite take_app_le by exact H. reflexivity. Qed.
Lemma slice_app_r {A} o n (a b : list A) : slice (length a + o) n (a ++ b) = slice o n b.
Proof. unfold slice. rewrite drop_app_ge. reflexivity. Qed.
Lemma length0_nil {A} (l : list A) : length l = O -> l = [].
Proof. destruct l; [reflexivity|discriminate]. Qed.
Lemma zn_len {A} (l : list A) : zn (lenZ l) = length l.
Proof. unfold zn, lenZ. lia. Qed.
Lemma lenZ_app {A} (a b : list A) : lenZ (a ++ b) = lenZ a + lenZ b.
Proof. unfold lenZ. rewrite app_length. lia. Qed.

(* a write inside the first m octets commutes with taking them *)
Lemma take_splice_in {A} m o (v l : list A) : (o + length v <= m)%nat -> take m (splice o v l) = splice o v (take m l).
Proof.
  revert m o v. induction l as [|x l IH]; intros m o v H.
  - destruct m, o; reflexivity.
  - destruct o as [|o].
    + destruct v as [|y v].
      * destruct m; reflexivity.
      * cbn in H. destruct m as [|m]; [lia|]. cbn. rewrite IH by lia. reflexivity.
    + destruct m as [|m]; [lia|]. cbn. rewrite IH by lia. reflexivity.
Qed.
(* overwriting the tail of a list *)
Lemma splice_tail {A} o (v l : list A) : (o + length v = length l)%nat -> splice o v l = take o l ++ v.
Proof.
  revert o v. induction l as [|x l IH]; intros o v H.
  - cbn in H. assert (length v = O) by lia. destruct v; [|discriminate]. destruct o; reflexivity.
  - destruct o as [|o].
    + destruct v as [|y v]; [cbn in H; lia|]. cbn. f_equal. cbn in H.
      specialize (IH O v ltac:(lia)). cbn in IH. exact IH.
    + cbn. f_equal. apply IH. cbn in H. lia.
Qed.

(* ===================================================================== *)
(* 2. Hoare triples whose exit postcondition sees the status               *)
(* ===================================================================== *)
Definition tri {A} (P : world -> Prop) (m : M A) (Q : A -> world -> Prop) (E : Z -> world -> Prop) : Prop :=
  forall w, P w -> match m w with (w', inl a) => Q a w' | (w', inr s) => E s w' end.

Lemma t_ret {A} (a : A) (P : world -> Prop) (Q : A -> world -> Prop) E :
  (forall w, P w -> Q a w) -> tri P (ret a) Q E.
Proof. intros H w HP. cbn. auto. Qed.
Lemma t_exit {A} st (P : world -> Prop) (Q : A -> world -> Prop) (E : Z -> world -> Prop) :
  (forall w, P w -> E st w) -> tri P (exit_with st) Q E.
Proof. intros H w HP. cbn. auto. Qed.
Lemma t_bind {A B} (m : M A) (f : A -> M B) P R Q E :
  tri P m R E -> (forall a, tri (R a) (f a) Q E) -> tri P (bind m f) Q E.
Proof.
  intros Hm Hf w HP. unfold bind. specialize (Hm w HP). destruct (m w) as [w1 [a|st]].
  - exact (Hf a w1 Hm).
  - exact Hm.
Qed.
(* the first computation has its own exit postcondition *)
Lemma t_bind2 {A B} (m : M A) (f : A -> M B) P R Q E1 (E : Z -> world -> Prop) :
  tri P m R E1 -> (forall s w, E1 s w -> E s w) -> (forall a, tri (R a) (f a) Q E) -> tri P (bind m f) Q E.
Proof.
  intros Hm HE Hf w HP. unfold bind. specialize (Hm w HP). destruct (m w) as [w1 [a|st]].
  - exact (Hf a w1 Hm).
  - exact (HE _ _ Hm).
Qed.
Lemma t_pre {A} (P P' : world -> Prop) (m : M A) Q E :
  (forall w, P w -> P' w) -> tri P' m Q E -> tri P m Q E.
Proof. intros I H w HP. exact (H w (I w HP)). Qed.
Lemma t_post {A} (P : world -> Prop) (m : M A) (Q Q' : A -> world -> Prop) E :
  tri P m Q' E -> (forall a w, Q' a w -> Q a w) -> tri P m Q E.
Proof. intros H I w HP. specialize (H w HP). destruct (m w) as [w1 [a|st]]; auto. Qed.
Lemma t_pure {A} (F : Prop) (P : world -> Prop) (m : M A) Q E :
  (F -> tri P m Q E) -> tri (fun w => F /\ P w) m Q E.
Proof. intros H w [HF HP]. exact (H HF w HP). Qed.
Lemma t_ex {A X} (P : X -> world -> Prop) (m : M A) Q E :
  (forall x, tri (P x) m Q E) -> tri (fun w => exists x, P x w) m Q E.
Proof. intros H w [x Hx]. exact (H x w Hx). Qed.
Lemma t_bind_ret {A B} (a : A) (f : A -> M B) P Q E : tri P (f a) Q E -> tri P (bind (ret a) f) Q E.
Proof. intros H. exact H. Qed.
Lemma t_bind_exit {A B} st (f : A -> M B) (P : world -> Prop) Q (E : Z -> world -> Prop) :
  (forall w, P w -> E st w) -> tri P (bind (exit_with st) f) Q E.
Proof. intros H w HP. cbn. auto. Qed.
Lemma t_exitw {A} (P : world -> Prop) (m : M A) Q (E E' : Z -> world -> Prop) :
  tri P m Q E -> (forall s w, E s w -> E' s w) -> tri P m Q E'.
Proof. intros H I w HP. specialize (H w HP). destruct (m w) as [w1 [a|st]]; auto. Qed.

(* ===================================================================== *)
(* 3. what is known of the destination block: a list of (offset, content)  *)
(* ===================================================================== *)
Definition fact_ok (dd : bytes) (f : Z * bytes) : Prop :=
  0 <= fst f /\ slice (zn (fst f)) (length (snd f)) dd = snd f.
Definition facts_ok (fs : list (Z * bytes)) (dd : bytes) : Prop := Forall (fact_ok dd) fs.
(* the fact does not overlap [o, o+n) *)
Definition away (o n : Z) (f : Z * bytes) : Prop := fst f + lenZ (snd f) <= o \/ o + n <= fst f.

Lemma fact_splice dd o v f : 0 <= o -> fact_ok dd f -> away o (lenZ v) f -> fact_ok (splice (zn o) v dd) f.
Proof.
  destruct f as [a u]. unfold fact_ok, away. cbn [fst snd]. intros Ho [Ha Hs] [Hd|Hd]; (split; [exact Ha|]).
  - rewrite slice_splice_below; [exact Hs|]. unfold zn, lenZ in *. lia.
  - rewrite slice_splice_above; [exact Hs|]. unfold zn, lenZ in *. lia.
Qed.
Lemma facts_splice fs o v dd : 0 <= o -> Forall (away o (lenZ v)) fs -> facts_ok fs dd -> facts_ok fs (splice (zn o) v dd).
Proof.
  intros Ho Ha Hf. unfold facts_ok in *. rewrite Forall_forall in *. intros f Hin. apply fact_splice; auto.
Qed.
Lemma facts_write fs o v dd :
  0 <= o -> o + lenZ v <= lenZ dd -> Forall (away o (lenZ v)) fs -> facts_ok fs dd ->
  facts_ok ((o, v) :: fs) (splice (zn o) v dd).
Proof.
  intros Ho Hl Ha Hf. constructor.
  - split; [exact Ho|]. cbn [fst snd]. apply slice_splice_same. unfold zn, lenZ in *. lia.
  - apply facts_splice; assumption.
Qed.
Lemma facts_sub fs fs' dd : facts_ok fs dd -> incl fs' fs -> facts_ok fs' dd.
Proof. unfold facts_ok. rewrite !Forall_forall. intros H I f Hf. exact (H f (I f Hf)). Qed.
Lemma fact_get fs dd o v : facts_ok fs dd -> In (o, v) fs -> slice (zn o) (length v) dd = v.
Proof. unfold facts_ok. rewrite Forall_forall. intros H I. exact (proj2 (H _ I)). Qed.
Lemma facts_nil_fact fs dd o : 0 <= o -> facts_ok fs dd -> facts_ok ((o, []) :: fs) dd.
Proof. intros Ho H. constructor; [split; [exact Ho|reflexivity]|exact H]. Qed.

(* the packet region: a fact at offset 0 that is read from, written into and extended *)
Lemma fact0_read dd P a n : fact_ok dd (0, P) -> (a + n <= length P)%nat -> slice a n dd = slice a n P.
Proof.
  intros [_ H] Hl. cbn [fst snd] in H. change (zn 0) with O in H. rewrite slice_0 in H.
  rewrite <- H. symmetry. apply slice_take. exact Hl.
Qed.
Lemma facts_write_in P fs a u dd :
  0 <= a -> a + lenZ u <= lenZ P -> Forall (away a (lenZ u)) fs -> facts_ok ((0, P) :: fs) dd ->
  facts_ok ((0, splice (zn a) u P) :: fs) (splice (zn a) u dd).
Proof.
  intros Ha Hl Haw Hf. inversion Hf as [|? ? [_ H0] Hr]; subst. cbn [fst snd] in H0.
  constructor.
  - split; [cbn [fst]; lia|]. cbn [fst snd]. change (zn 0) with O in *. rewrite slice_0 in *. rewrite splice_length.
    rewrite take_splice_in by (unfold zn, lenZ in *; lia). rewrite H0. reflexivity.
  - apply facts_splice; assumption.
Qed.
Lemma facts_append P fs u dd :
  lenZ P + lenZ u <= lenZ dd -> Forall (away (lenZ P) (lenZ u)) fs -> facts_ok ((0, P) :: fs) dd ->
  facts_ok ((0, P ++ u) :: fs) (splice (zn (lenZ P)) u dd).
Proof.
  intros Hl Haw Hf. inversion Hf as [|? ? [_ H0] Hr]; subst. cbn [fst snd] in H0.
  constructor.
  - split; [cbn [fst]; lia|]. cbn [fst snd]. change (zn 0) with O in *. rewrite slice_0 in *. rewrite zn_len.
    rewrite app_length, take_add. rewrite take_splice_below by lia. rewrite H0. f_equal.
    apply (slice_splice_same (length P) u dd). unfold lenZ in *. lia.
  - apply facts_splice; [apply lenZ_nonneg|assumption|assumption].
Qed.

(* consecutive pieces *)
Fixpoint chain (a : Z) (vs : list bytes) (dd : bytes) : Prop :=
  match vs with
  | [] => True
  | v :: r => slice (zn a) (length v) dd = v /\ chain (a + lenZ v) r dd
  end.
Lemma chain_slice vs : forall a dd, 0 <= a -> chain a vs dd -> slice (zn a) (length (concat vs)) dd = concat vs.
Proof.
  induction vs as [|v r IH]; intros a dd Ha H; [reflexivity|].
  destruct H as [H1 H2]. cbn [concat]. rewrite app_length, slice_add, H1. f_equal.
  replace (zn a + length v)%nat with (zn (a + lenZ v)) by (unfold zn, lenZ; lia).
  apply IH; [unfold lenZ; lia|exact H2].
Qed.

(* ===================================================================== *)
(* 4. the state of one packet call: exact session, exact knowledge of dst  *)
(* ===================================================================== *)
Section ST.
Variables (L C : Z) (al : bool) (src d0 : bytes).
Let dlen : Z := lenZ d0.
Hypothesis HD : C <= dlen.

Definition St (ss : session) (D : bytes -> Prop) (w : world) : Prop :=
  w_s w = ss /\ b_len (w_b w) = L /\ b_cap (w_b w) = C /\ b_alias (w_b w) = al /\ b_src (w_b w) = src /\
  b_oob (w_b w) = false /\ lenZ (b_dst (w_b w)) = dlen /\ D (b_dst (w_b w)).
Definition Dany : bytes -> Prop := fun _ => True.

Lemma St_weaken ss (D D' : bytes -> Prop) w :
  (forall dd, lenZ dd = dlen -> D dd -> D' dd) -> St ss D w -> St ss D' w.
Proof. intros I (h0 & h1 & h2 & h3 & h4 & h5 & h6 & h7). repeat split; auto. Qed.
Lemma St_any ss D w : St ss D w -> St ss Dany w.
Proof. apply St_weaken. intros; exact I. Qed.
Lemma t_weaken {A} ss (D D' : bytes -> Prop) (m : M A) Q E :
  (forall dd, lenZ dd = dlen -> D dd -> D' dd) -> tri (St ss D') m Q E -> tri (St ss D) m Q E.
Proof. intros I. apply t_pre. intros w. apply St_weaken. exact I. Qed.

Lemma t_get_b0 ss E :
  tri (St ss (eq d0)) get_b (fun b w => b = b_init L C al src d0 /\ St ss (eq d0) w) E.
Proof.
  clear HD. intros w HI. cbn. split; [|exact HI]. destruct HI as (h0 & h1 & h2 & h3 & h4 & h5 & h6 & h7).
  destruct (w_b w); cbn in *. unfold b_init. subst. reflexivity.
Qed.
Lemma t_get_b ss D E :
  tri (St ss D) get_b (fun b w => (b_len b = L /\ b_cap b = C /\ b_alias b = al) /\ St ss D w) E.
Proof. intros w HI. cbn. split; [|exact HI]. destruct HI as (h0 & h1 & h2 & h3 & _). auto. Qed.

Lemma t_rd_src ss D off n E :
  0 <= off -> 0 <= n -> off + n <= L ->
  tri (St ss D) (rd_src off n)
      (fun d w => (exists dd, D dd /\ lenZ dd = dlen /\ d = slice (zn off) (zn n) (if al then dd else src)) /\ St ss D w) E.
Proof.
  intros H1 H2 H3 w HI. unfold rd_src, bind, get_b.
  destruct HI as (h0 & h1 & h2 & h3 & h4 & h5 & h6 & h7).
  assert (Hc : (off <? 0) || (n <? 0) || (b_len (w_b w) <? off + n) = false).
  { rewrite h1. rewrite !orb_false_iff, !Z.ltb_ge. lia. }
  rewrite Hc. cbn [ret]. split.
  - exists (b_dst (w_b w)). split; [exact h7|]. split; [exact h6|]. unfold cur_src. rewrite h3, h4. reflexivity.
  - repeat split; assumption.
Qed.

Lemma t_rd_dst ss D off n E :
  0 <= off -> 0 <= n -> off + n <= dlen ->
  tri (St ss D) (rd_dst off n)
      (fun d w => (exists dd, D dd /\ lenZ dd = dlen /\ d = slice (zn off) (zn n) dd) /\ St ss D w) E.
Proof.
  intros H1 H2 H3 w HI. unfold rd_dst, bind, get_b.
  destruct HI as (h0 & h1 & h2 & h3 & h4 & h5 & h6 & h7).
  assert (Hc : (off <? 0) || (n <? 0) || (lenZ (b_dst (w_b w)) <? off + n) = false).
  { rewrite h6. rewrite !orb_false_iff, !Z.ltb_ge. lia. }
  rewrite Hc. cbn [ret]. split.
  - exists (b_dst (w_b w)). auto.
  - repeat split; assumption.
Qed.

Lemma t_wr_dst ss (D D' : bytes -> Prop) off v E :
  0 <= off -> off + lenZ v <= C ->
  (forall dd, lenZ dd = dlen -> D dd -> D' (splice (zn off) v dd)) ->
  tri (St ss D) (wr_dst off v) (fun _ => St ss D') E.
Proof.
  intros H1 H2 HK w HI. unfold wr_dst, bind, get_b, put_b. cbn.
  destruct HI as (h0 & h1 & h2 & h3 & h4 & h5 & h6 & h7).
  unfold St. cbn. rewrite lenZ_splice. repeat split; try assumption.
  - rewrite h5, h2. cbn [orb]. rewrite orb_false_iff, !Z.ltb_ge. lia.
  - apply HK; assumption.
Qed.

Lemma t_wr_facts ss fs off v E :
  0 <= off -> off + lenZ v <= C -> Forall (away off (lenZ v)) fs ->
  tri (St ss (facts_ok fs)) (wr_dst off v) (fun _ => St ss (facts_ok ((off, v) :: fs))) E.
Proof.
  intros H1 H2 H3. apply t_wr_dst; [exact H1|exact H2|].
  intros dd Hl Hf. apply facts_write; auto. lia.
Qed.
(* a write inside the packet region / right behind it *)
Lemma t_wr_in ss P fs off v E :
  0 <= off -> off + lenZ v <= lenZ P -> lenZ P <= C -> Forall (away off (lenZ v)) fs ->
  tri (St ss (facts_ok ((0, P) :: fs))) (wr_dst off v) (fun _ => St ss (facts_ok ((0, splice (zn off) v P) :: fs))) E.
Proof.
  intros H1 H2 H3 H4. apply t_wr_dst; [exact H1|lia|].
  intros dd Hl Hf. apply facts_write_in; assumption.
Qed.
Lemma t_wr_append ss P fs v E :
  lenZ P + lenZ v <= C -> Forall (away (lenZ P) (lenZ v)) fs ->
  tri (St ss (facts_ok ((0, P) :: fs))) (wr_dst (lenZ P) v) (fun _ => St ss (facts_ok ((0, P ++ v) :: fs))) E.
Proof.
  intros H2 H4. apply t_wr_dst; [apply lenZ_nonneg|exact H2|].
  intros dd Hl Hf. apply facts_append; [lia|assumption|assumption].
Qed.

Lemma t_log_encrypt_iv ss D k iv E : tri (St ss D) (log_encrypt_iv k iv) (fun _ => St ss D) E.
Proof. intros w H. unfold log_encrypt_iv. destruct (is_icm_alg (ck_alg k)); cbn; exact H. Qed.

(* ---- session operations on an explicit stream ---- *)
Lemma t_lookup_existing ss D x st0 flag E :
  list_get (ss_list ss) x = Some st0 ->
  tri (St ss D) (lookup_or_clone x flag) (fun r w => r = RList x /\ St ss D w) E.
Proof.
  intros Hg w HI. unfold lookup_or_clone, bind, get_s. rewrite (proj1 HI), Hg. cbn. auto.
Qed.
Lemma t_get_stream_list ss D x st E :
  list_get (ss_list ss) x = Some st ->
  tri (St ss D) (get_stream (RList x)) (fun s w => s = st /\ St ss D w) E.
Proof.
  intros Hg w HI. unfold get_stream, bind, get_s. rewrite (proj1 HI), Hg. cbn. auto.
Qed.
Lemma t_put_stream_list ss D x n E :
  tri (St ss D) (put_stream (RList x) n) (fun _ => St (sess_put ss x n) D) E.
Proof.
  intros w HI. unfold put_stream, bind, get_s, put_s. cbn.
  destruct HI as (h0 & h1 & h2 & h3 & h4 & h5 & h6 & h7). unfold St. cbn. rewrite h0.
  repeat split; assumption.
Qed.
Lemma t_emit ss D e x E : tri (St ss D) (emit e x) (fun _ => St ss D) E.
Proof. intros w H. cbn. exact H. Qed.

Lemma t_check_direction ss D x st0 want E :
  list_get (ss_list ss) x = Some st0 ->
  tri (St ss D) (check_direction (RList x) want) (fun _ => St (dir_session ss x st0 want) D) E.
Proof.
  intros Hg. unfold check_direction, dir_session.
  eapply t_bind; [apply t_get_stream_list; exact Hg|intros st]. apply t_pure; intros ->.
  destruct (s_dir st0 =? want); [apply t_ret; auto|].
  destruct (s_dir st0 =? dir_unknown_c); [apply t_put_stream_list|apply t_emit].
Qed.
End ST.

Lemma dir_session_get ss x st0 want :
  list_get (ss_list ss) x = Some st0 ->
  list_get (ss_list (dir_session ss x st0 want)) x = Some (dir_stream st0 want).
Proof.
  intros Hg. unfold dir_session, dir_stream.
  destruct (s_dir st0 =? want); [exact Hg|]. destruct (s_dir st0 =? dir_unknown_c); [|exact Hg].
  cbn [sess_put ss_list]. apply (list_get_replace_same _ _ _ _ Hg). exact (list_get_ssrc _ _ _ Hg).
Qed.
Lemma dir_stream_cfg st want : cfg_eq st (dir_stream st want).
Proof.
  unfold dir_stream. destruct (s_dir st =? want); [apply cfg_eq_refl|].
  destruct (s_dir st =? dir_unknown_c); [apply cfg_eq_upd|apply cfg_eq_refl].
Qed.
Lemma keys_by_index_eq st i :
  keys_by_index st i = match sender_key_st st i with inl r => ret r | inr e => exit_with e end.
Proof.
  unfold keys_by_index, sender_key_st.
  destruct (s_use_mki st && ((i <? 0) || (lenZ (s_keys st) <=? i))); [reflexivity|].
  destruct (nth_error (s_keys st) (zn (if s_use_mki st then i else 0))); reflexivity.
Qed.
Lemma sender_key_st_In st i ki k : sender_key_st st i = inl (ki, k) -> In k (s_keys st).
Proof.
  unfold sender_key_st. destruct (s_use_mki st && _); [discriminate|].
  destruct (nth_error (s_keys st) _) eqn:E; [|discriminate]. intros H. injection H as _ <-.
  exact (nth_error_In _ _ E).
Qed.

(* ---- the template, and the key-usage charge ---- *)
Section ST2.
Variables (L C : Z) (al : bool) (src d0 : bytes).
Notation S := (St L C al src d0).

Lemma t_get_stream_tmpl ss D :
  tri (S ss D) (get_stream RTemplate) (fun t w => ss_template ss = Some t /\ S ss D w)
      (fun s w => (ss_template ss = None /\ s = st_fail) /\ S ss D w).
Proof.
  intros w HI. unfold get_stream, bind, get_s. rewrite (proj1 HI).
  destruct (ss_template ss); cbn; auto.
Qed.
Lemma t_put_stream_tmpl ss D n E :
  tri (S ss D) (put_stream RTemplate n)
      (fun _ => S {| ss_template := Some n; ss_list := ss_list ss; ss_cap := ss_cap ss |} D) E.
Proof.
  intros w HI. unfold put_stream, bind, get_s, put_s. cbn.
  destruct HI as (h0 & h1 & h2 & h3 & h4 & h5 & h6 & h7). unfold St. cbn. rewrite h0.
  repeat split; assumption.
Qed.

Lemma t_limit_update ss D x st i :
  list_get (ss_list ss) x = Some st ->
  tri (S ss D) (limit_update (RList x) i)
      (fun e w => exists ss', limit_update_fun ss x st i = inl (ss', e) /\ S ss' D w)
      (fun s w => limit_update_fun ss x st i = inr s /\ S ss D w).
Proof.
  intros Hg. unfold limit_update, limit_update_fun.
  eapply t_bind; [apply t_get_stream_list; exact Hg|intros st']. apply t_pure; intros ->.
  destruct (s_clone st).
  - eapply t_bind2; [apply t_get_stream_tmpl| |intros t].
    { intros s w [[E1 ->] Hw]. rewrite E1. auto. }
    apply t_pure; intros ->.
    destruct (nth_error (s_limits t) (zn i)) as [k|]; [|apply t_exit; auto].
    destruct (kl_update k) as [k' e]. cbn [fst snd].
    eapply t_bind; [apply t_put_stream_tmpl|intros ?]. apply t_ret. intros w Hw. eexists. split; [reflexivity|exact Hw].
  - destruct (nth_error (s_limits st) (zn i)) as [k|]; [|apply t_exit; auto].
    destruct (kl_update k) as [k' e]. cbn [fst snd].
    eapply t_bind; [apply t_put_stream_list|intros ?]. apply t_ret. intros w Hw. eexists. split; [reflexivity|exact Hw].
Qed.

Lemma limit_update_fun_get ss x st i ss' e :
  list_get (ss_list ss) x = Some st -> limit_update_fun ss x st i = inl (ss', e) ->
  list_get (ss_list ss') x = Some (charged_stream st i).
Proof.
  intros Hg. unfold limit_update_fun, charged_stream. destruct (s_clone st).
  - destruct (ss_template ss) as [t|]; [|discriminate].
    destruct (nth_error (s_limits t) (zn i)); [|discriminate]. intros H. injection H as <- _. exact Hg.
  - destruct (nth_error (s_limits st) (zn i)); [|discriminate]. intros H. injection H as <- _.
    cbn [sess_put ss_list]. apply (list_get_replace_same _ _ _ _ Hg). exact (list_get_ssrc _ _ _ Hg).
Qed.

Lemma t_charge_key ss D x st i :
  list_get (ss_list ss) x = Some st ->
  tri (S ss D) (charge_key (RList x) i)
      (fun _ w => exists ss', charge_fun ss x st i = (ss', inl tt) /\
                              list_get (ss_list ss') x = Some (charged_stream st i) /\ S ss' D w)
      (fun s w => exists ss', charge_fun ss x st i = (ss', inr s) /\ S ss' D w).
Proof.
  intros Hg. unfold charge_key, charge_fun.
  eapply t_bind2; [apply t_limit_update; exact Hg| |intros e].
  { intros s w [E Hw]. rewrite E. exists ss. auto. }
  apply t_ex; intros ss'. apply t_pure; intros EL. rewrite EL.
  pose proof (limit_update_fun_get _ _ _ _ _ _ Hg EL) as Hg'.
  eapply t_bind; [apply t_get_stream_list; exact Hg'|intros st2]. apply t_pure; intros ->.
  destruct e.
  - apply t_ret. intros w Hw. exists ss'. auto.
  - eapply t_post; [apply t_emit|]. intros ? w Hw. exists ss'. auto.
  - eapply t_bind; [apply t_emit|intros ?]. apply t_exit. intros w Hw. exists ss'. auto.
Qed.
End ST2.

Lemma charged_rdbx st i : s_rdbx (charged_stream st i) = s_rdbx st.
Proof. unfold charged_stream. destruct (s_clone st); [reflexivity|]. destruct (nth_error _ _); reflexivity. Qed.
Lemma charged_serv st i : s_rtp_serv (charged_stream st i) = s_rtp_serv st.
Proof. unfold charged_stream. destruct (s_clone st); [reflexivity|]. destruct (nth_error _ _); reflexivity. Qed.
Lemma charged_mki st i : s_mki_size (charged_stream st i) = s_mki_size st.
Proof. unfold charged_stream. destruct (s_clone st); [reflexivity|]. destruct (nth_error _ _); reflexivity. Qed.
Lemma charged_xtn st i : s_enc_xtn (charged_stream st i) = s_enc_xtn st.
Proof. unfold charged_stream. destruct (s_clone st); [reflexivity|]. destruct (nth_error _ _); reflexivity. Qed.

(* ===================================================================== *)
(* 4b. RFC 6904 on a block: locality and involution of xtn_apply            *)
(* ===================================================================== *)
Lemma splice_app_l {A} o (v a b : list A) : (o + length v <= length a)%nat -> splice o v (a ++ b) = splice o v a ++ b.
Proof.
  revert o v. induction a as [|x a IH]; intros o v H.
  - cbn in H. assert (length v = O) by lia. destruct v; [|discriminate]. rewrite splice_nil. destruct o; reflexivity.
  - destruct o as [|o].
    + destruct v as [|y v]; [reflexivity|]. cbn. rewrite IH by (cbn in H; lia). reflexivity.
    + cbn. rewrite IH by (cbn in H; lia). reflexivity.
Qed.
Lemma splice_splice_same {A} o (v v' l : list A) : length v = length v' -> splice o v' (splice o v l) = splice o v' l.
Proof.
  revert o v v'. induction l as [|x l IH]; intros o v v' H.
  - destruct o; reflexivity.
  - destruct o as [|o].
    + destruct v as [|y v], v' as [|y' v']; try discriminate; [reflexivity|]. cbn. rewrite IH by (cbn in H; lia). reflexivity.
    + cbn. rewrite IH by exact H. reflexivity.
Qed.
Lemma splice_self {A} o n (l : list A) : splice o (slice o n l) l = l.
Proof.
  revert o n. induction l as [|x l IH]; intros o n.
  - destruct o; reflexivity.
  - destruct o as [|o].
    + destruct n as [|n]; [reflexivity|]. cbn. f_equal. exact (IH O n).
    + cbn. f_equal. exact (IH o n).
Qed.
Lemma be16_app_l a b o : (o + 2 <= length a)%nat -> be16 (a ++ b) o = be16 a o.
Proof. intros H. unfold be16. rewrite slice_app_l by exact H. reflexivity. Qed.
Lemma be16_splice_above l o p v : (o + 2 <= p)%nat -> be16 (splice p v l) o = be16 l o.
Proof. intros H. unfold be16. rewrite slice_splice_below by exact H. reflexivity. Qed.

Section XAPP.
Variables (ids : bytes) (xcs : cstate) (off : Z).
Hypothesis Hoff : 0 <= off.

Lemma xtn_apply_length q q' : xtn_apply ids xcs off q = Some q' -> length q' = length q.
Proof.
  unfold xtn_apply. destruct (_ && _); [discriminate|].
  destruct (if be16 q (zn off) =? xtn_hdr_one_byte_profile_c then _ else _) as [d'|]; [|discriminate].
  intros H. injection H as <-. apply splice_length.
Qed.

(* only the block up to the end of the extension matters *)
Lemma xtn_apply_app A B :
  off + 4 + be16 A (zn (off + 2)) * 4 <= lenZ A ->
  xtn_apply ids xcs off (A ++ B) = option_map (fun A' => A' ++ B) (xtn_apply ids xcs off A).
Proof.
  intros HB. pose proof (be16_nonneg A (zn (off + 2))) as NN. unfold xtn_apply.
  rewrite !be16_app_l by (unfold lenZ, zn in *; lia).
  destruct (_ && _); [reflexivity|].
  rewrite slice_app_l by (unfold lenZ, zn in *; lia).
  set (d := slice (zn (off + 4)) (zn (be16 A (zn (off + 2)) * 4)) A).
  destruct (if be16 A (zn off) =? xtn_hdr_one_byte_profile_c then _ else _) as [d'|] eqn:EW; [|reflexivity].
  cbn [option_map]. f_equal. apply splice_app_l.
  assert (LD : length d' = length d).
  { destruct (be16 A (zn off) =? xtn_hdr_one_byte_profile_c); [exact (xtn_one_length _ _ _ _ _ _ EW)|exact (xtn_two_length _ _ _ _ _ _ EW)]. }
  rewrite LD. subst d. rewrite slice_length. unfold lenZ, zn in *. lia.
Qed.

Lemma xtn_apply_outside q q' :
  xtn_apply ids xcs off q = Some q' ->
  take (zn (off + 4)) q' = take (zn (off + 4)) q /\
  drop (zn (off + 4 + be16 q (zn (off + 2)) * 4)) q' = drop (zn (off + 4 + be16 q (zn (off + 2)) * 4)) q.
Proof.
  pose proof (be16_nonneg q (zn (off + 2))) as NN. unfold xtn_apply. destruct (_ && _); [discriminate|].
  set (d := slice (zn (off + 4)) (zn (be16 q (zn (off + 2)) * 4)) q).
  destruct (if be16 q (zn off) =? xtn_hdr_one_byte_profile_c then _ else _) as [d'|] eqn:EW; [|discriminate].
  assert (LD : length d' = length d).
  { destruct (be16 q (zn off) =? xtn_hdr_one_byte_profile_c); [exact (xtn_one_length _ _ _ _ _ _ EW)|exact (xtn_two_length _ _ _ _ _ _ EW)]. }
  intros H. injection H as <-. split.
  - apply take_splice_below. lia.
  - apply drop_splice_above. rewrite LD. subst d. rewrite slice_length. unfold zn. lia.
Qed.

(* applying it again gives the block back *)
Theorem xtn_apply_involutive q q' :
  off + 4 + be16 q (zn (off + 2)) * 4 <= lenZ q ->
  xtn_apply ids xcs off q = Some q' -> xtn_apply ids xcs off q' = Some q.
Proof.
  intros HB. pose proof (be16_nonneg q (zn (off + 2))) as NN. unfold xtn_apply.
  destruct (negb (be16 q (zn off) =? xtn_hdr_one_byte_profile_c) && _) eqn:EPf; [discriminate|].
  set (n := be16 q (zn (off + 2)) * 4) in *.
  set (d := slice (zn (off + 4)) (zn n) q).
  assert (LD0 : length d = zn n) by (subst d; rewrite slice_length; unfold lenZ, zn in *; lia).
  destruct (if be16 q (zn off) =? xtn_hdr_one_byte_profile_c then _ else _) as [d'|] eqn:EW; [|discriminate].
  assert (LD : length d' = length d).
  { destruct (be16 q (zn off) =? xtn_hdr_one_byte_profile_c); [exact (xtn_one_length _ _ _ _ _ _ EW)|exact (xtn_two_length _ _ _ _ _ _ EW)]. }
  intros H. injection H as <-.
  rewrite !be16_splice_above by (unfold zn; lia). fold n. rewrite EPf.
  assert (ES : slice (zn (off + 4)) (zn n) (splice (zn (off + 4)) d' q) = d').
  { rewrite <- LD0, <- LD. apply slice_splice_same. rewrite LD, LD0. unfold lenZ, zn in *. lia. }
  rewrite ES, LD.
  assert (EW2 : (if be16 q (zn off) =? xtn_hdr_one_byte_profile_c
                 then xtn_one (S (length d)) ids xcs d' 0 else xtn_two (S (length d)) ids xcs d' 0) = Some d).
  { destruct (be16 q (zn off) =? xtn_hdr_one_byte_profile_c);
      [exact (xtn_one_involutive _ _ _ _ _ EW)|exact (xtn_two_involutive _ _ _ _ _ EW)]. }
  rewrite EW2. f_equal. rewrite splice_splice_same by exact LD. subst d. apply splice_self.
Qed.
End XAPP.
Print Assumptions xtn_apply_involutive.
