(* Sha1Model.v -- model of the buffering / padding logic of
   /repo/crypto/hash/sha1.c (srtp_sha1_init / srtp_sha1_update /
   srtp_sha1_final), parametric in the compression function.

   Definitions only; the proofs are in Sha1Proofs.v.

   Abstraction level.  The context is the C struct srtp_sha1_ctx_t
   (crypto/include/sha1.h):

     uint32_t H[5]             ->  ctx_H     : list N (5 words)
     uint32_t M[16] +
     size_t octets_in_buffer   ->  ctx_M     : bytes  (the first octets_in_buffer
                                                     octets of the buffer; the
                                                     stale octets behind them are
                                                     never read by the C code:
                                                     update overwrites them before
                                                     the block is compressed, final
                                                     masks them off)
     uint32_t num_bits_in_msg  ->  ctx_nbits : N  (reduced mod 2^32 by every
                                                     update, like the C type)

   The compression function [C h block] stands for srtp_sha1_core (and for
   the two in-line copies of it in srtp_sha1_final): [h] is the 5-word
   chaining value, [block] the 64 octets of the 16 big-endian words W[0..15].
   It is a Section variable here; Sha1Proofs instantiates it with
   [Srtp.Crypto.SHA1.sha1_compress]. *)

From Coq Require Import NArith List Arith.
From Srtp Require Import Util.
From Srtp.Crypto Require Import SHA1.
Import ListNotations.
Local Open Scope N_scope.

Record sha1ctx : Type := mk_sha1ctx {
  ctx_H : list N;      (* ctx->H[0..4] *)
  ctx_M : bytes;       (* ctx->M[0 .. octets_in_buffer), as octets *)
  ctx_nbits : N        (* ctx->num_bits_in_msg (uint32_t) *)
}.

(* Invariant of the C struct: octets_in_buffer < 64. *)
Definition sha1ctx_ok (c : sha1ctx) : Prop := (length (ctx_M c) < 64)%nat.

(* uint32_t wrap-around *)
Definition wrap32 (x : N) : N := x mod 4294967296.

Section Sha1Model.

Variable C : list N -> list N -> list N.

(* Reference iteration: fold [C] over the complete 64-octet blocks of [data]
   (a trailing partial block is ignored).  With [C := sha1_compress] this is
   literally [Srtp.Crypto.SHA1.sha1_blocks]. *)
Fixpoint mblocks_n (n : nat) (h : list N) (data : bytes) : list N :=
  match n with
  | O => h
  | S n' => mblocks_n n' (C h (firstn 64 data)) (skipn 64 data)
  end.

Definition mblocks (h : list N) (data : bytes) : list N :=
  mblocks_n (length data / 64) h data.

(* srtp_sha1_init *)
Definition sha1m_init : sha1ctx :=
  {| ctx_H := sha1_init; ctx_M := []; ctx_nbits := 0 |}.

(* The  while (octets_in_msg > 0)  loop of srtp_sha1_update.
   [h], [m] are ctx->H and the buffered octets, [data] the unread part of
   msg.  Every iteration with a full block consumes 64 - |m| >= 1 octets, so
   [length data] iterations of fuel are always enough (Sha1Proofs:
   [sha1m_loop_spec] holds for every fuel >= length data). *)
Fixpoint sha1m_loop (fuel : nat) (h : list N) (m : bytes) (data : bytes)
  : list N * bytes :=
  match fuel with
  | O => (h, m)
  | S fuel' =>
    match data with
    | [] => (h, m)                                   (* octets_in_msg == 0 *)
    | _ :: _ =>
      if (64 <=? length data + length m)%nat then
        (* fill the buffer, compress it, buffer becomes empty *)
        let k := (64 - length m)%nat in
        sha1m_loop fuel' (C h (m ++ firstn k data)) [] (skipn k data)
      else
        (* append everything to the buffer, done *)
        (h, m ++ data)
    end
  end.

(* srtp_sha1_update:
     ctx->num_bits_in_msg += (uint32_t)octets_in_msg * 8;   (all in uint32_t)
     while (...) ...                                                          *)
Definition sha1m_update (c : sha1ctx) (data : bytes) : sha1ctx :=
  let len := N.of_nat (length data) in
  let nb := wrap32 (ctx_nbits c + wrap32 (wrap32 len * 8)) in
  let '(h, m) := sha1m_loop (length data) (ctx_H c) (ctx_M c) data in
  {| ctx_H := h; ctx_M := m; ctx_nbits := nb |}.

(* srtp_sha1_final, chaining value written to output[0..4] (as words; the
   octets of [output] in memory are [sha1_words_to_bytes] of it).

   First word array W[0..15], as 64 octets: the buffered octets, 0x80 (the
   switch on octets_in_buffer % 4), zero words up to W[14]; then
     octets_in_buffer < 56 : W[15] = num_bits_in_msg, one compression;
     otherwise             : W[15] = 0 (56..59) or the last buffered
                             octets/0x80/zeros (60..63), one compression,
                             then a second one on W[0..14] = 0,
                             W[15] = num_bits_in_msg.
   Only the 32-bit bit count is ever written: W[14] is always zero. *)
Definition sha1m_final (c : sha1ctx) : list N :=
  let n := length (ctx_M c) in
  if (n <? 56)%nat then
    C (ctx_H c)
      (ctx_M c ++ [0x80] ++ repeat 0 (59 - n)%nat ++ be_bytes 4 (ctx_nbits c))
  else
    let h1 := C (ctx_H c) (ctx_M c ++ [0x80] ++ repeat 0 (63 - n)%nat) in
    C h1 (repeat 0 60%nat ++ be_bytes 4 (ctx_nbits c)).

(* The context left behind by srtp_sha1_final: H holds the result,
   octets_in_buffer = 0, the bit count is not reset. *)
Definition sha1m_final_ctx (c : sha1ctx) : sha1ctx :=
  {| ctx_H := sha1m_final c; ctx_M := []; ctx_nbits := ctx_nbits c |}.

(* A whole message fed in several updates, then final; digest as octets. *)
Definition sha1m_digest (chunks : list bytes) : bytes :=
  sha1_words_to_bytes (sha1m_final (fold_left sha1m_update chunks sha1m_init)).

End Sha1Model.

(* ------------------------------------------------------------------ *)
(* Word-level view of the first word array of srtp_sha1_final          *)
(* ------------------------------------------------------------------ *)

(* [sha1m_final] above describes W[0..15] as 64 octets.  The C code builds
   it as 16 words, with a switch on octets_in_buffer % 4 that masks the stale
   octets of the last buffered word.  The literal transcription below (array
   writes into a 16-word array that starts out as [junk]) is used only in
   Sha1Proofs.v, where it is checked by computation, for every
   octets_in_buffer 0..63 and a buffer whose stale octets are all non-zero,
   that its octets are exactly the block passed to [C] in [sha1m_final]
   (Examples [sha1m_final_W_lt56], [sha1m_final_W_ge56]).
   [buf] is the whole 64-octet buffer ctx->M, [n] is octets_in_buffer. *)
Definition upd (i : nat) (v : N) (l : list N) : list N :=
  firstn i l ++ v :: skipn (S i) l.

Definition sha1m_final_W (junk : N) (buf : bytes) (n : nat) (nb : N)
  : list N :=
  let Mw := be_words buf in
  let i := ((n + 3) / 4)%nat in
  (* for (i = 0; i < (octets_in_buffer + 3) / 4; i++) W[i] = be32(M[i]) *)
  let W := fold_left (fun W j => upd j (nth j Mw 0) W) (seq 0 i)
                     (repeat junk 16) in
  (* switch (tail) *)
  let last_word := nth (i - 1) Mw 0 in
  let W :=
    match (n mod 4)%nat with
    | 3%nat => upd i 0 (upd (i - 1)
                 (N.lor (N.land last_word 0xffffff00) 0x80) W)
    | 2%nat => upd i 0 (upd (i - 1)
                 (N.lor (N.land last_word 0xffff0000) 0x8000) W)
    | 1%nat => upd i 0 (upd (i - 1)
                 (N.lor (N.land last_word 0xff000000) 0x800000) W)
    | _ => upd i 0x80000000 W
    end in
  (* for (i++; i < 15; i++) W[i] = 0 *)
  let W := fold_left (fun W j => upd j 0 W) (seq (S i) (15 - S i)) W in
  (* W[15] *)
  let W := if (n <? 56)%nat then upd 15 nb W
           else if (n <? 60)%nat then upd 15 0 W
           else W in
  firstn 16 W.   (* W[16] = 0 (61..63 octets) is overwritten by the schedule *)
