(* BitvecProofs.v — the word loops of bitvector_left_shift / v128_left_shift
   and the bit macros, as modelled in BitvecModel.v, agree with the
   single-number representation used by Rdb.v / Rdbx.v:
     pack (bv_left_shift ws s) = N.shiftr (pack ws) s
     bit b of the vector       = N.testbit (pack ws) b
     bv_set_bit ws b           ~ N.setbit (pack ws) b            *)
From Coq Require Import NArith ZArith List Bool Lia ZifyBool ZifyN.
From Srtp Require Import BitvecModel.
Import ListNotations.
Local Open Scope N_scope.
Ltac Zify.zify_post_hook ::= Z.div_mod_to_equations.

(* ------------------------------------------------------------------ *)
(* bounds by powers of two                                              *)

Lemma pow2_nz n : 2 ^ n <> 0.
Proof. apply N.pow_nonzero. discriminate. Qed.

Lemma lt_pow2_shiftr a n : a < 2 ^ n <-> N.shiftr a n = 0.
Proof.
  rewrite N.shiftr_div_pow2. symmetry. apply N.div_small_iff. apply pow2_nz.
Qed.

Lemma lor_lt_pow2 a b n : a < 2 ^ n -> b < 2 ^ n -> N.lor a b < 2 ^ n.
Proof.
  rewrite !lt_pow2_shiftr, N.shiftr_lor. intros Ha Hb. rewrite Ha, Hb. reflexivity.
Qed.

Lemma lxor_lt_pow2 a b n : a < 2 ^ n -> b < 2 ^ n -> N.lxor a b < 2 ^ n.
Proof.
  rewrite !lt_pow2_shiftr, N.shiftr_lxor. intros Ha Hb. rewrite Ha, Hb. reflexivity.
Qed.

Lemma ldiff_lt_pow2 a b n : a < 2 ^ n -> N.ldiff a b < 2 ^ n.
Proof.
  rewrite !lt_pow2_shiftr, N.shiftr_ldiff. intros Ha. rewrite Ha. apply N.ldiff_0_l.
Qed.

Lemma shiftr_lt_pow2 a k n : a < 2 ^ n -> N.shiftr a k < 2 ^ n.
Proof.
  rewrite !lt_pow2_shiftr. intros Ha.
  rewrite N.shiftr_shiftr, N.add_comm, <- N.shiftr_shiftr, Ha. apply N.shiftr_0_l.
Qed.

Lemma small_bits w n k : w < 2 ^ n -> n <= k -> N.testbit w k = false.
Proof.
  intros Hw Hk. rewrite <- (N.mod_small w (2 ^ n)) by assumption.
  apply N.mod_pow2_bits_high. assumption.
Qed.

Lemma zero_lt_pow2 n : 0 < 2 ^ n.
Proof. pose proof (pow2_nz n). lia. Qed.

(* ------------------------------------------------------------------ *)
(* lists of 32-bit words                                                *)

Definition words32 (ws : list N) : Prop := Forall (fun w => w < 2 ^ 32) ws.

Lemma word_lt ws i : words32 ws -> word ws i < 2 ^ 32.
Proof.
  unfold words32, word. intros Hws.
  destruct (nth_in_or_default i ws 0) as [Hin | Hd].
  - rewrite Forall_forall in Hws. apply Hws. exact Hin.
  - rewrite Hd. apply zero_lt_pow2.
Qed.

Lemma word_out ws i : (length ws <= i)%nat -> word ws i = 0.
Proof. intros Hi. unfold word. apply nth_overflow. exact Hi. Qed.

Lemma nth_map_seq (f : nat -> N) n s i :
  (i < n)%nat -> nth i (map f (seq s n)) 0 = f (s + i)%nat.
Proof.
  revert s i. induction n as [|n IH]; intros s i Hi; [lia|].
  cbn [seq map]. destruct i as [|i].
  - cbn [nth]. f_equal. lia.
  - cbn [nth]. rewrite IH by lia. f_equal. lia.
Qed.

Lemma nth_repeat0 i n : nth i (repeat 0 n) 0 = 0.
Proof.
  revert i. induction n as [|n IH]; intros i; destruct i; cbn [repeat nth]; auto.
Qed.

Lemma pack_cons w r : pack (w :: r) = w + 2 ^ 32 * pack r.
Proof. reflexivity. Qed.

Lemma pack_repeat0 n : pack (repeat 0 n) = 0.
Proof.
  induction n as [|n IH]; [reflexivity|].
  cbn [repeat]. rewrite pack_cons, IH. rewrite N.mul_0_r. reflexivity.
Qed.

(* ------------------------------------------------------------------ *)
(* the bit macros: bit b of the vector is bit (b mod 32) of word b/32   *)

Theorem pack_testbit ws b :
  Forall (fun w => w < 2 ^ 32) ws ->
  N.testbit (pack ws) b = N.testbit (nth (N.to_nat (b / 32)) ws 0) (b mod 32).
Proof.
  intros Hws. revert b. induction Hws as [|w r Hw Hr IH]; intros b.
  - cbn [pack]. destruct (N.to_nat (b / 32)); cbn [nth]; rewrite !N.bits_0; reflexivity.
  - rewrite pack_cons. destruct (b <? 32) eqn:Hb.
    + assert (Hq : b / 32 = 0) by lia. assert (Hm : b mod 32 = b) by lia.
      rewrite Hq, Hm. cbn [N.to_nat nth].
      rewrite <- (N.mod_pow2_bits_low (w + 2 ^ 32 * pack r) 32 b) by lia.
      f_equal. rewrite N.mul_comm, N.mod_add by apply pow2_nz.
      apply N.mod_small. exact Hw.
    + assert (Hq : b / 32 = (b - 32) / 32 + 1) by lia.
      assert (Hm : b mod 32 = (b - 32) mod 32) by lia.
      rewrite Hq, Hm, N2Nat.inj_add. change (N.to_nat 1) with 1%nat.
      rewrite Nat.add_1_r. cbn [nth]. rewrite <- IH.
      replace b with ((b - 32) + 32) at 1 by lia.
      rewrite <- N.shiftr_spec', N.shiftr_div_pow2.
      f_equal. rewrite N.mul_comm, N.div_add by apply pow2_nz.
      rewrite N.div_small by exact Hw. reflexivity.
Qed.

Print Assumptions pack_testbit.

Corollary pack_testbit_word ws b :
  words32 ws -> N.testbit (pack ws) b = N.testbit (word ws (N.to_nat (b / 32))) (b mod 32).
Proof. apply pack_testbit. Qed.

(* bitvector_get_bit / v128_get_bit *)
Theorem bv_get_bit_spec ws b :
  Forall (fun w => w < 2 ^ 32) ws ->
  bv_get_bit ws b = N.b2n (N.testbit (pack ws) b).
Proof.
  intros Hws. unfold bv_get_bit. rewrite (pack_testbit_word ws b Hws).
  change 1 with (N.ones 1) at 1. rewrite N.land_ones. change (2 ^ 1) with 2.
  rewrite <- N.bit0_mod, N.shiftr_spec', N.add_0_l. reflexivity.
Qed.

Print Assumptions bv_get_bit_spec.

(* ------------------------------------------------------------------ *)
(* the left-shift word loop                                             *)

(* word i of the result, uniformly in i (also beyond the copied part and
   beyond the vector, because out-of-range words read as 0) *)
Definition spec_word (ws : list N) (shift : N) (i : nat) : N :=
  let base := N.to_nat (shift / 32) in
  let bit := shift mod 32 in
  if bit =? 0 then word ws (i + base)
  else N.lxor (N.shiftr (word ws (i + base)) bit)
              (trunc32 (N.shiftl (word ws (i + base + 1)) (32 - bit))).

Lemma spec_word_out ws shift i :
  (length ws <= i + N.to_nat (shift / 32))%nat -> spec_word ws shift i = 0.
Proof.
  intros Hi. unfold spec_word. cbv zeta.
  destruct (shift mod 32 =? 0) eqn:Hbit.
  - apply word_out. exact Hi.
  - rewrite (word_out ws (i + N.to_nat (shift / 32))) by exact Hi.
    rewrite (word_out ws (i + N.to_nat (shift / 32) + 1)) by lia.
    unfold trunc32. rewrite N.shiftr_0_l, N.shiftl_0_l, N.mod_0_l by apply pow2_nz.
    reflexivity.
Qed.

Lemma nth_shift_words ws shift i :
  shift < 32 * N.of_nat (length ws) ->
  nth i (shift_words ws shift) 0 = spec_word ws shift i.
Proof.
  intros Hs.
  assert (Hbase : (N.to_nat (shift / 32) < length ws)%nat) by lia.
  unfold shift_words. cbv zeta.
  set (base := N.to_nat (shift / 32)) in *.
  set (len := length ws) in *.
  destruct (Nat.ltb i (len - base)) eqn:Hi.
  - (* inside the copied part *)
    rewrite app_nth1.
    2:{ destruct (shift mod 32 =? 0); [|rewrite app_length];
        rewrite map_length, seq_length; cbn [length]; lia. }
    unfold spec_word. cbv zeta. fold base.
    destruct (shift mod 32 =? 0) eqn:Hbit.
    + rewrite nth_map_seq by lia. reflexivity.
    + destruct (Nat.ltb i (len - base - 1)) eqn:Hi1.
      * rewrite app_nth1 by (rewrite map_length, seq_length; lia).
        rewrite nth_map_seq by lia. reflexivity.
      * rewrite app_nth2 by (rewrite map_length, seq_length; lia).
        rewrite map_length, seq_length.
        replace (i - (len - base - 1))%nat with 0%nat by lia. cbn [nth].
        replace (len - 1)%nat with (i + base)%nat by lia.
        rewrite (word_out ws (i + base + 1)) by (fold len; lia).
        unfold trunc32. rewrite N.shiftl_0_l, N.mod_0_l by apply pow2_nz.
        rewrite N.lxor_0_r. reflexivity.
  - (* zero fill *)
    rewrite app_nth2.
    2:{ destruct (shift mod 32 =? 0); [|rewrite app_length];
        rewrite map_length, seq_length; cbn [length]; lia. }
    rewrite nth_repeat0. symmetry. apply spec_word_out. fold base. fold len. lia.
Qed.

Lemma nth_bv_left_shift ws shift i :
  nth i (bv_left_shift ws shift) 0 = spec_word ws shift i.
Proof.
  unfold bv_left_shift. destruct (32 * N.of_nat (length ws) <=? shift) eqn:Hg.
  - rewrite nth_repeat0. symmetry. apply spec_word_out. lia.
  - apply nth_shift_words. lia.
Qed.

Lemma shift_words_length ws shift :
  shift < 32 * N.of_nat (length ws) -> length (shift_words ws shift) = length ws.
Proof.
  intros Hs.
  assert (Hbase : (N.to_nat (shift / 32) < length ws)%nat) by lia.
  unfold shift_words. cbv zeta.
  destruct (shift mod 32 =? 0);
    repeat rewrite ?app_length, ?map_length, ?seq_length, ?repeat_length;
    cbn [length]; lia.
Qed.

Theorem bv_left_shift_length ws s : length (bv_left_shift ws s) = length ws.
Proof.
  unfold bv_left_shift. destruct (32 * N.of_nat (length ws) <=? s) eqn:Hg.
  - apply repeat_length.
  - apply shift_words_length. lia.
Qed.

Lemma spec_word_lt ws shift i : words32 ws -> spec_word ws shift i < 2 ^ 32.
Proof.
  intros Hws. unfold spec_word. cbv zeta.
  destruct (shift mod 32 =? 0).
  - apply word_lt. exact Hws.
  - apply lxor_lt_pow2.
    + apply shiftr_lt_pow2. apply word_lt. exact Hws.
    + unfold trunc32. apply N.mod_lt. apply pow2_nz.
Qed.

Theorem bv_left_shift_words32 ws s :
  Forall (fun w => w < 2 ^ 32) ws -> Forall (fun w => w < 2 ^ 32) (bv_left_shift ws s).
Proof.
  intros Hws. apply Forall_nth. intros i d Hi.
  rewrite (nth_indep _ d 0 Hi), nth_bv_left_shift.
  apply spec_word_lt. exact Hws.
Qed.

(* bit j (< 32) of result word i is bit 32 i + j + shift of the input *)
Lemma spec_word_testbit ws s b :
  words32 ws ->
  N.testbit (spec_word ws s (N.to_nat (b / 32))) (b mod 32) =
  N.testbit (word ws (N.to_nat ((b + s) / 32))) ((b + s) mod 32).
Proof.
  intros Hws. unfold spec_word. cbv zeta.
  destruct (s mod 32 =? 0) eqn:Hbit.
  - assert (Hq : (b + s) / 32 = b / 32 + s / 32) by lia.
    assert (Hm : (b + s) mod 32 = b mod 32) by lia.
    rewrite Hq, Hm, N2Nat.inj_add. reflexivity.
  - rewrite N.lxor_spec, N.shiftr_spec'. unfold trunc32.
    rewrite N.mod_pow2_bits_low by lia.
    destruct (b mod 32 + s mod 32 <? 32) eqn:Hc.
    + rewrite N.shiftl_spec_low by lia. rewrite xorb_false_r.
      assert (Hq : (b + s) / 32 = b / 32 + s / 32) by lia.
      assert (Hm : (b + s) mod 32 = b mod 32 + s mod 32) by lia.
      rewrite Hq, Hm, N2Nat.inj_add. reflexivity.
    + rewrite (small_bits _ 32 (b mod 32 + s mod 32)) by (try apply word_lt; try assumption; lia).
      rewrite xorb_false_l.
      rewrite N.shiftl_spec_high' by lia.
      assert (Hq : (b + s) / 32 = b / 32 + s / 32 + 1) by lia.
      assert (Hm : (b + s) mod 32 = b mod 32 - (32 - s mod 32)) by lia.
      rewrite Hq, Hm, !N2Nat.inj_add. reflexivity.
Qed.

Theorem bv_left_shift_spec : forall ws s,
  Forall (fun w => w < 2 ^ 32) ws ->
  pack (bv_left_shift ws s) = N.shiftr (pack ws) s.
Proof.
  intros ws s Hws. apply N.bits_inj. intros b.
  rewrite (pack_testbit _ b (bv_left_shift_words32 ws s Hws)).
  rewrite nth_bv_left_shift, N.shiftr_spec', (pack_testbit_word ws (b + s) Hws).
  apply spec_word_testbit. exact Hws.
Qed.

Print Assumptions bv_left_shift_spec.

(* in the guarded-out case both sides are 0 *)
Corollary bv_left_shift_overflow ws s :
  Forall (fun w => w < 2 ^ 32) ws -> 32 * N.of_nat (length ws) <= s ->
  bv_left_shift ws s = repeat 0 (length ws) /\ N.shiftr (pack ws) s = 0.
Proof.
  intros Hws Hs. split.
  - unfold bv_left_shift. destruct (32 * N.of_nat (length ws) <=? s) eqn:Hg; [reflexivity|lia].
  - rewrite <- (bv_left_shift_spec ws s Hws). unfold bv_left_shift.
    destruct (32 * N.of_nat (length ws) <=? s) eqn:Hg; [apply pack_repeat0|lia].
Qed.

Lemma pack_lt ws : words32 ws -> pack ws < 2 ^ (32 * N.of_nat (length ws)).
Proof.
  intros Hws. apply lt_pow2_shiftr. apply N.bits_inj. intros b.
  rewrite N.bits_0, N.shiftr_spec', (pack_testbit_word ws _ Hws).
  rewrite word_out by lia. apply N.bits_0.
Qed.

(* v128_left_shift: the same loop on four words with the guard shift > 127 *)
Theorem v128_left_shift_eq ws s :
  length ws = 4%nat -> v128_left_shift ws s = bv_left_shift ws s.
Proof.
  intros Hlen. unfold v128_left_shift, bv_left_shift. rewrite Hlen.
  change (32 * N.of_nat 4) with 128.
  destruct (127 <? s) eqn:H1; destruct (128 <=? s) eqn:H2; try reflexivity; lia.
Qed.

Theorem v128_left_shift_spec ws s :
  length ws = 4%nat -> Forall (fun w => w < 2 ^ 32) ws ->
  pack (v128_left_shift ws s) = N.shiftr (pack ws) s /\
  length (v128_left_shift ws s) = 4%nat /\
  Forall (fun w => w < 2 ^ 32) (v128_left_shift ws s) /\
  pack (v128_left_shift ws s) = (if 127 <? s then 0 else N.shiftr (pack ws) s).
Proof.
  intros Hlen Hws. rewrite (v128_left_shift_eq ws s Hlen).
  split; [apply bv_left_shift_spec; exact Hws|].
  split; [rewrite bv_left_shift_length; exact Hlen|].
  split; [apply bv_left_shift_words32; exact Hws|].
  destruct (127 <? s) eqn:Hg.
  - unfold bv_left_shift. rewrite Hlen. change (32 * N.of_nat 4) with 128.
    destruct (128 <=? s) eqn:H2; [apply pack_repeat0|lia].
  - apply bv_left_shift_spec. exact Hws.
Qed.

Print Assumptions v128_left_shift_spec.

(* ------------------------------------------------------------------ *)
(* set_bit / clear_bit                                                   *)

Lemma upd_length i v ws : length (upd i v ws) = length ws.
Proof.
  revert i. induction ws as [|w r IH]; intros i; [reflexivity|].
  destruct i; cbn [upd length]; [reflexivity|]. rewrite IH. reflexivity.
Qed.

Lemma nth_upd i v ws j :
  (i < length ws)%nat ->
  nth j (upd i v ws) 0 = if Nat.eqb j i then v else nth j ws 0.
Proof.
  revert i j. induction ws as [|w r IH]; intros i j Hi; cbn [length] in Hi; [lia|].
  destruct i as [|i]; destruct j as [|j]; cbn [upd nth Nat.eqb]; try reflexivity.
  apply IH. lia.
Qed.

Lemma upd_words32 i v ws : words32 ws -> v < 2 ^ 32 -> words32 (upd i v ws).
Proof.
  unfold words32. intros Hws Hv. revert i.
  induction Hws as [|w r Hw Hr IH]; intros i; [constructor|].
  destruct i; cbn [upd]; constructor; auto.
Qed.

Lemma bit_mask_lt k : k < 32 -> N.shiftl 1 k < 2 ^ 32.
Proof.
  intros Hk. rewrite N.shiftl_1_l. apply N.pow_lt_mono_r; lia.
Qed.

Theorem bv_set_bit_spec ws b :
  Forall (fun w => w < 2 ^ 32) ws -> b < 32 * N.of_nat (length ws) ->
  pack (bv_set_bit ws b) = N.setbit (pack ws) b /\
  length (bv_set_bit ws b) = length ws /\
  Forall (fun w => w < 2 ^ 32) (bv_set_bit ws b).
Proof.
  intros Hws Hb.
  assert (Hi : (N.to_nat (b / 32) < length ws)%nat) by lia.
  assert (Hw32 : words32 (bv_set_bit ws b)).
  { unfold bv_set_bit. cbv zeta. apply upd_words32; [exact Hws|].
    apply lor_lt_pow2; [apply word_lt; exact Hws|apply bit_mask_lt; lia]. }
  split; [|split; [apply upd_length|exact Hw32]].
  apply N.bits_inj. intros c.
  rewrite (pack_testbit _ c Hw32), N.setbit_eqb, (pack_testbit ws c Hws).
  unfold bv_set_bit. cbv zeta. rewrite nth_upd by exact Hi.
  destruct (Nat.eqb (N.to_nat (c / 32)) (N.to_nat (b / 32))) eqn:He.
  - apply Nat.eqb_eq in He. unfold word. rewrite He.
    rewrite N.lor_spec, N.shiftl_1_l, N.pow2_bits_eqb, orb_comm.
    f_equal. destruct (N.eqb_spec (b mod 32) (c mod 32)); destruct (N.eqb_spec b c); try reflexivity; lia.
  - apply Nat.eqb_neq in He.
    destruct (N.eqb_spec b c) as [Heq|Hne]; [subst c; congruence|reflexivity].
Qed.

Print Assumptions bv_set_bit_spec.

Theorem bv_clear_bit_spec ws b :
  Forall (fun w => w < 2 ^ 32) ws -> b < 32 * N.of_nat (length ws) ->
  pack (bv_clear_bit ws b) = N.clearbit (pack ws) b /\
  length (bv_clear_bit ws b) = length ws /\
  Forall (fun w => w < 2 ^ 32) (bv_clear_bit ws b).
Proof.
  intros Hws Hb.
  assert (Hi : (N.to_nat (b / 32) < length ws)%nat) by lia.
  assert (Hw32 : words32 (bv_clear_bit ws b)).
  { unfold bv_clear_bit. cbv zeta. apply upd_words32; [exact Hws|].
    apply ldiff_lt_pow2. apply word_lt. exact Hws. }
  split; [|split; [apply upd_length|exact Hw32]].
  apply N.bits_inj. intros c.
  rewrite (pack_testbit _ c Hw32), N.clearbit_eqb, (pack_testbit ws c Hws).
  unfold bv_clear_bit. cbv zeta. rewrite nth_upd by exact Hi.
  destruct (Nat.eqb (N.to_nat (c / 32)) (N.to_nat (b / 32))) eqn:He.
  - apply Nat.eqb_eq in He. unfold word. rewrite He.
    rewrite N.ldiff_spec, N.shiftl_1_l, N.pow2_bits_eqb.
    f_equal. destruct (N.eqb_spec (b mod 32) (c mod 32)); destruct (N.eqb_spec b c); try reflexivity; lia.
  - apply Nat.eqb_neq in He.
    destruct (N.eqb_spec b c) as [Heq|Hne]; [subst c; congruence|].
    cbn [negb]. rewrite andb_true_r. reflexivity.
Qed.

Print Assumptions bv_clear_bit_spec.

(* ------------------------------------------------------------------ *)
(* non-vacuity: concrete runs of the word loop                           *)

Example ex_shift_bv_40 :
  bv_left_shift [0x89abcdef; 0x01234567; 0xdeadbeef; 0x0badf00d; 0xffffffff] 40
  = [0xef012345; 0x0ddeadbe; 0xff0badf0; 0x00ffffff; 0].
Proof. vm_compute. reflexivity. Qed.

Example ex_shift_bv_64 :
  bv_left_shift [1; 2; 3; 4; 5] 64 = [3; 4; 5; 0; 0].
Proof. vm_compute. reflexivity. Qed.

Example ex_shift_bv_159 :
  bv_left_shift [1; 2; 3; 4; 0x80000000] 159 = [1; 0; 0; 0; 0].
Proof. vm_compute. reflexivity. Qed.

Example ex_shift_bv_160 :
  bv_left_shift [1; 2; 3; 4; 0x80000000] 160 = [0; 0; 0; 0; 0].
Proof. vm_compute. reflexivity. Qed.

Example ex_shift_v128_1 :
  v128_left_shift [0x00000001; 0x00000001; 0x80000000; 0x00000003] 1
  = [0x80000000; 0x00000000; 0xc0000000; 0x00000001].
Proof. vm_compute. reflexivity. Qed.

Example ex_shift_pack :
  pack (bv_left_shift [0x89abcdef; 0x01234567; 0xdeadbeef; 0x0badf00d] 37)
  = N.shiftr (pack [0x89abcdef; 0x01234567; 0xdeadbeef; 0x0badf00d]) 37.
Proof. vm_compute. reflexivity. Qed.

Example ex_set_bit : bv_set_bit [0; 0; 0; 0] 127 = [0; 0; 0; 0x80000000].
Proof. vm_compute. reflexivity. Qed.

Example ex_get_bit : bv_get_bit [0; 0; 4; 0] 66 = 1 /\ bv_get_bit [0; 0; 4; 0] 65 = 0.
Proof. vm_compute. split; reflexivity. Qed.

(* ------------------------------------------------------------------ *)
(* bridges to the forms used in Rdb.v (v128_shift) and Rdbx.v (rdbx_add) *)

Require Srtp.Rdb.

Theorem rdb_v128_shift_justified ws s :
  length ws = 4%nat -> Forall (fun w => w < 2 ^ 32) ws ->
  Srtp.Rdb.v128_shift (pack ws) (Z.of_N s) = pack (v128_left_shift ws s).
Proof.
  intros Hlen Hws. unfold Srtp.Rdb.v128_shift. rewrite N2Z.id.
  destruct (v128_left_shift_spec ws s Hlen Hws) as [_ [_ [_ Hp]]]. rewrite Hp.
  destruct (127 <? s) eqn:H1; destruct (127 <? Z.of_N s)%Z eqn:H2; try reflexivity; lia.
Qed.

Print Assumptions rdb_v128_shift_justified.

Theorem rdbx_shift_justified ws s :
  Forall (fun w => w < 2 ^ 32) ws ->
  (if 32 * N.of_nat (length ws) <=? s then 0 else N.shiftr (pack ws) s)
  = pack (bv_left_shift ws s).
Proof.
  intros Hws. rewrite (bv_left_shift_spec ws s Hws).
  destruct (32 * N.of_nat (length ws) <=? s) eqn:Hg; [|reflexivity].
  symmetry. apply (bv_left_shift_overflow ws s Hws). lia.
Qed.

Print Assumptions rdbx_shift_justified.
