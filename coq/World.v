(* World.v — data model of libsrtp's session state and the state/exit monad the
   API functions are written in.  Model only. *)
From Coq Require Import NArith ZArith List Bool.
From Srtp Require Import Util Constants KeyLimit Rdb Rdbx Icm.
Import ListNotations.
Local Open Scope Z_scope.

(* ---- policies (srtp_policy_t as the caller fills it) ---- *)
Record cpolicy := { cp_cipher : Z; cp_keylen : Z; cp_auth : Z; cp_authkeylen : Z; cp_taglen : Z; cp_serv : Z }.
Record policy := {
  p_ssrc_type : Z; p_ssrc : Z;
  p_rtp : cpolicy; p_rtcp : cpolicy;
  p_usekey : bool;                      (* policy->key != NULL *)
  p_nkeys : Z; p_use_mki : bool; p_mki_size : Z;
  p_window : Z; p_allow_repeat : bool; p_cryptex : bool;
  p_enc_xtn : bytes;
  p_keys : list (bytes * bytes)         (* (master key ‖ salt, mki id; [] = NULL) *)
}.

(* ---- keyed objects ---- *)
Record akey := { ak_kind : Z; ak_key : bytes; ak_klen : Z; ak_tag : Z; ak_prefix : Z }.

Record skeys := {
  k_rtp_c : ckey; k_rtp_a : akey; k_xtn_c : option ckey;
  k_rtcp_c : ckey; k_rtcp_a : akey;
  k_salt : bytes; k_csalt : bytes; k_mki : bytes
}.

(* direction: 0 unknown, 1 sender, 2 receiver *)
Record stream := {
  s_ssrc : Z;                 (* numeric value of the big-endian SSRC field *)
  s_clone : bool;             (* shares ciphers / auth / key limits / enc_xtn_hdr with the template *)
  s_keys : list skeys;
  s_limits : list klimit;     (* own key limits; a clone uses the template's *)
  s_rdbx : rdbx; s_rdb : rdb;
  s_pending_roc : Z; s_dir : Z;
  s_rtp_serv : Z; s_rtcp_serv : Z;
  s_use_mki : bool; s_mki_size : Z;
  s_allow_repeat : bool; s_cryptex : bool;
  s_enc_xtn : bytes
}.

Record session := { ss_template : option stream; ss_list : list stream; ss_cap : Z }.

(* ---- the buffers of one packet call ---- *)
(* b_src: the input as passed (len = length); b_dst: the whole output block (in place: the
   same block, possibly longer than cap); b_cap: *out_len as passed in.
   b_oob is set by any access outside [0,len) / [0,cap). *)
Record bufs := { b_src : bytes; b_dst : bytes; b_alias : bool; b_len : Z; b_cap : Z; b_oob : bool }.

Record heap := { h_live : Z; h_att : Z; h_fail : Z; h_frees : Z; h_dirty : Z }.

Record world := {
  w_s : session; w_b : bufs;
  w_ev : list (Z * Z);        (* (event, ssrc) oldest first *)
  w_iv : list bytes;          (* IVs set for encryption: 4-byte key fingerprint ++ 16-byte IV *)
  w_h : heap
}.

(* ---- monad: state + early exit with a status ---- *)
Definition M (A : Type) := world -> world * (A + Z).
Definition ret {A} (a : A) : M A := fun w => (w, inl a).
Definition bind {A B} (m : M A) (f : A -> M B) : M B :=
  fun w => match m w with
           | (w', inl a) => f a w'
           | (w', inr st) => (w', inr st)
           end.
Definition exit_with {A} (st : Z) : M A := fun w => (w, inr st).
Definition getw : M world := fun w => (w, inl w).
Definition putw (w' : world) : M unit := fun _ => (w', inl tt).
(* run m, catching its exit: returns inl/inr as a value *)
Definition catch {A} (m : M A) : M (A + Z) := fun w => let '(w', r) := m w in (w', inl r).

Notation "x <- m ;; k" := (bind m (fun x => k)) (at level 61, m at next level, right associativity).
Notation "m ;;; k" := (bind m (fun _ => k)) (at level 61, right associativity).

Definition when (c : bool) (m : M unit) : M unit := if c then m else ret tt.
Definition check_st (st : Z) : M unit := if st =? st_ok then ret tt else exit_with st.

Definition get_s : M session := fun w => (w, inl (w_s w)).
Definition put_s (s : session) : M unit :=
  fun w => ({| w_s := s; w_b := w_b w; w_ev := w_ev w; w_iv := w_iv w; w_h := w_h w |}, inl tt).
Definition get_b : M bufs := fun w => (w, inl (w_b w)).
Definition put_b (b : bufs) : M unit :=
  fun w => ({| w_s := w_s w; w_b := b; w_ev := w_ev w; w_iv := w_iv w; w_h := w_h w |}, inl tt).
Definition emit (ev ssrc : Z) : M unit :=
  fun w => ({| w_s := w_s w; w_b := w_b w; w_ev := w_ev w ++ [(ev, ssrc)]; w_iv := w_iv w; w_h := w_h w |}, inl tt).
Definition log_iv (e : bytes) : M unit :=
  fun w => ({| w_s := w_s w; w_b := w_b w; w_ev := w_ev w; w_iv := w_iv w ++ [e]; w_h := w_h w |}, inl tt).
Definition get_h : M heap := fun w => (w, inl (w_h w)).
Definition put_h (h : heap) : M unit :=
  fun w => ({| w_s := w_s w; w_b := w_b w; w_ev := w_ev w; w_iv := w_iv w; w_h := h |}, inl tt).

(* ---- heap events ---- *)
(* one allocation attempt; None = the allocator returned NULL *)
Definition alloc1 : M bool :=
  h <- get_h ;;
  let att := h_att h + 1 in
  if (0 <? h_fail h) && (h_fail h =? 1) then
    put_h {| h_live := h_live h; h_att := att; h_fail := 0; h_frees := h_frees h; h_dirty := h_dirty h |} ;;; ret false
  else
    put_h {| h_live := h_live h + 1; h_att := att; h_fail := (if 0 <? h_fail h then h_fail h - 1 else 0);
             h_frees := h_frees h; h_dirty := h_dirty h |} ;;; ret true.
Definition free_n (n : Z) : M unit :=
  h <- get_h ;;
  put_h {| h_live := h_live h - n; h_att := h_att h; h_fail := h_fail h; h_frees := h_frees h + n; h_dirty := h_dirty h |}.

(* ---- buffer access ---- *)
Definition cur_src (b : bufs) : bytes := if b_alias b then b_dst b else b_src b.
Definition set_oob (b : bufs) : bufs :=
  {| b_src := b_src b; b_dst := b_dst b; b_alias := b_alias b; b_len := b_len b; b_cap := b_cap b; b_oob := true |}.
(* read n bytes of the source at off; outside [0,len) flags oob and yields zeros *)
Definition rd_src (off n : Z) : M bytes :=
  b <- get_b ;;
  if (off <? 0) || (n <? 0) || (b_len b <? off + n) then put_b (set_oob b) ;;; ret (zeros (zn n))
  else ret (slice (zn off) (zn n) (cur_src b)).
(* read from the destination block (only cryptex does this) *)
Definition rd_dst (off n : Z) : M bytes :=
  b <- get_b ;;
  if (off <? 0) || (n <? 0) || (lenZ (b_dst b) <? off + n) then put_b (set_oob b) ;;; ret (zeros (zn n))
  else ret (slice (zn off) (zn n) (b_dst b)).
(* write into the destination; beyond cap flags oob (the bytes are still written when they
   fall inside the block, which only happens in place with cap < len) *)
Definition wr_dst (off : Z) (v : bytes) : M unit :=
  b <- get_b ;;
  let bad := (off <? 0) || (b_cap b <? off + lenZ v) in
  let b1 := {| b_src := b_src b; b_dst := splice (zn off) v (b_dst b); b_alias := b_alias b;
               b_len := b_len b; b_cap := b_cap b; b_oob := b_oob b || bad |} in
  put_b b1.

(* ---- stream table (srtp_stream_list_*, array with capacity doubling) ---- *)
Fixpoint list_get (l : list stream) (ssrc : Z) : option stream :=
  match l with
  | [] => None
  | s :: t => if s_ssrc s =? ssrc then Some s else list_get t ssrc
  end.
Fixpoint list_remove (l : list stream) (ssrc : Z) : list stream :=
  match l with
  | [] => []
  | s :: t => if s_ssrc s =? ssrc then t else s :: list_remove t ssrc
  end.
Fixpoint list_replace (l : list stream) (ssrc : Z) (n : stream) : list stream :=
  match l with
  | [] => []
  | s :: t => if s_ssrc s =? ssrc then n :: t else s :: list_replace t ssrc n
  end.

(* reference to "the stream this call works on": the template itself (provisional) or a list entry *)
Inductive sref := RTemplate | RList (ssrc : Z).

Definition get_stream (r : sref) : M stream :=
  s <- get_s ;;
  match r with
  | RTemplate => match ss_template s with Some t => ret t | None => exit_with st_fail end
  | RList x => match list_get (ss_list s) x with Some t => ret t | None => exit_with st_fail end
  end.
Definition put_stream (r : sref) (n : stream) : M unit :=
  s <- get_s ;;
  match r with
  | RTemplate => put_s {| ss_template := Some n; ss_list := ss_list s; ss_cap := ss_cap s |}
  | RList x => put_s {| ss_template := ss_template s; ss_list := list_replace (ss_list s) x n; ss_cap := ss_cap s |}
  end.

Definition upd_stream (s : stream) (rx : rdbx) (rb : rdb) (pend dir : Z) (lims : list klimit) : stream :=
  {| s_ssrc := s_ssrc s; s_clone := s_clone s; s_keys := s_keys s; s_limits := lims;
     s_rdbx := rx; s_rdb := rb; s_pending_roc := pend; s_dir := dir;
     s_rtp_serv := s_rtp_serv s; s_rtcp_serv := s_rtcp_serv s; s_use_mki := s_use_mki s;
     s_mki_size := s_mki_size s; s_allow_repeat := s_allow_repeat s; s_cryptex := s_cryptex s;
     s_enc_xtn := s_enc_xtn s |}.
Definition set_rdbx s rx := upd_stream s rx (s_rdb s) (s_pending_roc s) (s_dir s) (s_limits s).
Definition set_rdb s rb := upd_stream s (s_rdbx s) rb (s_pending_roc s) (s_dir s) (s_limits s).
Definition set_pending s p := upd_stream s (s_rdbx s) (s_rdb s) p (s_dir s) (s_limits s).
Definition set_dir s d := upd_stream s (s_rdbx s) (s_rdb s) (s_pending_roc s) d (s_limits s).
Definition set_limits s l := upd_stream s (s_rdbx s) (s_rdb s) (s_pending_roc s) (s_dir s) l.

Fixpoint replace_nth {A} (n : nat) (l : list A) (x : A) : list A :=
  match n, l with
  | _, [] => []
  | O, _ :: t => x :: t
  | S n', h :: t => h :: replace_nth n' t x
  end.
