(* RtpRefineXtn.v — C12 (SRTP half) and the sender side of C01 for the RFC 6904 class of
   streams: s_cryptex st0 = false, the keys may carry a header-extension cipher
   (k_xtn_c k = Some xk).  The monadic model of srtp_protect (Rtp.v) REFINES protect_fun of
   RtpSpec.v in place and out of place, whatever the destination held before.

   The statements are those of RtpSpecProofs.v with `plain_stream st0` replaced by
   `s_cryptex st0 = false`; they subsume the plain theorems.

   How the proof differs from the plain class: after the header copy the packet region of
   the destination (fact at offset 0) is P0 al pkt es; srtp_process_header_encryption
   (process_xtn) works on that region (in both alias modes: the walk reads the DESTINATION),
   computes xtn_apply and leaves P0 al p1 es, p1 = the packet after xtn_apply.  p1 has the
   header geometry of pkt (xtn_apply only touches extension element octets), and
   everything from enc0 on is the same in p1 and pkt, so the payload — read from the source
   when out of place — is that of p1. *)
From Coq Require Import NArith ZArith List Bool Lia.
From Srtp Require Import Util Constants KeyLimit Rdb Rdbx Icm World Stream Rtp
     MonadLemmas EnvelopeProofs WfProofs BoundsRtcp BoundsRtp LengthProofs RtcpSpec RtpSpec
     RtpSpecProofs RtpXtnApply.
Import ListNotations.
Local Open Scope Z_scope.

(* ===================================================================== *)
(* 1. header fields only depend on a prefix of the packet                  *)
(* ===================================================================== *)
Lemma nthb0_take (p : bytes) m : nthb (take (S m) p) 0 = nthb p 0.
Proof. destruct p; reflexivity. Qed.

Lemma prefix_fields (p q : bytes) m :
  take (S m) p = take (S m) q -> hdr_cc p = hdr_cc q /\ hdr_x p = hdr_x q.
Proof.
  intros H. unfold hdr_cc, hdr_x. rewrite <- (nthb0_take p m), <- (nthb0_take q m), H. auto.
Qed.
Lemma prefix_be16 (p q : bytes) m o : take m p = take m q -> (o + 2 <= m)%nat -> be16 p o = be16 q o.
Proof. intros H Ho. rewrite <- (be16_take p m o Ho), <- (be16_take q m o Ho), H. reflexivity. Qed.

(* p1 has the geometry of pkt and the same octets from enc0 on *)
Definition same_shape (pkt p1 : bytes) : Prop :=
  lenZ p1 = lenZ pkt /\ hdr_cc p1 = hdr_cc pkt /\ hdr_x p1 = hdr_x pkt /\
  (hdr_x pkt = 1 -> xtn_len p1 = xtn_len pkt /\
                    take (zn (hdr_len pkt + 4)) p1 = take (zn (hdr_len pkt + 4)) pkt) /\
  drop (zn (enc0 pkt)) p1 = drop (zn (enc0 pkt)) pkt.

Lemma same_shape_refl pkt : same_shape pkt pkt.
Proof. unfold same_shape. repeat split; reflexivity. Qed.

Lemma same_shape_enc0 pkt p1 : same_shape pkt p1 -> enc0 p1 = enc0 pkt.
Proof.
  intros (_ & E1 & E2 & E3 & _). unfold enc0, hdr_len. rewrite E1, E2.
  destruct (hdr_x pkt =? 1) eqn:EX; [|reflexivity]. apply Z.eqb_eq in EX.
  rewrite (proj1 (E3 EX)). reflexivity.
Qed.

Lemma xtn_apply_shape ids xcs pkt p1 :
  validate_rtp pkt (lenZ pkt) = st_ok -> hdr_x pkt = 1 ->
  xtn_apply ids xcs (hdr_len pkt) pkt = Some p1 -> same_shape pkt p1.
Proof.
  intros EV EX HA.
  pose proof (validate_rtp_ok _ _ EV) as (V1 & V2 & V3). specialize (V3 EX).
  pose proof (hdr_cc_range pkt) as CC. pose proof (hdr_len_eq pkt) as HLn. pose proof (xtn_len_ge pkt) as XL.
  assert (Hoff : 0 <= hdr_len pkt) by lia.
  pose proof (xtn_apply_length ids xcs (hdr_len pkt) pkt p1 HA) as LEN.
  destruct (xtn_apply_outside ids xcs (hdr_len pkt) Hoff pkt p1 HA) as [OT OD].
  assert (EN : hdr_len pkt + 4 + be16 pkt (zn (hdr_len pkt + 2)) * 4 = enc0 pkt).
  { unfold enc0, xtn_len. rewrite EX. cbn [Z.eqb Pos.eqb]. lia. }
  rewrite EN in OD.
  assert (T1 : take (S (zn (hdr_len pkt + 3))) p1 = take (S (zn (hdr_len pkt + 3))) pkt).
  { replace (S (zn (hdr_len pkt + 3))) with (zn (hdr_len pkt + 4)) by (unfold zn; lia). exact OT. }
  destruct (prefix_fields _ _ _ T1) as [F1 F2].
  unfold same_shape. split; [unfold lenZ; rewrite LEN; reflexivity|].
  split; [exact F1|]. split; [exact F2|]. split; [|exact OD].
  intros _. split; [|exact OT].
  unfold xtn_len, hdr_len. rewrite F1. fold (hdr_len pkt).
  rewrite (prefix_be16 _ _ _ (zn (hdr_len pkt + 2)) OT) by (unfold zn; lia). reflexivity.
Qed.

Lemma wire_xtn_shape ids xk iv pkt p1 :
  validate_rtp pkt (lenZ pkt) = st_ok -> wire_xtn ids xk iv pkt = Some p1 -> same_shape pkt p1.
Proof.
  intros EV. unfold wire_xtn. destruct xk as [xk|].
  - destruct (hdr_x pkt =? 1) eqn:EX.
    + apply Z.eqb_eq in EX. intros H. exact (xtn_apply_shape _ _ _ _ EV EX H).
    + intros H. injection H as <-. apply same_shape_refl.
  - intros H. injection H as <-. apply same_shape_refl.
Qed.

(* ===================================================================== *)
(* 2. the steps that see the transformed packet                            *)
(* ===================================================================== *)
Section XREF.
Variables (L C : Z) (al : bool) (src d0 pkt : bytes).
Hypothesis HL : 0 <= L < 9223372036854775808.
Hypothesis HC : 0 <= C < 9223372036854775808.
Hypothesis HD : C <= lenZ d0.
Hypothesis Hpkt : take (zn L) (if al then d0 else src) = pkt.
Hypothesis HLp : lenZ pkt = L.

Notation S := (St L C al src d0).

Lemma P0_len_x p es : lenZ p = L -> 0 <= es <= L -> lenZ (P0 al p es) = if al then L else es.
Proof. intros Hp H. unfold P0. destruct al; [exact Hp|]. unfold lenZ, zn in *. rewrite take_length. lia. Qed.

Lemma t_log_xtn ss D (xk : option ckey) iv E :
  tri (S ss D) (match xk with Some xk => log_encrypt_iv xk (key_fp xk ++ iv) | None => ret tt end) (fun _ => S ss D) E.
Proof. destruct xk as [xk|]; [apply t_log_encrypt_iv|apply t_ret; intros w Hw; exact Hw]. Qed.

(* srtp_process_header_encryption on the destination computes xtn_apply of the packet *)
Lemma xtn_step ss st xcs fs0 :
  validate_rtp pkt L = st_ok -> hdr_x pkt = 1 -> L <= C -> Forall (away 0 L) fs0 ->
  tri (S ss (facts_ok ((0, P0 al pkt (enc0 pkt)) :: fs0)))
      (process_xtn st pkt xcs)
      (fun _ w => exists p1, xtn_apply (s_enc_xtn st) xcs (hdr_len pkt) pkt = Some p1 /\
                             S ss (facts_ok ((0, P0 al p1 (enc0 pkt)) :: fs0)) w)
      (fun s w => xtn_apply (s_enc_xtn st) xcs (hdr_len pkt) pkt = None /\ s = st_parse_err /\ S ss Dany w).
Proof.
  intros EV EX HLC Haway.
  pose proof (validate_rtp_ok _ _ EV) as (V1 & V2 & V3). specialize (V3 EX).
  pose proof (hdr_cc_range pkt) as CC. pose proof (hdr_len_eq pkt) as HLn. pose proof (xtn_len_ge pkt) as XL.
  assert (Ees : enc0 pkt = hdr_len pkt + xtn_len pkt).
  { unfold enc0. rewrite EX. reflexivity. }
  set (es := enc0 pkt) in *. set (off := hdr_len pkt) in *.
  assert (LP0 : lenZ (P0 al pkt es) = if al then L else es) by (apply P0_len_x; [exact HLp|lia]).
  assert (Hrd : forall dd a n, facts_ok ((0, P0 al pkt es) :: fs0) dd -> (a + n <= zn es)%nat -> slice a n dd = slice a n pkt).
  { intros dd a n Hf Han. inversion Hf as [|? ? F0 _]; subst.
    rewrite (fact0_read _ _ _ _ F0) by (destruct al; unfold lenZ, zn in *; lia).
    unfold P0. destruct al; [reflexivity|]. apply slice_take. exact Han. }
  unfold process_xtn. cbv zeta. fold off.
  eapply t_bind; [apply t_rd_dst; lia|intros h]. apply t_pure; intros (dd & Hf & _ & ->).
  change (zn 4) with 4%nat. rewrite (Hrd dd _ _ Hf) by (unfold zn; lia).
  rewrite be16_slice4_0, be16_slice4.
  replace (zn off + 2)%nat with (zn (off + 2)) by (unfold zn; lia).
  unfold xtn_apply.
  set (profile := be16 pkt (zn off)). set (n := be16 pkt (zn (off + 2)) * 4).
  assert (EN : n = xtn_len pkt - 4).
  { subst n. unfold xtn_len. fold off. lia. }
  destruct (negb (profile =? xtn_hdr_one_byte_profile_c) && negb (Z.land profile 65520 =? xtn_hdr_two_byte_profile_c)) eqn:EPf.
  { apply t_exit. intros w Hw. split; [reflexivity|]. split; [reflexivity|]. exact (St_any _ _ _ _ _ _ _ _ Hw). }
  eapply t_bind; [apply t_rd_dst; lia|intros d]. apply t_pure; intros (dd2 & Hf2 & _ & ->).
  rewrite (Hrd dd2 _ _ Hf2) by (unfold zn; lia).
  set (d := slice (zn (off + 4)) (zn n) pkt).
  assert (LD : length d = zn n).
  { subst d. rewrite slice_length. unfold lenZ, zn in *. lia. }
  destruct (if profile =? xtn_hdr_one_byte_profile_c
            then xtn_one (Datatypes.S (length d)) (s_enc_xtn st) xcs d 0
            else xtn_two (Datatypes.S (length d)) (s_enc_xtn st) xcs d 0) as [d'|] eqn:ER.
  2:{ apply t_exit. intros w Hw. split; [reflexivity|]. split; [reflexivity|]. exact (St_any _ _ _ _ _ _ _ _ Hw). }
  assert (LE : length d' = length d).
  { destruct (profile =? xtn_hdr_one_byte_profile_c); [exact (xtn_one_length _ _ _ _ _ _ ER)|exact (xtn_two_length _ _ _ _ _ _ ER)]. }
  assert (LdZ : lenZ d' = n) by (unfold lenZ, zn in *; lia).
  assert (Haw : Forall (away (off + 4) (lenZ d')) fs0).
  { eapply Forall_impl; [|exact Haway]. intros f [A|A]; [left|right]; lia. }
  eapply t_post; [apply t_wr_in; [lia|destruct al; lia|destruct al; lia|exact Haw]|].
  intros ? w Hw. exists (splice (zn (off + 4)) d' pkt). split; [reflexivity|].
  replace (P0 al (splice (zn (off + 4)) d' pkt) es) with (splice (zn (off + 4)) d' (P0 al pkt es)); [exact Hw|].
  unfold P0. destruct al; [reflexivity|]. symmetry. apply take_splice_in. unfold lenZ, zn in *. lia.
Qed.

(* the RFC 6904 step of srtp_protect as a whole *)
Lemma xtn_step_opt ss st (xk : option ckey) iv fs0 :
  validate_rtp pkt L = st_ok -> L <= C -> Forall (away 0 L) fs0 ->
  tri (S ss (facts_ok ((0, P0 al pkt (enc0 pkt)) :: fs0)))
      (match xk with
       | Some xk => if hdr_x pkt =? 1 then process_xtn st pkt (cipher_start xk iv) else ret tt
       | None => ret tt
       end)
      (fun _ w => exists p1, wire_xtn (s_enc_xtn st) xk iv pkt = Some p1 /\
                             S ss (facts_ok ((0, P0 al p1 (enc0 pkt)) :: fs0)) w)
      (fun s w => wire_xtn (s_enc_xtn st) xk iv pkt = None /\ s = st_parse_err /\ S ss Dany w).
Proof.
  intros EV HLC Haway. unfold wire_xtn. destruct xk as [xk|].
  - destruct (hdr_x pkt =? 1) eqn:EX.
    + apply Z.eqb_eq in EX. apply xtn_step; assumption.
    + apply t_ret. intros w Hw. exists pkt. auto.
  - apply t_ret. intros w Hw. exists pkt. auto.
Qed.

(* the payload step: the destination holds (the header part of) p1, the source still pkt *)
Lemma payload_step_x ss (conf : bool) cs es p1 fs0 :
  lenZ p1 = L -> drop (zn es) p1 = drop (zn es) pkt ->
  0 <= es <= L -> L <= C -> Forall (away 0 L) fs0 ->
  tri (S ss (facts_ok ((0, P0 al p1 es) :: fs0)))
      (if conf then
         d <- rd_src es (L - es) ;;
         (let '(s, _, o) := cipher_encrypt cs d in
          if negb (s =? st_ok) then exit_with st_cipher_fail else wr_dst es o)
       else if al then ret tt
       else (d <- rd_src es (L - es) ;; wr_dst es d))
      (fun _ w => exists body, pay_body conf cs es p1 = inl body /\ lenZ body = L /\ S ss (facts_ok ((0, body) :: fs0)) w)
      (fun s w => pay_body conf cs es p1 = inr s /\ S ss Dany w).
Proof.
  intros HLq Hdrop Hes HLC Haway.
  pose proof (P0_len_x p1 es HLq Hes) as LP0. unfold P0 in *.
  assert (LT : lenZ (take (zn es) p1) = es) by (unfold lenZ, zn in *; rewrite take_length; lia).
  assert (LDr : lenZ (drop (zn es) p1) = L - es) by (unfold lenZ, zn in *; rewrite drop_length; lia).
  assert (Haw2 : forall n, 0 <= n -> es + n <= L -> Forall (away es n) fs0).
  { intros n Hn1 Hn2. eapply Forall_impl; [|exact Haway]. intros f [A|A]; [left|right]; lia. }
  assert (Hrd : forall dd, facts_ok ((0, if al then p1 else take (zn es) p1) :: fs0) dd ->
                           slice (zn es) (zn (L - es)) (if al then dd else src) = drop (zn es) p1).
  { intros dd Hf. pose proof (in_slice L al src d0 pkt Hpkt es (L - es)) as I2. destruct al eqn:EA.
    - inversion Hf as [|? ? F0 _]; subst. rewrite (fact0_read _ _ _ _ F0) by (unfold lenZ, zn in *; lia).
      apply slice_to_end. unfold lenZ, zn in *. lia.
    - rewrite I2 by lia. rewrite Hdrop. apply slice_to_end. unfold lenZ, zn in *. lia. }
  unfold pay_body. destruct conf.
  - eapply t_bind; [apply t_rd_src; lia|intros d]. apply t_pure; intros (dd & Hf & _ & ->). rewrite (Hrd dd Hf).
    destruct (cipher_encrypt cs (drop (zn es) p1)) as [[s c2] o] eqn:EE.
    destruct (s =? st_ok) eqn:ES; cbn [negb].
    + pose proof (cipher_encrypt_ok_length _ _ _ _ _ EE ES) as Lo.
      assert (Lo' : lenZ o = L - es) by (unfold lenZ in *; lia).
      destruct al eqn:EA.
      * eapply t_post; [apply t_wr_in; [lia|lia|lia|rewrite Lo'; apply Haw2; lia]|].
        intros ? w Hw. exists (take (zn es) p1 ++ o). split; [reflexivity|]. split; [rewrite lenZ_app; lia|].
        rewrite splice_tail in Hw by (unfold lenZ, zn in *; lia). exact Hw.
      * replace (wr_dst es o) with (wr_dst (lenZ (take (zn es) p1)) o) by (rewrite LT; reflexivity).
        eapply t_post; [apply t_wr_append; [exact HD|lia|rewrite LT, Lo'; apply Haw2; lia]|].
        intros ? w Hw. exists (take (zn es) p1 ++ o). split; [reflexivity|]. split; [rewrite lenZ_app; lia|exact Hw].
    + apply t_exit. intros w Hw. split; [reflexivity|]. exact (St_any _ _ _ _ _ _ _ _ Hw).
  - destruct al eqn:EA.
    + apply t_ret. intros w Hw. exists p1. split; [reflexivity|]. split; [exact HLq|exact Hw].
    + eapply t_bind; [apply t_rd_src; lia|intros d]. apply t_pure; intros (dd & Hf & _ & ->).
      rewrite (Hrd dd Hf).
      replace (wr_dst es (drop (zn es) p1)) with (wr_dst (lenZ (take (zn es) p1)) (drop (zn es) p1)) by (rewrite LT; reflexivity).
      eapply t_post; [apply t_wr_append; [exact HD|lia|rewrite LT, LDr; apply Haw2; lia]|].
      intros ? w Hw. exists p1. split; [reflexivity|]. split; [exact HLq|].
      rewrite take_drop_id in Hw. exact Hw.
Qed.

End XREF.

(* ===================================================================== *)
(* 3. srtp_protect, streams without cryptex                                *)
(* ===================================================================== *)
Section RTP_REF_X.
Variables (L C : Z) (al : bool) (src d0 pkt : bytes).
Hypothesis HL : 0 <= L < 9223372036854775808.
Hypothesis HC : 0 <= C < 9223372036854775808.
Hypothesis HD : C <= lenZ d0.
Hypothesis Hpkt : take (zn L) (if al then d0 else src) = pkt.
Hypothesis HLp : lenZ pkt = L.

Notation S := (St L C al src d0).

Lemma Hpkt_bx : take (zn L) (cur_src (b_init L C al src d0)) = pkt.
Proof. exact Hpkt. Qed.
Ltac norm_b :=
  change (b_len (b_init L C al src d0)) with L;
  change (b_cap (b_init L C al src d0)) with C;
  change (b_alias (b_init L C al src d0)) with al;
  rewrite ?Hpkt_bx.
Ltac away_tac := repeat (apply Forall_cons || apply Forall_nil); unfold away; cbn [fst snd]; lia.

Variable ss0 : session.
Variable st0 : stream.
Hypothesis Hget : list_get (ss_list ss0) (hdr_ssrc pkt) = Some st0.
Hypothesis Hwf : stream_wf st0.
(* this section: no cryptex; a header-extension cipher is allowed *)
Hypothesis Hcx : s_cryptex st0 = false.

Notation ProtQ := (ProtQ C src pkt ss0).
Notation ProtE := (ProtE C src pkt ss0).

Lemma prot_exit_x ss D i s w : S ss D w -> protect_fun ss0 i C pkt = (ss, inr s) -> ProtE i s w.
Proof. apply prot_exit. Qed.

Lemma protect_tri_x i : tri (S ss0 (eq d0)) (protect i) (ProtQ i) (ProtE i).
Proof.
  pose proof (eq_refl (protect_fun ss0 i C pkt)) as SPEC. unfold protect_fun at 2 in SPEC.
  cbv zeta in SPEC. rewrite HLp in SPEC.
  unfold protect.
  eapply t_bind; [apply t_get_b0|intros b]. apply t_pure; intros ->.
  cbv beta zeta. norm_b.
  change octets_in_rtp_header_c with 12. change octets_in_rtp_xtn_hdr_c with 4.
  unfold check_st. destruct (validate_rtp pkt L =? st_ok) eqn:EV; cbn [negb] in SPEC.
  2:{ apply t_bind_exit. intros w Hw. exact (prot_exit_x _ _ _ _ _ Hw SPEC). }
  apply t_bind_ret. apply Z.eqb_eq in EV. pose proof (enc0_bounds _ _ EV) as EB.
  rewrite Hget in SPEC. cbv beta iota in SPEC.
  eapply t_bind; [eapply t_lookup_existing; exact Hget|intros r]. apply t_pure; intros ->.
  eapply t_bind; [eapply t_check_direction; exact Hget|intros ?].
  eapply t_bind; [apply t_get_stream_list; apply dir_session_get; exact Hget|intros st]. apply t_pure; intros Est.
  rewrite <- Est in SPEC.
  set (ss1 := dir_session ss0 (hdr_ssrc pkt) st0 dir_srtp_sender_c) in *.
  pose proof (dir_stream_cfg st0 dir_srtp_sender_c) as CF. rewrite <- Est in CF.
  assert (Wst : stream_wf st) by exact (stream_wf_cfg _ _ CF Hwf).
  destruct CF as (CK & _ & _ & CX). rewrite Hcx in CX.
  rewrite keys_by_index_eq. destruct (sender_key_st st i) as [[ki k]|e] eqn:EK.
  2:{ apply t_bind_exit. intros w Hw. exact (prot_exit_x _ _ _ _ _ Hw SPEC). }
  apply t_bind_ret. cbv beta iota.
  pose proof (sender_key_st_In _ _ _ _ EK) as Hk.
  pose proof (stream_wf_key _ _ Wst Hk) as (MK & TA & _).
  destruct Wst as (M & U & _). rewrite max_mki_value in M.
  pose proof (akey_prefix_le _ TA) as PL. pose proof TA as [T KP]. rewrite max_tag_value in T.
  (* key usage *)
  eapply t_bind2; [eapply t_charge_key; apply dir_session_get; exact Hget| |intros ?].
  { intros s w (ss' & EC & Hw). rewrite <- Est in EC. rewrite EC in SPEC. exact (prot_exit_x _ _ _ _ _ Hw SPEC). }
  apply t_ex; intros ss2. apply t_pure; intros EC. apply t_pure; intros Hg2.
  rewrite <- Est in EC, Hg2. rewrite EC in SPEC.
  destruct (C <? L + s_mki_size st + ak_tag (k_rtp_a k)) eqn:E1.
  { apply t_bind_exit. intros w Hw. exact (prot_exit_x _ _ _ _ _ Hw SPEC). }
  apply t_bind_ret. pose proof E1 as E1'. apply Z.ltb_ge in E1'.
  unfold rtp_conf in SPEC at 1. rewrite CX in *. cbn [andb] in SPEC |- *. apply t_bind_ret.
  fold (enc0 pkt). set (es := enc0 pkt) in *.
  destruct (L <? es) eqn:E2; [apply Z.ltb_lt in E2; lia|]. apply t_bind_ret.
  (* header *)
  eapply t_bind; [apply (header_copy L C al src d0 pkt HD Hpkt HLp); lia|intros ?].
  (* MKI *)
  set (mki := if s_use_mki st then k_mki k else []).
  assert (LM : lenZ mki = s_mki_size st).
  { subst mki. destruct (s_use_mki st); [exact MK|]. rewrite (U eq_refl). reflexivity. }
  assert (LP : lenZ (P0 al pkt es) <= L) by (rewrite (P0_len_x L al src d0 pkt Hpkt pkt es HLp) by lia; destruct al; lia).
  apply t_bind with (R := fun _ => S ss2 (facts_ok [(L, mki); (0, P0 al pkt es)])).
  { subst mki. destruct (s_use_mki st) eqn:EU.
    - apply t_wr_facts; [exact HD|lia|lia|away_tac].
    - apply t_ret. intros w Hw. eapply St_weaken; [|exact Hw]. intros dd _ Hf. apply facts_nil_fact; [lia|exact Hf]. }
  intros ?.
  (* zeroed tag without authentication *)
  change (negb (Z.land (s_rtp_serv st) sec_serv_auth_c =? 0)) with (rtp_auth st).
  set (Z0 := if rtp_auth st then [] else zeros (zn (ak_tag (k_rtp_a k)))).
  assert (LZ0 : lenZ Z0 = if rtp_auth st then 0 else ak_tag (k_rtp_a k)).
  { subst Z0. destruct (rtp_auth st); [reflexivity|apply lenZ_zeros; lia]. }
  apply t_bind with (R := fun _ => S ss2 (facts_ok [(L + s_mki_size st, Z0); (L, mki); (0, P0 al pkt es)])).
  { subst Z0. destruct (rtp_auth st).
    - apply t_ret. intros w Hw. eapply St_weaken; [|exact Hw]. intros dd _ Hf. apply facts_nil_fact; [lia|exact Hf].
    - apply t_wr_facts; [exact HD|lia|lia|away_tac]. }
  intros ?.
  (* index *)
  eapply t_bind; [apply t_get_stream_list; exact Hg2|intros st2]. apply t_pure; intros ->.
  set (st2 := charged_stream st ki) in *.
  unfold index_step in SPEC. destruct (est_index st2 (hdr_seq pkt)) as [[est_st est] delta].
  destruct (negb (est_st =? st_ok) && negb (est_st =? st_pkt_idx_adv)).
  { apply t_bind_exit. intros w Hw. exact (prot_exit_x _ _ _ _ _ Hw SPEC). }
  apply t_bind_ret.
  apply t_bind with (R := fun _ w =>
    exists st3, (if est_st =? st_pkt_idx_adv then inl (est, commit_advance st2 est)
                 else if negb (rdbx_check (s_rdbx st2) delta =? st_ok) &&
                         (negb (rdbx_check (s_rdbx st2) delta =? st_replay_fail) || negb (s_allow_repeat st2))
                      then inr (rdbx_check (s_rdbx st2) delta)
                      else inl (est, set_pending (set_rdbx st2 (rdbx_add (s_rdbx st2) delta)) 0)) = inl (est, st3) /\
                S (sess_put ss2 (hdr_ssrc pkt) st3) (facts_ok [(L + s_mki_size st, Z0); (L, mki); (0, P0 al pkt es)]) w).
  { destruct (est_st =? st_pkt_idx_adv).
    - eapply t_post; [apply t_put_stream_list|]. intros ? w Hw. eexists. split; [reflexivity|exact Hw].
    - destruct (negb (rdbx_check (s_rdbx st2) delta =? st_ok) &&
                (negb (rdbx_check (s_rdbx st2) delta =? st_replay_fail) || negb (s_allow_repeat st2))).
      + apply t_bind_exit. intros w Hw. exact (prot_exit_x _ _ _ _ _ Hw SPEC).
      + apply t_bind_ret. eapply t_post; [apply t_put_stream_list|]. intros ? w Hw. eexists. split; [reflexivity|exact Hw]. }
  intros ?. apply t_ex; intros st3. apply t_pure; intros E3. cbv zeta in SPEC. rewrite E3 in SPEC.
  set (ss3 := sess_put ss2 (hdr_ssrc pkt) st3) in *.
  eapply t_bind; [apply t_log_encrypt_iv|intros ?].
  eapply t_bind; [apply t_log_xtn|intros ?].
  (* the wire function, unfolded as far as the checks passed so far allow *)
  unfold rtp_wire_r in SPEC. rewrite HLp in SPEC.
  replace (validate_rtp pkt L =? st_ok) with true in SPEC by (symmetry; apply Z.eqb_eq; exact EV).
  rewrite CX in SPEC. cbn [negb andb] in SPEC.
  set (iv := rtp_iv (ck_alg (k_rtp_c k)) (hdr_ssrc pkt) est) in *.
  (* keystream prefix *)
  unfold wire_prefix in SPEC.
  apply t_bind with (R := fun cs1 w =>
     exists pre, (if rtp_auth st && negb (ak_prefix (k_rtp_a k) =? 0)
                  then let '(s, cs', ks) := cipher_output (cipher_start (k_rtp_c k) iv) (ak_prefix (k_rtp_a k)) in
                       if negb (s =? st_ok) then None else Some (cs', ks)
                  else Some (cipher_start (k_rtp_c k) iv, [])) = Some (cs1, pre) /\
                 lenZ pre = (if rtp_auth st then ak_prefix (k_rtp_a k) else 0) /\
                 S ss3 (facts_ok [(L + s_mki_size st, pre); (L + s_mki_size st, Z0); (L, mki); (0, P0 al pkt es)]) w).
  { destruct (rtp_auth st && negb (ak_prefix (k_rtp_a k) =? 0)) eqn:EPX.
    - apply andb_true_iff in EPX. destruct EPX as [EA _]. rewrite EA in *.
      destruct (cipher_output (cipher_start (k_rtp_c k) iv) (ak_prefix (k_rtp_a k))) as [[ps cs'] ks] eqn:EP.
      destruct (ps =? st_ok) eqn:EPS; cbn [negb] in *.
      2:{ apply t_exit. intros w Hw. exact (prot_exit_x _ _ _ _ _ Hw SPEC). }
      assert (LK : lenZ ks = ak_prefix (k_rtp_a k)).
      { pose proof (cipher_output_ok_length _ _ _ _ _ EP EPS) as H. unfold lenZ, zn in *. lia. }
      eapply t_bind; [apply t_wr_facts; [exact HD|lia|lia|away_tac]|intros ?].
      apply t_ret. intros w Hw. exists ks. auto.
    - apply t_ret. intros w Hw. exists []. split; [reflexivity|]. split.
      + destruct (rtp_auth st); [|reflexivity]. cbn [andb] in EPX. apply negb_false_iff, Z.eqb_eq in EPX. rewrite EPX. reflexivity.
      + eapply St_weaken; [|exact Hw]. intros dd _ Hf. apply facts_nil_fact; [lia|exact Hf]. }
  intros cs1. apply t_ex; intros pre. apply t_pure; intros EPRE. apply t_pure; intros LPRE.
  rewrite EPRE in SPEC.
  (* RFC 6904: the walk over the extension block of the destination *)
  eapply t_bind2; [eapply t_weaken; [|apply (xtn_step_opt L C al src d0 pkt HD Hpkt HLp ss3 st2 (k_xtn_c k) iv
                            [(L + s_mki_size st, pre); (L + s_mki_size st, Z0); (L, mki)]); [exact EV|lia|away_tac]]| |intros ?].
  { intros dd _ Hf. apply (facts_sub _ _ _ Hf). intros f Hin; cbn in *; tauto. }
  { intros s w (EXN & -> & Hw). unfold st2 in EXN. rewrite charged_xtn in EXN. rewrite EXN in SPEC. exact (prot_exit_x _ _ _ _ _ Hw SPEC). }
  apply t_ex; intros p1. apply t_pure; intros EX1. unfold st2 in EX1. rewrite charged_xtn in EX1. rewrite EX1 in SPEC.
  assert (SH : same_shape pkt p1).
  { apply (wire_xtn_shape _ _ _ _ _ ltac:(rewrite HLp; exact EV) EX1). }
  pose proof (same_shape_enc0 _ _ SH) as EE0. destruct SH as (SL & _ & _ & _ & SD). rewrite HLp in SL.
  rewrite (wire_crypt_plain st _ _ CX) in SPEC. rewrite EE0 in SPEC. fold es in SPEC, SD.
  apply t_bind_ret.
  (* payload *)
  replace (negb (Z.land (s_rtp_serv st2) sec_serv_conf_c =? 0)) with (rtp_conf st)
    by (unfold rtp_conf, st2; rewrite charged_serv; reflexivity).
  eapply t_bind2; [apply (payload_step_x L C al src d0 pkt HL HD Hpkt HLp ss3 (rtp_conf st) cs1 es p1
                            [(L + s_mki_size st, pre); (L + s_mki_size st, Z0); (L, mki)]); [exact SL|exact SD|lia|lia|away_tac]| |intros ?].
  { intros s w (EBD & Hw). rewrite EBD in SPEC. exact (prot_exit_x _ _ _ _ _ Hw SPEC). }
  apply t_ex; intros body. apply t_pure; intros EBD. apply t_pure; intros LB.
  rewrite EBD in SPEC. cbv beta iota in SPEC. apply t_bind_ret.
  (* tag *)
  unfold wire_tag in SPEC. cbv zeta in SPEC. fold mki in SPEC.
  set (roc := take 4 (be64 (est * 65536))) in *.
  apply t_bind with (R := fun _ w =>
    exists tag, (if rtp_auth st then auth_compute (k_rtp_a k) (body ++ roc) ++ drop (length (auth_compute (k_rtp_a k) (body ++ roc))) pre
                 else zeros (zn (ak_tag (k_rtp_a k)))) = tag /\ lenZ tag = ak_tag (k_rtp_a k) /\
                S ss3 (facts_ok [(L + s_mki_size st, tag); (L, mki); (0, body)]) w).
  { subst Z0. destruct (rtp_auth st) eqn:EA.
    - eapply t_bind; [apply t_rd_dst; lia|intros m]. apply t_pure; intros (dd & Hf & Hdl & ->).
      assert (Hm : slice (zn 0) (zn L) dd = body).
      { change (zn 0) with O. rewrite <- LB, zn_len. apply (fact_get _ _ 0 _ Hf). cbn; tauto. }
      rewrite Hm. set (c := auth_compute (k_rtp_a k) (body ++ roc)) in *.
      assert (KT : (lenZ c = ak_tag (k_rtp_a k) /\ ak_prefix (k_rtp_a k) = 0) \/
                   (lenZ c = 0 /\ ak_prefix (k_rtp_a k) = ak_tag (k_rtp_a k))).
      { subst c. rewrite auth_compute_length by lia. destruct (ak_kind (k_rtp_a k) =? SRTP_HMAC_SHA1_c); auto. }
      eapply t_post; [apply t_wr_facts; [exact HD|lia|lia|destruct KT as [[K1 K2]|[K1 K2]]; away_tac]|].
      intros ? w Hw. eexists. split; [reflexivity|].
      destruct KT as [[K1 K2]|[K1 K2]].
      + assert (pre = []) as -> by (apply length0_nil; unfold lenZ in *; lia).
        replace (drop (length c) []) with (@nil N) by (destruct (length c); reflexivity). rewrite app_nil_r.
        split; [exact K1|]. eapply St_weaken; [|exact Hw]. intros d1 _ Hf1. apply (facts_sub _ _ _ Hf1).
        intros f Hin; cbn in *; tauto.
      + assert (c = []) as Ec by (apply length0_nil; unfold lenZ in *; lia).
        rewrite Ec. cbn [length drop app]. split; [lia|]. eapply St_weaken; [|exact Hw]. intros d1 _ Hf1. apply (facts_sub _ _ _ Hf1).
        intros f Hin; cbn in *; tauto.
    - apply t_ret. intros w Hw. eexists. split; [reflexivity|]. split; [apply lenZ_zeros; lia|].
      eapply St_weaken; [|exact Hw]. intros d1 _ Hf1. apply (facts_sub _ _ _ Hf1). intros f Hin; cbn in *; tauto. }
  intros ?. apply t_ex; intros tag. apply t_pure; intros ETAG. apply t_pure; intros LTAG.
  apply t_ret. intros w Hw. destruct Hw as (h0 & h1 & h2 & h3 & h4 & h5 & h6 & h7).
  exists (body ++ mki ++ tag). rewrite h0. split; [rewrite <- ETAG; exact SPEC|].
  assert (LW : lenZ (body ++ mki ++ tag) = L + s_mki_size st + ak_tag (k_rtp_a k)) by (rewrite !lenZ_app; lia).
  unfold st2. rewrite charged_mki.
  replace (es + (L - es) + ak_tag (k_rtp_a k) + s_mki_size st) with (lenZ (body ++ mki ++ tag)) by lia.
  rewrite u64_small by lia. split; [reflexivity|]. split; [|auto].
  rewrite zn_len, <- slice_0.
  replace (body ++ mki ++ tag) with (concat [body; mki; tag]) by (cbn [concat]; rewrite app_nil_r; reflexivity).
  apply (chain_slice _ 0); [lia|]. cbn [chain]. rewrite LB, LM.
  repeat split; apply (fact_get _ _ _ _ h7); cbn; tauto.
Qed.
End RTP_REF_X.

(* ===================================================================== *)
(* 4. the theorems on worlds                                              *)
(* ===================================================================== *)
(* REFINEMENT: srtp_protect computes protect_fun, whatever the alias mode and the prefill;
   streams without cryptex, with or without a header-extension cipher *)
Theorem protect_refines_xtn i w st0 :
  call_ok w ->
  list_get (ss_list (w_s w)) (hdr_ssrc (in_pkt w)) = Some st0 -> stream_wf st0 -> s_cryptex st0 = false ->
  match protect i w with
  | (w', inl l) =>
      exists wire, protect_fun (w_s w) i (b_cap (w_b w)) (in_pkt w) = (w_s w', inl wire) /\
                   l = lenZ wire /\ take (zn l) (b_dst (w_b w')) = wire /\
                   b_src (w_b w') = b_src (w_b w) /\ b_oob (w_b w') = false
  | (w', inr s) =>
      protect_fun (w_s w) i (b_cap (w_b w)) (in_pkt w) = (w_s w', inr s) /\
      b_src (w_b w') = b_src (w_b w) /\ b_oob (w_b w') = false
  end.
Proof.
  intros (HO & HL & HC & HD & HS) Hget Hwf Hcx.
  assert (HLp : lenZ (in_pkt w) = b_len (w_b w)).
  { unfold in_pkt, lenZ, zn, size_ok in *. rewrite take_length. lia. }
  pose proof (protect_tri_x (b_len (w_b w)) (b_cap (w_b w)) (b_alias (w_b w)) (b_src (w_b w)) (b_dst (w_b w))
                (in_pkt w) HL HC HD eq_refl HLp (w_s w) st0 Hget Hwf Hcx i w (St_init w HO)) as T.
  destruct (protect i w) as [w' [l|s]]; exact T.
Qed.
Print Assumptions protect_refines_xtn.

(* C12 (SRTP protect): the same packet protected in place and out of place (whatever the
   destination block held): same status, same length, same output octets, same final
   session; the out-of-place call leaves its source alone. *)
Theorem protect_alias_independent_xtn i wa wo st0 :
  call_ok wa -> call_ok wo ->
  b_alias (w_b wa) = true -> b_alias (w_b wo) = false ->
  w_s wa = w_s wo -> b_cap (w_b wa) = b_cap (w_b wo) -> in_pkt wa = in_pkt wo ->
  list_get (ss_list (w_s wa)) (hdr_ssrc (in_pkt wa)) = Some st0 -> stream_wf st0 -> s_cryptex st0 = false ->
  w_s (fst (protect i wa)) = w_s (fst (protect i wo)) /\
  b_src (w_b (fst (protect i wo))) = b_src (w_b wo) /\
  match snd (protect i wa), snd (protect i wo) with
  | inl la, inl lo =>
      la = lo /\ take (zn la) (b_dst (w_b (fst (protect i wa)))) = take (zn lo) (b_dst (w_b (fst (protect i wo))))
  | inr sa, inr so => sa = so
  | _, _ => False
  end.
Proof.
  intros Ha Ho _ _ ES EC EP Hget Hwf Hpl.
  pose proof (protect_refines_xtn i wa st0 Ha Hget Hwf Hpl) as Ta.
  rewrite ES, EP in Hget.
  pose proof (protect_refines_xtn i wo st0 Ho Hget Hwf Hpl) as To.
  rewrite ES, EC, EP in Ta.
  destruct (protect i wa) as [wa' [la|sa]], (protect i wo) as [wo' [lo|so]]; cbn [fst snd].
  - destruct Ta as (wa_ & Fa & -> & Da & _), To as (wo_ & Fo & -> & Do & So & _).
    rewrite Fa in Fo. injection Fo as E1 E2. subst wo_. rewrite Da, Do. auto.
  - destruct Ta as (wa_ & Fa & _), To as (Fo & So & _). rewrite Fa in Fo. discriminate.
  - destruct Ta as (Fa & _), To as (wo_ & Fo & _). rewrite Fa in Fo. discriminate.
  - destruct Ta as (Fa & _), To as (Fo & So & _). rewrite Fa in Fo. injection Fo as E1 E2. auto.
Qed.
Print Assumptions protect_alias_independent_xtn.

(* what is on the wire after a successful call is rtp_wire of the stream (after the
   direction update), the key selected by the MKI index and the estimated packet index *)
Corollary protect_emits_rtp_wire_xtn i w st0 w' l :
  call_ok w ->
  list_get (ss_list (w_s w)) (hdr_ssrc (in_pkt w)) = Some st0 -> stream_wf st0 -> s_cryptex st0 = false ->
  protect i w = (w', inl l) ->
  exists ki k est st3 wire,
    sender_key_st (dir_stream st0 dir_srtp_sender_c) i = inl (ki, k) /\
    index_step (charged_stream (dir_stream st0 dir_srtp_sender_c) ki) (hdr_seq (in_pkt w)) = inl (est, st3) /\
    rtp_wire (dir_stream st0 dir_srtp_sender_c) k est (in_pkt w) = Some wire /\
    l = lenZ wire /\ take (zn l) (b_dst (w_b w')) = wire.
Proof.
  intros Hc Hget Hwf Hpl E. pose proof (protect_refines_xtn i w st0 Hc Hget Hwf Hpl) as T. rewrite E in T.
  destruct T as (wire & F & Hl & Hd & _).
  destruct (protect_fun_wire _ _ _ _ _ _ F) as (st0' & ki & k & est & st3 & G & EK & EI & EW).
  rewrite Hget in G. injection G as <-. exists ki, k, est, st3, wire. auto.
Qed.
Print Assumptions protect_emits_rtp_wire_xtn.

(* the plain class is an instance *)
Corollary protect_refines_xtn_covers_plain st0 : plain_stream st0 -> s_cryptex st0 = false.
Proof. intros [H _]. exact H. Qed.
