(* Properties_C07.v — SRTCP replay protection and index handling (C07).
   Statements only; proofs in RdbProofs.v.  The receiver step rdb_rx is
   srtp_unprotect_rtcp's order of effects for an authentic packet: rdb_check,
   (authentication), rdb_add_index.  The tie of Rdb.v to crypto/replay/rdb.c is
   the correspondence run (leaf ops rdb_* and API histories). *)
From Coq Require Import NArith ZArith List Bool.
From Srtp Require Import Util Constants Rdb Seen RdbProofs.
Import ListNotations.
Local Open Scope Z_scope.

Theorem rtcp_window_is_128 : rdb_bits_in_bitmask_c = 128 /\ rtcp_ceiling_c = 2 ^ 31 - 1.
Proof. exact (conj bits_value ceiling_value). Qed.
Print Assumptions rtcp_window_is_128.

(* any delivery order, any length: no index is accepted twice *)
Theorem rtcp_at_most_once : forall l,
  Forall (fun i => 0 <= i < 2 ^ 31) l ->
  let acc := snd (rdb_run rdb_init l) in
  forall n m i, (m < n)%nat -> nth_error l n = Some i -> nth_error l m = Some i ->
    ~ (nth_error acc n = Some true /\ nth_error acc m = Some true).
Proof. exact rdb_at_most_once. Qed.
Print Assumptions rtcp_at_most_once.

(* every reachable state represents exactly the accepted set (bit j <-> window_start+j accepted,
   nothing accepted beyond the window, top of the window = highest accepted index once it moved) *)
Theorem rtcp_reachable_invariant : forall l,
  Forall (fun i => 0 <= i < 2 ^ 31) l ->
  let '(r, acc) := rdb_run rdb_init l in Inv r (seen_of l acc).
Proof. exact rdb_reachable_inv. Qed.
Print Assumptions rtcp_reachable_invariant.

(* verdict on the next authentic packet, in every such state: copies are rejected, indices more
   than 127 behind the highest accepted one are rejected, every unseen index not more than 127
   behind it -- including any forward jump up to 2^31-1 -- is accepted *)
Theorem rtcp_next_verdict : forall r seen i,
  Inv r seen -> 0 <= i < 2 ^ 31 ->
  (seen i -> snd (rdb_rx r i) = false) /\
  (0 < wstart r -> forall hi, seen hi -> (forall k, seen k -> k <= hi) -> i + 127 < hi -> snd (rdb_rx r i) = false) /\
  (~ seen i -> (forall hi, seen hi -> hi - 127 <= i) -> snd (rdb_rx r i) = true).
Proof. exact rdb_next_verdict. Qed.
Print Assumptions rtcp_next_verdict.

(* a rejected packet leaves the window untouched; an accepted one adds exactly its index *)
Theorem rtcp_step : forall r seen i,
  Inv r seen -> 0 <= i < 2 ^ 31 ->
  let '(r', acc) := rdb_rx r i in
  (acc = true -> ~ seen i /\ Inv r' (add_seen seen i)) /\ (acc = false -> r' = r).
Proof. exact rx_step. Qed.
Print Assumptions rtcp_step.

(* sender side: the SRTCP index is incremented by one per packet and stops at 2^31-1 *)
Theorem rtcp_sender_counter : forall r,
  0 <= wstart r < 2 ^ 31 ->
  let '(s, r') := rdb_incr r in
  (wstart r < 2 ^ 31 - 1 -> s = st_ok /\ wstart r' = wstart r + 1) /\
  (wstart r = 2 ^ 31 - 1 -> s = st_key_expired /\ r' = r).
Proof. exact incr_spec. Qed.
Print Assumptions rtcp_sender_counter.

(* non-vacuity: a concrete reordered history with a duplicate, an old packet and a far jump *)
Example rtcp_history_example :
  snd (rdb_run rdb_init [5; 3; 5; 200; 72; 73; 2147483647; 2147483647; 2147483520; 2147483519])
  = [true; true; false; true; false; true; true; false; true; false].
Proof. vm_compute. reflexivity. Qed.
