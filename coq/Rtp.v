(* Rtp.v — model of srtp_protect / srtp_unprotect (srtp/srtp.c), non-AEAD paths:
   header validation, stream lookup / cloning, direction, MKI, key-usage budget,
   capacity checks, cryptex buffer shuffles, RFC 6904 header-extension
   encryption, index estimation, replay window, IV formation, keystream prefix,
   encryption, authentication tag.  The order of effects follows the C code
   statement by statement (DESIGN.md appendix A).  Model only. *)
From Coq Require Import NArith ZArith List Bool.
From Srtp Require Import Util Constants KeyLimit Rdb Rdbx Icm World Stream.
Import ListNotations.
Local Open Scope Z_scope.

(* ---- RTP header fields (from a snapshot of the source bytes) ---- *)
Definition hdr_cc (p : bytes) : Z := Z.of_N (nthb p 0) mod 16.
Definition hdr_x (p : bytes) : Z := (Z.of_N (nthb p 0) / 16) mod 2.
Definition hdr_seq (p : bytes) : Z := be16 p 2.
Definition hdr_ssrc (p : bytes) : Z := be32 p 8.
Definition hdr_len (p : bytes) : Z := octets_in_rtp_header_c + 4 * hdr_cc p.
Definition xtn_profile (p : bytes) : Z := be16 p (zn (hdr_len p)).
Definition xtn_len (p : bytes) : Z := (be16 p (zn (hdr_len p + 2)) + 1) * 4.

(* srtp_validate_rtp_header *)
Definition validate_rtp (p : bytes) (len : Z) : Z :=
  if len <? octets_in_rtp_header_c then st_bad_param
  else if len <? hdr_len p then st_bad_param
  else if hdr_x p =? 1 then
    if len <? hdr_len p + octets_in_rtp_xtn_hdr_c then st_bad_param
    else if len <? hdr_len p + xtn_len p then st_bad_param
    else st_ok
  else st_ok.

(* ---- key usage budget of the stream's key i (a clone uses the template's limits) ---- *)
Definition limit_update (r : sref) (i : Z) : M kevent :=
  st <- get_stream r ;;
  if s_clone st then
    t <- get_stream RTemplate ;;
    match nth_error (s_limits t) (zn i) with
    | Some k => let '(k', e) := kl_update k in
                put_stream RTemplate (set_limits t (replace_nth (zn i) (s_limits t) k')) ;;; ret e
    | None => exit_with st_fail
    end
  else
    match nth_error (s_limits st) (zn i) with
    | Some k => let '(k', e) := kl_update k in
                put_stream r (set_limits st (replace_nth (zn i) (s_limits st) k')) ;;; ret e
    | None => exit_with st_fail
    end.

(* the switch on srtp_key_limit_update(...) at every use site *)
Definition charge_key (r : sref) (i : Z) : M unit :=
  e <- limit_update r i ;;
  st <- get_stream r ;;
  match e with
  | EvNormal => ret tt
  | EvSoft => emit event_key_soft_limit_c (s_ssrc st)
  | EvHard => emit event_key_hard_limit_c (s_ssrc st) ;;; exit_with st_key_expired
  end.

(* direction check of the four packet functions: want = 1 sender, 2 receiver *)
Definition check_direction (r : sref) (want : Z) : M unit :=
  st <- get_stream r ;;
  if s_dir st =? want then ret tt
  else if s_dir st =? dir_unknown_c then put_stream r (set_dir st want)
  else emit event_ssrc_collision_c (s_ssrc st).

(* sender-side lookup: existing stream, else clone of the template inserted at once *)
Definition lookup_or_clone (ssrc : Z) (set_sender : bool) : M sref :=
  ss <- get_s ;;
  match list_get (ss_list ss) ssrc with
  | Some _ => ret (RList ssrc)
  | None =>
    match ss_template ss with
    | Some t =>
      ns <- stream_clone t ssrc ;;
      insert_or_dealloc ns ;;;
      (if set_sender then put_stream (RList ssrc) (set_dir ns dir_srtp_sender_c) else ret tt) ;;;
      ret (RList ssrc)
    | None => exit_with st_no_ctx
    end
  end.

(* receiver side after authentication: a provisional (template) stream becomes a real one *)
Definition materialize (r : sref) (ssrc : Z) : M sref :=
  match r with
  | RList _ => ret r
  | RTemplate =>
    t <- get_stream RTemplate ;;
    ns <- stream_clone t ssrc ;;
    insert_or_dealloc ns ;;;
    ret (RList ssrc)
  end.

(* srtp_get_session_keys (sender: explicit mki index) *)
Definition keys_by_index (st : stream) (mki_index : Z) : M (Z * skeys) :=
  let i := if s_use_mki st then mki_index else 0 in
  if s_use_mki st && ((mki_index <? 0) || (lenZ (s_keys st) <=? mki_index)) then exit_with st_bad_mki
  else match nth_error (s_keys st) (zn i) with
       | Some k => ret (i, k)
       | None => exit_with st_fail
       end.

(* srtp_get_session_keys_for_packet (receiver: by the MKI bytes in front of the tag) *)
Fixpoint find_mki (ks : list skeys) (m : bytes) (i : Z) : option (Z * skeys) :=
  match ks with
  | [] => None
  | k :: t => if beqb (k_mki k) m then Some (i, k) else find_mki t m (i + 1)
  end.
Definition keys_by_packet (st : stream) (len tag_len : Z) : M (Z * skeys) :=
  if negb (s_use_mki st) then
    match s_keys st with k :: _ => ret (0, k) | [] => exit_with st_fail end
  else if len <? tag_len then exit_with st_bad_mki
  else if len - tag_len <? s_mki_size st then exit_with st_bad_mki
  else
    m <- rd_src (len - tag_len - s_mki_size st) (s_mki_size st) ;;
    match find_mki (s_keys st) m 0 with
    | Some r => ret r
    | None => exit_with st_bad_mki
    end.

(* ---- index estimation for a stream (srtp_get_est_pkt_index) ---- *)
Definition est_index (st : stream) (seq : Z) : Z * Z * Z :=
  if negb (s_pending_roc st =? 0) then estimate_pending (s_rdbx st) (s_pending_roc st) seq
  else let '(e, d) := estimate (s_rdbx st) seq in (st_ok, e, d).

(* the "advance" commit: srtp_rdbx_set_roc_seq, pending_roc := 0, srtp_rdbx_add_index(0) *)
Definition commit_advance (st : stream) (est : Z) : stream :=
  let '(_, rx) := set_roc_seq (s_rdbx st) (u32 (est / 65536)) (est mod 65536) in
  set_pending (set_rdbx st (rdbx_add rx 0)) 0.

(* ---- IVs ---- *)
Definition be64 (x : Z) : bytes := be_bytes 8 (Z.to_N (u64 x)).
Definition rtp_iv (alg ssrc est : Z) : bytes :=
  if is_icm_alg alg then zeros 4 ++ be_bytes 4 (Z.to_N ssrc) ++ be64 (est * 65536)
  else zeros 8 ++ be64 est.
(* what the driver's cipher wrapper records as the identity of a key: its first four octets *)
Definition key_fp (k : ckey) : bytes := take 4 (hd [] (ck_rks k) ++ zeros 4).
Definition log_encrypt_iv (k : ckey) (iv : bytes) : M unit :=
  if is_icm_alg (ck_alg k) then log_iv (iv) else ret tt.

(* ---- RFC 6904 header-extension encryption (srtp_process_header_encryption) ---- *)
Fixpoint skip_pad (fuel : nat) (d : bytes) (p : Z) : Z :=
  match fuel with
  | O => p
  | S f => if (p <? lenZ d) && (nthb d (zn p) =? 0)%N then skip_pad f d (p + 1) else p
  end.
Definition in_ids (ids : bytes) (id : N) : bool := existsb (N.eqb id) ids.

(* one-byte form; returns None on parse error *)
Fixpoint xtn_one (fuel : nat) (ids : bytes) (cs : cstate) (d : bytes) (p : Z) : option bytes :=
  match fuel with
  | O => Some d
  | S f =>
    if p <? lenZ d then
      let b := nthb d (zn p) in
      let xid := N.shiftr b 4 in
      let xlen := Z.of_N (N.land b 15) + 1 in
      let p1 := p + 1 in
      if lenZ d <? p1 + xlen then None
      else if (xid =? 15)%N then Some d
      else
        let '(s, cs', ks) := cipher_output cs (1 + xlen) in
        if negb (s =? st_ok) then None
        else
          let d' := if in_ids ids xid
                    then splice (zn p1) (xor_bytes (slice (zn p1) (zn xlen) d) (drop 1 ks)) d else d in
          xtn_one f ids cs' d' (skip_pad (length d) d' (p1 + xlen))
    else Some d
  end.

Fixpoint xtn_two (fuel : nat) (ids : bytes) (cs : cstate) (d : bytes) (p : Z) : option bytes :=
  match fuel with
  | O => Some d
  | S f =>
    if p + 1 <? lenZ d then
      let xid := nthb d (zn p) in
      let xlen := Z.of_N (nthb d (zn (p + 1))) in
      let p2 := p + 2 in
      if lenZ d <? p2 + xlen then None
      else
        let '(s, cs', ks) := cipher_output cs (2 + xlen) in
        if negb (s =? st_ok) then None
        else
          let d' := if (0 <? xlen) && in_ids ids xid
                    then splice (zn p2) (xor_bytes (slice (zn p2) (zn xlen) d) (drop 2 ks)) d else d in
          xtn_two f ids cs' d' (skip_pad (length d) d' (p2 + xlen))
    else Some d
  end.

(* works on the extension block as it currently is in the destination *)
Definition process_xtn (st : stream) (pkt : bytes) (xcs : cstate) : M unit :=
  let off := hdr_len pkt in
  h <- rd_dst off 4 ;;
  let profile := be16 h 0 in
  let n := be16 h 2 * 4 in
  (* an unsupported profile is refused before any element is looked at *)
  if negb (profile =? xtn_hdr_one_byte_profile_c) && negb (Z.land profile 65520 =? xtn_hdr_two_byte_profile_c)
  then exit_with st_parse_err else
  d <- rd_dst (off + 4) n ;;
  let r := if profile =? xtn_hdr_one_byte_profile_c then xtn_one (S (length d)) (s_enc_xtn st) xcs d 0
           else xtn_two (S (length d)) (s_enc_xtn st) xcs d 0 in
  match r with
  | Some d' => wr_dst (off + 4) d'
  | None => exit_with st_parse_err
  end.

(* ---- cryptex buffer shuffles ---- *)
(* srtp_cryptex_adjust_buffer on the destination *)
Definition cryptex_adjust (pkt : bytes) : M unit :=
  let cc := hdr_cc pkt in
  if cc =? 0 then ret tt else
  tmp <- rd_dst (hdr_len pkt) 4 ;;
  csrc <- rd_dst octets_in_rtp_header_c (4 * cc) ;;
  wr_dst (octets_in_rtp_header_c + 4) csrc ;;;
  wr_dst octets_in_rtp_header_c tmp.
(* srtp_cryptex_restore_buffer *)
Definition cryptex_restore (pkt : bytes) : M unit :=
  let cc := hdr_cc pkt in
  if cc =? 0 then ret tt else
  tmp <- rd_dst octets_in_rtp_header_c 4 ;;
  csrc <- rd_dst (octets_in_rtp_header_c + 4) (4 * cc) ;;
  wr_dst octets_in_rtp_header_c csrc ;;;
  wr_dst (octets_in_rtp_header_c + 4 * cc) tmp.

Definition set_profile (pkt : bytes) (v : Z) : M unit := wr_dst (hdr_len pkt) (be_bytes 2 (Z.to_N v)).

(* encrypt a region of the destination in place (CSRC list, out-of-place cryptex) *)
Definition crypt_dst_region (cs : cstate) (off n : Z) : M cstate :=
  d <- rd_dst off n ;;
  let '(s, cs', o) := cipher_encrypt cs d in
  if negb (s =? st_ok) then exit_with st_cipher_fail else wr_dst off o ;;; ret cs'.

(* ======================================================================= *)
(* srtp_protect                                                             *)
Definition protect (mki_index : Z) : M Z :=
  b <- get_b ;;
  let len := b_len b in
  let pkt := take (zn len) (cur_src b) in
  check_st (validate_rtp pkt len) ;;;
  let ssrc := hdr_ssrc pkt in
  r <- lookup_or_clone ssrc true ;;
  check_direction r dir_srtp_sender_c ;;;
  st <- get_stream r ;;
  ik <- keys_by_index st mki_index ;;
  let '(ki, k) := ik in
  charge_key r ki ;;;
  let tag_len := ak_tag (k_rtp_a k) in
  (if b_cap b <? len + s_mki_size st + tag_len then exit_with st_buffer_small else ret tt) ;;;
  let enc0 := hdr_len pkt + (if hdr_x pkt =? 1 then xtn_len pkt else 0) in
  (* srtp_cryptex_protect_init *)
  let want_cryptex := s_cryptex st && negb (Z.land (s_rtp_serv st) sec_serv_conf_c =? 0) in
  (if want_cryptex && negb (hdr_cc pkt =? 0) && (hdr_x pkt =? 0) then exit_with st_cryptex_err else ret tt) ;;;
  let inuse := want_cryptex && (hdr_x pkt =? 1) in
  let inplace := inuse && b_alias b in
  let enc_start := if inuse then u64 (u64 (enc0 - (xtn_len pkt - octets_in_rtp_xtn_hdr_c))
                                      - (if inplace then hdr_cc pkt * 4 else 0)) else enc0 in
  (if len <? enc_start then exit_with st_parse_err else ret tt) ;;;
  let enc_len := len - enc_start in
  (if b_alias b then ret tt else (h <- rd_src 0 enc_start ;; wr_dst 0 h)) ;;;
  (if s_use_mki st then wr_dst len (k_mki k) else ret tt) ;;;
  let do_auth := negb (Z.land (s_rtp_serv st) sec_serv_auth_c =? 0) in
  let tag_off := len + s_mki_size st in
  (if do_auth then ret tt else wr_dst tag_off (zeros (zn tag_len))) ;;;
  (* index *)
  st <- get_stream r ;;
  let '(est_st, est, delta) := est_index st (hdr_seq pkt) in
  (if negb (est_st =? st_ok) && negb (est_st =? st_pkt_idx_adv) then exit_with est_st else ret tt) ;;;
  (if est_st =? st_pkt_idx_adv then put_stream r (commit_advance st est)
   else
     let cs := rdbx_check (s_rdbx st) delta in
     (if negb (cs =? st_ok) && (negb (cs =? st_replay_fail) || negb (s_allow_repeat st))
      then exit_with cs else ret tt) ;;;
     put_stream r (set_pending (set_rdbx st (rdbx_add (s_rdbx st) delta)) 0)) ;;;
  (* IVs *)
  let iv := rtp_iv (ck_alg (k_rtp_c k)) ssrc est in
  log_encrypt_iv (k_rtp_c k) (key_fp (k_rtp_c k) ++ iv) ;;;
  (match k_xtn_c k with Some xk => log_encrypt_iv xk (key_fp xk ++ iv) | None => ret tt end) ;;;
  let cs0 := cipher_start (k_rtp_c k) iv in
  let est_net := be64 (est * 65536) in
  (* keystream prefix into the tag *)
  cs1 <- (if do_auth && negb (ak_prefix (k_rtp_a k) =? 0) then
            let '(s, cs', ks) := cipher_output cs0 (ak_prefix (k_rtp_a k)) in
            if negb (s =? st_ok) then exit_with st_cipher_fail else wr_dst tag_off ks ;;; ret cs'
          else ret cs0) ;;
  (* RFC 6904 *)
  (match k_xtn_c k with
   | Some xk => if hdr_x pkt =? 1 then process_xtn st pkt (cipher_start xk iv) else ret tt
   | None => ret tt
   end) ;;;
  (* srtp_cryptex_protect *)
  cs2 <- (if inuse then
            h <- rd_dst (hdr_len pkt) 2 ;;
            let profile := be16 h 0 in
            (if profile =? xtn_hdr_one_byte_profile_c then set_profile pkt cryptex_one_byte_profile_c
             else if profile =? xtn_hdr_two_byte_profile_c then set_profile pkt cryptex_two_byte_profile_c
             else exit_with st_parse_err) ;;;
            if inplace then cryptex_adjust pkt ;;; ret cs1
            else if hdr_cc pkt =? 0 then ret cs1
            else crypt_dst_region cs1 octets_in_rtp_header_c (4 * hdr_cc pkt)
          else ret cs1) ;;
  (* payload *)
  (if negb (Z.land (s_rtp_serv st) sec_serv_conf_c =? 0) then
     d <- rd_src enc_start enc_len ;;
     let '(s, _, o) := cipher_encrypt cs2 d in
     if negb (s =? st_ok) then exit_with st_cipher_fail else wr_dst enc_start o
   else if b_alias b then ret tt
   else (d <- rd_src enc_start enc_len ;; wr_dst enc_start d)) ;;;
  (if inplace then cryptex_restore pkt else ret tt) ;;;
  (* tag over dst[0,len) ‖ ROC *)
  (if do_auth then
     m <- rd_dst 0 len ;;
     wr_dst tag_off (auth_compute (k_rtp_a k) (m ++ take 4 est_net))
   else ret tt) ;;;
  ret (u64 (enc_start + enc_len + tag_len + s_mki_size st)).

(* ======================================================================= *)
(* srtp_unprotect = everything up to and including the authentication check
   (unprotect_pre: reads the session, writes only the output buffer), followed by
   the effects of an accepted packet (unprotect_post).                       *)
Record upre := {
  u_pkt : bytes; u_ssrc : Z; u_ref : sref; u_est : Z; u_delta : Z; u_adv : bool;
  u_ki : Z; u_k : skeys; u_cs : cstate; u_iv : bytes;
  u_enc_start : Z; u_enc_len : Z; u_inuse : bool; u_inplace : bool
}.

Definition unprotect_pre : M upre :=
  b <- get_b ;;
  let len := b_len b in
  let pkt := take (zn len) (cur_src b) in
  check_st (validate_rtp pkt len) ;;;
  let ssrc := hdr_ssrc pkt in
  ss <- get_s ;;
  (* lookup; a provisional stream uses est = delta = seq and skips the replay check *)
  r0 <- (match list_get (ss_list ss) ssrc with
         | Some _ => ret (RList ssrc)
         | None => match ss_template ss with Some _ => ret RTemplate | None => exit_with st_no_ctx end
         end) ;;
  st <- get_stream r0 ;;
  eda <- (match r0 with
          | RTemplate => ret (hdr_seq pkt, hdr_seq pkt, false)
          | RList _ =>
            let '(est_st, est, delta) := est_index st (hdr_seq pkt) in
            (if negb (est_st =? st_ok) && negb (est_st =? st_pkt_idx_adv) then exit_with est_st else ret tt) ;;;
            if est_st =? st_pkt_idx_adv then ret (est, delta, true)
            else check_st (rdbx_check (s_rdbx st) delta) ;;; ret (est, delta, false)
          end) ;;
  let '(est, delta, adv) := eda in
  let tag_len0 := match s_keys st with k0 :: _ => ak_tag (k_rtp_a k0) | [] => 0 end in
  ik <- keys_by_packet st len tag_len0 ;;
  let '(ki, k) := ik in
  let tag_len := ak_tag (k_rtp_a k) in
  let iv := rtp_iv (ck_alg (k_rtp_c k)) ssrc est in
  let cs0 := cipher_start (k_rtp_c k) iv in
  let est_net := be64 (est * 65536) in
  let enc0 := hdr_len pkt + (if hdr_x pkt =? 1 then xtn_len pkt else 0) in
  (* srtp_cryptex_unprotect_init: profile and length are read from the received packet *)
  inuse <- (if s_cryptex st && negb (Z.land (s_rtp_serv st) sec_serv_conf_c =? 0) && (hdr_x pkt =? 1) then
              h <- rd_src (hdr_len pkt) 4 ;;
              let profile := be16 h 0 in
              ret ((profile =? cryptex_one_byte_profile_c) || (profile =? cryptex_two_byte_profile_c))
            else ret false) ;;
  let inplace := inuse && b_alias b in
  xl <- (if inuse then (h <- rd_src (hdr_len pkt) 4 ;; ret ((be16 h 2 + 1) * 4)) else ret 0) ;;
  let enc_start := if inuse then u64 (u64 (enc0 - (xl - octets_in_rtp_xtn_hdr_c))
                                      - (if inplace then hdr_cc pkt * 4 else 0)) else enc0 in
  (* the unencrypted header (enc_start moved back over the CSRC list when cryptex works in place) must end before the trailer *)
  (if u64 (len - tag_len - s_mki_size st) <? u64 (enc_start + (if inplace then hdr_cc pkt * 4 else 0))
   then exit_with st_parse_err else ret tt) ;;;
  let enc_len := u64 (len - enc_start - s_mki_size st - tag_len) in
  (if b_cap b <? u64 (len - s_mki_size st - tag_len) then exit_with st_buffer_small else ret tt) ;;;
  (if b_alias b then ret tt else (h <- rd_src 0 enc_start ;; wr_dst 0 h)) ;;;
  let do_auth := negb (Z.land (s_rtp_serv st) sec_serv_auth_c =? 0) in
  (* authentication *)
  cs1 <- (if do_auth then
            pre <- (if negb (ak_prefix (k_rtp_a k) =? 0) then
                      let '(s, cs', ks) := cipher_output cs0 (ak_prefix (k_rtp_a k)) in
                      if negb (s =? st_ok) then exit_with st_cipher_fail
                      else if SRTP_MAX_TAG_LEN_c <? ak_prefix (k_rtp_a k) then exit_with st_model_oob
                      else ret (cs', ks)
                    else ret (cs0, [])) ;;
            m <- rd_src 0 (u64 (len - tag_len - s_mki_size st)) ;;
            let computed := auth_compute (k_rtp_a k) (m ++ take 4 est_net) in
            (if SRTP_MAX_TAG_LEN_c <? lenZ computed then exit_with st_model_oob else ret tt) ;;;
            (* tmp_tag: keystream prefix, overwritten by what the auth function writes *)
            let tmp_tag := computed ++ drop (length computed) (snd pre) in
            t <- rd_src (len - tag_len) tag_len ;;
            (if beqb (take (zn tag_len) (tmp_tag ++ zeros (zn tag_len))) t then ret tt else exit_with st_auth_fail) ;;;
            ret (fst pre)
          else ret cs0) ;;
  ret {| u_pkt := pkt; u_ssrc := ssrc; u_ref := r0; u_est := est; u_delta := delta; u_adv := adv;
         u_ki := ki; u_k := k; u_cs := cs1; u_iv := iv;
         u_enc_start := enc_start; u_enc_len := enc_len; u_inuse := inuse; u_inplace := inplace |}.

Definition unprotect_post (u : upre) : M Z :=
  b <- get_b ;;
  let pkt := u_pkt u in let k := u_k u in
  let r0 := u_ref u in let enc_start := u_enc_start u in let enc_len := u_enc_len u in
  let inuse := u_inuse u in let inplace := u_inplace u in
  charge_key r0 (u_ki u) ;;;
  st <- get_stream r0 ;;
  (match k_xtn_c k with
   | Some xk => if hdr_x pkt =? 1 then process_xtn st pkt (cipher_start xk (u_iv u)) else ret tt
   | None => ret tt
   end) ;;;
  cs2 <- (if inuse then
            if inplace then cryptex_adjust pkt ;;; ret (u_cs u)
            else if hdr_cc pkt =? 0 then ret (u_cs u)
            else crypt_dst_region (u_cs u) octets_in_rtp_header_c (4 * hdr_cc pkt)
          else ret (u_cs u)) ;;
  (if negb (Z.land (s_rtp_serv st) sec_serv_conf_c =? 0) then
     d <- rd_src enc_start enc_len ;;
     let '(s, _, o) := cipher_encrypt cs2 d in
     if negb (s =? st_ok) then exit_with st_cipher_fail else wr_dst enc_start o
   else if b_alias b then ret tt
   else (d <- rd_src enc_start enc_len ;; wr_dst enc_start d)) ;;;
  (* srtp_cryptex_unprotect_cleanup *)
  (if inuse then
     (if inplace then cryptex_restore pkt else ret tt) ;;;
     h <- rd_dst (hdr_len pkt) 2 ;;
     let profile := be16 h 0 in
     if profile =? cryptex_one_byte_profile_c then set_profile pkt xtn_hdr_one_byte_profile_c
     else if profile =? cryptex_two_byte_profile_c then set_profile pkt xtn_hdr_two_byte_profile_c
     else ret tt
   else ret tt) ;;;
  check_direction r0 dir_srtp_receiver_c ;;;
  r <- materialize r0 (u_ssrc u) ;;
  st2 <- get_stream r ;;
  (if u_adv u then put_stream r (commit_advance st2 (u_est u))
   else put_stream r (set_pending (set_rdbx st2 (rdbx_add (s_rdbx st2) (u_delta u))) 0)) ;;;
  ret (u64 (enc_start + enc_len)).

Definition unprotect : M Z := u <- unprotect_pre ;; unprotect_post u.
