(* Properties_C06.v — packet index / ROC synchronisation (C06).
   Statements only; proofs in IndexProofs.v and RdbxProofs.v. *)
From Coq Require Import NArith ZArith List Bool.
From Srtp Require Import Util Constants Rdbx Seen IndexProofs RdbxProofs.
Import ListNotations.
Local Open Scope Z_scope.

Theorem seq_constants : seq_num_median_c = 2 ^ 15 /\ seq_num_max_c = 2 ^ 16.
Proof. exact (conj median_value seqmax_value). Qed.
Print Assumptions seq_constants.

(* srtp_index_guess: for every pair of 48-bit indices closer than 2^15 the
   estimate from the low 16 bits is the true index and the exact signed distance
   (this is the statement for all 2^32 (s_l, s) pairs at every ROC, 0 and 2^32-1 included) *)
Theorem guess_exact : forall local i,
  0 <= local < 2 ^ 48 -> 0 <= i < 2 ^ 48 -> Z.abs (i - local) < 2 ^ 15 ->
  index_guess local (i mod 65536) = (i, i - local).
Proof. exact index_guess_exact. Qed.
Print Assumptions guess_exact.

(* the same for the estimator srtp_unprotect / srtp_protect actually call *)
Theorem estimate_is_exact : forall r i,
  0 <= index r < 2 ^ 48 -> 0 <= i < 2 ^ 48 -> Z.abs (i - index r) < 2 ^ 15 ->
  estimate r (i mod 65536) = (i, i - index r).
Proof. exact estimate_exact. Qed.
Print Assumptions estimate_is_exact.

(* RFC 3711 3.3.1: the estimate is ROC-1, ROC or ROC+1 (mod 2^32) and none of the three is closer *)
Theorem guess_is_closest : forall local s,
  0 <= local < 2 ^ 48 -> 0 <= s < 2 ^ 16 ->
  let roc := local / 65536 in
  let '(g, d) := index_guess local s in
  exists v, (v = roc - 1 \/ v = roc \/ v = roc + 1) /\
            g = u32 v * 65536 + s /\ d = v * 65536 + s - local /\
            Z.abs d <= 2 ^ 15 /\
            forall w, (w = roc - 1 \/ w = roc \/ w = roc + 1) -> Z.abs d <= Z.abs (w * 65536 + s - local).
Proof. exact index_guess_closest. Qed.
Print Assumptions guess_is_closest.

Theorem no_roc_minus_one_at_stream_start : forall r s,
  0 <= index r <= 2 ^ 15 -> 0 <= s < 2 ^ 16 -> fst (estimate r s) = s.
Proof. exact estimate_no_roc_minus_one. Qed.
Print Assumptions no_roc_minus_one_at_stream_start.

(* history statement: a receiver fed authentic packets whose true indices are each within 2^15
   of the receiver's highest accepted index at the time of arrival accepts a packet exactly when
   it has not been seen before and is inside the window, and then processes it with the sender's
   index (rdbx_rx accepts only when estimate = true index); any number of wraps, any order *)
Theorem receiver_follows_sender : forall r seen i,
  Inv r seen -> 0 <= i < IDX_MAX -> Z.abs (i - index r) < 2 ^ 15 ->
  (seen i -> snd (rdbx_rx r i) = false) /\
  (i <= index r - wlen r -> snd (rdbx_rx r i) = false) /\
  (~ seen i -> index r - wlen r < i -> snd (rdbx_rx r i) = true).
Proof. exact rx_verdict. Qed.
Print Assumptions receiver_follows_sender.

(* what happens at ROC 2^32-1: documented, outside the premises above *)
Theorem guess_wraps_at_max_roc : index_guess (4294967295 * 65536 + 65535) 0 = (0, 1).
Proof. exact index_guess_wraps_at_max_roc. Qed.

Example guess_exact_example :
  index_guess (7 * 65536 + 65530) 3 = (8 * 65536 + 3, 9) /\
  index_guess (8 * 65536 + 2) 65533 = (7 * 65536 + 65533, -5).
Proof. vm_compute. split; reflexivity. Qed.
