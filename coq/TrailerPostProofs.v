(* TrailerPostProofs.v — the trailer-length query made AFTER a sender call.
   TrailerProofs.v relates what srtp_protect & co. append to the query on the world the call STARTS from.
   Here: a frame lemma for the four sender functions (what a call — successful or refused — can change in
   the session), from it the stability of Session.trailer_length across the call, and the corollaries
   "the query on the world the call LEAVES still covers what the call appended". *)
From Coq Require Import NArith ZArith List Bool Lia.
From Srtp Require Import Util Constants KeyLimit Rdb Rdbx Icm World Stream Rtp Rtcp Session MonadLemmas RejectProofs
                         EnvelopeProofs WfProofs TableProofs BoundsRtcp BoundsRtp LengthProofs Aead AeadBoundsRtp
                         AeadBoundsRtcp RtpExamples TrailerProofs.
Import ListNotations.
Local Open Scope Z_scope.

(* ===================================================================== *)
(* 1. the frame relations                                                 *)
(* ===================================================================== *)
(* the ten fields no packet call writes (the other five are s_limits, s_rdbx, s_rdb, s_pending_roc, s_dir) *)
Definition same_static (a b : stream) : Prop :=
  s_keys b = s_keys a /\ s_rtp_serv b = s_rtp_serv a /\ s_rtcp_serv b = s_rtcp_serv a /\
  s_use_mki b = s_use_mki a /\ s_mki_size b = s_mki_size a /\ s_allow_repeat b = s_allow_repeat a /\
  s_cryptex b = s_cryptex a /\ s_enc_xtn b = s_enc_xtn a.
(* b is a with (at most) s_limits, s_rdbx, s_rdb, s_pending_roc, s_dir changed *)
Definition frame_eq (a b : stream) : Prop :=
  s_ssrc b = s_ssrc a /\ s_clone b = s_clone a /\ same_static a b.
(* c is a clone of the template t for SSRC x (srtp_stream_clone), possibly after per-packet updates *)
Definition clone_of (t : stream) (x : Z) (c : stream) : Prop :=
  s_ssrc c = x /\ s_clone c = true /\ same_static t c.

Lemma same_static_refl a : same_static a a.
Proof. repeat split. Qed.
Lemma same_static_trans a b c : same_static a b -> same_static b c -> same_static a c.
Proof.
  unfold same_static. intros (a1 & a2 & a3 & a4 & a5 & a6 & a7 & a8) (b1 & b2 & b3 & b4 & b5 & b6 & b7 & b8).
  repeat split; congruence.
Qed.
Lemma frame_eq_refl a : frame_eq a a.
Proof. repeat split. Qed.
Lemma frame_eq_trans a b c : frame_eq a b -> frame_eq b c -> frame_eq a c.
Proof.
  intros (a1 & a2 & a3) (b1 & b2 & b3). split; [congruence|]. split; [congruence|].
  exact (same_static_trans _ _ _ a3 b3).
Qed.
Lemma frame_eq_upd st rx rb p d l : frame_eq st (upd_stream st rx rb p d l).
Proof. repeat split. Qed.
Lemma frame_eq_commit st est : frame_eq st (commit_advance st est).
Proof. unfold commit_advance. destruct (set_roc_seq _ _ _) as [x rx]. repeat split. Qed.
(* frame_eq says exactly "an upd_stream of a" *)
Lemma frame_eq_iff_upd a b : frame_eq a b <-> exists rx rb p d l, b = upd_stream a rx rb p d l.
Proof.
  split.
  - intros (E1 & E2 & E3 & E4 & E5 & E6 & E7 & E8 & E9 & E10).
    exists (s_rdbx b), (s_rdb b), (s_pending_roc b), (s_dir b), (s_limits b).
    destruct a, b; cbn in *. subst. reflexivity.
  - intros (rx & rb & p & d & l & ->). apply frame_eq_upd.
Qed.
Lemma clone_of_frame t x c n : clone_of t x c -> frame_eq c n -> clone_of t x n.
Proof.
  intros (a1 & a2 & a3) (b1 & b2 & b3). split; [congruence|]. split; [congruence|].
  exact (same_static_trans _ _ _ a3 b3).
Qed.
Lemma clone_of_limits t l x c : clone_of (set_limits t l) x c -> clone_of t x c.
Proof. intros H. exact H. Qed.

(* what srtp_stream_clone returns *)
Lemma r_stream_clone_of t x : returns (stream_clone t x) (clone_of t x).
Proof.
  unfold stream_clone.
  apply r_bind; intros ok. apply r_if; [apply r_exit|].
  apply r_bind; intros ok2. apply r_if; [apply r_bind; intros; apply r_exit|].
  apply r_bind; intros o. apply r_bind; intros ok3. apply r_if; [apply r_bind; intros; apply r_exit|].
  destruct (rdbx_init (wlen (s_rdbx t))); [|apply r_bind; intros; apply r_exit].
  apply r_ret. repeat split.
Qed.

(* ---- the per-stream trailer query reads only s_use_mki, s_mki_size, s_keys ---- *)
Lemma stream_trailer_static a b is_rtp i : same_static a b -> stream_trailer b is_rtp i = stream_trailer a is_rtp i.
Proof. intros (K & _ & _ & U & M & _). unfold stream_trailer. rewrite K, U, M. reflexivity. Qed.
Lemma stream_trailer_frame a b is_rtp i : frame_eq a b -> stream_trailer b is_rtp i = stream_trailer a is_rtp i.
Proof. intros (_ & _ & H). apply stream_trailer_static. exact H. Qed.
Lemma stream_trailer_clone t x c is_rtp i : clone_of t x c -> stream_trailer c is_rtp i = stream_trailer t is_rtp i.
Proof. intros (_ & _ & H). apply stream_trailer_static. exact H. Qed.

(* ---- the template: only its key budgets (a clone charges the template's) ---- *)
Definition tmpl_step (a b : option stream) : Prop :=
  match a, b with
  | Some t, Some t' => exists l, t' = set_limits t l
  | None, None => True
  | _, _ => False
  end.
Lemma set_limits_same t : set_limits t (s_limits t) = t.
Proof. destruct t; reflexivity. Qed.
Lemma tmpl_step_refl a : tmpl_step a a.
Proof. destruct a as [t|]; cbn; [exists (s_limits t); symmetry; apply set_limits_same|exact I]. Qed.
Lemma tmpl_step_trans a b c : tmpl_step a b -> tmpl_step b c -> tmpl_step a c.
Proof.
  destruct a as [t|], b as [t1|], c as [t2|]; cbn; try tauto.
  intros [l ->] [l' ->]. exists l'. reflexivity.
Qed.

(* ---- the stream list, for a call that works on SSRC x (tm = the template the call starts from):
        unchanged, or the FIRST entry with SSRC x replaced by a frame-equal one, or — no entry for x, a
        template — one clone of the template appended ---- *)
Inductive list_step (x : Z) (tm : option stream) (l : list stream) : list stream -> Prop :=
| ls_same : list_step x tm l l
| ls_upd s n : list_get l x = Some s -> frame_eq s n -> list_step x tm l (list_replace l x n)
| ls_clone t c : list_get l x = None -> tm = Some t -> clone_of t x c -> list_step x tm l (l ++ [c]).

Definition sess_step (x : Z) (a b : session) : Prop :=
  tmpl_step (ss_template a) (ss_template b) /\ list_step x (ss_template a) (ss_list a) (ss_list b).

Lemma sess_step_refl x a : sess_step x a a.
Proof. split; [apply tmpl_step_refl|apply ls_same]. Qed.

Lemma list_replace_twice l x n n' : s_ssrc n = x -> list_replace (list_replace l x n) x n' = list_replace l x n'.
Proof.
  intros Hn. induction l as [|a l IH]; cbn [list_replace]; [reflexivity|].
  destruct (s_ssrc a =? x) eqn:E; cbn [list_replace].
  - subst x. rewrite Z.eqb_refl. reflexivity.
  - rewrite E, IH. reflexivity.
Qed.

Lemma list_step_trans x tm tm' l0 l1 l2 :
  tmpl_step tm tm' -> list_step x tm l0 l1 -> list_step x tm' l1 l2 -> list_step x tm l0 l2.
Proof.
  intros HT H1 H2. destruct H1 as [|s n G1 F1|t c G1 T1 C1].
  - (* nothing so far *)
    destruct H2 as [|s n G2 F2|t c G2 T2 C2]; [apply ls_same|exact (ls_upd _ _ _ s n G2 F2)|].
    subst tm'. destruct tm as [t0|]; cbn in HT; [|contradiction]. destruct HT as [lm ->].
    exact (ls_clone _ _ _ t0 c G2 eq_refl (clone_of_limits _ _ _ _ C2)).
  - (* an entry was replaced *)
    assert (Sn : s_ssrc n = x).
    { destruct F1 as (E & _). rewrite E. exact (TableProofs.list_get_ssrc _ _ _ G1). }
    assert (Gn : list_get (list_replace l0 x n) x = Some n).
    { rewrite (TableProofs.list_get_replace_same _ _ _ Sn), G1. reflexivity. }
    inversion H2 as [E|s' n' G2 F2 E|t c G2 T2 C2 E].
    + exact (ls_upd _ _ _ s n G1 F1).
    + rewrite Gn in G2. injection G2 as <-. rewrite (list_replace_twice _ _ _ _ Sn).
      exact (ls_upd _ _ _ s n' G1 (frame_eq_trans _ _ _ F1 F2)).
    + rewrite Gn in G2. discriminate.
  - (* a clone was appended *)
    assert (Sc : s_ssrc c = x) by exact (proj1 C1).
    assert (Gc : list_get (l0 ++ [c]) x = Some c).
    { rewrite TableProofs.list_get_app, G1, Sc, Z.eqb_refl. reflexivity. }
    inversion H2 as [E|s' n' G2 F2 E|t' c' G2 T2 C2 E].
    + exact (ls_clone _ _ _ t c G1 T1 C1).
    + rewrite Gc in G2. injection G2 as <-. rewrite (TableProofs.list_replace_app_last _ _ _ _ G1 Sc).
      exact (ls_clone _ _ _ t n' G1 T1 (clone_of_frame _ _ _ _ C1 F2)).
    + rewrite Gc in G2. discriminate.
Qed.

Lemma sess_step_trans x a b c : sess_step x a b -> sess_step x b c -> sess_step x a c.
Proof.
  intros [T1 L1] [T2 L2]. split; [exact (tmpl_step_trans _ _ _ T1 T2)|].
  exact (list_step_trans _ _ _ _ _ _ T1 L1 L2).
Qed.

(* ===================================================================== *)
(* 2. a step logic: every run of m moves the session by sess_step x        *)
(* ===================================================================== *)
(* pre- and postconditions look at the session only; nothing is claimed of the value of an exit, but the
   step relation holds of exits too (this is what covers refused calls) *)
Definition hstep_at (x : Z) {A} (P : session -> Prop) (m : M A) (Q : A -> session -> Prop) (w : world) : Prop :=
  P (w_s w) ->
  let '(w', r) := m w in
  sess_step x (w_s w) (w_s w') /\ match r with inl a => Q a (w_s w') | inr _ => True end.
Definition hstep (x : Z) {A} (P : session -> Prop) (m : M A) (Q : A -> session -> Prop) : Prop :=
  forall w, hstep_at x P m Q w.
Definition ST : session -> Prop := fun _ => True.

Lemma hs_ret x {A} (a : A) (P : session -> Prop) (Q : A -> session -> Prop) :
  (forall s, P s -> Q a s) -> hstep x P (ret a) Q.
Proof. intros H w HP. cbn. split; [apply sess_step_refl|exact (H _ HP)]. Qed.
Lemma hs_exit x {A} st (P : session -> Prop) (Q : A -> session -> Prop) : hstep x P (exit_with st) Q.
Proof. intros w HP. cbn. split; [apply sess_step_refl|exact I]. Qed.
Lemma hs_bind x {A B} (m : M A) (f : A -> M B) P R Q :
  hstep x P m R -> (forall a, hstep x (R a) (f a) Q) -> hstep x P (bind m f) Q.
Proof.
  intros Hm Hf w HP. unfold bind. specialize (Hm w HP). destruct (m w) as [w1 [a|st]].
  - destruct Hm as [S1 R1]. specialize (Hf a w1 R1). destruct (f a w1) as [w2 r].
    destruct Hf as [S2 Q2]. split; [exact (sess_step_trans _ _ _ _ S1 S2)|exact Q2].
  - exact Hm.
Qed.
Lemma hs_pre x {A} (P P' : session -> Prop) (m : M A) Q :
  (forall s, P s -> P' s) -> hstep x P' m Q -> hstep x P m Q.
Proof. intros HI H w HP. exact (H w (HI _ HP)). Qed.
Lemma hs_post x {A} (P : session -> Prop) (m : M A) (Q Q' : A -> session -> Prop) :
  hstep x P m Q' -> (forall a s, Q' a s -> Q a s) -> hstep x P m Q.
Proof.
  intros H HI w HP. specialize (H w HP). destruct (m w) as [w1 [a|st]]; [|exact H].
  destruct H as [S1 Q1]. split; [exact S1|exact (HI _ _ Q1)].
Qed.
Lemma hs_if x {A} (c : bool) (m1 m2 : M A) P Q : hstep x P m1 Q -> hstep x P m2 Q -> hstep x P (if c then m1 else m2) Q.
Proof. destruct c; auto. Qed.
Lemma hs_at_get_b x {A} (f : bufs -> M A) P Q w : hstep_at x P (f (w_b w)) Q w -> hstep_at x P (bind get_b f) Q w.
Proof. intros H. exact H. Qed.

(* computations that do not write the session *)
Definition sfix {A} (m : M A) : Prop := forall w, w_s (fst (m w)) = w_s w.
Lemma sfix_sp {A} (m : M A) : sess_pres m -> sfix m.
Proof. intros S w. specialize (S w). destruct (m w) as [w1 r]. exact (proj1 S). Qed.
Lemma sfix_sb {A} (m : M A) : sb_pres m -> sfix m.
Proof. intros S w. exact (proj1 (S w)). Qed.
Lemma hs_sfix x {A} (P : session -> Prop) (m : M A) : sfix m -> hstep x P m (fun _ => P).
Proof.
  intros S w HP. specialize (S w). destruct (m w) as [w1 r]. cbn [fst] in S. rewrite S.
  split; [apply sess_step_refl|]. destruct r; [exact HP|exact I].
Qed.
Lemma hs_sp x {A} (P : session -> Prop) (m : M A) : sess_pres m -> hstep x P m (fun _ => P).
Proof. intros S. apply hs_sfix. apply sfix_sp. exact S. Qed.
Lemma hs_sb x {A} (P : session -> Prop) (m : M A) : sb_pres m -> hstep x P m (fun _ => P).
Proof. intros S. apply hs_sfix. apply sfix_sb. exact S. Qed.

(* reading the stream of x *)
Lemma hs_get_stream x (P : session -> Prop) :
  hstep x P (get_stream (RList x)) (fun st s => list_get (ss_list s) x = Some st /\ P s).
Proof.
  intros w HP. unfold get_stream, bind, get_s.
  destruct (list_get (ss_list (w_s w)) x) as [st|] eqn:E; cbn; (split; [apply sess_step_refl|]); [auto|exact I].
Qed.
(* writing back a frame-equal stream for x *)
Lemma hs_put_stream x st n (Q : unit -> session -> Prop) :
  frame_eq st n -> (forall s, Q tt s) ->
  hstep x (fun s => list_get (ss_list s) x = Some st) (put_stream (RList x) n) Q.
Proof.
  intros F HQ w HP. unfold put_stream, bind, get_s, put_s. cbn. split; [|apply HQ].
  split; cbn; [apply tmpl_step_refl|exact (ls_upd _ _ _ st n HP F)].
Qed.
(* writing back the template with other key budgets *)
Lemma hs_put_template x t l (Q : unit -> session -> Prop) :
  (forall s, Q tt s) ->
  hstep x (fun s => ss_template s = Some t) (put_stream RTemplate (set_limits t l)) Q.
Proof.
  intros HQ w HP. unfold put_stream, bind, get_s, put_s. cbn. split; [|apply HQ].
  split; cbn; [rewrite HP; cbn; exists l; reflexivity|apply ls_same].
Qed.

(* ---- the session operations of the sender functions ---- *)
Lemma hs_check_direction x d : hstep x ST (check_direction (RList x) d) (fun _ => ST).
Proof.
  unfold check_direction. eapply hs_bind; [apply hs_get_stream|intros st].
  apply hs_pre with (P' := fun s => list_get (ss_list s) x = Some st); [tauto|].
  apply hs_if; [apply hs_ret; intros; exact I|].
  apply hs_if; [apply hs_put_stream; [apply frame_eq_upd|intros; exact I]|].
  eapply hs_post; [apply hs_sb; apply sb_emit|intros; exact I].
Qed.

Lemma hs_limit_update x i : hstep x ST (limit_update (RList x) i) (fun _ => ST).
Proof.
  unfold limit_update. eapply hs_bind; [apply hs_get_stream|intros st].
  apply hs_pre with (P' := fun s => list_get (ss_list s) x = Some st); [tauto|].
  destruct (s_clone st).
  - apply hs_pre with (P' := ST); [intros; exact I|].
    apply hs_bind with (R := fun t s => ss_template s = Some t).
    { intros w _. unfold get_stream, bind, get_s.
      destruct (ss_template (w_s w)) as [t|] eqn:E; cbn; (split; [apply sess_step_refl|]); [exact E|exact I]. }
    intros t. destruct (nth_error (s_limits t) (zn i)) as [k|]; [|apply hs_exit].
    destruct (kl_update k) as [k' e].
    eapply hs_bind; [apply hs_put_template with (Q := fun _ => ST); intros; exact I|intros ?]. apply hs_ret; auto.
  - destruct (nth_error (s_limits st) (zn i)) as [k|]; [|apply hs_exit].
    destruct (kl_update k) as [k' e].
    eapply hs_bind; [apply hs_put_stream with (Q := fun _ => ST); [apply frame_eq_upd|intros; exact I]|intros ?].
    apply hs_ret; auto.
Qed.

Lemma hs_charge_key x i : hstep x ST (charge_key (RList x) i) (fun _ => ST).
Proof.
  unfold charge_key. eapply hs_bind; [apply hs_limit_update|intros e].
  eapply hs_bind; [apply hs_sp; apply sp_get_stream|intros st].
  destruct e.
  - apply hs_ret; auto.
  - apply hs_sb. apply sb_emit.
  - eapply hs_bind; [apply hs_sb; apply sb_emit|intros ?]. apply hs_exit.
Qed.

(* the sender-side lookup: nothing, or one clone of the template appended (and its direction set) *)
Lemma hs_lookup_or_clone x flag : hstep x ST (lookup_or_clone x flag) (fun r _ => r = RList x).
Proof.
  intros w _. unfold lookup_or_clone. unfold bind at 1, get_s at 1.
  destruct (list_get (ss_list (w_s w)) x) as [st|] eqn:E1; [cbn; split; [apply sess_step_refl|reflexivity]|].
  destruct (ss_template (w_s w)) as [t|] eqn:E2; [|cbn; split; [apply sess_step_refl|exact I]].
  unfold bind at 1. destruct (stream_clone t x w) as [w1 [ns|e]] eqn:EC.
  2:{ pose proof (sb_stream_clone t x w) as [S1 _]. rewrite EC in S1. cbn [fst] in S1. rewrite S1.
      split; [apply sess_step_refl|exact I]. }
  pose proof (r_stream_clone_of t x w w1 ns EC) as Hc.
  pose proof (sb_stream_clone t x w) as [S1 _]. rewrite EC in S1. cbn [fst] in S1.
  unfold bind at 1. destruct (insert_or_dealloc ns w1) as [w2 r2] eqn:EI.
  destruct (insert_or_dealloc_inv _ _ _ _ EI) as [[-> EL]|[-> (S2 & _)]].
  2:{ rewrite S2, S1. split; [apply sess_step_refl|exact I]. }
  apply list_insert_inv in EL. destruct EL as [(_ & L2 & T2 & _)|(EE & _)]; [|discriminate].
  rewrite S1 in L2, T2.
  assert (G : sess_step x (w_s w) (w_s w2)).
  { split; [rewrite T2; apply tmpl_step_refl|]. rewrite L2. exact (ls_clone _ _ _ t ns E1 E2 Hc). }
  destruct flag.
  - unfold bind, put_stream, get_s, put_s. cbn. split; [|reflexivity].
    apply (sess_step_trans _ _ _ _ G). split; cbn; [apply tmpl_step_refl|].
    apply (ls_upd _ _ _ ns); [|apply frame_eq_upd].
    pose proof Hc as (Sc & _). rewrite L2, TableProofs.list_get_app, E1, Sc, Z.eqb_refl. reflexivity.
  - cbn. split; [exact G|reflexivity].
Qed.

Lemma hs_at x {A} (P : session -> Prop) (m : M A) Q w : hstep x P m Q -> hstep_at x P m Q w.
Proof. intros H. exact (H w). Qed.
Lemma hs_lookup_bind x flag {B} (f : sref -> M B) Q :
  hstep x ST (f (RList x)) Q -> hstep x ST (bind (lookup_or_clone x flag) f) Q.
Proof.
  intros H. eapply hs_bind; [apply hs_lookup_or_clone|]. intros r w Hr. cbv beta in Hr. subst r. exact (H w I).
Qed.

Ltac sp_all :=
  unfold log_gcm_iv, log_encrypt_iv, process_xtn, set_profile, cryptex_adjust, cryptex_restore, crypt_dst_region,
         keys_by_index; sp_auto.
Ltac hsp := eapply hs_bind; [apply hs_sp; sp_all|intros ?].

(* ===================================================================== *)
(* 3. the frame lemma of the four sender functions                        *)
(* ===================================================================== *)
(* the SSRC a call works on *)
Definition rtp_ssrc (w : world) : Z := hdr_ssrc (take (zn (b_len (w_b w))) (cur_src (w_b w))).
Definition rtcp_ssrc (w : world) : Z := be32 (take (zn (b_len (w_b w))) (cur_src (w_b w))) 4.

Lemma protect_hstep i w0 : hstep_at (rtp_ssrc w0) ST (protect i) (fun _ => ST) w0.
Proof.
  unfold protect, rtp_ssrc. apply hs_at_get_b. generalize (w_b w0). intros b. cbv beta zeta.
  set (x := hdr_ssrc (take (zn (b_len b)) (cur_src b))). apply hs_at.
  eapply hs_bind; [apply hs_sp; apply sp_check_st|intros ?].
  apply hs_lookup_bind.
  eapply hs_bind; [apply hs_check_direction|intros ?].
  eapply hs_bind; [apply hs_sp; apply sp_get_stream|intros st].
  eapply hs_bind; [apply hs_sb; apply sb_keys_by_index|intros [ki k]].
  eapply hs_bind; [apply hs_charge_key|intros ?].
  do 6 hsp.
  eapply hs_bind; [apply hs_get_stream|intros st2].
  apply hs_pre with (P' := fun s => list_get (ss_list s) x = Some st2); [tauto|].
  destruct (est_index st2 _) as [[est_st est] delta].
  hsp.
  eapply hs_bind with (R := fun _ => ST).
  { apply hs_if.
    - apply hs_put_stream; [apply frame_eq_commit|intros; exact I].
    - hsp. apply hs_put_stream; [repeat split|intros; exact I]. }
  intros ?. apply hs_sp. sp_all.
Qed.

Lemma protect_rtcp_hstep i w0 : hstep_at (rtcp_ssrc w0) ST (protect_rtcp i) (fun _ => ST) w0.
Proof.
  unfold protect_rtcp, rtcp_ssrc. apply hs_at_get_b. generalize (w_b w0). intros b. cbv beta zeta.
  set (x := be32 (take (zn (b_len b)) (cur_src b)) 4). apply hs_at.
  hsp.
  apply hs_lookup_bind.
  eapply hs_bind; [apply hs_check_direction|intros ?].
  eapply hs_bind; [apply hs_get_stream|intros st].
  apply hs_pre with (P' := fun s => list_get (ss_list s) x = Some st); [tauto|].
  eapply hs_bind; [apply hs_sb; apply sb_keys_by_index|intros [ki k]].
  do 3 hsp.
  destruct (rdb_incr (s_rdb st)) as [is rb].
  hsp.
  eapply hs_bind with (R := fun _ => ST); [apply hs_put_stream; [apply frame_eq_upd|intros; exact I]|intros ?].
  apply hs_sp. sp_all.
Qed.

Lemma protect_aead_hstep i w0 : hstep_at (rtp_ssrc w0) ST (protect_aead i) (fun _ => ST) w0.
Proof.
  unfold protect_aead, rtp_ssrc. apply hs_at_get_b. generalize (w_b w0). intros b. cbv beta zeta.
  set (x := hdr_ssrc (take (zn (b_len b)) (cur_src b))). apply hs_at.
  eapply hs_bind; [apply hs_sp; apply sp_check_st|intros ?].
  apply hs_lookup_bind.
  eapply hs_bind; [apply hs_check_direction|intros ?].
  eapply hs_bind; [apply hs_sp; apply sp_get_stream|intros st].
  eapply hs_bind; [apply hs_sb; apply sb_keys_by_index|intros [ki k]].
  eapply hs_bind; [apply hs_charge_key|intros ?].
  do 5 hsp.
  eapply hs_bind; [apply hs_get_stream|intros st2].
  apply hs_pre with (P' := fun s => list_get (ss_list s) x = Some st2); [tauto|].
  destruct (est_index st2 _) as [[est_st est] delta].
  hsp.
  eapply hs_bind with (R := fun _ => ST).
  { apply hs_if.
    - apply hs_put_stream; [apply frame_eq_commit|intros; exact I].
    - hsp. apply hs_put_stream; [repeat split|intros; exact I]. }
  intros ?. apply hs_sp. sp_all.
Qed.

Lemma protect_rtcp_aead_hstep i w0 : hstep_at (rtcp_ssrc w0) ST (protect_rtcp_aead i) (fun _ => ST) w0.
Proof.
  unfold protect_rtcp_aead, rtcp_ssrc. apply hs_at_get_b. generalize (w_b w0). intros b. cbv beta zeta.
  set (x := be32 (take (zn (b_len b)) (cur_src b)) 4). apply hs_at.
  hsp.
  apply hs_lookup_bind.
  eapply hs_bind; [apply hs_check_direction|intros ?].
  eapply hs_bind; [apply hs_get_stream|intros st].
  apply hs_pre with (P' := fun s => list_get (ss_list s) x = Some st); [tauto|].
  eapply hs_bind; [apply hs_sb; apply sb_keys_by_index|intros [ki k]].
  do 3 hsp.
  destruct (rdb_incr (s_rdb st)) as [is rb].
  hsp.
  eapply hs_bind with (R := fun _ => ST); [apply hs_put_stream; [apply frame_eq_upd|intros; exact I]|intros ?].
  apply hs_sp. sp_all.
Qed.

(* THE FRAME LEMMA.  Whatever the result r (a length, or any exit status): the template keeps everything but
   its key budgets; the stream list is unchanged, or its first entry for the packet's SSRC is replaced by one
   that differs at most in s_limits / s_rdbx / s_rdb / s_pending_roc / s_dir, or — no entry for that SSRC —
   one clone of the template is appended.  (A refused call is NOT a no-op in general: see
   TrailerPostEx.refused_call_changes_session.) *)
Theorem protect_frame i w0 w' r : protect i w0 = (w', r) -> sess_step (rtp_ssrc w0) (w_s w0) (w_s w').
Proof. intros E. pose proof (protect_hstep i w0 I) as H. rewrite E in H. exact (proj1 H). Qed.
Theorem protect_rtcp_frame i w0 w' r : protect_rtcp i w0 = (w', r) -> sess_step (rtcp_ssrc w0) (w_s w0) (w_s w').
Proof. intros E. pose proof (protect_rtcp_hstep i w0 I) as H. rewrite E in H. exact (proj1 H). Qed.
Theorem protect_aead_frame i w0 w' r : protect_aead i w0 = (w', r) -> sess_step (rtp_ssrc w0) (w_s w0) (w_s w').
Proof. intros E. pose proof (protect_aead_hstep i w0 I) as H. rewrite E in H. exact (proj1 H). Qed.
Theorem protect_rtcp_aead_frame i w0 w' r :
  protect_rtcp_aead i w0 = (w', r) -> sess_step (rtcp_ssrc w0) (w_s w0) (w_s w').
Proof. intros E. pose proof (protect_rtcp_aead_hstep i w0 I) as H. rewrite E in H. exact (proj1 H). Qed.

(* ===================================================================== *)
(* 4. what a step keeps                                                   *)
(* ===================================================================== *)
(* every SSRC that had a stream still has one, frame-equal (identical when it is not the packet's SSRC), with
   the same per-stream trailer; a stream that appears for the packet's SSRC is a clone of the template and has
   the template's trailer; the template keeps its trailer *)
Theorem sess_step_streams x a b :
  sess_step x a b ->
  (forall y s, list_get (ss_list a) y = Some s ->
     exists s', list_get (ss_list b) y = Some s' /\ frame_eq s s' /\ (y <> x -> s' = s) /\
                forall is_rtp j, stream_trailer s' is_rtp j = stream_trailer s is_rtp j) /\
  (forall y, y <> x -> list_get (ss_list b) y = list_get (ss_list a) y) /\
  (forall c, list_get (ss_list a) x = None -> list_get (ss_list b) x = Some c ->
     exists t, ss_template a = Some t /\ clone_of t x c /\
               forall is_rtp j, stream_trailer c is_rtp j = stream_trailer t is_rtp j) /\
  (forall t, ss_template a = Some t ->
     exists t', ss_template b = Some t' /\ (exists l, t' = set_limits t l) /\
                forall is_rtp j, stream_trailer t' is_rtp j = stream_trailer t is_rtp j) /\
  (ss_template a = None -> ss_template b = None).
Proof.
  destruct a as [ta la ca], b as [tb lb cb]. intros [HT HL]. cbn [ss_template ss_list] in *.
  split; [|split; [|split; [|split]]].
  - intros y s G. destruct HL as [|s0 n G0 F0|t c G0 T0 C0].
    + exists s. split; [exact G|]. split; [apply frame_eq_refl|]. split; [reflexivity|reflexivity].
    + assert (Sn : s_ssrc n = x).
      { destruct F0 as (E & _). rewrite E. exact (TableProofs.list_get_ssrc _ _ _ G0). }
      destruct (Z.eq_dec y x) as [->|N].
      * rewrite G0 in G. injection G as ->. exists n.
        split; [rewrite (TableProofs.list_get_replace_same _ _ _ Sn), G0; reflexivity|].
        split; [exact F0|]. split; [intros C; contradiction|]. intros is_rtp j. apply stream_trailer_frame. exact F0.
      * exists s. split; [rewrite (TableProofs.list_get_replace_other _ _ _ _ Sn N); exact G|].
        split; [apply frame_eq_refl|]. split; [reflexivity|reflexivity].
    + exists s. split; [apply TableProofs.list_get_app_extends; exact G|].
      split; [apply frame_eq_refl|]. split; [reflexivity|reflexivity].
  - intros y N. destruct HL as [|s0 n G0 F0|t c G0 T0 C0]; [reflexivity| |].
    + assert (Sn : s_ssrc n = x).
      { destruct F0 as (E & _). rewrite E. exact (TableProofs.list_get_ssrc _ _ _ G0). }
      exact (TableProofs.list_get_replace_other _ _ _ _ Sn N).
    + apply TableProofs.list_get_app_other. destruct C0 as (E & _). congruence.
  - intros c N G. destruct HL as [|s0 n G0 F0|t c0 G0 T0 C0].
    + rewrite N in G. discriminate.
    + rewrite N in G0. discriminate.
    + pose proof C0 as (Sc & _). rewrite TableProofs.list_get_app, N, Sc, Z.eqb_refl in G. injection G as <-.
      exists t. split; [exact T0|]. split; [exact C0|]. intros is_rtp j. apply (stream_trailer_clone t x). exact C0.
  - intros t ->. destruct tb as [t'|]; cbn in HT; [|contradiction]. destruct HT as [l ->].
    exists (set_limits t l). split; [reflexivity|]. split; [exists l; reflexivity|]. reflexivity.
  - intros ->. destruct tb; cbn in HT; [contradiction|reflexivity].
Qed.

(* ---- the session query ---- *)
Lemma map_trailer_ext is_rtp i l : forall l',
  map (fun s => stream_trailer s is_rtp i) l' = map (fun s => stream_trailer s is_rtp i) l ->
  existsb (tr_ok is_rtp i) l' = existsb (tr_ok is_rtp i) l /\
  map (tr_len is_rtp i) (filter (tr_ok is_rtp i) l') = map (tr_len is_rtp i) (filter (tr_ok is_rtp i) l).
Proof.
  induction l as [|a t IH]; intros [|a' t'] H; cbn [map] in H; try discriminate; [split; reflexivity|].
  injection H as Ha Ht. destruct (IH _ Ht) as [E1 E2].
  assert (O : tr_ok is_rtp i a' = tr_ok is_rtp i a) by (unfold tr_ok; rewrite Ha; reflexivity).
  assert (N : tr_len is_rtp i a' = tr_len is_rtp i a) by (unfold tr_len; rewrite Ha; reflexivity).
  cbn [existsb filter]. rewrite O, E1. split; [reflexivity|].
  destruct (tr_ok is_rtp i a); cbn [map]; [rewrite N, E2; reflexivity|exact E2].
Qed.
Lemma map_trailer_replace is_rtp i l x s n :
  list_get l x = Some s -> stream_trailer n is_rtp i = stream_trailer s is_rtp i ->
  map (fun s => stream_trailer s is_rtp i) (list_replace l x n) = map (fun s => stream_trailer s is_rtp i) l.
Proof.
  intros G E. induction l as [|a t IH]; cbn [list_get list_replace] in *; [discriminate|].
  destruct (s_ssrc a =? x); cbn [map].
  - injection G as ->. rewrite E. reflexivity.
  - rewrite (IH G). reflexivity.
Qed.

(* a step changes neither whether the query succeeds nor its value *)
Lemma sess_step_query is_rtp i x a b :
  sess_step x a b ->
  (match ss_template b with Some _ => true | None => false end) || existsb (tr_ok is_rtp i) (ss_list b) =
  (match ss_template a with Some _ => true | None => false end) || existsb (tr_ok is_rtp i) (ss_list a) /\
  tr_max is_rtp i b = tr_max is_rtp i a.
Proof.
  destruct a as [ta la ca], b as [tb lb cb]. intros [HT HL]. unfold tr_max, tr_base. cbn [ss_template ss_list] in *.
  assert (TB : (match tb with Some t => tr_len is_rtp i t | None => 0 end) = (match ta with Some t => tr_len is_rtp i t | None => 0 end) /\
               (match tb with Some _ => true | None => false end) = (match ta with Some _ => true | None => false end)).
  { destruct ta as [t|], tb as [t'|]; cbn in HT; try contradiction; [|split; reflexivity].
    destruct HT as [l ->]. split; reflexivity. }
  destruct TB as [-> ->].
  destruct HL as [|s n G F|t c G T C].
  - split; reflexivity.
  - destruct (map_trailer_ext is_rtp i _ _ (map_trailer_replace is_rtp i _ _ _ _ G (stream_trailer_frame _ _ is_rtp i F)))
      as [-> ->]. split; reflexivity.
  - subst ta. cbn [orb]. split; [reflexivity|].
    rewrite filter_app, map_app, fold_left_app. cbn [filter].
    destruct (tr_ok is_rtp i c); cbn [map fold_left]; [|reflexivity].
    assert (E : tr_len is_rtp i c = tr_len is_rtp i t) by (unfold tr_len; rewrite (stream_trailer_clone t x c is_rtp i C); reflexivity).
    rewrite E.
    pose proof (fold_max_ge_init (map (tr_len is_rtp i) (filter (tr_ok is_rtp i) la)) (tr_len is_rtp i t)). lia.
Qed.

(* the query on the world after a step returns what it returned before (success or st_bad_param alike) *)
Theorem trailer_length_step is_rtp j x w w' :
  sess_step x (w_s w) (w_s w') -> trailer_length is_rtp j w' = (w', snd (trailer_length is_rtp j w)).
Proof.
  intros H. rewrite !trailer_length_eq. cbn [snd].
  destruct (sess_step_query is_rtp j _ _ _ H) as [-> ->]. reflexivity.
Qed.

(* ===================================================================== *)
(* 5. the four functions                                                  *)
(* ===================================================================== *)
(* 5.1 the streams (and the per-stream trailers) across a call, any result *)
Definition streams_kept (x : Z) (a b : session) : Prop :=
  (forall y s, list_get (ss_list a) y = Some s ->
     exists s', list_get (ss_list b) y = Some s' /\ frame_eq s s' /\ (y <> x -> s' = s) /\
                forall is_rtp j, stream_trailer s' is_rtp j = stream_trailer s is_rtp j) /\
  (forall y, y <> x -> list_get (ss_list b) y = list_get (ss_list a) y) /\
  (forall c, list_get (ss_list a) x = None -> list_get (ss_list b) x = Some c ->
     exists t, ss_template a = Some t /\ clone_of t x c /\
               forall is_rtp j, stream_trailer c is_rtp j = stream_trailer t is_rtp j) /\
  (forall t, ss_template a = Some t ->
     exists t', ss_template b = Some t' /\ (exists l, t' = set_limits t l) /\
                forall is_rtp j, stream_trailer t' is_rtp j = stream_trailer t is_rtp j) /\
  (ss_template a = None -> ss_template b = None).

Theorem protect_keeps_streams i w0 w' r : protect i w0 = (w', r) -> streams_kept (rtp_ssrc w0) (w_s w0) (w_s w').
Proof. intros E. exact (sess_step_streams _ _ _ (protect_frame _ _ _ _ E)). Qed.
Theorem protect_rtcp_keeps_streams i w0 w' r :
  protect_rtcp i w0 = (w', r) -> streams_kept (rtcp_ssrc w0) (w_s w0) (w_s w').
Proof. intros E. exact (sess_step_streams _ _ _ (protect_rtcp_frame _ _ _ _ E)). Qed.
Theorem protect_aead_keeps_streams i w0 w' r :
  protect_aead i w0 = (w', r) -> streams_kept (rtp_ssrc w0) (w_s w0) (w_s w').
Proof. intros E. exact (sess_step_streams _ _ _ (protect_aead_frame _ _ _ _ E)). Qed.
Theorem protect_rtcp_aead_keeps_streams i w0 w' r :
  protect_rtcp_aead i w0 = (w', r) -> streams_kept (rtcp_ssrc w0) (w_s w0) (w_s w').
Proof. intros E. exact (sess_step_streams _ _ _ (protect_rtcp_aead_frame _ _ _ _ E)). Qed.
(* spelled out for the two kinds of result *)
Corollary protect_ok_keeps_streams i w0 w' l :
  protect i w0 = (w', inl l) -> streams_kept (rtp_ssrc w0) (w_s w0) (w_s w').
Proof. apply protect_keeps_streams. Qed.
Corollary protect_refused_keeps_streams i w0 w' e :
  protect i w0 = (w', inr e) -> streams_kept (rtp_ssrc w0) (w_s w0) (w_s w').
Proof. apply protect_keeps_streams. Qed.

(* 5.2 the session query (either flavour, any mki_index) across a call, any result *)
Theorem trailer_length_stable i w0 w' r is_rtp j :
  protect i w0 = (w', r) -> trailer_length is_rtp j w' = (w', snd (trailer_length is_rtp j w0)).
Proof. intros E. exact (trailer_length_step _ _ _ _ _ (protect_frame _ _ _ _ E)). Qed.
Theorem trailer_length_stable_rtcp i w0 w' r is_rtp j :
  protect_rtcp i w0 = (w', r) -> trailer_length is_rtp j w' = (w', snd (trailer_length is_rtp j w0)).
Proof. intros E. exact (trailer_length_step _ _ _ _ _ (protect_rtcp_frame _ _ _ _ E)). Qed.
Theorem trailer_length_stable_aead i w0 w' r is_rtp j :
  protect_aead i w0 = (w', r) -> trailer_length is_rtp j w' = (w', snd (trailer_length is_rtp j w0)).
Proof. intros E. exact (trailer_length_step _ _ _ _ _ (protect_aead_frame _ _ _ _ E)). Qed.
Theorem trailer_length_stable_rtcp_aead i w0 w' r is_rtp j :
  protect_rtcp_aead i w0 = (w', r) -> trailer_length is_rtp j w' = (w', snd (trailer_length is_rtp j w0)).
Proof. intros E. exact (trailer_length_step _ _ _ _ _ (protect_rtcp_aead_frame _ _ _ _ E)). Qed.

(* 5.3 the query made AFTER a successful call covers what the call appended *)
Theorem protect_within_query_post w0 i w' l :
  session_wf (w_s w0) -> size_ok (b_cap (w_b w0)) ->
  protect i w0 = (w', inl l) ->
  exists n, trailer_length true i w' = (w', inl n) /\ l - b_len (w_b w0) <= n.
Proof.
  intros W C H. destruct (protect_within_query w0 i w' l W C H) as (n & Hn & Le).
  exists n. split; [|exact Le]. rewrite (trailer_length_stable _ _ _ _ true i H), Hn. reflexivity.
Qed.
Theorem protect_rtcp_within_query_post w0 i w' l :
  session_wf (w_s w0) -> size_ok (b_cap (w_b w0)) ->
  protect_rtcp i w0 = (w', inl l) ->
  exists n, trailer_length false i w' = (w', inl n) /\ l - b_len (w_b w0) <= n.
Proof.
  intros W C H. destruct (protect_rtcp_within_query w0 i w' l W C H) as (n & Hn & Le).
  exists n. split; [|exact Le]. rewrite (trailer_length_stable_rtcp _ _ _ _ false i H), Hn. reflexivity.
Qed.
Theorem protect_aead_within_query_post w0 i w' l :
  b_oob (w_b w0) = false -> size_ok (b_len (w_b w0)) -> b_cap (w_b w0) <= lenZ (b_dst (w_b w0)) ->
  (b_alias (w_b w0) = true -> b_len (w_b w0) <= lenZ (b_dst (w_b w0))) ->
  (b_alias (w_b w0) = false -> b_len (w_b w0) <= lenZ (b_src (w_b w0))) ->
  session_wf (w_s w0) ->
  protect_aead i w0 = (w', inl l) ->
  exists n, trailer_length true i w' = (w', inl n) /\ l - b_len (w_b w0) <= n.
Proof.
  intros O S C A1 A2 W H. destruct (protect_aead_within_query w0 i w' l O S C A1 A2 W H) as (n & Hn & Le).
  exists n. split; [|exact Le]. rewrite (trailer_length_stable_aead _ _ _ _ true i H), Hn. reflexivity.
Qed.
Theorem protect_rtcp_aead_within_query_post w0 i w' l :
  session_wf (w_s w0) -> size_ok (b_cap (w_b w0)) ->
  protect_rtcp_aead i w0 = (w', inl l) ->
  exists n, trailer_length false i w' = (w', inl n) /\ l - b_len (w_b w0) <= n.
Proof.
  intros W C H. destruct (protect_rtcp_aead_within_query w0 i w' l W C H) as (n & Hn & Le).
  exists n. split; [|exact Le]. rewrite (trailer_length_stable_rtcp_aead _ _ _ _ false i H), Hn. reflexivity.
Qed.

(* ===================================================================== *)
(* 6. examples                                                            *)
(* ===================================================================== *)
Module TrailerPostEx.
Import TrailerEx.
Definition new_ssrc : Z := 16909060.   (* 0x01020304, the SSRC field of pkt_new *)

(* sess2 (template: trailer 4, no MKI; explicit stream 0xCAFEBABE: trailer 12), a packet with a new SSRC:
   srtp_protect inserts a clone of the template, appends 4 octets, and the query made on the world the call
   leaves still answers 12 — protect_within_query_post applies *)
Example sess2_within_post :
  exists w' l n, protect 1 w_new = (w', inl l) /\
                 map s_ssrc (ss_list (w_s w_new)) = [RtpEx.ssrc] /\ map s_ssrc (ss_list (w_s w')) = [RtpEx.ssrc; new_ssrc] /\
                 trailer_length true 1 w' = (w', inl n) /\
                 l - b_len (w_b w_new) <= n /\ l - b_len (w_b w_new) = 4 /\ n = 12.
Proof.
  destruct (protect 1 w_new) as [w' [l|e]] eqn:E.
  2:{ exfalso. assert (X : snd (protect 1 w_new) = inl 16) by (vm_compute; reflexivity). rewrite E in X. discriminate X. }
  assert (El : l = 16).
  { assert (X : snd (protect 1 w_new) = inl 16) by (vm_compute; reflexivity). rewrite E in X. cbn [snd] in X. congruence. }
  assert (Ls : map s_ssrc (ss_list (w_s w')) = [RtpEx.ssrc; new_ssrc]).
  { assert (X : map s_ssrc (ss_list (w_s (fst (protect 1 w_new)))) = [RtpEx.ssrc; new_ssrc]) by (vm_compute; reflexivity).
    rewrite E in X. exact X. }
  destruct (protect_within_query_post w_new 1 w' l sess2_wf) as (n & Hn & Le);
    [unfold size_ok; change (b_cap (w_b w_new)) with 96; lia|exact E|].
  exists w', l, n. split; [reflexivity|]. split; [vm_compute; reflexivity|]. split; [exact Ls|].
  split; [exact Hn|]. split; [exact Le|]. split; [subst l; reflexivity|].
  (* the value: the query before the call, by evaluation, carried over by trailer_length_stable *)
  rewrite (trailer_length_stable _ _ _ _ true 1 E) in Hn.
  assert (X : snd (trailer_length true 1 w_new) = inl 12) by (vm_compute; reflexivity). rewrite X in Hn. congruence.
Qed.

(* the inserted stream is a clone of the template and has the template's trailer (4 / 8); the explicit stream
   is untouched *)
Example sess2_clone_trailer :
  exists w' c t, fst (protect 1 w_new) = w' /\ list_get (ss_list (w_s w')) new_ssrc = Some c /\ ss_template (w_s w_new) = Some t /\
                 clone_of t new_ssrc c /\ stream_trailer c true 1 = (st_ok, 4) /\ stream_trailer c false 1 = (st_ok, 8) /\
                 list_get (ss_list (w_s w')) RtpEx.ssrc = list_get (ss_list (w_s w_new)) RtpEx.ssrc.
Proof.
  destruct (protect 1 w_new) as [w' r] eqn:E.
  destruct (protect_keeps_streams _ _ _ _ E) as (_ & KO & KN & _).
  assert (X9 : rtp_ssrc w_new = new_ssrc) by (vm_compute; reflexivity). rewrite X9 in KO, KN.
  destruct (list_get (ss_list (w_s w')) new_ssrc) as [c|] eqn:G.
  2:{ exfalso. assert (X : map s_ssrc (ss_list (w_s (fst (protect 1 w_new)))) = [RtpEx.ssrc; new_ssrc]) by (vm_compute; reflexivity).
      rewrite E in X. cbn [fst] in X. apply TableProofs.list_get_none_iff in G. apply G. rewrite X. right. left. reflexivity. }
  destruct (KN c) as (t & Ht & Hc & Tr); [vm_compute; reflexivity|reflexivity|].
  exists w', c, t. split; [reflexivity|]. split; [exact G|]. split; [exact Ht|]. split; [exact Hc|].
  assert (T4 : match ss_template (w_s w_new) with Some t => stream_trailer t true 1 = (st_ok, 4) /\ stream_trailer t false 1 = (st_ok, 8) | None => False end)
    by (vm_compute; split; reflexivity).
  rewrite Ht in T4. rewrite !Tr. split; [exact (proj1 T4)|]. split; [exact (proj2 T4)|].
  apply KO. vm_compute. discriminate.
Qed.

(* a session with the template only: the clone's (ok) trailer enters the maximum, and the maximum stays the
   template's value *)
Definition sess1 : session := w_s (fst (session_create [pol_t] Witness.w0)).
Definition w1_new : world := Witness.mkw sess1 (RtpEx.inplace pkt_new).
Example sess1_wf : session_wf sess1.
Proof. apply session_wf_b_ok. vm_compute. reflexivity. Qed.
Example sess1_within_post :
  exists w' l, protect 0 w1_new = (w', inl l) /\ ss_list (w_s w1_new) = [] /\ map s_ssrc (ss_list (w_s w')) = [new_ssrc] /\
               trailer_length true 0 w1_new = (w1_new, inl 4) /\ trailer_length true 0 w' = (w', inl 4) /\
               l - b_len (w_b w1_new) = 4.
Proof.
  destruct (protect 0 w1_new) as [w' [l|e]] eqn:E.
  2:{ exfalso. assert (X : snd (protect 0 w1_new) = inl 16) by (vm_compute; reflexivity). rewrite E in X. discriminate X. }
  assert (El : l = 16).
  { assert (X : snd (protect 0 w1_new) = inl 16) by (vm_compute; reflexivity). rewrite E in X. cbn [snd] in X. congruence. }
  assert (Q0 : trailer_length true 0 w1_new = (w1_new, inl 4)) by (vm_compute; reflexivity).
  exists w', l. split; [reflexivity|]. split; [vm_compute; reflexivity|]. split.
  { assert (X : map s_ssrc (ss_list (w_s (fst (protect 0 w1_new)))) = [new_ssrc]) by (vm_compute; reflexivity). rewrite E in X. exact X. }
  split; [exact Q0|]. split; [|subst l; reflexivity].
  rewrite (trailer_length_stable _ _ _ _ true 0 E), Q0. reflexivity.
Qed.

(* a REFUSED call is not a no-op on the session: with *out_len one octet too small srtp_protect exits with
   srtp_err_status_buffer_small AFTER the clone for the new SSRC has been inserted; the frame lemma and
   trailer_length_stable cover this exit too *)
Definition w_small : world :=
  Witness.mkw sess2 {| b_src := []; b_dst := pkt_new ++ repeat 170%N 20; b_alias := true; b_len := 12; b_cap := 15; b_oob := false |}.
Example refused_call_changes_session :
  exists w', protect 1 w_small = (w', inr st_buffer_small) /\
             map s_ssrc (ss_list (w_s w_small)) = [RtpEx.ssrc] /\ map s_ssrc (ss_list (w_s w')) = [RtpEx.ssrc; new_ssrc] /\
             w_s w' <> w_s w_small /\
             trailer_length true 1 w_small = (w_small, inl 12) /\ trailer_length true 1 w' = (w', inl 12).
Proof.
  destruct (protect 1 w_small) as [w' r] eqn:E.
  assert (Er : r = inr st_buffer_small).
  { assert (X : snd (protect 1 w_small) = inr st_buffer_small) by (vm_compute; reflexivity). rewrite E in X. exact X. }
  assert (Ls : map s_ssrc (ss_list (w_s w')) = [RtpEx.ssrc; new_ssrc]).
  { assert (X : map s_ssrc (ss_list (w_s (fst (protect 1 w_small)))) = [RtpEx.ssrc; new_ssrc]) by (vm_compute; reflexivity).
    rewrite E in X. exact X. }
  assert (L0 : map s_ssrc (ss_list (w_s w_small)) = [RtpEx.ssrc]) by (vm_compute; reflexivity).
  assert (Q0 : trailer_length true 1 w_small = (w_small, inl 12)) by (vm_compute; reflexivity).
  exists w'. subst r. split; [reflexivity|]. split; [exact L0|]. split; [exact Ls|]. split.
  { intros C. rewrite C, L0 in Ls. discriminate Ls. }
  split; [exact Q0|]. rewrite (trailer_length_stable _ _ _ _ true 1 E), Q0. reflexivity.
Qed.
End TrailerPostEx.

Print Assumptions frame_eq_iff_upd.
Print Assumptions protect_frame.
Print Assumptions protect_rtcp_frame.
Print Assumptions protect_aead_frame.
Print Assumptions protect_rtcp_aead_frame.
Print Assumptions sess_step_streams.
Print Assumptions trailer_length_step.
Print Assumptions protect_keeps_streams.
Print Assumptions protect_rtcp_keeps_streams.
Print Assumptions protect_aead_keeps_streams.
Print Assumptions protect_rtcp_aead_keeps_streams.
Print Assumptions trailer_length_stable.
Print Assumptions trailer_length_stable_rtcp.
Print Assumptions trailer_length_stable_aead.
Print Assumptions trailer_length_stable_rtcp_aead.
Print Assumptions protect_within_query_post.
Print Assumptions protect_rtcp_within_query_post.
Print Assumptions protect_aead_within_query_post.
Print Assumptions protect_rtcp_aead_within_query_post.
Print Assumptions TrailerPostEx.sess2_within_post.
Print Assumptions TrailerPostEx.sess2_clone_trailer.
Print Assumptions TrailerPostEx.sess1_within_post.
Print Assumptions TrailerPostEx.refused_call_changes_session.
