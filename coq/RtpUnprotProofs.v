(* RtpUnprotProofs.v — C12 (SRTP, receiver half): the monadic model of srtp_unprotect (Rtp.v)
   REFINES the pure function unprotect_fun of RtpUnprotSpec.v, in place (b_alias = true) and
   out of place (b_alias = false, any destination prefill), FOR EVERY INPUT (valid, replayed,
   tampered, malformed) and FOR EVERY CLASS OF STREAM (plain, RFC 6904 header-extension
   encryption, cryptex, both).  Consequence: status, length, output bytes and final session do
   not depend on the alias mode nor on what the destination held before; the source block is
   never written; no out-of-bounds access is flagged.

   Restrictions (stated in every theorem):
   - the session holds an explicit stream for the packet's SSRC (no template / clone path);
   - the stream is well formed (stream_wf: what srtp_stream_init builds).

   Main results: unprotect_refines, unprotect_buffers_independent, unprotect_alias_independent,
   unprotect_prefill_independent (section 6); unprotect_cryptex_xtn_rejected and the evaluated
   instance unprotect_alias_cryptex_xtn_not_refuted (section 7).

   Layout: 1 the record of the first phase as the model numbers it; 2 the cipher (one run = two
   runs over adjacent pieces, from IcmProofs.v); 3 cryptex buffer layouts as list equations;
   4 first phase (unprotect_pre_tri); 5 second phase (xtn_step, dec_step, cx_in, cx_out,
   unprotect_post_tri); 6 theorems on worlds; 7 cryptex together with RFC 6904. *)
From Coq Require Import NArith ZArith List Bool Lia.
From Srtp Require Import XtnProofs CryptexProofs.
From Srtp Require Import Util Constants KeyLimit Rdb Rdbx Icm World Stream Rtp
     MonadLemmas EnvelopeProofs WfProofs BoundsRtcp BoundsRtp LengthProofs RtcpSpec RtpSpec RtpSpecProofs
     RtpRoundTrip RtpXtnApply IcmProofs RtpUnprotSpec.
From Srtp.Crypto Require Import AES.
Import ListNotations.
Local Open Scope Z_scope.

(* ===================================================================== *)
(* 1. the first phase as the model numbers it                              *)
(* ===================================================================== *)
(* Under cryptex the model's in-place call moves the start of the encrypted portion back over
   the CSRC list (and sets u_inplace); everything else in the record is alias independent. *)
Definition upre_al (al : bool) (u : upre) : upre :=
  let sh := if u_inuse u && al then 4 * hdr_cc (u_pkt u) else 0 in
  {| u_pkt := u_pkt u; u_ssrc := u_ssrc u; u_ref := u_ref u; u_est := u_est u; u_delta := u_delta u;
     u_adv := u_adv u; u_ki := u_ki u; u_k := u_k u; u_cs := u_cs u; u_iv := u_iv u;
     u_enc_start := u_enc_start u - sh; u_enc_len := u_enc_len u + sh;
     u_inuse := u_inuse u; u_inplace := u_inuse u && al |}.

Lemma cryptex_not_plain v :
  v = cryptex_one_byte_profile_c \/ v = cryptex_two_byte_profile_c ->
  negb (v =? xtn_hdr_one_byte_profile_c) && negb (Z.land v 65520 =? xtn_hdr_two_byte_profile_c) = true.
Proof. intros [-> | ->]; reflexivity. Qed.

(* ===================================================================== *)
(* 2. the cipher: one run or two runs over adjacent pieces                 *)
(* ===================================================================== *)
Definition isbyte (b : N) : Prop := (b < 256)%N.
Lemma Forall_take {A} (P : A -> Prop) n (l : list A) : Forall P l -> Forall P (take n l).
Proof.
  revert l. induction n as [|n IH]; intros l H; [constructor|].
  destruct l as [|x l]; [constructor|]. inversion H; subst. constructor; auto.
Qed.
Lemma Forall_drop {A} (P : A -> Prop) n (l : list A) : Forall P l -> Forall P (drop n l).
Proof.
  revert l. induction n as [|n IH]; intros l H; [exact H|].
  destruct l as [|x l]; [constructor|]. inversion H; subst. cbn. apply IH. assumption.
Qed.
Lemma zeros_bytes n : Forall isbyte (zeros n).
Proof. unfold zeros. induction n; cbn; constructor; [reflexivity|assumption]. Qed.
Lemma be16_bytes l o : Forall isbyte l -> be16 l o <= 65535.
Proof.
  intros H. unfold be16, slice.
  assert (F : Forall isbyte (take 2 (drop o l))) by (apply Forall_take, Forall_drop, H).
  destruct (take 2 (drop o l)) as [|a [|b [|c r]]] eqn:ET.
  - cbn. lia.
  - inversion F; subst. unfold isbyte in *. cbn [be_val length]. cbn. lia.
  - inversion F as [|? ? Fa F1]; subst. inversion F1 as [|? ? Fb _]; subst. unfold isbyte in *.
    cbn [be_val length]. change (256 ^ N.of_nat 1)%N with 256%N. change (256 ^ N.of_nat 0)%N with 1%N. lia.
  - exfalso. assert (L : (length (take 2 (drop o l)) <= 2)%nat) by (rewrite take_length; lia).
    rewrite ET in L. cbn in L. lia.
Qed.
Lemma rtp_iv_bytes alg ssrc est : Forall isbyte (rtp_iv alg ssrc est).
Proof.
  unfold rtp_iv, be64. destruct (is_icm_alg alg).
  - apply Forall_app. split; [apply zeros_bytes|]. apply Forall_app. split; apply be_bytes_bytes.
  - apply Forall_app. split; [apply zeros_bytes|apply be_bytes_bytes].
Qed.

Definition cs_wf (cs : cstate) : Prop :=
  match cs with
  | CSNull => True
  | CSIcm rks c => exists ctr0 pos, wf (aes_encrypt_rk rks) c ctr0 pos /\ in_range ctr0 pos
  end.

Lemma cs_wf_start k iv : Forall isbyte iv -> cs_wf (cipher_start k iv).
Proof.
  intros Hiv. unfold cipher_start. destruct (is_icm_alg (ck_alg k)); [|exact I].
  destruct (icm_init_lengths (ck_salt k)) as [Hoff Hbuf].
  exists (i_ctr (icm_set_iv (icm_init (ck_salt k)) iv)), 0. split.
  - apply wf_set_iv; assumption.
  - unfold in_range, blocks_of. rewrite ctr_low_set_iv_init.
    pose proof (be16_bytes (take 16 (iv ++ zeros 16)) 14) as B.
    assert (F : Forall isbyte (take 16 (iv ++ zeros 16))).
    { apply Forall_take, Forall_app. split; [exact Hiv|apply zeros_bytes]. }
    specialize (B F). change ((0 + 15) / 16) with 0. lia.
Qed.

Lemma cs_wf_next cs d s cs' o :
  cs_wf cs -> lenZ d + 15 < 18446744073709551616 ->
  cipher_encrypt cs d = (s, cs', o) -> (s =? st_ok) = true -> cs_wf cs'.
Proof.
  intros W Hn H ES. destruct cs as [|rks c]; cbn [cipher_encrypt] in H.
  - injection H as _ <- _. exact I.
  - destruct W as (ctr0 & pos & Hwf & Hr).
    pose proof (icm_encrypt_status (aes_encrypt_rk rks) c d) as ST.
    destruct (icm_refuses c (lenZ d)) eqn:Href.
    + destruct (icm_encrypt (aes_encrypt_rk rks) c d) as [[s1 c1] o1]. cbn [fst] in ST. injection H as <- _ _.
      subst s1. discriminate ES.
    + destruct (aes_icm_encrypt_ok rks c ctr0 pos d Hwf Href) as (c1 & Heq & Hwf1 & _).
      rewrite Heq in H. injection H as _ <- _.
      exists ctr0, (pos + lenZ d). split; [exact Hwf1|].
      apply (icm_accepts_in_range (aes_encrypt_rk rks) c ctr0 pos (lenZ d) Hwf Hr); [apply lenZ_nonneg|exact Hn|exact Href].
Qed.

Definition cipher_run2 (cs : cstate) (a b : bytes) : Z * cstate * bytes :=
  let '(s1, cs1, o1) := cipher_encrypt cs a in
  if s1 =? st_ok then let '(s2, cs2, o2) := cipher_encrypt cs1 b in (s2, cs2, o1 ++ o2)
  else (s1, cs1, o1).

(* two consecutive calls and one call over the concatenation agree on status and output as
   soon as one of them succeeds *)
Lemma cipher_chunk cs a b :
  cs_wf cs -> lenZ (a ++ b) + 15 < 18446744073709551616 ->
  fst (fst (cipher_run2 cs a b)) = st_ok \/ fst (fst (cipher_encrypt cs (a ++ b))) = st_ok ->
  fst (fst (cipher_run2 cs a b)) = st_ok /\ fst (fst (cipher_encrypt cs (a ++ b))) = st_ok /\
  snd (cipher_run2 cs a b) = snd (cipher_encrypt cs (a ++ b)).
Proof.
  intros W Hn Hok. destruct cs as [|rks c].
  - unfold cipher_run2. cbn. auto.
  - destruct W as (ctr0 & pos & Hwf & Hr).
    pose proof (aes_icm_chunking_independent rks [a; b] c ctr0 pos Hwf Hr) as CH.
    cbn [concat] in CH. rewrite app_nil_r in CH. specialize (CH Hn).
    assert (ER : cipher_run2 (CSIcm rks c) a b =
                 let '(s, c', o) := icm_run (aes_encrypt_rk rks) c [a; b] in (s, CSIcm rks c', o)).
    { unfold cipher_run2. cbn [cipher_encrypt icm_run].
      destruct (icm_encrypt (aes_encrypt_rk rks) c a) as [[s1 c1] o1]. cbv beta iota.
      destruct (s1 =? st_ok); [|reflexivity]. cbn [cipher_encrypt].
      destruct (icm_encrypt (aes_encrypt_rk rks) c1 b) as [[s2 c2] o2]. cbv beta iota.
      destruct (s2 =? st_ok) eqn:ES2; [|reflexivity].
      apply Z.eqb_eq in ES2. subst s2. rewrite app_nil_r. reflexivity. }
    rewrite ER in *. cbn [cipher_encrypt] in *.
    assert (Hok' : fst (fst (icm_run (aes_encrypt_rk rks) c [a; b])) = st_ok \/
                   fst (fst (icm_encrypt (aes_encrypt_rk rks) c (a ++ b))) = st_ok).
    { destruct (icm_run (aes_encrypt_rk rks) c [a; b]) as [[s c'] o].
      destruct (icm_encrypt (aes_encrypt_rk rks) c (a ++ b)) as [[s' c''] o']. exact Hok. }
    specialize (CH Hok'). rewrite CH in *.
    destruct (icm_encrypt (aes_encrypt_rk rks) c (a ++ b)) as [[s' c''] o']. cbn [fst snd] in *.
    destruct Hok' as [H|H]; auto.
Qed.

(* ===================================================================== *)
(* 3. cryptex: the buffer layouts as equations on lists                   *)
(* ===================================================================== *)
Lemma adjust_dst_0 (dd : bytes) : adjust_dst 0 dd = dd.
Proof. unfold adjust_dst. change (slice 12 0 dd) with (@nil N). rewrite splice_nil. apply splice_self. Qed.
Lemma restore_dst_0 (dd : bytes) : restore_dst 0 dd = dd.
Proof. unfold restore_dst. change (slice 16 0 dd) with (@nil N). rewrite splice_nil. apply splice_self. Qed.

Section CXL.
Variables (n : nat) (p : bytes).
Hypothesis Lp : (12 + n + 4 <= length p)%nat.
Let H := take 12 p.
Let Cs := slice 12 n p.
Let X := slice (12 + n) 4 p.
Let T := drop (12 + n + 4) p.

Lemma cxl_len : length H = 12%nat /\ length Cs = n /\ length X = 4%nat.
Proof. subst H Cs X. rewrite take_length, !slice_length. lia. Qed.

Lemma cxl_split : p = H ++ Cs ++ X ++ T.
Proof.
  subst H Cs X T. unfold slice.
  assert (E1 : drop (12 + n + 4) p = drop 4 (drop (12 + n) p)) by (rewrite drop_drop; reflexivity).
  assert (E2 : drop (12 + n) p = drop n (drop 12 p)) by (rewrite drop_drop; reflexivity).
  rewrite E1, take_drop_id, E2, take_drop_id, take_drop_id. reflexivity.
Qed.

Lemma cxl_adjust : adjust_dst n p = (H ++ X) ++ Cs ++ T.
Proof.
  destruct (adjust_dst_layout n p Lp) as (A & _). rewrite A. subst H Cs X T. rewrite <- app_assoc. reflexivity.
Qed.

(* the run the in-place call decrypts *)
Lemma cxl_run el : slice 16 (n + el) (adjust_dst n p) = slice 12 n p ++ slice (12 + n + 4) el p.
Proof.
  destruct cxl_len as (L1 & L2 & L3). rewrite cxl_adjust.
  rewrite (CryptexProofs.slice_app_exact (H ++ X) _ 16 (n + el)) by (rewrite app_length; lia).
  rewrite <- L2 at 1. rewrite take_app_len_plus. reflexivity.
Qed.

(* in place: write the decrypted run, undo the shuffle *)
Lemma cxl_inplace el (o : bytes) :
  length o = (n + el)%nat -> (12 + n + 4 + el <= length p)%nat ->
  take (12 + n + 4 + el) (restore_dst n (splice 16 o (adjust_dst n p))) =
  take 12 p ++ take n o ++ slice (12 + n) 4 p ++ drop n o.
Proof.
  intros Lo Lel. destruct cxl_len as (L1 & L2 & L3). rewrite cxl_adjust.
  assert (LT : (el <= length T)%nat) by (subst T; rewrite drop_length; lia).
  rewrite <- (take_drop_id el T) at 1.
  replace ((H ++ X) ++ Cs ++ take el T ++ drop el T) with ((H ++ X) ++ (Cs ++ take el T) ++ drop el T)
    by (rewrite <- !app_assoc; reflexivity).
  rewrite (splice_mid (H ++ X) (Cs ++ take el T) (drop el T) o 16)
    by (rewrite ?app_length, ?take_length; lia).
  rewrite <- (take_drop_id n o) at 1.
  replace ((H ++ X) ++ (take n o ++ drop n o) ++ drop el T) with (H ++ (X ++ take n o) ++ (drop n o ++ drop el T))
    by (rewrite <- !app_assoc; reflexivity).
  assert (LTo : length (take n o) = n) by (rewrite take_length; lia).
  assert (LM : length (X ++ take n o) = (n + 4)%nat) by (rewrite app_length; lia).
  rewrite (restore_dst_app n H (X ++ take n o) (drop n o ++ drop el T) L1 LM).
  rewrite (XtnProofs.drop_app_exact X (take n o) 4 L3), (XtnProofs.take_app_exact X (take n o) 4 L3).
  replace (H ++ take n o ++ X ++ drop n o ++ drop el T) with ((H ++ take n o ++ X ++ drop n o) ++ drop el T)
    by (rewrite <- !app_assoc; reflexivity).
  apply XtnProofs.take_app_exact. rewrite !app_length, drop_length. unfold H, X in *. lia.
Qed.

(* out of place: the CSRC list is decrypted where the header copy put it *)
Lemma cxl_csrc (o1 : bytes) :
  length o1 = n -> splice 12 o1 (take (12 + n + 4) p) = take 12 p ++ o1 ++ slice (12 + n) 4 p.
Proof.
  intros Lo. destruct cxl_len as (L1 & L2 & L3).
  assert (E : take (12 + n + 4) p = H ++ Cs ++ X).
  { rewrite cxl_split at 1. rewrite !app_assoc. apply XtnProofs.take_app_exact. rewrite !app_length. lia. }
  rewrite E. rewrite <- (app_nil_r X) at 1.
  rewrite (splice_mid H Cs (X ++ []) o1 12 L1) by lia. rewrite app_nil_r. reflexivity.
Qed.
End CXL.

(* srtp_cryptex_unprotect_cleanup: the plain profile comes back *)
Definition unprof (hl : nat) (R : bytes) : bytes :=
  match plain_profile_of (be16 R hl) with
  | Some v => splice hl (be_bytes 2 (Z.to_N v)) R
  | None => R
  end.
Lemma unprof_length hl R : length (unprof hl R) = length R.
Proof. unfold unprof. destruct (plain_profile_of _); [apply splice_length|reflexivity]. Qed.
Lemma unprof_take m hl R : (hl + 2 <= m)%nat -> take m (unprof hl R) = unprof hl (take m R).
Proof.
  intros H. unfold unprof. rewrite be16_take by exact H. destruct (plain_profile_of _); [|reflexivity].
  apply take_splice_in. rewrite be_bytes_length. exact H.
Qed.
Lemma be16_slice2_0 l hl : be16 (slice hl 2 l) 0 = be16 l hl.
Proof. unfold be16. rewrite slice_slice by lia. rewrite Nat.add_0_r. reflexivity. Qed.

(* the state the decryption starts from is a well-formed cipher state *)
Lemma rx_auth_wf (do_auth : bool) a cs0 m roc t cs1 :
  0 <= ak_prefix a <= 16 -> cs_wf cs0 -> rx_auth do_auth a cs0 m roc t = inl cs1 -> cs_wf cs1.
Proof.
  intros PL W. unfold rx_auth. destruct do_auth; [|intros H; injection H as <-; exact W].
  unfold rtcp_rx_prefix. destruct (negb (ak_prefix a =? 0)).
  - destruct (cipher_output cs0 (ak_prefix a)) as [[s cs'] ks] eqn:EO.
    destruct (s =? st_ok) eqn:ES; cbn [negb]; [|discriminate].
    destruct (SRTP_MAX_TAG_LEN_c <? ak_prefix a); [discriminate|]. cbv zeta. cbn [fst snd].
    destruct (SRTP_MAX_TAG_LEN_c <? _); [discriminate|]. destruct (beqb _ _); [|discriminate].
    intros H; injection H as <-. unfold cipher_output in EO.
    apply (cs_wf_next cs0 (zeros (zn (ak_prefix a))) s cs' ks W); [rewrite lenZ_zeros by lia; lia|exact EO|exact ES].
  - cbv zeta. cbn [fst snd]. destruct (SRTP_MAX_TAG_LEN_c <? _); [discriminate|]. destruct (beqb _ _); [|discriminate].
    intros H; injection H as <-. exact W.
Qed.

(* ===================================================================== *)
(* 4. the first phase                                                      *)
(* ===================================================================== *)
Lemma t_block3 {X Y Z W} (A : M X) (B : X -> M Y) (Cx : M Z) (K : Z -> M W) P R Q E1 (E : BinNums.Z -> world -> Prop) :
  tri P (x <- A ;; _ <- B x ;; Cx) R E1 -> (forall s w, E1 s w -> E s w) -> (forall z, tri (R z) (K z) Q E) ->
  tri P (x <- A ;; _ <- B x ;; z <- Cx ;; K z) Q E.
Proof.
  intros H HE HK w HP. specialize (H w HP). unfold bind in *.
  destruct (A w) as [w1 [x|s]]; [|exact (HE _ _ H)].
  destruct (B x w1) as [w2 [y|s]]; [|exact (HE _ _ H)].
  destruct (Cx w2) as [w3 [z|s]]; [exact (HK z w3 H)|exact (HE _ _ H)].
Qed.

Lemma t_conseq {A} (P : world -> Prop) (m : M A) (Q Q' : A -> world -> Prop) (E E' : Z -> world -> Prop) :
  tri P m Q' E' -> (forall a w, Q' a w -> Q a w) -> (forall s w, E' s w -> E s w) -> tri P m Q E.
Proof. intros H I J w HP. specialize (H w HP). destruct (m w) as [w1 [a|st]]; auto. Qed.

Section UNPROT.
Variables (L C : Z) (al : bool) (src d0 pkt : bytes).
Hypothesis HL : 0 <= L < 9223372036854775808.
Hypothesis HC : 0 <= C < 9223372036854775808.
Hypothesis HD : C <= lenZ d0.
(* the input block holds the packet (L octets) *)
Hypothesis Hpkt : take (zn L) (if al then d0 else src) = pkt.
Hypothesis HLp : lenZ pkt = L.

Notation S := (St L C al src d0).

Lemma Hpkt_b : take (zn L) (cur_src (b_init L C al src d0)) = pkt.
Proof. exact Hpkt. Qed.
Ltac norm_b :=
  change (b_len (b_init L C al src d0)) with L;
  change (b_cap (b_init L C al src d0)) with C;
  change (b_alias (b_init L C al src d0)) with al;
  rewrite ?Hpkt_b.

(* ---- reading the input ---- *)
Lemma t_rd_src0 ss off n E :
  0 <= off -> 0 <= n -> off + n <= L ->
  tri (S ss (eq d0)) (rd_src off n) (fun d w => d = slice (zn off) (zn n) pkt /\ S ss (eq d0) w) E.
Proof.
  intros H1 H2 H3. eapply t_post; [apply t_rd_src; assumption|].
  intros d w [(dd & Hdd & _ & Hd) Hw]. split; [|exact Hw]. rewrite Hd, <- Hdd.
  apply (in_slice L al src d0 pkt Hpkt); assumption.
Qed.

(* after the header copy: in place the block still holds the whole packet *)
Lemma rd_pkt ss es fs off n E :
  0 <= off -> 0 <= n -> off + n <= L ->
  tri (S ss (facts_ok ((0, P0 al pkt es) :: fs))) (rd_src off n)
      (fun d w => d = slice (zn off) (zn n) pkt /\ S ss (facts_ok ((0, P0 al pkt es) :: fs)) w) E.
Proof.
  intros H1 H2 H3. pose proof (in_slice L al src d0 pkt Hpkt off n H1 H2 H3) as I1.
  eapply t_post; [apply t_rd_src; assumption|].
  intros d w [(dd & Hf & _ & ->) Hw]. split; [|exact Hw]. unfold P0 in *. destruct al.
  - pose proof (Forall_inv Hf) as F0. apply (fact0_read _ _ _ _ F0). unfold lenZ, zn in *. lia.
  - exact I1.
Qed.

Lemma t_keys_by_packet ss st tl0 :
  stream_wf st -> 0 <= tl0 ->
  tri (S ss (eq d0)) (keys_by_packet st L tl0)
      (fun ik w => receiver_key_st st pkt L tl0 = inl ik /\ S ss (eq d0) w)
      (fun s w => receiver_key_st st pkt L tl0 = inr s /\ S ss (eq d0) w).
Proof.
  intros (M & _ & _) Htl. unfold keys_by_packet, receiver_key_st.
  destruct (negb (s_use_mki st)).
  - destruct (s_keys st) as [|k t]; [apply t_exit; auto|apply t_ret; auto].
  - destruct (L <? tl0) eqn:E1; [apply t_exit; auto|].
    destruct (L - tl0 <? s_mki_size st) eqn:E2; [apply t_exit; auto|].
    apply Z.ltb_ge in E1, E2.
    eapply t_bind; [apply t_rd_src0; lia|intros m]. apply t_pure; intros ->.
    destruct (find_mki (s_keys st) _ 0) as [r|]; [apply t_ret; auto|apply t_exit; auto].
Qed.

Lemma receiver_key_st_In st p len tl ki k : receiver_key_st st p len tl = inl (ki, k) -> In k (s_keys st).
Proof.
  unfold receiver_key_st. destruct (negb (s_use_mki st)).
  - destruct (s_keys st) as [|k1 t]; [discriminate|]. intros H; injection H as _ <-. left; reflexivity.
  - destruct (len <? tl); [discriminate|]. destruct (len - tl <? s_mki_size st); [discriminate|].
    destruct (find_mki (s_keys st) _ 0) as [r|] eqn:F; [|discriminate]. intros H; injection H as ->.
    exact (find_mki_In _ _ _ _ F).
Qed.

Lemma t_rx_index ss D st seq :
  tri (S ss D)
    (let '(est_st, est, delta) := est_index st seq in
     (if negb (est_st =? st_ok) && negb (est_st =? st_pkt_idx_adv) then exit_with est_st else ret tt) ;;;
     if est_st =? st_pkt_idx_adv then ret (est, delta, true)
     else check_st (rdbx_check (s_rdbx st) delta) ;;; ret (est, delta, false))
    (fun eda w => rx_index st seq = inl eda /\ S ss D w)
    (fun s w => rx_index st seq = inr s /\ S ss D w).
Proof.
  unfold rx_index. destruct (est_index st seq) as [[est_st est] delta].
  destruct (negb (est_st =? st_ok) && negb (est_st =? st_pkt_idx_adv)); [apply t_bind_exit; auto|].
  apply t_bind_ret.
  destruct (est_st =? st_pkt_idx_adv); [apply t_ret; auto|].
  unfold check_st. destruct (rdbx_check (s_rdbx st) delta =? st_ok);
    [apply t_bind_ret; apply t_ret; auto|apply t_bind_exit; auto].
Qed.

Lemma t_rx_prefix ss D cs0 prefix :
  tri (S ss D)
      (if negb (prefix =? 0) then
         let '(s, cs', ks) := cipher_output cs0 prefix in
         if negb (s =? st_ok) then exit_with st_cipher_fail
         else if SRTP_MAX_TAG_LEN_c <? prefix then exit_with st_model_oob
         else ret (cs', ks)
       else ret (cs0, []))
      (fun p w => rtcp_rx_prefix cs0 prefix = inl p /\ S ss D w)
      (fun s w => rtcp_rx_prefix cs0 prefix = inr s /\ S ss D w).
Proof.
  unfold rtcp_rx_prefix. destruct (negb (prefix =? 0)); [|apply t_ret; auto].
  destruct (cipher_output cs0 prefix) as [[s cs'] ks].
  destruct (negb (s =? st_ok)); [apply t_exit; auto|].
  destruct (SRTP_MAX_TAG_LEN_c <? prefix); [apply t_exit; auto|apply t_ret; auto].
Qed.

(* srtp_cryptex_unprotect_init reads profile and length of the extension from the input *)
Lemma t_inuse ss st E :
  (hdr_x pkt = 1 -> hdr_len pkt + 4 <= L) ->
  tri (S ss (eq d0))
      (if s_cryptex st && negb (Z.land (s_rtp_serv st) sec_serv_conf_c =? 0) && (hdr_x pkt =? 1) then
         h <- rd_src (hdr_len pkt) 4 ;;
         ret ((be16 h 0 =? cryptex_one_byte_profile_c) || (be16 h 0 =? cryptex_two_byte_profile_c))
       else ret false)
      (fun iu w => iu = rx_cryptex st pkt /\ S ss (eq d0) w) E.
Proof.
  intros X4. pose proof (hdr_cc_range pkt) as CC. pose proof (hdr_len_eq pkt) as HLn.
  unfold rx_cryptex, rtp_conf.
  destruct (s_cryptex st && negb (Z.land (s_rtp_serv st) sec_serv_conf_c =? 0) && (hdr_x pkt =? 1)) eqn:EC.
  - apply andb_true_iff in EC. destruct EC as [_ EC2]. apply Z.eqb_eq in EC2. specialize (X4 EC2).
    eapply t_bind; [apply t_rd_src0; lia|intros h]. apply t_pure; intros ->.
    apply t_ret. intros w Hw. split; [|exact Hw].
    change (zn 4) with 4%nat. rewrite be16_slice4_0. reflexivity.
  - apply t_ret. auto.
Qed.

Lemma t_xl ss (iu : bool) E :
  (iu = true -> hdr_x pkt = 1) -> (hdr_x pkt = 1 -> hdr_len pkt + 4 <= L) ->
  tri (S ss (eq d0)) (if iu then (h <- rd_src (hdr_len pkt) 4 ;; ret ((be16 h 2 + 1) * 4)) else ret 0)
      (fun xl w => xl = (if iu then xtn_len pkt else 0) /\ S ss (eq d0) w) E.
Proof.
  intros IX X4. pose proof (hdr_cc_range pkt) as CC. pose proof (hdr_len_eq pkt) as HLn.
  destruct iu; [|apply t_ret; auto]. specialize (X4 (IX eq_refl)).
  eapply t_bind; [apply t_rd_src0; lia|intros h]. apply t_pure; intros ->.
  apply t_ret. intros w Hw. split; [|exact Hw].
  change (zn 4) with 4%nat. rewrite be16_slice4. unfold xtn_len.
  replace (zn (hdr_len pkt + 2)) with (zn (hdr_len pkt) + 2)%nat by (unfold zn; lia). reflexivity.
Qed.

Lemma rx_cryptex_true st :
  rx_cryptex st pkt = true ->
  s_cryptex st = true /\ rtp_conf st = true /\ hdr_x pkt = 1 /\
  (xtn_profile pkt = cryptex_one_byte_profile_c \/ xtn_profile pkt = cryptex_two_byte_profile_c).
Proof.
  unfold rx_cryptex. intros H. apply andb_true_iff in H. destruct H as [H H4].
  apply andb_true_iff in H. destruct H as [H H3]. apply andb_true_iff in H. destruct H as [H1 H2].
  apply Z.eqb_eq in H3. apply orb_true_iff in H4. rewrite !Z.eqb_eq in H4. auto.
Qed.

Variable ss0 : session.
Variable st0 : stream.
Hypothesis Hget : list_get (ss_list ss0) (hdr_ssrc pkt) = Some st0.
Hypothesis Hwf : stream_wf st0.

(* what the second phase needs to know of the record *)
Definition pre_good (u0 : upre) : Prop :=
  validate_rtp pkt L = st_ok /\
  u_pkt u0 = pkt /\ u_ssrc u0 = hdr_ssrc pkt /\ u_ref u0 = RList (hdr_ssrc pkt) /\
  In (u_k u0) (s_keys st0) /\
  u_enc_start u0 = rx_enc_start st0 pkt /\ u_inuse u0 = rx_cryptex st0 pkt /\
  0 <= u_enc_len u0 /\ u_enc_start u0 + u_enc_len u0 <= L /\ u_enc_start u0 + u_enc_len u0 <= C /\
  cs_wf (u_cs u0).

Definition UPreQ (u : upre) (w : world) : Prop :=
  exists u0, unprotect_pre_fun ss0 C pkt = inl u0 /\ u = upre_al al u0 /\ pre_good u0 /\
             S ss0 (facts_ok [(0, P0 al pkt (u_enc_start u0))]) w.
Definition UPreE (s : Z) (w : world) : Prop :=
  unprotect_pre_fun ss0 C pkt = inr s /\ S ss0 Dany w.

Lemma rx_enc_start_bounds :
  validate_rtp pkt L = st_ok ->
  12 <= rx_enc_start st0 pkt <= L /\ (hdr_x pkt = 1 -> hdr_len pkt + 4 <= rx_enc_start st0 pkt).
Proof.
  intros EV. pose proof (enc0_bounds _ _ EV) as EB. apply validate_rtp_ok in EV. destruct EV as (V1 & V2 & V3).
  pose proof (hdr_cc_range pkt) as CC. pose proof (hdr_len_eq pkt) as HLn. pose proof (xtn_len_ge pkt) as XL.
  unfold rx_enc_start. change octets_in_rtp_xtn_hdr_c with 4.
  destruct (rx_cryptex st0 pkt) eqn:EI.
  - destruct (rx_cryptex_true _ EI) as (_ & _ & X & _). specialize (V3 X). split; [lia|]. intros _. lia.
  - split; [exact EB|]. intros X. unfold enc0. rewrite X. cbn [Z.eqb Pos.eqb]. lia.
Qed.

Lemma unprotect_pre_tri : tri (S ss0 (eq d0)) unprotect_pre UPreQ UPreE.
Proof.
  pose proof (eq_refl (unprotect_pre_fun ss0 C pkt)) as SPEC.
  unfold unprotect_pre_fun at 2 in SPEC. cbv zeta in SPEC. rewrite HLp in SPEC.
  unfold unprotect_pre, UPreQ, UPreE.
  eapply t_bind; [apply t_get_b0|intros b]. apply t_pure; intros ->.
  cbv beta zeta. norm_b.
  change octets_in_rtp_header_c with 12. change octets_in_rtp_xtn_hdr_c with 4.
  pose proof (hdr_cc_range pkt) as CC. pose proof (hdr_len_eq pkt) as HLn. pose proof (xtn_len_ge pkt) as XL.
  unfold check_st at 1. destruct (validate_rtp pkt L =? st_ok) eqn:EV; cbn [negb] in SPEC.
  2:{ apply t_bind_exit. intros w Hw. exact (conj SPEC (St_any _ _ _ _ _ _ _ _ Hw)). }
  apply t_bind_ret. apply Z.eqb_eq in EV.
  pose proof (validate_rtp_ok _ _ EV) as (V1 & V2 & V3).
  assert (X4 : hdr_x pkt = 1 -> hdr_len pkt + 4 <= L) by (intros X; specialize (V3 X); lia).
  destruct (rx_enc_start_bounds EV) as (ESB & ESX).
  eapply t_bind; [apply t_get_s|intros ss]. apply t_pure; intros ->.
  rewrite Hget in SPEC |- *. apply t_bind_ret.
  eapply t_bind; [apply t_get_stream_list; exact Hget|intros st]. apply t_pure; intros ->.
  (* index estimate, replay check *)
  eapply t_bind2; [apply (t_rx_index ss0 (eq d0) st0 (hdr_seq pkt))| |intros [[est delta] adv]].
  { intros s w [EI Hw]. rewrite EI in SPEC. exact (conj SPEC (St_any _ _ _ _ _ _ _ _ Hw)). }
  apply t_pure; intros EI. rewrite EI in SPEC. cbv beta iota in SPEC |- *.
  (* the key *)
  change (match s_keys st0 with k0 :: _ => ak_tag (k_rtp_a k0) | [] => 0 end) with (rtp_tl0 st0).
  assert (T0 : 0 <= rtp_tl0 st0).
  { unfold rtp_tl0. destruct (s_keys st0) as [|k0 t] eqn:EK0; [lia|].
    assert (I0 : In k0 (s_keys st0)) by (rewrite EK0; left; reflexivity).
    destruct (stream_wf_key _ _ Hwf I0) as (_ & [T _] & _). lia. }
  eapply t_bind2; [apply (t_keys_by_packet ss0 st0 (rtp_tl0 st0) Hwf T0)| |intros [ki k]].
  { intros s w [EK Hw]. rewrite EK in SPEC. exact (conj SPEC (St_any _ _ _ _ _ _ _ _ Hw)). }
  apply t_pure; intros EK. rewrite EK in SPEC. cbv beta iota in SPEC |- *.
  pose proof (receiver_key_st_In _ _ _ _ _ _ EK) as Hk.
  pose proof (stream_wf_key _ _ Hwf Hk) as (MK & TA & _).
  pose proof Hwf as (M & U & _). rewrite max_mki_value in M.
  pose proof (akey_prefix_le _ TA) as PL. pose proof TA as [T KP]. rewrite max_tag_value in T.
  (* cryptex *)
  eapply t_bind; [apply (t_inuse ss0 st0); exact X4|intros inuse]. apply t_pure; intros ->.
  eapply t_bind; [apply (t_xl ss0 (rx_cryptex st0 pkt));
                  [intros EI2; exact (proj1 (proj2 (proj2 (rx_cryptex_true _ EI2))))|exact X4]|intros xl].
  apply t_pure; intros ->.
  set (es := rx_enc_start st0 pkt) in *.
  set (sh := if rx_cryptex st0 pkt && al then 4 * hdr_cc pkt else 0).
  match goal with |- context [u64 (L - ak_tag (k_rtp_a k) - s_mki_size st0) <? u64 (?e + ?f)] =>
    set (esm := e); set (shm := f) end.
  assert (ESM : esm = es - sh /\ shm = sh /\ 0 <= sh /\ sh <= es - 12).
  { subst esm shm sh es. unfold rx_enc_start in *. change octets_in_rtp_xtn_hdr_c with 4 in *.
    destruct (rx_cryptex st0 pkt) eqn:EI2.
    - destruct (rx_cryptex_true _ EI2) as (_ & _ & X & _). rewrite X. cbn [Z.eqb Pos.eqb andb].
      specialize (V3 X).
      rewrite (u64_small (hdr_len pkt + xtn_len pkt - (xtn_len pkt - 4))) by lia.
      rewrite u64_small by (destruct al; lia). destruct al; lia.
    - cbn [andb]. fold (enc0 pkt). lia. }
  destruct ESM as (ESM1 & ESM2 & SH0 & SH1).
  replace (u64 (esm + shm)) with es by (rewrite u64_small by lia; lia).
  destruct (u64 (L - ak_tag (k_rtp_a k) - s_mki_size st0) <? es) eqn:E2.
  { apply t_bind_exit. intros w Hw. exact (conj SPEC (St_any _ _ _ _ _ _ _ _ Hw)). }
  apply t_bind_ret. apply Z.ltb_ge in E2.
  destruct (C <? u64 (L - s_mki_size st0 - ak_tag (k_rtp_a k))) eqn:E3.
  { apply t_bind_exit. intros w Hw. exact (conj SPEC (St_any _ _ _ _ _ _ _ _ Hw)). }
  apply t_bind_ret. apply Z.ltb_ge in E3.
  assert (A0 : 0 <= L - s_mki_size st0 - ak_tag (k_rtp_a k)).
  { destruct (Z_lt_le_dec (L - s_mki_size st0 - ak_tag (k_rtp_a k)) 0) as [N|]; [|assumption].
    rewrite u64_neg in E3 by lia. lia. }
  rewrite u64_small in E3 by lia. rewrite u64_small in E2 by lia.
  rewrite (u64_small (L - ak_tag (k_rtp_a k) - s_mki_size st0)) by lia.
  rewrite (u64_small (L - esm - s_mki_size st0 - ak_tag (k_rtp_a k))) by lia.
  (* header copy *)
  replace (if al then ret tt else h <- rd_src 0 esm;; wr_dst 0 h)
    with (if al then ret tt else h <- rd_src 0 es;; wr_dst 0 h)
    by (subst sh; destruct al; [reflexivity|]; rewrite andb_false_r in ESM1; rewrite ESM1, Z.sub_0_r; reflexivity).
  eapply t_bind; [apply (header_copy L C al src d0 pkt HD Hpkt HLp); lia|intros ?].
  (* authentication *)
  change (negb (Z.land (s_rtp_serv st0) sec_serv_auth_c =? 0)) with (rtp_auth st0).
  set (iv := rtp_iv (ck_alg (k_rtp_c k)) (hdr_ssrc pkt) est) in *.
  unfold rx_auth in SPEC.
  apply t_bind with (R := fun cs1 w =>
     (if rtp_auth st0 then
        match rtcp_rx_prefix (cipher_start (k_rtp_c k) iv) (ak_prefix (k_rtp_a k)) with
        | inr e => inr e
        | inl pre =>
          let computed := auth_compute (k_rtp_a k) (take (zn (L - ak_tag (k_rtp_a k) - s_mki_size st0)) pkt ++ take 4 (be64 (est * 65536))) in
          if SRTP_MAX_TAG_LEN_c <? lenZ computed then inr st_model_oob else
          let tmp_tag := computed ++ drop (length computed) (snd pre) in
          if beqb (take (zn (ak_tag (k_rtp_a k))) (tmp_tag ++ zeros (zn (ak_tag (k_rtp_a k)))))
                  (slice (zn (L - ak_tag (k_rtp_a k))) (zn (ak_tag (k_rtp_a k))) pkt)
          then inl (fst pre) else inr st_auth_fail
        end
      else inl (cipher_start (k_rtp_c k) iv)) = inl cs1 /\ S ss0 (facts_ok [(0, P0 al pkt es)]) w).
  { destruct (rtp_auth st0).
    - eapply t_bind2; [apply t_rx_prefix| |intros pre].
      { intros s w [EP Hw]. rewrite EP in SPEC. exact (conj SPEC (St_any _ _ _ _ _ _ _ _ Hw)). }
      apply t_pure; intros EP. rewrite EP in SPEC |- *. cbv zeta in SPEC |- *.
      eapply t_bind; [apply rd_pkt; lia|intros m]. apply t_pure; intros ->.
      change (slice (zn 0) (zn (L - ak_tag (k_rtp_a k) - s_mki_size st0)) pkt)
        with (take (zn (L - ak_tag (k_rtp_a k) - s_mki_size st0)) pkt).
      match goal with |- context [SRTP_MAX_TAG_LEN_c <? lenZ ?a] => destruct (SRTP_MAX_TAG_LEN_c <? lenZ a) eqn:EM end.
      { apply t_bind_exit. intros w Hw. exact (conj SPEC (St_any _ _ _ _ _ _ _ _ Hw)). }
      apply t_bind_ret.
      eapply t_bind; [apply rd_pkt; lia|intros t]. apply t_pure; intros ->.
      match goal with |- context [beqb ?a ?b] => destruct (beqb a b) eqn:EB end.
      2:{ apply t_bind_exit. intros w Hw. exact (conj SPEC (St_any _ _ _ _ _ _ _ _ Hw)). }
      apply t_bind_ret. apply t_ret. auto.
    - apply t_ret. auto. }
  intros cs1. apply t_pure; intros EA.
  assert (WCS : cs_wf cs1).
  { apply (rx_auth_wf (rtp_auth st0) (k_rtp_a k) (cipher_start (k_rtp_c k) iv)
                       (take (zn (L - ak_tag (k_rtp_a k) - s_mki_size st0)) pkt) (take 4 (be64 (est * 65536)))
                       (slice (zn (L - ak_tag (k_rtp_a k))) (zn (ak_tag (k_rtp_a k))) pkt) cs1 ltac:(lia));
      [apply cs_wf_start, rtp_iv_bytes|exact EA]. }
  cbv zeta in EA. rewrite EA in SPEC.
  apply t_ret. intros w Hw. eexists. split; [exact SPEC|].
  split.
  { unfold upre_al. cbn [u_pkt u_ssrc u_ref u_est u_delta u_adv u_ki u_k u_cs u_iv u_enc_start u_enc_len u_inuse u_inplace].
    fold sh. f_equal; lia. }
  split; [|exact Hw].
  unfold pre_good. cbn [u_pkt u_ssrc u_ref u_k u_enc_start u_enc_len u_inuse u_cs].
  repeat split; try assumption; try reflexivity; lia.
Qed.


(* ===================================================================== *)
(* 5. the second phase: RFC 6904, decryption, session update               *)
(* ===================================================================== *)
Lemma P0_slice (p : bytes) es off n : (off + n <= zn es)%nat -> slice off n (P0 al p es) = slice off n p.
Proof. intros H. unfold P0. destruct al; [reflexivity|]. apply slice_take. exact H. Qed.

Lemma P0_lenZ (p : bytes) es : lenZ p = L -> 0 <= es <= L -> lenZ (P0 al p es) = if al then L else es.
Proof. intros H1 H2. unfold P0. destruct al; [exact H1|]. unfold lenZ, zn in *. rewrite take_length. lia. Qed.

Lemma take_splice_tail {A} a (v l : list A) :
  (a + length v <= length l)%nat -> take (a + length v) (splice a v l) = take a l ++ v.
Proof.
  intros H. rewrite take_splice_in by lia.
  rewrite splice_tail by (rewrite take_length; lia).
  rewrite take_take. f_equal. f_equal. lia.
Qed.

Definition cx_profile : Prop :=
  xtn_profile pkt = cryptex_one_byte_profile_c \/ xtn_profile pkt = cryptex_two_byte_profile_c.

(* the RFC 6904 walk runs on the extension as it is in the destination: the header copy put
   it there (out of place) or it is the input itself (in place) *)
Lemma xtn_step ss (ids : bytes) st (xk : option ckey) iv es :
  s_enc_xtn st = ids ->
  validate_rtp pkt L = st_ok ->
  (hdr_x pkt = 1 -> hdr_len pkt + 4 <= es) -> 0 <= es <= L -> es <= C ->
  (hdr_x pkt = 1 -> es = enc0 pkt \/ cx_profile) ->
  tri (S ss (facts_ok [(0, P0 al pkt es)]))
      (match xk with
       | Some xk => if hdr_x pkt =? 1 then process_xtn st pkt (cipher_start xk iv) else ret tt
       | None => ret tt
       end)
      (fun _ w => exists p1, wire_xtn ids xk iv pkt = Some p1 /\ lenZ p1 = L /\
                             drop (zn es) p1 = drop (zn es) pkt /\ (cx_profile -> p1 = pkt) /\
                             S ss (facts_ok [(0, P0 al p1 es)]) w)
      (fun s w => (wire_xtn ids xk iv pkt = None /\ s = st_parse_err) /\ S ss Dany w).
Proof.
  intros Eids EV ESX ESL ESC ESP.
  assert (TRIV : tri (S ss (facts_ok [(0, P0 al pkt es)])) (ret tt)
      (fun _ w => exists p1, Some pkt = Some p1 /\ lenZ p1 = L /\
                             drop (zn es) p1 = drop (zn es) pkt /\ (cx_profile -> p1 = pkt) /\
                             S ss (facts_ok [(0, P0 al p1 es)]) w)
      (fun s w => (Some pkt = None /\ s = st_parse_err) /\ S ss Dany w)).
  { apply t_ret. intros w Hw. exists pkt. auto. }
  destruct xk as [xk|]; [|exact TRIV]. unfold wire_xtn.
  destruct (hdr_x pkt =? 1) eqn:EX; [|exact TRIV]. clear TRIV. apply Z.eqb_eq in EX.
  specialize (ESX EX). specialize (ESP EX).
  pose proof (hdr_cc_range pkt) as CC. pose proof (hdr_len_eq pkt) as HLn.
  pose proof (P0_lenZ pkt es HLp ESL) as LP0.
  pose proof (eq_refl (xtn_apply ids (cipher_start xk iv) (hdr_len pkt) pkt)) as SPEC.
  unfold xtn_apply at 2 in SPEC. cbv zeta in SPEC.
  replace (zn (hdr_len pkt + 2)) with (zn (hdr_len pkt) + 2)%nat in SPEC by (unfold zn; lia).
  unfold process_xtn. cbv zeta.
  eapply t_bind; [apply t_rd_dst; lia|intros h]. apply t_pure; intros (dd & Hf & Hdl & ->).
  pose proof (Forall_inv Hf) as F0.
  rewrite (fact0_read _ _ _ _ F0) by (unfold lenZ, zn in *; destruct al; lia).
  rewrite P0_slice by (unfold zn; lia).
  change (zn 4) with 4%nat. rewrite be16_slice4_0, be16_slice4.
  set (profile := be16 pkt (zn (hdr_len pkt))) in *.
  destruct (negb (profile =? xtn_hdr_one_byte_profile_c) && negb (Z.land profile 65520 =? xtn_hdr_two_byte_profile_c)) eqn:EPf.
  { apply t_exit. intros w Hw. split; [auto|]. exact (St_any _ _ _ _ _ _ _ _ Hw). }
  assert (ESE : es = enc0 pkt).
  { destruct ESP as [H|H]; [exact H|]. exfalso. apply cryptex_not_plain in H. unfold xtn_profile in H. fold profile in H.
    rewrite H in EPf. discriminate. }
  pose proof (be16_nonneg pkt (zn (hdr_len pkt) + 2)) as NN.
  set (n := be16 pkt (zn (hdr_len pkt) + 2) * 4) in *.
  assert (ESN : es = hdr_len pkt + 4 + n).
  { rewrite ESE. unfold enc0. rewrite EX. cbn [Z.eqb Pos.eqb]. unfold xtn_len.
    replace (zn (hdr_len pkt + 2)) with (zn (hdr_len pkt) + 2)%nat by (unfold zn; lia). subst n. lia. }
  eapply t_bind; [apply t_rd_dst; lia|intros d]. apply t_pure; intros (dd2 & Hf2 & Hdl2 & ->).
  pose proof (Forall_inv Hf2) as F2.
  rewrite (fact0_read _ _ _ _ F2) by (unfold lenZ, zn in *; destruct al; lia).
  rewrite P0_slice by (unfold zn; lia).
  set (d := slice (zn (hdr_len pkt + 4)) (zn n) pkt) in *.
  assert (LD0 : length d = zn n) by (subst d; rewrite slice_length; unfold lenZ, zn in *; lia).
  destruct (if profile =? xtn_hdr_one_byte_profile_c
            then xtn_one (Datatypes.S (length d)) ids (cipher_start xk iv) d 0
            else xtn_two (Datatypes.S (length d)) ids (cipher_start xk iv) d 0) as [d'|] eqn:EW.
  2:{ rewrite Eids, EW. apply t_exit. intros w Hw. split; [auto|]. exact (St_any _ _ _ _ _ _ _ _ Hw). }
  rewrite Eids, EW.
  assert (LD : length d' = length d).
  { destruct (profile =? xtn_hdr_one_byte_profile_c); [exact (xtn_one_length _ _ _ _ _ _ EW)|exact (xtn_two_length _ _ _ _ _ _ EW)]. }
  eapply t_post; [apply t_wr_in2; [lia|unfold lenZ, zn in *; destruct al; lia|unfold lenZ, zn in *; lia|constructor]|].
  intros ? w Hw. exists (splice (zn (hdr_len pkt + 4)) d' pkt).
  split; [exact SPEC|]. split; [rewrite lenZ_splice; exact HLp|].
  split; [apply drop_splice_above; unfold zn in *; lia|].
  split.
  { intros H. exfalso. apply cryptex_not_plain in H. unfold xtn_profile in H. fold profile in H.
    rewrite H in EPf. discriminate. }
  replace (P0 al (splice (zn (hdr_len pkt + 4)) d' pkt) es) with (splice (zn (hdr_len pkt + 4)) d' (P0 al pkt es)); [exact Hw|].
  unfold P0. destruct al; [reflexivity|]. rewrite take_splice_in by (unfold zn in *; lia). reflexivity.
Qed.

(* decryption without cryptex: [es, es+el) of the input is decrypted (or copied) into the
   output; afterwards the first es+el octets of the destination are the result *)
Lemma rd_p1 ss es p1 n E :
  lenZ p1 = L -> drop (zn es) p1 = drop (zn es) pkt -> 0 <= es -> 0 <= n -> es + n <= L ->
  tri (S ss (facts_ok [(0, P0 al p1 es)])) (rd_src es n)
      (fun d w => d = slice (zn es) (zn n) p1 /\ S ss (facts_ok [(0, P0 al p1 es)]) w) E.
Proof.
  intros LP1 EDR H1 H2 H3. pose proof (in_slice L al src d0 pkt Hpkt es n H1 H2 H3) as I1.
  eapply t_post; [apply t_rd_src; assumption|].
  intros d w [(dd & Hf & _ & ->) Hw]. split; [|exact Hw]. unfold P0 in *. destruct al.
  - pose proof (Forall_inv Hf) as F0. apply (fact0_read _ _ _ _ F0). unfold lenZ, zn in *. lia.
  - rewrite I1. unfold slice. rewrite EDR. reflexivity.
Qed.

Lemma dec_step ss (conf : bool) cs es el p1 :
  0 <= es -> 0 <= el -> es + el <= L -> es + el <= C -> lenZ p1 = L ->
  drop (zn es) p1 = drop (zn es) pkt ->
  tri (S ss (facts_ok [(0, P0 al p1 es)]))
      (if conf then
         d <- rd_src es el ;;
         (let '(s, _, o) := cipher_encrypt cs d in
          if negb (s =? st_ok) then exit_with st_cipher_fail else wr_dst es o)
       else if al then ret tt
       else (d <- rd_src es el ;; wr_dst es d))
      (fun _ w => exists out, rx_crypt conf false cs es el p1 = inl out /\ lenZ out = es + el /\
                              S ss (facts_ok [(0, out)]) w)
      (fun s w => rx_crypt conf false cs es el p1 = inr s /\ S ss Dany w).
Proof.
  intros H1 H2 H3 H4 LP1 EDR. unfold rx_crypt.
  pose proof (P0_lenZ p1 es LP1 ltac:(lia)) as LP0.
  assert (LT : lenZ (take (zn es) p1) = es) by (unfold lenZ, zn in *; rewrite take_length; lia).
  assert (LSl : lenZ (slice (zn es) (zn el) p1) = el) by (apply lenZ_slice_eq; lia).
  (* writing el octets at es *)
  assert (WR : forall o, lenZ o = el ->
            tri (S ss (facts_ok [(0, P0 al p1 es)])) (wr_dst es o)
                (fun _ => S ss (facts_ok [(0, take (zn es) p1 ++ o)])) (fun _ _ => False)).
  { intros o Lo. unfold P0 in *. destruct al eqn:EA.
    - eapply t_post; [apply t_wr_in2; [lia|lia|lia|constructor]|].
      intros ? w Hw. eapply St_weaken; [|exact Hw]. intros dd _ Hf. pose proof (Forall_inv Hf) as F0.
      constructor; [|constructor].
      replace (take (zn es) p1 ++ o) with (take (zn es + length o) (splice (zn es) o p1))
        by (apply take_splice_tail; unfold lenZ, zn in *; lia).
      apply fact0_prefix; [exact F0|]. rewrite splice_length. unfold lenZ, zn in *. lia.
    - replace (wr_dst es o) with (wr_dst (lenZ (take (zn es) p1)) o) by (rewrite LT; reflexivity).
      apply t_wr_append; [exact HD|lia|constructor]. }
  destruct conf.
  - eapply t_bind; [apply rd_p1; assumption|intros d]. apply t_pure; intros ->.
    destruct (cipher_encrypt cs (slice (zn es) (zn el) p1)) as [[s c2] o] eqn:EE.
    destruct (s =? st_ok) eqn:ES; cbn [negb].
    + pose proof (cipher_encrypt_ok_length _ _ _ _ _ EE ES) as Lo.
      assert (Lo' : lenZ o = el) by (unfold lenZ in *; lia).
      eapply t_conseq; [apply (WR o Lo')| |intros ? ? []].
      intros ? w Hw. exists (take (zn es) p1 ++ o). split; [reflexivity|]. split; [rewrite lenZ_app; lia|exact Hw].
    + apply t_exit. intros w Hw. split; [reflexivity|]. exact (St_any _ _ _ _ _ _ _ _ Hw).
  - assert (ET : take (zn es) p1 ++ slice (zn es) (zn el) p1 = take (zn (es + el)) p1).
    { replace (zn (es + el)) with (zn es + zn el)%nat by (unfold zn; lia). rewrite take_add. reflexivity. }
    assert (LO : lenZ (take (zn (es + el)) p1) = es + el) by (unfold lenZ, zn in *; rewrite take_length; lia).
    pose proof (fun E => rd_p1 ss es p1 el E LP1 EDR H1 H2 H3) as RD.
    destruct al eqn:EA.
    + apply t_ret. intros w Hw. eexists. split; [reflexivity|]. split; [exact LO|].
      eapply St_weaken; [|exact Hw]. intros dd _ Hf. pose proof (Forall_inv Hf) as F0.
      constructor; [|constructor]. unfold P0 in F0. apply fact0_prefix; [exact F0|]. unfold lenZ, zn in *. lia.
    + eapply t_bind; [apply RD|intros d]. apply t_pure; intros ->.
      eapply t_conseq; [apply (WR _ LSl)| |intros ? ? []].
      intros ? w Hw. eexists. split; [reflexivity|]. split; [exact LO|]. rewrite ET in Hw. exact Hw.
Qed.

(* direction, replay window, returned length *)
Lemma tail_tri ss1 st1 (adv : bool) est delta out lret E :
  list_get (ss_list ss1) (hdr_ssrc pkt) = Some st1 -> lret = lenZ out ->
  tri (S ss1 (facts_ok [(0, out)]))
      (check_direction (RList (hdr_ssrc pkt)) dir_srtp_receiver_c ;;;
       r <- materialize (RList (hdr_ssrc pkt)) (hdr_ssrc pkt) ;;
       st2 <- get_stream r ;;
       (if adv then put_stream r (commit_advance st2 est)
        else put_stream r (set_pending (set_rdbx st2 (rdbx_add (s_rdbx st2) delta)) 0)) ;;;
       ret lret)
      (fun l w => l = lenZ out /\
                  w_s w = sess_put (dir_session ss1 (hdr_ssrc pkt) st1 dir_srtp_receiver_c) (hdr_ssrc pkt)
                            (rx_commit (dir_stream st1 dir_srtp_receiver_c) est delta adv) /\
                  take (zn l) (b_dst (w_b w)) = out /\ b_src (w_b w) = src /\ b_oob (w_b w) = false) E.
Proof.
  intros Hg2 ->.
  eapply t_bind; [eapply t_check_direction; exact Hg2|intros ?].
  unfold materialize. apply t_bind_ret.
  eapply t_bind; [apply t_get_stream_list; apply dir_session_get; exact Hg2|intros st2]. apply t_pure; intros ->.
  apply t_bind with (R := fun _ => S (sess_put (dir_session ss1 (hdr_ssrc pkt) st1 dir_srtp_receiver_c) (hdr_ssrc pkt)
                            (rx_commit (dir_stream st1 dir_srtp_receiver_c) est delta adv)) (facts_ok [(0, out)])).
  { unfold rx_commit. destruct adv; apply t_put_stream_list. }
  intros ?. apply t_ret. intros w (h0 & h1 & h2 & h3 & h4 & h5 & h6 & h7).
  split; [reflexivity|]. split; [exact h0|]. split; [|auto].
  pose proof (fact_get _ _ 0 out h7 ltac:(left; reflexivity)) as F. change (zn 0) with O in F.
  rewrite slice_0 in F. rewrite zn_len. exact F.
Qed.

(* ---- cryptex ---- *)
Lemma if_al_t {A} (x y : A) : al = true -> (if al then x else y) = x.
Proof. intros H. rewrite H. reflexivity. Qed.
Lemma if_al_f {A} (x y : A) : al = false -> (if al then x else y) = y.
Proof. intros H. rewrite H. reflexivity. Qed.

Lemma adjust_dst_length n (P : bytes) : length (adjust_dst n P) = length P.
Proof. unfold adjust_dst. rewrite !splice_length. reflexivity. Qed.
Lemma restore_dst_length n (P : bytes) : length (restore_dst n P) = length P.
Proof. unfold restore_dst. rewrite !splice_length. reflexivity. Qed.

Lemma t_adjust ss P E :
  hdr_len pkt + 4 <= lenZ P -> hdr_len pkt + 4 <= C ->
  tri (S ss (facts_ok [(0, P)])) (cryptex_adjust pkt)
      (fun _ => S ss (facts_ok [(0, adjust_dst (zn (4 * hdr_cc pkt)) P)])) E.
Proof.
  intros HP HCc. pose proof (hdr_cc_range pkt) as CC. pose proof (hdr_len_eq pkt) as HLn.
  unfold cryptex_adjust. change octets_in_rtp_header_c with 12.
  destruct (hdr_cc pkt =? 0) eqn:E0.
  - apply Z.eqb_eq in E0. rewrite E0. change (zn (4 * 0)) with O. rewrite adjust_dst_0. apply t_ret. auto.
  - apply Z.eqb_neq in E0.
    eapply t_bind; [apply t_rd_dst; lia|intros tmp]. apply t_pure; intros (dd & Hf & _ & ->).
    pose proof (Forall_inv Hf) as F0. rewrite (fact0_read _ _ _ _ F0) by (unfold lenZ, zn in *; lia).
    eapply t_bind; [apply t_rd_dst; lia|intros csrc]. apply t_pure; intros (dd2 & Hf2 & _ & ->).
    pose proof (Forall_inv Hf2) as F2. rewrite (fact0_read _ _ _ _ F2) by (unfold lenZ, zn in *; lia).
    assert (L1 : lenZ (slice (zn 12) (zn (4 * hdr_cc pkt)) P) = 4 * hdr_cc pkt) by (apply lenZ_slice_eq; lia).
    assert (L2 : lenZ (slice (zn (hdr_len pkt)) (zn 4) P) = 4) by (apply lenZ_slice_eq; lia).
    eapply t_bind; [apply t_wr_in2; [lia|lia|lia|constructor]|intros ?].
    eapply t_post; [apply t_wr_in2; [lia|rewrite lenZ_splice; lia|lia|constructor]|].
    intros ? w Hw. unfold adjust_dst.
    replace (12 + zn (4 * hdr_cc pkt))%nat with (zn (hdr_len pkt)) by (unfold zn; lia).
    exact Hw.
Qed.

Lemma t_restore ss P E :
  hdr_len pkt + 4 <= lenZ P -> hdr_len pkt + 4 <= C ->
  tri (S ss (facts_ok [(0, P)])) (cryptex_restore pkt)
      (fun _ => S ss (facts_ok [(0, restore_dst (zn (4 * hdr_cc pkt)) P)])) E.
Proof.
  intros HP HCc. pose proof (hdr_cc_range pkt) as CC. pose proof (hdr_len_eq pkt) as HLn.
  unfold cryptex_restore. change octets_in_rtp_header_c with 12.
  destruct (hdr_cc pkt =? 0) eqn:E0.
  - apply Z.eqb_eq in E0. rewrite E0. change (zn (4 * 0)) with O. rewrite restore_dst_0. apply t_ret. auto.
  - apply Z.eqb_neq in E0.
    eapply t_bind; [apply t_rd_dst; lia|intros tmp]. apply t_pure; intros (dd & Hf & _ & ->).
    pose proof (Forall_inv Hf) as F0. rewrite (fact0_read _ _ _ _ F0) by (unfold lenZ, zn in *; lia).
    eapply t_bind; [apply t_rd_dst; lia|intros csrc]. apply t_pure; intros (dd2 & Hf2 & _ & ->).
    pose proof (Forall_inv Hf2) as F2. rewrite (fact0_read _ _ _ _ F2) by (unfold lenZ, zn in *; lia).
    assert (L1 : lenZ (slice (zn (12 + 4)) (zn (4 * hdr_cc pkt)) P) = 4 * hdr_cc pkt) by (apply lenZ_slice_eq; lia).
    assert (L2 : lenZ (slice (zn 12) (zn 4) P) = 4) by (apply lenZ_slice_eq; lia).
    eapply t_bind; [apply t_wr_in2; [lia|lia|lia|constructor]|intros ?].
    eapply t_post; [apply t_wr_in2; [lia|rewrite lenZ_splice; lia|lia|constructor]|].
    intros ? w Hw. unfold restore_dst.
    replace (12 + zn (4 * hdr_cc pkt))%nat with (zn (12 + 4 * hdr_cc pkt)) by (unfold zn; lia).
    exact Hw.
Qed.

Lemma t_unprof ss R E :
  hdr_len pkt + 2 <= lenZ R -> hdr_len pkt + 2 <= C ->
  tri (S ss (facts_ok [(0, R)]))
      (h <- rd_dst (hdr_len pkt) 2 ;;
       (if be16 h 0 =? cryptex_one_byte_profile_c then set_profile pkt xtn_hdr_one_byte_profile_c
        else if be16 h 0 =? cryptex_two_byte_profile_c then set_profile pkt xtn_hdr_two_byte_profile_c
        else ret tt))
      (fun _ => S ss (facts_ok [(0, unprof (zn (hdr_len pkt)) R)])) E.
Proof.
  intros HP HCc. pose proof (hdr_cc_range pkt) as CC. pose proof (hdr_len_eq pkt) as HLn.
  eapply t_bind; [apply t_rd_dst; lia|intros h]. apply t_pure; intros (dd & Hf & _ & ->).
  pose proof (Forall_inv Hf) as F0. rewrite (fact0_read _ _ _ _ F0) by (unfold lenZ, zn in *; lia).
  change (zn 2) with 2%nat. rewrite be16_slice2_0. unfold unprof, plain_profile_of, set_profile.
  destruct (be16 R (zn (hdr_len pkt)) =? cryptex_one_byte_profile_c).
  - apply t_wr_in2; [lia|rewrite lenZ_be_bytes; lia|rewrite lenZ_be_bytes; lia|constructor].
  - destruct (be16 R (zn (hdr_len pkt)) =? cryptex_two_byte_profile_c).
    + apply t_wr_in2; [lia|rewrite lenZ_be_bytes; lia|rewrite lenZ_be_bytes; lia|constructor].
    + apply t_ret. auto.
Qed.

(* in place: shuffle, ONE run of the cipher over CSRC list ++ rest, shuffle back, profile *)
Lemma cx_in ss cs es el :
  al = true -> es = hdr_len pkt + 4 -> 0 <= el -> es + el <= L -> es + el <= C ->
  tri (S ss (facts_ok [(0, pkt)]))
      (cs2 <- (cryptex_adjust pkt ;;; ret cs) ;;
       _ <- (d <- rd_src (es - 4 * hdr_cc pkt) (el + 4 * hdr_cc pkt) ;;
             (let '(s, _, o) := cipher_encrypt cs2 d in
              if negb (s =? st_ok) then exit_with st_cipher_fail else wr_dst (es - 4 * hdr_cc pkt) o)) ;;
       (cryptex_restore pkt ;;;
        h <- rd_dst (hdr_len pkt) 2 ;;
        (if be16 h 0 =? cryptex_one_byte_profile_c then set_profile pkt xtn_hdr_one_byte_profile_c
         else if be16 h 0 =? cryptex_two_byte_profile_c then set_profile pkt xtn_hdr_two_byte_profile_c
         else ret tt)))
      (fun _ w => exists out, rx_crypt true true cs es el pkt = inl out /\ lenZ out = es + el /\
                              S ss (facts_ok [(0, out)]) w)
      (fun s w => rx_crypt true true cs es el pkt = inr s /\ S ss Dany w).
Proof.
  intros EA ES Hel HelL HelC.
  pose proof (hdr_cc_range pkt) as CC. pose proof (hdr_len_eq pkt) as HLn.
  set (n := zn (4 * hdr_cc pkt)).
  assert (Ln : (12 + n + 4 <= length pkt)%nat) by (subst n; unfold lenZ, zn in *; lia).
  assert (Zes : zn es = (12 + n + 4)%nat) by (subst n; unfold zn; lia).
  assert (Zhl : zn (hdr_len pkt) = (12 + n)%nat) by (subst n; unfold zn; lia).
  pose proof (eq_refl (rx_crypt true true cs es el pkt)) as SPEC. unfold rx_crypt at 2 in SPEC.
  cbv zeta in SPEC. fold n in SPEC.
  apply t_bind with (R := fun cs2 w => cs2 = cs /\ S ss (facts_ok [(0, adjust_dst n pkt)]) w).
  { eapply t_bind; [apply t_adjust; lia|intros ?]. apply t_ret. auto. }
  intros cs2. apply t_pure; intros ->.
  replace (es - 4 * hdr_cc pkt) with 16 by lia.
  apply t_bind with (R := fun _ w => exists s c2 o,
      cipher_encrypt cs (slice 12 n pkt ++ slice (zn es) (zn el) pkt) = (s, c2, o) /\ (s =? st_ok) = true /\
      S ss (facts_ok [(0, splice 16 o (adjust_dst n pkt))]) w).
  { eapply t_bind; [apply t_rd_src; lia|intros d]. apply t_pure; intros (dd & Hf & _ & ->).
    rewrite (if_al_t _ _ EA). pose proof (Forall_inv Hf) as F0.
    rewrite (fact0_read _ _ _ _ F0) by (rewrite adjust_dst_length; unfold lenZ, zn in *; lia).
    replace (zn (el + 4 * hdr_cc pkt)) with (n + zn el)%nat by (subst n; unfold zn; lia).
    change (zn 16) with 16%nat. rewrite (cxl_run n pkt Ln). rewrite <- Zes.
    destruct (cipher_encrypt cs (slice 12 n pkt ++ slice (zn es) (zn el) pkt)) as [[s c2] o] eqn:EE.
    destruct (s =? st_ok) eqn:ESt; cbn [negb] in SPEC |- *.
    - pose proof (cipher_encrypt_ok_length _ _ _ _ _ EE ESt) as Lo.
      rewrite app_length, !slice_length in Lo.
      eapply t_post; [apply t_wr_in2; [lia| |unfold lenZ, zn in *; lia|constructor]|].
      + unfold lenZ. rewrite adjust_dst_length. unfold lenZ, zn in *. lia.
      + intros ? w Hw. exists s, c2, o. auto.
    - apply t_exit. intros w Hw. split; [exact SPEC|exact (St_any _ _ _ _ _ _ _ _ Hw)]. }
  intros ?. apply t_ex; intros s. apply t_ex; intros c2. apply t_ex; intros o.
  apply t_pure; intros EE. apply t_pure; intros ESt.
  rewrite EE, ESt in SPEC. cbn [negb] in SPEC.
  pose proof (cipher_encrypt_ok_length _ _ _ _ _ EE ESt) as Lo.
  rewrite app_length, !slice_length in Lo.
  assert (Lo' : length o = (n + zn el)%nat) by (unfold lenZ, zn in *; lia).
  eapply t_bind; [apply t_restore; [|lia]|intros ?].
  { unfold lenZ. rewrite splice_length, adjust_dst_length. unfold lenZ in *. lia. }
  eapply t_post; [apply t_unprof; [|lia]|].
  { unfold lenZ. rewrite restore_dst_length, splice_length, adjust_dst_length. unfold lenZ in *. lia. }
  intros ? w Hw. fold n in Hw.
  set (R := restore_dst n (splice 16 o (adjust_dst n pkt))) in *.
  assert (LR : length R = length pkt) by (subst R; rewrite restore_dst_length, splice_length, adjust_dst_length; reflexivity).
  assert (EO : take (zn (es + el)) (unprof (zn (hdr_len pkt)) R) =
               unprof (zn (hdr_len pkt)) (take 12 pkt ++ take n o ++ slice (zn (hdr_len pkt)) 4 pkt ++ drop n o)).
  { rewrite unprof_take by (unfold zn in *; lia). f_equal.
    replace (zn (es + el)) with (12 + n + 4 + zn el)%nat by (unfold zn in *; lia).
    subst R. rewrite (cxl_inplace n pkt Ln (zn el) o Lo') by (unfold lenZ, zn in *; lia).
    rewrite Zhl. reflexivity. }
  exists (unprof (zn (hdr_len pkt)) (take 12 pkt ++ take n o ++ slice (zn (hdr_len pkt)) 4 pkt ++ drop n o)).
  split; [exact SPEC|]. rewrite <- EO. split.
  { unfold lenZ. rewrite take_length, unprof_length, LR. unfold lenZ, zn in *. lia. }
  eapply St_weaken; [|exact Hw]. intros dd _ Hf. pose proof (Forall_inv Hf) as F0.
  constructor; [|constructor]. apply fact0_prefix; [exact F0|]. rewrite unprof_length, LR. unfold lenZ, zn in *. lia.
Qed.

(* out of place: the CSRC list is decrypted where the header copy put it, the rest from the
   source with the state the first call left: TWO runs of the cipher *)
Lemma cx_out ss cs es el :
  al = false -> cs_wf cs -> es = hdr_len pkt + 4 -> 0 <= el -> es + el <= L -> es + el <= C ->
  tri (S ss (facts_ok [(0, take (zn es) pkt)]))
      (cs2 <- (if hdr_cc pkt =? 0 then ret cs else crypt_dst_region cs 12 (4 * hdr_cc pkt)) ;;
       _ <- (d <- rd_src es el ;;
             (let '(s, _, o) := cipher_encrypt cs2 d in
              if negb (s =? st_ok) then exit_with st_cipher_fail else wr_dst es o)) ;;
       (ret tt ;;;
        h <- rd_dst (hdr_len pkt) 2 ;;
        (if be16 h 0 =? cryptex_one_byte_profile_c then set_profile pkt xtn_hdr_one_byte_profile_c
         else if be16 h 0 =? cryptex_two_byte_profile_c then set_profile pkt xtn_hdr_two_byte_profile_c
         else ret tt)))
      (fun _ w => exists out, rx_crypt true true cs es el pkt = inl out /\ lenZ out = es + el /\
                              S ss (facts_ok [(0, out)]) w)
      (fun s w => rx_crypt true true cs es el pkt = inr s /\ S ss Dany w).
Proof.
  intros EA W ES Hel HelL HelC.
  pose proof (hdr_cc_range pkt) as CC. pose proof (hdr_len_eq pkt) as HLn.
  set (n := zn (4 * hdr_cc pkt)).
  assert (Ln : (12 + n + 4 <= length pkt)%nat) by (subst n; unfold lenZ, zn in *; lia).
  assert (Zes : zn es = (12 + n + 4)%nat) by (subst n; unfold zn; lia).
  assert (Zhl : zn (hdr_len pkt) = (12 + n)%nat) by (subst n; unfold zn; lia).
  pose proof (eq_refl (rx_crypt true true cs es el pkt)) as SPEC. unfold rx_crypt at 2 in SPEC.
  cbv zeta in SPEC. fold n in SPEC.
  set (A := slice 12 n pkt) in *. set (B := slice (zn es) (zn el) pkt) in *.
  set (X := slice (zn (hdr_len pkt)) 4 pkt) in *.
  assert (LA : length A = n) by (subst A; rewrite slice_length; lia).
  assert (LB : length B = zn el) by (subst B; rewrite slice_length; unfold lenZ, zn in *; lia).
  assert (LX : length X = 4%nat) by (subst X; rewrite slice_length; lia).
  assert (LH : length (take 12 pkt) = 12%nat) by (rewrite take_length; lia).
  assert (Hn : lenZ (A ++ B) + 15 < 18446744073709551616) by (unfold lenZ in *; rewrite app_length; unfold zn in *; lia).
  pose proof (in_slice L al src d0 pkt Hpkt es el ltac:(lia) Hel HelL) as RDB. rewrite (if_al_f _ _ EA) in RDB.
  (* what remains once both pieces are decrypted *)
  assert (FIN : forall s c o1 o2, cipher_encrypt cs (A ++ B) = (s, c, o1 ++ o2) -> (s =? st_ok) = true ->
             length o1 = n -> length o2 = zn el ->
             tri (S ss (facts_ok [(0, (take 12 pkt ++ o1 ++ X) ++ o2)]))
                 (ret tt ;;;
                  h <- rd_dst (hdr_len pkt) 2 ;;
                  (if be16 h 0 =? cryptex_one_byte_profile_c then set_profile pkt xtn_hdr_one_byte_profile_c
                   else if be16 h 0 =? cryptex_two_byte_profile_c then set_profile pkt xtn_hdr_two_byte_profile_c
                   else ret tt))
                 (fun _ w => exists out, rx_crypt true true cs es el pkt = inl out /\ lenZ out = es + el /\
                                         S ss (facts_ok [(0, out)]) w)
                 (fun s w => rx_crypt true true cs es el pkt = inr s /\ S ss Dany w)).
  { intros s c o1 o2 EE ESt L1 L2. rewrite EE, ESt in SPEC. cbn [negb] in SPEC.
    rewrite (XtnProofs.take_app_exact o1 o2 n L1), (XtnProofs.drop_app_exact o1 o2 n L1) in SPEC.
    apply t_bind_ret.
    assert (LQ : lenZ ((take 12 pkt ++ o1 ++ X) ++ o2) = es + el).
    { unfold lenZ. rewrite !app_length. unfold lenZ, zn in *. lia. }
    eapply t_post; [apply t_unprof; lia|].
    intros ? w Hw. rewrite <- !app_assoc in Hw, LQ.
    exists (unprof (zn (hdr_len pkt)) (take 12 pkt ++ o1 ++ X ++ o2)). split; [exact SPEC|].
    split; [|exact Hw]. unfold lenZ in *. rewrite unprof_length. exact LQ. }
  destruct (hdr_cc pkt =? 0) eqn:E0.
  - (* no CSRC: one call *)
    apply Z.eqb_eq in E0. assert (n = O) as N0 by (subst n; rewrite E0; reflexivity).
    assert (A = []) as EA0 by (apply length0_nil; lia).
    apply t_bind_ret.
    apply t_bind with (R := fun _ w => exists s c2 o, (cipher_encrypt cs (A ++ B) = (s, c2, [] ++ o) /\ (s =? st_ok) = true /\
                              length o = length B) /\ S ss (facts_ok [(0, (take 12 pkt ++ [] ++ X) ++ o)]) w).
    { eapply t_bind; [apply t_rd_src; lia|intros d].
      apply t_pure; intros (dd & Hf & _ & ->). rewrite (if_al_f _ _ EA), RDB. fold B.
      destruct (cipher_encrypt cs B) as [[s c2] o] eqn:EE.
      assert (EE' : cipher_encrypt cs (A ++ B) = (s, c2, [] ++ o)) by (rewrite EA0; exact EE).
      destruct (s =? st_ok) eqn:ESt; cbn [negb].
      - pose proof (cipher_encrypt_ok_length _ _ _ _ _ EE ESt) as Lo.
        assert (ET : take (zn es) pkt = take 12 pkt ++ [] ++ X).
        { rewrite Zes, N0. change (12 + 0 + 4)%nat with (12 + 4)%nat. rewrite take_add. cbn [app]. f_equal.
          subst X. rewrite Zhl, N0. reflexivity. }
        rewrite ET.
        replace (wr_dst es o) with (wr_dst (lenZ (take 12 pkt ++ [] ++ X)) o)
          by (f_equal; unfold lenZ; rewrite !app_length; cbn [length]; unfold zn in *; lia).
        eapply t_post; [apply t_wr_append; [exact HD| |constructor]|].
        + unfold lenZ in *. rewrite !app_length. cbn [length]. unfold zn in *. lia.
        + intros ? w Hw. exists s, c2, o. exact (conj (conj EE' (conj ESt Lo)) Hw).
      - apply t_exit. intros w Hw. rewrite EE', ESt in SPEC. cbn [negb] in SPEC.
        split; [exact SPEC|exact (St_any _ _ _ _ _ _ _ _ Hw)]. }
    intros ?. apply t_ex; intros s. apply t_ex; intros c2. apply t_ex; intros o.
    apply t_pure. intros (EE' & ESt & Lo).
    apply (FIN _ _ [] _ EE' ESt); [cbn [length]; lia|lia].
  - (* CSRC list first *)
    apply Z.eqb_neq in E0.
    pose proof (cipher_chunk cs A B W Hn) as CH.
    assert (NOK : forall s1 c1 o1, cipher_run2 cs A B = (s1, c1, o1) -> (s1 =? st_ok) = false ->
                  rx_crypt true true cs es el pkt = inr st_cipher_fail).
    { intros s1 c1 o1 ER ES1. destruct (cipher_encrypt cs (A ++ B)) as [[s' c'] o'] eqn:EE.
      destruct (s' =? st_ok) eqn:ES'; cbn [negb] in SPEC; [|exact SPEC].
      exfalso. apply Z.eqb_eq in ES'. rewrite ER in CH. cbn [fst snd] in CH.
      destruct (CH (or_intror ES')) as (C1 & _). subst s1. discriminate ES1. }
    apply t_bind with (R := fun cs2 w => exists o1,
        cipher_encrypt cs A = (st_ok, cs2, o1) /\ S ss (facts_ok [(0, take 12 pkt ++ o1 ++ X)]) w).
    { unfold crypt_dst_region.
      eapply t_bind; [apply t_rd_dst; lia|intros d]. apply t_pure; intros (dd & Hf & _ & ->).
      pose proof (Forall_inv Hf) as F0.
      rewrite (fact0_read _ _ _ _ F0) by (rewrite take_length; unfold lenZ, zn in *; lia).
      rewrite slice_take by (unfold zn in *; lia).
      change (zn 12) with 12%nat. fold n. fold A.
      destruct (cipher_encrypt cs A) as [[s1 c1] o1] eqn:EE1.
      destruct (s1 =? st_ok) eqn:ES1; cbn [negb].
      - pose proof (cipher_encrypt_ok_length _ _ _ _ _ EE1 ES1) as Lo1.
        eapply t_bind; [apply t_wr_in2; [lia| |unfold lenZ, zn in *; lia|constructor]|intros ?].
        + unfold lenZ. rewrite take_length. unfold lenZ, zn in *. lia.
        + apply t_ret. intros w Hw. exists o1. apply Z.eqb_eq in ES1. subst s1. split; [reflexivity|].
          rewrite Zes in Hw. change (zn 12) with 12%nat in Hw.
          rewrite (cxl_csrc n pkt Ln o1) in Hw by lia. subst X. rewrite Zhl. exact Hw.
      - apply t_exit. intros w Hw. split; [|exact (St_any _ _ _ _ _ _ _ _ Hw)].
        apply (NOK s1 c1 o1); [|exact ES1]. unfold cipher_run2. rewrite EE1, ES1. reflexivity. }
    intros cs2. apply t_ex; intros o1. apply t_pure; intros EE1.
    pose proof (cipher_encrypt_ok_length _ _ _ _ _ EE1 eq_refl) as Lo1.
    apply t_bind with (R := fun _ w => exists s2 c2 o2, (cipher_run2 cs A B = (s2, c2, o1 ++ o2) /\ (s2 =? st_ok) = true /\
                              length o2 = length B) /\ S ss (facts_ok [(0, (take 12 pkt ++ o1 ++ X) ++ o2)]) w).
    { eapply t_bind; [apply t_rd_src; lia|intros d].
      apply t_pure; intros (dd & Hf & _ & ->). rewrite (if_al_f _ _ EA), RDB. fold B.
      destruct (cipher_encrypt cs2 B) as [[s2 c2] o2] eqn:EE2.
      assert (ER : cipher_run2 cs A B = (s2, c2, o1 ++ o2)).
      { unfold cipher_run2. rewrite EE1. change (st_ok =? st_ok) with true. cbv iota. rewrite EE2. reflexivity. }
      destruct (s2 =? st_ok) eqn:ES2; cbn [negb].
      - pose proof (cipher_encrypt_ok_length _ _ _ _ _ EE2 ES2) as Lo2.
        replace (wr_dst es o2) with (wr_dst (lenZ (take 12 pkt ++ o1 ++ X)) o2)
          by (f_equal; unfold lenZ; rewrite !app_length; unfold zn in *; lia).
        eapply t_post; [apply t_wr_append; [exact HD| |constructor]|].
        + unfold lenZ in *. rewrite !app_length. unfold zn in *. lia.
        + intros ? w Hw. exists s2, c2, o2. exact (conj (conj ER (conj ES2 Lo2)) Hw).
      - apply t_exit. intros w Hw. split; [|exact (St_any _ _ _ _ _ _ _ _ Hw)].
        exact (NOK _ _ _ ER ES2). }
    intros ?. apply t_ex; intros s2. apply t_ex; intros c2. apply t_ex; intros o2.
    apply t_pure. intros (ER & ES2 & Lo2).
    rewrite ER in CH. cbn [fst snd] in CH. apply Z.eqb_eq in ES2. subst s2.
    destruct (CH (or_introl eq_refl)) as (_ & C2 & C3).
    destruct (cipher_encrypt cs (A ++ B)) as [[s' c'] o'] eqn:EE. cbn [fst snd] in C2, C3. subst s' o'.
    apply (FIN st_ok c' o1 o2 eq_refl eq_refl); lia.
Qed.

Definition PostQ (u0 : upre) (l : Z) (w : world) : Prop :=
  exists out, unprotect_post_fun ss0 u0 = (w_s w, inl out) /\ l = lenZ out /\
              take (zn l) (b_dst (w_b w)) = out /\ b_src (w_b w) = src /\ b_oob (w_b w) = false.
Definition PostE (u0 : upre) (s : Z) (w : world) : Prop :=
  unprotect_post_fun ss0 u0 = (w_s w, inr s) /\ b_src (w_b w) = src /\ b_oob (w_b w) = false.

Lemma post_exit u0 ss D s w : S ss D w -> unprotect_post_fun ss0 u0 = (ss, inr s) -> PostE u0 s w.
Proof. intros Hw Hs. destruct (St_exit _ _ _ _ _ _ _ _ Hw) as (e1 & e2 & e3). unfold PostE. rewrite e1. auto. Qed.

Lemma unprotect_post_tri u0 :
  pre_good u0 ->
  tri (S ss0 (facts_ok [(0, P0 al pkt (u_enc_start u0))])) (unprotect_post (upre_al al u0)) (PostQ u0) (PostE u0).
Proof.
  intros (EV & G1 & G2 & G3 & Hk & G4 & G5 & G6 & G7 & G8 & WCS).
  destruct (rx_enc_start_bounds EV) as (ESB & ESX). rewrite <- G4 in ESB, ESX.
  pose proof (hdr_cc_range pkt) as CC. pose proof (hdr_len_eq pkt) as HLn.
  pose proof (eq_refl (unprotect_post_fun ss0 u0)) as SPEC.
  unfold unprotect_post_fun at 2 in SPEC. cbv zeta in SPEC. rewrite G2, Hget, G1, G5 in SPEC.
  unfold unprotect_post.
  eapply t_bind; [apply t_get_b|intros b]. apply t_pure; intros (_ & _ & EAL).
  cbv beta zeta. rewrite EAL.
  unfold upre_al; cbn [u_pkt u_k u_ref u_enc_start u_enc_len u_inuse u_inplace u_ki u_cs u_iv u_ssrc u_adv u_est u_delta].
  rewrite G1, G2, G3, G5.
  change octets_in_rtp_header_c with 12.
  set (es := u_enc_start u0) in *. set (el := u_enc_len u0) in *.
  (* key usage *)
  eapply t_bind2; [eapply t_charge_key; exact Hget| |intros ?].
  { intros s w (ss' & EC & Hw). rewrite EC in SPEC. exact (post_exit _ _ _ _ _ Hw SPEC). }
  apply t_ex; intros ss1. apply t_pure; intros EC. apply t_pure; intros Hg2. rewrite EC in SPEC.
  eapply t_bind; [apply t_get_stream_list; exact Hg2|intros st]. apply t_pure; intros ->.
  (* RFC 6904 *)
  eapply t_bind2; [apply (xtn_step ss1 (s_enc_xtn st0) (charged_stream st0 (u_ki u0)) (k_xtn_c (u_k u0)) (u_iv u0) es);
                   [apply charged_xtn|exact EV|exact ESX|lia|lia|]| |intros ?].
  { intros X. rewrite G4. unfold rx_enc_start. destruct (rx_cryptex st0 pkt) eqn:EIU; [right|left; reflexivity].
    exact (proj2 (proj2 (proj2 (rx_cryptex_true _ EIU)))). }
  { intros s w ((EX & ->) & Hw). rewrite EX in SPEC. exact (post_exit _ _ _ _ _ Hw SPEC). }
  apply t_ex; intros p1. apply t_pure; intros EX. apply t_pure; intros LP1. apply t_pure; intros EDR.
  apply t_pure; intros EPK. rewrite EX in SPEC.
  replace (negb (Z.land (s_rtp_serv (charged_stream st0 (u_ki u0))) sec_serv_conf_c =? 0)) with (rtp_conf st0)
    by (unfold rtp_conf; rewrite charged_serv; reflexivity).
  destruct (rx_cryptex st0 pkt) eqn:EIU.
  - (* cryptex *)
    destruct (rx_cryptex_true _ EIU) as (CX & CF & X & PF). rewrite (EPK PF) in *. clear EPK.
    assert (ESE : es = hdr_len pkt + 4) by (rewrite G4; unfold rx_enc_start; rewrite EIU; reflexivity).
    rewrite CF in SPEC |- *. cbn [andb]. cbv iota.
    apply t_block3 with
      (R := fun _ w => exists out, rx_crypt true true (u_cs u0) es el pkt = inl out /\ lenZ out = es + el /\
                                   S ss1 (facts_ok [(0, out)]) w)
      (E1 := fun s w => rx_crypt true true (u_cs u0) es el pkt = inr s /\ S ss1 Dany w).
    + destruct (Bool.bool_dec al true) as [EA|EA].
      * rewrite !(if_al_t _ _ EA).
        eapply t_weaken; [|apply (cx_in ss1 (u_cs u0) es el EA ESE); lia].
        intros dd _ Hf. unfold P0 in Hf. rewrite EA in Hf. exact Hf.
      * apply not_true_is_false in EA. rewrite !(if_al_f _ _ EA). rewrite !Z.sub_0_r, !Z.add_0_r.
        eapply t_weaken; [|apply (cx_out ss1 (u_cs u0) es el EA WCS ESE); lia].
        intros dd _ Hf. unfold P0 in Hf. rewrite EA in Hf. exact Hf.
    + intros s w (ER & Hw). rewrite ER in SPEC. exact (post_exit _ _ _ _ _ Hw SPEC).
    + intros ?. apply t_ex; intros out. apply t_pure; intros ER. apply t_pure; intros LO. rewrite ER in SPEC.
      eapply t_post; [apply (tail_tri ss1 (charged_stream st0 (u_ki u0)) (u_adv u0) (u_est u0) (u_delta u0) out);
                      [exact Hg2|rewrite u64_small by (destruct al; lia); destruct al; lia]|].
      intros l w (E1 & E2 & E3 & E4 & E5). exists out. rewrite E2. auto.
  - (* no cryptex *)
    cbn [andb]. rewrite !Z.sub_0_r, !Z.add_0_r.
    apply t_bind_ret.
    eapply t_bind2; [apply (dec_step ss1 (rtp_conf st0) (u_cs u0) es el p1); [lia|lia|lia|lia|exact LP1|exact EDR]| |intros ?].
    { intros s w (ER & Hw). rewrite ER in SPEC. exact (post_exit _ _ _ _ _ Hw SPEC). }
    apply t_ex; intros out. apply t_pure; intros ER. apply t_pure; intros LO. rewrite ER in SPEC.
    apply t_bind_ret.
    eapply t_post; [apply (tail_tri ss1 (charged_stream st0 (u_ki u0)) (u_adv u0) (u_est u0) (u_delta u0) out);
                    [exact Hg2|rewrite u64_small by lia; lia]|].
    intros l w (E1 & E2 & E3 & E4 & E5). exists out. rewrite E2. auto.
Qed.

Definition UQ (l : Z) (w : world) : Prop :=
  exists out, unprotect_fun ss0 C pkt = (w_s w, inl out) /\ l = lenZ out /\
              take (zn l) (b_dst (w_b w)) = out /\ b_src (w_b w) = src /\ b_oob (w_b w) = false.
Definition UE (s : Z) (w : world) : Prop :=
  unprotect_fun ss0 C pkt = (w_s w, inr s) /\ b_src (w_b w) = src /\ b_oob (w_b w) = false.

Lemma unprotect_tri : tri (S ss0 (eq d0)) unprotect UQ UE.
Proof.
  unfold unprotect. eapply t_bind2; [apply unprotect_pre_tri| |intros u].
  - intros s w [EP Hw]. destruct (St_exit _ _ _ _ _ _ _ _ Hw) as (e1 & e2 & e3).
    unfold UE, unprotect_fun. rewrite EP, e1. auto.
  - unfold UPreQ. apply t_ex; intros u0. apply t_pure; intros EP. apply t_pure; intros ->. apply t_pure; intros PG.
    eapply t_conseq; [apply (unprotect_post_tri u0 PG)| |].
    + intros l w (out & A & B). exists out. unfold unprotect_fun. rewrite EP. auto.
    + intros s w (A & B). unfold UE, unprotect_fun. rewrite EP. auto.
Qed.

End UNPROT.

(* ===================================================================== *)
(* 6. the theorems on worlds                                              *)
(* ===================================================================== *)
(* REFINEMENT: srtp_unprotect computes unprotect_fun, whatever the alias mode and the prefill
   of the output block, for EVERY input and EVERY well-formed stream (plain, RFC 6904,
   cryptex, both). *)
Theorem unprotect_refines w st0 :
  call_ok w ->
  list_get (ss_list (w_s w)) (hdr_ssrc (in_pkt w)) = Some st0 -> stream_wf st0 ->
  match unprotect w with
  | (w', inl l) =>
      exists out, unprotect_fun (w_s w) (b_cap (w_b w)) (in_pkt w) = (w_s w', inl out) /\
                  l = lenZ out /\ take (zn l) (b_dst (w_b w')) = out /\
                  b_src (w_b w') = b_src (w_b w) /\ b_oob (w_b w') = false
  | (w', inr s) =>
      unprotect_fun (w_s w) (b_cap (w_b w)) (in_pkt w) = (w_s w', inr s) /\
      b_src (w_b w') = b_src (w_b w) /\ b_oob (w_b w') = false
  end.
Proof.
  intros (HO & HL & HC & HD & HS) Hget Hwf.
  assert (HLp : lenZ (in_pkt w) = b_len (w_b w)).
  { unfold in_pkt, lenZ, zn, size_ok in *. rewrite take_length. lia. }
  pose proof (unprotect_tri (b_len (w_b w)) (b_cap (w_b w)) (b_alias (w_b w)) (b_src (w_b w)) (b_dst (w_b w))
                (in_pkt w) HL HC HD eq_refl HLp (w_s w) st0 Hget Hwf w (St_init w HO)) as T.
  destruct (unprotect w) as [w' [l|s]]; exact T.
Qed.
Print Assumptions unprotect_refines.

(* the classes of the work plan, as instances *)
Corollary unprotect_refines_plain w st0 :
  call_ok w ->
  list_get (ss_list (w_s w)) (hdr_ssrc (in_pkt w)) = Some st0 -> stream_wf st0 -> plain_stream st0 ->
  match unprotect w with
  | (w', inl l) =>
      exists out, unprotect_fun (w_s w) (b_cap (w_b w)) (in_pkt w) = (w_s w', inl out) /\
                  l = lenZ out /\ take (zn l) (b_dst (w_b w')) = out /\
                  b_src (w_b w') = b_src (w_b w) /\ b_oob (w_b w') = false
  | (w', inr s) =>
      unprotect_fun (w_s w) (b_cap (w_b w)) (in_pkt w) = (w_s w', inr s) /\
      b_src (w_b w') = b_src (w_b w) /\ b_oob (w_b w') = false
  end.
Proof. intros H1 H2 H3 _. exact (unprotect_refines w st0 H1 H2 H3). Qed.

(* C12 (SRTP unprotect), general form: two calls on the same session, the same *out_len and
   the same input packet — whatever their alias modes and whatever their output blocks held —
   end in the same session with the same status, the same length and the same output octets;
   neither writes its source block *)
Theorem unprotect_buffers_independent w1 w2 st0 :
  call_ok w1 -> call_ok w2 ->
  w_s w1 = w_s w2 -> b_cap (w_b w1) = b_cap (w_b w2) -> in_pkt w1 = in_pkt w2 ->
  list_get (ss_list (w_s w1)) (hdr_ssrc (in_pkt w1)) = Some st0 -> stream_wf st0 ->
  w_s (fst (unprotect w1)) = w_s (fst (unprotect w2)) /\
  b_src (w_b (fst (unprotect w1))) = b_src (w_b w1) /\
  b_src (w_b (fst (unprotect w2))) = b_src (w_b w2) /\
  b_oob (w_b (fst (unprotect w1))) = false /\ b_oob (w_b (fst (unprotect w2))) = false /\
  match snd (unprotect w1), snd (unprotect w2) with
  | inl l1, inl l2 =>
      l1 = l2 /\ take (zn l1) (b_dst (w_b (fst (unprotect w1)))) = take (zn l2) (b_dst (w_b (fst (unprotect w2))))
  | inr s1, inr s2 => s1 = s2
  | _, _ => False
  end.
Proof.
  intros H1 H2 ES EC EP Hget Hwf.
  pose proof (unprotect_refines w1 st0 H1 Hget Hwf) as T1.
  rewrite ES, EP in Hget.
  pose proof (unprotect_refines w2 st0 H2 Hget Hwf) as T2.
  rewrite ES, EC, EP in T1.
  destruct (unprotect w1) as [w1' [l1|s1]], (unprotect w2) as [w2' [l2|s2]]; cbn [fst snd].
  - destruct T1 as (o1 & F1 & -> & D1 & S1 & O1), T2 as (o2 & F2 & -> & D2 & S2 & O2).
    rewrite F1 in F2. injection F2 as E1 E2. subst o2. rewrite D1, D2. auto 10.
  - destruct T1 as (o1 & F1 & _), T2 as (F2 & _). rewrite F1 in F2. discriminate.
  - destruct T1 as (F1 & _), T2 as (o2 & F2 & _). rewrite F1 in F2. discriminate.
  - destruct T1 as (F1 & S1 & O1), T2 as (F2 & S2 & O2). rewrite F1 in F2. injection F2 as E1 E2. auto 10.
Qed.
Print Assumptions unprotect_buffers_independent.

(* C12 (SRTP unprotect): the same packet unprotected in place and out of place (whatever the
   destination block held): same status, same length, same output octets, same final session;
   the out-of-place call leaves its source alone.  Same shape as protect_alias_independent, but
   without any restriction on the class of the stream. *)
Theorem unprotect_alias_independent wa wo st0 :
  call_ok wa -> call_ok wo ->
  b_alias (w_b wa) = true -> b_alias (w_b wo) = false ->
  w_s wa = w_s wo -> b_cap (w_b wa) = b_cap (w_b wo) -> in_pkt wa = in_pkt wo ->
  list_get (ss_list (w_s wa)) (hdr_ssrc (in_pkt wa)) = Some st0 -> stream_wf st0 ->
  w_s (fst (unprotect wa)) = w_s (fst (unprotect wo)) /\
  b_src (w_b (fst (unprotect wo))) = b_src (w_b wo) /\
  match snd (unprotect wa), snd (unprotect wo) with
  | inl la, inl lo =>
      la = lo /\ take (zn la) (b_dst (w_b (fst (unprotect wa)))) = take (zn lo) (b_dst (w_b (fst (unprotect wo))))
  | inr sa, inr so => sa = so
  | _, _ => False
  end.
Proof.
  intros Ha Ho _ _ ES EC EP Hget Hwf.
  destruct (unprotect_buffers_independent wa wo st0 Ha Ho ES EC EP Hget Hwf) as (A & _ & B & _ & _ & D). auto.
Qed.
Print Assumptions unprotect_alias_independent.

(* the prefill of the output block does not matter: two out-of-place calls that differ only
   in what the destination held *)
Corollary unprotect_prefill_independent w1 w2 st0 :
  call_ok w1 -> call_ok w2 ->
  b_alias (w_b w1) = false -> b_alias (w_b w2) = false ->
  w_s w1 = w_s w2 -> b_cap (w_b w1) = b_cap (w_b w2) -> b_len (w_b w1) = b_len (w_b w2) ->
  b_src (w_b w1) = b_src (w_b w2) ->
  list_get (ss_list (w_s w1)) (hdr_ssrc (in_pkt w1)) = Some st0 -> stream_wf st0 ->
  w_s (fst (unprotect w1)) = w_s (fst (unprotect w2)) /\
  match snd (unprotect w1), snd (unprotect w2) with
  | inl l1, inl l2 =>
      l1 = l2 /\ take (zn l1) (b_dst (w_b (fst (unprotect w1)))) = take (zn l2) (b_dst (w_b (fst (unprotect w2))))
  | inr s1, inr s2 => s1 = s2
  | _, _ => False
  end.
Proof.
  intros H1 H2 A1 A2 ES EC EL EB Hget Hwf.
  assert (EP : in_pkt w1 = in_pkt w2) by (unfold in_pkt, cur_src; rewrite A1, A2, EL, EB; reflexivity).
  destruct (unprotect_buffers_independent w1 w2 st0 H1 H2 ES EC EP Hget Hwf) as (A & _ & _ & _ & _ & D). auto.
Qed.
Print Assumptions unprotect_prefill_independent.

(* ===================================================================== *)
(* 7. cryptex together with RFC 6904: alias independent, but never accepted *)
(* ===================================================================== *)
(* On the protect side this class is alias dependent (protect_alias_cryptex_xtn_refuted).  On
   the unprotect side it is not: srtp_process_header_encryption runs BEFORE the cryptex profile
   is restored, sees 0xC0DE / 0xC2DE, and refuses the packet with parse_err in both modes (after
   the key budget has been charged).  So a packet for which cryptex is in use is never accepted
   by a stream that also has a header-extension cipher. *)
Lemma wire_xtn_cryptex_none ids xk iv pkt :
  hdr_x pkt = 1 ->
  xtn_profile pkt = cryptex_one_byte_profile_c \/ xtn_profile pkt = cryptex_two_byte_profile_c ->
  wire_xtn ids (Some xk) iv pkt = None.
Proof.
  intros X PF. unfold wire_xtn. rewrite X. cbn [Z.eqb Pos.eqb]. unfold xtn_apply.
  apply cryptex_not_plain in PF. unfold xtn_profile in PF. rewrite PF. reflexivity.
Qed.

Lemma unprotect_pre_fun_inv ss C pkt u :
  unprotect_pre_fun ss C pkt = inl u ->
  exists st, list_get (ss_list ss) (hdr_ssrc pkt) = Some st /\
             u_pkt u = pkt /\ u_ssrc u = hdr_ssrc pkt /\ u_inuse u = rx_cryptex st pkt.
Proof.
  unfold unprotect_pre_fun. cbv zeta.
  destruct (negb (validate_rtp pkt (lenZ pkt) =? st_ok)); [discriminate|].
  destruct (list_get (ss_list ss) (hdr_ssrc pkt)) as [st|]; [|discriminate].
  destruct (rx_index st (hdr_seq pkt)) as [[[est delta] adv]|e]; [|discriminate].
  destruct (receiver_key_st st pkt (lenZ pkt) (rtp_tl0 st)) as [[ki k]|e]; [|discriminate].
  destruct (_ <? rx_enc_start st pkt); [discriminate|].
  destruct (C <? _); [discriminate|].
  destruct (rx_auth _ _ _ _ _ _) as [cs1|e]; [|discriminate].
  intros H. injection H as <-. exists st. cbn. auto.
Qed.

Theorem unprotect_cryptex_xtn_rejected ss C pkt u xk :
  unprotect_pre_fun ss C pkt = inl u -> u_inuse u = true -> k_xtn_c (u_k u) = Some xk ->
  exists ss' e, unprotect_fun ss C pkt = (ss', inr e) /\ e <> st_ok /\
                (e = st_parse_err \/ e = st_key_expired \/ e = st_fail).
Proof.
  intros EP IU XK. destruct (unprotect_pre_fun_inv _ _ _ _ EP) as (st & Hg & E1 & E2 & E3).
  rewrite IU in E3. symmetry in E3.
  assert (CXT : hdr_x pkt = 1 /\ (xtn_profile pkt = cryptex_one_byte_profile_c \/ xtn_profile pkt = cryptex_two_byte_profile_c)).
  { unfold rx_cryptex in E3. apply andb_true_iff in E3. destruct E3 as [E3 E4].
    apply andb_true_iff in E3. destruct E3 as [_ E3]. apply Z.eqb_eq in E3. apply orb_true_iff in E4.
    rewrite !Z.eqb_eq in E4. auto. }
  destruct CXT as [X PF].
  unfold unprotect_fun. rewrite EP. unfold unprotect_post_fun. cbv zeta. rewrite E2, Hg, E1, XK.
  rewrite (wire_xtn_cryptex_none _ _ _ _ X PF).
  unfold charge_fun. destruct (limit_update_fun ss (hdr_ssrc pkt) st (u_ki u)) as [[ss' ev]|e] eqn:EL.
  - destruct ev; eexists; eexists; (split; [reflexivity|]); (split; [discriminate|]); auto.
  - exists ss, e. split; [reflexivity|].
    assert (e = st_fail).
    { revert EL. unfold limit_update_fun. destruct (s_clone st).
      - destruct (ss_template ss) as [t|]; [|intros H; injection H as <-; reflexivity].
        destruct (nth_error _ _); [discriminate|intros H; injection H as <-; reflexivity].
      - destruct (nth_error _ _); [discriminate|intros H; injection H as <-; reflexivity]. }
    subst e. split; [discriminate|auto].
Qed.
Print Assumptions unprotect_cryptex_xtn_rejected.

(* the instance: what srtp_protect made of the packet of protect_alias_cryptex_xtn_refuted (in
   place and out of place: two different wire images) is refused by srtp_unprotect with
   parse_err in place, out of place into a zeroed block and out of place into a block of FF *)
Module CxXtnRx.
Definition wire_a : bytes := take 34 (b_dst (w_b (fst (protect 0 CxXtn.wa)))).
Definition wire_o : bytes := take 34 (b_dst (w_b (fst (protect 0 (CxXtn.wo 0))))).
Definition ua (p : bytes) : world :=
  Witness.mkw CxXtn.sess {| b_src := []; b_dst := p ++ repeat 0%N 10; b_alias := true; b_len := lenZ p; b_cap := 44; b_oob := false |}.
Definition uo (fill : N) (p : bytes) : world :=
  Witness.mkw CxXtn.sess {| b_src := p; b_dst := repeat fill 44; b_alias := false; b_len := lenZ p; b_cap := 44; b_oob := false |}.
End CxXtnRx.

Theorem unprotect_alias_cryptex_xtn_not_refuted :
  snd (unprotect (CxXtnRx.ua CxXtnRx.wire_a)) = inr st_parse_err /\
  snd (unprotect (CxXtnRx.uo 0 CxXtnRx.wire_a)) = inr st_parse_err /\
  snd (unprotect (CxXtnRx.uo 255 CxXtnRx.wire_a)) = inr st_parse_err /\
  snd (unprotect (CxXtnRx.ua CxXtnRx.wire_o)) = inr st_parse_err /\
  snd (unprotect (CxXtnRx.uo 0 CxXtnRx.wire_o)) = inr st_parse_err /\
  snd (unprotect (CxXtnRx.uo 255 CxXtnRx.wire_o)) = inr st_parse_err.
Proof. repeat split; vm_compute; reflexivity. Qed.
Print Assumptions unprotect_alias_cryptex_xtn_not_refuted.
