(* CryptexProofs.v — the two buffer shuffles of cryptex working in place
   (srtp_cryptex_adjust_buffer / srtp_cryptex_restore_buffer, cryptex_adjust / cryptex_restore
   of Rtp.v).  With H = the 12 fixed header octets, M = CSRC list (n = 4*cc octets) followed
   by the 4 octets of the extension header, T = everything behind:

     adjust  : H ++ M ++ T  |->  H ++ drop n M ++ take n M ++ T     (ext. header to [12,16),
                                                                      CSRC list to [16,16+n))
     restore : H ++ M' ++ T |->  H ++ drop 4 M' ++ take 4 M' ++ T

   restore after adjust is the identity on the destination block; as computations they need
   hdr_len + 4 <= |dst| for the reads and hdr_len + 4 <= *out_len for the writes not to be
   flagged. *)
From Coq Require Import NArith ZArith List Bool Lia.
From Srtp Require Import Util Constants KeyLimit Rdb Rdbx Icm World Stream Rtp MonadLemmas WfProofs BoundsRtp XtnProofs.
Import ListNotations.
Local Open Scope Z_scope.

(* ===================================================================== *)
(* lists                                                                  *)
Lemma slice_app_exact {A} (a b : list A) o n : length a = o -> slice o n (a ++ b) = take n b.
Proof. intros <-. apply slice_after. Qed.
Lemma splice_mid {A} (a m t v : list A) o :
  length a = o -> length v = length m -> splice o v (a ++ m ++ t) = a ++ v ++ t.
Proof.
  intros <- L. rewrite splice_after by (rewrite app_length; lia).
  rewrite L, drop_app_len. reflexivity.
Qed.
Lemma take_app_le {A} (a b : list A) n : (n <= length a)%nat -> take n (a ++ b) = take n a.
Proof. intros H. rewrite !take_firstn. apply firstn_app_le. exact H. Qed.
Lemma drop_app_le {A} (a b : list A) n : (n <= length a)%nat -> drop n (a ++ b) = drop n a ++ b.
Proof. intros H. rewrite !drop_skipn. apply skipn_app_le. exact H. Qed.

(* the shuffles as functions on the destination block, n = 4 * cc *)
Definition adjust_dst (n : nat) (dd : bytes) : bytes :=
  splice 12 (slice (12 + n) 4 dd) (splice 16 (slice 12 n dd) dd).
Definition restore_dst (n : nat) (dd : bytes) : bytes :=
  splice (12 + n) (slice 12 4 dd) (splice 12 (slice 16 n dd) dd).

Lemma adjust_dst_app n (H M T : bytes) :
  length H = 12%nat -> length M = (n + 4)%nat ->
  adjust_dst n (H ++ M ++ T) = H ++ drop n M ++ take n M ++ T.
Proof.
  intros LH LM. unfold adjust_dst.
  assert (E1 : slice 12 n (H ++ M ++ T) = take n M).
  { rewrite (slice_app_exact H _ 12 n LH). apply take_app_le. lia. }
  assert (E2 : slice (12 + n) 4 (H ++ M ++ T) = drop n M).
  { unfold slice. rewrite <- LH, drop_app_len_plus, drop_app_le by lia.
    rewrite take_app_le by (rewrite drop_length; lia). rewrite <- (take_all (drop n M)) at 2.
    rewrite drop_length. f_equal. lia. }
  rewrite E1, E2.
  rewrite <- (take_drop_id 4 M) at 2. rewrite <- (app_assoc (take 4 M)), (app_assoc H).
  rewrite (splice_mid (H ++ take 4 M) (drop 4 M) T (take n M) 16)
    by (rewrite ?app_length, ?take_length, ?drop_length; lia).
  rewrite <- app_assoc.
  rewrite (splice_mid H (take 4 M) _ (drop n M) 12 LH) by (rewrite take_length, drop_length; lia).
  reflexivity.
Qed.

Lemma restore_dst_app n (H M T : bytes) :
  length H = 12%nat -> length M = (n + 4)%nat ->
  restore_dst n (H ++ M ++ T) = H ++ drop 4 M ++ take 4 M ++ T.
Proof.
  intros LH LM. unfold restore_dst.
  assert (E1 : slice 12 4 (H ++ M ++ T) = take 4 M).
  { rewrite (slice_app_exact H _ 12 4 LH). apply take_app_le. lia. }
  assert (E2 : slice 16 n (H ++ M ++ T) = drop 4 M).
  { unfold slice. change 16%nat with (12 + 4)%nat. rewrite <- LH, drop_app_len_plus, drop_app_le by lia.
    rewrite take_app_le by (rewrite drop_length; lia). rewrite <- (take_all (drop 4 M)) at 2.
    rewrite drop_length. f_equal. lia. }
  rewrite E1, E2.
  rewrite <- (take_drop_id n M) at 2. rewrite <- (app_assoc (take n M)).
  rewrite (splice_mid H (take n M) _ (drop 4 M) 12 LH) by (rewrite take_length, drop_length; lia).
  rewrite (app_assoc H).
  rewrite (splice_mid (H ++ drop 4 M) (drop n M) T (take 4 M) (12 + n))
    by (rewrite ?app_length, ?take_length, ?drop_length; lia).
  rewrite <- app_assoc. reflexivity.
Qed.

(* every block that is long enough has the shape H ++ M ++ T *)
Lemma split_hdr n (dd : bytes) : (12 + n + 4 <= length dd)%nat ->
  exists H M T, dd = H ++ M ++ T /\ length H = 12%nat /\ length M = (n + 4)%nat /\
                H = take 12 dd /\ M = slice 12 (n + 4) dd /\ T = drop (12 + n + 4) dd.
Proof.
  intros L. exists (take 12 dd), (slice 12 (n + 4) dd), (drop (12 + n + 4) dd).
  split; [|split; [apply take_len_le; lia|split; [rewrite slice_length; lia|auto]]].
  unfold slice. rewrite <- (take_drop_id 12 dd) at 1. f_equal.
  rewrite <- (take_drop_id (n + 4) (drop 12 dd)) at 1. f_equal. rewrite drop_drop. f_equal. lia.
Qed.

(* the layout after adjust: [12,16) holds the extension header, [16,16+n) the CSRC list *)
Theorem adjust_dst_layout n dd : (12 + n + 4 <= length dd)%nat ->
  adjust_dst n dd = take 12 dd ++ slice (12 + n) 4 dd ++ slice 12 n dd ++ drop (12 + n + 4) dd /\
  slice 12 4 (adjust_dst n dd) = slice (12 + n) 4 dd /\
  slice 16 n (adjust_dst n dd) = slice 12 n dd.
Proof.
  intros L. destruct (split_hdr n dd L) as (H & M & T & E & LH & LM & EH & EM & ET).
  assert (A : adjust_dst n dd = H ++ drop n M ++ take n M ++ T) by (rewrite E; apply adjust_dst_app; assumption).
  assert (S1 : slice (12 + n) 4 dd = drop n M).
  { rewrite EM. unfold slice. rewrite !take_firstn, !drop_skipn.
    rewrite <- firstn_skipn_comm, skipn_skipn. rewrite (Nat.add_comm n 12). f_equal. lia. }
  assert (S2 : slice 12 n dd = take n M).
  { rewrite EM. unfold slice. rewrite take_take. f_equal. lia. }
  split; [|split].
  - rewrite A, S1, S2, <- EH, <- ET. reflexivity.
  - rewrite A, S1. rewrite (slice_app_exact H _ 12 4 LH). rewrite <- (take_all (drop n M)) at 2.
    rewrite drop_length, LM. replace (n + 4 - n)%nat with 4%nat by lia. apply take_app_le.
    rewrite drop_length. lia.
  - rewrite A, S2. rewrite (app_assoc H). apply slice_app_exact_take.
    + rewrite app_length, drop_length. lia.
    + rewrite take_length. lia.
Qed.
