(* CryptexProofs.v — the two buffer shuffles of cryptex working in place
   (srtp_cryptex_adjust_buffer / srtp_cryptex_restore_buffer, cryptex_adjust / cryptex_restore
   of Rtp.v).  With H = the 12 fixed header octets, M = CSRC list (n = 4*cc octets) followed
   by the 4 octets of the extension header, T = everything behind:

     adjust  : H ++ M ++ T  |->  H ++ drop n M ++ take n M ++ T     (ext. header to [12,16),
                                                                      CSRC list to [16,16+n))
     restore : H ++ M' ++ T |->  H ++ drop 4 M' ++ take 4 M' ++ T

   restore after adjust is the identity on the destination block; as computations they need
   hdr_len + 4 <= |dst| for the reads and hdr_len + 4 <= *out_len for the writes not to be
   flagged. *)
From Coq Require Import NArith ZArith List Bool Lia.
From Srtp Require Import Util Constants KeyLimit Rdb Rdbx Icm World Stream Rtp MonadLemmas WfProofs BoundsRtp XtnProofs.
Import ListNotations.
Local Open Scope Z_scope.

(* ===================================================================== *)
(* lists                                                                  *)
Lemma slice_app_exact {A} (a b : list A) o n : length a = o -> slice o n (a ++ b) = take n b.
Proof. intros <-. apply slice_after. Qed.
Lemma splice_mid {A} (a m t v : list A) o :
  length a = o -> length v = length m -> splice o v (a ++ m ++ t) = a ++ v ++ t.
Proof.
  intros <- L. rewrite splice_after by (rewrite app_length; lia).
  rewrite L, drop_app_len. reflexivity.
Qed.
Lemma slice_mid {A} (a m t : list A) o n : length a = o -> length m = n -> slice o n (a ++ m ++ t) = m.
Proof. intros <- <-. rewrite slice_after. apply take_app_len. Qed.
Lemma take_app_le {A} (a b : list A) n : (n <= length a)%nat -> take n (a ++ b) = take n a.
Proof.
  revert a. induction n as [|n IH]; intros a H; [reflexivity|].
  destruct a as [|x a]; [cbn in H; lia|]. cbn. rewrite IH by (cbn in H; lia). reflexivity.
Qed.
Lemma drop_app_le {A} (a b : list A) n : (n <= length a)%nat -> drop n (a ++ b) = drop n a ++ b.
Proof.
  revert a. induction n as [|n IH]; intros a H; [reflexivity|].
  destruct a as [|x a]; [cbn in H; lia|]. cbn. apply IH. cbn in H. lia.
Qed.

(* the shuffles as functions on the destination block, n = 4 * cc *)
Definition adjust_dst (n : nat) (dd : bytes) : bytes :=
  splice 12 (slice (12 + n) 4 dd) (splice 16 (slice 12 n dd) dd).
Definition restore_dst (n : nat) (dd : bytes) : bytes :=
  splice (12 + n) (slice 12 4 dd) (splice 12 (slice 16 n dd) dd).

Lemma adjust_dst_app n (H M T : bytes) :
  length H = 12%nat -> length M = (n + 4)%nat ->
  adjust_dst n (H ++ M ++ T) = H ++ drop n M ++ take n M ++ T.
Proof.
  intros LH LM. unfold adjust_dst.
  assert (E1 : slice 12 n (H ++ M ++ T) = take n M).
  { rewrite (slice_app_exact H _ 12 n LH). apply take_app_le. lia. }
  assert (E2 : slice (12 + n) 4 (H ++ M ++ T) = drop n M).
  { unfold slice. rewrite <- LH, drop_app_len_plus, drop_app_le by lia.
    rewrite take_app_le by (rewrite drop_length; lia). rewrite <- (take_all (drop n M)) at 2.
    rewrite drop_length. f_equal. lia. }
  rewrite E1, E2.
  replace (H ++ M ++ T) with ((H ++ take 4 M) ++ drop 4 M ++ T)
    by (rewrite <- (take_drop_id 4 M) at 3; rewrite <- !app_assoc; reflexivity).
  rewrite (splice_mid (H ++ take 4 M) (drop 4 M) T (take n M) 16)
    by (rewrite ?app_length, ?take_length, ?drop_length; lia).
  rewrite <- app_assoc.
  rewrite (splice_mid H (take 4 M) _ (drop n M) 12 LH) by (rewrite take_length, drop_length; lia).
  reflexivity.
Qed.

Lemma restore_dst_app n (H M T : bytes) :
  length H = 12%nat -> length M = (n + 4)%nat ->
  restore_dst n (H ++ M ++ T) = H ++ drop 4 M ++ take 4 M ++ T.
Proof.
  intros LH LM. unfold restore_dst.
  assert (E1 : slice 12 4 (H ++ M ++ T) = take 4 M).
  { rewrite (slice_app_exact H _ 12 4 LH). apply take_app_le. lia. }
  assert (E2 : slice 16 n (H ++ M ++ T) = drop 4 M).
  { unfold slice. change 16%nat with (12 + 4)%nat. rewrite <- LH, drop_app_len_plus, drop_app_le by lia.
    rewrite take_app_le by (rewrite drop_length; lia). rewrite <- (take_all (drop 4 M)) at 2.
    rewrite drop_length. f_equal. lia. }
  rewrite E1, E2.
  replace (H ++ M ++ T) with (H ++ take n M ++ drop n M ++ T)
    by (rewrite <- (take_drop_id n M) at 3; rewrite <- !app_assoc; reflexivity).
  rewrite (splice_mid H (take n M) _ (drop 4 M) 12 LH) by (rewrite take_length, drop_length; lia).
  rewrite (app_assoc H).
  rewrite (splice_mid (H ++ drop 4 M) (drop n M) T (take 4 M) (12 + n))
    by (rewrite ?app_length, ?take_length, ?drop_length; lia).
  rewrite <- app_assoc. reflexivity.
Qed.

(* every block that is long enough has the shape H ++ M ++ T *)
Lemma split_hdr n (dd : bytes) : (12 + n + 4 <= length dd)%nat ->
  exists H M T, dd = H ++ M ++ T /\ length H = 12%nat /\ length M = (n + 4)%nat /\
                H = take 12 dd /\ M = slice 12 (n + 4) dd /\ T = drop (12 + n + 4) dd.
Proof.
  intros L. exists (take 12 dd), (slice 12 (n + 4) dd), (drop (12 + n + 4) dd).
  split; [|split; [apply take_len_le; lia|split; [rewrite slice_length; lia|repeat split]]].
  unfold slice. rewrite <- (take_drop_id 12 dd) at 1. f_equal.
  rewrite <- (take_drop_id (n + 4) (drop 12 dd)) at 1. f_equal. rewrite drop_drop. f_equal; lia.
Qed.

(* the layout after adjust: [12,16) holds the extension header, [16,16+n) the CSRC list *)
Theorem adjust_dst_layout n dd : (12 + n + 4 <= length dd)%nat ->
  adjust_dst n dd = take 12 dd ++ slice (12 + n) 4 dd ++ slice 12 n dd ++ drop (12 + n + 4) dd /\
  slice 12 4 (adjust_dst n dd) = slice (12 + n) 4 dd /\
  slice 16 n (adjust_dst n dd) = slice 12 n dd.
Proof.
  intros L. destruct (split_hdr n dd L) as (H & M & T & E & LH & LM & EH & EM & ET).
  assert (A : adjust_dst n dd = H ++ drop n M ++ take n M ++ T) by (rewrite E; apply adjust_dst_app; assumption).
  assert (S1 : slice (12 + n) 4 dd = drop n M).
  { rewrite EM. unfold slice at 2. rewrite <- (slice_alt n 4 (drop 12 dd)). unfold slice.
    rewrite drop_drop. reflexivity. }
  assert (S2 : slice 12 n dd = take n M).
  { rewrite EM. unfold slice. rewrite take_take. f_equal. lia. }
  split; [|split].
  - rewrite A, S1, S2, <- EH, <- ET. reflexivity.
  - rewrite A, S1. rewrite (slice_app_exact H _ 12 4 LH). rewrite <- (take_all (drop n M)) at 2.
    rewrite drop_length, LM. replace (n + 4 - n)%nat with 4%nat by lia. apply take_app_le.
    rewrite drop_length. lia.
  - rewrite A, S2. rewrite (app_assoc H). apply slice_mid.
    + rewrite app_length, drop_length. lia.
    + rewrite take_length. lia.
Qed.

Theorem restore_adjust_dst n dd : (12 + n + 4 <= length dd)%nat -> restore_dst n (adjust_dst n dd) = dd.
Proof.
  intros L. destruct (split_hdr n dd L) as (H & M & T & E & LH & LM & _).
  rewrite E at 1. rewrite adjust_dst_app by assumption.
  rewrite (app_assoc (drop n M)).
  rewrite restore_dst_app by (rewrite ?app_length, ?take_length, ?drop_length; lia).
  assert (L4 : length (drop n M) = 4%nat) by (rewrite drop_length; lia).
  rewrite (drop_app_exact _ _ _ L4), (take_app_exact _ _ _ L4), (app_assoc (take n M)), take_drop_id.
  symmetry. exact E.
Qed.

(* and the other way round (unprotect: adjust, decrypt, restore) *)
Theorem adjust_restore_dst n dd : (12 + n + 4 <= length dd)%nat -> adjust_dst n (restore_dst n dd) = dd.
Proof.
  intros L. destruct (split_hdr n dd L) as (H & M & T & E & LH & LM & _).
  rewrite E at 1. rewrite restore_dst_app by assumption.
  rewrite (app_assoc (drop 4 M)).
  rewrite adjust_dst_app by (rewrite ?app_length, ?take_length, ?drop_length; lia).
  assert (L4 : length (drop 4 M) = n) by (rewrite drop_length; lia).
  rewrite (drop_app_exact _ _ _ L4), (take_app_exact _ _ _ L4), (app_assoc (take 4 M)), take_drop_id.
  symmetry. exact E.
Qed.

(* ===================================================================== *)
(* the computations                                                       *)
(* the world after writing the destination: new content, oob flag raised when bad *)
Definition set_dst (w : world) (dd : bytes) (bad : bool) : world :=
  {| w_s := w_s w;
     w_b := {| b_src := b_src (w_b w); b_dst := dd; b_alias := b_alias (w_b w); b_len := b_len (w_b w);
               b_cap := b_cap (w_b w); b_oob := b_oob (w_b w) || bad |};
     w_ev := w_ev w; w_iv := w_iv w; w_h := w_h w |}.

Lemma wr_dst_run off v w :
  wr_dst off v w = (set_dst w (splice (zn off) v (b_dst (w_b w))) ((off <? 0) || (b_cap (w_b w) <? off + lenZ v)), inl tt).
Proof. reflexivity. Qed.
Lemma rd_dst_run off n w :
  0 <= off -> 0 <= n -> off + n <= lenZ (b_dst (w_b w)) ->
  rd_dst off n w = (w, inl (slice (zn off) (zn n) (b_dst (w_b w)))).
Proof.
  intros H1 H2 H3. unfold rd_dst, bind, get_b.
  assert (Hc : (off <? 0) || (n <? 0) || (lenZ (b_dst (w_b w)) <? off + n) = false)
    by (rewrite !orb_false_iff, !Z.ltb_ge; lia).
  rewrite Hc. reflexivity.
Qed.
Lemma set_dst_set_dst w d1 b1 d2 b2 : set_dst (set_dst w d1 b1) d2 b2 = set_dst w d2 (b1 || b2).
Proof. unfold set_dst. cbn. rewrite orb_assoc. reflexivity. Qed.
Lemma set_dst_id w : set_dst w (b_dst (w_b w)) false = w.
Proof. destruct w as [s [a b c d e f] ev iv h]. unfold set_dst. cbn. rewrite orb_false_r. reflexivity. Qed.

Section RUN.
Variables (pkt : bytes) (w : world).
Let cc := hdr_cc pkt.
Let n := zn (4 * cc).
Let dd := b_dst (w_b w).
Hypothesis CCnz : cc <> 0.
Hypothesis Hlen : hdr_len pkt + 4 <= lenZ dd.

Lemma cc_facts : 0 < cc < 16 /\ hdr_len pkt = 12 + 4 * cc /\ Z.of_nat n = 4 * cc.
Proof. pose proof (hdr_cc_range pkt). subst cc n. unfold zn. split; [lia|]. split; [reflexivity|lia]. Qed.

Theorem cryptex_adjust_run :
  cryptex_adjust pkt w = (set_dst w (adjust_dst n dd) (b_cap (w_b w) <? hdr_len pkt + 4), inl tt).
Proof.
  destruct cc_facts as (CC & HL & NN). unfold cryptex_adjust. fold cc.
  destruct (cc =? 0) eqn:E0; [apply Z.eqb_eq in E0; contradiction|].
  change octets_in_rtp_header_c with 12.
  unfold bind at 1. rewrite rd_dst_run by (fold dd; lia).
  unfold bind at 1. rewrite rd_dst_run by (fold dd; lia).
  unfold bind. rewrite wr_dst_run, wr_dst_run, set_dst_set_dst. cbn [set_dst w_b b_dst b_cap]. fold dd.
  assert (L1 : lenZ (slice (zn 12) (zn (4 * cc)) dd) = 4 * cc) by (apply lenZ_slice_eq; lia).
  assert (L2 : lenZ (slice (zn (hdr_len pkt)) (zn 4) dd) = 4) by (apply lenZ_slice_eq; lia).
  rewrite L1, L2. unfold adjust_dst. fold n.
  replace (zn (hdr_len pkt)) with (12 + n)%nat by (unfold zn in *; lia).
  change (zn 12) with 12%nat. change (zn 4) with 4%nat. change (zn (12 + 4)) with 16%nat.
  f_equal. f_equal. rewrite HL.
  destruct (b_cap (w_b w) <? 12 + 4 + 4 * cc) eqn:A1; destruct (b_cap (w_b w) <? 12 + 4) eqn:A2;
  destruct (b_cap (w_b w) <? 12 + 4 * cc + 4) eqn:A3; try reflexivity;
  rewrite ?Z.ltb_lt, ?Z.ltb_ge in *; lia.
Qed.

Theorem cryptex_restore_run :
  cryptex_restore pkt w = (set_dst w (restore_dst n dd) (b_cap (w_b w) <? hdr_len pkt + 4), inl tt).
Proof.
  destruct cc_facts as (CC & HL & NN). unfold cryptex_restore. fold cc.
  destruct (cc =? 0) eqn:E0; [apply Z.eqb_eq in E0; contradiction|].
  change octets_in_rtp_header_c with 12.
  unfold bind at 1. rewrite rd_dst_run by (fold dd; lia).
  unfold bind at 1. rewrite rd_dst_run by (fold dd; lia).
  unfold bind. rewrite wr_dst_run, wr_dst_run, set_dst_set_dst. cbn [set_dst w_b b_dst b_cap]. fold dd.
  assert (L1 : lenZ (slice (zn (12 + 4)) (zn (4 * cc)) dd) = 4 * cc) by (apply lenZ_slice_eq; lia).
  assert (L2 : lenZ (slice (zn 12) (zn 4) dd) = 4) by (apply lenZ_slice_eq; lia).
  rewrite L1, L2. unfold restore_dst. fold n.
  replace (zn (12 + 4 * cc)) with (12 + n)%nat by (unfold zn in *; lia).
  change (zn 12) with 12%nat. change (zn 4) with 4%nat. change (zn (12 + 4)) with 16%nat.
  f_equal. f_equal. rewrite HL.
  destruct (b_cap (w_b w) <? 12 + 4 * cc) eqn:A1; destruct (b_cap (w_b w) <? 12 + 4 * cc + 4) eqn:A2;
  try reflexivity; rewrite ?Z.ltb_lt, ?Z.ltb_ge in *; lia.
Qed.
End RUN.

(* restore after adjust: the destination block is what it was; nothing else changes except
   that the oob flag is raised when *out_len does not cover the extension header *)
Theorem cryptex_adjust_restore pkt w :
  hdr_len pkt + 4 <= lenZ (b_dst (w_b w)) ->
  (cryptex_adjust pkt ;;; cryptex_restore pkt) w =
  (set_dst w (b_dst (w_b w)) (negb (hdr_cc pkt =? 0) && (b_cap (w_b w) <? hdr_len pkt + 4)), inl tt).
Proof.
  intros HL. destruct (hdr_cc pkt =? 0) eqn:E0.
  - unfold cryptex_adjust, cryptex_restore. rewrite E0. cbn. rewrite set_dst_id. reflexivity.
  - apply Z.eqb_neq in E0. unfold bind. rewrite (cryptex_adjust_run pkt w E0 HL).
    pose proof (hdr_cc_range pkt) as CC.
    assert (LN : (12 + zn (4 * hdr_cc pkt) + 4 <= length (b_dst (w_b w)))%nat).
    { unfold hdr_len, lenZ, zn in *. change octets_in_rtp_header_c with 12 in HL. lia. }
    rewrite cryptex_restore_run; [|exact E0|cbn [set_dst w_b b_dst]; unfold lenZ, adjust_dst; rewrite !splice_length; exact HL].
    cbn [set_dst w_b b_dst b_cap]. rewrite set_dst_set_dst, restore_adjust_dst by exact LN.
    cbn [negb andb]. rewrite orb_diag. reflexivity.
Qed.

Corollary cryptex_adjust_restore_id pkt w :
  hdr_len pkt + 4 <= lenZ (b_dst (w_b w)) -> hdr_len pkt + 4 <= b_cap (w_b w) ->
  (cryptex_adjust pkt ;;; cryptex_restore pkt) w = (w, inl tt).
Proof.
  intros HL HC. rewrite cryptex_adjust_restore by exact HL.
  replace (b_cap (w_b w) <? hdr_len pkt + 4) with false by (symmetry; apply Z.ltb_ge; exact HC).
  rewrite andb_false_r, set_dst_id. reflexivity.
Qed.

(* the statement needs the reads to be inside the block: a destination shorter than
   hdr_len + 4 gets its oob flag raised by adjust *)
Theorem cryptex_adjust_short_refuted :
  exists (pkt : bytes) (w : world),
    b_oob (w_b w) = false /\ b_oob (w_b (fst (cryptex_adjust pkt w))) = true.
Proof.
  exists [129%N; 0%N; 0%N; 0%N; 0%N; 0%N; 0%N; 0%N; 0%N; 0%N; 0%N; 0%N].
  exists {| w_s := {| ss_template := None; ss_list := []; ss_cap := 0 |};
            w_b := {| b_src := []; b_dst := repeat 0%N 18; b_alias := true; b_len := 18; b_cap := 18; b_oob := false |};
            w_ev := []; w_iv := []; w_h := {| h_live := 0; h_att := 0; h_fail := 0; h_frees := 0; h_dirty := 0 |} |}.
  split; reflexivity.
Qed.

Print Assumptions adjust_dst_layout.
Print Assumptions restore_adjust_dst.
Print Assumptions adjust_restore_dst.
Print Assumptions cryptex_adjust_run.
Print Assumptions cryptex_restore_run.
Print Assumptions cryptex_adjust_restore.
Print Assumptions cryptex_adjust_restore_id.
