(* KernelSearch.v — an executable SEARCH for a failing input between the Gallina functions GENERATED from the C text
   (KernelGen.v, tools/gen_kernels.py) and the hand-written models (KeyLimit.v, Rdb.v, Rdbx.v, BitvecModel.v).

   It is a test harness, not a proof: it does NOT import KernelGenProofs*.v and compiles whether or not they do.
   For every generated function F (17 of them):

     hyp_F  : input -> bool     the hypotheses of the theorem F_gen_eq (KernelGenProofs.v / KernelGenProofs2.v), as guards
     gen_F  : input -> res      the generated function run on the input, rendered
     mod_F  : input -> res      what the conclusion of F_gen_eq says the result is, computed from the model, rendered
     chk_F  : input -> bool     negb (hyp_F x) || res_eqb (gen_F x) (mod_F x)
     grid_F : list input        a finite boundary-rich grid
     failing_F                  filter (fun x => negb (chk_F x)) grid_F

   Rendering.  res = option (scalars, words, extra), all `list Z`:
     None      the generated loops ran out of fuel (fuel is the SMALLEST the theorem allows: 4 for v128, n for a vector of
               n words; the theorems promise Some _ there, and a larger fuel cannot change a Some result)
     scalars   return value and scalar outputs, in the order of the generated result tuple
     words     the array output, words 0 .. n-1 (read as Z, so a negative / oversized word is seen)
     extra     [inrange flag (1 = every output word in [0, 2^32)); absN of the output as one number (only where the
                theorem states `mask = absN w' n`); frame samples a'(-1), a'(n), a'(n+1)]  — for the model side the flag
               is 1, the number is the model's mask and the samples are those of the INPUT array (frame a a' n).
   An input array is a `list Z` l of n words, turned into the function  arr l : j |-> nth j l  for 0 <= j < n and the
   sentinel 0xAAAAAAAA outside (the theorems hold for every function Z -> Z, so any value outside the n words is a
   legitimate input; a non-zero one makes out-of-bounds reads and out-of-bounds zero writes visible in the frame samples).

   The final block prints one line per function:
       ("name", grid size, grid points inside the hypotheses, number of failing inputs, [(input, generated, model); ...first 3])
   On the unmodified sources every failing list is []. *)
From Coq Require Import String.
From Coq Require Import ZArith NArith List Bool.
From Srtp Require Import Util Constants KeyLimit Rdb Rdbx BitvecModel KernelGen.
Import ListNotations.
Local Open Scope Z_scope.

(* ------------------------------------------------------------------ *)
(* ranges of the C types                                                *)
Definition two16 : Z := 65536.
Definition two31 : Z := 2147483648.
Definition two32 : Z := 4294967296.
Definition two63 : Z := 9223372036854775808.
Definition two64 : Z := 18446744073709551616.
Definition in16 (x : Z) : bool := (0 <=? x) && (x <? two16).
Definition in32 (x : Z) : bool := (0 <=? x) && (x <? two32).
Definition in64 (x : Z) : bool := (0 <=? x) && (x <? two64).
Definition ins64 (x : Z) : bool := (- two63 <=? x) && (x <? two63).

(* ------------------------------------------------------------------ *)
(* arrays                                                               *)
Definition SENT : Z := 2863311530.   (* 0xAAAAAAAA *)
Definition lenZ' (l : list Z) : Z := Z.of_nat (List.length l).
Definition arr (l : list Z) : Z -> Z :=
  fun j => if (0 <=? j) && (j <? lenZ' l) then nth (Z.to_nat j) l 0 else SENT.
(* inrange a n, for the list of the n words *)
Definition inr32 (l : list Z) : bool := forallb in32 l.
(* words 0 .. n-1 of an array held in a function *)
Definition rd (a : Z -> Z) (n : nat) : list Z := map (fun i => a (Z.of_nat i)) (seq 0 n).
(* samples of the frame: outside the n words nothing changes *)
Definition frm (a : Z -> Z) (n : nat) : list Z := [a (-1); a (Z.of_nat n); a (Z.of_nat n + 1)].
(* absN: the vector as one number *)
Definition packZ (l : list Z) : N := pack (map Z.to_N l).
Fixpoint unpack (n : nat) (x : N) : list Z :=
  match n with O => [] | S k => Z.of_N (N.land x 4294967295) :: unpack k (N.shiftr x 32) end.
Definition b2z (b : bool) : Z := if b then 1 else 0.

(* ------------------------------------------------------------------ *)
(* rendered results                                                     *)
Definition res : Type := option (list Z * list Z * list Z).
Fixpoint zl_eqb (a b : list Z) : bool :=
  match a, b with
  | [], [] => true
  | x :: a', y :: b' => (x =? y) && zl_eqb a' b'
  | _, _ => false
  end.
Definition res_eqb (a b : res) : bool :=
  match a, b with
  | None, None => true
  | Some (s1, w1, e1), Some (s2, w2, e2) => zl_eqb s1 s2 && zl_eqb w1 w2 && zl_eqb e1 e2
  | _, _ => false
  end.
(* `if`, not `||`: under vm_compute (call by value) the comparison is not run outside the hypotheses *)
Definition check {A} (hyp : A -> bool) (g m : A -> res) (x : A) : bool := if hyp x then res_eqb (g x) (m x) else true.
Definition report {A} (name : string) (hyp : A -> bool) (g m : A -> res) (grid failing : list A) :=
  (name, Z.of_nat (List.length grid), Z.of_nat (List.length (filter hyp grid)), Z.of_nat (List.length failing),
   map (fun x => (x, g x, m x)) (firstn 3 failing)).

(* ------------------------------------------------------------------ *)
(* grid material                                                        *)
Definition cross {A B} (la : list A) (lb : list B) : list (A * B) := flat_map (fun a => map (fun b => (a, b)) lb) la.

(* 64-bit scalars *)
Definition g64 : list Z :=
  [0; 1; 2; 127; 128; 129; 32767; 32768; 32769; 65535; 65536; 65537; 65538; 98303; 98304; 98305; 131071; 131072;
   2147483647; 2147483648; 2147483649; 4294967295; 4294967296; 4294967297; 4294967298;
   4295000063; 4295000064; 4295032831; 4295032832; 4295032833;            (* 2^32 + 32767/32768, 2^32 + 65535/65536/65537 *)
   12884901888; 12884901889; 12884967423;                                   (* 3 * 2^32 + 0 / 1 / 65535 *)
   140737488355328; 281474976710655; 281474976710656; 281474976710657;    (* 2^47, 2^48 - 1, 2^48, 2^48 + 1 *)
   281474976677887; 281474976677888;                                        (* roc = 2^32 - 1, seq = 32767 / 32768 *)
   9223372036854775807; 9223372036854775808; 9223372036854775809;
   18446744073709518847; 18446744073709518848;                              (* 2^64 - 32769, 2^64 - 32768 *)
   18446744073709551614; 18446744073709551615].
Definition g32 : list Z :=
  [0; 1; 2; 127; 128; 32767; 32768; 65535; 65536; 65537; 2147483646; 2147483647; 2147483648; 2147483649;
   4294967167; 4294967168; 4294967294; 4294967295].
Definition g16 : list Z := [0; 1; 2; 127; 128; 32766; 32767; 32768; 32769; 65534; 65535].
(* values for outputs that are only passed through / overwritten (no hypothesis in the theorems) *)
Definition gany : list Z := [0; 81985529216486895].

(* word patterns of n words *)
Definition zerosW (n : nat) : list Z := repeat 0 n.
Definition onesW (n : nat) : list Z := repeat 4294967295 n.
Definition bitW (n : nat) (b : Z) : list Z :=
  map (fun k => if Z.of_nat k =? b / 32 then 2 ^ (b mod 32) else 0) (seq 0 n).
Definition prw (seed : Z) (k : nat) : Z :=
  ((seed + Z.of_nat k) * 2654435761 + 2654435769 * (Z.of_nat k * Z.of_nat k + seed * seed + 1)) mod 4294967296.
Definition rndW (seed : Z) (n : nat) : list Z := map (prw seed) (seq 0 n).
Definition pats (n : nat) : list (list Z) :=
  let len := 32 * Z.of_nat n in
  [zerosW n; onesW n] ++
  map (bitW n) (filter (fun b => (0 <=? b) && (b <? len)) [0; 31; 32; 63; 64; 127; len - 32; len - 2; len - 1]) ++
  [repeat 2147483649 n; repeat 1431655765 n; rndW 1 n; rndW 7 n; rndW 1000003 n].
Definition pats_of (ns : list nat) : list (list Z) := flat_map pats ns.
(* a shorter set, for grids whose weight is on the scalars *)
Definition pats_small (n : nat) : list (list Z) := [zerosW n; onesW n; rndW 7 n].

(* shift counts for a vector of len bits *)
Definition shifts (len : Z) : list Z :=
  filter in64
    [0; 1; 2; 30; 31; 32; 33; 63; 64; 65; 95; 96; 97; 126; 127; 128; 129; 159; 160; 161;
     len - 65; len - 64; len - 63; len - 33; len - 32; len - 31; len - 2; len - 1; len; len + 1; len + 31; len + 32; len + 33;
     2 * len - 1; 2 * len; 65535; 65536; 2147483648; 4294967295; 4294967296; 4294967297; 4294967296 + len - 1;
     9223372036854775808; 18446744073709551615].

(* ------------------------------------------------------------------ *)
(* the generated functions in a FIXED argument order                     *)
(* gen_kernels.py orders the objects a function reaches through its pointer parameters (and the components of its result
   tuple) by FIRST USE in the C text, so an edit that merely reads `x->length` before `x->word` permutes the signature of
   the regenerated function.  The wrappers std_F below have the signature of the unmodified sources whatever that order
   is: the binder NAMES of F_gen (the access paths: x_word, rdbx_index, ...) are read off its type with `fresh`, the
   arguments are picked by these names, and the outputs are destructed under the names o_<binder> and re-tupled.
   A wrong guess is impossible: a name that is not found makes this file fail to compile (an object was added to or
   removed from the function; the search has to be adapted then).  Value parameters keep the order of the C prototype. *)
Ltac names2 G k :=
  let T := type of G in
  lazymatch T with forall a : _, forall b : _, _ => let na := fresh a in let nb := fresh b in k na nb end.
Ltac names3 G k :=
  let T := type of G in
  lazymatch T with forall a : _, forall b : _, forall c : _, _ =>
    let na := fresh a in let nb := fresh b in let nc := fresh c in k na nb nc end.

Definition std_srtp_key_limit_update : forall (key_num_left key_state : Z), Z * (Z * Z).
Proof.
  names2 srtp_key_limit_update_gen ltac:(fun a b =>
    intros key_num_left key_state;
    let oa := fresh "o_" a in let ob := fresh "o_" b in
    pose proof (srtp_key_limit_update_gen a b) as r; destruct r as [rv [oa ob]];
    exact (rv, (o_key_num_left, o_key_state))).
Defined.
Definition std_srtp_key_limit_set : forall (s key_num_left key_state : Z), Z * (Z * Z).
Proof.
  intros v1.
  names2 (srtp_key_limit_set_gen v1) ltac:(fun a b =>
    intros key_num_left key_state;
    let oa := fresh "o_" a in let ob := fresh "o_" b in
    pose proof (srtp_key_limit_set_gen v1 a b) as r; destruct r as [rv [oa ob]];
    exact (rv, (o_key_num_left, o_key_state))).
Defined.
Definition std_srtp_index_guess : forall (s local_v guess_v : Z), Z * (Z * Z).
Proof.
  intros v1.
  names2 (srtp_index_guess_gen v1) ltac:(fun a b =>
    intros local_v guess_v;
    let oa := fresh "o_" a in let ob := fresh "o_" b in
    pose proof (srtp_index_guess_gen v1 a b) as r; destruct r as [rv [oa ob]];
    exact (rv, (o_local_v, o_guess_v))).
Defined.
Definition std_srtp_estimate_index : forall (roc sq est_v delta_v rdbx_index : Z), Z * (Z * Z * Z).
Proof.
  intros v1 v2.
  names3 (srtp_estimate_index_gen v1 v2) ltac:(fun a b c =>
    intros est_v delta_v rdbx_index;
    let oa := fresh "o_" a in let ob := fresh "o_" b in let oc := fresh "o_" c in
    pose proof (srtp_estimate_index_gen v1 v2 a b c) as r; destruct r as [rv [[oa ob] oc]];
    exact (rv, (o_est_v, o_delta_v, o_rdbx_index))).
Defined.
Definition std_srtp_rdbx_estimate_index : forall (s rdbx_index guess_v : Z), Z * (Z * Z).
Proof.
  intros v1.
  names2 (srtp_rdbx_estimate_index_gen v1) ltac:(fun a b =>
    intros rdbx_index guess_v;
    let oa := fresh "o_" a in let ob := fresh "o_" b in
    pose proof (srtp_rdbx_estimate_index_gen v1 a b) as r; destruct r as [rv [oa ob]];
    exact (rv, (o_rdbx_index, o_guess_v))).
Defined.
Definition std_srtp_rdbx_check : forall (delta rdbx_bitmask_length : Z) (rdbx_bitmask_word : Z -> Z), Z * (Z * (Z -> Z)).
Proof.
  intros v1.
  names2 (srtp_rdbx_check_gen v1) ltac:(fun a b =>
    intros rdbx_bitmask_length rdbx_bitmask_word;
    let oa := fresh "o_" a in let ob := fresh "o_" b in
    pose proof (srtp_rdbx_check_gen v1 a b) as r; destruct r as [rv [oa ob]];
    exact (rv, (o_rdbx_bitmask_length, o_rdbx_bitmask_word))).
Defined.
Definition std_srtp_rdb_check : forall (p_index rdb_window_start : Z) (rdb_bitmask_v32 : Z -> Z), Z * (Z * (Z -> Z)).
Proof.
  intros v1.
  names2 (srtp_rdb_check_gen v1) ltac:(fun a b =>
    intros rdb_window_start rdb_bitmask_v32;
    let oa := fresh "o_" a in let ob := fresh "o_" b in
    pose proof (srtp_rdb_check_gen v1 a b) as r; destruct r as [rv [oa ob]];
    exact (rv, (o_rdb_window_start, o_rdb_bitmask_v32))).
Defined.
Definition std_bitvector_set_to_zero : forall (x_word : Z -> Z) (x_length : Z), (Z -> Z) * Z.
Proof.
  names2 bitvector_set_to_zero_gen ltac:(fun a b =>
    intros x_word x_length;
    let oa := fresh "o_" a in let ob := fresh "o_" b in
    pose proof (bitvector_set_to_zero_gen a b) as r; destruct r as [oa ob];
    exact (o_x_word, o_x_length)).
Defined.
Definition std_bitvector_left_shift : forall (fuel : nat) (shift x_length : Z) (x_word : Z -> Z), option (Z * (Z -> Z)).
Proof.
  intros v0 v1.
  names2 (bitvector_left_shift_gen v0 v1) ltac:(fun a b =>
    intros x_length x_word;
    let oa := fresh "o_" a in let ob := fresh "o_" b in
    pose proof (bitvector_left_shift_gen v0 v1 a b) as r; destruct r as [[oa ob]|];
    [exact (Some (o_x_length, o_x_word))|exact None]).
Defined.
Definition std_srtp_rdb_add_index : forall (fuel : nat) (p_index rdb_window_start : Z) (rdb_bitmask_v32 : Z -> Z),
  option (Z * (Z * (Z -> Z))).
Proof.
  intros v0 v1.
  names2 (srtp_rdb_add_index_gen v0 v1) ltac:(fun a b =>
    intros rdb_window_start rdb_bitmask_v32;
    let oa := fresh "o_" a in let ob := fresh "o_" b in
    pose proof (srtp_rdb_add_index_gen v0 v1 a b) as r; destruct r as [[rv [oa ob]]|];
    [exact (Some (rv, (o_rdb_window_start, o_rdb_bitmask_v32)))|exact None]).
Defined.
Definition std_srtp_rdbx_add_index : forall (fuel : nat) (delta rdbx_index rdbx_bitmask_length : Z) (rdbx_bitmask_word : Z -> Z),
  option (Z * (Z * Z * (Z -> Z))).
Proof.
  intros v0 v1.
  names3 (srtp_rdbx_add_index_gen v0 v1) ltac:(fun a b c =>
    intros rdbx_index rdbx_bitmask_length rdbx_bitmask_word;
    let oa := fresh "o_" a in let ob := fresh "o_" b in let oc := fresh "o_" c in
    pose proof (srtp_rdbx_add_index_gen v0 v1 a b c) as r; destruct r as [[rv [[oa ob] oc]]|];
    [exact (Some (rv, (o_rdbx_index, o_rdbx_bitmask_length, o_rdbx_bitmask_word)))|exact None]).
Defined.
Definition std_srtp_rdbx_set_roc_seq : forall (roc sq rdbx_index : Z) (rdbx_bitmask_word : Z -> Z) (rdbx_bitmask_length : Z),
  Z * (Z * (Z -> Z) * Z).
Proof.
  intros v1 v2.
  names3 (srtp_rdbx_set_roc_seq_gen v1 v2) ltac:(fun a b c =>
    intros rdbx_index rdbx_bitmask_word rdbx_bitmask_length;
    let oa := fresh "o_" a in let ob := fresh "o_" b in let oc := fresh "o_" c in
    pose proof (srtp_rdbx_set_roc_seq_gen v1 v2 a b c) as r; destruct r as [rv [[oa ob] oc]];
    exact (rv, (o_rdbx_index, o_rdbx_bitmask_word, o_rdbx_bitmask_length))).
Defined.

(* ------------------------------------------------------------------ *)
(* 1. key.c: srtp_key_limit_update            (key_limit_update_gen_eq) *)
Definition kst_of (c : Z) : kstate := if c =? 0 then KNormal else if c =? 1 then KPastSoft else KExpired.
Definition hyp_srtp_key_limit_update (x : Z * Z) : bool :=
  let '(n, c) := x in in64 n && (0 <=? c) && (c <=? 2).
Definition gen_srtp_key_limit_update (x : Z * Z) : res :=
  let '(n, c) := x in
  let '(ev, (n', c')) := std_srtp_key_limit_update n c in Some ([ev; n'; c'], [], []).
Definition mod_srtp_key_limit_update (x : Z * Z) : res :=
  let '(n, c) := x in
  let k := {| num_left := n; kst := kst_of c |} in
  Some ([kevent_code (snd (kl_update k)); num_left (fst (kl_update k)); kstate_code (kst (fst (kl_update k)))], [], []).
Definition chk_srtp_key_limit_update := check hyp_srtp_key_limit_update gen_srtp_key_limit_update mod_srtp_key_limit_update.
Definition grid_srtp_key_limit_update : list (Z * Z) := cross g64 [0; 1; 2].
Definition failing_srtp_key_limit_update := filter (fun x => negb (chk_srtp_key_limit_update x)) grid_srtp_key_limit_update.

(* 2. key.c: srtp_key_limit_set                  (key_limit_set_gen_eq) *)
Definition hyp_srtp_key_limit_set (x : Z * Z * Z) : bool := let '(s, n0, s0) := x in in64 s.
Definition gen_srtp_key_limit_set (x : Z * Z * Z) : res :=
  let '(s, n0, s0) := x in
  let '(st, (n', c')) := std_srtp_key_limit_set s n0 s0 in Some ([st; n'; c'], [], []).
Definition mod_srtp_key_limit_set (x : Z * Z * Z) : res :=
  let '(s, n0, s0) := x in
  match kl_set s with
  | Some k => Some ([st_ok; num_left k; kstate_code (kst k)], [], [])
  | None => Some ([st_bad_param; n0; s0], [], [])
  end.
Definition chk_srtp_key_limit_set := check hyp_srtp_key_limit_set gen_srtp_key_limit_set mod_srtp_key_limit_set.
Definition grid_srtp_key_limit_set : list (Z * Z * Z) :=
  flat_map (fun s => [(s, 12345, 1); (s, 0, 2); (s, 18446744073709551615, 0)]) g64.
Definition failing_srtp_key_limit_set := filter (fun x => negb (chk_srtp_key_limit_set x)) grid_srtp_key_limit_set.

(* 3. rdbx.c: srtp_index_guess                      (index_guess_gen_eq) *)
Definition hyp_srtp_index_guess (x : Z * Z * Z) : bool := let '(s, local, g0) := x in in64 local && in16 s.
Definition gen_srtp_index_guess (x : Z * Z * Z) : res :=
  let '(s, local, g0) := x in
  let '(d, (l', g)) := std_srtp_index_guess s local g0 in Some ([d; l'; g], [], []).
Definition mod_srtp_index_guess (x : Z * Z * Z) : res :=
  let '(s, local, g0) := x in
  Some ([snd (index_guess local s); local; fst (index_guess local s)], [], []).
Definition chk_srtp_index_guess := check hyp_srtp_index_guess gen_srtp_index_guess mod_srtp_index_guess.
Definition grid_srtp_index_guess : list (Z * Z * Z) :=
  flat_map (fun g0 => flat_map (fun local => map (fun s => (s, local, g0)) g16) g64) gany.
Definition failing_srtp_index_guess := filter (fun x => negb (chk_srtp_index_guess x)) grid_srtp_index_guess.

(* 4. rdb.c: srtp_rdb_increment                   (rdb_increment_gen_eq) *)
Definition hyp_srtp_rdb_increment (ws : Z) : bool := in32 ws.
Definition gen_srtp_rdb_increment (ws : Z) : res :=
  let '(st, ws') := srtp_rdb_increment_gen ws in Some ([st; ws'], [], []).
Definition mod_srtp_rdb_increment (ws : Z) : res :=
  let r := {| wstart := ws; bitmask := 0%N |} in Some ([fst (rdb_incr r); wstart (snd (rdb_incr r))], [], []).
Definition chk_srtp_rdb_increment := check hyp_srtp_rdb_increment gen_srtp_rdb_increment mod_srtp_rdb_increment.
Definition grid_srtp_rdb_increment : list Z := g32.
Definition failing_srtp_rdb_increment := filter (fun x => negb (chk_srtp_rdb_increment x)) grid_srtp_rdb_increment.

(* 5. srtp.c: srtp_estimate_index               (estimate_index_gen_eq) *)
Definition hyp_srtp_estimate_index (x : Z * Z * Z * Z * Z) : bool :=
  let '(roc, s, e0, d0, idx) := x in in64 idx && in32 roc && in16 s.
Definition gen_srtp_estimate_index (x : Z * Z * Z * Z * Z) : res :=
  let '(roc, s, e0, d0, idx) := x in
  let '(st, (est, delta, idx')) := std_srtp_estimate_index roc s e0 d0 idx in Some ([st; est; delta; idx'], [], []).
Definition mod_srtp_estimate_index (x : Z * Z * Z * Z * Z) : res :=
  let '(roc, s, e0, d0, idx) := x in
  let r := {| index := idx; wlen := 128; mask := 0%N |} in
  let '(st, est, delta) := estimate_pending r roc s in Some ([st; est; delta; idx], [], []).
Definition chk_srtp_estimate_index := check hyp_srtp_estimate_index gen_srtp_estimate_index mod_srtp_estimate_index.
(* the packet index is taken around the estimate roc * 2^16 + s (distances 0, 1, 2^15 -1/+0/+1, 2^16, 2^31, 2^32 either way)
   and from a short absolute list *)
Definition grid_srtp_estimate_index : list (Z * Z * Z * Z * Z) :=
  flat_map (fun roc => flat_map (fun s =>
    let est := roc * 65536 + s in
    map (fun idx => (roc, s, 77, -5, idx))
        (filter in64 (map (fun o => est + o)
                          [0; 1; -1; 32767; 32768; 32769; -32767; -32768; -32769; 65536; -65536; 2147483648; -2147483648;
                           4294967296; -4294967296])
         ++ [0; 32768; 4294967296; 281474976710655; 281474976710656; 9223372036854775808; 18446744073709551615]))
    [0; 1; 32767; 32768; 65534; 65535]) [0; 1; 2; 65535; 65536; 65537; 2147483648; 4294967294; 4294967295].
Definition failing_srtp_estimate_index := filter (fun x => negb (chk_srtp_estimate_index x)) grid_srtp_estimate_index.

(* 6. rdbx.c: srtp_index_advance             (srtp_index_advance_gen_eq) *)
Definition hyp_srtp_index_advance (x : Z * Z) : bool := let '(s, pi) := x in in64 pi && in16 s.
Definition gen_srtp_index_advance (x : Z * Z) : res := let '(s, pi) := x in Some ([srtp_index_advance_gen s pi], [], []).
Definition mod_srtp_index_advance (x : Z * Z) : res := let '(s, pi) := x in Some ([Util.u64 (pi + s)], [], []).
Definition chk_srtp_index_advance := check hyp_srtp_index_advance gen_srtp_index_advance mod_srtp_index_advance.
Definition grid_srtp_index_advance : list (Z * Z) := cross g16 g64.
Definition failing_srtp_index_advance := filter (fun x => negb (chk_srtp_index_advance x)) grid_srtp_index_advance.

(* 7. rdbx.c: srtp_rdbx_estimate_index (srtp_rdbx_estimate_index_gen_eq) *)
Definition hyp_srtp_rdbx_estimate_index (x : Z * Z * Z) : bool := let '(s, idx, g0) := x in in64 idx && in16 s.
Definition gen_srtp_rdbx_estimate_index (x : Z * Z * Z) : res :=
  let '(s, idx, g0) := x in
  let '(d, (idx', g)) := std_srtp_rdbx_estimate_index s idx g0 in Some ([d; idx'; g], [], []).
Definition mod_srtp_rdbx_estimate_index (x : Z * Z * Z) : res :=
  let '(s, idx, g0) := x in
  let r := {| index := idx; wlen := 128; mask := 0%N |} in
  Some ([snd (estimate r s); idx; fst (estimate r s)], [], []).
Definition chk_srtp_rdbx_estimate_index :=
  check hyp_srtp_rdbx_estimate_index gen_srtp_rdbx_estimate_index mod_srtp_rdbx_estimate_index.
Definition grid_srtp_rdbx_estimate_index : list (Z * Z * Z) :=
  flat_map (fun g0 => flat_map (fun idx => map (fun s => (s, idx, g0)) g16) g64) gany.
Definition failing_srtp_rdbx_estimate_index :=
  filter (fun x => negb (chk_srtp_rdbx_estimate_index x)) grid_srtp_rdbx_estimate_index.

(* 8. rdbx.c: srtp_rdbx_check                   (srtp_rdbx_check_gen_eq) *)
(* the hypotheses on the scalars, as in the theorem; `ovf`:  delta <= 0 -> -2^63 <= (int)(len - 1) + delta  (hypothesis HOV:
   no signed overflow in the C expression).  srtp_rdbx_check_gen_overflow_refuted (len = 2147483680, delta = -2^63) violates it. *)
Definition hyp_rdbx_check_scalars (delta len : Z) : bool :=
  (len <? two64) && ins64 delta && (negb (delta <=? 0) || (- two63 <=? Util.s32 (len - 1) + delta)).
Definition hyp_srtp_rdbx_check (x : Z * list Z) : bool :=
  let '(delta, l) := x in hyp_rdbx_check_scalars delta (32 * lenZ' l) && inr32 l.
Definition gen_srtp_rdbx_check (x : Z * list Z) : res :=
  let '(delta, l) := x in
  let n := List.length l in
  let '(st, (len', w')) := std_srtp_rdbx_check delta (32 * Z.of_nat n) (arr l) in
  Some ([st; len'], rd w' n, frm w' n).
Definition mod_srtp_rdbx_check (x : Z * list Z) : res :=
  let '(delta, l) := x in
  let n := List.length l in
  let r := {| index := 0; wlen := 32 * Z.of_nat n; mask := packZ l |} in
  Some ([rdbx_check r delta; wlen r], l, frm (arr l) n).
Definition chk_srtp_rdbx_check := check hyp_srtp_rdbx_check gen_srtp_rdbx_check mod_srtp_rdbx_check.
Definition deltas_check (len : Z) : list Z :=
  [2; 1; 0; -1; -2; -30; -31; -32; -33; -62; -63; -64; -65; -95; -96; -97; -126; -127; -128; -129;
   - (len - 33); - (len - 32); - (len - 31); - (len - 3); - (len - 2); - (len - 1); - len; - (len + 1); - (len + 31);
   -65535; -65536; -2147483647; -2147483648; -2147483649; -4294967295; -4294967296; -4294967297 + len;
   - two63 + len; - two63 + len - 1; - two63 + 1; - two63; two63 - 1].
Definition grid_srtp_rdbx_check : list (Z * list Z) :=
  flat_map (fun l => map (fun d => (d, l)) (deltas_check (32 * lenZ' l))) (pats_of [0; 1; 2; 3; 4]%nat)
  ++ flat_map (fun l => map (fun d => (d, l)) (deltas_check (32 * lenZ' l))) (pats_small 32 ++ [bitW 32 0; bitW 32 1023; bitW 32 992]).
Definition failing_srtp_rdbx_check := filter (fun x => negb (chk_srtp_rdbx_check x)) grid_srtp_rdbx_check.

(* 9. rdbx.c: srtp_rdbx_get_roc               (srtp_rdbx_get_roc_gen_eq) *)
Definition hyp_srtp_rdbx_get_roc (idx : Z) : bool := in64 idx.
Definition gen_srtp_rdbx_get_roc (idx : Z) : res :=
  let '(roc, idx') := srtp_rdbx_get_roc_gen idx in Some ([roc; idx'], [], []).
Definition mod_srtp_rdbx_get_roc (idx : Z) : res :=
  let r := {| index := idx; wlen := 128; mask := 0%N |} in Some ([rdbx_roc r; idx], [], []).
Definition chk_srtp_rdbx_get_roc := check hyp_srtp_rdbx_get_roc gen_srtp_rdbx_get_roc mod_srtp_rdbx_get_roc.
Definition grid_srtp_rdbx_get_roc : list Z := g64.
Definition failing_srtp_rdbx_get_roc := filter (fun x => negb (chk_srtp_rdbx_get_roc x)) grid_srtp_rdbx_get_roc.

(* 10. rdbx.c: srtp_rdbx_get_packet_index (srtp_rdbx_get_packet_index_gen_eq; no hypothesis) *)
Definition hyp_srtp_rdbx_get_packet_index (idx : Z) : bool := true.
Definition gen_srtp_rdbx_get_packet_index (idx : Z) : res :=
  let '(v, idx') := srtp_rdbx_get_packet_index_gen idx in Some ([v; idx'], [], []).
Definition mod_srtp_rdbx_get_packet_index (idx : Z) : res := Some ([idx; idx], [], []).
Definition chk_srtp_rdbx_get_packet_index :=
  check hyp_srtp_rdbx_get_packet_index gen_srtp_rdbx_get_packet_index mod_srtp_rdbx_get_packet_index.
Definition grid_srtp_rdbx_get_packet_index : list Z := g64.
Definition failing_srtp_rdbx_get_packet_index :=
  filter (fun x => negb (chk_srtp_rdbx_get_packet_index x)) grid_srtp_rdbx_get_packet_index.

(* 11. rdb.c: srtp_rdb_check                     (srtp_rdb_check_gen_eq) *)
Definition hyp_rdb (x : Z * Z * list Z) : bool :=
  let '(i, ws, l) := x in in32 ws && in32 i && (lenZ' l =? 4) && inr32 l.
Definition hyp_srtp_rdb_check := hyp_rdb.
Definition gen_srtp_rdb_check (x : Z * Z * list Z) : res :=
  let '(i, ws, l) := x in
  let '(st, (ws', v')) := std_srtp_rdb_check i ws (arr l) in Some ([st; ws'], rd v' 4, frm v' 4).
Definition mod_srtp_rdb_check (x : Z * Z * list Z) : res :=
  let '(i, ws, l) := x in
  let r := {| wstart := ws; bitmask := packZ l |} in Some ([rdb_check r i; ws], l, frm (arr l) 4).
Definition chk_srtp_rdb_check := check hyp_srtp_rdb_check gen_srtp_rdb_check mod_srtp_rdb_check.
Definition rdb_starts : list Z := [0; 1; 200; 2147483647; 2147483648; 4294967040; 4294967168; 4294967295].
Definition rdb_offsets : list Z :=
  [-2147483648; -129; -128; -2; -1; 0; 1; 2; 30; 31; 32; 33; 63; 64; 65; 95; 96; 97; 125; 126; 127; 128; 129; 130; 159; 160; 161;
   191; 192; 253; 254; 255; 256; 257; 383; 384; 65536; 2147483647; 2147483648; 4294967167; 4294967295].
Definition grid_rdb : list (Z * Z * list Z) :=
  flat_map (fun l => flat_map (fun ws => map (fun o => (ws + o, ws, l)) (filter (fun o => in32 (ws + o)) rdb_offsets)) rdb_starts)
           (pats 4).
Definition grid_srtp_rdb_check := grid_rdb.
Definition failing_srtp_rdb_check := filter (fun x => negb (chk_srtp_rdb_check x)) grid_srtp_rdb_check.

(* 12. datatypes.c: v128_left_shift             (v128_left_shift_gen_eq) *)
Definition hyp_v128_left_shift (x : Z * list Z) : bool :=
  let '(shift, l) := x in in64 shift && (lenZ' l =? 4) && inr32 l.
Definition gen_v128_left_shift (x : Z * list Z) : res :=
  let '(shift, l) := x in
  match v128_left_shift_gen 4 shift (arr l) with
  | None => None
  | Some x' => Some ([], rd x' 4, b2z (inr32 (rd x' 4)) :: frm x' 4)
  end.
Definition mod_v128_left_shift (x : Z * list Z) : res :=
  let '(shift, l) := x in
  Some ([], map Z.of_N (BitvecModel.v128_left_shift (map Z.to_N l) (Z.to_N shift)), 1 :: frm (arr l) 4).
Definition chk_v128_left_shift := check hyp_v128_left_shift gen_v128_left_shift mod_v128_left_shift.
Definition grid_v128_left_shift : list (Z * list Z) := cross (shifts 128) (pats 4).
Definition failing_v128_left_shift := filter (fun x => negb (chk_v128_left_shift x)) grid_v128_left_shift.

(* 13. datatypes.c: bitvector_set_to_zero (bitvector_set_to_zero_gen_eq; no range hypothesis on the words) *)
Definition hyp_bitvector_set_to_zero (l : list Z) : bool := 32 * lenZ' l <? two64.
Definition gen_bitvector_set_to_zero (l : list Z) : res :=
  let n := List.length l in
  let '(w', len') := std_bitvector_set_to_zero (arr l) (32 * Z.of_nat n) in
  Some ([len'], rd w' n, b2z (inr32 (rd w' n)) :: frm w' n).
Definition mod_bitvector_set_to_zero (l : list Z) : res :=
  let n := List.length l in Some ([32 * Z.of_nat n], repeat 0 n, 1 :: frm (arr l) n).
Definition chk_bitvector_set_to_zero := check hyp_bitvector_set_to_zero gen_bitvector_set_to_zero mod_bitvector_set_to_zero.
Definition grid_bitvector_set_to_zero : list (list Z) :=
  pats_of [0; 1; 2; 3; 4; 5; 7; 8; 9; 32; 33]%nat
  ++ [[-1]; [4294967296; -5; 1099511627776]; [1; 2; 3; 4; 5; 6]].
Definition failing_bitvector_set_to_zero := filter (fun x => negb (chk_bitvector_set_to_zero x)) grid_bitvector_set_to_zero.

(* 14. datatypes.c: bitvector_left_shift   (bitvector_left_shift_gen_eq) *)
Definition hyp_bitvector_left_shift (x : Z * list Z) : bool :=
  let '(shift, l) := x in (32 * lenZ' l <? two64) && in64 shift && inr32 l.
Definition gen_bitvector_left_shift (x : Z * list Z) : res :=
  let '(shift, l) := x in
  let n := List.length l in
  match std_bitvector_left_shift n shift (32 * Z.of_nat n) (arr l) with
  | None => None
  | Some (len', x') => Some ([len'], rd x' n, b2z (inr32 (rd x' n)) :: frm x' n)
  end.
Definition mod_bitvector_left_shift (x : Z * list Z) : res :=
  let '(shift, l) := x in
  let n := List.length l in
  Some ([32 * Z.of_nat n], map Z.of_N (bv_left_shift (map Z.to_N l) (Z.to_N shift)), 1 :: frm (arr l) n).
Definition chk_bitvector_left_shift := check hyp_bitvector_left_shift gen_bitvector_left_shift mod_bitvector_left_shift.
Definition grid_bitvector_left_shift : list (Z * list Z) :=
  flat_map (fun l => map (fun s => (s, l)) (shifts (32 * lenZ' l))) (pats_of [1; 2; 3; 4]%nat)
  ++ flat_map (fun l => map (fun s => (s, l)) (shifts (32 * lenZ' l)))
              (pats_small 32 ++ [bitW 32 1023; bitW 32 992; bitW 32 991; repeat 2147483649 32%nat])
  ++ flat_map (fun l => map (fun s => (s, l)) (shifts (32 * lenZ' l))) (pats 0)   (* the empty vector (n = 0 is allowed) last *).
Definition failing_bitvector_left_shift := filter (fun x => negb (chk_bitvector_left_shift x)) grid_bitvector_left_shift.

(* 15. rdb.c: srtp_rdb_add_index             (srtp_rdb_add_index_gen_eq) *)
Definition hyp_srtp_rdb_add_index := hyp_rdb.
Definition gen_srtp_rdb_add_index (x : Z * Z * list Z) : res :=
  let '(i, ws, l) := x in
  match std_srtp_rdb_add_index 4 i ws (arr l) with
  | None => None
  | Some (st, (ws', v')) => Some ([st; ws'], rd v' 4, b2z (inr32 (rd v' 4)) :: Z.of_N (packZ (rd v' 4)) :: frm v' 4)
  end.
Definition mod_srtp_rdb_add_index (x : Z * Z * list Z) : res :=
  let '(i, ws, l) := x in
  let r := {| wstart := ws; bitmask := packZ l |} in
  let r' := snd (rdb_add r i) in
  Some ([fst (rdb_add r i); wstart r'], unpack 4 (bitmask r'), 1 :: Z.of_N (bitmask r') :: frm (arr l) 4).
Definition chk_srtp_rdb_add_index := check hyp_srtp_rdb_add_index gen_srtp_rdb_add_index mod_srtp_rdb_add_index.
Definition grid_srtp_rdb_add_index := grid_rdb.
Definition failing_srtp_rdb_add_index := filter (fun x => negb (chk_srtp_rdb_add_index x)) grid_srtp_rdb_add_index.

(* 16. rdbx.c: srtp_rdbx_add_index          (srtp_rdbx_add_index_gen_eq) *)
(* HDOM:  delta <= 0 -> 0 <= len - 1 + delta  (the C code sets the bit without a check);  0 < n *)
Definition hyp_srtp_rdbx_add_index (x : Z * Z * list Z) : bool :=
  let '(delta, idx, l) := x in
  let len := 32 * lenZ' l in
  (0 <? lenZ' l) && (len <? two64) && in64 idx && ins64 delta && (negb (delta <=? 0) || (0 <=? len - 1 + delta)) && inr32 l.
Definition gen_srtp_rdbx_add_index (x : Z * Z * list Z) : res :=
  let '(delta, idx, l) := x in
  let n := List.length l in
  match std_srtp_rdbx_add_index n delta idx (32 * Z.of_nat n) (arr l) with
  | None => None
  | Some (st, (idx', len', w')) =>
      Some ([st; idx'; len'], rd w' n, b2z (inr32 (rd w' n)) :: Z.of_N (packZ (rd w' n)) :: frm w' n)
  end.
Definition mod_srtp_rdbx_add_index (x : Z * Z * list Z) : res :=
  let '(delta, idx, l) := x in
  let n := List.length l in
  let r := {| index := idx; wlen := 32 * Z.of_nat n; mask := packZ l |} in
  let r' := rdbx_add r delta in
  Some ([st_ok; index r'; wlen r'], unpack n (mask r'), 1 :: Z.of_N (mask r') :: frm (arr l) n).
Definition chk_srtp_rdbx_add_index := check hyp_srtp_rdbx_add_index gen_srtp_rdbx_add_index mod_srtp_rdbx_add_index.
Definition deltas_add (len : Z) : list Z :=
  [0; -1; -2; -31; -32; -33; -63; -64; -65; -127; - (len - 33); - (len - 32); - (len - 31); - (len - 2); - (len - 1); - len;
   1; 2; 30; 31; 32; 33; 63; 64; 65; 95; 96; 97; 127; 128; 129;
   len - 33; len - 32; len - 31; len - 2; len - 1; len; len + 1; len + 32; 2 * len;
   32767; 32768; 65535; 65536; 65537; 98304; 2147483647; 2147483648; 4294967295; 4294967296; 4294967297; 4295032833;
   two63 - 1].
(* the words matter to the mask, the index only to the index: two sub-grids *)
Definition grid_srtp_rdbx_add_index : list (Z * Z * list Z) :=
  flat_map (fun l => map (fun d => (d, 4295032831, l)) (deltas_add (32 * lenZ' l)))
           (pats_of [1; 2; 3; 4]%nat ++ pats_small 32 ++ [bitW 32 1023; bitW 32 992; bitW 32 0])
  ++ flat_map (fun l => flat_map (fun idx => map (fun d => (d, idx, l)) (deltas_add (32 * lenZ' l)))
                                 [0; 65535; 65536; 281474976710655; 18446744073709486080; 18446744073709551615])
              [rndW 7 2; rndW 7 4].
Definition failing_srtp_rdbx_add_index := filter (fun x => negb (chk_srtp_rdbx_add_index x)) grid_srtp_rdbx_add_index.

(* 17. rdbx.c: srtp_rdbx_set_roc_seq      (srtp_rdbx_set_roc_seq_gen_eq) *)
Definition hyp_srtp_rdbx_set_roc_seq (x : Z * Z * Z * list Z) : bool :=
  let '(roc, s, idx, l) := x in in64 idx && in32 roc && in16 s && (32 * lenZ' l <? two64) && inr32 l.
Definition gen_srtp_rdbx_set_roc_seq (x : Z * Z * Z * list Z) : res :=
  let '(roc, s, idx, l) := x in
  let n := List.length l in
  let '(st, (idx', w', len')) := std_srtp_rdbx_set_roc_seq roc s idx (arr l) (32 * Z.of_nat n) in
  Some ([st; idx'; len'], rd w' n, b2z (inr32 (rd w' n)) :: Z.of_N (packZ (rd w' n)) :: frm w' n).
Definition mod_srtp_rdbx_set_roc_seq (x : Z * Z * Z * list Z) : res :=
  let '(roc, s, idx, l) := x in
  let n := List.length l in
  let r := {| index := idx; wlen := 32 * Z.of_nat n; mask := packZ l |} in
  let r' := snd (set_roc_seq r roc s) in
  Some ([fst (set_roc_seq r roc s); index r'; wlen r'], unpack n (mask r'), 1 :: Z.of_N (mask r') :: frm (arr l) n).
Definition chk_srtp_rdbx_set_roc_seq := check hyp_srtp_rdbx_set_roc_seq gen_srtp_rdbx_set_roc_seq mod_srtp_rdbx_set_roc_seq.
(* the index is taken around roc * 2^16 (the comparison is roc < index >> 16) and from the absolute list *)
Definition grid_srtp_rdbx_set_roc_seq : list (Z * Z * Z * list Z) :=
  flat_map (fun l => flat_map (fun roc => flat_map (fun s =>
      map (fun idx => (roc, s, idx, l))
          (filter in64 (map (fun o => roc * 65536 + o) [-65536; -1; 0; 1; 65535; 65536; 65537; 131072]) ++
           [0; 65535; 65536; 4294967296; 281474976710655; 281474976710656; 18446744073709551615]))
      [0; 1; 32768; 65535]) [0; 1; 2; 65535; 65536; 2147483648; 4294967294; 4294967295])
    [onesW 2; rndW 7 4]
  ++ flat_map (fun l => [(5, 7, 327679, l); (5, 7, 327680, l); (5, 7, 393215, l); (5, 7, 393216, l); (4294967295, 65535, 0, l)])
              (pats_of [0; 1; 2; 3; 4; 5; 8; 32]%nat).
Definition failing_srtp_rdbx_set_roc_seq := filter (fun x => negb (chk_srtp_rdbx_set_roc_seq x)) grid_srtp_rdbx_set_roc_seq.

(* ------------------------------------------------------------------ *)
(* the report: one line per function                                    *)
Set Printing Width 1000000.
Set Printing Depth 1000000.
Local Open Scope string_scope.
(* BEGIN KERNEL SEARCH REPORT *)
Eval vm_compute in report "srtp_key_limit_update" hyp_srtp_key_limit_update gen_srtp_key_limit_update mod_srtp_key_limit_update grid_srtp_key_limit_update failing_srtp_key_limit_update.
Eval vm_compute in report "srtp_key_limit_set" hyp_srtp_key_limit_set gen_srtp_key_limit_set mod_srtp_key_limit_set grid_srtp_key_limit_set failing_srtp_key_limit_set.
Eval vm_compute in report "srtp_index_guess" hyp_srtp_index_guess gen_srtp_index_guess mod_srtp_index_guess grid_srtp_index_guess failing_srtp_index_guess.
Eval vm_compute in report "srtp_rdb_increment" hyp_srtp_rdb_increment gen_srtp_rdb_increment mod_srtp_rdb_increment grid_srtp_rdb_increment failing_srtp_rdb_increment.
Eval vm_compute in report "srtp_estimate_index" hyp_srtp_estimate_index gen_srtp_estimate_index mod_srtp_estimate_index grid_srtp_estimate_index failing_srtp_estimate_index.
Eval vm_compute in report "srtp_index_advance" hyp_srtp_index_advance gen_srtp_index_advance mod_srtp_index_advance grid_srtp_index_advance failing_srtp_index_advance.
Eval vm_compute in report "srtp_rdbx_estimate_index" hyp_srtp_rdbx_estimate_index gen_srtp_rdbx_estimate_index mod_srtp_rdbx_estimate_index grid_srtp_rdbx_estimate_index failing_srtp_rdbx_estimate_index.
Eval vm_compute in report "srtp_rdbx_check" hyp_srtp_rdbx_check gen_srtp_rdbx_check mod_srtp_rdbx_check grid_srtp_rdbx_check failing_srtp_rdbx_check.
Eval vm_compute in report "srtp_rdbx_get_roc" hyp_srtp_rdbx_get_roc gen_srtp_rdbx_get_roc mod_srtp_rdbx_get_roc grid_srtp_rdbx_get_roc failing_srtp_rdbx_get_roc.
Eval vm_compute in report "srtp_rdbx_get_packet_index" hyp_srtp_rdbx_get_packet_index gen_srtp_rdbx_get_packet_index mod_srtp_rdbx_get_packet_index grid_srtp_rdbx_get_packet_index failing_srtp_rdbx_get_packet_index.
Eval vm_compute in report "srtp_rdb_check" hyp_srtp_rdb_check gen_srtp_rdb_check mod_srtp_rdb_check grid_srtp_rdb_check failing_srtp_rdb_check.
Eval vm_compute in report "v128_left_shift" hyp_v128_left_shift gen_v128_left_shift mod_v128_left_shift grid_v128_left_shift failing_v128_left_shift.
Eval vm_compute in report "bitvector_set_to_zero" hyp_bitvector_set_to_zero gen_bitvector_set_to_zero mod_bitvector_set_to_zero grid_bitvector_set_to_zero failing_bitvector_set_to_zero.
Eval vm_compute in report "bitvector_left_shift" hyp_bitvector_left_shift gen_bitvector_left_shift mod_bitvector_left_shift grid_bitvector_left_shift failing_bitvector_left_shift.
Eval vm_compute in report "srtp_rdb_add_index" hyp_srtp_rdb_add_index gen_srtp_rdb_add_index mod_srtp_rdb_add_index grid_srtp_rdb_add_index failing_srtp_rdb_add_index.
Eval vm_compute in report "srtp_rdbx_add_index" hyp_srtp_rdbx_add_index gen_srtp_rdbx_add_index mod_srtp_rdbx_add_index grid_srtp_rdbx_add_index failing_srtp_rdbx_add_index.
Eval vm_compute in report "srtp_rdbx_set_roc_seq" hyp_srtp_rdbx_set_roc_seq gen_srtp_rdbx_set_roc_seq mod_srtp_rdbx_set_roc_seq grid_srtp_rdbx_set_roc_seq failing_srtp_rdbx_set_roc_seq.
(* the overflow case recorded as srtp_rdbx_check_gen_overflow_refuted (len = 2147483680, delta = -2^63) is outside the
   hypotheses: the guard is false there (and true for the same delta with a window of 64 bits) *)
Eval vm_compute in ("guard_rdbx_check_overflow_case", hyp_rdbx_check_scalars (-9223372036854775808) 2147483680, hyp_rdbx_check_scalars (-9223372036854775808) 64).
(* END KERNEL SEARCH REPORT *)
