(* XtnProofs.v — the RFC 6904 header-extension walk (xtn_one / xtn_two of Rtp.v) is an
   involution: element headers, padding and unencrypted elements are never modified, so a
   second walk over the result takes the same decisions, consumes the same keystream and
   xors the same octets again.

   Method: the walk at position p of a block d only looks at and changes the suffix of d
   from p on.  w1 / w2 are the same walks written structurally on that suffix; xtn_one /
   xtn_two on (A ++ l) at position |A| are A ++ (w l); the involution is proved on w. *)
From Coq Require Import NArith ZArith List Bool Lia.
From Srtp Require Import Util Constants KeyLimit Rdb Rdbx Icm World Stream Rtp MonadLemmas WfProofs BoundsRtp.
Import ListNotations.
Local Open Scope Z_scope.

(* ===================================================================== *)
(* lists                                                                  *)
Lemma take_app_len {A} (a b : list A) : take (length a) (a ++ b) = a.
Proof. induction a as [|x a IH]; [destruct b; reflexivity|]. cbn. rewrite IH. reflexivity. Qed.
Lemma drop_app_len {A} (a b : list A) : drop (length a) (a ++ b) = b.
Proof. induction a as [|x a IH]; [reflexivity|]. cbn. exact IH. Qed.
Lemma take_app_exact {A} (a b : list A) n : length a = n -> take n (a ++ b) = a.
Proof. intros <-. apply take_app_len. Qed.
Lemma drop_app_exact {A} (a b : list A) n : length a = n -> drop n (a ++ b) = b.
Proof. intros <-. apply drop_app_len. Qed.
Lemma take_app_len_plus {A} (a b : list A) n : take (length a + n) (a ++ b) = a ++ take n b.
Proof. induction a as [|x a IH]; [reflexivity|]. cbn. rewrite IH. reflexivity. Qed.
Lemma drop_app_len_plus {A} (a b : list A) n : drop (length a + n) (a ++ b) = drop n b.
Proof. induction a as [|x a IH]; [reflexivity|]. cbn. exact IH. Qed.
Lemma take_drop_id {A} n (l : list A) : take n l ++ drop n l = l.
Proof. rewrite take_firstn, drop_skipn. apply firstn_skipn. Qed.
Lemma take_all {A} (l : list A) : take (length l) l = l.
Proof. rewrite take_firstn. apply firstn_all. Qed.
Lemma take_len_le {A} n (l : list A) : (n <= length l)%nat -> length (take n l) = n.
Proof. intros H. rewrite take_length. lia. Qed.
Lemma nth_app_len {A} (a b : list A) x dflt : nth (length a) (a ++ x :: b) dflt = x.
Proof. induction a as [|y a IH]; [reflexivity|]. cbn. exact IH. Qed.
Lemma nth_app_len2 {A} (a b : list A) x y dflt : nth (S (length a)) (a ++ x :: y :: b) dflt = y.
Proof. induction a as [|z a IH]; [reflexivity|]. cbn. exact IH. Qed.
Lemma splice_app_len {A} (a l v : list A) n : splice (length a + n) v (a ++ l) = a ++ splice n v l.
Proof. induction a as [|x a IH]; [reflexivity|]. cbn. rewrite IH. reflexivity. Qed.
Lemma splice_0 {A} (v l : list A) : (length v <= length l)%nat -> splice 0 v l = v ++ drop (length v) l.
Proof.
  revert l. induction v as [|y v IH]; intros l H.
  - destruct l; reflexivity.
  - destruct l as [|x l]; [cbn in H; lia|]. cbn. rewrite IH by (cbn in H; lia). reflexivity.
Qed.
Lemma lenZ_app {A} (a b : list A) : lenZ (a ++ b) = lenZ a + lenZ b.
Proof. unfold lenZ. rewrite app_length. lia. Qed.
Lemma lenZ_cons {A} (x : A) l : lenZ (x :: l) = 1 + lenZ l.
Proof. unfold lenZ. cbn [length]. lia. Qed.
Lemma zn_lenZ {A} (l : list A) : zn (lenZ l) = length l.
Proof. unfold zn, lenZ. lia. Qed.

(* number of leading zero octets *)
Fixpoint lead0 (l : bytes) : nat :=
  match l with
  | x :: t => if (x =? 0)%N then S (lead0 t) else O
  | [] => O
  end.
Lemma lead0_le l : (lead0 l <= length l)%nat.
Proof. induction l as [|x t IH]; cbn; [lia|]. destruct (x =? 0)%N; lia. Qed.
Lemma lead0_take l : take (lead0 l) l = repeat 0%N (lead0 l).
Proof.
  induction l as [|x t IH]; cbn; [reflexivity|]. destruct (x =? 0)%N eqn:E; [|reflexivity].
  apply N.eqb_eq in E. subst x. cbn. rewrite IH. reflexivity.
Qed.
(* the octet after the padding is not zero *)
Definition hd_nz (l : bytes) : Prop := match l with x :: _ => x <> 0%N | [] => True end.
Lemma lead0_drop_nz l : hd_nz (drop (lead0 l) l).
Proof.
  induction l as [|x t IH]; cbn; [exact I|]. destruct (x =? 0)%N eqn:E; [exact IH|].
  cbn. apply N.eqb_neq. exact E.
Qed.
Lemma lead0_zeros_app n t : hd_nz t -> lead0 (repeat 0%N n ++ t) = n.
Proof.
  intros H. induction n as [|n IH]; cbn.
  - destruct t as [|x t]; [reflexivity|]. cbn in *. apply N.eqb_neq in H. rewrite H. reflexivity.
  - rewrite IH. reflexivity.
Qed.

(* skip_pad from the end of a prefix P: the padding of the rest *)
Lemma skip_pad_app fuel : forall P R, (length R <= fuel)%nat ->
  skip_pad fuel (P ++ R) (lenZ P) = lenZ P + Z.of_nat (lead0 R).
Proof.
  induction fuel as [|f IH]; intros P R H.
  - destruct R; [|cbn in H; lia]. cbn. lia.
  - cbn [skip_pad]. destruct R as [|x R'].
    + rewrite app_nil_r, Z.ltb_irrefl. cbn. lia.
    + assert (E : lenZ P <? lenZ (P ++ x :: R') = true) by (rewrite lenZ_app, lenZ_cons; apply Z.ltb_lt; pose proof (lenZ_nonneg R'); lia).
      rewrite E. unfold nthb. rewrite zn_lenZ, nth_app_len. cbn [andb lead0].
      destruct (x =? 0)%N eqn:EX; [|lia].
      replace (P ++ x :: R') with ((P ++ [x]) ++ R') by (rewrite <- app_assoc; reflexivity).
      replace (lenZ P + 1) with (lenZ (P ++ [x])) by (rewrite lenZ_app; reflexivity).
      rewrite IH by (cbn in H; lia). rewrite lenZ_app. unfold lenZ at 2. cbn [length]. lia.
Qed.

(* reading / overwriting right after a prefix A ++ hdr *)
Lemma slice_after {A} (P rest : list A) n : slice (length P) n (P ++ rest) = take n rest.
Proof. unfold slice. rewrite drop_app_len. reflexivity. Qed.
Lemma splice_after {A} (P rest v : list A) :
  (length v <= length rest)%nat -> splice (length P) v (P ++ rest) = P ++ v ++ drop (length v) rest.
Proof.
  intros H. rewrite <- (Nat.add_0_r (length P)), splice_app_len, splice_0 by exact H. reflexivity.
Qed.

Lemma option_map_app_nil (o : option bytes) : option_map (app []) o = o.
Proof. destruct o; reflexivity. Qed.

Section WALK.
Variable ids : bytes.

(* the element data after the walk: xored with the keystream when selected, else as it was *)
Definition xdata (sel : bool) (X ks : bytes) : bytes := if sel then xor_bytes X ks else X.
Lemma xdata_length sel X ks : length (xdata sel X ks) = length X.
Proof. destruct sel; cbn; [apply xor_bytes_length|reflexivity]. Qed.
Lemma xdata_invol sel X ks : xdata sel (xdata sel X ks) ks = X.
Proof. destruct sel; cbn; [apply xor_bytes_involutive_gen|reflexivity]. Qed.

(* ===================================================================== *)
(* one-byte form                                                          *)
Fixpoint w1 (fuel : nat) (cs : cstate) (l : bytes) : option bytes :=
  match fuel with
  | O => Some l
  | S f =>
    match l with
    | [] => Some l
    | b :: rest =>
      let xid := N.shiftr b 4 in
      let xlen := Z.of_N (N.land b 15) + 1 in
      if lenZ rest <? xlen then None
      else if (xid =? 15)%N then Some l
      else
        let '(s, cs', ks) := cipher_output cs (1 + xlen) in
        if negb (s =? st_ok) then None
        else
          let X' := xdata (in_ids ids xid) (take (zn xlen) rest) (drop 1 ks) in
          let R := drop (zn xlen) rest in
          match w1 f cs' (drop (lead0 R) R) with
          | Some t => Some (b :: X' ++ take (lead0 R) R ++ t)
          | None => None
          end
    end
  end.

Lemma w1_hd fuel : forall cs l r, w1 fuel cs l = Some r -> hd_error r = hd_error l.
Proof.
  destruct fuel as [|f]; intros cs l r H; cbn [w1] in H; [injection H as <-; reflexivity|].
  destruct l as [|b rest]; [injection H as <-; reflexivity|].
  destruct (lenZ rest <? _); [discriminate|].
  destruct (_ =? 15)%N; [injection H as <-; reflexivity|].
  destruct (cipher_output cs _) as [[s cs'] ks].
  destruct (negb (s =? st_ok)); [discriminate|].
  destruct (w1 f cs' _) as [t|]; [|discriminate]. injection H as <-. reflexivity.
Qed.
Lemma hd_nz_of_hd l r : hd_error r = hd_error l -> hd_nz l -> hd_nz r.
Proof. destruct l, r; cbn; intros E H; try discriminate; auto. injection E as ->. exact H. Qed.

Theorem w1_involutive fuel : forall cs l r, w1 fuel cs l = Some r -> w1 fuel cs r = Some l.
Proof.
  induction fuel as [|f IH]; intros cs l r H; cbn [w1] in H; [injection H as <-; reflexivity|].
  destruct l as [|b rest]; [injection H as <-; reflexivity|].
  destruct (lenZ rest <? Z.of_N (N.land b 15) + 1) eqn:E1; [discriminate|].
  destruct (N.shiftr b 4 =? 15)%N eqn:E2.
  { injection H as <-. cbn [w1]. rewrite E1, E2. reflexivity. }
  destruct (cipher_output cs (1 + (Z.of_N (N.land b 15) + 1))) as [[s cs'] ks] eqn:EC.
  destruct (negb (s =? st_ok)) eqn:E3; [discriminate|].
  set (xlen := Z.of_N (N.land b 15) + 1) in *.
  set (R := drop (zn xlen) rest) in *.
  set (X' := xdata (in_ids ids (N.shiftr b 4)) (take (zn xlen) rest) (drop 1 ks)) in *.
  destruct (w1 f cs' (drop (lead0 R) R)) as [t|] eqn:ER; [|discriminate]. injection H as <-.
  apply Z.ltb_ge in E1.
  assert (LX : length X' = zn xlen).
  { subst X'. rewrite xdata_length. apply take_len_le. unfold lenZ, zn in *. lia. }
  assert (NZ : hd_nz t) by (apply (hd_nz_of_hd _ _ (w1_hd _ _ _ _ ER)); apply lead0_drop_nz).
  cbn [w1]. fold xlen.
  assert (E1' : lenZ (X' ++ take (lead0 R) R ++ t) <? xlen = false).
  { apply Z.ltb_ge. rewrite lenZ_app. unfold lenZ at 1. rewrite LX. unfold zn, xlen in *.
    pose proof (lenZ_nonneg (take (lead0 R) R ++ t)). lia. }
  rewrite E1', E2, EC, E3.
  rewrite (take_app_exact X' _ _ LX), (drop_app_exact X' _ _ LX).
  rewrite lead0_take, (lead0_zeros_app _ _ NZ).
  rewrite (drop_app_exact _ t _ (repeat_length 0%N (lead0 R))).
  rewrite (IH _ _ _ ER).
  rewrite (take_app_exact _ t _ (repeat_length 0%N (lead0 R))).
  rewrite <- lead0_take, take_drop_id. subst X'. rewrite xdata_invol. subst R. rewrite take_drop_id.
  reflexivity.
Qed.

(* xtn_one at the end of a prefix A is A ++ (w1 of the rest) *)
Lemma xtn_one_w1 fuel : forall cs A l,
  xtn_one fuel ids cs (A ++ l) (lenZ A) = option_map (app A) (w1 fuel cs l).
Proof.
  induction fuel as [|f IH]; intros cs A l; [reflexivity|].
  cbn [xtn_one w1]. destruct l as [|b rest].
  { rewrite app_nil_r, Z.ltb_irrefl. cbn. rewrite app_nil_r. reflexivity. }
  assert (E0 : lenZ A <? lenZ (A ++ b :: rest) = true)
    by (rewrite lenZ_app, lenZ_cons; apply Z.ltb_lt; pose proof (lenZ_nonneg rest); lia).
  rewrite E0. unfold nthb. rewrite zn_lenZ, nth_app_len.
  set (xlen := Z.of_N (N.land b 15) + 1).
  assert (XP : 1 <= xlen) by (unfold xlen; lia).
  replace (lenZ (A ++ b :: rest) <? lenZ A + 1 + xlen) with (lenZ rest <? xlen)
    by (rewrite lenZ_app, lenZ_cons; destruct (lenZ rest <? xlen) eqn:E; symmetry;
        [apply Z.ltb_lt; apply Z.ltb_lt in E|apply Z.ltb_ge; apply Z.ltb_ge in E]; lia).
  destruct (lenZ rest <? xlen) eqn:E1; [reflexivity|]. apply Z.ltb_ge in E1.
  destruct (N.shiftr b 4 =? 15)%N; [reflexivity|].
  destruct (cipher_output cs (1 + xlen)) as [[s cs'] ks].
  destruct (negb (s =? st_ok)); [reflexivity|].
  (* the block after this element *)
  set (P1 := A ++ [b]).
  assert (LP1 : zn (lenZ A + 1) = length P1) by (subst P1; rewrite app_length; cbn [length]; unfold zn, lenZ; lia).
  assert (ED : A ++ b :: rest = P1 ++ rest) by (subst P1; rewrite <- app_assoc; reflexivity).
  rewrite LP1, ED. rewrite slice_after.
  set (X := take (zn xlen) rest). set (R := drop (zn xlen) rest).
  assert (LX : length X = zn xlen) by (subst X; apply take_len_le; unfold lenZ, zn in *; lia).
  set (sel := in_ids ids (N.shiftr b 4)).
  set (X' := xdata sel X (drop 1 ks)).
  assert (LX' : length X' = zn xlen) by (subst X'; rewrite xdata_length; exact LX).
  assert (ED' : (if sel then splice (length P1) (xor_bytes X (drop 1 ks)) (P1 ++ rest) else P1 ++ rest)
                = (P1 ++ X') ++ R).
  { subst X' R. destruct sel; cbn [xdata].
    - rewrite splice_after by (rewrite xor_bytes_length, LX; unfold lenZ, zn in *; lia).
      rewrite xor_bytes_length, LX, <- app_assoc. reflexivity.
    - rewrite <- app_assoc. subst X. rewrite take_drop_id. reflexivity. }
  rewrite ED'.
  assert (LPX : lenZ (P1 ++ X') = lenZ A + 1 + xlen).
  { unfold lenZ. rewrite app_length, LX', <- LP1. unfold zn, lenZ. lia. }
  rewrite <- LPX.
  replace (length (P1 ++ rest)) with (length ((P1 ++ X') ++ R))
    by (rewrite !app_length, LX'; subst R; rewrite drop_length; unfold lenZ, zn in *; lia).
  rewrite skip_pad_app by (rewrite app_length; lia).
  (* re-split at the end of the padding *)
  rewrite <- (take_drop_id (lead0 R) R) at 1.
  rewrite app_assoc.
  set (A' := (P1 ++ X') ++ take (lead0 R) R).
  replace (lenZ (P1 ++ X') + Z.of_nat (lead0 R)) with (lenZ A')
    by (subst A'; rewrite (lenZ_app (P1 ++ X')); unfold lenZ at 2; rewrite take_len_le by apply lead0_le; reflexivity).
  rewrite IH. destruct (w1 f cs' (drop (lead0 R) R)) as [t|]; [|reflexivity].
  cbn [option_map]. f_equal. subst A' P1. rewrite <- !app_assoc. reflexivity.
Qed.

Corollary xtn_one_0 fuel cs d : xtn_one fuel ids cs d 0 = w1 fuel cs d.
Proof. rewrite <- (option_map_app_nil (w1 fuel cs d)). exact (xtn_one_w1 fuel cs [] d). Qed.

(* the generalised statement over the position: the prefix is kept and the walk over the
   result restores the suffix *)
Theorem xtn_one_involutive_at fuel cs A l d' :
  xtn_one fuel ids cs (A ++ l) (lenZ A) = Some d' ->
  exists l', d' = A ++ l' /\ length l' = length l /\ xtn_one fuel ids cs (A ++ l') (lenZ A) = Some (A ++ l).
Proof.
  rewrite xtn_one_w1. destruct (w1 fuel cs l) as [l'|] eqn:E; [|discriminate]. cbn. intros H. injection H as <-.
  exists l'. split; [reflexivity|]. split.
  - pose proof (xtn_one_length fuel ids cs l 0 l') as L. rewrite xtn_one_0 in L. exact (L E).
  - rewrite xtn_one_w1, (w1_involutive _ _ _ _ E). reflexivity.
Qed.

Theorem xtn_one_involutive fuel cs d d' :
  xtn_one fuel ids cs d 0 = Some d' -> xtn_one fuel ids cs d' 0 = Some d.
Proof. rewrite !xtn_one_0. apply w1_involutive. Qed.

(* ===================================================================== *)
(* two-byte form                                                          *)
Fixpoint w2 (fuel : nat) (cs : cstate) (l : bytes) : option bytes :=
  match fuel with
  | O => Some l
  | S f =>
    match l with
    | xid :: lb :: rest =>
      let xlen := Z.of_N lb in
      if lenZ rest <? xlen then None
      else
        let '(s, cs', ks) := cipher_output cs (2 + xlen) in
        if negb (s =? st_ok) then None
        else
          let X' := xdata ((0 <? xlen) && in_ids ids xid) (take (zn xlen) rest) (drop 2 ks) in
          let R := drop (zn xlen) rest in
          match w2 f cs' (drop (lead0 R) R) with
          | Some t => Some (xid :: lb :: X' ++ take (lead0 R) R ++ t)
          | None => None
          end
    | _ => Some l
    end
  end.

Lemma w2_hd fuel : forall cs l r, w2 fuel cs l = Some r -> hd_error r = hd_error l.
Proof.
  destruct fuel as [|f]; intros cs l r H; cbn [w2] in H; [injection H as <-; reflexivity|].
  destruct l as [|xid [|lb rest]]; try (injection H as <-; reflexivity).
  destruct (lenZ rest <? _); [discriminate|].
  destruct (cipher_output cs _) as [[s cs'] ks].
  destruct (negb (s =? st_ok)); [discriminate|].
  destruct (w2 f cs' _) as [t|]; [|discriminate]. injection H as <-. reflexivity.
Qed.

Theorem w2_involutive fuel : forall cs l r, w2 fuel cs l = Some r -> w2 fuel cs r = Some l.
Proof.
  induction fuel as [|f IH]; intros cs l r H; cbn [w2] in H; [injection H as <-; reflexivity|].
  destruct l as [|xid [|lb rest]]; try (injection H as <-; reflexivity).
  destruct (lenZ rest <? Z.of_N lb) eqn:E1; [discriminate|].
  destruct (cipher_output cs (2 + Z.of_N lb)) as [[s cs'] ks] eqn:EC.
  destruct (negb (s =? st_ok)) eqn:E3; [discriminate|].
  set (xlen := Z.of_N lb) in *.
  set (R := drop (zn xlen) rest) in *.
  set (X' := xdata ((0 <? xlen) && in_ids ids xid) (take (zn xlen) rest) (drop 2 ks)) in *.
  destruct (w2 f cs' (drop (lead0 R) R)) as [t|] eqn:ER; [|discriminate]. injection H as <-.
  apply Z.ltb_ge in E1.
  assert (LX : length X' = zn xlen).
  { subst X'. rewrite xdata_length. apply take_len_le. unfold lenZ, zn in *. lia. }
  assert (NZ : hd_nz t) by (apply (hd_nz_of_hd _ _ (w2_hd _ _ _ _ ER)); apply lead0_drop_nz).
  cbn [w2]. fold xlen.
  assert (E1' : lenZ (X' ++ take (lead0 R) R ++ t) <? xlen = false).
  { apply Z.ltb_ge. rewrite lenZ_app. unfold lenZ at 1. rewrite LX. unfold zn, xlen in *.
    pose proof (lenZ_nonneg (take (lead0 R) R ++ t)). lia. }
  rewrite E1', EC, E3.
  rewrite (take_app_exact X' _ _ LX), (drop_app_exact X' _ _ LX).
  rewrite lead0_take, (lead0_zeros_app _ _ NZ).
  rewrite (drop_app_exact _ t _ (repeat_length 0%N (lead0 R))).
  rewrite (IH _ _ _ ER).
  rewrite (take_app_exact _ t _ (repeat_length 0%N (lead0 R))).
  rewrite <- lead0_take, take_drop_id. subst X'. rewrite xdata_invol. subst R. rewrite take_drop_id.
  reflexivity.
Qed.

Lemma xtn_two_w2 fuel : forall cs A l,
  xtn_two fuel ids cs (A ++ l) (lenZ A) = option_map (app A) (w2 fuel cs l).
Proof.
  induction fuel as [|f IH]; intros cs A l; [reflexivity|].
  cbn [xtn_two w2]. destruct l as [|xid [|lb rest]].
  { rewrite app_nil_r. replace (lenZ A + 1 <? lenZ A) with false by (symmetry; apply Z.ltb_ge; lia).
    cbn. rewrite app_nil_r. reflexivity. }
  { replace (lenZ A + 1 <? lenZ (A ++ [xid])) with false
      by (symmetry; apply Z.ltb_ge; rewrite lenZ_app; unfold lenZ at 2; cbn [length]; lia).
    reflexivity. }
  assert (E0 : lenZ A + 1 <? lenZ (A ++ xid :: lb :: rest) = true)
    by (rewrite lenZ_app, !lenZ_cons; apply Z.ltb_lt; pose proof (lenZ_nonneg rest); lia).
  rewrite E0. unfold nthb. rewrite zn_lenZ, nth_app_len.
  replace (zn (lenZ A + 1)) with (S (length A)) by (unfold zn, lenZ; lia).
  rewrite nth_app_len2.
  set (xlen := Z.of_N lb).
  assert (XP : 0 <= xlen) by (unfold xlen; lia).
  replace (lenZ (A ++ xid :: lb :: rest) <? lenZ A + 2 + xlen) with (lenZ rest <? xlen)
    by (rewrite lenZ_app, !lenZ_cons; destruct (lenZ rest <? xlen) eqn:E; symmetry;
        [apply Z.ltb_lt; apply Z.ltb_lt in E|apply Z.ltb_ge; apply Z.ltb_ge in E]; lia).
  destruct (lenZ rest <? xlen) eqn:E1; [reflexivity|]. apply Z.ltb_ge in E1.
  destruct (cipher_output cs (2 + xlen)) as [[s cs'] ks].
  destruct (negb (s =? st_ok)); [reflexivity|].
  set (P1 := A ++ [xid; lb]).
  assert (LP1 : zn (lenZ A + 2) = length P1) by (subst P1; rewrite app_length; cbn [length]; unfold zn, lenZ; lia).
  assert (ED : A ++ xid :: lb :: rest = P1 ++ rest) by (subst P1; rewrite <- app_assoc; reflexivity).
  rewrite LP1, ED. rewrite slice_after.
  set (X := take (zn xlen) rest). set (R := drop (zn xlen) rest).
  assert (LX : length X = zn xlen) by (subst X; apply take_len_le; unfold lenZ, zn in *; lia).
  set (sel := (0 <? xlen) && in_ids ids xid).
  set (X' := xdata sel X (drop 2 ks)).
  assert (LX' : length X' = zn xlen) by (subst X'; rewrite xdata_length; exact LX).
  assert (ED' : (if sel then splice (length P1) (xor_bytes X (drop 2 ks)) (P1 ++ rest) else P1 ++ rest)
                = (P1 ++ X') ++ R).
  { subst X' R. destruct sel; cbn [xdata].
    - rewrite splice_after by (rewrite xor_bytes_length, LX; unfold lenZ, zn in *; lia).
      rewrite xor_bytes_length, LX, <- app_assoc. reflexivity.
    - rewrite <- app_assoc. subst X. rewrite take_drop_id. reflexivity. }
  rewrite ED'.
  assert (LPX : lenZ (P1 ++ X') = lenZ A + 2 + xlen).
  { unfold lenZ. rewrite app_length, LX', <- LP1. unfold zn, lenZ. lia. }
  rewrite <- LPX.
  replace (length (P1 ++ rest)) with (length ((P1 ++ X') ++ R))
    by (rewrite !app_length, LX'; subst R; rewrite drop_length; unfold lenZ, zn in *; lia).
  rewrite skip_pad_app by (rewrite app_length; lia).
  rewrite <- (take_drop_id (lead0 R) R) at 1.
  rewrite app_assoc.
  set (A' := (P1 ++ X') ++ take (lead0 R) R).
  replace (lenZ (P1 ++ X') + Z.of_nat (lead0 R)) with (lenZ A')
    by (subst A'; rewrite (lenZ_app (P1 ++ X')); unfold lenZ at 2; rewrite take_len_le by apply lead0_le; reflexivity).
  rewrite IH. destruct (w2 f cs' (drop (lead0 R) R)) as [t|]; [|reflexivity].
  cbn [option_map]. f_equal. subst A' P1. rewrite <- !app_assoc. reflexivity.
Qed.

Corollary xtn_two_0 fuel cs d : xtn_two fuel ids cs d 0 = w2 fuel cs d.
Proof. rewrite <- (option_map_app_nil (w2 fuel cs d)). exact (xtn_two_w2 fuel cs [] d). Qed.

Theorem xtn_two_involutive_at fuel cs A l d' :
  xtn_two fuel ids cs (A ++ l) (lenZ A) = Some d' ->
  exists l', d' = A ++ l' /\ length l' = length l /\ xtn_two fuel ids cs (A ++ l') (lenZ A) = Some (A ++ l).
Proof.
  rewrite xtn_two_w2. destruct (w2 fuel cs l) as [l'|] eqn:E; [|discriminate]. cbn. intros H. injection H as <-.
  exists l'. split; [reflexivity|]. split.
  - pose proof (xtn_two_length fuel ids cs l 0 l') as L. rewrite xtn_two_0 in L. exact (L E).
  - rewrite xtn_two_w2, (w2_involutive _ _ _ _ E). reflexivity.
Qed.

Theorem xtn_two_involutive fuel cs d d' :
  xtn_two fuel ids cs d 0 = Some d' -> xtn_two fuel ids cs d' 0 = Some d.
Proof. rewrite !xtn_two_0. apply w2_involutive. Qed.
End WALK.

Print Assumptions xtn_one_involutive.
Print Assumptions xtn_one_involutive_at.
Print Assumptions xtn_two_involutive.
Print Assumptions xtn_two_involutive_at.
