(* Globals.v — C19: the session API writes no process-global variable (debug logging off).
   GlobalsGen.v is regenerated from /repo's sources on every run by tools/gen_globals.py
   (clang AST): per library function, the globals it writes and the functions it calls outside
   debug-only regions.  Here: the transitive closure of the call graph from each session-API
   entry point (indirect calls resolved to every address-taken library function) and the check
   that no function in it writes a global. *)
From Coq Require Import String List Bool Arith.
From Srtp Require Import GlobalsGen.
Import ListNotations.
Local Open Scope string_scope.

Definition lookup (f : string) : option (list string * (list string * bool)) :=
  match find (fun r => String.eqb (fst r) f) fn_table with
  | Some r => Some (snd r)
  | None => None
  end.

Definition mem (x : string) (l : list string) : bool := existsb (String.eqb x) l.

Definition callees (f : string) : list string :=
  match lookup f with
  | Some (_, (c, ind)) => c ++ (if ind then descriptor_fns else [])
  | None => []
  end.

Definition writes (f : string) : list string :=
  match lookup f with Some (w, _) => w | None => [] end.

(* worklist closure; fuel = number of functions is enough since every step adds a new one *)
Fixpoint reach (fuel : nat) (todo seen : list string) : list string :=
  match fuel with
  | O => seen
  | S n =>
    match todo with
    | [] => seen
    | f :: t => if mem f seen then reach n t seen
                else reach n (callees f ++ t) (f :: seen)
    end
  end.

Definition closure (f : string) : list string := reach (4 * List.length fn_table * List.length fn_table + 100) [f] [].

(* the closure really is closed (so fuel was sufficient) *)
Definition closed (s : list string) : bool :=
  forallb (fun f => forallb (fun g => mem g s) (callees f)) s.

Definition session_api : list string :=
  [ "srtp_create"; "srtp_dealloc"; "srtp_stream_add"; "srtp_stream_remove"; "srtp_update"; "srtp_stream_update";
    "srtp_protect"; "srtp_unprotect"; "srtp_protect_rtcp"; "srtp_unprotect_rtcp";
    "srtp_stream_set_roc"; "srtp_stream_get_roc";
    "srtp_get_protect_trailer_length"; "srtp_get_protect_rtcp_trailer_length";
    "srtp_set_user_data"; "srtp_get_user_data" ].

Definition api_known : bool := forallb (fun f => match lookup f with Some _ => true | None => false end) session_api.
Definition api_closed : bool := forallb (fun f => closed (closure f)) session_api.
Definition api_writes : list (string * list string) :=
  flat_map (fun f => match flat_map writes (closure f) with [] => [] | w => [(f, w)] end) session_api.

(* the functions that DO write globals are the initialisation / configuration entry points *)
Definition global_writers : list string :=
  map fst (filter (fun r => match fst (snd r) with [] => false | _ => true end) fn_table).
