(* RtpRefineCryptex.v — C12 (SRTP half) and the sender side of C01 for the cryptex class of
   streams (RFC 9335): s_cryptex st0 = true and no header-extension cipher
   (forall k in s_keys st0, k_xtn_c k = None).  The monadic model of srtp_protect (Rtp.v)
   REFINES protect_fun of RtpSpec.v in place and out of place.

   In place the model moves the CSRC list behind the extension header (cryptex_adjust),
   encrypts ONE run from offset 16 and moves the pieces back (cryptex_restore); out of place
   it encrypts the CSRC list in the destination (crypt_dst_region) and then the rest from
   the source: two consecutive cipher calls.  wire_crypt of RtpSpec.v is one cipher call
   over CSRC list ++ everything behind the extension header.  The two agree because the
   cipher is chunking independent (section 1, from IcmProofs.v), for which the cipher state
   must be a counter-mode state reached from srtp_cipher_set_iv (cs_wf). *)
From Coq Require Import NArith ZArith List Bool Lia.
From Srtp Require Import Util Constants KeyLimit Rdb Rdbx Icm World Stream Rtp
     MonadLemmas EnvelopeProofs WfProofs BoundsRtcp BoundsRtp LengthProofs RtcpSpec RtpSpec
     RtpSpecProofs RtpXtnApply CryptexProofs IcmProofs RtpRefineXtn.
From Srtp.Crypto Require Import AES CTR.
Import ListNotations.
Local Open Scope Z_scope.

(* ===================================================================== *)
(* 1. chunking independence of cipher_encrypt                              *)
(* ===================================================================== *)
(* a cipher state reached from srtp_cipher_set_iv by calls that were not refused *)
Definition cs_wf (cs : cstate) : Prop :=
  match cs with
  | CSNull => True
  | CSIcm rks c => exists ctr0 pos, wf (aes_encrypt_rk rks) c ctr0 pos /\ in_range ctr0 pos
  end.

Section ICM_CHUNK.
Variable E : bytes -> bytes.
Hypothesis E_len : forall b, length (E b) = 16%nat.

Lemma icm_single_status c ctr0 pos d :
  wf E c ctr0 pos -> in_range ctr0 pos -> lenZ d + 15 < 18446744073709551616 ->
  fst (fst (icm_encrypt E c d)) =
    (if Z_le_dec (ctr_low ctr0 + blocks_of (pos + lenZ d)) 65535 then st_ok else st_terminus).
Proof.
  intros Hwf Hr Hn. rewrite icm_encrypt_status.
  assert (Hn0 : 0 <= lenZ d) by (unfold lenZ; lia).
  pose proof (icm_accepts_in_range E c ctr0 pos (lenZ d) Hwf Hr Hn0 Hn) as Hacc. unfold in_range in Hacc.
  destruct (Z_le_dec (ctr_low ctr0 + blocks_of (pos + lenZ d)) 65535) as [Hle|Hgt].
  - rewrite (proj2 Hacc Hle). reflexivity.
  - destruct (icm_refuses c (lenZ d)); [reflexivity|]. exfalso. apply Hgt. apply Hacc. reflexivity.
Qed.

Lemma icm_encrypt_app c ctr0 pos A B :
  wf E c ctr0 pos -> in_range ctr0 pos -> lenZ (A ++ B) + 15 < 18446744073709551616 ->
  match icm_encrypt E c A with
  | (s1, c1, o1) =>
    if s1 =? st_ok then
      match icm_encrypt E c1 B with
      | (s2, c2, o2) => if s2 =? st_ok then icm_encrypt E c (A ++ B) = (st_ok, c2, o1 ++ o2)
                        else (fst (fst (icm_encrypt E c (A ++ B))) =? st_ok) = false
      end
    else (fst (fst (icm_encrypt E c (A ++ B))) =? st_ok) = false
  end.
Proof.
  intros Hwf Hr Hn.
  assert (EC : concat [A; B] = A ++ B) by (cbn [concat]; rewrite app_nil_r; reflexivity).
  pose proof (icm_run_status E E_len [A; B] c ctr0 pos Hwf Hr) as Hst.
  pose proof (icm_chunking_independent E E_len [A; B] c ctr0 pos Hwf Hr) as Hci.
  rewrite EC in Hst, Hci. specialize (Hst Hn). specialize (Hci Hn).
  pose proof (icm_single_status c ctr0 pos (A ++ B) Hwf Hr Hn) as Hsg. rewrite <- Hst in Hsg. clear Hst.
  cbn [icm_run] in Hci, Hsg.
  destruct (icm_encrypt E c A) as [[s1 c1] o1]. destruct (s1 =? st_ok) eqn:ES1.
  - destruct (icm_encrypt E c1 B) as [[s2 c2] o2]. destruct (s2 =? st_ok) eqn:ES2.
    + cbn [fst] in Hci. apply Z.eqb_eq in ES2. subst s2. rewrite <- Hci by (left; reflexivity).
      rewrite app_nil_r. reflexivity.
    + cbn [fst] in Hsg. rewrite Hsg. exact ES2.
  - cbn [fst] in Hsg. rewrite Hsg. exact ES1.
Qed.

Lemma icm_encrypt_wf c ctr0 pos d s c' o :
  wf E c ctr0 pos -> in_range ctr0 pos -> lenZ d + 15 < 18446744073709551616 ->
  icm_encrypt E c d = (s, c', o) -> (s =? st_ok) = true ->
  wf E c' ctr0 (pos + lenZ d) /\ in_range ctr0 (pos + lenZ d).
Proof.
  intros Hwf Hr Hn HE HS.
  assert (Hn0 : 0 <= lenZ d) by (unfold lenZ; lia).
  pose proof (icm_accepts_in_range E c ctr0 pos (lenZ d) Hwf Hr Hn0 Hn) as Hacc.
  destruct (icm_refuses c (lenZ d)) eqn:Href.
  - rewrite (icm_encrypt_refused E c d Href) in HE. injection HE as <- _ _. discriminate HS.
  - destruct (icm_encrypt_ok E E_len c ctr0 pos d Hwf Href) as (c1 & Heq & Hwf1 & _).
    rewrite Heq in HE. injection HE as _ <- _. split; [exact Hwf1|]. apply Hacc. reflexivity.
Qed.
End ICM_CHUNK.

Lemma cipher_encrypt_app cs A B :
  cs_wf cs -> lenZ (A ++ B) + 15 < 18446744073709551616 ->
  match cipher_encrypt cs A with
  | (s1, c1, o1) =>
    if s1 =? st_ok then
      match cipher_encrypt c1 B with
      | (s2, c2, o2) => if s2 =? st_ok then cipher_encrypt cs (A ++ B) = (st_ok, c2, o1 ++ o2)
                        else (fst (fst (cipher_encrypt cs (A ++ B))) =? st_ok) = false
      end
    else (fst (fst (cipher_encrypt cs (A ++ B))) =? st_ok) = false
  end.
Proof.
  destruct cs as [|rks c].
  - intros _ _. cbn. reflexivity.
  - intros (ctr0 & pos & Hwf & Hr) Hn. cbn [cipher_encrypt].
    pose proof (icm_encrypt_app (aes_encrypt_rk rks) (aes_encrypt_rk_length rks) c ctr0 pos A B Hwf Hr Hn) as H.
    destruct (icm_encrypt (aes_encrypt_rk rks) c A) as [[s1 c1] o1]. destruct (s1 =? st_ok).
    + cbn [cipher_encrypt]. destruct (icm_encrypt (aes_encrypt_rk rks) c1 B) as [[s2 c2] o2]. destruct (s2 =? st_ok).
      * rewrite H. reflexivity.
      * destruct (icm_encrypt (aes_encrypt_rk rks) c (A ++ B)) as [[s3 c3] o3]. exact H.
    + destruct (icm_encrypt (aes_encrypt_rk rks) c (A ++ B)) as [[s3 c3] o3]. exact H.
Qed.

Lemma cipher_encrypt_wf cs d s cs' o :
  cs_wf cs -> lenZ d + 15 < 18446744073709551616 ->
  cipher_encrypt cs d = (s, cs', o) -> (s =? st_ok) = true -> cs_wf cs'.
Proof.
  destruct cs as [|rks c].
  - intros _ _ H _. cbn in H. injection H as _ <- _. exact I.
  - intros (ctr0 & pos & Hwf & Hr) Hn. cbn [cipher_encrypt].
    destruct (icm_encrypt (aes_encrypt_rk rks) c d) as [[s1 c1] o1] eqn:HE. intros H HS. injection H as -> <- _.
    destruct (icm_encrypt_wf _ (aes_encrypt_rk_length rks) c ctr0 pos d s c1 o1 Hwf Hr Hn HE HS) as [W R].
    exists ctr0, (pos + lenZ d). auto.
Qed.

(* ---- the cipher state srtp_protect starts from is a counter-mode state ---- *)
Lemma be16_two (P : bytes) a b : length P = 14%nat -> (a < 256)%N -> (b < 256)%N -> be16 (P ++ [a; b]) 14 <= 65535.
Proof.
  intros LP Ha Hb. unfold be16. rewrite (slice_app_exact P [a; b] 14 2 LP).
  cbn [take be_val length]. change (256 ^ N.of_nat 1)%N with 256%N. change (256 ^ N.of_nat 0)%N with 1%N. lia.
Qed.

Lemma cs_wf_start k ssrc est : cs_wf (cipher_start k (rtp_iv (ck_alg k) ssrc est)).
Proof.
  unfold cipher_start, rtp_iv. destruct (is_icm_alg (ck_alg k)); [|exact I].
  cbn [cs_wf]. destruct (icm_init_lengths (ck_salt k)) as [Ho Hb].
  set (iv := zeros 4 ++ be_bytes 4 (Z.to_N ssrc) ++ be64 (est * 65536)).
  exists (i_ctr (icm_set_iv (icm_init (ck_salt k)) iv)), 0. split; [apply wf_set_iv; assumption|].
  unfold in_range. rewrite ctr_low_set_iv_init. change (blocks_of 0) with 0.
  set (X := Z.to_N (u64 (est * 65536))).
  assert (EIV : iv = (zeros 4 ++ be_bytes 4 (Z.to_N ssrc) ++ be_bytes 6 (N.shiftr (N.shiftr X 8) 8)) ++
                     [N.land (N.shiftr X 8) 255; N.land X 255]%N).
  { subst iv. unfold be64. fold X. rewrite (be_bytes_S 7), (be_bytes_S 6). rewrite <- !app_assoc. reflexivity. }
  set (P := zeros 4 ++ be_bytes 4 (Z.to_N ssrc) ++ be_bytes 6 (N.shiftr (N.shiftr X 8) 8)) in *.
  assert (LP : length P = 14%nat).
  { subst P. rewrite !app_length, !be_bytes_length. unfold zeros. rewrite repeat_length. reflexivity. }
  rewrite EIV.
  assert (ET : take 16 ((P ++ [N.land (N.shiftr X 8) 255; N.land X 255]%N) ++ zeros 16) =
               P ++ [N.land (N.shiftr X 8) 255; N.land X 255]%N).
  { apply XtnProofs.take_app_exact. rewrite app_length, LP. reflexivity. }
  rewrite ET.
  pose proof (be16_two P _ _ LP (land_255_lt (N.shiftr X 8)) (land_255_lt X)). lia.
Qed.

Lemma wire_prefix_wf da a cs0 cs1 pre :
  cs_wf cs0 -> 0 <= ak_prefix a <= 16 -> wire_prefix da a cs0 = Some (cs1, pre) -> cs_wf cs1.
Proof.
  intros W HP. unfold wire_prefix. destruct (da && negb (ak_prefix a =? 0)).
  - destruct (cipher_output cs0 (ak_prefix a)) as [[s cs'] ks] eqn:EO. destruct (s =? st_ok) eqn:ES; cbn [negb]; [|discriminate].
    intros H. injection H as <- _. unfold cipher_output in EO.
    apply (cipher_encrypt_wf cs0 (zeros (zn (ak_prefix a))) s cs' ks W); [|exact EO|exact ES].
    unfold zeros, lenZ. rewrite repeat_length. unfold zn. lia.
  - intros H. injection H as <- _. exact W.
Qed.

(* ===================================================================== *)
(* 2. the buffer layouts                                                  *)
(* ===================================================================== *)
Lemma adjust_dst_0 (P : bytes) : adjust_dst 0 P = P.
Proof. unfold adjust_dst. change (slice 12 0 P) with (@nil N). rewrite splice_nil. apply splice_self. Qed.
Lemma restore_dst_0 (P : bytes) : restore_dst 0 P = P.
Proof. unfold restore_dst. change (slice 16 0 P) with (@nil N). rewrite splice_nil. apply splice_self. Qed.

(* in place: what the single cipher call reads after the adjust shuffle, and what the
   restore shuffle makes of its output *)
Lemma inplace_layout n (p2 : bytes) :
  (12 + n + 4 <= length p2)%nat ->
  drop 16 (adjust_dst n p2) = slice 12 n p2 ++ drop (12 + n + 4) p2 /\
  length (take 16 (adjust_dst n p2)) = 16%nat /\
  forall o, length o = (length p2 - 16)%nat ->
    restore_dst n (take 16 (adjust_dst n p2) ++ o) = take 12 p2 ++ take n o ++ slice (12 + n) 4 p2 ++ drop n o.
Proof.
  intros LP. destruct (adjust_dst_layout n p2 LP) as [EA _]. rewrite EA.
  set (H := take 12 p2). set (X := slice (12 + n) 4 p2). set (Cs := slice 12 n p2). set (T := drop (12 + n + 4) p2).
  assert (LH : length H = 12%nat) by (subst H; rewrite take_length; lia).
  assert (LX : length X = 4%nat) by (subst X; rewrite slice_length; lia).
  assert (LCs : length Cs = n) by (subst Cs; rewrite slice_length; lia).
  assert (LHX : length (H ++ X) = 16%nat) by (rewrite app_length; lia).
  rewrite (app_assoc H X).
  split; [apply (XtnProofs.drop_app_exact (H ++ X) (Cs ++ T) 16 LHX)|].
  rewrite (XtnProofs.take_app_exact (H ++ X) (Cs ++ T) 16 LHX). split; [exact LHX|].
  intros o LO.
  rewrite <- (take_drop_id n o) at 1.
  replace ((H ++ X) ++ take n o ++ drop n o) with (H ++ (X ++ take n o) ++ drop n o) by (rewrite <- !app_assoc; reflexivity).
  assert (LTo : length (take n o) = n) by (rewrite take_length; lia).
  rewrite restore_dst_app by (rewrite ?app_length; lia).
  rewrite (XtnProofs.drop_app_exact X (take n o) 4 LX), (XtnProofs.take_app_exact X (take n o) 4 LX).
  reflexivity.
Qed.

(* the block up to the end of the extension header *)
Lemma header_split n (p2 : bytes) :
  (12 + n + 4 <= length p2)%nat ->
  take (12 + n + 4) p2 = take 12 p2 ++ slice 12 n p2 ++ slice (12 + n) 4 p2.
Proof.
  intros LP. rewrite <- Nat.add_assoc, take_add. f_equal. rewrite take_add. unfold slice. rewrite drop_drop. reflexivity.
Qed.

(* ===================================================================== *)
(* 3. the cryptex steps of srtp_protect on the destination block           *)
(* ===================================================================== *)
Lemma facts_read P fs dd a m : facts_ok ((0, P) :: fs) dd -> (a + m <= length P)%nat -> slice a m dd = slice a m P.
Proof. intros Hf H. inversion Hf as [|? ? F0 _]; subst. exact (fact0_read _ _ _ _ F0 H). Qed.

Lemma away_sub off len M fs : 0 <= off -> off + len <= M -> Forall (away 0 M) fs -> Forall (away off len) fs.
Proof. intros H1 H2 H. eapply Forall_impl; [|exact H]. intros f [A|A]; [left|right]; lia. Qed.

Lemma be16_slice2_0 l hl : be16 (slice hl 2 l) 0 = be16 l hl.
Proof. unfold be16, slice. cbn [drop]. rewrite take_take. reflexivity. Qed.

(* the cryptex branch of wire_crypt *)
Definition cx_body (cs1 : cstate) (p1 : bytes) : bytes + Z :=
  let hl := hdr_len p1 in
  match cryptex_profile_of (be16 p1 (zn hl)) with
  | None => inr st_parse_err
  | Some v =>
    let p2 := splice (zn hl) (be_bytes 2 (Z.to_N v)) p1 in
    let n := zn (4 * hdr_cc p1) in
    let '(s, _, o) := cipher_encrypt cs1 (slice 12 n p2 ++ drop (zn (hl + 4)) p2) in
    if negb (s =? st_ok) then inr st_cipher_fail
    else inl (take 12 p2 ++ take n o ++ slice (zn hl) 4 p2 ++ drop n o)
  end.

Lemma wire_crypt_cx st cs1 p1 :
  s_cryptex st = true ->
  wire_crypt st cs1 p1 = if rtp_conf st && (hdr_x p1 =? 1) then cx_body cs1 p1
                         else pay_body (rtp_conf st) cs1 (enc0 p1) p1.
Proof.
  intros H. unfold wire_crypt, cx_body, pay_body. rewrite H. cbn [andb].
  destruct (rtp_conf st); destruct (hdr_x p1 =? 1); reflexivity.
Qed.

Section CXADJ.
Variables (L C : Z) (al : bool) (src d0 pkt : bytes).
Hypothesis HL : 0 <= L < 9223372036854775808.
Hypothesis HC : 0 <= C < 9223372036854775808.
Hypothesis HD : C <= lenZ d0.
Hypothesis Hpkt : take (zn L) (if al then d0 else src) = pkt.
Hypothesis HLp : lenZ pkt = L.

Notation S := (St L C al src d0).

Lemma t_adjust_facts ss P fs E :
  hdr_len pkt + 4 <= lenZ P -> lenZ P <= C -> Forall (away 0 (lenZ P)) fs ->
  tri (S ss (facts_ok ((0, P) :: fs))) (cryptex_adjust pkt)
      (fun _ => S ss (facts_ok ((0, adjust_dst (zn (4 * hdr_cc pkt)) P) :: fs))) E.
Proof.
  intros H1 H2 Haw. pose proof (hdr_cc_range pkt) as CC. pose proof (hdr_len_eq pkt) as HLn.
  unfold cryptex_adjust. change octets_in_rtp_header_c with 12.
  destruct (hdr_cc pkt =? 0) eqn:E0.
  - apply Z.eqb_eq in E0. rewrite E0. change (zn (4 * 0)) with O. rewrite adjust_dst_0. apply t_ret. auto.
  - apply Z.eqb_neq in E0.
    eapply t_bind; [apply t_rd_dst; lia|intros tmp]. apply t_pure; intros (dd & Hf & _ & ->).
    eapply t_bind; [apply t_rd_dst; lia|intros csrc]. apply t_pure; intros (dd2 & Hf2 & _ & ->).
    rewrite (facts_read _ _ _ _ _ Hf) by (unfold lenZ, zn in *; lia).
    rewrite (facts_read _ _ _ _ _ Hf2) by (unfold lenZ, zn in *; lia).
    set (tmp := slice (zn (hdr_len pkt)) (zn 4) P). set (csrc := slice (zn 12) (zn (4 * hdr_cc pkt)) P).
    assert (Lt : lenZ tmp = 4) by (subst tmp; apply lenZ_slice_eq; lia).
    assert (Lc : lenZ csrc = 4 * hdr_cc pkt) by (subst csrc; apply lenZ_slice_eq; lia).
    eapply t_bind; [apply t_wr_in; [lia|lia|lia|apply (away_sub _ _ (lenZ P)); [lia|lia|exact Haw]]|intros ?].
    eapply t_post; [apply t_wr_in; [lia|rewrite lenZ_splice; lia|rewrite lenZ_splice; lia|apply (away_sub _ _ (lenZ P)); [lia|lia|exact Haw]]|].
    intros ? w Hw. unfold adjust_dst. subst tmp csrc.
    replace (zn (hdr_len pkt)) with (12 + zn (4 * hdr_cc pkt))%nat in Hw by (unfold zn; lia). exact Hw.
Qed.

Lemma t_restore_facts ss P fs E :
  hdr_len pkt + 4 <= lenZ P -> lenZ P <= C -> Forall (away 0 (lenZ P)) fs ->
  tri (S ss (facts_ok ((0, P) :: fs))) (cryptex_restore pkt)
      (fun _ => S ss (facts_ok ((0, restore_dst (zn (4 * hdr_cc pkt)) P) :: fs))) E.
Proof.
  intros H1 H2 Haw. pose proof (hdr_cc_range pkt) as CC. pose proof (hdr_len_eq pkt) as HLn.
  unfold cryptex_restore. change octets_in_rtp_header_c with 12.
  destruct (hdr_cc pkt =? 0) eqn:E0.
  - apply Z.eqb_eq in E0. rewrite E0. change (zn (4 * 0)) with O. rewrite restore_dst_0. apply t_ret. auto.
  - apply Z.eqb_neq in E0.
    eapply t_bind; [apply t_rd_dst; lia|intros tmp]. apply t_pure; intros (dd & Hf & _ & ->).
    eapply t_bind; [apply t_rd_dst; lia|intros csrc]. apply t_pure; intros (dd2 & Hf2 & _ & ->).
    rewrite (facts_read _ _ _ _ _ Hf) by (unfold lenZ, zn in *; lia).
    rewrite (facts_read _ _ _ _ _ Hf2) by (unfold lenZ, zn in *; lia).
    set (tmp := slice (zn 12) (zn 4) P). set (csrc := slice (zn (12 + 4)) (zn (4 * hdr_cc pkt)) P).
    assert (Lt : lenZ tmp = 4) by (subst tmp; apply lenZ_slice_eq; lia).
    assert (Lc : lenZ csrc = 4 * hdr_cc pkt) by (subst csrc; apply lenZ_slice_eq; lia).
    eapply t_bind; [apply t_wr_in; [lia|lia|lia|apply (away_sub _ _ (lenZ P)); [lia|lia|exact Haw]]|intros ?].
    eapply t_post; [apply t_wr_in; [lia|rewrite lenZ_splice; lia|rewrite lenZ_splice; lia|apply (away_sub _ _ (lenZ P)); [lia|lia|exact Haw]]|].
    intros ? w Hw. unfold restore_dst. subst tmp csrc.
    replace (zn (12 + 4 * hdr_cc pkt)) with (12 + zn (4 * hdr_cc pkt))%nat in Hw by (unfold zn; lia). exact Hw.
Qed.


End CXADJ.

(* ---- the three steps around the payload encryption ---- *)
Section CXREF.
Variables (L C : Z) (al : bool) (src d0 pkt : bytes).
Hypothesis HL : 0 <= L < 9223372036854775808.
Hypothesis HC : 0 <= C < 9223372036854775808.
Hypothesis HD : C <= lenZ d0.
Hypothesis Hpkt : take (zn L) (if al then d0 else src) = pkt.
Hypothesis HLp : lenZ pkt = L.

Notation S := (St L C al src d0).
Variables (ss : session) (cs1 : cstate) (fs0 : list (Z * bytes)) (iu conf : bool).
Hypothesis EV : validate_rtp pkt L = st_ok.
(* iu: cryptex is in use for this packet *)
Hypothesis Hiu : iu = true -> conf = true /\ hdr_x pkt = 1.
Hypothesis HLC : L <= C.
Hypothesis Haway : Forall (away 0 L) fs0.
Hypothesis Hcs : cs_wf cs1.

(* enc_start of the model *)
Definition es' : Z := if iu then (if al then 16 else hdr_len pkt + 4) else enc0 pkt.
(* the specification of the confidentiality transformation *)
Definition wc : bytes + Z := if iu then cx_body cs1 pkt else pay_body conf cs1 (enc0 pkt) pkt.
Definition p2_of (v : Z) : bytes := splice (zn (hdr_len pkt)) (be_bytes 2 (Z.to_N v)) pkt.

Definition Q3 (w : world) : Prop :=
  exists body, wc = inl body /\ lenZ body = L /\ S ss (facts_ok ((0, body) :: fs0)) w.
Definition Ex (s : Z) (w : world) : Prop := wc = inr s /\ S ss Dany w.

Definition R1 (cs2 : cstate) (w : world) : Prop :=
  if iu then
    exists v, cryptex_profile_of (be16 pkt (zn (hdr_len pkt))) = Some v /\
      if al then cs2 = cs1 /\ S ss (facts_ok ((0, adjust_dst (zn (4 * hdr_cc pkt)) (p2_of v)) :: fs0)) w
      else exists o1,
             (if hdr_cc pkt =? 0 then cs2 = cs1 /\ o1 = []
              else cipher_encrypt cs1 (slice 12 (zn (4 * hdr_cc pkt)) (p2_of v)) = (st_ok, cs2, o1)) /\
             S ss (facts_ok ((0, take 12 (p2_of v) ++ o1 ++ slice (zn (hdr_len pkt)) 4 (p2_of v)) :: fs0)) w
  else cs2 = cs1 /\ S ss (facts_ok ((0, P0 al pkt es') :: fs0)) w.

Definition R2 (w : world) : Prop :=
  if iu && al then
    exists v c o, cryptex_profile_of (be16 pkt (zn (hdr_len pkt))) = Some v /\
      cipher_encrypt cs1 (slice 12 (zn (4 * hdr_cc pkt)) (p2_of v) ++ drop (zn (hdr_len pkt + 4)) (p2_of v)) = (st_ok, c, o) /\
      S ss (facts_ok ((0, take 16 (adjust_dst (zn (4 * hdr_cc pkt)) (p2_of v)) ++ o) :: fs0)) w
  else Q3 w.

(* numeric facts of a validated packet with a header extension *)
Lemma cx_nums : hdr_x pkt = 1 ->
  0 <= hdr_cc pkt < 16 /\ hdr_len pkt = 12 + 4 * hdr_cc pkt /\ hdr_len pkt + 4 <= L /\
  zn (hdr_len pkt) = (12 + zn (4 * hdr_cc pkt))%nat /\ zn (hdr_len pkt + 4) = (12 + zn (4 * hdr_cc pkt) + 4)%nat.
Proof.
  intros EX. pose proof (validate_rtp_ok _ _ EV) as (V1 & V2 & V3). specialize (V3 EX).
  pose proof (hdr_cc_range pkt) as CC. pose proof (hdr_len_eq pkt) as HLn. pose proof (xtn_len_ge pkt) as XL.
  unfold zn. repeat split; lia.
Qed.

Lemma p2_len v : lenZ (p2_of v) = L.
Proof. unfold p2_of. rewrite lenZ_splice. exact HLp. Qed.

Lemma es'_bounds : 12 <= es' <= L.
Proof.
  unfold es'. destruct iu eqn:EI.
  - destruct (Hiu eq_refl) as [_ EX]. destruct (cx_nums EX) as (CC & HLn & V & _). destruct al; lia.
  - apply enc0_bounds. exact EV.
Qed.

(* step 1: profile replacement, then adjust (in place) or the CSRC list (out of place) *)
Lemma cx_step1 :
  tri (S ss (facts_ok ((0, P0 al pkt es') :: fs0)))
      (if iu then
         h <- rd_dst (hdr_len pkt) 2 ;;
         (if be16 h 0 =? xtn_hdr_one_byte_profile_c then set_profile pkt cryptex_one_byte_profile_c
          else if be16 h 0 =? xtn_hdr_two_byte_profile_c then set_profile pkt cryptex_two_byte_profile_c
          else exit_with st_parse_err) ;;;
         (if iu && al then cryptex_adjust pkt ;;; ret cs1
          else if hdr_cc pkt =? 0 then ret cs1
          else crypt_dst_region cs1 12 (4 * hdr_cc pkt))
       else ret cs1)
      R1 Ex.
Proof.
  unfold R1, Ex, wc, es'. destruct iu eqn:EI.
  2:{ apply t_ret. intros w Hw. auto. }
  destruct (Hiu eq_refl) as [EC EX]. destruct (cx_nums EX) as (CC & HLn & V & ZH & ZH4).
  cbn [andb].
  set (es := if al then 16 else hdr_len pkt + 4).
  assert (Hes : 0 <= es <= L) by (subst es; destruct al; lia).
  assert (LP0 : lenZ (P0 al pkt es) = if al then L else es) by (apply (P0_len_x L al src d0 pkt Hpkt pkt es HLp Hes)).
  assert (Hrd : forall dd a m, facts_ok ((0, P0 al pkt es) :: fs0) dd -> (a + m <= zn (hdr_len pkt + 4))%nat -> slice a m dd = slice a m pkt).
  { intros dd a m Hf Ham. rewrite (facts_read _ _ _ _ _ Hf) by (destruct al; subst es; unfold lenZ, zn in *; lia).
    unfold P0. destruct al; [reflexivity|]. apply slice_take. subst es. exact Ham. }
  eapply t_bind; [apply t_rd_dst; lia|intros h]. apply t_pure; intros (dd & Hf & _ & ->).
  change (zn 2) with 2%nat. rewrite (Hrd dd _ _ Hf) by lia. rewrite be16_slice2_0.
  (* the continuation for a supported profile *)
  assert (Hcont : forall v, cryptex_profile_of (be16 pkt (zn (hdr_len pkt))) = Some v ->
    tri (S ss (facts_ok ((0, P0 al pkt es) :: fs0)))
        (set_profile pkt v ;;;
         (if al then cryptex_adjust pkt ;;; ret cs1
          else if hdr_cc pkt =? 0 then ret cs1 else crypt_dst_region cs1 12 (4 * hdr_cc pkt)))
        (fun cs2 w => exists v, cryptex_profile_of (be16 pkt (zn (hdr_len pkt))) = Some v /\
           if al then cs2 = cs1 /\ S ss (facts_ok ((0, adjust_dst (zn (4 * hdr_cc pkt)) (p2_of v)) :: fs0)) w
           else exists o1,
             (if hdr_cc pkt =? 0 then cs2 = cs1 /\ o1 = []
              else cipher_encrypt cs1 (slice 12 (zn (4 * hdr_cc pkt)) (p2_of v)) = (st_ok, cs2, o1)) /\
             S ss (facts_ok ((0, take 12 (p2_of v) ++ o1 ++ slice (zn (hdr_len pkt)) 4 (p2_of v)) :: fs0)) w)
        (fun s w => cx_body cs1 pkt = inr s /\ S ss Dany w)).
  { intros v Ev. unfold set_profile.
    pose proof (p2_len v) as LP2. fold (p2_of v).
    assert (LB : lenZ (be_bytes 2 (Z.to_N v)) = 2) by (rewrite lenZ_be_bytes; reflexivity).
    eapply t_bind; [apply t_wr_in; [lia|destruct al; lia|destruct al; lia|
                     rewrite LB; apply (away_sub _ _ L); [lia|lia|exact Haway]]|intros ?].
    replace (splice (zn (hdr_len pkt)) (be_bytes 2 (Z.to_N v)) (P0 al pkt es)) with (P0 al (p2_of v) es).
    2:{ unfold P0, p2_of. destruct al; [reflexivity|]. apply take_splice_in. subst es. unfold lenZ, zn in *. lia. }
    unfold P0. destruct al eqn:EA.
    - (* in place *)
      eapply t_bind; [apply t_adjust_facts; [exact HD|lia|lia|rewrite LP2; exact Haway]|intros ?].
      apply t_ret. intros w Hw. exists v. auto.
    - (* out of place *)
      subst es. rewrite ZH4.
      rewrite (header_split (zn (4 * hdr_cc pkt)) (p2_of v)) by (unfold lenZ, zn in *; lia).
      rewrite <- ZH.
      destruct (hdr_cc pkt =? 0) eqn:E0.
      + apply t_ret. intros w Hw. exists v. split; [exact Ev|]. exists []. split; [auto|].
        apply Z.eqb_eq in E0. rewrite E0 in Hw. exact Hw.
      + unfold crypt_dst_region.
        set (Hh := take 12 (p2_of v)) in *. set (Cs := slice 12 (zn (4 * hdr_cc pkt)) (p2_of v)) in *.
        set (X := slice (zn (hdr_len pkt)) 4 (p2_of v)) in *.
        assert (LHh : length Hh = 12%nat) by (subst Hh; rewrite take_length; unfold lenZ, zn in *; lia).
        assert (LCs : length Cs = zn (4 * hdr_cc pkt)) by (subst Cs; rewrite slice_length; unfold lenZ, zn in *; lia).
        assert (LX : length X = 4%nat) by (subst X; rewrite slice_length; unfold lenZ, zn in *; lia).
        eapply t_bind; [apply t_rd_dst; lia|intros d]. apply t_pure; intros (dd2 & Hf2 & _ & ->).
        rewrite (facts_read _ _ _ _ _ Hf2) by (rewrite !app_length; unfold zn in *; lia).
        change (zn 12) with 12%nat.
        rewrite (slice_mid Hh Cs X 12 _ LHh LCs).
        pose proof (cipher_encrypt_app cs1 Cs (drop (zn (hdr_len pkt + 4)) (p2_of v)) Hcs) as CA.
        assert (LCT : lenZ (Cs ++ drop (zn (hdr_len pkt + 4)) (p2_of v)) + 15 < 18446744073709551616).
        { rewrite lenZ_app. unfold lenZ in *. rewrite drop_length, LCs. unfold zn in *. lia. }
        specialize (CA LCT).
        destruct (cipher_encrypt cs1 Cs) as [[s1 c1] o1] eqn:EE1.
        destruct (s1 =? st_ok) eqn:ES1; cbn [negb].
        * pose proof (cipher_encrypt_ok_length _ _ _ _ _ EE1 ES1) as Lo1.
          eapply t_bind; [apply t_wr_in; [lia|rewrite !lenZ_app; unfold lenZ in *; lia|rewrite !lenZ_app; unfold lenZ, zn in *; lia|
                           apply (away_sub _ _ L); [lia|unfold lenZ, zn in *; lia|exact Haway]]|intros ?].
          apply t_ret. intros w Hw. exists v. split; [exact Ev|]. exists o1. split.
          { apply Z.eqb_eq in ES1. subst s1. exact EE1. }
          rewrite (splice_mid Hh Cs X o1 (zn 12) LHh Lo1) in Hw. exact Hw.
        * apply t_exit. intros w Hw. split; [|exact (St_any _ _ _ _ _ _ _ _ Hw)].
          unfold cx_body. rewrite Ev. cbv zeta. fold (p2_of v). fold Cs.
          destruct (cipher_encrypt cs1 (Cs ++ drop (zn (hdr_len pkt + 4)) (p2_of v))) as [[s3 c3] o3].
          cbn [fst] in CA. rewrite CA. reflexivity. }
  destruct (be16 pkt (zn (hdr_len pkt)) =? xtn_hdr_one_byte_profile_c) eqn:E1.
  { apply (Hcont cryptex_one_byte_profile_c). unfold cryptex_profile_of. rewrite E1. reflexivity. }
  destruct (be16 pkt (zn (hdr_len pkt)) =? xtn_hdr_two_byte_profile_c) eqn:E2.
  { apply (Hcont cryptex_two_byte_profile_c). unfold cryptex_profile_of. rewrite E1, E2. reflexivity. }
  apply t_bind_exit. intros w Hw. split; [|exact (St_any _ _ _ _ _ _ _ _ Hw)].
  unfold cx_body, cryptex_profile_of. rewrite E1, E2. reflexivity.
Qed.

(* step 2: the payload encryption *)
Lemma cx_step2 cs2 :
  tri (R1 cs2)
      (if conf then
         d <- rd_src es' (L - es') ;;
         (let '(s, _, o) := cipher_encrypt cs2 d in
          if negb (s =? st_ok) then exit_with st_cipher_fail else wr_dst es' o)
       else if al then ret tt
       else (d <- rd_src es' (L - es') ;; wr_dst es' d))
      (fun _ => R2) Ex.
Proof.
  unfold R1, R2, Ex, Q3, wc, es'. destruct iu eqn:EI.
  2:{ cbn [andb]. apply t_pure; intros ->.
      apply (payload_step L C al src d0 pkt HD Hpkt HLp ss conf cs1 (enc0 pkt) fs0);
        [pose proof (enc0_bounds _ _ EV); lia|exact HLC|exact Haway]. }
  destruct (Hiu eq_refl) as [EC EX]. destruct (cx_nums EX) as (CC & HLn & V & ZH & ZH4).
  rewrite EC. cbn [andb]. apply t_ex; intros v. apply t_pure; intros Ev.
  pose proof (p2_len v) as LP2.
  set (p2 := p2_of v) in *. set (nn := zn (4 * hdr_cc pkt)) in *.
  assert (LP2n : (12 + nn + 4 <= length p2)%nat) by (subst nn; unfold lenZ, zn in *; lia).
  assert (HT : drop (zn (hdr_len pkt + 4)) p2 = drop (zn (hdr_len pkt + 4)) pkt).
  { subst p2. unfold p2_of. apply drop_splice_above. rewrite be_bytes_length. unfold zn in *. lia. }
  unfold cx_body. rewrite Ev. cbv zeta. fold (p2_of v). fold p2. fold nn.
  destruct al eqn:EA.
  - (* in place: one run from offset 16 *)
    apply t_pure; intros ->.
    destruct (inplace_layout nn p2 LP2n) as (ED & LT16 & _).
    set (A := adjust_dst nn p2) in *.
    assert (LA : lenZ A = L) by (subst A; unfold adjust_dst, lenZ; rewrite !splice_length; exact LP2).
    eapply t_bind; [apply t_rd_src; lia|intros d]. apply t_pure; intros (dd & Hf & _ & ->).
    rewrite (facts_read _ _ _ _ _ Hf) by (unfold lenZ, zn in *; lia).
    rewrite slice_to_end by (unfold lenZ, zn in *; lia).
    change (zn 16) with 16%nat. rewrite ED. rewrite <- ZH4.
    destruct (cipher_encrypt cs1 (slice 12 nn p2 ++ drop (zn (hdr_len pkt + 4)) p2)) as [[s c] o] eqn:EE.
    destruct (s =? st_ok) eqn:ES; cbn [negb].
    + pose proof (cipher_encrypt_ok_length _ _ _ _ _ EE ES) as Lo.
      assert (Lo' : lenZ o = L - 16).
      { unfold lenZ in *. rewrite Lo, app_length, slice_length, drop_length. unfold zn in *. lia. }
      eapply t_post; [apply t_wr_in; [lia|lia|lia|rewrite Lo'; apply (away_sub _ _ L); [lia|lia|exact Haway]]|].
      intros ? w Hw. exists v, c, o. split; [reflexivity|]. split; [apply Z.eqb_eq in ES; subst s; exact EE|].
      rewrite splice_tail in Hw by (unfold lenZ, zn in *; lia). exact Hw.
    + apply t_exit. intros w Hw. split; [reflexivity|exact (St_any _ _ _ _ _ _ _ _ Hw)].
  - (* out of place: the CSRC list is done, the rest comes from the source *)
    apply t_ex; intros o1. apply t_pure; intros HO1.
    set (Hh := take 12 p2) in *. set (Cs := slice 12 nn p2) in *. set (X := slice (zn (hdr_len pkt)) 4 p2) in *.
    set (T := drop (zn (hdr_len pkt + 4)) p2) in *.
    assert (LHh : length Hh = 12%nat) by (subst Hh; rewrite take_length; lia).
    assert (LCs : length Cs = nn) by (subst Cs; rewrite slice_length; lia).
    assert (LX : length X = 4%nat) by (subst X; rewrite slice_length; unfold zn in *; lia).
    assert (LTT : lenZ T = L - hdr_len pkt - 4) by (subst T; unfold lenZ in *; rewrite drop_length; unfold zn in *; lia).
    (* what the two cipher calls of the model say about the one call of the specification *)
    assert (K : length o1 = nn /\
                match cipher_encrypt cs2 T with
                | (s2, c2, o2) => if s2 =? st_ok then cipher_encrypt cs1 (Cs ++ T) = (st_ok, c2, o1 ++ o2)
                                  else (fst (fst (cipher_encrypt cs1 (Cs ++ T))) =? st_ok) = false
                end).
    { destruct (hdr_cc pkt =? 0) eqn:E0.
      - destruct HO1 as [-> ->]. apply Z.eqb_eq in E0.
        assert (nn = O) as Enn by (subst nn; rewrite E0; reflexivity).
        split; [symmetry; exact Enn|]. assert (Cs = []) as -> by (apply length0_nil; lia). cbn [app].
        destruct (cipher_encrypt cs1 T) as [[s2 c2] o2] eqn:E2. destruct (s2 =? st_ok) eqn:ES2; cbn [fst]; [|exact ES2].
        apply Z.eqb_eq in ES2. subst s2. reflexivity.
      - pose proof (cipher_encrypt_app cs1 Cs T Hcs) as CA.
        assert (LCT : lenZ (Cs ++ T) + 15 < 18446744073709551616) by (rewrite lenZ_app; unfold lenZ in *; lia).
        specialize (CA LCT). rewrite HO1 in CA. change (st_ok =? st_ok) with true in CA. cbv iota in CA.
        split; [|exact CA].
        rewrite (cipher_encrypt_ok_length _ _ _ _ _ HO1 eq_refl). exact LCs. }
    destruct K as [Lo1 K].
    eapply t_bind; [apply t_rd_src; lia|intros d]. apply t_pure; intros (dd & Hf & _ & ->).
    rewrite (in_slice L false src d0 pkt Hpkt) by lia.
    rewrite slice_to_end by (unfold lenZ, zn in *; lia). rewrite <- HT. fold T.
    destruct (cipher_encrypt cs2 T) as [[s2 c2] o2] eqn:E2.
    destruct (s2 =? st_ok) eqn:ES2; cbn [negb].
    + rewrite K. change (st_ok =? st_ok) with true. cbn [negb].
      pose proof (cipher_encrypt_ok_length _ _ _ _ _ E2 ES2) as Lo2.
      assert (LPre : lenZ (Hh ++ o1 ++ X) = hdr_len pkt + 4) by (rewrite !lenZ_app; unfold lenZ, zn in *; lia).
      replace (wr_dst (hdr_len pkt + 4) o2) with (wr_dst (lenZ (Hh ++ o1 ++ X)) o2) by (rewrite LPre; reflexivity).
      eapply t_post; [apply t_wr_append; [exact HD|unfold lenZ in *; lia|
                       rewrite LPre; apply (away_sub _ _ L); [lia|unfold lenZ in *; lia|exact Haway]]|].
      intros ? w Hw. eexists. split; [reflexivity|].
      rewrite (XtnProofs.take_app_exact o1 o2 nn Lo1), (XtnProofs.drop_app_exact o1 o2 nn Lo1).
      split; [rewrite !lenZ_app; unfold lenZ, zn in *; lia|].
      rewrite <- !app_assoc in Hw. exact Hw.
    + apply t_exit. intros w Hw. split; [|exact (St_any _ _ _ _ _ _ _ _ Hw)].
      destruct (cipher_encrypt cs1 (Cs ++ T)) as [[s3 c3] o3]. cbn [fst] in K. rewrite K. reflexivity.
Qed.

(* step 3: the restore shuffle *)
Lemma cx_step3 :
  tri R2 (if iu && al then cryptex_restore pkt else ret tt) (fun _ => Q3) Ex.
Proof.
  unfold R2. destruct (iu && al) eqn:EIA.
  2:{ apply t_ret. auto. }
  apply andb_true_iff in EIA. destruct EIA as [EI EA].
  destruct (Hiu EI) as [EC EX]. destruct (cx_nums EX) as (CC & HLn & V & ZH & ZH4).
  apply t_ex; intros v. apply t_ex; intros c. apply t_ex; intros o. apply t_pure; intros Ev. apply t_pure; intros EE.
  pose proof (p2_len v) as LP2.
  set (p2 := p2_of v) in *. set (nn := zn (4 * hdr_cc pkt)) in *.
  assert (LP2n : (12 + nn + 4 <= length p2)%nat) by (subst nn; unfold lenZ, zn in *; lia).
  destruct (inplace_layout nn p2 LP2n) as (ED & LT16 & ER).
  pose proof (cipher_encrypt_ok_length _ _ _ _ _ EE eq_refl) as Lo.
  assert (Lo' : length o = (length p2 - 16)%nat).
  { rewrite Lo, app_length, slice_length, drop_length. unfold lenZ, zn in *. lia. }
  specialize (ER o Lo').
  assert (LPP : lenZ (take 16 (adjust_dst nn p2) ++ o) = L) by (rewrite lenZ_app; unfold lenZ in *; lia).
  eapply t_post; [apply t_restore_facts; [exact HD|lia|lia|rewrite LPP; exact Haway]|].
  intros ? w Hw. fold nn in Hw. rewrite ER in Hw.
  unfold Q3, wc. rewrite EI. unfold cx_body. rewrite Ev. cbv zeta. fold (p2_of v). fold p2. fold nn.
  rewrite EE. change (st_ok =? st_ok) with true. cbn [negb].
  eexists. split; [reflexivity|]. rewrite ZH. split; [|exact Hw].
  rewrite <- ER. unfold restore_dst, lenZ. rewrite !splice_length. exact LPP.
Qed.

End CXREF.

(* ===================================================================== *)
(* 4. srtp_protect, cryptex streams without a header-extension cipher       *)
(* ===================================================================== *)
Section RTP_REF_CX.
Variables (L C : Z) (al : bool) (src d0 pkt : bytes).
Hypothesis HL : 0 <= L < 9223372036854775808.
Hypothesis HC : 0 <= C < 9223372036854775808.
Hypothesis HD : C <= lenZ d0.
Hypothesis Hpkt : take (zn L) (if al then d0 else src) = pkt.
Hypothesis HLp : lenZ pkt = L.

Notation S := (St L C al src d0).

Lemma Hpkt_bc : take (zn L) (cur_src (b_init L C al src d0)) = pkt.
Proof. exact Hpkt. Qed.
Ltac norm_b :=
  change (b_len (b_init L C al src d0)) with L;
  change (b_cap (b_init L C al src d0)) with C;
  change (b_alias (b_init L C al src d0)) with al;
  rewrite ?Hpkt_bc.
Ltac away_tac := repeat (apply Forall_cons || apply Forall_nil); unfold away; cbn [fst snd]; lia.

Variable ss0 : session.
Variable st0 : stream.
Hypothesis Hget : list_get (ss_list ss0) (hdr_ssrc pkt) = Some st0.
Hypothesis Hwf : stream_wf st0.
(* this section: cryptex, no header-extension cipher *)
Hypothesis Hcx : s_cryptex st0 = true.
Hypothesis Hxk : forall k, In k (s_keys st0) -> k_xtn_c k = None.

Notation ProtQ := (ProtQ C src pkt ss0).
Notation ProtE := (ProtE C src pkt ss0).

Lemma prot_exit_c ss D i s w : S ss D w -> protect_fun ss0 i C pkt = (ss, inr s) -> ProtE i s w.
Proof. apply prot_exit. Qed.

(* enc_start as srtp_cryptex_protect_init computes it *)
Lemma enc_start_eq (iu : bool) (conf : bool) :
  validate_rtp pkt L = st_ok -> (iu = true -> conf = true /\ hdr_x pkt = 1) ->
  (if iu then u64 (u64 (enc0 pkt - (xtn_len pkt - 4)) - (if iu && al then hdr_cc pkt * 4 else 0)) else enc0 pkt) = es' al pkt iu.
Proof.
  intros EV Hiu. unfold es'. destruct iu; [|reflexivity]. destruct (Hiu eq_refl) as [_ EX].
  pose proof (validate_rtp_ok _ _ EV) as (V1 & V2 & V3). specialize (V3 EX).
  pose proof (hdr_cc_range pkt) as CC. pose proof (hdr_len_eq pkt) as HLn. pose proof (xtn_len_ge pkt) as XL.
  unfold enc0. rewrite EX. change (1 =? 1) with true. cbn [andb]. cbv iota.
  rewrite (u64_small (hdr_len pkt + xtn_len pkt - (xtn_len pkt - 4))) by lia.
  destruct al; rewrite u64_small by lia; lia.
Qed.

Lemma protect_tri_c i : tri (S ss0 (eq d0)) (protect i) (ProtQ i) (ProtE i).
Proof.
  pose proof (eq_refl (protect_fun ss0 i C pkt)) as SPEC. unfold protect_fun at 2 in SPEC.
  cbv zeta in SPEC. rewrite HLp in SPEC.
  unfold protect.
  eapply t_bind; [apply t_get_b0|intros b]. apply t_pure; intros ->.
  cbv beta zeta. norm_b.
  change octets_in_rtp_header_c with 12. change octets_in_rtp_xtn_hdr_c with 4.
  unfold check_st. destruct (validate_rtp pkt L =? st_ok) eqn:EV; cbn [negb] in SPEC.
  2:{ apply t_bind_exit. intros w Hw. exact (prot_exit_c _ _ _ _ _ Hw SPEC). }
  apply t_bind_ret. apply Z.eqb_eq in EV.
  rewrite Hget in SPEC. cbv beta iota in SPEC.
  eapply t_bind; [eapply t_lookup_existing; exact Hget|intros r]. apply t_pure; intros ->.
  eapply t_bind; [eapply t_check_direction; exact Hget|intros ?].
  eapply t_bind; [apply t_get_stream_list; apply dir_session_get; exact Hget|intros st]. apply t_pure; intros Est.
  rewrite <- Est in SPEC.
  set (ss1 := dir_session ss0 (hdr_ssrc pkt) st0 dir_srtp_sender_c) in *.
  pose proof (dir_stream_cfg st0 dir_srtp_sender_c) as CF. rewrite <- Est in CF.
  assert (Wst : stream_wf st) by exact (stream_wf_cfg _ _ CF Hwf).
  destruct CF as (CK & _ & _ & CX). rewrite Hcx in CX.
  rewrite keys_by_index_eq. destruct (sender_key_st st i) as [[ki k]|e] eqn:EK.
  2:{ apply t_bind_exit. intros w Hw. exact (prot_exit_c _ _ _ _ _ Hw SPEC). }
  apply t_bind_ret. cbv beta iota.
  pose proof (sender_key_st_In _ _ _ _ EK) as Hk.
  pose proof (stream_wf_key _ _ Wst Hk) as (MK & TA & _).
  assert (XK : k_xtn_c k = None) by (apply Hxk; rewrite <- CK; exact Hk).
  destruct Wst as (M & U & _). rewrite max_mki_value in M.
  pose proof (akey_prefix_le _ TA) as PL. pose proof TA as [T KP]. rewrite max_tag_value in T.
  (* key usage *)
  eapply t_bind2; [eapply t_charge_key; apply dir_session_get; exact Hget| |intros ?].
  { intros s w (ss' & EC & Hw). rewrite <- Est in EC. rewrite EC in SPEC. exact (prot_exit_c _ _ _ _ _ Hw SPEC). }
  apply t_ex; intros ss2. apply t_pure; intros EC. apply t_pure; intros Hg2.
  rewrite <- Est in EC, Hg2. rewrite EC in SPEC.
  destruct (C <? L + s_mki_size st + ak_tag (k_rtp_a k)) eqn:E1.
  { apply t_bind_exit. intros w Hw. exact (prot_exit_c _ _ _ _ _ Hw SPEC). }
  apply t_bind_ret. pose proof E1 as E1'. apply Z.ltb_ge in E1'.
  (* srtp_cryptex_protect_init *)
  rewrite CX in *. cbn [andb] in SPEC |- *.
  change (negb (Z.land (s_rtp_serv st) sec_serv_conf_c =? 0)) with (rtp_conf st).
  destruct (rtp_conf st && negb (hdr_cc pkt =? 0) && (hdr_x pkt =? 0)) eqn:ECE.
  { apply t_bind_exit. intros w Hw. exact (prot_exit_c _ _ _ _ _ Hw SPEC). }
  apply t_bind_ret.
  fold (enc0 pkt).
  set (iu := rtp_conf st && (hdr_x pkt =? 1)) in *.
  assert (HIU : iu = true -> rtp_conf st = true /\ hdr_x pkt = 1).
  { subst iu. intros H. apply andb_true_iff in H. destruct H as [H1 H2]. apply Z.eqb_eq in H2. auto. }
  rewrite (enc_start_eq iu (rtp_conf st) EV HIU).
  pose proof (es'_bounds L al src d0 pkt Hpkt iu (rtp_conf st) EV HIU) as EB.
  set (es := es' al pkt iu) in *.
  destruct (L <? es) eqn:E2; [apply Z.ltb_lt in E2; lia|]. apply t_bind_ret.
  (* header *)
  eapply t_bind; [apply (header_copy L C al src d0 pkt HD Hpkt HLp); lia|intros ?].
  (* MKI *)
  set (mki := if s_use_mki st then k_mki k else []).
  assert (LM : lenZ mki = s_mki_size st).
  { subst mki. destruct (s_use_mki st); [exact MK|]. rewrite (U eq_refl). reflexivity. }
  assert (LP : lenZ (P0 al pkt es) <= L) by (rewrite (P0_len_x L al src d0 pkt Hpkt pkt es HLp) by lia; destruct al; lia).
  apply t_bind with (R := fun _ => S ss2 (facts_ok [(L, mki); (0, P0 al pkt es)])).
  { subst mki. destruct (s_use_mki st) eqn:EU.
    - apply t_wr_facts; [exact HD|lia|lia|away_tac].
    - apply t_ret. intros w Hw. eapply St_weaken; [|exact Hw]. intros dd _ Hf. apply facts_nil_fact; [lia|exact Hf]. }
  intros ?.
  (* zeroed tag without authentication *)
  change (negb (Z.land (s_rtp_serv st) sec_serv_auth_c =? 0)) with (rtp_auth st).
  set (Z0 := if rtp_auth st then [] else zeros (zn (ak_tag (k_rtp_a k)))).
  assert (LZ0 : lenZ Z0 = if rtp_auth st then 0 else ak_tag (k_rtp_a k)).
  { subst Z0. destruct (rtp_auth st); [reflexivity|apply lenZ_zeros; lia]. }
  apply t_bind with (R := fun _ => S ss2 (facts_ok [(L + s_mki_size st, Z0); (L, mki); (0, P0 al pkt es)])).
  { subst Z0. destruct (rtp_auth st).
    - apply t_ret. intros w Hw. eapply St_weaken; [|exact Hw]. intros dd _ Hf. apply facts_nil_fact; [lia|exact Hf].
    - apply t_wr_facts; [exact HD|lia|lia|away_tac]. }
  intros ?.
  (* index *)
  eapply t_bind; [apply t_get_stream_list; exact Hg2|intros st2]. apply t_pure; intros ->.
  set (st2 := charged_stream st ki) in *.
  unfold index_step in SPEC. destruct (est_index st2 (hdr_seq pkt)) as [[est_st est] delta].
  destruct (negb (est_st =? st_ok) && negb (est_st =? st_pkt_idx_adv)).
  { apply t_bind_exit. intros w Hw. exact (prot_exit_c _ _ _ _ _ Hw SPEC). }
  apply t_bind_ret.
  apply t_bind with (R := fun _ w =>
    exists st3, (if est_st =? st_pkt_idx_adv then inl (est, commit_advance st2 est)
                 else if negb (rdbx_check (s_rdbx st2) delta =? st_ok) &&
                         (negb (rdbx_check (s_rdbx st2) delta =? st_replay_fail) || negb (s_allow_repeat st2))
                      then inr (rdbx_check (s_rdbx st2) delta)
                      else inl (est, set_pending (set_rdbx st2 (rdbx_add (s_rdbx st2) delta)) 0)) = inl (est, st3) /\
                S (sess_put ss2 (hdr_ssrc pkt) st3) (facts_ok [(L + s_mki_size st, Z0); (L, mki); (0, P0 al pkt es)]) w).
  { destruct (est_st =? st_pkt_idx_adv).
    - eapply t_post; [apply t_put_stream_list|]. intros ? w Hw. eexists. split; [reflexivity|exact Hw].
    - destruct (negb (rdbx_check (s_rdbx st2) delta =? st_ok) &&
                (negb (rdbx_check (s_rdbx st2) delta =? st_replay_fail) || negb (s_allow_repeat st2))).
      + apply t_bind_exit. intros w Hw. exact (prot_exit_c _ _ _ _ _ Hw SPEC).
      + apply t_bind_ret. eapply t_post; [apply t_put_stream_list|]. intros ? w Hw. eexists. split; [reflexivity|exact Hw]. }
  intros ?. apply t_ex; intros st3. apply t_pure; intros E3. cbv zeta in SPEC. rewrite E3 in SPEC.
  set (ss3 := sess_put ss2 (hdr_ssrc pkt) st3) in *.
  eapply t_bind; [apply t_log_encrypt_iv|intros ?].
  rewrite XK. apply t_bind_ret.
  (* the wire function, unfolded as far as the checks passed so far allow *)
  unfold rtp_wire_r in SPEC. rewrite HLp in SPEC.
  replace (validate_rtp pkt L =? st_ok) with true in SPEC by (symmetry; apply Z.eqb_eq; exact EV).
  rewrite CX, XK in SPEC. cbn [andb] in SPEC. rewrite ECE in SPEC. cbn [negb wire_xtn] in SPEC.
  set (iv := rtp_iv (ck_alg (k_rtp_c k)) (hdr_ssrc pkt) est) in *.
  (* keystream prefix *)
  assert (WF0 : cs_wf (cipher_start (k_rtp_c k) iv)) by (subst iv; apply cs_wf_start).
  pose proof (wire_prefix_wf (rtp_auth st) (k_rtp_a k) (cipher_start (k_rtp_c k) iv)) as WFP.
  unfold wire_prefix in SPEC, WFP.
  apply t_bind with (R := fun cs1 w =>
     exists pre, (if rtp_auth st && negb (ak_prefix (k_rtp_a k) =? 0)
                  then let '(s, cs', ks) := cipher_output (cipher_start (k_rtp_c k) iv) (ak_prefix (k_rtp_a k)) in
                       if negb (s =? st_ok) then None else Some (cs', ks)
                  else Some (cipher_start (k_rtp_c k) iv, [])) = Some (cs1, pre) /\
                 lenZ pre = (if rtp_auth st then ak_prefix (k_rtp_a k) else 0) /\
                 S ss3 (facts_ok [(L + s_mki_size st, pre); (L + s_mki_size st, Z0); (L, mki); (0, P0 al pkt es)]) w).
  { destruct (rtp_auth st && negb (ak_prefix (k_rtp_a k) =? 0)) eqn:EPX.
    - apply andb_true_iff in EPX. destruct EPX as [EA _]. rewrite EA in *.
      destruct (cipher_output (cipher_start (k_rtp_c k) iv) (ak_prefix (k_rtp_a k))) as [[ps cs'] ks] eqn:EP.
      destruct (ps =? st_ok) eqn:EPS; cbn [negb] in *.
      2:{ apply t_exit. intros w Hw. exact (prot_exit_c _ _ _ _ _ Hw SPEC). }
      assert (LK : lenZ ks = ak_prefix (k_rtp_a k)).
      { pose proof (cipher_output_ok_length _ _ _ _ _ EP EPS) as H. unfold lenZ, zn in *. lia. }
      eapply t_bind; [apply t_wr_facts; [exact HD|lia|lia|away_tac]|intros ?].
      apply t_ret. intros w Hw. exists ks. auto.
    - apply t_ret. intros w Hw. exists []. split; [reflexivity|]. split.
      + destruct (rtp_auth st); [|reflexivity]. cbn [andb] in EPX. apply negb_false_iff, Z.eqb_eq in EPX. rewrite EPX. reflexivity.
      + eapply St_weaken; [|exact Hw]. intros dd _ Hf. apply facts_nil_fact; [lia|exact Hf]. }
  intros cs1. apply t_ex; intros pre. apply t_pure; intros EPRE. apply t_pure; intros LPRE.
  assert (WF1 : cs_wf cs1) by (apply (WFP cs1 pre WF0); [lia|exact EPRE]).
  rewrite EPRE in SPEC. apply t_bind_ret.
  rewrite (wire_crypt_cx st _ _ CX) in SPEC. fold iu in SPEC.
  change (if iu then cx_body cs1 pkt else pay_body (rtp_conf st) cs1 (enc0 pkt) pkt) with (wc pkt cs1 iu (rtp_conf st)) in SPEC.
  (* srtp_cryptex_protect, payload, srtp_cryptex_protect_cleanup *)
  replace (negb (Z.land (s_rtp_serv st2) sec_serv_conf_c =? 0)) with (rtp_conf st)
    by (unfold rtp_conf, st2; rewrite charged_serv; reflexivity).
  set (fs0 := [(L + s_mki_size st, pre); (L + s_mki_size st, Z0); (L, mki)]).
  assert (AW : Forall (away 0 L) fs0) by (subst fs0; away_tac).
  assert (HLC : L <= C) by lia.
  eapply t_bind2; [eapply t_weaken; [|apply (cx_step1 L C al src d0 pkt HL HC HD Hpkt HLp ss3 cs1 fs0 iu (rtp_conf st) EV HIU HLC AW WF1)]| |intros cs2].
  { intros dd _ Hf. apply (facts_sub _ _ _ Hf). intros f Hin; cbn in *; tauto. }
  { intros s w (EW & Hw). rewrite EW in SPEC. exact (prot_exit_c _ _ _ _ _ Hw SPEC). }
  eapply t_bind2; [apply (cx_step2 L C al src d0 pkt HL HD Hpkt HLp ss3 cs1 fs0 iu (rtp_conf st) EV HIU HLC AW WF1)| |intros ?].
  { intros s w (EW & Hw). rewrite EW in SPEC. exact (prot_exit_c _ _ _ _ _ Hw SPEC). }
  eapply t_bind2; [apply (cx_step3 L C al src d0 pkt HD HLp ss3 cs1 fs0 iu (rtp_conf st) EV HIU HLC AW)| |intros ?].
  { intros s w (EW & Hw). rewrite EW in SPEC. exact (prot_exit_c _ _ _ _ _ Hw SPEC). }
  unfold Q3. apply t_ex; intros body. apply t_pure; intros EBD. apply t_pure; intros LB.
  rewrite EBD in SPEC. cbv beta iota in SPEC. subst fs0.
  (* tag *)
  unfold wire_tag in SPEC. cbv zeta in SPEC. fold mki in SPEC.
  set (roc := take 4 (be64 (est * 65536))) in *.
  apply t_bind with (R := fun _ w =>
    exists tag, (if rtp_auth st then auth_compute (k_rtp_a k) (body ++ roc) ++ drop (length (auth_compute (k_rtp_a k) (body ++ roc))) pre
                 else zeros (zn (ak_tag (k_rtp_a k)))) = tag /\ lenZ tag = ak_tag (k_rtp_a k) /\
                S ss3 (facts_ok [(L + s_mki_size st, tag); (L, mki); (0, body)]) w).
  { subst Z0. destruct (rtp_auth st) eqn:EA.
    - eapply t_bind; [apply t_rd_dst; lia|intros m]. apply t_pure; intros (dd & Hf & Hdl & ->).
      assert (Hm : slice (zn 0) (zn L) dd = body).
      { change (zn 0) with O. rewrite <- LB, zn_len. apply (fact_get _ _ 0 _ Hf). cbn; tauto. }
      rewrite Hm. set (c := auth_compute (k_rtp_a k) (body ++ roc)) in *.
      assert (KT : (lenZ c = ak_tag (k_rtp_a k) /\ ak_prefix (k_rtp_a k) = 0) \/
                   (lenZ c = 0 /\ ak_prefix (k_rtp_a k) = ak_tag (k_rtp_a k))).
      { subst c. rewrite auth_compute_length by lia. destruct (ak_kind (k_rtp_a k) =? SRTP_HMAC_SHA1_c); auto. }
      eapply t_post; [apply t_wr_facts; [exact HD|lia|lia|destruct KT as [[K1 K2]|[K1 K2]]; away_tac]|].
      intros ? w Hw. eexists. split; [reflexivity|].
      destruct KT as [[K1 K2]|[K1 K2]].
      + assert (pre = []) as -> by (apply length0_nil; unfold lenZ in *; lia).
        replace (drop (length c) []) with (@nil N) by (destruct (length c); reflexivity). rewrite app_nil_r.
        split; [exact K1|]. eapply St_weaken; [|exact Hw]. intros d1 _ Hf1. apply (facts_sub _ _ _ Hf1).
        intros f Hin; cbn in *; tauto.
      + assert (c = []) as Ec by (apply length0_nil; unfold lenZ in *; lia).
        rewrite Ec. cbn [length drop app]. split; [lia|]. eapply St_weaken; [|exact Hw]. intros d1 _ Hf1. apply (facts_sub _ _ _ Hf1).
        intros f Hin; cbn in *; tauto.
    - apply t_ret. intros w Hw. eexists. split; [reflexivity|]. split; [apply lenZ_zeros; lia|].
      eapply St_weaken; [|exact Hw]. intros d1 _ Hf1. apply (facts_sub _ _ _ Hf1). intros f Hin; cbn in *; tauto. }
  intros ?. apply t_ex; intros tag. apply t_pure; intros ETAG. apply t_pure; intros LTAG.
  apply t_ret. intros w Hw. destruct Hw as (h0 & h1 & h2 & h3 & h4 & h5 & h6 & h7).
  exists (body ++ mki ++ tag). rewrite h0. split; [rewrite <- ETAG; exact SPEC|].
  assert (LW : lenZ (body ++ mki ++ tag) = L + s_mki_size st + ak_tag (k_rtp_a k)) by (rewrite !lenZ_app; lia).
  unfold st2. rewrite charged_mki.
  replace (es + (L - es) + ak_tag (k_rtp_a k) + s_mki_size st) with (lenZ (body ++ mki ++ tag)) by lia.
  rewrite u64_small by lia. split; [reflexivity|]. split; [|auto].
  rewrite zn_len, <- slice_0.
  replace (body ++ mki ++ tag) with (concat [body; mki; tag]) by (cbn [concat]; rewrite app_nil_r; reflexivity).
  apply (chain_slice _ 0); [lia|]. cbn [chain]. rewrite LB, LM.
  repeat split; apply (fact_get _ _ _ _ h7); cbn; tauto.
Qed.
End RTP_REF_CX.

(* ===================================================================== *)
(* 5. the theorems on worlds                                              *)
(* ===================================================================== *)
(* the class of this file: cryptex, no header-extension cipher.  (The combined class is alias
   DEPENDENT: protect_alias_cryptex_xtn_refuted in RtpSpecProofs.v.) *)
Definition cryptex_stream (st : stream) : Prop :=
  s_cryptex st = true /\ forall k, In k (s_keys st) -> k_xtn_c k = None.

(* REFINEMENT: srtp_protect computes protect_fun, whatever the alias mode and the prefill *)
Theorem protect_refines_cryptex i w st0 :
  call_ok w ->
  list_get (ss_list (w_s w)) (hdr_ssrc (in_pkt w)) = Some st0 -> stream_wf st0 -> cryptex_stream st0 ->
  match protect i w with
  | (w', inl l) =>
      exists wire, protect_fun (w_s w) i (b_cap (w_b w)) (in_pkt w) = (w_s w', inl wire) /\
                   l = lenZ wire /\ take (zn l) (b_dst (w_b w')) = wire /\
                   b_src (w_b w') = b_src (w_b w) /\ b_oob (w_b w') = false
  | (w', inr s) =>
      protect_fun (w_s w) i (b_cap (w_b w)) (in_pkt w) = (w_s w', inr s) /\
      b_src (w_b w') = b_src (w_b w) /\ b_oob (w_b w') = false
  end.
Proof.
  intros (HO & HL & HC & HD & HS) Hget Hwf [Hcx Hxk].
  assert (HLp : lenZ (in_pkt w) = b_len (w_b w)).
  { unfold in_pkt, lenZ, zn, size_ok in *. rewrite take_length. lia. }
  pose proof (protect_tri_c (b_len (w_b w)) (b_cap (w_b w)) (b_alias (w_b w)) (b_src (w_b w)) (b_dst (w_b w))
                (in_pkt w) HL HC HD eq_refl HLp (w_s w) st0 Hget Hwf Hcx Hxk i w (St_init w HO)) as T.
  destruct (protect i w) as [w' [l|s]]; exact T.
Qed.
Print Assumptions protect_refines_cryptex.

(* C12 (SRTP protect): the same packet protected in place and out of place (whatever the
   destination block held): same status, same length, same output octets, same final
   session; the out-of-place call leaves its source alone. *)
Theorem protect_alias_independent_cryptex i wa wo st0 :
  call_ok wa -> call_ok wo ->
  b_alias (w_b wa) = true -> b_alias (w_b wo) = false ->
  w_s wa = w_s wo -> b_cap (w_b wa) = b_cap (w_b wo) -> in_pkt wa = in_pkt wo ->
  list_get (ss_list (w_s wa)) (hdr_ssrc (in_pkt wa)) = Some st0 -> stream_wf st0 -> cryptex_stream st0 ->
  w_s (fst (protect i wa)) = w_s (fst (protect i wo)) /\
  b_src (w_b (fst (protect i wo))) = b_src (w_b wo) /\
  match snd (protect i wa), snd (protect i wo) with
  | inl la, inl lo =>
      la = lo /\ take (zn la) (b_dst (w_b (fst (protect i wa)))) = take (zn lo) (b_dst (w_b (fst (protect i wo))))
  | inr sa, inr so => sa = so
  | _, _ => False
  end.
Proof.
  intros Ha Ho _ _ ES EC EP Hget Hwf Hpl.
  pose proof (protect_refines_cryptex i wa st0 Ha Hget Hwf Hpl) as Ta.
  rewrite ES, EP in Hget.
  pose proof (protect_refines_cryptex i wo st0 Ho Hget Hwf Hpl) as To.
  rewrite ES, EC, EP in Ta.
  destruct (protect i wa) as [wa' [la|sa]], (protect i wo) as [wo' [lo|so]]; cbn [fst snd].
  - destruct Ta as (wa_ & Fa & -> & Da & _), To as (wo_ & Fo & -> & Do & So & _).
    rewrite Fa in Fo. injection Fo as E1 E2. subst wo_. rewrite Da, Do. auto.
  - destruct Ta as (wa_ & Fa & _), To as (Fo & So & _). rewrite Fa in Fo. discriminate.
  - destruct Ta as (Fa & _), To as (wo_ & Fo & _). rewrite Fa in Fo. discriminate.
  - destruct Ta as (Fa & _), To as (Fo & So & _). rewrite Fa in Fo. injection Fo as E1 E2. auto.
Qed.
Print Assumptions protect_alias_independent_cryptex.

(* what is on the wire after a successful call is rtp_wire of the stream (after the
   direction update), the key selected by the MKI index and the estimated packet index *)
Corollary protect_emits_rtp_wire_cryptex i w st0 w' l :
  call_ok w ->
  list_get (ss_list (w_s w)) (hdr_ssrc (in_pkt w)) = Some st0 -> stream_wf st0 -> cryptex_stream st0 ->
  protect i w = (w', inl l) ->
  exists ki k est st3 wire,
    sender_key_st (dir_stream st0 dir_srtp_sender_c) i = inl (ki, k) /\
    index_step (charged_stream (dir_stream st0 dir_srtp_sender_c) ki) (hdr_seq (in_pkt w)) = inl (est, st3) /\
    rtp_wire (dir_stream st0 dir_srtp_sender_c) k est (in_pkt w) = Some wire /\
    l = lenZ wire /\ take (zn l) (b_dst (w_b w')) = wire.
Proof.
  intros Hc Hget Hwf Hpl E. pose proof (protect_refines_cryptex i w st0 Hc Hget Hwf Hpl) as T. rewrite E in T.
  destruct T as (wire & F & Hl & Hd & _).
  destruct (protect_fun_wire _ _ _ _ _ _ F) as (st0' & ki & k & est & st3 & G & EK & EI & EW).
  rewrite Hget in G. injection G as <-. exists ki, k, est, st3, wire. auto.
Qed.
Print Assumptions protect_emits_rtp_wire_cryptex.
