(* Properties_C19.v — independent sessions can be used concurrently from different threads (C19).
   Part 1 (regenerated from /repo on every run): no function reachable from a session-API entry
   point writes a process-global variable outside debug-only regions; the entry points exist in
   the regenerated table and the computed call-graph closure is closed.
   Part 2: the generic interleaving theorem — with a shared component that no step modifies, every
   interleaving gives each thread the outputs of its sequential run.
   Not expressible here: the hardware memory model, races inside libc, disjointness of the heap objects of
   distinct sessions (C17's ownership balance covers the model's bookkeeping); the ThreadSanitizer run of
   harness/threads.c is the supporting evidence for those on the explored schedules. *)
From Coq Require Import String List Bool.
From Srtp Require Import GlobalsGen Globals Interleave.
Import ListNotations.

Theorem session_api_writes_no_global : api_known = true /\ api_closed = true /\ api_writes = [].
Proof. vm_compute. repeat split; reflexivity. Qed.
Print Assumptions session_api_writes_no_global.

(* the only writers of globals are initialisation / configuration functions, none of them in the session API *)
Theorem writers_are_configuration_only :
  forallb (fun f => negb (existsb (String.eqb f) session_api)) global_writers = true.
Proof. vm_compute. reflexivity. Qed.
Print Assumptions writers_are_configuration_only.

Theorem any_interleaving_equals_sequential :
  forall (G S Op Out : Type) (step : G -> S -> Op -> G * S * Out),
  (forall g s o, fst (fst (step g s o)) = g) ->
  forall sch g f i,
  let '(g', f', outs) := run G S Op Out step g f sch in
  g' = g /\ f' i = fst (run_seq G S Op Out step g (f i) (ops_of Op i sch)) /\
  outs_of Out i outs = snd (run_seq G S Op Out step g (f i) (ops_of Op i sch)).
Proof. exact interleaving_equals_sequential. Qed.
Print Assumptions any_interleaving_equals_sequential.

(* non-vacuity: the closure of srtp_unprotect contains the cipher and auth back ends reached through descriptors *)
Example closure_reaches_backends :
  existsb (String.eqb "srtp_aes_icm_encrypt") (closure "srtp_unprotect") = true /\
  existsb (String.eqb "srtp_hmac_compute") (closure "srtp_unprotect") = true /\
  existsb (String.eqb "srtp_stream_clone") (closure "srtp_unprotect") = true.
Proof. vm_compute. repeat split; reflexivity. Qed.
