(* RtpRoundTripCryptexEx.v — why srtp_round_trip_cryptex asks for profile_octets.

   The model's byte strings are lists of natural numbers (Util.bytes = list N), not lists of
   octets.  be16 reads the list [0; 48862] as the value 0xBEDE, so a "packet" whose two profile
   elements are 0 and 48862 is accepted by srtp_protect as carrying the one-byte-form profile;
   the receiver writes the profile back as the two octets 0xBE 0xDE (be_bytes), which is not
   what the list held.  For real packets (all elements < 256) profile_octets holds
   (profile_octets_of_octets), so this is an artefact of the byte-string representation of
   the model, not a behaviour of the C code. *)
From Coq Require Import NArith ZArith List Bool Lia.
From Srtp Require Import Util Constants KeyLimit Rdb Rdbx Icm World Stream Rtp Session BoundsRtp RtcpSpec RtpSpec
     RtpExamples RtpRoundTripCryptex.
Import ListNotations.
Local Open Scope Z_scope.
Import RtpEx.

(* pkt_x1 of RtpExamples.v with the profile 0xBE 0xDE replaced by the two list elements 0, 48862 *)
Definition pkt_nonoctet : bytes :=
  [146;96;18;52; 0;0;0;9; 202;254;186;190; 1;2;3;4; 5;6;7;8; 0;48862;0;2; 18;170;187;204; 33;221;238;0]%N
  ++ map N.of_nat (seq 60 13).

Theorem srtp_round_trip_cryptex_nonoctet_refuted :
  (* the profile elements are not the octets of the profile value *)
  ~ profile_octets pkt_nonoctet /\
  (* protect accepts the packet; unprotect of the result succeeds, in place and out of place,
     and returns pkt_x1 (profile octets 0xBE 0xDE), not the packet *)
  match run_protect (pol false true []) 0 (inplace pkt_nonoctet) with
  | Some w1 =>
    run_unprotect (pol false true []) (inplace w1) = Some pkt_x1 /\
    run_unprotect (pol false true []) (outofplace 0 w1) = Some pkt_x1 /\
    pkt_x1 <> pkt_nonoctet
  | None => False
  end.
Proof.
  split; [vm_compute; discriminate|].
  vm_compute. split; [reflexivity|]. split; [reflexivity|discriminate].
Qed.
Print Assumptions srtp_round_trip_cryptex_nonoctet_refuted.

(* ---- cryptex AND an RFC 6904 header-extension cipher on the same stream ----
   The two classes proved (RtpRoundTripXtn.v: no cryptex, any k_xtn_c; this directory's
   RtpRoundTripCryptex.v: any cryptex setting, k_xtn_c = None) do not combine: when both are
   configured and the packet has a header extension, the sender applies RFC 6904 and then
   replaces the profile by 0xC0DE / 0xC2DE; the receiver runs srtp_process_header_encryption
   BEFORE undoing cryptex, sees the cryptex profile id, and returns srtp_err_status_parse_err.
   Every such packet is rejected, in place and out of place.  (Receiver-side face of the known
   finding "cryptex-with-6904"; the combination is outside the domain of C01.) *)
Definition unprotect_status (p : policy) (b : bufs) : Z + Z :=
  match unprotect (Witness.mkw (sess p) b) with
  | (_, inl l) => inl l
  | (_, inr s) => inr s
  end.

Theorem srtp_round_trip_cryptex_with_6904_refuted :
  match run_protect (pol false true [1%N; 2%N]) 0 (inplace pkt_x1) with
  | Some w1 =>
    unprotect_status (pol false true [1%N; 2%N]) (inplace w1) = inr st_parse_err /\
    unprotect_status (pol false true [1%N; 2%N]) (outofplace 0 w1) = inr st_parse_err
  | None => False
  end.
Proof. vm_compute. split; reflexivity. Qed.
Print Assumptions srtp_round_trip_cryptex_with_6904_refuted.
