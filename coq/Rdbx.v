(* Rdbx.v — model of crypto/replay/rdbx.c and of srtp_estimate_index (srtp.c):
   extended sequence numbers, index estimation, the SRTP replay window.
   The bit-vector is one number (word[0] least significant);
   bitvector_left_shift(x,s) = N.shiftr x s, length rounded up to 32 bits. *)
From Coq Require Import NArith ZArith List Bool.
From Srtp Require Import Util Constants.
Local Open Scope Z_scope.

Record rdbx := { index : Z; (* uint64_t *) wlen : Z; (* bits *) mask : N }.

Definition roundup32 (ws : Z) : Z := ((ws + 31) / 32) * 32.

(* srtp_rdbx_init; None = bad_param (ws = 0).  Allocation failure is modelled in Heap. *)
Definition rdbx_init (ws : Z) : option rdbx :=
  if ws =? 0 then None
  else Some {| index := 0; wlen := roundup32 ws; mask := 0%N |}.

(* srtp_index_guess: returns (guess, difference) *)
Definition index_guess (local s : Z) : Z * Z :=
  let local_roc := u32 (local / 65536) in
  let local_seq := u16 local in
  let '(groc, diff) :=
    if local_seq <? seq_num_median_c then
      if seq_num_median_c <? s - local_seq
      then (u32 (local_roc - 1), s - local_seq - seq_num_max_c)
      else (local_roc, s - local_seq)
    else
      if s <? local_seq - seq_num_median_c
      then (u32 (local_roc + 1), s - local_seq + seq_num_max_c)
      else (local_roc, s - local_seq) in
  (groc * 65536 + s, diff).

(* srtp_rdbx_estimate_index *)
Definition estimate (r : rdbx) (s : Z) : Z * Z :=
  if seq_num_median_c <? index r then index_guess (index r) s
  else (s, s64 (s - index r)).

(* srtp_estimate_index (srtp.c) with an imposed ROC: (status, est, delta) *)
Definition estimate_pending (r : rdbx) (roc s : Z) : Z * Z * Z :=
  let est := roc * 65536 + s in
  let delta := s64 (est - index r) in
  if index r <? est then
    if seq_num_median_c <? est - index r then (st_pkt_idx_adv, est, 0)
    else (st_ok, est, delta)
  else if est <? index r then
    if seq_num_median_c <? index r - est then (st_pkt_idx_old, est, 0)
    else (st_ok, est, delta)
  else (st_ok, est, delta).

(* srtp_rdbx_check *)
Definition rdbx_check (r : rdbx) (delta : Z) : Z :=
  if 0 <? delta then st_ok
  else if s32 (wlen r - 1) + delta <? 0 then st_replay_old
  else if N.testbit (mask r) (Z.to_N (wlen r - 1 + delta)) then st_replay_fail
  else st_ok.

(* srtp_rdbx_add_index.  For delta <= 0 the C code indexes bit len-1+delta
   without a check; callers establish 0 <= len-1+delta with rdbx_check.  The
   model leaves the state unchanged outside that domain and the theorems carry
   the guard. *)
Definition rdbx_add (r : rdbx) (delta : Z) : rdbx :=
  if 0 <? delta then
    let sh := if wlen r <=? delta then 0%N else N.shiftr (mask r) (Z.to_N delta) in
    {| index := u64 (index r + u16 delta); wlen := wlen r;
       mask := N.setbit sh (Z.to_N (wlen r - 1)) |}
  else if wlen r - 1 + delta <? 0 then r
  else {| index := index r; wlen := wlen r;
          mask := N.setbit (mask r) (Z.to_N (wlen r - 1 + delta)) |}.

(* srtp_rdbx_set_roc_seq *)
Definition set_roc_seq (r : rdbx) (roc s : Z) : Z * rdbx :=
  if roc <? index r / 65536 then (st_replay_old, r)
  else (st_ok, {| index := roc * 65536 + s; wlen := wlen r; mask := 0%N |}).

Definition rdbx_roc (r : rdbx) : Z := u32 (index r / 65536).
