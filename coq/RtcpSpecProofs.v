(* RtcpSpecProofs.v — C12 (SRTCP half) and the buffer side of C02: the monadic model of
   srtp_protect_rtcp / srtp_unprotect_rtcp (Rtcp.v) REFINES the pure functions of RtcpSpec.v,
   in place (b_alias = true) and out of place (b_alias = false, any destination prefill).
   Consequence: status, length, output bytes and final session do not depend on the alias
   mode nor on what the destination held before.

   Restriction (stated in every theorem): the session holds an explicit stream for the
   packet's SSRC (list_get (ss_list s) ssrc = Some st): no cloning of the template. *)
From Coq Require Import NArith ZArith List Bool Lia.
From Srtp Require Import Util Constants KeyLimit Rdb Rdbx Icm World Stream Rtp Rtcp
     MonadLemmas EnvelopeProofs WfProofs BoundsRtcp LengthProofs RtcpSpec.
Import ListNotations.
Local Open Scope Z_scope.

(* ===================================================================== *)
(* 1. lists                                                               *)
(* ===================================================================== *)
Lemma take_all {A} n (l : list A) : (length l <= n)%nat -> take n l = l.
Proof. intros H. rewrite take_firstn. apply firstn_all2. exact H. Qed.
Lemma take_drop_id {A} n (l : list A) : take n l ++ drop n l = l.
Proof. rewrite take_firstn, drop_skipn. apply firstn_skipn. Qed.
Lemma take_add {A} n m (l : list A) : take (n + m) l = take n l ++ take m (drop n l).
Proof.
  revert l. induction n as [|n IH]; intros l; [reflexivity|].
  destruct l as [|x l]; cbn; [destruct m; reflexivity|]. rewrite IH. reflexivity.
Qed.
Lemma slice_0 {A} n (l : list A) : slice 0 n l = take n l.
Proof. reflexivity. Qed.
Lemma slice_add {A} a n m (l : list A) : slice a (n + m) l = slice a n l ++ slice (a + n) m l.
Proof. unfold slice. rewrite take_add, drop_drop. reflexivity. Qed.
Lemma splice_nil {A} o (l : list A) : splice o [] l = l.
Proof.
  revert o. induction l as [|x l IH]; intros o; destruct o as [|o]; cbn; try reflexivity.
  rewrite IH. reflexivity.
Qed.
Lemma drop_splice_above {A} a o (v l : list A) : (o + length v <= a)%nat -> drop a (splice o v l) = drop a l.
Proof.
  revert a o v. induction l as [|x l IH]; intros a o v H.
  - destruct o; reflexivity.
  - destruct o as [|o].
    + destruct v as [|y v]; [reflexivity|]. cbn in H. destruct a as [|a]; [lia|]. cbn. apply IH. cbn. lia.
    + destruct a as [|a]; [lia|]. cbn. apply IH. lia.
Qed.
Lemma slice_splice_above {A} a n o (v l : list A) : (o + length v <= a)%nat -> slice a n (splice o v l) = slice a n l.
Proof. intros H. unfold slice. rewrite drop_splice_above by exact H. reflexivity. Qed.
Lemma slice_splice_same {A} o (v l : list A) :
  (o + length v <= length l)%nat -> slice o (length v) (splice o v l) = v.
Proof.
  revert o v. induction l as [|x l IH]; intros o v H.
  - cbn in H. assert (length v = O) by lia. destruct v; [|discriminate]. destruct o; reflexivity.
  - destruct o as [|o].
    + rewrite slice_0. apply take_splice_0. lia.
    + cbn in H. change (slice (S o) (length v) (splice (S o) v (x :: l))) with (slice o (length v) (splice o v l)).
      apply IH. lia.
Qed.
Lemma slice_len0 {A} a (l : list A) : slice a 0 l = [].
Proof. reflexivity. Qed.
Lemma slice_to_end {A} a n (l : list A) : (length l <= a + n)%nat -> slice a n l = drop a l.
Proof. intros H. unfold slice. apply take_all. rewrite drop_length. lia. Qed.
Lemma take_app_exact {A} (a b : list A) : take (length a) (a ++ b) = a.
Proof. rewrite take_firstn. rewrite firstn_app, Nat.sub_diag, firstn_all. cbn. apply app_nil_r. Qed.
Lemma drop_app_exact {A} (a b : list A) : drop (length a) (a ++ b) = b.
Proof. rewrite drop_skipn. rewrite skipn_app, Nat.sub_diag, skipn_all. reflexivity. Qed.
Lemma drop_app_ge {A} n (a b : list A) : drop (length a + n) (a ++ b) = drop n b.
Proof. rewrite <- drop_drop, drop_app_exact. reflexivity. Qed.
Lemma take_app_le {A} n (a b : list A) : (n <= length a)%nat -> take n (a ++ b) = take n a.
Proof. intros H. rewrite !take_firstn, firstn_app. replace (n - length a)%nat with O by lia. cbn. apply app_nil_r. Qed.
Lemma slice_app_l {A} o n (a b : list A) : (o + n <= length a)%nat -> slice o n (a ++ b) = slice o n a.
Proof. intros H. rewrite !slice_alt. rewrite take_app_le by exact H. reflexivity. Qed.
Lemma slice_app_r {A} o n (a b : list A) : slice (length a + o) n (a ++ b) = slice o n b.
Proof. unfold slice. rewrite drop_app_ge. reflexivity. Qed.
Lemma length0_nil {A} (l : list A) : length l = O -> l = [].
Proof. destruct l; [reflexivity|discriminate]. Qed.

Lemma zn_len {A} (l : list A) : zn (lenZ l) = length l.
Proof. unfold zn, lenZ. lia. Qed.

(* ===================================================================== *)
(* 2. Hoare triples whose exit postcondition sees the status               *)
(* ===================================================================== *)
Definition tri {A} (P : world -> Prop) (m : M A) (Q : A -> world -> Prop) (E : Z -> world -> Prop) : Prop :=
  forall w, P w -> match m w with (w', inl a) => Q a w' | (w', inr s) => E s w' end.

Lemma t_ret {A} (a : A) (P : world -> Prop) (Q : A -> world -> Prop) E :
  (forall w, P w -> Q a w) -> tri P (ret a) Q E.
Proof. intros H w HP. cbn. auto. Qed.
Lemma t_exit {A} st (P : world -> Prop) (Q : A -> world -> Prop) (E : Z -> world -> Prop) :
  (forall w, P w -> E st w) -> tri P (exit_with st) Q E.
Proof. intros H w HP. cbn. auto. Qed.
Lemma t_bind {A B} (m : M A) (f : A -> M B) P R Q E :
  tri P m R E -> (forall a, tri (R a) (f a) Q E) -> tri P (bind m f) Q E.
Proof.
  intros Hm Hf w HP. unfold bind. specialize (Hm w HP). destruct (m w) as [w1 [a|st]].
  - exact (Hf a w1 Hm).
  - exact Hm.
Qed.
(* the first computation has its own exit postcondition *)
Lemma t_bind2 {A B} (m : M A) (f : A -> M B) P R Q E1 (E : Z -> world -> Prop) :
  tri P m R E1 -> (forall s w, E1 s w -> E s w) -> (forall a, tri (R a) (f a) Q E) -> tri P (bind m f) Q E.
Proof.
  intros Hm HE Hf w HP. unfold bind. specialize (Hm w HP). destruct (m w) as [w1 [a|st]].
  - exact (Hf a w1 Hm).
  - exact (HE _ _ Hm).
Qed.
Lemma t_pre {A} (P P' : world -> Prop) (m : M A) Q E :
  (forall w, P w -> P' w) -> tri P' m Q E -> tri P m Q E.
Proof. intros I H w HP. exact (H w (I w HP)). Qed.
Lemma t_post {A} (P : world -> Prop) (m : M A) (Q Q' : A -> world -> Prop) E :
  tri P m Q' E -> (forall a w, Q' a w -> Q a w) -> tri P m Q E.
Proof. intros H I w HP. specialize (H w HP). destruct (m w) as [w1 [a|st]]; auto. Qed.
Lemma t_pure {A} (F : Prop) (P : world -> Prop) (m : M A) Q E :
  (F -> tri P m Q E) -> tri (fun w => F /\ P w) m Q E.
Proof. intros H w [HF HP]. exact (H HF w HP). Qed.
Lemma t_ex {A X} (P : X -> world -> Prop) (m : M A) Q E :
  (forall x, tri (P x) m Q E) -> tri (fun w => exists x, P x w) m Q E.
Proof. intros H w [x Hx]. exact (H x w Hx). Qed.
Lemma t_bind_ret {A B} (a : A) (f : A -> M B) P Q E : tri P (f a) Q E -> tri P (bind (ret a) f) Q E.
Proof. intros H. exact H. Qed.
Lemma t_bind_exit {A B} st (f : A -> M B) (P : world -> Prop) Q (E : Z -> world -> Prop) :
  (forall w, P w -> E st w) -> tri P (bind (exit_with st) f) Q E.
Proof. intros H w HP. cbn. auto. Qed.

(* ===================================================================== *)
(* 3. what is known of the destination block: a list of (offset, content)  *)
(* ===================================================================== *)
Definition fact_ok (dd : bytes) (f : Z * bytes) : Prop :=
  0 <= fst f /\ slice (zn (fst f)) (length (snd f)) dd = snd f.
Definition facts_ok (fs : list (Z * bytes)) (dd : bytes) : Prop := Forall (fact_ok dd) fs.
(* the fact does not overlap [o, o+n) *)
Definition away (o n : Z) (f : Z * bytes) : Prop := fst f + lenZ (snd f) <= o \/ o + n <= fst f.

Lemma fact_splice dd o v f : 0 <= o -> fact_ok dd f -> away o (lenZ v) f -> fact_ok (splice (zn o) v dd) f.
Proof.
  destruct f as [a u]. unfold fact_ok, away. cbn [fst snd]. intros Ho [Ha Hs] [Hd|Hd]; (split; [exact Ha|]).
  - rewrite slice_splice_below; [exact Hs|]. unfold zn, lenZ in *. lia.
  - rewrite slice_splice_above; [exact Hs|]. unfold zn, lenZ in *. lia.
Qed.
Lemma facts_write fs o v dd :
  0 <= o -> o + lenZ v <= lenZ dd -> Forall (away o (lenZ v)) fs -> facts_ok fs dd ->
  facts_ok ((o, v) :: fs) (splice (zn o) v dd).
Proof.
  intros Ho Hl Ha Hf. constructor.
  - split; [exact Ho|]. cbn [fst snd]. apply slice_splice_same. unfold zn, lenZ in *. lia.
  - unfold facts_ok in *. rewrite Forall_forall in *. intros f Hin. apply fact_splice; auto.
Qed.
Lemma facts_sub fs fs' dd : facts_ok fs dd -> incl fs' fs -> facts_ok fs' dd.
Proof. unfold facts_ok. rewrite !Forall_forall. intros H I f Hf. exact (H f (I f Hf)). Qed.
Lemma fact_get fs dd o v : facts_ok fs dd -> In (o, v) fs -> slice (zn o) (length v) dd = v.
Proof. unfold facts_ok. rewrite Forall_forall. intros H I. exact (proj2 (H _ I)). Qed.
Lemma facts_nil_fact fs dd o : 0 <= o -> facts_ok fs dd -> facts_ok ((o, []) :: fs) dd.
Proof. intros Ho H. constructor; [split; [exact Ho|reflexivity]|exact H]. Qed.

(* consecutive pieces *)
Fixpoint chain (a : Z) (vs : list bytes) (dd : bytes) : Prop :=
  match vs with
  | [] => True
  | v :: r => slice (zn a) (length v) dd = v /\ chain (a + lenZ v) r dd
  end.
Lemma chain_slice vs : forall a dd, 0 <= a -> chain a vs dd -> slice (zn a) (length (concat vs)) dd = concat vs.
Proof.
  induction vs as [|v r IH]; intros a dd Ha H; [reflexivity|].
  destruct H as [H1 H2]. cbn [concat]. rewrite app_length, slice_add, H1. f_equal.
  replace (zn a + length v)%nat with (zn (a + lenZ v)) by (unfold zn, lenZ; lia).
  apply IH; [unfold lenZ; lia|exact H2].
Qed.

(* ===================================================================== *)
(* 4. the state of one packet call: exact session, exact knowledge of dst  *)
(* ===================================================================== *)
Section ST.
Variables (L C : Z) (al : bool) (src d0 : bytes).
Let dlen : Z := lenZ d0.
Hypothesis HD : C <= dlen.

Definition St (ss : session) (D : bytes -> Prop) (w : world) : Prop :=
  w_s w = ss /\ b_len (w_b w) = L /\ b_cap (w_b w) = C /\ b_alias (w_b w) = al /\ b_src (w_b w) = src /\
  b_oob (w_b w) = false /\ lenZ (b_dst (w_b w)) = dlen /\ D (b_dst (w_b w)).
Definition Dany : bytes -> Prop := fun _ => True.

Lemma St_weaken ss (D D' : bytes -> Prop) w :
  (forall dd, lenZ dd = dlen -> D dd -> D' dd) -> St ss D w -> St ss D' w.
Proof. intros I (h0 & h1 & h2 & h3 & h4 & h5 & h6 & h7). repeat split; auto. Qed.
Lemma St_any ss D w : St ss D w -> St ss Dany w.
Proof. apply St_weaken. intros; exact I. Qed.
Lemma t_weaken {A} ss (D D' : bytes -> Prop) (m : M A) Q E :
  (forall dd, lenZ dd = dlen -> D dd -> D' dd) -> tri (St ss D') m Q E -> tri (St ss D) m Q E.
Proof. intros I. apply t_pre. intros w. apply St_weaken. exact I. Qed.

Lemma t_get_b0 ss E :
  tri (St ss (eq d0)) get_b (fun b w => b = b_init L C al src d0 /\ St ss (eq d0) w) E.
Proof.
  clear HD. intros w HI. cbn. split; [|exact HI]. destruct HI as (h0 & h1 & h2 & h3 & h4 & h5 & h6 & h7).
  destruct (w_b w); cbn in *. unfold b_init. subst. reflexivity.
Qed.
Lemma t_get_b ss D E :
  tri (St ss D) get_b (fun b w => (b_len b = L /\ b_cap b = C /\ b_alias b = al) /\ St ss D w) E.
Proof. intros w HI. cbn. split; [|exact HI]. destruct HI as (h0 & h1 & h2 & h3 & _). auto. Qed.

Lemma t_rd_src ss D off n E :
  0 <= off -> 0 <= n -> off + n <= L ->
  tri (St ss D) (rd_src off n)
      (fun d w => (exists dd, D dd /\ lenZ dd = dlen /\ d = slice (zn off) (zn n) (if al then dd else src)) /\ St ss D w) E.
Proof.
  intros H1 H2 H3 w HI. unfold rd_src, bind, get_b.
  destruct HI as (h0 & h1 & h2 & h3 & h4 & h5 & h6 & h7).
  assert (Hc : (off <? 0) || (n <? 0) || (b_len (w_b w) <? off + n) = false).
  { rewrite h1. rewrite !orb_false_iff, !Z.ltb_ge. lia. }
  rewrite Hc. cbn [ret]. split.
  - exists (b_dst (w_b w)). split; [exact h7|]. split; [exact h6|]. unfold cur_src. rewrite h3, h4. reflexivity.
  - repeat split; assumption.
Qed.

Lemma t_rd_dst ss D off n E :
  0 <= off -> 0 <= n -> off + n <= dlen ->
  tri (St ss D) (rd_dst off n)
      (fun d w => (exists dd, D dd /\ lenZ dd = dlen /\ d = slice (zn off) (zn n) dd) /\ St ss D w) E.
Proof.
  intros H1 H2 H3 w HI. unfold rd_dst, bind, get_b.
  destruct HI as (h0 & h1 & h2 & h3 & h4 & h5 & h6 & h7).
  assert (Hc : (off <? 0) || (n <? 0) || (lenZ (b_dst (w_b w)) <? off + n) = false).
  { rewrite h6. rewrite !orb_false_iff, !Z.ltb_ge. lia. }
  rewrite Hc. cbn [ret]. split.
  - exists (b_dst (w_b w)). auto.
  - repeat split; assumption.
Qed.

Lemma t_wr_dst ss (D D' : bytes -> Prop) off v E :
  0 <= off -> off + lenZ v <= C ->
  (forall dd, lenZ dd = dlen -> D dd -> D' (splice (zn off) v dd)) ->
  tri (St ss D) (wr_dst off v) (fun _ => St ss D') E.
Proof.
  intros H1 H2 HK w HI. unfold wr_dst, bind, get_b, put_b. cbn.
  destruct HI as (h0 & h1 & h2 & h3 & h4 & h5 & h6 & h7).
  unfold St. cbn. rewrite lenZ_splice. repeat split; try assumption.
  - rewrite h5, h2. cbn [orb]. rewrite orb_false_iff, !Z.ltb_ge. lia.
  - apply HK; assumption.
Qed.

Lemma t_wr_facts ss fs off v E :
  0 <= off -> off + lenZ v <= C -> Forall (away off (lenZ v)) fs ->
  tri (St ss (facts_ok fs)) (wr_dst off v) (fun _ => St ss (facts_ok ((off, v) :: fs))) E.
Proof.
  intros H1 H2 H3. apply t_wr_dst; [exact H1|exact H2|].
  intros dd Hl Hf. apply facts_write; auto. lia.
Qed.

Lemma t_log_encrypt_iv ss D k iv E : tri (St ss D) (log_encrypt_iv k iv) (fun _ => St ss D) E.
Proof. intros w H. unfold log_encrypt_iv. destruct (is_icm_alg (ck_alg k)); cbn; exact H. Qed.

(* ---- session operations on an explicit stream ---- *)
Lemma t_lookup_existing ss D x st0 flag E :
  list_get (ss_list ss) x = Some st0 ->
  tri (St ss D) (lookup_or_clone x flag) (fun r w => r = RList x /\ St ss D w) E.
Proof.
  intros Hg w HI. unfold lookup_or_clone, bind, get_s. rewrite (proj1 HI), Hg. cbn. auto.
Qed.
Lemma t_get_stream_list ss D x st E :
  list_get (ss_list ss) x = Some st ->
  tri (St ss D) (get_stream (RList x)) (fun s w => s = st /\ St ss D w) E.
Proof.
  intros Hg w HI. unfold get_stream, bind, get_s. rewrite (proj1 HI), Hg. cbn. auto.
Qed.
Lemma t_put_stream_list ss D x n E :
  tri (St ss D) (put_stream (RList x) n) (fun _ => St (sess_put ss x n) D) E.
Proof.
  intros w HI. unfold put_stream, bind, get_s, put_s. cbn.
  destruct HI as (h0 & h1 & h2 & h3 & h4 & h5 & h6 & h7). unfold St. cbn. rewrite h0.
  repeat split; assumption.
Qed.
Lemma t_emit ss D e x E : tri (St ss D) (emit e x) (fun _ => St ss D) E.
Proof. intros w H. cbn. exact H. Qed.

Lemma t_check_direction ss D x st0 want E :
  list_get (ss_list ss) x = Some st0 ->
  tri (St ss D) (check_direction (RList x) want) (fun _ => St (dir_session ss x st0 want) D) E.
Proof.
  intros Hg. unfold check_direction, dir_session.
  eapply t_bind; [apply t_get_stream_list; exact Hg|intros st]. apply t_pure; intros ->.
  destruct (s_dir st0 =? want); [apply t_ret; auto|].
  destruct (s_dir st0 =? dir_unknown_c); [apply t_put_stream_list|apply t_emit].
Qed.
End ST.

Lemma dir_session_get ss x st0 want :
  list_get (ss_list ss) x = Some st0 ->
  list_get (ss_list (dir_session ss x st0 want)) x = Some (dir_stream st0 want).
Proof.
  intros Hg. unfold dir_session, dir_stream.
  destruct (s_dir st0 =? want); [exact Hg|]. destruct (s_dir st0 =? dir_unknown_c); [|exact Hg].
  cbn [sess_put ss_list]. apply (list_get_replace_same _ _ _ _ Hg). exact (list_get_ssrc _ _ _ Hg).
Qed.
Lemma dir_stream_cfg st want : cfg_eq st (dir_stream st want).
Proof.
  unfold dir_stream. destruct (s_dir st =? want); [apply cfg_eq_refl|].
  destruct (s_dir st =? dir_unknown_c); [apply cfg_eq_upd|apply cfg_eq_refl].
Qed.
Lemma dir_stream_serv st want : s_rtcp_serv (dir_stream st want) = s_rtcp_serv st.
Proof. unfold dir_stream. destruct (s_dir st =? want); [reflexivity|]. destruct (s_dir st =? dir_unknown_c); reflexivity. Qed.
Lemma dir_stream_rdb st want : s_rdb (dir_stream st want) = s_rdb st.
Proof. unfold dir_stream. destruct (s_dir st =? want); [reflexivity|]. destruct (s_dir st =? dir_unknown_c); reflexivity. Qed.

Lemma keys_by_index_eq st i :
  keys_by_index st i = match sender_key_st st i with inl r => ret r | inr e => exit_with e end.
Proof.
  unfold keys_by_index, sender_key_st.
  destruct (s_use_mki st && ((i <? 0) || (lenZ (s_keys st) <=? i))); [reflexivity|].
  destruct (nth_error (s_keys st) (zn (if s_use_mki st then i else 0))); reflexivity.
Qed.
Lemma sender_key_st_In st i ki k : sender_key_st st i = inl (ki, k) -> In k (s_keys st).
Proof.
  unfold sender_key_st. destruct (s_use_mki st && _); [discriminate|].
  destruct (nth_error (s_keys st) _) eqn:E; [|discriminate]. intros H. injection H as _ <-.
  exact (nth_error_In _ _ E).
Qed.

(* ===================================================================== *)
(* 5. srtp_protect_rtcp                                                   *)
(* ===================================================================== *)
Section RTCP_REF.
Variables (L C : Z) (al : bool) (src d0 pkt : bytes).
Hypothesis HL : 0 <= L < 9223372036854775808.
Hypothesis HC : 0 <= C < 9223372036854775808.
Hypothesis HD : C <= lenZ d0.
(* the input block holds the packet (L octets) *)
Hypothesis Hpkt : take (zn L) (if al then d0 else src) = pkt.
Hypothesis HLp : lenZ pkt = L.

Notation S := (St L C al src d0).

Lemma in_slice off n : 0 <= off -> 0 <= n -> off + n <= L ->
  slice (zn off) (zn n) (if al then d0 else src) = slice (zn off) (zn n) pkt.
Proof. intros H1 H2 H3. rewrite <- Hpkt. symmetry. apply slice_take. unfold zn. lia. Qed.

Lemma t_rd_src0 ss off n E :
  0 <= off -> 0 <= n -> off + n <= L ->
  tri (S ss (eq d0)) (rd_src off n) (fun d w => d = slice (zn off) (zn n) pkt /\ S ss (eq d0) w) E.
Proof.
  intros H1 H2 H3. eapply t_post; [apply t_rd_src; assumption|].
  intros d w [(dd & Hdd & _ & Hd) Hw]. split; [rewrite Hd, <- Hdd; apply in_slice; assumption|exact Hw].
Qed.

(* the payload: encrypt (or copy) [8, 8+n) of the input into the output *)
Lemma payload_step ss (conf : bool) cs n payload fs0 :
  0 <= n -> 8 + n <= L -> 8 + n <= C -> lenZ payload = n ->
  (al = false -> slice (zn 8) (zn n) src = payload) ->
  Forall (away 8 n) fs0 ->
  tri (S ss (facts_ok ((if al then [(8, payload)] else []) ++ fs0)))
      (if conf then
         d <- rd_src 8 n ;;
         (let '(s, _, o) := cipher_encrypt cs d in
          if negb (s =? st_ok) then exit_with st_cipher_fail else wr_dst 8 o)
       else if al then ret tt
       else (d <- rd_src 8 n ;; wr_dst 8 d))
      (fun _ w => exists enc, rtcp_body cs conf payload = Some enc /\ lenZ enc = n /\ S ss (facts_ok ((8, enc) :: fs0)) w)
      (fun s w => rtcp_body cs conf payload = None /\ s = st_cipher_fail /\ S ss Dany w).
Proof.
  intros Hn HnL HnC Hp Hsrc Haway.
  assert (Hrd : forall dd, facts_ok ((if al then [(8, payload)] else []) ++ fs0) dd ->
                           slice (zn 8) (zn n) (if al then dd else src) = payload).
  { intros dd Hf. destruct al eqn:EA; [|auto].
    replace (zn n) with (length payload) by (rewrite <- Hp; symmetry; apply zn_len).
    apply (fact_get _ _ _ _ Hf). left; reflexivity. }
  assert (Hsub : forall dd, facts_ok ((if al then [(8, payload)] else []) ++ fs0) dd -> facts_ok fs0 dd).
  { intros dd Hf. apply (facts_sub _ _ _ Hf). destruct al; cbn; [apply incl_tl|]; apply incl_refl. }
  unfold rtcp_body. destruct conf.
  - eapply t_bind; [apply t_rd_src; lia|intros d]. apply t_pure; intros (dd & Hf & _ & ->). rewrite (Hrd dd Hf).
    destruct (cipher_encrypt cs payload) as [[s c2] o] eqn:EE.
    destruct (s =? st_ok) eqn:ES; cbn [negb].
    + pose proof (cipher_encrypt_ok_length _ _ _ _ _ EE ES) as Lo.
      assert (Lo' : lenZ o = n) by (unfold lenZ in *; lia).
      eapply t_post; [eapply t_weaken; [|apply (t_wr_facts L C al src d0 HD ss fs0 8 o)]|].
      * intros dd' _ Hf'. exact (Hsub dd' Hf').
      * lia.
      * lia.
      * rewrite Lo'. exact Haway.
      * intros ? w Hw. exists o. split; [reflexivity|]. split; [exact Lo'|exact Hw].
    + apply t_exit. intros w Hw. split; [reflexivity|]. split; [reflexivity|]. exact (St_any _ _ _ _ _ _ _ _ Hw).
  - destruct al eqn:EA.
    + apply t_ret. intros w Hw. exists payload. split; [reflexivity|]. split; [exact Hp|exact Hw].
    + eapply t_bind; [apply t_rd_src; lia|intros d]. apply t_pure; intros (dd & Hf & _ & ->).
      rewrite (Hsrc eq_refl).
      eapply t_post; [apply (t_wr_facts L C false src d0 HD ss fs0 8 payload)|].
      * lia.
      * lia.
      * rewrite Hp. exact Haway.
      * intros ? w Hw. exists payload. split; [reflexivity|]. split; [exact Hp|exact Hw].
Qed.

Lemma hdr_len : 8 <= L -> lenZ (take 8 pkt) = 8.
Proof. intros H. unfold lenZ in *. rewrite take_length. lia. Qed.
Lemma pay_len : 8 <= L -> lenZ (drop 8 pkt) = L - 8.
Proof. intros H. unfold lenZ in *. rewrite drop_length. lia. Qed.
Lemma pkt_pay : 8 <= L -> slice (zn 8) (zn (L - 8)) pkt = drop 8 pkt.
Proof. intros H. apply slice_to_end. unfold lenZ, zn in *. lia. Qed.

Lemma St_exit ss D w : S ss D w -> w_s w = ss /\ b_src (w_b w) = src /\ b_oob (w_b w) = false.
Proof. intros (h0 & h1 & h2 & h3 & h4 & h5 & h6 & h7). auto. Qed.

Lemma check_st_ok : check_st st_ok = ret tt.
Proof. reflexivity. Qed.
Lemma check_st_key_expired : check_st st_key_expired = exit_with st_key_expired.
Proof. reflexivity. Qed.

Lemma Hpkt_b : take (zn L) (cur_src (b_init L C al src d0)) = pkt.
Proof. exact Hpkt. Qed.
Ltac norm_b :=
  change (b_len (b_init L C al src d0)) with L;
  change (b_cap (b_init L C al src d0)) with C;
  change (b_alias (b_init L C al src d0)) with al;
  rewrite ?Hpkt_b.

Ltac away_tac := repeat (apply Forall_cons || apply Forall_nil); unfold away; cbn [fst snd]; lia.

Variable ss0 : session.
Variable st0 : stream.
Hypothesis Hget : list_get (ss_list ss0) (be32 pkt 4) = Some st0.
Hypothesis Hwf : stream_wf st0.

Definition ProtQ i (l : Z) (w : world) : Prop :=
  exists wire, protect_rtcp_fun ss0 i C pkt = (w_s w, inl wire) /\ l = lenZ wire /\
               take (zn l) (b_dst (w_b w)) = wire /\ b_src (w_b w) = src /\ b_oob (w_b w) = false.
Definition ProtE i (s : Z) (w : world) : Prop :=
  protect_rtcp_fun ss0 i C pkt = (w_s w, inr s) /\ b_src (w_b w) = src /\ b_oob (w_b w) = false.

Lemma prot_exit ss D i s w : S ss D w -> protect_rtcp_fun ss0 i C pkt = (ss, inr s) -> ProtE i s w.
Proof. intros Hw Hs. destruct (St_exit _ _ _ Hw) as (e1 & e2 & e3). unfold ProtE. rewrite e1. auto. Qed.

Lemma prot_fun_eq i st ki k :
  (L <? 8) = false -> st = dir_stream st0 dir_srtp_sender_c -> sender_key_st st i = inl (ki, k) ->
  (C <? L + 4 + s_mki_size st + ak_tag (k_rtcp_a k)) = false ->
  (rtcp_ceiling_c <=? wstart (s_rdb st)) = false ->
  protect_rtcp_fun ss0 i C pkt =
  let ss2 := sess_put (dir_session ss0 (be32 pkt 4) st0 dir_srtp_sender_c) (be32 pkt 4)
               (set_rdb st {| wstart := u32 (wstart (s_rdb st) + 1); bitmask := bitmask (s_rdb st) |}) in
  match rtcp_wire st k (u32 (wstart (s_rdb st) + 1)) pkt with
  | None => (ss2, inr st_cipher_fail)
  | Some wire => (ss2, inl wire)
  end.
Proof.
  intros E0 -> EK E1 ER. unfold protect_rtcp_fun. cbv zeta. rewrite HLp, E0, Hget, EK. cbv beta iota.
  rewrite E1, ER. reflexivity.
Qed.

Lemma rtcp_wire_eq st k seq ps cs1 ks :
  cipher_output (cipher_start (k_rtcp_c k) (rtcp_iv (ck_alg (k_rtcp_c k)) (be32 pkt 4) seq)) (ak_prefix (k_rtcp_a k)) = (ps, cs1, ks) ->
  rtcp_wire st k seq pkt =
  if negb (ps =? st_ok) then None else
  match rtcp_body cs1 (rtcp_conf st) (drop 8 pkt) with
  | None => None
  | Some enc =>
    let m := take 8 pkt ++ enc ++ rtcp_trailer (rtcp_conf st) seq in
    let tag := auth_compute (k_rtcp_a k) m in
    Some (m ++ (if s_use_mki st then k_mki k else []) ++ tag ++ drop (length tag) ks)
  end.
Proof. intros EP. unfold rtcp_wire. cbv zeta. rewrite EP. reflexivity. Qed.

Lemma protect_rtcp_tri i : tri (S ss0 (eq d0)) (protect_rtcp i) (ProtQ i) (ProtE i).
Proof.
  unfold protect_rtcp.
  eapply t_bind; [apply t_get_b0|intros b]. apply t_pure; intros ->.
  cbv beta zeta. norm_b.
  change octets_in_rtcp_header_c with 8. change trailer_len with 4.
  destruct (L <? 8) eqn:E0.
  { apply t_bind_exit. intros w Hw. apply (prot_exit _ _ _ _ _ Hw).
    unfold protect_rtcp_fun. cbv zeta. rewrite HLp, E0. reflexivity. }
  apply t_bind_ret. pose proof E0 as E0'. apply Z.ltb_ge in E0'.
  pose proof (hdr_len E0') as LH. pose proof (pay_len E0') as LP.
  eapply t_bind; [eapply t_lookup_existing; exact Hget|intros r]. apply t_pure; intros ->.
  eapply t_bind; [eapply t_check_direction; exact Hget|intros ?].
  eapply t_bind; [apply t_get_stream_list; apply dir_session_get; exact Hget|intros st]. apply t_pure; intros Est.
  set (ss1 := dir_session ss0 (be32 pkt 4) st0 dir_srtp_sender_c).
  assert (Wst : stream_wf st) by (rewrite Est; exact (stream_wf_cfg _ _ (dir_stream_cfg st0 _) Hwf)).
  rewrite keys_by_index_eq. destruct (sender_key_st st i) as [[ki k]|e] eqn:EK.
  2:{ apply t_bind_exit. intros w Hw. apply (prot_exit _ _ _ _ _ Hw).
      unfold protect_rtcp_fun. cbv zeta. rewrite HLp, E0, Hget, <- Est, EK. reflexivity. }
  apply t_bind_ret. cbv beta iota.
  pose proof (sender_key_st_In _ _ _ _ EK) as Hk.
  pose proof (stream_wf_key _ _ Wst Hk) as (MK & _ & TA).
  destruct Wst as (M & U & _). rewrite max_mki_value in M.
  pose proof (akey_prefix_le _ TA) as PL. pose proof TA as [T KP]. rewrite max_tag_value in T.
  destruct (C <? L + 4 + s_mki_size st + ak_tag (k_rtcp_a k)) eqn:E1.
  { apply t_bind_exit. intros w Hw. apply (prot_exit _ _ _ _ _ Hw).
    unfold protect_rtcp_fun. cbv zeta. rewrite HLp, E0, Hget, <- Est, EK. cbv beta iota. rewrite E1. reflexivity. }
  apply t_bind_ret. pose proof E1 as E1'. apply Z.ltb_ge in E1'.
  set (P := if al then [(8, drop 8 pkt)] else []).
  (* header *)
  apply t_bind with (R := fun _ => S ss1 (facts_ok ((0, take 8 pkt) :: P))).
  { subst P. pose proof (in_slice 0 8) as I1. pose proof (in_slice 8 (L - 8)) as I2.
    pose proof (pkt_pay E0') as I3. destruct al eqn:EA; cbv iota in I1, I2.
    - apply t_ret. intros w Hw. eapply St_weaken; [|exact Hw]. intros dd _ Hdd. rewrite <- Hdd.
      constructor; [|constructor; [|constructor]]; (split; [cbn [fst]; lia|cbn [fst snd]]).
      + replace (length (take 8 pkt)) with (zn 8) by (unfold lenZ, zn in *; lia). apply I1; lia.
      + replace (length (drop 8 pkt)) with (zn (L - 8)) by (unfold lenZ, zn in *; lia).
        rewrite I2 by lia. exact I3.
    - eapply t_bind; [apply t_rd_src; lia|intros h]. apply t_pure; intros (dd & _ & _ & ->).
      rewrite I1 by lia.
      apply t_weaken with (D' := facts_ok []); [intros; constructor|].
      change (slice (zn 0) (zn 8) pkt) with (take 8 pkt).
      apply t_wr_facts; [exact HD|lia|lia|constructor]. }
  intros ?.
  (* MKI *)
  set (mki := if s_use_mki st then k_mki k else []).
  assert (LM : lenZ mki = s_mki_size st).
  { subst mki. destruct (s_use_mki st); [exact MK|]. rewrite (U eq_refl). reflexivity. }
  apply t_bind with (R := fun _ => S ss1 (facts_ok ((L + 4, mki) :: (0, take 8 pkt) :: P))).
  { subst mki. destruct (s_use_mki st) eqn:EU.
    - apply t_wr_facts; [exact HD|lia|lia|]. subst P. destruct al; away_tac.
    - apply t_ret. intros w Hw. eapply St_weaken; [|exact Hw]. intros dd _ Hf. apply facts_nil_fact; [lia|exact Hf]. }
  intros ?.
  (* index *)
  unfold rdb_incr. destruct (rtcp_ceiling_c <=? wstart (s_rdb st)) eqn:ER; cbv beta iota.
  { rewrite check_st_key_expired. apply t_bind_exit. intros w Hw. apply (prot_exit _ _ _ _ _ Hw).
    unfold protect_rtcp_fun. cbv zeta. rewrite HLp, E0, Hget, <- Est, EK. cbv beta iota. rewrite E1, ER. reflexivity. }
  rewrite check_st_ok. apply t_bind_ret.
  pose proof (prot_fun_eq i st ki k E0 Est EK E1 ER) as SPEC. cbv zeta in SPEC.
  set (seq := u32 (wstart (s_rdb st) + 1)) in *.
  set (rb := {| wstart := seq; bitmask := bitmask (s_rdb st) |}) in *.
  change (wstart rb) with seq.
  eapply t_bind; [apply t_put_stream_list|intros ?].
  set (ss2 := sess_put ss1 (be32 pkt 4) (set_rdb st rb)) in *.
  change (negb (Z.land (s_rtcp_serv st) sec_serv_conf_c =? 0)) with (rtcp_conf st).
  change (be_bytes 4 (Z.to_N ((if rtcp_conf st then SRTCP_E_BIT_c else 0) + seq))) with (rtcp_trailer (rtcp_conf st) seq).
  set (tr := rtcp_trailer (rtcp_conf st) seq) in *.
  assert (LT : lenZ tr = 4) by (subst tr; unfold rtcp_trailer; rewrite lenZ_be_bytes; reflexivity).
  eapply t_bind; [apply t_wr_facts; [exact HD|lia|lia|subst P; destruct al; away_tac]|intros ?].
  eapply t_bind; [apply t_log_encrypt_iv|intros ?].
  destruct (cipher_output (cipher_start (k_rtcp_c k) (rtcp_iv (ck_alg (k_rtcp_c k)) (be32 pkt 4) seq)) (ak_prefix (k_rtcp_a k)))
    as [[ps cs1] ks] eqn:EP.
  rewrite (rtcp_wire_eq st k seq ps cs1 ks EP) in SPEC.
  destruct (ps =? st_ok) eqn:EPS; cbn [negb] in *.
  2:{ apply t_bind_exit. intros w Hw. exact (prot_exit _ _ _ _ _ Hw SPEC). }
  assert (LK : lenZ ks = ak_prefix (k_rtcp_a k)).
  { pose proof (cipher_output_ok_length _ _ _ _ _ EP EPS) as H. unfold lenZ, zn in *. lia. }
  eapply t_bind; [apply t_wr_facts; [exact HD|lia|lia|subst P; destruct al; away_tac]|intros ?].
  (* payload *)
  eapply t_bind2;
    [eapply t_weaken;
       [|apply (payload_step ss2 (rtcp_conf st) cs1 (L - 8) (drop 8 pkt)
                  [(L + 4 + s_mki_size st, ks); (L, tr); (L + 4, mki); (0, take 8 pkt)])]| |intros ?].
  { intros dd _ Hf. apply (facts_sub _ _ _ Hf). subst P. destruct al; cbn; intros f Hin; cbn in *; tauto. }
  { lia. } { lia. } { lia. } { exact LP. }
  { intros EA. pose proof (in_slice 8 (L - 8)) as I2. rewrite EA in I2. rewrite I2 by lia. apply pkt_pay. exact E0'. }
  { away_tac. }
  { intros s w (EB & -> & Hw). rewrite EB in SPEC. exact (prot_exit _ _ _ _ _ Hw SPEC). }
  apply t_ex; intros enc. apply t_pure; intros EB. apply t_pure; intros LE.
  rewrite EB in SPEC. cbv zeta in SPEC.
  (* tag *)
  eapply t_bind; [apply t_rd_dst; lia|intros m]. apply t_pure; intros (dd & Hf & Hdl & ->).
  assert (Hm : slice (zn 0) (zn (L + 4)) dd = take 8 pkt ++ enc ++ tr).
  { replace (zn (L + 4)) with (length (concat [take 8 pkt; enc; tr]))
      by (cbn [concat]; rewrite !app_length; cbn [length]; unfold lenZ, zn in *; lia).
    rewrite chain_slice; [cbn [concat]; rewrite app_nil_r; reflexivity|lia|].
    cbn [chain]. rewrite LH, LE. replace (0 + 8 + (L - 8)) with L by lia.
    repeat split; apply (fact_get _ _ _ _ Hf); cbn; tauto. }
  rewrite Hm. set (tag := auth_compute (k_rtcp_a k) (take 8 pkt ++ enc ++ tr)) in *.
  assert (KT : (lenZ tag = ak_tag (k_rtcp_a k) /\ ak_prefix (k_rtcp_a k) = 0) \/
               (lenZ tag = 0 /\ ak_prefix (k_rtcp_a k) = ak_tag (k_rtcp_a k))).
  { subst tag. rewrite auth_compute_length by lia. destruct (ak_kind (k_rtcp_a k) =? SRTP_HMAC_SHA1_c); auto. }
  eapply t_bind; [apply t_wr_facts; [exact HD|lia|lia|destruct KT as [[K1 K2]|[K1 K2]]; away_tac]|intros ?].
  apply t_ret. intros w Hw. destruct Hw as (h0 & h1 & h2 & h3 & h4 & h5 & h6 & h7).
  exists ((take 8 pkt ++ enc ++ tr) ++ mki ++ tag ++ drop (length tag) ks).
  rewrite h0. split; [exact SPEC|].
  assert (LW : lenZ ((take 8 pkt ++ enc ++ tr) ++ mki ++ tag ++ drop (length tag) ks)
               = L + 4 + s_mki_size st + ak_tag (k_rtcp_a k)).
  { unfold lenZ in *. rewrite !app_length, drop_length. destruct KT as [[K1 K2]|[K1 K2]]; lia. }
  split; [rewrite LW, u64_small by lia; lia|].
  split; [|auto].
  rewrite u64_small by lia.
  replace (8 + (L - 8) + ak_tag (k_rtcp_a k) + 4 + s_mki_size st) with
     (lenZ ((take 8 pkt ++ enc ++ tr) ++ mki ++ tag ++ drop (length tag) ks)) by lia.
  rewrite zn_len, <- slice_0.
  replace ((take 8 pkt ++ enc ++ tr) ++ mki ++ tag ++ drop (length tag) ks)
    with (concat [take 8 pkt; enc; tr; mki; tag; drop (length tag) ks])
    by (cbn [concat]; rewrite app_nil_r, <- !app_assoc; reflexivity).
  apply (chain_slice _ 0); [lia|].
  cbn [chain]. rewrite LH, LE, LT, LM.
  replace (0 + 8 + (L - 8)) with L by lia.
  assert (G : forall o v, In (o, v) [(L + 4 + s_mki_size st, tag); (8, enc); (L + 4 + s_mki_size st, ks); (L, tr); (L + 4, mki); (0, take 8 pkt)] ->
                     slice (zn o) (length v) (b_dst (w_b w)) = v) by (intros o v; apply (fact_get _ _ _ _ h7)).
  repeat split; try (apply G; cbn; tauto).
  destruct KT as [[K1 K2]|[K1 K2]].
  - assert (ks = []) as -> by (apply length0_nil; unfold lenZ in *; lia).
    destruct (length tag); reflexivity.
  - assert (tag = []) as Et by (apply length0_nil; unfold lenZ in *; lia).
    rewrite Et. cbn [length drop]. rewrite Z.add_0_r. apply G. cbn; tauto.
Qed.

(* ===================================================================== *)
(* 6. srtp_unprotect_rtcp                                                 *)
(* ===================================================================== *)
Lemma t_conseq {A} (P : world -> Prop) (m : M A) (Q Q' : A -> world -> Prop) (E E' : Z -> world -> Prop) :
  tri P m Q' E' -> (forall a w, Q' a w -> Q a w) -> (forall s w, E' s w -> E s w) -> tri P m Q E.
Proof. intros H I J w HP. specialize (H w HP). destruct (m w) as [w1 [a|st]]; auto. Qed.

Lemma t_get_s ss D E : tri (S ss D) get_s (fun s w => s = ss /\ S ss D w) E.
Proof. intros w Hw. cbn. split; [exact (proj1 Hw)|exact Hw]. Qed.

Lemma t_keys_by_packet ss st tl0 :
  stream_wf st -> 0 <= tl0 ->
  tri (S ss (eq d0)) (keys_by_packet st L tl0)
      (fun ik w => receiver_key_st st pkt L tl0 = inl ik /\ S ss (eq d0) w)
      (fun s w => receiver_key_st st pkt L tl0 = inr s /\ S ss (eq d0) w).
Proof.
  intros (M & _ & _) Htl. unfold keys_by_packet, receiver_key_st.
  destruct (negb (s_use_mki st)).
  - destruct (s_keys st) as [|k t]; [apply t_exit; auto|apply t_ret; auto].
  - destruct (L <? tl0) eqn:E1; [apply t_exit; auto|].
    destruct (L - tl0 <? s_mki_size st) eqn:E2; [apply t_exit; auto|].
    apply Z.ltb_ge in E1, E2.
    eapply t_bind; [apply t_rd_src0; lia|intros m]. apply t_pure; intros ->.
    destruct (find_mki (s_keys st) _ 0) as [r|]; [apply t_ret; auto|apply t_exit; auto].
Qed.

Lemma t_rx_prefix ss D cs0 prefix :
  tri (S ss D)
      (if negb (prefix =? 0) then
         let '(s, cs', ks) := cipher_output cs0 prefix in
         if negb (s =? st_ok) then exit_with st_cipher_fail
         else if SRTP_MAX_TAG_LEN_c <? prefix then exit_with st_model_oob
         else ret (cs', ks)
       else ret (cs0, []))
      (fun p w => rtcp_rx_prefix cs0 prefix = inl p /\ S ss D w)
      (fun s w => rtcp_rx_prefix cs0 prefix = inr s /\ S ss D w).
Proof.
  unfold rtcp_rx_prefix. destruct (negb (prefix =? 0)); [|apply t_ret; auto].
  destruct (cipher_output cs0 prefix) as [[s cs'] ks].
  destruct (negb (s =? st_ok)); [apply t_exit; auto|].
  destruct (SRTP_MAX_TAG_LEN_c <? prefix); [apply t_exit; auto|apply t_ret; auto].
Qed.

Definition UPreQ (u : cpre) (w : world) : Prop :=
  (unprotect_rtcp_pre_fun ss0 C pkt = inl u /\ c_ref u = RList (be32 pkt 4) /\ c_ssrc u = be32 pkt 4 /\
   0 <= c_enc_len u /\ 8 + c_enc_len u <= L /\ 8 + c_enc_len u <= C /\
   L - (c_tag_len u + 4) - c_mki u = 8 + c_enc_len u) /\ S ss0 (eq d0) w.
Definition UPreE (s : Z) (w : world) : Prop :=
  unprotect_rtcp_pre_fun ss0 C pkt = inr s /\ S ss0 (eq d0) w.

Lemma unprotect_rtcp_pre_tri : tri (S ss0 (eq d0)) unprotect_rtcp_pre UPreQ UPreE.
Proof.
  pose proof (eq_refl (unprotect_rtcp_pre_fun ss0 C pkt)) as SPEC.
  unfold unprotect_rtcp_pre_fun at 2 in SPEC.
  unfold rtcp_rx_trailer, rtcp_rx_ebit, rtcp_rx_index, rtcp_rx_conf in SPEC. cbv zeta in SPEC.
  rewrite HLp, Hget in SPEC.
  unfold unprotect_rtcp_pre, UPreQ, UPreE.
  eapply t_bind; [apply t_get_b0|intros b]. apply t_pure; intros ->.
  cbv beta zeta. norm_b.
  change octets_in_rtcp_header_c with 8. change trailer_len with 4.
  destruct (L <? 8 + 4) eqn:E0.
  { apply t_bind_exit. intros w Hw. exact (conj SPEC Hw). }
  apply t_bind_ret. apply Z.ltb_ge in E0.
  eapply t_bind; [apply t_get_s|intros ss]. apply t_pure; intros ->.
  rewrite Hget. apply t_bind_ret.
  eapply t_bind; [apply t_get_stream_list; exact Hget|intros st]. apply t_pure; intros ->.
  change (match s_keys st0 with k0 :: _ => ak_tag (k_rtcp_a k0) | [] => 0 end) with (rtcp_tl0 st0).
  assert (T0 : 0 <= rtcp_tl0 st0).
  { unfold rtcp_tl0. destruct (s_keys st0) as [|k0 t] eqn:EK0; [lia|].
    assert (I0 : In k0 (s_keys st0)) by (rewrite EK0; left; reflexivity).
    destruct (stream_wf_key _ _ Hwf I0) as (_ & _ & [T _]). lia. }
  eapply t_bind2; [apply (t_keys_by_packet ss0 st0 (rtcp_tl0 st0) Hwf T0)| |intros [ki k]].
  { intros s w [EK Hw]. rewrite EK in SPEC. exact (conj SPEC Hw). }
  apply t_pure; intros EK. rewrite EK in SPEC. cbv beta iota in SPEC.
  assert (Hk : In k (s_keys st0)).
  { revert EK. unfold receiver_key_st. destruct (negb (s_use_mki st0)).
    - destruct (s_keys st0) as [|k1 t]; [discriminate|]. intros H; injection H as _ <-. left; reflexivity.
    - destruct (L <? rtcp_tl0 st0); [discriminate|]. destruct (L - rtcp_tl0 st0 <? s_mki_size st0); [discriminate|].
      destruct (find_mki (s_keys st0) _ 0) as [r|] eqn:F; [|discriminate]. intros H; injection H as ->.
      exact (find_mki_In _ _ _ _ F). }
  pose proof (stream_wf_key _ _ Hwf Hk) as (MK & _ & TA).
  pose proof Hwf as (M & U & _). rewrite max_mki_value in M.
  pose proof (akey_prefix_le _ TA) as PL. pose proof TA as [T KP]. rewrite max_tag_value in T.
  destruct (L <? 8 + 4 + s_mki_size st0 + ak_tag (k_rtcp_a k)) eqn:E1.
  { apply t_bind_exit. intros w Hw. exact (conj SPEC Hw). }
  apply t_bind_ret. apply Z.ltb_ge in E1.
  eapply t_bind; [apply t_rd_src0; lia|intros tr]. apply t_pure; intros ->.
  match goal with |- context [Bool.eqb ?a ?b] => destruct (Bool.eqb a b) eqn:EE end.
  2:{ apply t_bind_exit. intros w Hw. exact (conj SPEC Hw). }
  apply t_bind_ret.
  unfold check_st.
  match goal with |- context [rdb_check ?a ?b =? st_ok] => destruct (rdb_check a b =? st_ok) eqn:ER end.
  2:{ apply t_bind_exit. intros w Hw. exact (conj SPEC Hw). }
  apply t_bind_ret.
  eapply t_bind2; [apply t_rx_prefix| |intros pre].
  { intros s w [EP Hw]. rewrite EP in SPEC. exact (conj SPEC Hw). }
  apply t_pure; intros EP. rewrite EP in SPEC.
  eapply t_bind; [apply t_rd_src0; lia|intros m]. apply t_pure; intros ->.
  match goal with |- context [SRTP_MAX_TAG_LEN_c <? lenZ ?a] => destruct (SRTP_MAX_TAG_LEN_c <? lenZ a) eqn:EM end.
  { apply t_bind_exit. intros w Hw. exact (conj SPEC Hw). }
  apply t_bind_ret.
  eapply t_bind; [apply t_rd_src0; lia|intros t]. apply t_pure; intros ->.
  match goal with |- context [beqb ?a ?b] => destruct (beqb a b) eqn:EB end.
  2:{ apply t_bind_exit. intros w Hw. exact (conj SPEC Hw). }
  apply t_bind_ret.
  destruct (C <? u64 (L - 4 - s_mki_size st0 - ak_tag (k_rtcp_a k))) eqn:E2.
  { apply t_bind_exit. intros w Hw. exact (conj SPEC Hw). }
  apply t_bind_ret. apply Z.ltb_ge in E2. rewrite u64_small in E2 by lia.
  apply t_ret. intros w Hw. split; [|exact Hw].
  split; [exact SPEC|]. cbn [c_ref c_ssrc c_enc_len c_tag_len c_mki].
  repeat split; lia.
Qed.

(* out of place: the 8-octet header is copied; afterwards the output holds the header and,
   in place, still the input payload *)
Lemma header_step ss n payload E :
  8 <= L -> 8 <= C -> 0 <= n -> 8 + n <= L -> payload = slice (zn 8) (zn n) pkt ->
  tri (S ss (eq d0)) (if al then ret tt else (h <- rd_src 0 8 ;; wr_dst 0 h))
      (fun _ => S ss (facts_ok ((if al then [(8, payload)] else []) ++ [(0, take 8 pkt)]))) E.
Proof.
  intros H8 HC8 Hn HnL Hp.
  assert (LPy : length payload = zn n).
  { pose proof (lenZ_slice_eq 8 n pkt) as H. rewrite <- Hp in H. unfold lenZ, zn in *. lia. }
  pose proof (hdr_len H8) as LH.
  pose proof (in_slice 0 8) as I1. pose proof (in_slice 8 n) as I2.
  destruct al eqn:EA; cbv iota in I1, I2.
  - apply t_ret. intros w Hw. eapply St_weaken; [|exact Hw]. intros dd _ Hdd. rewrite <- Hdd.
    constructor; [|constructor; [|constructor]]; (split; [cbn [fst]; lia|cbn [fst snd]]).
    + rewrite LPy, I2 by lia. symmetry; exact Hp.
    + replace (length (take 8 pkt)) with (zn 8) by (unfold lenZ, zn in *; lia). apply I1; lia.
  - eapply t_bind; [apply t_rd_src; lia|intros h]. apply t_pure; intros (dd & _ & _ & ->).
    rewrite I1 by lia.
    apply t_weaken with (D' := facts_ok []); [intros; constructor|].
    change (slice (zn 0) (zn 8) pkt) with (take 8 pkt).
    apply t_wr_facts; [exact HD|lia|lia|constructor].
Qed.

Definition UQ (l : Z) (w : world) : Prop :=
  exists out, unprotect_rtcp_fun ss0 C pkt = (w_s w, inl out) /\ l = lenZ out /\
              take (zn l) (b_dst (w_b w)) = out /\ b_src (w_b w) = src /\ b_oob (w_b w) = false.
Definition UE (s : Z) (w : world) : Prop :=
  unprotect_rtcp_fun ss0 C pkt = (w_s w, inr s) /\ b_src (w_b w) = src /\ b_oob (w_b w) = false.

Lemma unprotect_rtcp_post_tri u :
  c_ref u = RList (be32 pkt 4) -> c_ssrc u = be32 pkt 4 ->
  0 <= c_enc_len u -> 8 + c_enc_len u <= L -> 8 + c_enc_len u <= C ->
  L - (c_tag_len u + 4) - c_mki u = 8 + c_enc_len u ->
  tri (S ss0 (eq d0)) (unprotect_rtcp_post u)
      (fun l w => exists out, unprotect_rtcp_post_fun ss0 u pkt = (w_s w, inl out) /\ l = lenZ out /\
                  take (zn l) (b_dst (w_b w)) = out /\ b_src (w_b w) = src /\ b_oob (w_b w) = false)
      (fun s w => unprotect_rtcp_post_fun ss0 u pkt = (w_s w, inr s) /\ b_src (w_b w) = src /\ b_oob (w_b w) = false).
Proof.
  intros Href Hssrc U1 U2 U3 U4.
  pose proof (eq_refl (unprotect_rtcp_post_fun ss0 u pkt)) as SPEC.
  unfold unprotect_rtcp_post_fun at 2 in SPEC. rewrite Hssrc, Hget in SPEC. cbv zeta in SPEC.
  unfold unprotect_rtcp_post.
  eapply t_bind; [apply t_get_b0|intros b]. apply t_pure; intros ->.
  cbv beta zeta. norm_b.
  change octets_in_rtcp_header_c with 8. change trailer_len with 4.
  set (payload := slice (zn 8) (zn (c_enc_len u)) pkt) in *.
  assert (LPy : lenZ payload = c_enc_len u) by (apply lenZ_slice_eq; lia).
  assert (LH : lenZ (take 8 pkt) = 8) by (apply hdr_len; lia).
  eapply t_bind; [apply (header_step ss0 (c_enc_len u) payload); [lia|lia|lia|lia|reflexivity]|intros ?].
  eapply t_bind2; [apply (payload_step ss0 (c_conf u) (c_cs u) (c_enc_len u) payload [(0, take 8 pkt)])| |intros ?].
  { lia. } { lia. } { lia. } { exact LPy. }
  { intros EA. pose proof (in_slice 8 (c_enc_len u)) as I2. rewrite EA in I2. apply I2; lia. }
  { away_tac. }
  { intros s w (EB & -> & Hw). rewrite EB in SPEC. destruct (St_exit _ _ _ Hw) as (e1 & e2 & e3). rewrite e1. auto. }
  apply t_ex; intros enc. apply t_pure; intros EB. apply t_pure; intros LE. rewrite EB in SPEC.
  rewrite Href.
  eapply t_bind; [eapply t_check_direction; exact Hget|intros ?].
  unfold materialize. apply t_bind_ret.
  eapply t_bind; [apply t_get_stream_list; apply dir_session_get; exact Hget|intros st2]. apply t_pure; intros ->.
  eapply t_bind; [apply t_put_stream_list|intros ?].
  apply t_ret. intros w (h0 & h1 & h2 & h3 & h4 & h5 & h6 & h7).
  exists (take 8 pkt ++ enc). rewrite h0. split; [exact SPEC|].
  assert (LW : lenZ (take 8 pkt ++ enc) = 8 + c_enc_len u) by (unfold lenZ in *; rewrite app_length; lia).
  rewrite U4, u64_small by lia. split; [lia|]. split; [|auto].
  rewrite <- LW, zn_len, <- slice_0.
  replace (take 8 pkt ++ enc) with (concat [take 8 pkt; enc]) by (cbn [concat]; rewrite app_nil_r; reflexivity).
  apply (chain_slice _ 0); [lia|]. cbn [chain]. rewrite LH.
  repeat split; apply (fact_get _ _ _ _ h7); cbn; tauto.
Qed.

Lemma unprotect_rtcp_tri : tri (S ss0 (eq d0)) unprotect_rtcp UQ UE.
Proof.
  unfold unprotect_rtcp. eapply t_bind2; [apply unprotect_rtcp_pre_tri| |intros u].
  - intros s w [EP Hw]. destruct (St_exit _ _ _ Hw) as (e1 & e2 & e3).
    unfold UE, unprotect_rtcp_fun. rewrite EP, e1. auto.
  - unfold UPreQ. apply t_pure. intros (EP & H1 & H2 & H3 & H4 & H5 & H6).
    eapply t_conseq; [apply unprotect_rtcp_post_tri; assumption| |].
    + intros l w (out & A & B). exists out. unfold unprotect_rtcp_fun. rewrite EP. auto.
    + intros s w (A & B). unfold UE, unprotect_rtcp_fun. rewrite EP. auto.
Qed.
End RTCP_REF.

(* ===================================================================== *)
(* 7. the theorems, for worlds                                            *)
(* ===================================================================== *)
(* what is asked of the buffers of a call: sizes are size_t values of real objects; the
   output block holds *out_len octets, the input block holds `len` octets; no out-of-bounds
   access flagged so far *)
Definition rtcp_world_ok (w : world) : Prop :=
  session_wf (w_s w) /\ b_oob (w_b w) = false /\
  size_ok (b_len (w_b w)) /\ size_ok (b_cap (w_b w)) /\
  b_cap (w_b w) <= lenZ (b_dst (w_b w)) /\ b_len (w_b w) <= lenZ (cur_src (w_b w)).
(* the packet handed to the call *)
Definition in_pkt (w : world) : bytes := take (zn (b_len (w_b w))) (cur_src (w_b w)).

Lemma in_pkt_len w : rtcp_world_ok w -> lenZ (in_pkt w) = b_len (w_b w).
Proof.
  intros (_ & _ & [H1 _] & _ & _ & H2). unfold in_pkt, lenZ in *. rewrite take_length. unfold zn. lia.
Qed.
Lemma St_init w : b_oob (w_b w) = false ->
  St (b_len (w_b w)) (b_cap (w_b w)) (b_alias (w_b w)) (b_src (w_b w)) (b_dst (w_b w)) (w_s w) (eq (b_dst (w_b w))) w.
Proof. intros H. unfold St. repeat split. exact H. Qed.

(* REFINEMENT, srtp_protect_rtcp, both alias modes *)
Theorem protect_rtcp_refines w i st w' r :
  rtcp_world_ok w -> list_get (ss_list (w_s w)) (be32 (in_pkt w) 4) = Some st ->
  protect_rtcp i w = (w', r) ->
  b_src (w_b w') = b_src (w_b w) /\ b_oob (w_b w') = false /\
  match r with
  | inl l => exists wire,
      protect_rtcp_fun (w_s w) i (b_cap (w_b w)) (in_pkt w) = (w_s w', inl wire) /\
      l = lenZ wire /\ take (zn l) (b_dst (w_b w')) = wire
  | inr s => protect_rtcp_fun (w_s w) i (b_cap (w_b w)) (in_pkt w) = (w_s w', inr s)
  end.
Proof.
  intros OK Hg E. pose proof (in_pkt_len w OK) as HLp.
  destruct OK as ((_ & WL) & HO & HL & HC & HD & HS).
  pose proof (list_get_SP _ _ _ _ WL Hg) as Wst.
  pose proof (protect_rtcp_tri _ _ (b_alias (w_b w)) (b_src (w_b w)) _ (in_pkt w) HL HC HD eq_refl HLp
                (w_s w) st Hg Wst i w (St_init w HO)) as T.
  rewrite E in T. destruct r as [l|s].
  - destruct T as (wire & A & B & Cc & Dd & Ee). split; [exact Dd|]. split; [exact Ee|]. exists wire. auto.
  - destruct T as (A & Dd & Ee). auto.
Qed.
Print Assumptions protect_rtcp_refines.

(* REFINEMENT, srtp_unprotect_rtcp, both alias modes *)
Theorem unprotect_rtcp_refines w st w' r :
  rtcp_world_ok w -> list_get (ss_list (w_s w)) (be32 (in_pkt w) 4) = Some st ->
  unprotect_rtcp w = (w', r) ->
  b_src (w_b w') = b_src (w_b w) /\ b_oob (w_b w') = false /\
  match r with
  | inl l => exists out,
      unprotect_rtcp_fun (w_s w) (b_cap (w_b w)) (in_pkt w) = (w_s w', inl out) /\
      l = lenZ out /\ take (zn l) (b_dst (w_b w')) = out
  | inr s => unprotect_rtcp_fun (w_s w) (b_cap (w_b w)) (in_pkt w) = (w_s w', inr s)
  end.
Proof.
  intros OK Hg E. pose proof (in_pkt_len w OK) as HLp.
  destruct OK as ((_ & WL) & HO & HL & HC & HD & HS).
  pose proof (list_get_SP _ _ _ _ WL Hg) as Wst.
  pose proof (unprotect_rtcp_tri _ _ (b_alias (w_b w)) (b_src (w_b w)) _ (in_pkt w) HL HC HD eq_refl HLp
                (w_s w) st Hg Wst w (St_init w HO)) as T.
  rewrite E in T. destruct r as [l|s].
  - destruct T as (out & A & B & Cc & Dd & Ee). split; [exact Dd|]. split; [exact Ee|]. exists out. auto.
  - destruct T as (A & Dd & Ee). auto.
Qed.
Print Assumptions unprotect_rtcp_refines.

(* ---- the wire format of a successful srtp_protect_rtcp ---- *)
Lemma rtcp_wire_cfg st st' k seq pkt :
  s_rtcp_serv st' = s_rtcp_serv st -> s_use_mki st' = s_use_mki st ->
  rtcp_wire st' k seq pkt = rtcp_wire st k seq pkt.
Proof. intros H1 H2. unfold rtcp_wire, rtcp_conf. rewrite H1, H2. reflexivity. Qed.

Lemma sender_key_st_nth st i ki k :
  sender_key_st st i = inl (ki, k) -> nth_error (s_keys st) (zn (if s_use_mki st then i else 0)) = Some k.
Proof.
  unfold sender_key_st. destruct (s_use_mki st && _); [discriminate|].
  destruct (nth_error (s_keys st) _) eqn:E; [|discriminate]. intros H. injection H as _ <-. reflexivity.
Qed.

Lemma protect_rtcp_fun_ok ss i C pkt ss' wire st :
  list_get (ss_list ss) (be32 pkt 4) = Some st ->
  protect_rtcp_fun ss i C pkt = (ss', inl wire) ->
  exists k, sender_key st i = Some k /\
            rtcp_wire st k (u32 (wstart (s_rdb st) + 1)) pkt = Some wire /\
            wstart (s_rdb st) < rtcp_ceiling_c /\
            lenZ pkt + 4 + s_mki_size st + ak_tag (k_rtcp_a k) <= C /\
            ss' = sess_put (dir_session ss (be32 pkt 4) st dir_srtp_sender_c) (be32 pkt 4)
                    (set_rdb (dir_stream st dir_srtp_sender_c)
                       {| wstart := u32 (wstart (s_rdb st) + 1); bitmask := bitmask (s_rdb st) |}).
Proof.
  intros Hg. unfold protect_rtcp_fun. cbv zeta.
  destruct (lenZ pkt <? 8); [discriminate|]. rewrite Hg.
  destruct (sender_key_st (dir_stream st dir_srtp_sender_c) i) as [[ki k]|e] eqn:EK; [|discriminate].
  pose proof (dir_stream_cfg st dir_srtp_sender_c) as Hc. pose proof Hc as (_ & Em & Eu & _).
  rewrite Em, dir_stream_rdb.
  destruct (C <? _) eqn:E1; [discriminate|]. destruct (rtcp_ceiling_c <=? wstart (s_rdb st)) eqn:ER; [discriminate|].
  cbn [wstart]. rewrite (rtcp_wire_cfg st (dir_stream st dir_srtp_sender_c)) by (try apply dir_stream_serv; exact Eu).
  destruct (rtcp_wire st k _ pkt) as [wr|] eqn:EW; [|discriminate].
  intros H. injection H as <- <-. exists k.
  split; [exact (cfg_sender_key _ _ _ _ Hc (sender_key_st_nth _ _ _ _ EK))|].
  split; [exact EW|]. apply Z.ltb_ge in E1. apply Z.leb_gt in ER. auto.
Qed.

(* if srtp_protect_rtcp succeeds, the first l octets of the destination are rtcp_wire of the
   stream, of the key selected by the MKI index, of the incremented SRTCP index and of the
   packet — whether the call works in place or not, whatever the destination held before *)
Theorem protect_rtcp_wire w i st w' l :
  rtcp_world_ok w -> list_get (ss_list (w_s w)) (be32 (in_pkt w) 4) = Some st ->
  protect_rtcp i w = (w', inl l) ->
  exists k wire,
    sender_key st i = Some k /\
    rtcp_wire st k (u32 (wstart (s_rdb st) + 1)) (in_pkt w) = Some wire /\
    l = lenZ wire /\ take (zn l) (b_dst (w_b w')) = wire.
Proof.
  intros OK Hg E. destruct (protect_rtcp_refines w i st w' _ OK Hg E) as (_ & _ & wire & A & B & Cc).
  destruct (protect_rtcp_fun_ok _ _ _ _ _ _ _ Hg A) as (k & K1 & K2 & _). exists k, wire. auto.
Qed.
Print Assumptions protect_rtcp_wire.

(* the same with the index written wstart + 1, for a replay database whose window start is
   not negative (it is a uint32_t in C) *)
Corollary protect_rtcp_wire_succ w i st w' l :
  rtcp_world_ok w -> list_get (ss_list (w_s w)) (be32 (in_pkt w) 4) = Some st ->
  0 <= wstart (s_rdb st) ->
  protect_rtcp i w = (w', inl l) ->
  exists k wire,
    sender_key st i = Some k /\
    rtcp_wire st k (wstart (s_rdb st) + 1) (in_pkt w) = Some wire /\
    l = lenZ wire /\ take (zn l) (b_dst (w_b w')) = wire.
Proof.
  intros OK Hg H0 E. destruct (protect_rtcp_refines w i st w' _ OK Hg E) as (_ & _ & wire & A & B & Cc).
  destruct (protect_rtcp_fun_ok _ _ _ _ _ _ _ Hg A) as (k & K1 & K2 & K3 & _). exists k, wire.
  change rtcp_ceiling_c with 2147483647 in K3.
  unfold u32 in K2. rewrite Z.mod_small in K2 by lia. auto.
Qed.
Print Assumptions protect_rtcp_wire_succ.

(* ---- C12: alias mode and destination prefill do not matter ---- *)
Theorem protect_rtcp_alias_independent w1 w2 i st w1' w2' r1 r2 :
  rtcp_world_ok w1 -> rtcp_world_ok w2 ->
  w_s w1 = w_s w2 -> b_cap (w_b w1) = b_cap (w_b w2) -> in_pkt w1 = in_pkt w2 ->
  list_get (ss_list (w_s w1)) (be32 (in_pkt w1) 4) = Some st ->
  protect_rtcp i w1 = (w1', r1) -> protect_rtcp i w2 = (w2', r2) ->
  w_s w1' = w_s w2' /\
  match r1, r2 with
  | inl l1, inl l2 => l1 = l2 /\ take (zn l1) (b_dst (w_b w1')) = take (zn l2) (b_dst (w_b w2'))
  | inr s1, inr s2 => s1 = s2
  | _, _ => False
  end /\
  b_src (w_b w1') = b_src (w_b w1) /\ b_src (w_b w2') = b_src (w_b w2).
Proof.
  intros OK1 OK2 ES EC EP Hg E1 E2.
  destruct (protect_rtcp_refines w1 i st w1' r1 OK1 Hg E1) as (S1 & _ & R1).
  assert (Hg2 : list_get (ss_list (w_s w2)) (be32 (in_pkt w2) 4) = Some st) by (rewrite <- ES, <- EP; exact Hg).
  destruct (protect_rtcp_refines w2 i st w2' r2 OK2 Hg2 E2) as (S2 & _ & R2).
  rewrite <- ES, <- EC, <- EP in R2.
  destruct r1 as [l1|s1], r2 as [l2|s2].
  - destruct R1 as (x1 & A1 & B1 & C1), R2 as (x2 & A2 & B2 & C2). rewrite A1 in A2. injection A2 as Ea Eb.
    subst x2. repeat split; try assumption; congruence.
  - destruct R1 as (x1 & A1 & _). rewrite A1 in R2. discriminate R2.
  - destruct R2 as (x2 & A2 & _). rewrite A2 in R1. discriminate R1.
  - rewrite R1 in R2. injection R2 as Ea Eb. repeat split; assumption.
Qed.
Print Assumptions protect_rtcp_alias_independent.

(* the instance asked for: w1 works in place on a block that starts with the packet, w2 out
   of place from a source that starts with the same packet, into ANY destination prefill *)
Corollary protect_rtcp_inplace_vs_outofplace w1 w2 i st w1' w2' r1 r2 :
  rtcp_world_ok w1 -> rtcp_world_ok w2 ->
  b_alias (w_b w1) = true -> b_alias (w_b w2) = false ->
  w_s w1 = w_s w2 -> b_cap (w_b w1) = b_cap (w_b w2) -> b_len (w_b w1) = b_len (w_b w2) ->
  take (zn (b_len (w_b w1))) (b_dst (w_b w1)) = take (zn (b_len (w_b w1))) (b_src (w_b w2)) ->
  list_get (ss_list (w_s w1)) (be32 (in_pkt w1) 4) = Some st ->
  protect_rtcp i w1 = (w1', r1) -> protect_rtcp i w2 = (w2', r2) ->
  w_s w1' = w_s w2' /\
  match r1, r2 with
  | inl l1, inl l2 => l1 = l2 /\ take (zn l1) (b_dst (w_b w1')) = take (zn l2) (b_dst (w_b w2'))
  | inr s1, inr s2 => s1 = s2
  | _, _ => False
  end /\
  b_src (w_b w2') = b_src (w_b w2).
Proof.
  intros OK1 OK2 A1 A2 ES EC EL EP Hg E1 E2.
  assert (EP' : in_pkt w1 = in_pkt w2).
  { unfold in_pkt, cur_src. rewrite A1, A2, <- EL. exact EP. }
  destruct (protect_rtcp_alias_independent w1 w2 i st w1' w2' r1 r2 OK1 OK2 ES EC EP' Hg E1 E2) as (H1 & H2 & _ & H4).
  auto.
Qed.
Print Assumptions protect_rtcp_inplace_vs_outofplace.

Theorem unprotect_rtcp_alias_independent w1 w2 st w1' w2' r1 r2 :
  rtcp_world_ok w1 -> rtcp_world_ok w2 ->
  w_s w1 = w_s w2 -> b_cap (w_b w1) = b_cap (w_b w2) -> in_pkt w1 = in_pkt w2 ->
  list_get (ss_list (w_s w1)) (be32 (in_pkt w1) 4) = Some st ->
  unprotect_rtcp w1 = (w1', r1) -> unprotect_rtcp w2 = (w2', r2) ->
  w_s w1' = w_s w2' /\
  match r1, r2 with
  | inl l1, inl l2 => l1 = l2 /\ take (zn l1) (b_dst (w_b w1')) = take (zn l2) (b_dst (w_b w2'))
  | inr s1, inr s2 => s1 = s2
  | _, _ => False
  end /\
  b_src (w_b w1') = b_src (w_b w1) /\ b_src (w_b w2') = b_src (w_b w2).
Proof.
  intros OK1 OK2 ES EC EP Hg E1 E2.
  destruct (unprotect_rtcp_refines w1 st w1' r1 OK1 Hg E1) as (S1 & _ & R1).
  assert (Hg2 : list_get (ss_list (w_s w2)) (be32 (in_pkt w2) 4) = Some st) by (rewrite <- ES, <- EP; exact Hg).
  destruct (unprotect_rtcp_refines w2 st w2' r2 OK2 Hg2 E2) as (S2 & _ & R2).
  rewrite <- ES, <- EC, <- EP in R2.
  destruct r1 as [l1|s1], r2 as [l2|s2].
  - destruct R1 as (x1 & A1 & B1 & C1), R2 as (x2 & A2 & B2 & C2). rewrite A1 in A2. injection A2 as Ea Eb.
    subst x2. repeat split; try assumption; congruence.
  - destruct R1 as (x1 & A1 & _). rewrite A1 in R2. discriminate R2.
  - destruct R2 as (x2 & A2 & _). rewrite A2 in R1. discriminate R1.
  - rewrite R1 in R2. injection R2 as Ea Eb. repeat split; assumption.
Qed.
Print Assumptions unprotect_rtcp_alias_independent.
