(* UpdateProofs.v — C15: an update that is refused because the new policy is not
   acceptable leaves every previously working stream working.
   - build_stream never touches the session; when it exits the heap's live count
     is back where it was;
   - stream_update_specific (explicit SSRC): any exit (with no allocation failure
     scheduled) leaves session and live count unchanged; on success only the
     entry of that SSRC changes and it keeps the old packet index and SRTCP window;
   - update_template: every exit before the streams start to be moved leaves the
     session unchanged. *)
From Coq Require Import NArith ZArith List Bool Lia.
From Srtp Require Import Util Constants KeyLimit Rdb Rdbx Icm World Stream Rtp Session MonadLemmas TableProofs.
Import ListNotations.
Local Open Scope Z_scope.

(* ---- small inversion facts ---- *)
Lemma check_st_inv s w w' (r : unit + Z) :
  check_st s w = (w', r) -> w' = w /\ ((r = inl tt /\ s = st_ok) \/ (r = inr s /\ s <> st_ok)).
Proof.
  unfold check_st. destruct (s =? st_ok) eqn:E; intros H.
  - unfold ret in H. injection H as <- <-. apply Z.eqb_eq in E. auto.
  - unfold exit_with in H. injection H as <- <-. apply Z.eqb_neq in E. auto.
Qed.

Lemma live_now_eq w : live_now w = (w, inl (h_live (w_h w))).
Proof. reflexivity. Qed.

Lemma release_since_inv m w w' (r : unit + Z) :
  release_since m w = (w', r) ->
  r = inl tt /\ h_live (w_h w') = m /\ w_s w' = w_s w /\ w_ev w' = w_ev w /\ h_fail (w_h w') = h_fail (w_h w).
Proof.
  unfold release_since, live_now, free_n, bind, get_h, put_h, ret. cbn.
  intros H. injection H as <- <-. cbn. repeat split; auto. lia.
Qed.

Lemma catch_no_exit {A} (m : M A) w w' st : catch m w = (w', inr st) -> False.
Proof. unfold catch. destruct (m w). discriminate. Qed.

Lemma catch_inv {A} (m : M A) w w' r : catch m w = (w', inl r) -> m w = (w', r).
Proof. unfold catch. destruct (m w) as [w1 r1]. intros H. injection H as <- <-. reflexivity. Qed.

Lemma alloc1_inv w w' r :
  alloc1 w = (w', r) ->
  exists ok, r = inl ok /\ h_live (w_h w') = h_live (w_h w) + (if ok then 1 else 0).
Proof.
  unfold alloc1, bind, get_h, put_h, ret.
  destruct ((0 <? h_fail (w_h w)) && (h_fail (w_h w) =? 1)); cbn; intros H; injection H as <- <-; cbn.
  - exists false. split; [reflexivity|lia].
  - exists true. split; reflexivity.
Qed.

Lemma free_n_inv n w w' (r : unit + Z) :
  free_n n w = (w', r) -> r = inl tt /\ h_live (w_h w') = h_live (w_h w) - n.
Proof. unfold free_n, bind, get_h, put_h. cbn. intros H. injection H as <- <-. cbn. auto. Qed.

(* ===================================================================== *)
(* 1. the "owned" counters of srtp_stream_alloc are exact                  *)

(* m was entered owning `owned` blocks: it returns the new count, or exits with all released *)
Definition acct (owned : Z) (m : M Z) : Prop :=
  forall w w' r, m w = (w', r) ->
    match r with
    | inl o' => h_live (w_h w') - o' = h_live (w_h w) - owned
    | inr _ => h_live (w_h w') = h_live (w_h w) - owned
    end.

Lemma acct_ret o : acct o (ret o).
Proof. intros w w' r H. unfold ret in H. injection H as <- <-. reflexivity. Qed.

Lemma acct_bind o (m : M Z) (f : Z -> M Z) :
  acct o m -> (forall a, acct a (f a)) -> acct o (bind m f).
Proof.
  intros Hm Hf w w' r H. apply bind_inv in H. destruct H as [(a & w1 & H1 & H2)|(st & H1 & ->)].
  - specialize (Hm _ _ _ H1). specialize (Hf a _ _ _ H2). cbn in Hm. destruct r; lia.
  - exact (Hm _ _ _ H1).
Qed.

Lemma acct_free_exit o st : acct o (free_n o ;;; exit_with st).
Proof.
  intros w w' r H. apply bind_inv in H. destruct H as [(a & w1 & H1 & H2)|(s & H1 & ->)].
  - apply free_n_inv in H1. destruct H1 as [_ L]. unfold exit_with in H2. injection H2 as <- <-. exact L.
  - apply free_n_inv in H1. destruct H1 as [E _]. discriminate.
Qed.

Lemma alloc_seq_spec n : forall w w' r,
  alloc_seq n w = (w', r) ->
  exists b k, r = inl (b, k) /\ h_live (w_h w') = h_live (w_h w) + k /\ (b = true -> k = Z.of_nat n).
Proof.
  induction n as [|n IH]; intros w w' r H; cbn [alloc_seq] in H.
  - unfold ret in H. injection H as <- <-. exists true, 0. repeat split; lia.
  - apply bind_inv in H. destruct H as [(ok & w1 & H1 & H2)|(st & H1 & ->)].
    2:{ apply alloc1_inv in H1. destruct H1 as (ok & E & _). discriminate. }
    apply alloc1_inv in H1. destruct H1 as (ok' & E & L). injection E as <-.
    destruct ok.
    + apply bind_inv in H2. destruct H2 as [(r1 & w2 & H3 & H4)|(st & H3 & ->)].
      * destruct (IH _ _ _ H3) as (b & k & E & L2 & K). injection E as ->.
        unfold ret in H4. injection H4 as <- <-. cbn [fst snd].
        exists b, (k + 1). repeat split; try lia. intros Hb. specialize (K Hb). lia.
      * destruct (IH _ _ _ H3) as (b & k & E & _). discriminate.
    + unfold ret in H2. injection H2 as <- <-. exists false, 0. repeat split; try lia; try discriminate.
Qed.

Lemma cipher_blocks_nonneg a : 0 <= cipher_blocks a.
Proof. unfold cipher_blocks. destruct (a =? SRTP_NULL_CIPHER_c); lia. Qed.

Lemma acct_alloc_cipher id klen o : acct o (alloc_cipher id klen o).
Proof.
  unfold alloc_cipher. destruct (negb (cipher_alloc_status id klen =? st_ok)); [apply acct_free_exit|].
  intros w w' r H. apply bind_inv in H. destruct H as [(r1 & w1 & H1 & H2)|(st & H1 & ->)].
  - destruct (alloc_seq_spec _ _ _ _ H1) as (b & k & E & L & K). injection E as ->. cbn [fst snd] in H2.
    destruct b.
    + unfold ret in H2. injection H2 as <- <-. specialize (K eq_refl).
      pose proof (cipher_blocks_nonneg (cipher_alg_of id klen)) as NN.
      unfold zn in K. rewrite Z2Nat.id in K by exact NN. lia.
    + pose proof (acct_free_exit (o + k) st_alloc_fail _ _ _ H2) as P. destruct r; lia.
  - destruct (alloc_seq_spec _ _ _ _ H1) as (b & k & E & _). discriminate.
Qed.

Lemma acct_alloc_block o : acct o (alloc_block o).
Proof.
  unfold alloc_block. intros w w' r H. apply bind_inv in H. destruct H as [(ok & w1 & H1 & H2)|(st & H1 & ->)].
  - apply alloc1_inv in H1. destruct H1 as (ok' & E & L). injection E as <-. destruct ok.
    + unfold ret in H2. injection H2 as <- <-. lia.
    + pose proof (acct_free_exit o st_alloc_fail _ _ _ H2) as P. destruct r; lia.
  - apply alloc1_inv in H1. destruct H1 as (ok' & E & _). discriminate.
Qed.

Lemma acct_alloc_auth id klen tlen o : acct o (alloc_auth id klen tlen o).
Proof.
  unfold alloc_auth. destruct (negb (auth_alloc_status id klen tlen =? st_ok)); [apply acct_free_exit|].
  exact (acct_alloc_block o).
Qed.

Lemma acct_alloc_keys n p : forall o, acct o (alloc_keys n p o).
Proof.
  induction n as [|n IH]; intros o; cbn [alloc_keys]; [apply acct_ret|].
  apply acct_bind; [apply acct_alloc_cipher|intros o1].
  apply acct_bind; [apply acct_alloc_auth|intros o2].
  apply acct_bind; [apply acct_alloc_cipher|intros o3].
  apply acct_bind; [apply acct_alloc_auth|intros o4].
  apply acct_bind; [apply acct_alloc_block|intros o5]. apply IH.
Qed.

Lemma acct_alloc_xtn_ciphers n p : forall o, acct o (alloc_xtn_ciphers n p o).
Proof.
  induction n as [|n IH]; intros o; cbn [alloc_xtn_ciphers]; [apply acct_ret|].
  apply acct_bind; [apply acct_alloc_cipher|intros o1]. apply IH.
Qed.

(* srtp_stream_alloc: returns exactly the number of blocks it obtained; on any exit
   (bad policy, unsupported algorithm, allocation failure) it has released them all *)
Theorem acct_stream_alloc p : acct 0 (stream_alloc p).
Proof.
  unfold stream_alloc. intros w w' r H.
  apply bind_inv in H. destruct H as [(u & w0 & H0 & H)|(st & H0 & ->)].
  2:{ apply check_st_inv in H0. destruct H0 as [-> _]. lia. }
  apply check_st_inv in H0. destruct H0 as [-> _].
  apply bind_inv in H. destruct H as [(ok & w1 & H1 & H)|(st & H1 & ->)].
  2:{ apply alloc1_inv in H1. destruct H1 as (ok' & E & _). discriminate. }
  apply alloc1_inv in H1. destruct H1 as (ok' & E & L). injection E as <-.
  destruct ok; cbn [negb] in H.
  2:{ unfold exit_with in H. injection H as <- <-. lia. }
  assert (A : acct 1 (o1 <- alloc_block 1 ;;
                      o2 <- alloc_keys (zn (num_keys p)) p o1 ;;
                      if has_xtn p then o3 <- alloc_block o2 ;; alloc_xtn_ciphers (zn (num_keys p)) p o3
                      else ret o2)).
  { apply acct_bind; [apply acct_alloc_block|intros o1].
    apply acct_bind; [apply acct_alloc_keys|intros o2].
    destruct (has_xtn p); [|apply acct_ret].
    apply acct_bind; [apply acct_alloc_block|intros o3]. apply acct_alloc_xtn_ciphers. }
  specialize (A _ _ _ H). destruct r; lia.
Qed.

Corollary stream_alloc_exit p w w' st :
  stream_alloc p w = (w', inr st) -> h_live (w_h w') = h_live (w_h w).
Proof. intros H. pose proof (acct_stream_alloc p _ _ _ H) as P. cbn in P. lia. Qed.

Corollary stream_alloc_count p w w' o :
  stream_alloc p w = (w', inl o) -> h_live (w_h w') = h_live (w_h w) + o.
Proof. intros H. pose proof (acct_stream_alloc p _ _ _ H) as P. cbn in P. lia. Qed.

(* ===================================================================== *)
(* 2. build_stream                                                        *)

(* never changes the session, the event log (nor the buffers / IV log) *)
Theorem build_stream_session p w w' r :
  build_stream p w = (w', r) ->
  w_s w' = w_s w /\ w_ev w' = w_ev w /\ w_b w' = w_b w /\ w_iv w' = w_iv w /\
  (h_fail (w_h w) = 0 -> h_fail (w_h w') = 0).
Proof. apply ho_run. apply ho_build_stream. Qed.

(* if it exits, everything it obtained has been released *)
Theorem build_stream_exit p w w' st :
  build_stream p w = (w', inr st) -> h_live (w_h w') = h_live (w_h w).
Proof.
  intros H. unfold build_stream in H.
  apply bind_inv in H. destruct H as [(mark & w0 & H0 & H)|(s & H0 & _)]; [|discriminate].
  rewrite live_now_eq in H0. injection H0 as <- <-.
  apply bind_inv in H. destruct H as [(r & w1 & H1 & H)|(s & H1 & _)].
  2:{ exfalso. exact (catch_no_exit _ _ _ _ H1). }
  destruct r as [[s o]|st1].
  - unfold ret in H. discriminate.
  - apply bind_inv in H. destruct H as [(u & w2 & H2 & H)|(s & H2 & _)].
    + apply release_since_inv in H2. destruct H2 as (_ & L & _).
      unfold exit_with in H. injection H as <- _. exact L.
    + apply release_since_inv in H2. destruct H2 as (E & _). discriminate.
Qed.

(* the exit status is the one of stream_alloc / stream_init *)
Lemma stream_init_ssrc p o w w' s o' : stream_init p o w = (w', inl (s, o')) -> s_ssrc s = p_ssrc p.
Proof.
  intros H. unfold stream_init in H.
  apply bind_inv in H. destruct H as [(u0 & w0 & _ & H)|(? & ? & ?)]; [|discriminate].
  apply bind_inv in H. destruct H as [(u1 & w1 & _ & H)|(? & ? & ?)]; [|discriminate].
  apply bind_inv in H. destruct H as [(ok & w2 & _ & H)|(? & ? & ?)]; [|discriminate].
  destruct (negb ok); [unfold exit_with in H; discriminate|].
  destruct (rdbx_init _) as [rx|]; [|unfold exit_with in H; discriminate].
  apply bind_inv in H. destruct H as [(r & w3 & _ & H)|(? & ? & ?)]; [|discriminate].
  destruct r as [[keys o2]|st].
  - unfold ret in H. injection H as _ <- _. reflexivity.
  - apply bind_inv in H. destruct H as [(u4 & w4 & _ & H)|(? & ? & ?)]; [|discriminate].
    unfold exit_with in H. discriminate.
Qed.

Lemma build_stream_ssrc p w w' s : build_stream p w = (w', inl s) -> s_ssrc s = p_ssrc p.
Proof.
  intros H. unfold build_stream in H.
  apply bind_inv in H. destruct H as [(mark & w0 & _ & H)|(? & ? & ?)]; [|discriminate].
  apply bind_inv in H. destruct H as [(r & w1 & H1 & H)|(? & ? & ?)]; [|discriminate].
  destruct r as [[s1 o]|st1].
  - unfold ret in H. injection H as _ <-. apply catch_inv in H1.
    apply bind_inv in H1. destruct H1 as [(o1 & w2 & _ & H1)|(? & ? & ?)]; [|discriminate].
    exact (stream_init_ssrc _ _ _ _ _ _ H1).
  - apply bind_inv in H. destruct H as [(u & w2 & _ & H)|(? & ? & ?)]; [|discriminate].
    unfold exit_with in H. discriminate.
Qed.

(* ===================================================================== *)
(* 3. stream_update_specific                                               *)

(* the replacement entry built from the fresh stream n0 and the old one *)
Definition carry_over (n0 old : stream) : stream :=
  set_pending (set_rdb (set_rdbx n0 {| index := index (s_rdbx old); wlen := wlen (s_rdbx n0); mask := mask (s_rdbx n0) |})
                       (s_rdb old)) (s_pending_roc old).

Theorem stream_update_specific_exit p w w' st :
  stream_update_specific p w = (w', inr st) -> h_fail (w_h w) = 0 ->
  w_s w' = w_s w /\ h_live (w_h w') = h_live (w_h w) /\ w_ev w' = w_ev w.
Proof.
  intros H F. unfold stream_update_specific in H.
  apply bind_inv in H. destruct H as [(u & w0 & H0 & H)|(s & H0 & _)].
  2:{ apply check_st_inv in H0. destruct H0 as [-> _]. auto. }
  apply check_st_inv in H0. destruct H0 as [-> _].
  unfold bind at 1, get_s in H.
  destruct (list_get (ss_list (w_s w)) (p_ssrc p)) as [old|] eqn:G.
  2:{ unfold exit_with in H. injection H as <- _. auto. }
  apply bind_inv in H. destruct H as [(u1 & w1 & H1 & H)|(s & H1 & _)].
  2:{ apply check_st_inv in H1. destruct H1 as [-> _]. auto. }
  apply check_st_inv in H1. destruct H1 as [-> _].
  apply bind_inv in H. destruct H as [(n & w2 & H2 & H)|(s & H2 & _)].
  2:{ destruct (build_stream_session _ _ _ _ H2) as (S & V & _).
      split; [exact S|]. split; [exact (build_stream_exit _ _ _ _ H2)|exact V]. }
  destruct (build_stream_session _ _ _ _ H2) as (S2 & V2 & _ & _ & F2). specialize (F2 F).
  assert (G2 : list_get (ss_list (w_s w2)) (p_ssrc p) = Some old) by (rewrite S2; exact G).
  destruct (stream_remove_present _ _ _ G2) as (w3 & E3 & _ & _ & F3 & _).
  exfalso. unfold bind at 1 in H. rewrite E3 in H.
  rewrite F2 in F3.
  match type of H with insert_or_dealloc ?x _ = _ =>
    destruct (insert_or_dealloc_ok x w3 F3) as (w4 & E4 & _) end.
  rewrite E4 in H. discriminate.
Qed.

(* the same without any assumption on the allocator, for a session whose list respects its
   capacity (true of every session built by the API, see list_insert_cap): after the removal
   there is a free slot, so the re-insertion cannot need memory *)
Theorem stream_update_specific_exit_cap p w w' st :
  stream_update_specific p w = (w', inr st) ->
  lenZ (ss_list (w_s w)) <= ss_cap (w_s w) ->
  w_s w' = w_s w /\ h_live (w_h w') = h_live (w_h w) /\ w_ev w' = w_ev w.
Proof.
  intros H C. unfold stream_update_specific in H.
  apply bind_inv in H. destruct H as [(u & w0 & H0 & H)|(s & H0 & _)].
  2:{ apply check_st_inv in H0. destruct H0 as [-> _]. auto. }
  apply check_st_inv in H0. destruct H0 as [-> _].
  unfold bind at 1, get_s in H.
  destruct (list_get (ss_list (w_s w)) (p_ssrc p)) as [old|] eqn:G.
  2:{ unfold exit_with in H. injection H as <- _. auto. }
  apply bind_inv in H. destruct H as [(u1 & w1 & H1 & H)|(s & H1 & _)].
  2:{ apply check_st_inv in H1. destruct H1 as [-> _]. auto. }
  apply check_st_inv in H1. destruct H1 as [-> _].
  apply bind_inv in H. destruct H as [(n & w2 & H2 & H)|(s & H2 & _)].
  2:{ destruct (build_stream_session _ _ _ _ H2) as (S & V & _).
      split; [exact S|]. split; [exact (build_stream_exit _ _ _ _ H2)|exact V]. }
  destruct (build_stream_session _ _ _ _ H2) as (S2 & V2 & _).
  assert (G2 : list_get (ss_list (w_s w2)) (p_ssrc p) = Some old) by (rewrite S2; exact G).
  destruct (stream_remove_present _ _ _ G2) as (w3 & E3 & S3 & _).
  exfalso. unfold bind at 1 in H. rewrite E3 in H.
  apply insert_or_dealloc_inv in H. destruct H as [(? & _)|(_ & _ & _ & L & _)]; [discriminate|].
  rewrite S3 in L. cbn [ss_list ss_cap] in L. rewrite S2 in L.
  pose proof (length_remove _ _ _ G) as LR. unfold lenZ in *. lia.
Qed.

Theorem stream_update_specific_ok p w w' :
  stream_update_specific p w = (w', inl tt) ->
  exists old n0 w1,
    valid_policy p = st_ok /\
    list_get (ss_list (w_s w)) (p_ssrc p) = Some old /\
    compatible old p = st_ok /\
    build_stream p w = (w1, inl n0) /\
    let n := carry_over n0 old in
    s_ssrc n = p_ssrc p /\ s_keys n = s_keys n0 /\
    index (s_rdbx n) = index (s_rdbx old) /\ s_rdb n = s_rdb old /\
    ss_list (w_s w') = list_remove (ss_list (w_s w)) (p_ssrc p) ++ [n] /\
    ss_template (w_s w') = ss_template (w_s w) /\
    (forall y, y <> p_ssrc p -> list_get (ss_list (w_s w')) y = list_get (ss_list (w_s w)) y) /\
    (NoDup (map s_ssrc (ss_list (w_s w))) -> list_get (ss_list (w_s w')) (p_ssrc p) = Some n) /\
    w_ev w' = w_ev w.
Proof.
  intros H. unfold stream_update_specific in H.
  apply bind_inv in H. destruct H as [(u & w0 & H0 & H)|(? & ? & ?)]; [|discriminate].
  apply check_st_inv in H0. destruct H0 as [-> [[_ VP]|[? _]]]; [|discriminate].
  unfold bind at 1, get_s in H.
  destruct (list_get (ss_list (w_s w)) (p_ssrc p)) as [old|] eqn:G; [|unfold exit_with in H; discriminate].
  apply bind_inv in H. destruct H as [(u1 & w1 & H1 & H)|(? & ? & ?)]; [|discriminate].
  apply check_st_inv in H1. destruct H1 as [-> [[_ CP]|[? _]]]; [|discriminate].
  apply bind_inv in H. destruct H as [(n0 & w2 & H2 & H)|(? & ? & ?)]; [|discriminate].
  destruct (build_stream_session _ _ _ _ H2) as (S2 & V2 & _).
  pose proof (build_stream_ssrc _ _ _ _ H2) as Hs.
  apply bind_inv in H. destruct H as [(u3 & w3 & H3 & H)|(? & ? & ?)]; [|discriminate].
  assert (G2 : list_get (ss_list (w_s w2)) (p_ssrc p) = Some old) by (rewrite S2; exact G).
  destruct (stream_remove_present _ _ _ G2) as (w3' & E3 & S3 & _ & _ & V3 & _).
  rewrite E3 in H3. injection H3 as <- _.
  fold (carry_over n0 old) in H.
  apply insert_or_dealloc_inv in H. destruct H as [(_ & I)|(? & _)]; [|discriminate].
  destruct (list_insert_extends _ _ _ I) as (L & T & _ & O & _).
  apply list_insert_inv in I. destruct I as [(_ & _ & _ & _ & _ & V4)|(? & _)]; [|discriminate].
  rewrite S3 in L, T, O. cbn [ss_list ss_template] in L, T, O. rewrite S2 in L, T, O.
  exists old, n0, w2.
  split; [exact VP|]. split; [reflexivity|]. split; [exact CP|]. split; [exact H2|].
  cbv zeta.
  assert (Hn : s_ssrc (carry_over n0 old) = p_ssrc p) by exact Hs.
  split; [exact Hn|]. split; [reflexivity|]. split; [reflexivity|]. split; [reflexivity|].
  split; [exact L|]. split; [exact T|].
  split.
  { intros y N. rewrite O by (rewrite Hn; exact N). apply list_get_remove_other. exact N. }
  split.
  { intros ND. rewrite L, list_get_app, (list_get_remove_same _ _ ND), Hn, Z.eqb_refl. reflexivity. }
  congruence.
Qed.

(* a rollover counter imposed by srtp_stream_set_roc that no packet has taken up yet survives the re-key (fix 1db9411):
   the next packet of the stream is still estimated with it (est_index_pending_spec, C16) *)
Corollary stream_update_specific_keeps_pending_roc p w w' :
  stream_update_specific p w = (w', inl tt) ->
  NoDup (map s_ssrc (ss_list (w_s w))) ->
  exists old n,
    list_get (ss_list (w_s w)) (p_ssrc p) = Some old /\
    list_get (ss_list (w_s w')) (p_ssrc p) = Some n /\
    s_pending_roc n = s_pending_roc old /\ index (s_rdbx n) = index (s_rdbx old) /\ s_rdb n = s_rdb old.
Proof.
  intros H ND.
  destruct (stream_update_specific_ok _ _ _ H) as (old & n0 & w1 & _ & G & _ & _ & Hn).
  cbv zeta in Hn. destruct Hn as (_ & _ & Hi & Hr & _ & _ & _ & Hg & _).
  exists old, (carry_over n0 old).
  split; [exact G|]. split; [exact (Hg ND)|]. split; [reflexivity|]. split; [exact Hi|exact Hr].
Qed.


(* why uniqueness of the SSRC is needed for the last-but-one clause: srtp_stream_add accepts a
   second explicit stream with an SSRC already present (the first one wins on lookup); an update
   of that SSRC removes the first, appends the replacement, and the older duplicate is what a
   lookup now finds *)
Lemma update_shadowed_by_duplicate a b n x :
  s_ssrc a = x -> s_ssrc b = x -> s_ssrc n = x ->
  list_get (list_remove [a; b] x ++ [n]) x = Some b.
Proof.
  intros Ha Hb Hn. cbn [list_remove]. apply Z.eqb_eq in Ha. rewrite Ha. cbn [app list_get].
  apply Z.eqb_eq in Hb. rewrite Hb. reflexivity.
Qed.

(* ===================================================================== *)
(* 4. update_template: the phase before the streams are moved              *)

Definition ut_pre (p : policy) : M (session * stream * stream) :=
  check_st (valid_policy p) ;;;
  ss <- get_s ;;
  match ss_template ss with
  | None => exit_with st_bad_param
  | Some oldt =>
    check_st (compatible oldt p) ;;;
    mark <- live_now ;;
    owned <- stream_alloc p ;;
    r <- catch (stream_init p owned) ;;
    match r with
    | inr st => release_since mark ;;; exit_with st
    | inl (newt, _) =>
      ok1 <- alloc1 ;;
      if negb ok1 then stream_dealloc newt ;;; exit_with st_alloc_fail else
      ok2 <- alloc1 ;;
      if negb ok2 then free_n 1 ;;; stream_dealloc newt ;;; exit_with st_alloc_fail else
      ret (ss, oldt, newt)
    end
  end.

Definition ut_post (x : session * stream * stream) : M unit :=
  let '(ss, oldt, newt) := x in
  mv <- move_streams (S (length (ss_list ss))) newt ([], INITIAL_STREAM_INDEX_SIZE_c) ;;
  let '(st, nl) := mv in
  if negb (st =? st_ok) then
    free_n (fold_right (fun s a => a + stream_blocks s) 0 (fst nl)) ;;;
    free_n 2 ;;; stream_dealloc newt ;;; exit_with st
  else
    ss2 <- get_s ;;
    free_n (fold_right (fun s a => a + stream_blocks s) 0 (ss_list ss2)) ;;;
    free_n 2 ;;; stream_dealloc oldt ;;;
    put_s {| ss_template := Some newt; ss_list := fst nl; ss_cap := snd nl |}.

(* pointwise monad laws (no functional extensionality) *)
Lemma bind_assoc_pt {A B C} (m : M A) (f : A -> M B) (g : B -> M C) w :
  bind (bind m f) g w = bind m (fun a => bind (f a) g) w.
Proof. unfold bind. destruct (m w) as [w1 [a|s]]; reflexivity. Qed.
Lemma bind_ext_pt {A B} (m : M A) (f g : A -> M B) w :
  (forall a w1, f a w1 = g a w1) -> bind m f w = bind m g w.
Proof. intros H. unfold bind. destruct (m w) as [w1 [a|s]]; [apply H|reflexivity]. Qed.

(* update_template is exactly ut_pre followed by ut_post *)
Lemma update_template_split p w : update_template p w = (x <- ut_pre p ;; ut_post x) w.
Proof.
  unfold update_template, ut_pre. symmetry.
  rewrite bind_assoc_pt. apply bind_ext_pt. intros _ w0.
  rewrite bind_assoc_pt. apply bind_ext_pt. intros ss w1.
  destruct (ss_template ss) as [oldt|]; [|reflexivity].
  rewrite bind_assoc_pt. apply bind_ext_pt. intros _ w2.
  rewrite bind_assoc_pt. apply bind_ext_pt. intros mark w3.
  rewrite bind_assoc_pt. apply bind_ext_pt. intros owned w4.
  rewrite bind_assoc_pt. apply bind_ext_pt. intros r w5.
  destruct r as [[newt o]|st].
  - rewrite bind_assoc_pt. apply bind_ext_pt. intros ok1 w6.
    destruct (negb ok1).
    + rewrite bind_assoc_pt. apply bind_ext_pt. intros _ w7. reflexivity.
    + rewrite bind_assoc_pt. apply bind_ext_pt. intros ok2 w7.
      destruct (negb ok2); [|reflexivity].
      rewrite bind_assoc_pt. apply bind_ext_pt. intros _ w8.
      rewrite bind_assoc_pt. apply bind_ext_pt. intros _ w9. reflexivity.
  - rewrite bind_assoc_pt. apply bind_ext_pt. intros _ w6. reflexivity.
Qed.

Lemma ho_ut_pre p : heap_only (ut_pre p).
Proof.
  unfold ut_pre.
  apply ho_bind; [apply ho_check_st|intros _].
  apply ho_bind; [apply ho_get_s|intros ss].
  destruct (ss_template ss) as [oldt|]; [|apply ho_exit].
  apply ho_bind; [apply ho_check_st|intros _].
  apply ho_bind; [apply ho_live_now|intros mark].
  apply ho_bind; [apply ho_stream_alloc|intros owned].
  apply ho_bind; [apply ho_catch; apply ho_stream_init|intros r].
  destruct r as [[newt o]|st].
  - apply ho_bind; [apply ho_alloc1|intros ok1].
    apply ho_if; [apply ho_bind; [apply ho_stream_dealloc|intros; apply ho_exit]|].
    apply ho_bind; [apply ho_alloc1|intros ok2].
    apply ho_if; [|apply ho_ret].
    apply ho_bind; [apply ho_free_n|intros _].
    apply ho_bind; [apply ho_stream_dealloc|intros; apply ho_exit].
  - apply ho_bind; [apply ho_release_since|intros; apply ho_exit].
Qed.

(* every exit of the first phase: the session is unchanged (whatever the allocator does);
   with no failure scheduled the live count is unchanged as well *)
Theorem ut_pre_exit p w w' st :
  ut_pre p w = (w', inr st) ->
  update_template p w = (w', inr st) /\
  w_s w' = w_s w /\ w_ev w' = w_ev w /\
  (h_fail (w_h w) = 0 -> h_live (w_h w') = h_live (w_h w)).
Proof.
  intros H. split.
  { rewrite update_template_split. unfold bind. rewrite H. reflexivity. }
  destruct (ho_run _ _ _ _ (ho_ut_pre p) H) as (S & V & _).
  split; [exact S|]. split; [exact V|]. intros F.
  unfold ut_pre in H.
  apply bind_inv in H. destruct H as [(u & w0 & H0 & H)|(s & H0 & _)].
  2:{ apply check_st_inv in H0. destruct H0 as [-> _]. reflexivity. }
  apply check_st_inv in H0. destruct H0 as [-> _].
  unfold bind at 1, get_s in H.
  destruct (ss_template (w_s w)) as [oldt|].
  2:{ unfold exit_with in H. injection H as <- _. reflexivity. }
  apply bind_inv in H. destruct H as [(u1 & w1 & H1 & H)|(s & H1 & _)].
  2:{ apply check_st_inv in H1. destruct H1 as [-> _]. reflexivity. }
  apply check_st_inv in H1. destruct H1 as [-> _].
  unfold bind at 1 in H. rewrite live_now_eq in H.
  apply bind_inv in H. destruct H as [(owned & w2 & H2 & H)|(s & H2 & _)].
  2:{ exact (stream_alloc_exit _ _ _ _ H2). }
  destruct (ho_run _ _ _ _ (ho_stream_alloc p) H2) as (_ & _ & _ & _ & F2). specialize (F2 F).
  apply bind_inv in H. destruct H as [(r & w3 & H3 & H)|(s & H3 & _)].
  2:{ exfalso. exact (catch_no_exit _ _ _ _ H3). }
  destruct (ho_run _ _ _ _ (ho_catch _ (ho_stream_init p owned)) H3) as (_ & _ & _ & _ & F3). specialize (F3 F2).
  destruct r as [[newt o]|st1].
  - exfalso.
    destruct (alloc1_bind_ok
      (fun ok1 => if negb ok1 then stream_dealloc newt ;;; exit_with st_alloc_fail else
         ok2 <- alloc1 ;;
         if negb ok2 then free_n 1 ;;; stream_dealloc newt ;;; exit_with st_alloc_fail else
         ret (w_s w, oldt, newt)) w3 F3) as (w4 & E4 & _ & _ & _ & _ & F4 & _).
    rewrite E4 in H. cbn [negb] in H.
    match type of H with bind alloc1 ?f w4 = _ =>
      destruct (alloc1_bind_ok f w4 F4) as (w5 & E5 & _) end.
    rewrite E5 in H. cbn [negb] in H. unfold ret in H. discriminate.
  - apply bind_inv in H. destruct H as [(u4 & w4 & H4 & H)|(s & H4 & _)].
    + apply release_since_inv in H4. destruct H4 as (_ & L & _).
      unfold exit_with in H. injection H as <- _. exact L.
    + apply release_since_inv in H4. destruct H4 as (E & _). discriminate.
Qed.

(* the statuses of those exits, for the record: the policy's, "no template", the MKI
   compatibility check's, stream_alloc's / stream_init's, or alloc_fail for the new list *)

(* and conversely: a call of update_template either exited in the first phase (then see above)
   or went on to move the streams with the new template fully built *)
Theorem update_template_phases p w w' r :
  update_template p w = (w', r) ->
  (exists st, r = inr st /\ ut_pre p w = (w', inr st)) \/
  (exists x w1, ut_pre p w = (w1, inl x) /\ ut_post x w1 = (w', r) /\ w_s w1 = w_s w).
Proof.
  rewrite update_template_split. intros H. apply bind_inv in H.
  destruct H as [(x & w1 & H1 & H2)|(st & H1 & ->)].
  - right. exists x, w1. split; [exact H1|]. split; [exact H2|].
    destruct (ho_run _ _ _ _ (ho_ut_pre p) H1) as (S & _). exact S.
  - left. exists st. auto.
Qed.

(* named instances of the exits listed in the property *)
Corollary update_template_invalid_policy p w :
  valid_policy p <> st_ok -> update_template p w = (w, inr (valid_policy p)).
Proof.
  intros N. unfold update_template, bind at 1, check_st.
  apply Z.eqb_neq in N. rewrite N. reflexivity.
Qed.

Corollary update_template_no_template p w :
  valid_policy p = st_ok -> ss_template (w_s w) = None -> update_template p w = (w, inr st_bad_param).
Proof.
  intros V T. unfold update_template, bind at 1, check_st. rewrite V. cbn [Z.eqb st_ok].
  unfold ret, bind at 1, get_s. rewrite T. reflexivity.
Qed.

Corollary update_template_incompatible p w t :
  valid_policy p = st_ok -> ss_template (w_s w) = Some t -> compatible t p <> st_ok ->
  update_template p w = (w, inr (compatible t p)).
Proof.
  intros V T N. unfold update_template, bind at 1, check_st. rewrite V. cbn [Z.eqb st_ok].
  unfold ret, bind at 1, get_s. rewrite T. unfold bind at 1.
  apply Z.eqb_neq in N. rewrite N. reflexivity.
Qed.

(* ===================================================================== *)
(* 5. a freshly built stream owns exactly stream_blocks blocks, so the exits
      that hand it back to srtp_stream_dealloc restore the live count even
      when allocations fail                                                *)

Lemma ck_alg_cipher_key a k key : ck_alg (cipher_key a k key) = a.
Proof. unfold cipher_key. destruct (a =? SRTP_NULL_CIPHER_c); [reflexivity|]. destruct (is_gcm_alg a); reflexivity. Qed.

Definition alg_rtp p := cipher_alg_of (cp_cipher (p_rtp p)) (cp_keylen (p_rtp p)).
Definition alg_rtcp p := cipher_alg_of (cp_cipher (p_rtcp p)) (cp_keylen (p_rtcp p)).
Definition cb_rtp p := cipher_blocks (alg_rtp p).
Definition cb_rtcp p := cipher_blocks (alg_rtcp p).
Definition per_key_alloc p := cb_rtp p + 1 + cb_rtcp p + 1 + 1.

Lemma if_none_inv {A B} (c : bool) (x : A) (R : A * option B) st d :
  (if c then (x, None) else R) = (st, Some d) -> R = (st, Some d).
Proof. destruct c; [discriminate|auto]. Qed.
Lemma pair_some_inv {A B} (a a' : A) (b b' : B) : (a, Some b) = (a', Some b') -> b = b'.
Proof. intros H; injection H; auto. Qed.

Lemma derive_keys_shape p mkey mki st d :
  derive_keys p mkey mki = (st, Some d) ->
  ck_alg (k_rtp_c (d_keys d)) = alg_rtp p /\
  ck_alg (k_rtcp_c (d_keys d)) = alg_rtcp p /\
  k_mki (d_keys d) = mki /\
  match k_xtn_c (d_keys d) with
  | Some c => has_xtn p = true /\ ck_alg c = alg_rtp p
  | None => has_xtn p = false
  end.
Proof.
  unfold derive_keys. cbv zeta. intros H.
  apply if_none_inv in H. apply if_none_inv in H.
  destruct (has_xtn p) eqn:X.
  - apply pair_some_inv in H. rewrite <- H.
    cbn [d_keys k_rtp_c k_rtcp_c k_mki k_xtn_c]. rewrite !ck_alg_cipher_key. auto.
  - apply pair_some_inv in H. rewrite <- H.
    cbn [d_keys k_rtp_c k_rtcp_c k_mki k_xtn_c]. rewrite !ck_alg_cipher_key. auto.
Qed.

Lemma free_exit_not_inl {A} n st w w' (a : A) : (free_n n ;;; exit_with st) w = (w', inl a) -> False.
Proof.
  intros H. apply bind_inv in H. destruct H as [(u & w1 & _ & H)|(? & _ & ?)]; [unfold exit_with in H|]; discriminate.
Qed.

(* ---- the counters returned on success ---- *)
Lemma alloc_cipher_val id klen o w w' o' :
  alloc_cipher id klen o w = (w', inl o') -> o' = o + cipher_blocks (cipher_alg_of id klen).
Proof.
  unfold alloc_cipher. destruct (negb (cipher_alloc_status id klen =? st_ok)); intros H;
    [exfalso; exact (free_exit_not_inl _ _ _ _ _ H)|].
  apply bind_inv in H. destruct H as [(r & w1 & _ & H)|(? & _ & ?)]; [|discriminate].
  destruct (fst r); [unfold ret in H; injection H as _ <-; reflexivity|exfalso; exact (free_exit_not_inl _ _ _ _ _ H)].
Qed.

Lemma alloc_block_val o w w' o' : alloc_block o w = (w', inl o') -> o' = o + 1.
Proof.
  unfold alloc_block. intros H.
  apply bind_inv in H. destruct H as [(ok & w1 & _ & H)|(? & _ & ?)]; [|discriminate].
  destruct ok; [unfold ret in H; injection H as _ <-; reflexivity|exfalso; exact (free_exit_not_inl _ _ _ _ _ H)].
Qed.

Lemma alloc_auth_val id klen tlen o w w' o' : alloc_auth id klen tlen o w = (w', inl o') -> o' = o + 1.
Proof.
  unfold alloc_auth. destruct (negb (auth_alloc_status id klen tlen =? st_ok)); intros H;
    [exfalso; exact (free_exit_not_inl _ _ _ _ _ H)|].
  exact (alloc_block_val _ _ _ _ H).
Qed.

Lemma alloc_keys_val n p : forall o w w' o',
  alloc_keys n p o w = (w', inl o') -> o' = o + Z.of_nat n * per_key_alloc p.
Proof.
  induction n as [|n IH]; intros o w w' o' H; cbn [alloc_keys] in H.
  - unfold ret in H. injection H as _ <-. lia.
  - apply bind_inv in H. destruct H as [(o1 & w1 & H1 & H)|(? & _ & ?)]; [|discriminate].
    apply bind_inv in H. destruct H as [(o2 & w2 & H2 & H)|(? & _ & ?)]; [|discriminate].
    apply bind_inv in H. destruct H as [(o3 & w3 & H3 & H)|(? & _ & ?)]; [|discriminate].
    apply bind_inv in H. destruct H as [(o4 & w4 & H4 & H)|(? & _ & ?)]; [|discriminate].
    apply bind_inv in H. destruct H as [(o5 & w5 & H5 & H)|(? & _ & ?)]; [|discriminate].
    apply alloc_cipher_val in H1. apply alloc_auth_val in H2. apply alloc_cipher_val in H3.
    apply alloc_auth_val in H4. apply alloc_block_val in H5. apply IH in H.
    unfold per_key_alloc, cb_rtp, cb_rtcp, alg_rtp, alg_rtcp in *. lia.
Qed.

Lemma alloc_xtn_val n p : forall o w w' o',
  alloc_xtn_ciphers n p o w = (w', inl o') -> o' = o + Z.of_nat n * cb_rtp p.
Proof.
  induction n as [|n IH]; intros o w w' o' H; cbn [alloc_xtn_ciphers] in H.
  - unfold ret in H. injection H as _ <-. lia.
  - apply bind_inv in H. destruct H as [(o1 & w1 & H1 & H)|(? & _ & ?)]; [|discriminate].
    apply alloc_cipher_val in H1. apply IH in H.
    change (xtn_cipher_id p) with (cp_cipher (p_rtp p)) in H1. change (xtn_cipher_klen p) with (cp_keylen (p_rtp p)) in H1.
    unfold cb_rtp, alg_rtp in *. lia.
Qed.

Lemma stream_alloc_val p w w' o :
  stream_alloc p w = (w', inl o) ->
  o = 2 + Z.of_nat (zn (num_keys p)) * per_key_alloc p
      + (if has_xtn p then 1 + Z.of_nat (zn (num_keys p)) * cb_rtp p else 0).
Proof.
  unfold stream_alloc. intros H.
  apply bind_inv in H. destruct H as [(u & w0 & _ & H)|(? & _ & ?)]; [|discriminate].
  apply bind_inv in H. destruct H as [(ok & w1 & _ & H)|(? & _ & ?)]; [|discriminate].
  destruct ok; cbn [negb] in H; [|unfold exit_with in H; discriminate].
  apply bind_inv in H. destruct H as [(o1 & w2 & H1 & H)|(? & _ & ?)]; [|discriminate].
  apply bind_inv in H. destruct H as [(o2 & w3 & H2 & H)|(? & _ & ?)]; [|discriminate].
  apply alloc_block_val in H1. apply alloc_keys_val in H2.
  destruct (has_xtn p).
  - apply bind_inv in H. destruct H as [(o3 & w4 & H3 & H)|(? & _ & ?)]; [|discriminate].
    apply alloc_block_val in H3. apply alloc_xtn_val in H. lia.
  - unfold ret in H. injection H as _ <-. lia.
Qed.

(* ---- srtp_stream_init_keys ---- *)
Definition mki_of (ms : Z) (km : bytes * bytes) : bytes :=
  if ms =? 0 then [] else take (zn ms) (snd km ++ zeros (zn ms)).

Definition key_ok (p : policy) (ms : Z) (k : skeys) : Prop :=
  ck_alg (k_rtp_c k) = alg_rtp p /\ ck_alg (k_rtcp_c k) = alg_rtcp p /\
  (exists km, k_mki k = mki_of ms km) /\
  match k_xtn_c k with
  | Some c => has_xtn p = true /\ ck_alg c = alg_rtp p
  | None => has_xtn p = false
  end.

Lemma init_keys_inv p ms km o w w' k o' :
  init_keys p ms km o w = (w', inl (k, o')) ->
  h_live (w_h w') = h_live (w_h w) + (if ms =? 0 then 0 else 1) /\ key_ok p ms k.
Proof.
  unfold init_keys. change derive_keys_any with derive_keys. intros H.
  apply bind_inv in H. destruct H as [(o1 & w1 & H1 & H)|(? & _ & ?)]; [|discriminate].
  assert (L1 : h_live (w_h w1) = h_live (w_h w) + (if ms =? 0 then 0 else 1)).
  { destruct (ms =? 0); cbn [negb] in H1.
    - unfold ret in H1. injection H1 as <- _. lia.
    - destruct (snd km); [unfold exit_with in H1; discriminate|].
      apply bind_inv in H1. destruct H1 as [(ok & w2 & H2 & H1)|(? & _ & ?)]; [|discriminate].
      apply alloc1_inv in H2. destruct H2 as (ok' & E & L). injection E as <-.
      destruct ok; [|unfold exit_with in H1; discriminate].
      unfold ret in H1. injection H1 as <- _. exact L. }
  fold (mki_of ms km) in H.
  destruct (derive_keys p (fst km) (mki_of ms km)) as [st [d|]] eqn:D; [|unfold exit_with in H; discriminate].
  apply bind_inv in H. destruct H as [(r & w2 & H2 & H)|(? & _ & ?)]; [|discriminate].
  destruct (alloc_seq_spec _ _ _ _ H2) as (b & n & E & L2 & K). injection E as ->. cbn [fst snd] in H.
  destruct b; cbn [negb] in H; [|exfalso; exact (free_exit_not_inl _ _ _ _ _ H)].
  specialize (K eq_refl).
  apply bind_inv in H. destruct H as [(u & w3 & H3 & H)|(? & _ & ?)]; [|discriminate].
  apply free_n_inv in H3. destruct H3 as [_ L3].
  destruct (d_overflow d); [unfold exit_with in H; discriminate|].
  unfold ret in H. injection H as <- <- _.
  split; [cbn in K; lia|].
  destruct (derive_keys_shape _ _ _ _ _ D) as (A & B & C & X).
  unfold key_ok. repeat split; try assumption. exists km. exact C.
Qed.

Lemma init_all_keys_inv p ms kms : forall o w w' keys o',
  init_all_keys p ms kms o w = (w', inl (keys, o')) ->
  h_live (w_h w') = h_live (w_h w) + Z.of_nat (length kms) * (if ms =? 0 then 0 else 1) /\
  length keys = length kms /\ Forall (key_ok p ms) keys.
Proof.
  induction kms as [|km t IH]; intros o w w' keys o' H; cbn [init_all_keys] in H.
  - unfold ret in H. injection H as <- <- _. cbn. repeat split; [lia|constructor].
  - apply bind_inv in H. destruct H as [(r & w1 & H1 & H)|(? & _ & ?)]; [|discriminate].
    apply bind_inv in H. destruct H as [(r2 & w2 & H2 & H)|(? & _ & ?)]; [|discriminate].
    unfold ret in H. injection H as <- <- _.
    destruct r as [k o1]. destruct r2 as [ks o2]. cbn [fst snd] in *.
    apply init_keys_inv in H1. destruct H1 as (L1 & K1).
    apply IH in H2. destruct H2 as (L2 & N2 & F2).
    cbn [length]. repeat split; [lia|congruence|constructor; assumption].
Qed.

Lemma guard_inv (c : bool) st w w' (u : unit) :
  (if c then exit_with st else ret tt) w = (w', inl u) -> w' = w.
Proof. destruct c; [unfold exit_with; discriminate|]. unfold ret. intros H. injection H as <- _. reflexivity. Qed.

Definition eff_mki (p : policy) : Z := if p_usekey p then 0 else p_mki_size p.

Lemma stream_init_inv p o w w' s o' :
  stream_init p o w = (w', inl (s, o')) ->
  let kms := take (zn (num_keys p)) (p_keys p) in
  h_live (w_h w') = h_live (w_h w) + 1 + Z.of_nat (length kms) * (if eff_mki p =? 0 then 0 else 1) /\
  s_clone s = false /\ s_enc_xtn s = p_enc_xtn p /\
  length (s_keys s) = length kms /\ Forall (key_ok p (eff_mki p)) (s_keys s).
Proof.
  intros H. unfold stream_init in H.
  apply bind_inv in H. destruct H as [(u0 & w0 & H0 & H)|(? & _ & ?)]; [|discriminate].
  apply check_st_inv in H0. destruct H0 as [-> _].
  apply bind_inv in H. destruct H as [(u1 & w1 & H1 & H)|(? & _ & ?)]; [|discriminate].
  apply guard_inv in H1. subst w1.
  apply bind_inv in H. destruct H as [(ok & w2 & H2 & H)|(? & _ & ?)]; [|discriminate].
  apply alloc1_inv in H2. destruct H2 as (ok' & E & L2). injection E as <-.
  destruct ok; cbn [negb] in H; [|unfold exit_with in H; discriminate].
  destruct (rdbx_init _) as [rx|]; [|unfold exit_with in H; discriminate].
  apply bind_inv in H. destruct H as [(r & w3 & H3 & H)|(? & _ & ?)]; [|discriminate].
  destruct r as [[keys o2]|st].
  2:{ apply bind_inv in H. destruct H as [(u4 & w4 & _ & H)|(? & _ & ?)]; [|discriminate].
      unfold exit_with in H. discriminate. }
  unfold ret in H. injection H as <- <- _.
  cbn [s_clone s_enc_xtn s_keys].
  apply catch_inv in H3. unfold eff_mki, num_keys.
  destruct (p_usekey p).
  - apply bind_inv in H3. destruct H3 as [(u5 & w5 & H5 & H3)|(? & _ & ?)]; [|discriminate].
    apply guard_inv in H5. subst w5.
    apply init_all_keys_inv in H3. destruct H3 as (L3 & N3 & F3).
    change (zn 1) with 1%nat. cbn [Z.eqb] in *.
    repeat split; try assumption. lia.
  - apply bind_inv in H3. destruct H3 as [(u5 & w5 & H5 & H3)|(? & _ & ?)]; [|discriminate].
    apply guard_inv in H5. subst w5.
    apply bind_inv in H3. destruct H3 as [(u6 & w6 & H6 & H3)|(? & _ & ?)]; [|discriminate].
    apply guard_inv in H6. subst w6.
    apply init_all_keys_inv in H3. destruct H3 as (L3 & N3 & F3).
    repeat split; try assumption. lia.
Qed.

Lemma take_length_le {A} n (l : list A) : (n <= length l)%nat -> length (take n l) = n.
Proof.
  revert l. induction n as [|n IH]; intros l H; [reflexivity|].
  destruct l as [|x l]; cbn [length] in H; [lia|]. cbn [take length]. rewrite IH by lia. reflexivity.
Qed.

Lemma mki_of_blocks ms km :
  0 <= ms -> match mki_of ms km with [] => 0 | _ => 1 end = (if ms =? 0 then 0 else 1).
Proof.
  intros H. unfold mki_of. destruct (ms =? 0) eqn:E; [reflexivity|]. apply Z.eqb_neq in E.
  unfold zn. destruct (Z.to_nat ms) as [|m] eqn:Z; [lia|].
  destruct (snd km) as [|x l]; reflexivity.
Qed.

Lemma keys_blocks_ok p ms k :
  0 <= ms -> key_ok p ms k ->
  keys_blocks k = per_key_alloc p + (if has_xtn p then cb_rtp p else 0) + (if ms =? 0 then 0 else 1).
Proof.
  intros H (A & B & (km & C) & D). unfold keys_blocks. rewrite A, B, C, (mki_of_blocks ms km H).
  unfold per_key_alloc, cb_rtp, cb_rtcp.
  destruct (k_xtn_c k) as [c|]; [destruct D as (-> & ->)|rewrite D]; lia.
Qed.

Lemma sum_blocks_const c l :
  Forall (fun k => keys_blocks k = c) l ->
  fold_right (fun k a => a + keys_blocks k) 0 l = Z.of_nat (length l) * c.
Proof.
  induction 1 as [|k l Hk _ IH]; cbn [fold_right length]; [lia|]. rewrite IH, Hk. lia.
Qed.

(* policies as the C caller can write them: the key array has num_master_keys entries and the
   MKI size is a size_t *)
Definition policy_shape (p : policy) : Prop :=
  (zn (num_keys p) <= length (p_keys p))%nat /\ 0 <= p_mki_size p.

Theorem alloc_init_blocks p w w1 w2 o s o2 :
  stream_alloc p w = (w1, inl o) -> stream_init p o w1 = (w2, inl (s, o2)) -> policy_shape p ->
  h_live (w_h w2) = h_live (w_h w) + stream_blocks s.
Proof.
  intros HA HI (HK & HM).
  pose proof (stream_alloc_count _ _ _ _ HA) as LA.
  pose proof (stream_alloc_val _ _ _ _ HA) as VA.
  destruct (stream_init_inv _ _ _ _ _ _ HI) as (LI & C & X & N & F).
  rewrite (take_length_le _ _ HK) in LI, N.
  assert (HM' : 0 <= eff_mki p) by (unfold eff_mki; destruct (p_usekey p); lia).
  assert (F' : Forall (fun k => keys_blocks k =
             per_key_alloc p + (if has_xtn p then cb_rtp p else 0) + (if eff_mki p =? 0 then 0 else 1)) (s_keys s)).
  { eapply Forall_impl; [|exact F]. intros k K. apply keys_blocks_ok; assumption. }
  unfold stream_blocks. rewrite C, X, (sum_blocks_const _ _ F'), N.
  unfold has_xtn in *. destruct (p_enc_xtn p); cbn [negb] in *; lia.
Qed.

Theorem build_stream_blocks p w w' s :
  build_stream p w = (w', inl s) -> policy_shape p ->
  h_live (w_h w') = h_live (w_h w) + stream_blocks s.
Proof.
  intros H PS. unfold build_stream in H.
  apply bind_inv in H. destruct H as [(mark & w0 & H0 & H)|(? & _ & ?)]; [|discriminate].
  rewrite live_now_eq in H0. injection H0 as <- _.
  apply bind_inv in H. destruct H as [(r & w1 & H1 & H)|(? & _ & ?)]; [|discriminate].
  destruct r as [[s1 o]|st1].
  - unfold ret in H. injection H as <- <-. apply catch_inv in H1.
    apply bind_inv in H1. destruct H1 as [(o1 & w2 & HA & HI)|(? & _ & ?)]; [|discriminate].
    exact (alloc_init_blocks _ _ _ _ _ _ _ HA HI PS).
  - apply bind_inv in H. destruct H as [(u & w2 & _ & H)|(? & _ & ?)]; [|discriminate].
    unfold exit_with in H. discriminate.
Qed.

(* srtp_stream_add of a second wildcard policy: refused, session unchanged, nothing leaked *)
Theorem stream_add_second_template_heap p w w' r t :
  is_wildcard p = true -> ss_template (w_s w) = Some t -> policy_shape p ->
  stream_add p w = (w', r) ->
  w_s w' = w_s w /\ h_live (w_h w') = h_live (w_h w) /\ exists st, r = inr st.
Proof.
  intros Wc T PS H.
  destruct (stream_add_second_template p w w' r t Wc T H) as (S & _ & X & Q).
  split; [exact S|]. split; [|exact X].
  unfold stream_add in H.
  apply bind_inv in H. destruct H as [(u & w0 & H0 & H)|(st & H0 & _)].
  2:{ apply check_st_inv in H0. destruct H0 as [-> _]. reflexivity. }
  apply check_st_inv in H0. destruct H0 as [-> [[_ VP]|[? _]]]; [|discriminate].
  apply bind_inv in H. destruct H as [(s & w1 & H1 & _)|(st & H1 & _)].
  - destruct (Q _ _ VP H1) as (_ & L). rewrite L, (build_stream_blocks _ _ _ _ H1 PS). lia.
  - exact (build_stream_exit _ _ _ _ H1).
Qed.

(* the first phase of update_template restores the live count on every exit, whatever the
   allocator does (this includes the two list-allocation failures) *)
Theorem ut_pre_exit_heap p w w' st :
  ut_pre p w = (w', inr st) -> policy_shape p ->
  w_s w' = w_s w /\ h_live (w_h w') = h_live (w_h w).
Proof.
  intros H PS.
  destruct (ho_run _ _ _ _ (ho_ut_pre p) H) as (S & _).
  split; [exact S|].
  unfold ut_pre in H.
  apply bind_inv in H. destruct H as [(u & w0 & H0 & H)|(s & H0 & _)].
  2:{ apply check_st_inv in H0. destruct H0 as [-> _]. reflexivity. }
  apply check_st_inv in H0. destruct H0 as [-> _].
  unfold bind at 1, get_s in H.
  destruct (ss_template (w_s w)) as [oldt|].
  2:{ unfold exit_with in H. injection H as <- _. reflexivity. }
  apply bind_inv in H. destruct H as [(u1 & w1 & H1 & H)|(s & H1 & _)].
  2:{ apply check_st_inv in H1. destruct H1 as [-> _]. reflexivity. }
  apply check_st_inv in H1. destruct H1 as [-> _].
  unfold bind at 1 in H. rewrite live_now_eq in H.
  apply bind_inv in H. destruct H as [(owned & w2 & H2 & H)|(s & H2 & _)].
  2:{ exact (stream_alloc_exit _ _ _ _ H2). }
  apply bind_inv in H. destruct H as [(r & w3 & H3 & H)|(s & H3 & _)].
  2:{ exfalso. exact (catch_no_exit _ _ _ _ H3). }
  destruct r as [[newt o]|st1].
  - apply catch_inv in H3.
    pose proof (alloc_init_blocks _ _ _ _ _ _ _ H2 H3 PS) as LB.
    apply bind_inv in H. destruct H as [(ok1 & w4 & H4 & H)|(s & H4 & _)].
    2:{ apply alloc1_inv in H4. destruct H4 as (? & E & _). discriminate. }
    apply alloc1_inv in H4. destruct H4 as (ok' & E & L4). injection E as <-.
    destruct ok1; cbn [negb] in H.
    + apply bind_inv in H. destruct H as [(ok2 & w5 & H5 & H)|(s & H5 & _)].
      2:{ apply alloc1_inv in H5. destruct H5 as (? & E & _). discriminate. }
      apply alloc1_inv in H5. destruct H5 as (ok' & E & L5). injection E as <-.
      destruct ok2; cbn [negb] in H; [unfold ret in H; discriminate|].
      apply bind_inv in H. destruct H as [(u6 & w6 & H6 & H)|(s & H6 & _)].
      2:{ apply free_n_inv in H6. destruct H6 as (E & _). discriminate. }
      apply free_n_inv in H6. destruct H6 as (_ & L6).
      apply bind_inv in H. destruct H as [(u7 & w7 & H7 & H)|(s & H7 & _)].
      2:{ apply free_n_inv in H7. destruct H7 as (E & _). discriminate. }
      apply free_n_inv in H7. destruct H7 as (_ & L7).
      unfold exit_with in H. injection H as <- _. lia.
    + apply bind_inv in H. destruct H as [(u6 & w6 & H6 & H)|(s & H6 & _)].
      2:{ apply free_n_inv in H6. destruct H6 as (E & _). discriminate. }
      apply free_n_inv in H6. destruct H6 as (_ & L6).
      unfold exit_with in H. injection H as <- _. lia.
  - apply bind_inv in H. destruct H as [(u4 & w4 & H4 & H)|(s & H4 & _)].
    + apply release_since_inv in H4. destruct H4 as (_ & L & _).
      unfold exit_with in H. injection H as <- _. exact L.
    + apply release_since_inv in H4. destruct H4 as (E & _). discriminate.
Qed.

Print Assumptions acct_stream_alloc.
Print Assumptions build_stream_session.
Print Assumptions build_stream_exit.
Print Assumptions stream_update_specific_exit.
Print Assumptions stream_update_specific_exit_cap.
Print Assumptions stream_update_specific_ok.
Print Assumptions update_template_split.
Print Assumptions ut_pre_exit.
Print Assumptions update_template_phases.
Print Assumptions build_stream_blocks.
Print Assumptions stream_add_second_template_heap.
Print Assumptions ut_pre_exit_heap.
