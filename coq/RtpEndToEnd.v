(* RtpEndToEnd.v — C01 / C12 for SRTP over the WHOLE domain of the property:
   every well-formed explicit stream that does not combine cryptex with an RFC 6904
   header-extension cipher (in_domain_stream), any packet, any alias mode on either side.

     protect_refines_domain          srtp_protect computes protect_fun (RtpSpec.v)
     protect_alias_independent_domain
     protect_emits_rtp_wire_domain   what it emits is rtp_wire
     srtp_protect_unprotect_domain   the peer's srtp_unprotect gives the packet back

   Assembled from RtpRefineXtn.v (s_cryptex = false), RtpRefineCryptex.v (cryptex without
   header-extension cipher) and RtpRoundTripCryptex.v (srtp_round_trip_classes). *)
From Coq Require Import NArith ZArith List Bool Lia.
From Srtp Require Import Util Constants KeyLimit Rdb Rdbx Icm World Stream Rtp
     MonadLemmas EnvelopeProofs WfProofs BoundsRtcp BoundsRtp LengthProofs RtcpSpec RtpSpec RtpSpecProofs
     RtpRoundTrip RtpRoundTripXtn RtpRoundTripCryptex RtpRefineXtn RtpRefineCryptex SpecEqAes.
Import ListNotations.
Local Open Scope Z_scope.

(* the property's domain: cryptex and RFC 6904 header-extension encryption are not combined *)
Definition in_domain_stream (st : stream) : Prop :=
  s_cryptex st = false \/ (s_cryptex st = true /\ forall k, In k (s_keys st) -> k_xtn_c k = None).

Theorem protect_refines_domain i w st0 :
  call_ok w ->
  list_get (ss_list (w_s w)) (hdr_ssrc (in_pkt w)) = Some st0 -> stream_wf st0 -> in_domain_stream st0 ->
  match protect i w with
  | (w', inl l) =>
      exists wire, protect_fun (w_s w) i (b_cap (w_b w)) (in_pkt w) = (w_s w', inl wire) /\
                   l = lenZ wire /\ take (zn l) (b_dst (w_b w')) = wire /\
                   b_src (w_b w') = b_src (w_b w) /\ b_oob (w_b w') = false
  | (w', inr s) =>
      protect_fun (w_s w) i (b_cap (w_b w)) (in_pkt w) = (w_s w', inr s) /\
      b_src (w_b w') = b_src (w_b w) /\ b_oob (w_b w') = false
  end.
Proof.
  intros Hc Hg Hwf [Hd|Hd].
  - exact (protect_refines_xtn i w st0 Hc Hg Hwf Hd).
  - exact (protect_refines_cryptex i w st0 Hc Hg Hwf Hd).
Qed.
Print Assumptions protect_refines_domain.

Theorem protect_alias_independent_domain i wa wo st0 :
  call_ok wa -> call_ok wo ->
  b_alias (w_b wa) = true -> b_alias (w_b wo) = false ->
  w_s wa = w_s wo -> b_cap (w_b wa) = b_cap (w_b wo) -> in_pkt wa = in_pkt wo ->
  list_get (ss_list (w_s wa)) (hdr_ssrc (in_pkt wa)) = Some st0 -> stream_wf st0 -> in_domain_stream st0 ->
  w_s (fst (protect i wa)) = w_s (fst (protect i wo)) /\
  b_src (w_b (fst (protect i wo))) = b_src (w_b wo) /\
  match snd (protect i wa), snd (protect i wo) with
  | inl la, inl lo =>
      la = lo /\ take (zn la) (b_dst (w_b (fst (protect i wa)))) = take (zn lo) (b_dst (w_b (fst (protect i wo))))
  | inr sa, inr so => sa = so
  | _, _ => False
  end.
Proof.
  intros Ha Ho A1 A2 ES EC EP Hg Hwf [Hd|Hd].
  - exact (protect_alias_independent_xtn i wa wo st0 Ha Ho A1 A2 ES EC EP Hg Hwf Hd).
  - exact (protect_alias_independent_cryptex i wa wo st0 Ha Ho A1 A2 ES EC EP Hg Hwf Hd).
Qed.
Print Assumptions protect_alias_independent_domain.

Corollary protect_emits_rtp_wire_domain i w st0 w' l :
  call_ok w ->
  list_get (ss_list (w_s w)) (hdr_ssrc (in_pkt w)) = Some st0 -> stream_wf st0 -> in_domain_stream st0 ->
  protect i w = (w', inl l) ->
  exists ki k est st3 wire,
    sender_key_st (dir_stream st0 dir_srtp_sender_c) i = inl (ki, k) /\
    index_step (charged_stream (dir_stream st0 dir_srtp_sender_c) ki) (hdr_seq (in_pkt w)) = inl (est, st3) /\
    rtp_wire (dir_stream st0 dir_srtp_sender_c) k est (in_pkt w) = Some wire /\
    l = lenZ wire /\ take (zn l) (b_dst (w_b w')) = wire.
Proof.
  intros Hc Hg Hwf [Hd|Hd] E.
  - exact (protect_emits_rtp_wire_xtn i w st0 w' l Hc Hg Hwf Hd E).
  - exact (protect_emits_rtp_wire_cryptex i w st0 w' l Hc Hg Hwf Hd E).
Qed.

(* C01 on two worlds, whole domain.  The packet consists of octets (every real packet does;
   the model's byte lists are lists of N). *)
Theorem srtp_protect_unprotect_domain i ws st0 ws' l wr rt ki delta ss1 :
  (* sender *)
  call_ok ws -> list_get (ss_list (w_s ws)) (hdr_ssrc (in_pkt ws)) = Some st0 -> stream_wf st0 -> in_domain_stream st0 ->
  octets (in_pkt ws) ->
  protect i ws = (ws', inl l) ->
  (* the receiver's input block holds the l octets the sender produced *)
  call_ok wr -> in_pkt wr = take (zn l) (b_dst (w_b ws')) -> b_len (w_b ws) <= b_cap (w_b wr) ->
  list_get (ss_list (w_s wr)) (hdr_ssrc (in_pkt ws)) = Some rt -> stream_wf rt ->
  s_rtp_serv rt = s_rtp_serv st0 -> s_cryptex rt = s_cryptex st0 -> s_use_mki rt = s_use_mki st0 ->
  s_enc_xtn rt = s_enc_xtn st0 -> s_keys rt = s_keys st0 ->
  (forall kj k, sender_key_st (dir_stream st0 dir_srtp_sender_c) i = inl (kj, k) -> key_selected rt ki k) ->
  (forall est st3 kj, index_step (charged_stream (dir_stream st0 dir_srtp_sender_c) kj) (hdr_seq (in_pkt ws)) = inl (est, st3) ->
                      est_index rt (hdr_seq (in_pkt ws)) = (st_ok, est, delta)) ->
  rdbx_check (s_rdbx rt) delta = st_ok ->
  charge_fun (w_s wr) (hdr_ssrc (in_pkt ws)) rt ki = (ss1, inl tt) ->
  exists wr', unprotect wr = (wr', inl (b_len (w_b ws))) /\
              take (zn (b_len (w_b ws))) (b_dst (w_b wr')) = in_pkt ws /\ b_oob (w_b wr') = false /\
              b_src (w_b wr') = b_src (w_b wr).
Proof.
  intros Hcs Hgs Wst Hdom Hoct EPr Hcr Hin HCp Hgr Wrt E1 E2 E3 E4 EK Hsel Hidx Hchk Hch.
  destruct (protect_emits_rtp_wire_domain i ws st0 ws' l Hcs Hgs Wst Hdom EPr) as (kj & k & est & st3 & wire & SK & IS & HW & -> & Hd).
  set (st := dir_stream st0 dir_srtp_sender_c) in *.
  pose proof (dir_stream_cfg st0 dir_srtp_sender_c) as (CK & CM & CU & CXs). fold st in CK, CM, CU, CXs.
  assert (SV : s_rtp_serv st = s_rtp_serv st0 /\ s_enc_xtn st = s_enc_xtn st0).
  { unfold st, dir_stream. destruct (s_dir st0 =? _); [auto|]. destruct (s_dir st0 =? _); auto. }
  destruct SV as [SV SX].
  assert (Hk : In k (s_keys rt)) by (rewrite EK, <- CK; exact (sender_key_st_In _ _ _ _ SK)).
  assert (LP : lenZ (in_pkt ws) = b_len (w_b ws)).
  { destruct Hcs as (_ & HL & _ & _ & HS). unfold in_pkt, lenZ, zn, size_ok in *. rewrite take_length. lia. }
  rewrite Hd in Hin.
  assert (CLS : s_cryptex st = false \/ k_xtn_c k = None /\ (cx_used st (in_pkt ws) = true -> profile_octets (in_pkt ws))).
  { destruct Hdom as [Hd0|[Hd1 Hd2]].
    - left. congruence.
    - right. split.
      + apply Hd2. rewrite <- EK. exact Hk.
      + intros CU'. apply profile_octets_of_octets; [exact Hoct|].
        (* the packet validates (rtp_wire is Some) and has an extension header *)
        unfold cx_used in CU'. apply andb_true_iff in CU'. destruct CU' as [_ HX]. apply Z.eqb_eq in HX.
        assert (EV : validate_rtp (in_pkt ws) (lenZ (in_pkt ws)) = st_ok).
        { unfold rtp_wire, rtp_wire_r in HW.
          destruct (validate_rtp (in_pkt ws) (lenZ (in_pkt ws)) =? st_ok) eqn:EVb; [apply Z.eqb_eq in EVb; exact EVb|].
          cbn [negb] in HW. discriminate. }
        apply validate_rtp_ok in EV. destruct EV as (V1 & V2 & V3). specialize (V3 HX).
        pose proof (xtn_len_ge (in_pkt ws)). lia. }
  destruct (srtp_round_trip_classes st k est (in_pkt ws) wire wr rt ki delta ss1 HW Hcr Hin ltac:(lia) Hgr Wrt
              ltac:(congruence) ltac:(congruence) ltac:(congruence) ltac:(congruence) CLS
              Hk (Hsel _ _ SK) (Hidx _ _ _ IS) Hchk Hch)
    as (wr' & U1 & U2 & U3 & U4).
  rewrite LP in U1, U2. exists wr'. auto.
Qed.
Print Assumptions srtp_protect_unprotect_domain.
