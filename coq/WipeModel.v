(* WipeModel.v — C20: the heap events (wipes and frees, in order) of srtp_stream_dealloc and
   srtp_dealloc, as pure functions of the session structure.  Block sizes and field offsets are
   regenerated from the C headers (Constants.v); the events are compared with what the library
   actually does (allocator + octet_string_set_to_zero wrappers of the implementation driver). *)
From Coq Require Import NArith ZArith List Bool.
From Srtp Require Import Util Constants KeyLimit Rdb Rdbx Icm World Stream.
Import ListNotations.
Local Open Scope Z_scope.

Inductive bkind := KIcmCtx | KCipher | KAuthHmac | KAuthNull | KLimit | KMki | KKeys | KRdbx | KXtnIds
                 | KStream | KEntries | KList | KCtx.

(* block identity inside one trace: (stream number, key index, role) *)
Record bid := { b_stream : Z; b_key : Z; b_role : Z }.

Inductive hev :=
| HW (k : bkind) (id : bid) (size off len : Z)      (* octet_string_set_to_zero(block + off, len) *)
| HF (k : bkind) (id : bid) (size : Z).             (* free(block) *)

(* kinds whose blocks hold key material: expanded AES keys + offset (salt), HMAC pads and states,
   MKI values, the session-keys array (salts) *)
Definition secret_kind (k : bkind) : bool :=
  match k with KIcmCtx | KAuthHmac | KMki | KKeys => true | _ => false end.

Definition cipher_events (sn ki role : Z) (c : ckey) : list hev :=
  let id := {| b_stream := sn; b_key := ki; b_role := role |} in
  if ck_alg c =? SRTP_NULL_CIPHER_c then
    [HW KCipher id sz_cipher_t_c 0 sz_cipher_t_c; HF KCipher id sz_cipher_t_c]
  else
    [HW KIcmCtx id sz_icm_ctx_c 0 sz_icm_ctx_c; HF KIcmCtx id sz_icm_ctx_c;
     HF KCipher {| b_stream := sn; b_key := ki; b_role := role + 100 |} sz_cipher_t_c].

Definition auth_events (sn ki role : Z) (a : akey) : list hev :=
  let id := {| b_stream := sn; b_key := ki; b_role := role |} in
  if ak_kind a =? SRTP_HMAC_SHA1_c then
    [HW KAuthHmac id sz_auth_hmac_c 0 sz_auth_hmac_c; HF KAuthHmac id sz_auth_hmac_c]
  else [HW KAuthNull id sz_auth_null_c 0 sz_auth_null_c; HF KAuthNull id sz_auth_null_c].

(* one element of the session-keys array, in the order of srtp_stream_dealloc *)
Definition key_events (sn : Z) (clone : bool) (nkeys : Z) (ki : Z) (k : skeys) : list hev :=
  let keys_id := {| b_stream := sn; b_key := 0; b_role := 50 |} in
  let ksz := sz_session_keys_c * nkeys in
  (if clone then [] else cipher_events sn ki 1 (k_rtp_c k)) ++
  (if clone then [] else auth_events sn ki 2 (k_rtp_a k)) ++
  (if clone then [] else match k_xtn_c k with Some c => cipher_events sn ki 3 c | None => [] end) ++
  (if clone then [] else cipher_events sn ki 4 (k_rtcp_c k)) ++
  (if clone then [] else auth_events sn ki 5 (k_rtcp_a k)) ++
  [HW KKeys keys_id ksz (ki * sz_session_keys_c + off_salt_c) SRTP_AEAD_SALT_LEN_c;
   HW KKeys keys_id ksz (ki * sz_session_keys_c + off_csalt_c) SRTP_AEAD_SALT_LEN_c] ++
  (match k_mki k with
   | [] => []
   | m => let id := {| b_stream := sn; b_key := ki; b_role := 6 |} in
          [HW KMki id (lenZ m) 0 (lenZ m); HF KMki id (lenZ m)]
   end) ++
  (if clone then [] else [HF KLimit {| b_stream := sn; b_key := ki; b_role := 7 |} sz_limit_c]).

Fixpoint keys_events (sn : Z) (clone : bool) (nkeys : Z) (ki : Z) (ks : list skeys) : list hev :=
  match ks with
  | [] => []
  | k :: t => key_events sn clone nkeys ki k ++ keys_events sn clone nkeys (ki + 1) t
  end.

(* bitvector_alloc: length/32 words, rounded up to a multiple of 16 octets *)
Definition rdbx_bytes (r : rdbx) : Z := ((wlen r / 32 * 4 + 15) / 16) * 16.

(* srtp_stream_dealloc(stream, template): a clone shares ciphers, auth functions, key limits and the
   extension-id list with its template *)
Definition stream_dealloc_events (sn : Z) (s : stream) : list hev :=
  let nkeys := lenZ (s_keys s) in
  keys_events sn (s_clone s) nkeys 0 (s_keys s) ++
  [HF KKeys {| b_stream := sn; b_key := 0; b_role := 50 |} (sz_session_keys_c * nkeys);
   HF KRdbx {| b_stream := sn; b_key := 0; b_role := 51 |} (rdbx_bytes (s_rdbx s))] ++
  (if s_clone s then [] else
     match s_enc_xtn s with [] => [] | ids => [HF KXtnIds {| b_stream := sn; b_key := 0; b_role := 52 |} (lenZ ids)] end) ++
  [HF KStream {| b_stream := sn; b_key := 0; b_role := 53 |} sz_stream_c].

Fixpoint streams_events (sn : Z) (l : list stream) : list hev :=
  match l with
  | [] => []
  | s :: t => stream_dealloc_events sn s ++ streams_events (sn + 1) t
  end.

(* srtp_dealloc: every stream in table order, then the template, the table, the context *)
Definition session_dealloc_events (s : session) : list hev :=
  streams_events 1 (ss_list s) ++
  (match ss_template s with Some t => stream_dealloc_events 0 t | None => [] end) ++
  [HF KEntries {| b_stream := -1; b_key := 0; b_role := 60 |} (sz_list_entry_c * ss_cap s);
   HF KList {| b_stream := -1; b_key := 0; b_role := 61 |} sz_list_c;
   HF KCtx {| b_stream := -1; b_key := 0; b_role := 62 |} sz_ctx_c].

(* what the drivers print: type, block size, offset, length — 13 octets per event *)
Definition hev_bytes (e : hev) : bytes :=
  match e with
  | HW _ _ size off len => [1%N] ++ be_bytes 4 (Z.to_N size) ++ be_bytes 4 (Z.to_N off) ++ be_bytes 4 (Z.to_N len)
  | HF _ _ size => [2%N] ++ be_bytes 4 (Z.to_N size) ++ be_bytes 4 0 ++ be_bytes 4 0
  end.
