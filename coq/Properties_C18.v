(* Properties_C18.v — placeholder until SessionProofs lands: constants only *)
From Coq Require Import ZArith.
From Srtp Require Import Constants.
Theorem c18_placeholder : seq_num_median_c = 32768%Z.
Proof. reflexivity. Qed.
