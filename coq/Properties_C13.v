(* Properties_C13.v — rejected input leaves the receiving session unchanged (C13).
   Statements only; proofs in RejectProofs.v.  `unprotect` / `unprotect_rtcp` are the
   models (Rtp.v, Rtcp.v) of srtp_unprotect / srtp_unprotect_rtcp, tied to srtp/srtp.c by the
   correspondence runs; `world` carries the session (stream table with every stream's replay
   windows, ROC, pending ROC, SRTCP index, direction, key budgets), the heap counters and the
   event log. *)
From Coq Require Import NArith ZArith List Bool.
From Srtp Require Import Util Constants World Rtp Rtcp RejectProofs.
Import ListNotations.
Local Open Scope Z_scope.

(* whatever the packet bytes, the session state and the stream table: a call that returns
   no_ctx / bad_mki / auth_fail / replay_fail / replay_old / pkt_idx_old / cant_check /
   buffer_small leaves session, heap (live blocks, allocation attempts) and event log as they were *)
Theorem srtp_reject_is_noop : forall w w' st,
  unprotect w = (w', inr st) -> rejected st ->
  w_s w' = w_s w /\ w_h w' = w_h w /\ w_ev w' = w_ev w.
Proof. exact unprotect_reject_noop. Qed.
Print Assumptions srtp_reject_is_noop.

Theorem srtcp_reject_is_noop : forall w w' st,
  unprotect_rtcp w = (w', inr st) -> rejected st ->
  w_s w' = w_s w /\ w_h w' = w_h w /\ w_ev w' = w_ev w.
Proof. exact unprotect_rtcp_reject_noop. Qed.
Print Assumptions srtcp_reject_is_noop.

(* malformed packets are refused before anything else happens: nothing at all changes *)
Theorem srtp_malformed_is_noop : forall w,
  let b := w_b w in
  validate_rtp (take (zn (b_len b)) (cur_src b)) (b_len b) <> st_ok ->
  unprotect w = (w, inr (validate_rtp (take (zn (b_len b)) (cur_src b)) (b_len b))).
Proof. exact unprotect_malformed. Qed.
Print Assumptions srtp_malformed_is_noop.

Theorem srtcp_short_is_noop : forall w,
  b_len (w_b w) < octets_in_rtcp_header_c + trailer_len ->
  unprotect_rtcp w = (w, inr st_bad_param).
Proof. exact unprotect_rtcp_short. Qed.
Print Assumptions srtcp_short_is_noop.

(* the mechanism: the whole pre-authentication phase never writes the session *)
Theorem pre_auth_phase_is_read_only :
  (forall w, let '(w', _) := unprotect_pre w in w_s w' = w_s w /\ w_h w' = w_h w /\ w_ev w' = w_ev w) /\
  (forall w, let '(w', _) := unprotect_rtcp_pre w in w_s w' = w_s w /\ w_h w' = w_h w /\ w_ev w' = w_ev w).
Proof. exact (conj sp_unprotect_pre sp_unprotect_rtcp_pre). Qed.
Print Assumptions pre_auth_phase_is_read_only.

(* non-vacuity: a packet for an unknown SSRC on a session without wildcard is rejected with no_ctx *)
Example reject_example :
  let w := {| w_s := {| ss_template := None; ss_list := []; ss_cap := 2 |};
              w_b := {| b_src := []; b_dst := repeat 128%N 1 ++ repeat 0%N 23; b_alias := true;
                        b_len := 24; b_cap := 24; b_oob := false |};
              w_ev := []; w_iv := [];
              w_h := {| h_live := 0; h_att := 0; h_fail := 0; h_frees := 0; h_dirty := 0 |} |} in
  snd (unprotect w) = inr st_no_ctx /\ rejected st_no_ctx.
Proof. split; [vm_compute; reflexivity | unfold rejected; tauto]. Qed.

(* ---- AES-GCM (RFC 7714) receive functions (Aead.v), OpenSSL configuration; statements printed by Coq's Check ---- *)
From Srtp Require Import Util Constants KeyLimit Rdb Rdbx Icm World Stream Rtp Rtcp Aead AeadRejectProofs.
(* AES-GCM: srtp_unprotect_aead = pre phase (up to and including the GCM verification) ;; post phase   [AeadRejectProofs.v] *)
Theorem C13_unprotect_aead_split :
  meq unprotect_aead (u <- unprotect_aead_pre;; unprotect_aead_post u).
Proof. exact unprotect_aead_split. Qed.
Print Assumptions C13_unprotect_aead_split.

(* the exits of the AEAD receive function: inside the pre phase nothing has changed; after it GCM has accepted the packet   [AeadRejectProofs.v] *)
Theorem C13_unprotect_aead_exit_cases :
  forall (w w' : world) (st : Z),
       unprotect_aead w = (w', inr st) ->
       unprotect_aead_pre w = (w', inr st) /\ noop w w' \/
       (exists (u : apre) (w1 : world) (iv aad d : bytes) (room : Z),
          unprotect_aead_pre w = (w1, inl u) /\
          noop w w1 /\
          gcm_open (k_rtp_c (a_k u)) (ak_tag (k_rtp_a (a_k u))) iv aad d room = (st_ok, a_o u) /\
          a_pkt u = take (zn (b_len (w_b w))) (cur_src (w_b w)) /\
          unprotect_aead_post u w1 = (w', inr st) /\
          aead_post_status u st /\ (tmpl_ok (w_s w) -> st <> st_bad_param)).
Proof. exact unprotect_aead_exit_cases. Qed.
Print Assumptions C13_unprotect_aead_exit_cases.

(* a rejected call (unknown SSRC / MKI, failed authentication, replay, small buffer, cryptex refusal, cipher failure) leaves session, heap and event log as they were   [AeadRejectProofs.v] *)
Theorem C13_unprotect_aead_reject_noop_partial :
  forall (w w' : world) (st : Z),
       unprotect_aead w = (w', inr st) ->
       aead_rejected st -> w_s w' = w_s w /\ w_h w' = w_h w /\ w_ev w' = w_ev w.
Proof. exact unprotect_aead_reject_noop_partial. Qed.
Print Assumptions C13_unprotect_aead_reject_noop_partial.

(* ... including malformed input, for sessions the API can build and packets without extension header   [AeadRejectProofs.v] *)
Theorem C13_unprotect_aead_reject_noop :
  forall (w w' : world) (st : Z),
       tmpl_ok (w_s w) ->
       hdr_x (take (zn (b_len (w_b w))) (cur_src (w_b w))) <> 1 ->
       unprotect_aead w = (w', inr st) ->
       c13_rejected st -> w_s w' = w_s w /\ w_h w' = w_h w /\ w_ev w' = w_ev w.
Proof. exact unprotect_aead_reject_noop. Qed.
Print Assumptions C13_unprotect_aead_reject_noop.

(* which statuses can come with a changed session at all (key_expired, allocation failure of the wildcard clone, parse_err of the RFC 6904 step after authentication)   [AeadRejectProofs.v] *)
Theorem C13_unprotect_aead_changed_status :
  forall (w w' : world) (st : Z),
       unprotect_aead w = (w', inr st) ->
       ~ noop w w' ->
       st = st_key_expired \/
       st = st_fail \/
       st = st_parse_err \/ st = st_alloc_fail \/ st = st_init_fail \/ st = st_bad_param /\ ~ tmpl_ok (w_s w).
Proof. exact unprotect_aead_changed_status. Qed.
Print Assumptions C13_unprotect_aead_changed_status.

(* after authentication the key budget is charged before the RFC 6904 step can still refuse the packet (as in the non-AEAD path): evaluated witness   [AeadRejectProofs.v] *)
Theorem C13_unprotect_aead_parse_err_witness :
  WfProofs.session_wf (w_s AeadWitness.wit) /\
       tmpl_ok (w_s AeadWitness.wit) /\
       snd (unprotect_aead AeadWitness.wit) = inr st_parse_err /\
       AeadWitness.budget AeadWitness.wit = [key_limit_init_c] /\
       AeadWitness.budget (fst (unprotect_aead AeadWitness.wit)) = [key_limit_init_c - 1] /\
       b_oob (w_b (fst (unprotect_aead AeadWitness.wit))) = false.
Proof. exact unprotect_aead_parse_err_witness. Qed.
Print Assumptions C13_unprotect_aead_parse_err_witness.

(* SRTCP   [AeadRejectProofs.v] *)
Theorem C13_unprotect_rtcp_aead_split :
  meq unprotect_rtcp_aead (u <- unprotect_rtcp_aead_pre;; unprotect_rtcp_aead_post u).
Proof. exact unprotect_rtcp_aead_split. Qed.
Print Assumptions C13_unprotect_rtcp_aead_split.

(*    [AeadRejectProofs.v] *)
Theorem C13_unprotect_rtcp_aead_reject_noop_partial :
  forall (w w' : world) (st : Z),
       unprotect_rtcp_aead w = (w', inr st) ->
       rtcp_aead_rejected st -> w_s w' = w_s w /\ w_h w' = w_h w /\ w_ev w' = w_ev w.
Proof. exact unprotect_rtcp_aead_reject_noop_partial. Qed.
Print Assumptions C13_unprotect_rtcp_aead_reject_noop_partial.

(*    [AeadRejectProofs.v] *)
Theorem C13_unprotect_rtcp_aead_reject_noop :
  forall (w w' : world) (st : Z),
       tmpl_ok (w_s w) ->
       unprotect_rtcp_aead w = (w', inr st) ->
       c13_rejected st -> w_s w' = w_s w /\ w_h w' = w_h w /\ w_ev w' = w_ev w.
Proof. exact unprotect_rtcp_aead_reject_noop. Qed.
Print Assumptions C13_unprotect_rtcp_aead_reject_noop.

(*    [AeadRejectProofs.v] *)
Theorem C13_unprotect_rtcp_aead_changed_status :
  forall (w w' : world) (st : Z),
       unprotect_rtcp_aead w = (w', inr st) ->
       ~ noop w w' ->
       st = st_fail \/ st = st_alloc_fail \/ st = st_init_fail \/ st = st_bad_param /\ ~ tmpl_ok (w_s w).
Proof. exact unprotect_rtcp_aead_changed_status. Qed.
Print Assumptions C13_unprotect_rtcp_aead_changed_status.

