(* Properties_C13.v — rejected input leaves the receiving session unchanged (C13).
   Statements only; proofs in RejectProofs.v.  `unprotect` / `unprotect_rtcp` are the
   models (Rtp.v, Rtcp.v) of srtp_unprotect / srtp_unprotect_rtcp, tied to srtp/srtp.c by the
   correspondence runs; `world` carries the session (stream table with every stream's replay
   windows, ROC, pending ROC, SRTCP index, direction, key budgets), the heap counters and the
   event log. *)
From Coq Require Import NArith ZArith List Bool.
From Srtp Require Import Util Constants World Rtp Rtcp RejectProofs.
Import ListNotations.
Local Open Scope Z_scope.

(* whatever the packet bytes, the session state and the stream table: a call that returns
   no_ctx / bad_mki / auth_fail / replay_fail / replay_old / pkt_idx_old / cant_check /
   buffer_small leaves session, heap (live blocks, allocation attempts) and event log as they were *)
Theorem srtp_reject_is_noop : forall w w' st,
  unprotect w = (w', inr st) -> rejected st ->
  w_s w' = w_s w /\ w_h w' = w_h w /\ w_ev w' = w_ev w.
Proof. exact unprotect_reject_noop. Qed.
Print Assumptions srtp_reject_is_noop.

Theorem srtcp_reject_is_noop : forall w w' st,
  unprotect_rtcp w = (w', inr st) -> rejected st ->
  w_s w' = w_s w /\ w_h w' = w_h w /\ w_ev w' = w_ev w.
Proof. exact unprotect_rtcp_reject_noop. Qed.
Print Assumptions srtcp_reject_is_noop.

(* malformed packets are refused before anything else happens: nothing at all changes *)
Theorem srtp_malformed_is_noop : forall w,
  let b := w_b w in
  validate_rtp (take (zn (b_len b)) (cur_src b)) (b_len b) <> st_ok ->
  unprotect w = (w, inr (validate_rtp (take (zn (b_len b)) (cur_src b)) (b_len b))).
Proof. exact unprotect_malformed. Qed.
Print Assumptions srtp_malformed_is_noop.

Theorem srtcp_short_is_noop : forall w,
  b_len (w_b w) < octets_in_rtcp_header_c + trailer_len ->
  unprotect_rtcp w = (w, inr st_bad_param).
Proof. exact unprotect_rtcp_short. Qed.
Print Assumptions srtcp_short_is_noop.

(* the mechanism: the whole pre-authentication phase never writes the session *)
Theorem pre_auth_phase_is_read_only :
  (forall w, let '(w', _) := unprotect_pre w in w_s w' = w_s w /\ w_h w' = w_h w /\ w_ev w' = w_ev w) /\
  (forall w, let '(w', _) := unprotect_rtcp_pre w in w_s w' = w_s w /\ w_h w' = w_h w /\ w_ev w' = w_ev w).
Proof. exact (conj sp_unprotect_pre sp_unprotect_rtcp_pre). Qed.
Print Assumptions pre_auth_phase_is_read_only.

(* non-vacuity: a packet for an unknown SSRC on a session without wildcard is rejected with no_ctx *)
Example reject_example :
  let w := {| w_s := {| ss_template := None; ss_list := []; ss_cap := 2 |};
              w_b := {| b_src := []; b_dst := repeat 128%N 1 ++ repeat 0%N 23; b_alias := true;
                        b_len := 24; b_cap := 24; b_oob := false |};
              w_ev := []; w_iv := [];
              w_h := {| h_live := 0; h_att := 0; h_fail := 0; h_frees := 0; h_dirty := 0 |} |} in
  snd (unprotect w) = inr st_no_ctx /\ rejected st_no_ctx.
Proof. split; [vm_compute; reflexivity | unfold rejected; tauto]. Qed.
